import PysnarkModel.Lemmas.PyRunOps5
import PysnarkModel.Lemmas.InvRun
import PysnarkModel.Lemmas.IteTag
/-!
# C05 at program level: selection, one instruction, the whole run (agreement)

`step_py`: one instruction of a program in `PyFragment` — the reference step does not stop and the
new register is related to the reference register.  `runAux_py`: induction over the instruction
list.  The tracer invariant (`RInvN`, Lemmas/InvRun.lean) is carried along: it supplies the
"configuration unchanged" facts for method calls and secret-index array accesses.
-/
set_option linter.unusedSimpArgs false
namespace Pysnark

/-! ## selection -/
section ite
variable {s s' : St} {t f v : Val}

theorem smallIntSame_py {pt pf : PyVal} (ht : ValRef t pt) (hf : ValRef f pf)
    (h : smallIntSame t f = true) : pySameObj pt pf = true := by
  cases t <;> cases f <;> simp only [smallIntSame, Bool.false_eq_true] at h
  · rw [valRef_none_iff.mp ht, valRef_none_iff.mp hf]; rfl
  · rw [valRef_int_iff.mp ht, valRef_int_iff.mp hf]
    simp only [Bool.and_eq_true, beq_iff_eq, decide_eq_true_eq] at h
    simp [pySameObj, h.1.1]

/-- `falsev + cond * (truev - falsev)` on scalars; a boolean (whose value the constructor has tested)
exactly when both branches are booleans -/
theorem iteAux_sc {c : LinComb} {n : Nat} (hn : smallIntSame t f = false) (ht : t.isPy = true)
    (hf : f.isPy = true) (hts : t.isSeq = false) (h : iteAux c (n+1) t f s = .ok (v, s')) :
    t.isSc = true ∧ f.isSc = true ∧ Same s s' ∧ v.isSc = true ∧ v.isLcb = (t.isLcb && f.isLcb) ∧
      v.num = f.num + c.value * (t.num - f.num) ∧ (v.isLcb = true → v.num = 0 ∨ v.num = 1) := by
  have key : ∀ {s0 s0' : St}, (do
        let f' ← (pure f : M Val)
        let d ← subV t f'
        let prod ← mulLV c d
        let ret ← addV f' prod
        iteTag t f' ret) s0 = .ok (v, s0') →
      t.isSc = true ∧ f.isSc = true ∧ Same s0 s0' ∧ v.isSc = true ∧ v.isLcb = (t.isLcb && f.isLcb) ∧
        v.num = f.num + c.value * (t.num - f.num) ∧ (v.isLcb = true → v.num = 0 ∨ v.num = 1) := by
    intro s0 s0' hk
    obtain ⟨f', s1, h1, hk1⟩ := bind_ok.mp hk
    obtain ⟨rfl, rfl⟩ := pure_ok' h1
    obtain ⟨d, s2, h2, hk2⟩ := bind_ok.mp hk1
    obtain ⟨prod, s3, h3, hk3⟩ := bind_ok.mp hk2
    obtain ⟨ret, s4, h4, hk4⟩ := bind_ok.mp hk3
    obtain ⟨st, sf⟩ := subV_ok_sc ht hf h2
    obtain ⟨rfl, sd, -, nd, -⟩ := subV_sc st sf h2
    obtain ⟨sm, z, rfl, vz⟩ := mulLV_sc sd h3
    obtain ⟨rfl, sv, lv, nv, hlc⟩ := addV_sc sf (b := .lc z) rfl h4
    have nv' : ret.num = f.num + c.value * (t.num - f.num) := by rw [nv, Val.num_lc, vz, nd]
    by_cases hbb : bothLcb t f = true
    · -- two booleans: `LinCombBool(ret, False)`
      cases t <;> cases f <;> simp only [bothLcb, reduceCtorEq] at hbb
      obtain ⟨w, rfl⟩ := Val.isLc_iff.mp (hlc rfl)
      rw [iteTag_bb] at hk4
      obtain ⟨b, s5, h5, hk5⟩ := bind_ok.mp hk4
      obtain ⟨rfl, rfl⟩ := pure_ok' hk5
      obtain ⟨sm2, rfl, hb⟩ := mkBool_val h5
      exact ⟨st, sf, sm.trans sm2, rfl, rfl, nv', fun _ => hb⟩
    · rw [iteTag_other _ (by simpa using hbb)] at hk4
      obtain ⟨rfl, rfl⟩ := pure_ok' hk4
      have hl : (t.isLcb && f.isLcb) = false := by
        cases t <;> cases f <;> first | rfl | exact absurd rfl hbb
      exact ⟨st, sf, sm, sv, by rw [lv, hl], nv', fun h => by rw [lv] at h; cases h⟩
  unfold iteAux at h
  simp only [hn, Bool.false_eq_true, if_false] at h
  cases t with
  | list ts => simp [Val.isSeq] at hts
  | tuple ts => simp [Val.isSeq] at hts
  | fxp x => simp [Val.isPy] at ht
  | flt m e => simp [Val.isPy] at ht
  | none => exact key h
  | int c => exact key h
  | lc x => exact key h
  | lcb x => exact key h

theorem pySameObj_int {pt pf : PyVal} (h : pySameObj pt pf = true) :
    (pt = .none ∧ pf = .none) ∨ ∃ a, pt = .int a ∧ pf = .int a := by
  cases pt <;> cases pf <;> simp only [pySameObj, Bool.false_eq_true, beq_iff_eq] at h
  · exact Or.inl ⟨rfl, rfl⟩
  · exact Or.inr ⟨_, rfl, by rw [h]⟩

theorem valRef_int_num {a : Val} {x : Int} (h : ValRef a (.int x)) :
    a.isSc = true ∧ a.isLcb = false ∧ a.num = x ∧ a.isSeq = false := by
  cases a with
  | int c => have := valRef_int_iff.mp h; simp only [PyVal.int.injEq] at this; exact ⟨rfl, rfl, this.symm, rfl⟩
  | lc z => have := valRef_lc_iff.mp h; simp only [PyVal.int.injEq] at this; exact ⟨rfl, rfl, this.symm, rfl⟩
  | lcb z => have := (valRef_lcb_iff.mp h).1; cases this
  | none => have := valRef_none_iff.mp h; cases this
  | list xs => obtain ⟨_, e, _⟩ := valRef_list_iff.mp h; cases e
  | tuple xs => obtain ⟨_, e, _⟩ := valRef_tuple_iff.mp h; cases e
  | fxp z => exact (valRef_fxp h).elim
  | flt m e => exact (valRef_flt h).elim

/-- **`if_then_else`** on registers -/
theorem ifThenElse_py {cond : Val} {same : Bool} {pc pt pf : PyVal} (hc : ValRef cond pc)
    (ht : ValRef t pt) (hf : ValRef f pf)
    (hx : cond.isLcb = true → same = false → (t.isSeq || f.isSeq) = false)
    (h : ifThenElse cond same t f s = .ok (v, s')) :
    Same s s' ∧ ∃ pv, pyIte same pc pt pf = .ok pv ∧ ValRef v pv := by
  unfold ifThenElse at h
  by_cases hsh : (same || smallIntSame t f) = true
  · simp only [hsh, if_true] at h
    obtain ⟨rfl, rfl⟩ := pure_ok' h
    have : (same || pySameObj pt pf) = true := by
      rcases Bool.or_eq_true_iff.mp hsh with h1 | h1
      · simp [h1]
      · simp [smallIntSame_py ht hf h1]
    exact ⟨Same.refl _, pt, by simp only [pyIte, this, if_true], ht⟩
  · have hsame : same = false := by
      cases same with
      | false => rfl
      | true => simp at hsh
    have hsm : smallIntSame t f = false := by
      cases hq : smallIntSame t f with
      | false => rfl
      | true => simp [hq] at hsh
    simp only [hsh, Bool.false_eq_true, if_false] at h
    subst hsame
    by_cases hso : pySameObj pt pf = true
    · -- equal plain values: the reference returns `truev`; every pick has that value
      have hpy : pyIte false pc pt pf = .ok pt := by simp only [pyIte, hso, Bool.false_or, if_true]
      rcases pySameObj_int hso with ⟨rfl, rfl⟩ | ⟨a, rfl, rfl⟩
      · -- both `None`: the model takes the shortcut
        exfalso
        have e1 : t = .none := by
          cases t <;> simp_all [ValRef, valRef]
        have e2 : f = .none := by
          cases f <;> simp_all [ValRef, valRef]
        subst e1; subst e2
        simp [smallIntSame] at hsm
      · obtain ⟨st, lt, nt, qt⟩ := valRef_int_num ht
        obtain ⟨sf, lf, nf, qf⟩ := valRef_int_num hf
        cases cond with
        | int c =>
          simp only at h
          split at h
          · exact (raise_ok.mp h).elim
          · obtain ⟨rfl, rfl⟩ := pure_ok' h
            refine ⟨Same.refl _, _, hpy, ?_⟩
            split
            · exact ht
            · exact hf
        | lcb c =>
          simp only at h
          obtain ⟨-, -, sm, sv, lv, nv, -⟩ := iteAux_sc hsm ht.isPy hf.isPy qt h
          refine ⟨sm, _, hpy, valRef_of_intres sv (by rw [lv, lt]; rfl) ?_⟩
          rw [nv, nt, nf]; ring
        | _ => simp only [raise_ok] at h
    · have hso' : pySameObj pt pf = false := by
        cases hq : pySameObj pt pf with
        | false => rfl
        | true => exact absurd hq hso
      cases cond with
      | int c =>
        rw [valRef_int_iff.mp hc]
        simp only at h
        split at h
        · exact (raise_ok.mp h).elim
        · rename_i hcc
          obtain ⟨rfl, rfl⟩ := pure_ok' h
          have h01 : c = 0 ∨ c = 1 := by
            simp only [Bool.and_eq_true, bne_iff_ne, ne_eq, not_and, not_not] at hcc
            by_cases h0 : c = 0
            · exact Or.inl h0
            · exact Or.inr (hcc h0)
          refine ⟨Same.refl _, ?_⟩
          rcases h01 with rfl | rfl
          · exact ⟨pf, by simp [pyIte, hso'], by simpa using hf⟩
          · exact ⟨pt, by simp [pyIte, hso'], by simpa using ht⟩
      | lcb c =>
        obtain ⟨e, hb⟩ := valRef_lcb_iff.mp hc
        rw [e]
        simp only at h
        have hq := hx rfl rfl
        simp only [Bool.or_eq_false_iff] at hq
        obtain ⟨st, sf, sm, sv, lv, nv, hvb⟩ := iteAux_sc hsm ht.isPy hf.isPy hq.1 h
        obtain ⟨nt, bt, -⟩ := ht.sc st
        obtain ⟨nf, bf, -⟩ := hf.sc sf
        have nv' : v.num = if c.value = 0 then f.num else t.num := by
          rw [nv]
          rcases hb with h0 | h1
          · simp [h0]
          · simp [h1]
        refine ⟨sm, pyTag (t.isLcb && f.isLcb) (if c.value = 0 then f.num else t.num), ?_, ?_⟩
        · simp only [pyIte, hso', Bool.or_self, Bool.false_eq_true, if_false, nt, nf, bt, bf]
        · cases hl : (t.isLcb && f.isLcb) with
          | false =>
            simp only [pyTag, Bool.false_eq_true, if_false]
            exact valRef_of_intres sv (by rw [lv, hl]) nv'
          | true =>
            simp only [pyTag, if_true]
            rw [hl] at lv
            obtain ⟨w, rfl⟩ : ∃ w, v = .lcb w := by
              cases v <;> simp only [Val.isLcb, Bool.false_eq_true] at lv
              exact ⟨_, rfl⟩
            exact valRef_lcb_res nv' (nv' ▸ hvb lv)
      | _ => simp only [raise_ok] at h
end ite

/-! ## the run relation -/

/-- what is carried along the run: the tracer invariant, no guard / error checking on / `ONE`
unchanged, the bit length of the reference, no open `guarded` frame, registers related -/
structure PyRel (st : St) (regs : List Val) (frames : List GuardBak) (pregs : List PyVal) (bl : Nat) :
    Prop where
  inv : RInvN st regs frames
  ok : PyOk st
  bl : st.bitlength = bl
  fr : frames = []
  regs : ValRefL regs pregs

theorem PyRel.goodV {st : St} {regs : List Val} {frames : List GuardBak} {pregs : List PyVal} {bl : Nat}
    (hR : PyRel st regs frames pregs bl) {i : Nat} {x : Val} (hx : regs[i]? = some x) : GoodV st x :=
  hR.inv.regs x (List.mem_of_getElem? hx)

theorem pyGets_mem {regs : List Val} : ∀ {is : List Nat} {vs : List Val} {s s' : St},
    getRegs regs is s = .ok (vs, s') → ∀ v ∈ vs, v ∈ regs := fun h => (getRegs_ok h).2

theorem pySeqIdx_py {xs : List Val} {ys : List PyVal} {i : Int} {k : Nat} {x : Val} (hxy : ValRefL xs ys)
    (hk : pyIndex xs.length i = some k) (hx : xs[k]? = some x) :
    ∃ y, pySeqIdx ys i = .ok y ∧ ValRef x y := by
  obtain ⟨y, hy, hv⟩ := hxy.get hx
  refine ⟨y, ?_, hv⟩
  unfold pySeqIdx
  rw [← hxy.length, hk]
  simp only [hy]

theorem isIntLike_ref {x : Val} {y : PyVal} (h : ValRef x y) (hi : x.isIntLike = true) :
    x.isNum = true ∧ y = .int x.ival := by
  cases x <;> simp only [Val.isIntLike, Bool.false_eq_true] at hi
  · exact ⟨rfl, valRef_int_iff.mp h⟩
  · exact ⟨rfl, valRef_lc_iff.mp h⟩

theorem isNum_ref {x : Val} (h : x.isNum = true) : ValRef x (.int x.ival) := by
  cases x <;> simp only [Val.isNum, Bool.false_eq_true] at h
  · exact valRef_int_res _
  · exact valRef_lc_res rfl

/-- the final `pure (r, regs, frames)` of an arm of `step` -/
theorem step_fin_eq {r v : Val} {regs regs' : List Val} {frames frames' : List GuardBak} {s s' : St}
    (h : (pure (r, regs, frames) : M (Val × List Val × List GuardBak)) s = .ok ((v, regs', frames'), s')) :
    r = v ∧ regs = regs' ∧ frames = frames' ∧ s = s' := by
  obtain ⟨e, rfl⟩ := pure_ok' h
  simp only [Prod.mk.injEq] at e
  exact ⟨e.1, e.2.1, e.2.2, rfl⟩

/-- **one instruction** of a program in the fragment -/
theorem step_py {st st' : St} {regs regs' : List Val} {frames frames' : List GuardBak} {pregs : List PyVal}
    {bl : Nat} {i : Instr} {v : Val} (hR : PyRel st regs frames pregs bl)
    (hx : i.pyExcl st regs = none)
    (h : step regs frames i st = .ok ((v, regs', frames'), st')) :
    ∃ pv pregs' bl', pyStep bl pregs i = .ok (pv, pregs', bl') ∧
      PyRel st' (regs' ++ [v]) frames' (pregs' ++ [pv]) bl' ∧ st'.p = st.p := by
  have hinv := hR.inv.inv
  have hP := hR.inv.prime
  have hk := hR.ok
  -- the invariant after the step
  have hset : i.isSetIgn = false := by
    cases i <;> first | rfl | (simp [Instr.pyExcl] at hx)
  have hlit : ∀ w, i = .lit w → ∀ s, GoodV s w := by
    intro w hw s
    subst hw
    simp only [Instr.pyExcl] at hx
    cases hl : pyLit w with
    | none => simp [hl] at hx; split at hx <;> cases hx
    | some pw => exact (pyLit_spec w hl).2 s
  have hinv' := step_inv hR.inv hset hlit h
  -- assembling the conclusion from `Same` and the new register
  have fin : ∀ {pv : PyVal}, Same st st' → regs' = regs → frames' = frames → ValRef v pv →
      PyRel st' (regs' ++ [v]) frames' (pregs ++ [pv]) bl ∧ st'.p = st.p := by
    intro pv sm e1 e2 hv
    subst e1; subst e2
    exact ⟨⟨hinv', hk.same sm, sm.bl.trans hR.bl, hR.fr, hR.regs.snoc hv⟩, sm.p⟩
  cases i
  case lit w =>
    simp only [Instr.pyExcl] at hx
    cases hl : pyLit w with
    | none => simp [hl] at hx; split at hx <;> cases hx
    | some pw =>
      unfold step at h; simp only at h
      obtain ⟨rfl, rfl, rfl, rfl⟩ := step_fin_eq h
      exact ⟨pw, pregs, bl, by simp only [pyStep, hl], fin (Same.refl _) rfl rfl (pyLit_spec _ hl).1⟩
  case mk k a =>
    unfold step at h; simp only at h
    obtain ⟨x, s1, h1, h⟩ := bind_ok.mp h
    obtain ⟨hxa, rfl⟩ := getReg_iff.mp h1
    obtain ⟨r, s2, h2, h⟩ := bind_ok.mp h
    obtain ⟨rfl, rfl, rfl, rfl⟩ := step_fin_eq h
    obtain ⟨px, hpx, hvx⟩ := pyGet_of hR.regs hxa
    have hk1 : k ≠ .privx := by rintro rfl; simp [Instr.pyExcl] at hx
    have hk2 : k ≠ .pubx := by rintro rfl; simp [Instr.pyExcl] at hx
    obtain ⟨sm, pr, hpr, hvr⟩ := mkVal_py hvx hk1 hk2 h2
    exact ⟨pr, pregs, bl, by simp only [pyStep, hpx, hpr], fin sm rfl rfl hvr⟩
  case wrapb a =>
    unfold step at h; simp only at h
    obtain ⟨x, s1, h1, h⟩ := bind_ok.mp h
    obtain ⟨hxa, rfl⟩ := getReg_iff.mp h1
    obtain ⟨r, s2, h2, h⟩ := bind_ok.mp h
    obtain ⟨rfl, rfl, rfl, rfl⟩ := step_fin_eq h
    obtain ⟨px, hpx, hvx⟩ := pyGet_of hR.regs hxa
    obtain ⟨sm, pr, hpr, hvr⟩ := wrapBool_py hvx h2
    exact ⟨pr, pregs, bl, by simp only [pyStep, hpx, hpr], fin sm rfl rfl hvr⟩
  case wrapx a => simp [Instr.pyExcl] at hx
  case bin op a b =>
    unfold step at h; simp only at h
    obtain ⟨x, s1, h1, h⟩ := bind_ok.mp h
    obtain ⟨hxa, rfl⟩ := getReg_iff.mp h1
    obtain ⟨y, s1, h1', h⟩ := bind_ok.mp h
    obtain ⟨hxb, rfl⟩ := getReg_iff.mp h1'
    obtain ⟨r, s2, h2, h⟩ := bind_ok.mp h
    obtain ⟨rfl, rfl, rfl, rfl⟩ := step_fin_eq h
    obtain ⟨px, hpx, hvx⟩ := pyGet_of hR.regs hxa
    obtain ⟨py, hpy, hvy⟩ := pyGet_of hR.regs hxb
    simp only [Instr.pyExcl, hxa, hxb] at hx
    obtain ⟨sm, pr, hpr, hvr⟩ := binopV_py hk hP hvx hvy hx h2
    exact ⟨pr, pregs, bl, by simp only [pyStep, hpx, hpy, hpr], fin sm rfl rfl hvr⟩
  case un op a =>
    unfold step at h; simp only at h
    obtain ⟨x, s1, h1, h⟩ := bind_ok.mp h
    obtain ⟨hxa, rfl⟩ := getReg_iff.mp h1
    obtain ⟨r, s2, h2, h⟩ := bind_ok.mp h
    obtain ⟨rfl, rfl, rfl, rfl⟩ := step_fin_eq h
    obtain ⟨px, hpx, hvx⟩ := pyGet_of hR.regs hxa
    have hxx : ∀ z, op = .invert → x ≠ .lc z := by
      rintro z rfl rfl
      simp [Instr.pyExcl, hxa] at hx
    obtain ⟨sm, pr, hpr, hvr⟩ := unV_py hk hvx hxx h2
    exact ⟨pr, pregs, bl, by simp only [pyStep, hpx, hpr], fin sm rfl rfl hvr⟩
  case call m self args =>
    unfold step at h; simp only at h
    obtain ⟨x, s1, h1, h⟩ := bind_ok.mp h
    obtain ⟨hxa, rfl⟩ := getReg_iff.mp h1
    obtain ⟨as, s1, h1', h⟩ := bind_ok.mp h
    obtain ⟨rfl, pas, hpas, hvas⟩ := getRegs_py hR.regs h1'
    obtain ⟨r, s2, h2, h⟩ := bind_ok.mp h
    obtain ⟨rfl, rfl, rfl, rfl⟩ := step_fin_eq h
    obtain ⟨px, hpx, hvx⟩ := pyGet_of hR.regs hxa
    obtain ⟨sm, pr, hpr, hvr⟩ := callMeth_py hk hinv hP (hR.goodV hxa)
      (fun w hw => hR.inv.regs w (pyGets_mem h1' w hw)) hR.bl hvx hvas h2
    exact ⟨pr, pregs, bl, by simp only [pyStep, hpx, hpas, hpr], fin sm rfl rfl hvr⟩
  case ite c t f =>
    unfold step at h; simp only at h
    obtain ⟨cv, s1, h1, h⟩ := bind_ok.mp h
    obtain ⟨hxc, rfl⟩ := getReg_iff.mp h1
    obtain ⟨tv, s1, h1', h⟩ := bind_ok.mp h
    obtain ⟨hxt, rfl⟩ := getReg_iff.mp h1'
    obtain ⟨fv, s1, h1'', h⟩ := bind_ok.mp h
    obtain ⟨hxf, rfl⟩ := getReg_iff.mp h1''
    obtain ⟨r, s2, h2, h⟩ := bind_ok.mp h
    obtain ⟨rfl, rfl, rfl, rfl⟩ := step_fin_eq h
    obtain ⟨pc, hpc, hvc⟩ := pyGet_of hR.regs hxc
    obtain ⟨pt, hpt, hvt⟩ := pyGet_of hR.regs hxt
    obtain ⟨pf, hpf, hvf⟩ := pyGet_of hR.regs hxf
    have hxx : cv.isLcb = true → (t == f) = false → (tv.isSeq || fv.isSeq) = false := by
      intro hl hs
      cases cv <;> simp only [Val.isLcb, Bool.false_eq_true] at hl
      simp only [Instr.pyExcl, hxc, hxt, hxf, hs] at hx
      cases hq : (tv.isSeq || fv.isSeq) with
      | false => rfl
      | true => simp [hq] at hx
    obtain ⟨sm, pr, hpr, hvr⟩ := ifThenElse_py hvc hvt hvf hxx h2
    exact ⟨pr, pregs, bl, by simp only [pyStep, hpc, hpt, hpf, hpr], fin sm rfl rfl hvr⟩
  case list xs =>
    unfold step at h; simp only at h
    obtain ⟨vs, s1, h1, h⟩ := bind_ok.mp h
    obtain ⟨rfl, pvs, hpvs, hvvs⟩ := getRegs_py hR.regs h1
    obtain ⟨rfl, rfl, rfl, rfl⟩ := step_fin_eq h
    exact ⟨.list pvs, pregs, bl, by simp only [pyStep, hpvs],
      fin (Same.refl _) rfl rfl (valRef_list_iff.mpr ⟨_, rfl, hvvs⟩)⟩
  case arr xs =>
    unfold step at h; simp only at h
    obtain ⟨vs, s1, h1, h⟩ := bind_ok.mp h
    obtain ⟨rfl, pvs, hpvs, hvvs⟩ := getRegs_py hR.regs h1
    obtain ⟨rfl, rfl, rfl, rfl⟩ := step_fin_eq h
    exact ⟨.list pvs, pregs, bl, by simp only [pyStep, hpvs],
      fin (Same.refl _) rfl rfl (valRef_list_iff.mpr ⟨_, rfl, hvvs⟩)⟩
  case idx a k =>
    unfold step at h; simp only at h
    obtain ⟨x, s1, h1, h⟩ := bind_ok.mp h
    obtain ⟨hxa, rfl⟩ := getReg_iff.mp h1
    obtain ⟨px, hpx, hvx⟩ := pyGet_of hR.regs hxa
    have key : ∀ (xs : List Val) (ys : List PyVal), ValRefL xs ys →
        (match pyIndex xs.length k with
          | some j => match xs[j]? with
            | some y => pure (y, regs, frames)
            | Option.none => raise .index
          | Option.none => raise .index : M (Val × List Val × List GuardBak)) st
          = .ok ((v, regs', frames'), st') →
        ∃ y, pySeqIdx ys k = .ok y ∧ ValRef v y ∧ regs' = regs ∧ frames' = frames ∧ st = st' := by
      intro xs ys hxy h
      cases hk' : pyIndex xs.length k with
      | none => simp only [hk'] at h; exact (raise_ok.mp h).elim
      | some j =>
        simp only [hk'] at h
        cases hv : xs[j]? with
        | none => simp only [hv] at h; exact (raise_ok.mp h).elim
        | some y =>
          simp only [hv] at h
          obtain ⟨rfl, rfl, rfl, rfl⟩ := step_fin_eq h
          obtain ⟨py, hpy, hvy⟩ := pySeqIdx_py hxy hk' hv
          exact ⟨py, hpy, hvy, rfl, rfl, rfl⟩
    cases x with
    | list xs =>
      obtain ⟨ys, rfl, hys⟩ := valRef_list_iff.mp hvx
      obtain ⟨y, hy, hvy, e1, e2, rfl⟩ := key xs ys hys h
      exact ⟨y, pregs, bl, by simp only [pyStep, hpx, hy], fin (Same.refl _) e1 e2 hvy⟩
    | tuple xs =>
      obtain ⟨ys, rfl, hys⟩ := valRef_tuple_iff.mp hvx
      obtain ⟨y, hy, hvy, e1, e2, rfl⟩ := key xs ys hys h
      exact ⟨y, pregs, bl, by simp only [pyStep, hpx, hy], fin (Same.refl _) e1 e2 hvy⟩
    | _ => exact (raise_ok.mp h).elim
  case genter c => simp [Instr.pyExcl] at hx
  case gleave => simp [Instr.pyExcl] at hx
  case setBl n =>
    unfold step at h; simp only at h
    obtain ⟨u, s2, h2, h⟩ := bind_ok.mp h
    obtain ⟨rfl, rfl, rfl, rfl⟩ := step_fin_eq h
    unfold modifySt at h2
    simp only [Except.ok.injEq, Prod.mk.injEq] at h2
    obtain ⟨-, rfl⟩ := h2
    exact ⟨.none, pregs, n, rfl, ⟨hinv', ⟨⟨hk.guard, hk.ign⟩, hk.one⟩, rfl, hR.fr,
      hR.regs.snoc (valRef_none_iff.mpr rfl)⟩, rfl⟩
  case setRes n =>
    unfold step at h; simp only at h
    obtain ⟨u, s2, h2, h⟩ := bind_ok.mp h
    obtain ⟨rfl, rfl, rfl, rfl⟩ := step_fin_eq h
    unfold modifySt at h2
    simp only [Except.ok.injEq, Prod.mk.injEq] at h2
    obtain ⟨-, rfl⟩ := h2
    exact ⟨.none, pregs, bl, rfl, ⟨hinv', ⟨⟨hk.guard, hk.ign⟩, hk.one⟩, hR.bl, hR.fr,
      hR.regs.snoc (valRef_none_iff.mpr rfl)⟩, rfl⟩
  case setIgn b => simp [Instr.pyExcl] at hx
  case aget a k =>
    unfold step at h; simp only at h
    obtain ⟨av, s1, h1, h⟩ := bind_ok.mp h
    obtain ⟨hxa, rfl⟩ := getReg_iff.mp h1
    obtain ⟨iv, s1, h1', h⟩ := bind_ok.mp h
    obtain ⟨hxk, rfl⟩ := getReg_iff.mp h1'
    obtain ⟨pa, hpa, hva⟩ := pyGet_of hR.regs hxa
    obtain ⟨pk, hpk, hvk⟩ := pyGet_of hR.regs hxk
    cases av with
    | list xs =>
      simp only at h
      obtain ⟨r, s2, h2, h⟩ := bind_ok.mp h
      obtain ⟨rfl, rfl, rfl, rfl⟩ := step_fin_eq h
      obtain ⟨ys, rfl, hys⟩ := valRef_list_iff.mp hva
      obtain ⟨le1, f1, -, -⟩ := arrayGet_spec hinv hP (GoodV_list.mp (hR.goodV hxa)) (hR.goodV hxk) h2
      have sm := Same.of_spec le1 f1
      cases iv with
      | int j =>
        rw [valRef_int_iff.mp hvk] at hpk
        simp only [arrayGet] at h2
        cases hj : pyIndex xs.length j with
        | none => simp only [hj] at h2; exact (raise_ok.mp h2).elim
        | some q =>
          simp only [hj] at h2
          cases hq : xs[q]? with
          | none => simp only [hq] at h2; exact (raise_ok.mp h2).elim
          | some y =>
            simp only [hq] at h2
            obtain ⟨rfl, -⟩ := pure_ok' h2
            obtain ⟨py, hpy, hvy⟩ := pySeqIdx_py hys hj hq
            exact ⟨py, pregs, bl, by simp only [pyStep, hpa, hpk, PyVal.num?_int, hpy], fin sm rfl rfl hvy⟩
      | lc it =>
        rw [valRef_lc_iff.mp hvk] at hpk
        have hall : xs.all Val.isIntLike = true := by
          simp only [Instr.pyExcl, hxa, hxk] at hx
          cases hq : xs.all Val.isIntLike with
          | true => rfl
          | false => simp [hq] at hx
        have harr : ∀ w ∈ xs, w.isNum = true := by
          intro w hw
          have := List.all_eq_true.mp hall w hw
          cases w <;> simp_all [Val.isIntLike, Val.isNum]
        obtain ⟨i0, i1, ⟨y, rfl⟩, hj, hval⟩ := arrayGet_value hk.ign harr h2
        have hidx : pyIndex xs.length it.value = some it.value.toNat := (pyIndex_spec _ _).1 ⟨i0, i1⟩
        obtain ⟨py, hpy, hvy⟩ := pySeqIdx_py hys hidx (List.getElem?_eq_getElem hj)
        have : py = .int xs[it.value.toNat].ival :=
          (isIntLike_ref hvy (List.all_eq_true.mp hall _ (List.getElem_mem hj))).2
        subst this
        exact ⟨.int xs[it.value.toNat].ival, pregs, bl,
          by simp only [pyStep, hpa, hpk, PyVal.num?_int, hpy], fin sm rfl rfl
          (valRef_lc_res (by simpa using hval))⟩
      | _ => simp only [arrayGet, tyErr, raise_ok] at h2
    | _ => exact (raise_ok.mp h).elim
  case aset a k w =>
    unfold step at h; simp only at h
    obtain ⟨av, s1, h1, h⟩ := bind_ok.mp h
    obtain ⟨hxa, rfl⟩ := getReg_iff.mp h1
    obtain ⟨iv, s1, h1', h⟩ := bind_ok.mp h
    obtain ⟨hxk, rfl⟩ := getReg_iff.mp h1'
    obtain ⟨vv, s1, h1'', h⟩ := bind_ok.mp h
    obtain ⟨hxw, rfl⟩ := getReg_iff.mp h1''
    obtain ⟨pa, hpa, hva⟩ := pyGet_of hR.regs hxa
    obtain ⟨pk, hpk, hvk⟩ := pyGet_of hR.regs hxk
    obtain ⟨pw, hpw, hvw⟩ := pyGet_of hR.regs hxw
    cases av with
    | list xs =>
      simp only at h
      obtain ⟨xs', s2, h2, h⟩ := bind_ok.mp h
      obtain ⟨rfl, rfl, rfl, rfl⟩ := step_fin_eq h
      obtain ⟨ys, rfl, hys⟩ := valRef_list_iff.mp hva
      obtain ⟨le1, f1, -, -⟩ := arraySet_spec hinv hP (GoodV_list.mp (hR.goodV hxa)) (hR.goodV hxk)
        (hR.goodV hxw) h2
      have sm := Same.of_spec le1 f1
      have finset : ∀ {j : Nat}, ValRefL xs' (ys.set j pw) →
          PyRel s2 (regs.set a (.list xs') ++ [Val.none]) frames
            (pregs.set a (.list (ys.set j pw)) ++ [PyVal.none]) bl ∧ s2.p = st.p :=
        fun hl => ⟨⟨hinv', hk.same sm, sm.bl.trans hR.bl, hR.fr,
          (hR.regs.set (valRef_list_iff.mpr ⟨_, rfl, hl⟩)).snoc (valRef_none_iff.mpr rfl)⟩, sm.p⟩
      cases iv with
      | int j =>
        rw [valRef_int_iff.mp hvk] at hpk
        simp only [arraySet] at h2
        cases hj : pyIndex xs.length j with
        | none => simp only [hj] at h2; exact (raise_ok.mp h2).elim
        | some q =>
          simp only [hj] at h2
          obtain ⟨rfl, -⟩ := pure_ok' h2
          refine ⟨.none, pregs.set a (.list (ys.set q pw)), bl, ?_, finset (hys.set hvw)⟩
          simp only [pyStep, hpa, hpk, hpw, PyVal.num?_int, ← hys.length, hj]
      | lc it =>
        rw [valRef_lc_iff.mp hvk] at hpk
        have hall : xs.all Val.isIntLike = true ∧ vv.isIntLike = true := by
          simp only [Instr.pyExcl, hxa, hxk, hxw] at hx
          cases hq : (xs.all Val.isIntLike && vv.isIntLike) with
          | true => simpa using hq
          | false => simp [hq] at hx
        have harr : ∀ w ∈ xs, w.isNum = true := by
          intro w hw
          have := List.all_eq_true.mp hall.1 w hw
          cases w <;> simp_all [Val.isIntLike, Val.isNum]
        obtain ⟨hvn, rfl⟩ := isIntLike_ref hvw hall.2
        obtain ⟨i0, i1, hlen, hval⟩ := arraySet_value hk.ign harr hvn h2
        have hidx : pyIndex xs.length it.value = some it.value.toNat := (pyIndex_spec _ _).1 ⟨i0, i1⟩
        refine ⟨.none, pregs.set a (.list (ys.set it.value.toNat (.int vv.ival))), bl, ?_, finset ?_⟩
        · simp only [pyStep, hpa, hpk, hpw, PyVal.num?_int, ← hys.length, hidx]
        · refine valRefL_of_forall (by rw [hlen, List.length_set, hys.length]) ?_
          intro j h1 h2'
          have hjx : j < xs.length := by rw [← hlen]; exact h1
          obtain ⟨hn, hv⟩ := hval j hjx h1
          rw [List.getElem_set]
          by_cases e : it.value.toNat = j
          · have e' : (j : Int) = it.value := by omega
            simp only [e, if_true]
            rw [if_pos e'] at hv
            rw [← hv]; exact isNum_ref hn
          · have e' : ¬ (j : Int) = it.value := by omega
            simp only [e, if_false]
            rw [if_neg e'] at hv
            have hjy : j < ys.length := by rw [← hys.length]; exact hjx
            obtain ⟨y, hy, hvy⟩ := hys.get (List.getElem?_eq_getElem hjx)
            rw [List.getElem?_eq_getElem hjy, Option.some.injEq] at hy
            rw [hy, (isIntLike_ref hvy (List.all_eq_true.mp hall.1 _ (List.getElem_mem hjx))).2, ← hv]
            exact isNum_ref hn
      | _ => simp only [arraySet, tyErr, raise_ok] at h2
    | _ => exact (raise_ok.mp h).elim

/-! ## the whole run -/

theorem PyRel.init (p : Nat) (hp : p.Prime) (bl res : Nat) : PyRel (St.init p bl res) [] [] [] bl :=
  ⟨⟨Inv.init _ _ _, ⟨p, hp, rfl⟩, by simp, by simp⟩, ⟨⟨rfl, rfl⟩, rfl⟩, rfl, rfl, ValRefL.nil⟩

/-- completed runs: the reference run completes and every register agrees -/
theorem runAux_py : ∀ (is : List Instr) (k : Nat) (regs : List Val) (frames : List GuardBak) (st : St)
    (pregs : List PyVal) (bl kk : Nat), PyRel st regs frames pregs bl →
    pyFragAux is regs frames st = true →
    ∀ out, runAux is k regs frames st = out → out.err = none →
    ∃ pregs' bl', pyRunAux is kk bl pregs = .ok (pregs', bl') ∧ ValRefL out.regs pregs'
  | [], k, regs, frames, st, pregs, bl, kk, hR, _, out, hout, _ => by
    unfold runAux at hout
    subst hout
    exact ⟨pregs, bl, rfl, hR.regs⟩
  | i :: is, k, regs, frames, st, pregs, bl, kk, hR, hf, out, hout, herr => by
    unfold runAux at hout
    unfold pyFragAux at hf
    cases hstep : step regs frames i st with
    | error e =>
      rw [hstep] at hout
      subst hout
      simp at herr
    | ok r =>
      obtain ⟨⟨v, regs', frames'⟩, st'⟩ := r
      rw [hstep] at hout hf
      simp only [Bool.and_eq_true, Option.isNone_iff_eq_none] at hf
      simp only at hout
      obtain ⟨pv, pregs', bl', hpy, hR', -⟩ := step_py hR hf.1 hstep
      obtain ⟨pr, blr, hrun, hv⟩ := runAux_py is (k+1) _ _ _ _ _ (kk+1) hR' hf.2 out hout herr
      refine ⟨pr, blr, ?_, hv⟩
      unfold pyRunAux
      rw [hpy]
      exact hrun

theorem runAux_err_ge : ∀ (is : List Instr) (k : Nat) (regs : List Val) (frames : List GuardBak) (st : St)
    (e : Err) (j : Nat), (runAux is k regs frames st).err = some (e, j) → k ≤ j
  | [], k, regs, frames, st, e, j, h => by simp [runAux] at h
  | i :: is, k, regs, frames, st, e, j, h => by
    unfold runAux at h
    cases hstep : step regs frames i st with
    | error e' =>
      rw [hstep] at h
      simp only [Option.some.injEq, Prod.mk.injEq] at h
      omega
    | ok r =>
      obtain ⟨⟨v, regs', frames'⟩, st'⟩ := r
      rw [hstep] at h
      have := runAux_err_ge is (k+1) _ _ _ e j h
      omega

/-- runs that raise at instruction `j`: the reference run of the instructions before `j` completes
and agrees with the registers computed so far -/
theorem runAux_py_err : ∀ (is : List Instr) (k : Nat) (regs : List Val) (frames : List GuardBak) (st : St)
    (pregs : List PyVal) (bl kk : Nat), PyRel st regs frames pregs bl →
    pyFragAux is regs frames st = true →
    ∀ e j, (runAux is k regs frames st).err = some (e, j) →
    ∃ pregs' bl', pyRunAux (is.take (j - k)) kk bl pregs = .ok (pregs', bl') ∧
      ValRefL (runAux is k regs frames st).regs pregs'
  | [], k, regs, frames, st, pregs, bl, kk, _, _, e, j, h => by simp [runAux] at h
  | i :: is, k, regs, frames, st, pregs, bl, kk, hR, hf, e, j, h => by
    unfold runAux at h ⊢
    unfold pyFragAux at hf
    cases hstep : step regs frames i st with
    | error e' =>
      rw [hstep] at h
      simp only [Option.some.injEq, Prod.mk.injEq] at h
      obtain ⟨-, rfl⟩ := h
      simp only [Nat.sub_self, List.take_zero]
      exact ⟨pregs, bl, rfl, hR.regs⟩
    | ok r =>
      obtain ⟨⟨v, regs', frames'⟩, st'⟩ := r
      rw [hstep] at h hf
      simp only [Bool.and_eq_true, Option.isNone_iff_eq_none] at hf
      simp only at h ⊢
      obtain ⟨pv, pregs', bl', hpy, hR', -⟩ := step_py hR hf.1 hstep
      have hge := runAux_err_ge is (k+1) _ _ _ e j h
      obtain ⟨pr, blr, hrun, hv⟩ := runAux_py_err is (k+1) _ _ _ _ _ (kk+1) hR' hf.2 e j h
      refine ⟨pr, blr, ?_, hv⟩
      have : j - k = (j - (k+1)) + 1 := by omega
      rw [this, List.take_succ_cons]
      unfold pyRunAux
      rw [hpy]
      exact hrun

/-- **Program-level agreement.**  See `C05_program` in `Props/C05.lean` for the reading. -/
theorem run_py (p : Nat) (hp : p.Prime) (bl res : Nat) (prog : List Instr)
    (hfrag : PyFragment (St.init p bl res) prog)
    (out : Out) (hout : run (St.init p bl res) prog = out) (herr : out.err = none) :
    ∃ pregs, pyRun bl prog = .ok pregs ∧ ValRefL out.regs pregs := by
  unfold run at hout
  unfold PyFragment at hfrag
  obtain ⟨pregs, bl', hrun, hv⟩ := runAux_py prog 0 [] [] _ [] bl 0 (PyRel.init p hp bl res) hfrag out hout herr
  exact ⟨pregs, by unfold pyRun; rw [hrun], hv⟩

theorem run_py_err (p : Nat) (hp : p.Prime) (bl res : Nat) (prog : List Instr)
    (hfrag : PyFragment (St.init p bl res) prog) (e : Err) (j : Nat)
    (herr : (run (St.init p bl res) prog).err = some (e, j)) :
    ∃ pregs, pyRun bl (prog.take j) = .ok pregs ∧ ValRefL (run (St.init p bl res) prog).regs pregs := by
  unfold run at herr ⊢
  unfold PyFragment at hfrag
  obtain ⟨pregs, bl', hrun, hv⟩ := runAux_py_err prog 0 [] [] _ [] bl 0 (PyRel.init p hp bl res) hfrag e j herr
  exact ⟨pregs, by unfold pyRun; rw [Nat.sub_zero] at hrun; rw [hrun], hv⟩

end Pysnark
