import PysnarkModel.Spec.PyProg
import PysnarkModel.Lemmas.ValuesDispatch
import PysnarkModel.Lemmas.Array
/-!
# C05 at program level: the relation `ValRef`, registers, Python `&,|,^` on non-negative operands

Base lemmas for `Lemmas/PyRunOps.lean` (one lemma per dispatch function) and `Lemmas/PyRun.lean`
(induction over the instruction list).
-/
namespace Pysnark

/-! ## `ValRef` by constructor -/
theorem valRef_none_iff {w : PyVal} : ValRef .none w ↔ w = .none := by
  cases w <;> simp [ValRef, valRef]
theorem valRef_int_iff {c : Int} {w : PyVal} : ValRef (.int c) w ↔ w = .int c := by
  cases w <;> simp [ValRef, valRef]
  exact eq_comm
theorem valRef_lc_iff {x : LinComb} {w : PyVal} : ValRef (.lc x) w ↔ w = .int x.value := by
  cases w <;> simp [ValRef, valRef]
  exact eq_comm
theorem valRef_lcb_iff {x : LinComb} {w : PyVal} :
    ValRef (.lcb x) w ↔ w = .bool x.value ∧ (x.value = 0 ∨ x.value = 1) := by
  cases w <;> simp [ValRef, valRef]
  rename_i v
  constructor
  · rintro ⟨rfl, h⟩; exact ⟨rfl, h⟩
  · rintro ⟨rfl, h⟩; exact ⟨rfl, h⟩
theorem valRef_list_iff {xs : List Val} {w : PyVal} :
    ValRef (.list xs) w ↔ ∃ ys, w = .list ys ∧ ValRefL xs ys := by
  cases w <;> simp [ValRef, ValRefL, valRef]
theorem valRef_tuple_iff {xs : List Val} {w : PyVal} :
    ValRef (.tuple xs) w ↔ ∃ ys, w = .tuple ys ∧ ValRefL xs ys := by
  cases w <;> simp [ValRef, ValRefL, valRef]
theorem valRef_fxp {x : LinComb} {w : PyVal} : ¬ ValRef (.fxp x) w := by
  cases w <;> simp [ValRef, valRef]
theorem valRef_flt {m : Int} {e : Nat} {w : PyVal} : ¬ ValRef (.flt m e) w := by
  cases w <;> simp [ValRef, valRef]

theorem valRefL_nil_iff {ws : List PyVal} : ValRefL [] ws ↔ ws = [] := by
  cases ws <;> simp [ValRefL, valRefL]
theorem valRefL_cons_iff {v : Val} {vs : List Val} {ws : List PyVal} :
    ValRefL (v :: vs) ws ↔ ∃ w ws', ws = w :: ws' ∧ ValRef v w ∧ ValRefL vs ws' := by
  cases ws <;> simp [ValRefL, ValRef, valRefL]

theorem ValRefL.nil : ValRefL [] [] := valRefL_nil_iff.mpr rfl
theorem ValRefL.cons {v : Val} {w : PyVal} {vs : List Val} {ws : List PyVal} (h : ValRef v w)
    (hs : ValRefL vs ws) : ValRefL (v :: vs) (w :: ws) := valRefL_cons_iff.mpr ⟨w, ws, rfl, h, hs⟩

theorem ValRefL.length : ∀ {vs : List Val} {ws : List PyVal}, ValRefL vs ws → vs.length = ws.length
  | [], ws, h => by rw [valRefL_nil_iff.mp h]; rfl
  | v :: vs, ws, h => by
    obtain ⟨w, ws', rfl, -, hs⟩ := valRefL_cons_iff.mp h
    simp [ValRefL.length hs]

theorem ValRefL.get : ∀ {vs : List Val} {ws : List PyVal} {i : Nat} {v : Val}, ValRefL vs ws →
    vs[i]? = some v → ∃ w, ws[i]? = some w ∧ ValRef v w
  | [], _, i, v, _, hv => by simp at hv
  | x :: vs, ws, i, v, h, hv => by
    obtain ⟨w, ws', rfl, hw, hs⟩ := valRefL_cons_iff.mp h
    cases i with
    | zero =>
      simp only [List.getElem?_cons_zero, Option.some.injEq] at hv
      subst hv
      exact ⟨w, by simp, hw⟩
    | succ i =>
      simp only [List.getElem?_cons_succ] at hv ⊢
      exact ValRefL.get hs hv

theorem ValRefL.get' : ∀ {vs : List Val} {ws : List PyVal} {i : Nat} {w : PyVal}, ValRefL vs ws →
    ws[i]? = some w → ∃ v, vs[i]? = some v ∧ ValRef v w
  | [], ws, i, w, h, hw => by rw [valRefL_nil_iff.mp h] at hw; simp at hw
  | x :: vs, ws, i, w, h, hw => by
    obtain ⟨w0, ws', rfl, hw0, hs⟩ := valRefL_cons_iff.mp h
    cases i with
    | zero =>
      simp only [List.getElem?_cons_zero, Option.some.injEq] at hw
      subst hw
      exact ⟨x, by simp, hw0⟩
    | succ i =>
      simp only [List.getElem?_cons_succ] at hw ⊢
      exact ValRefL.get' hs hw

theorem ValRefL.append : ∀ {vs : List Val} {ws : List PyVal} {vs' : List Val} {ws' : List PyVal},
    ValRefL vs ws → ValRefL vs' ws' → ValRefL (vs ++ vs') (ws ++ ws')
  | [], ws, vs', ws', h, h' => by rw [valRefL_nil_iff.mp h]; simpa using h'
  | v :: vs, ws, vs', ws', h, h' => by
    obtain ⟨w, ws0, rfl, hw, hs⟩ := valRefL_cons_iff.mp h
    exact ValRefL.cons hw (ValRefL.append hs h')

theorem ValRefL.snoc {vs : List Val} {ws : List PyVal} {v : Val} {w : PyVal} (h : ValRefL vs ws)
    (hv : ValRef v w) : ValRefL (vs ++ [v]) (ws ++ [w]) :=
  h.append (ValRefL.cons hv ValRefL.nil)

theorem ValRefL.set : ∀ {vs : List Val} {ws : List PyVal} {i : Nat} {v : Val} {w : PyVal},
    ValRefL vs ws → ValRef v w → ValRefL (vs.set i v) (ws.set i w)
  | [], ws, i, v, w, h, _ => by rw [valRefL_nil_iff.mp h]; simpa using ValRefL.nil
  | x :: vs, ws, i, v, w, h, hv => by
    obtain ⟨w0, ws', rfl, hw0, hs⟩ := valRefL_cons_iff.mp h
    cases i with
    | zero => exact ValRefL.cons hv hs
    | succ i => exact ValRefL.cons hw0 (ValRefL.set hs hv)

/-- pointwise characterisation -/
theorem valRefL_of_forall : ∀ {vs : List Val} {ws : List PyVal}, vs.length = ws.length →
    (∀ (j : Nat) (h1 : j < vs.length) (h2 : j < ws.length), ValRef vs[j] ws[j]) → ValRefL vs ws
  | [], [], _, _ => ValRefL.nil
  | [], _ :: _, hl, _ => by simp at hl
  | _ :: _, [], hl, _ => by simp at hl
  | v :: vs, w :: ws, hl, h => by
    refine ValRefL.cons (h 0 (by simp) (by simp)) (valRefL_of_forall (by simpa using hl) ?_)
    intro j h1 h2
    have := h (j+1) (by simp only [List.length_cons]; omega) (by simp only [List.length_cons]; omega)
    simpa only [List.getElem_cons_succ] using this

/-! ## registers -/
theorem getReg_iff {rs : List Val} {i : Nat} {v : Val} {s s' : St} :
    getReg rs i s = .ok (v, s') ↔ rs[i]? = some v ∧ s = s' := by
  unfold getReg
  cases hv : rs[i]? with
  | none =>
    simp only [reduceCtorEq, false_and, iff_false]
    intro h; exact raise_ok.mp h
  | some w =>
    simp only [Option.some.injEq]
    constructor
    · intro h; obtain ⟨rfl, rfl⟩ := pure_ok' h; exact ⟨rfl, rfl⟩
    · rintro ⟨rfl, rfl⟩; rfl

theorem pyGet_of {regs : List Val} {pregs : List PyVal} {i : Nat} {v : Val} (hR : ValRefL regs pregs)
    (hv : regs[i]? = some v) : ∃ w, pyGet pregs i = .ok w ∧ ValRef v w := by
  obtain ⟨w, hw, h⟩ := hR.get hv
  exact ⟨w, by unfold pyGet; rw [hw], h⟩

theorem getRegs_py {regs : List Val} {pregs : List PyVal} (hR : ValRefL regs pregs) :
    ∀ {is : List Nat} {vs : List Val} {s s' : St}, getRegs regs is s = .ok (vs, s') →
      s = s' ∧ ∃ ws, pyGets pregs is = .ok ws ∧ ValRefL vs ws
  | [], vs, s, s', h => by
    unfold getRegs at h
    obtain ⟨rfl, rfl⟩ := pure_ok' h
    exact ⟨rfl, [], rfl, ValRefL.nil⟩
  | i :: is, vs, s, s', h => by
    unfold getRegs at h
    obtain ⟨v, s1, h1, h⟩ := bind_ok.mp h
    obtain ⟨ws, s2, h2, h⟩ := bind_ok.mp h
    obtain ⟨rfl, rfl⟩ := pure_ok' h
    obtain ⟨hv, rfl⟩ := getReg_iff.mp h1
    obtain ⟨rfl, pws, hp, hr⟩ := getRegs_py hR h2
    obtain ⟨w, hw, hvw⟩ := pyGet_of hR hv
    refine ⟨rfl, w :: pws, ?_, ValRefL.cons hvw hr⟩
    unfold pyGets
    rw [hw, hp]

/-! ## Python `&`, `|`, `^` on non-negative operands are the natural-number operations -/
theorem bitwise_nat (f : Bool → Bool → Bool) (OP : Nat → Nat → Nat) (hff : f false false = false)
    (hdiv : ∀ a b, OP a b / 2 = OP (a / 2) (b / 2))
    (hmod : ∀ a b, (OP a b % 2 : Nat) = if f (decide (a % 2 = 1)) (decide (b % 2 = 1)) then 1 else 0) :
    ∀ (n a b : Nat), Py.bitwise f n (a : Int) (b : Int) = ((OP a b % 2 ^ n : Nat) : Int)
  | 0, a, b => by
    unfold Py.bitwise
    have ha : ¬ ((a : Int) < 0) := by omega
    have hb : ¬ ((b : Int) < 0) := by omega
    simp [ha, hb, hff, Nat.mod_one]
  | n+1, a, b => by
    unfold Py.bitwise
    have e1 : (a : Int) / 2 = ((a / 2 : Nat) : Int) := by simp
    have e2 : (b : Int) / 2 = ((b / 2 : Nat) : Int) := by simp
    have m1 : ((a : Int) % 2 = 1) ↔ (a % 2 = 1) := by omega
    have m2 : ((b : Int) % 2 = 1) ↔ (b % 2 = 1) := by omega
    rw [e1, e2, bitwise_nat f OP hff hdiv hmod n (a / 2) (b / 2), nat_mod_pow_succ, ← hdiv]
    simp only [m1, m2]
    rw [hmod a b]
    split <;> push_cast <;> ring

theorem nat_lt_pow_bitLength (a : Nat) : a < 2 ^ Py.bitLength (a : Int) := by
  have := lt_pow_of_fits (v := (a : Int)) (n := Py.bitLength (a : Int)) (by omega) (le_refl _)
  exact_mod_cast this

theorem and_mod_two_if (a b : Nat) :
    ((a &&& b) % 2 : Nat) = if (decide (a % 2 = 1) && decide (b % 2 = 1)) then 1 else 0 := by
  have h := @Nat.and_mod_two_pow a b 1
  rw [pow_one] at h
  rw [h]
  rcases Nat.mod_two_eq_zero_or_one a with ha | ha <;> rcases Nat.mod_two_eq_zero_or_one b with hb | hb <;>
    simp [ha, hb]
theorem or_mod_two_if (a b : Nat) :
    ((a ||| b) % 2 : Nat) = if (decide (a % 2 = 1) || decide (b % 2 = 1)) then 1 else 0 := by
  have h := @Nat.or_mod_two_pow a b 1
  rw [pow_one] at h
  rw [h]
  rcases Nat.mod_two_eq_zero_or_one a with ha | ha <;> rcases Nat.mod_two_eq_zero_or_one b with hb | hb <;>
    simp [ha, hb]
theorem xor_mod_two_if (a b : Nat) :
    ((a ^^^ b) % 2 : Nat) = if (decide (a % 2 = 1) != decide (b % 2 = 1)) then 1 else 0 := by
  have h := @Nat.xor_mod_two_pow a b 1
  rw [pow_one] at h
  rw [h]
  rcases Nat.mod_two_eq_zero_or_one a with ha | ha <;> rcases Nat.mod_two_eq_zero_or_one b with hb | hb <;>
    simp [ha, hb]

theorem lt_pow_fuel (a b : Nat) : a < 2 ^ Py.fuelFor (a : Int) (b : Int) ∧ b < 2 ^ Py.fuelFor (a : Int) (b : Int) := by
  unfold Py.fuelFor
  constructor
  · calc a < 2 ^ Py.bitLength (a : Int) := nat_lt_pow_bitLength a
      _ ≤ _ := Nat.pow_le_pow_right (by norm_num) (by omega)
  · calc b < 2 ^ Py.bitLength (b : Int) := nat_lt_pow_bitLength b
      _ ≤ _ := Nat.pow_le_pow_right (by norm_num) (by omega)

theorem land_nat (a b : Nat) : Py.land (a : Int) (b : Int) = ((a &&& b : Nat) : Int) := by
  unfold Py.land
  rw [bitwise_nat (· && ·) (· &&& ·) rfl (fun a b => Nat.and_div_two) and_mod_two_if,
    Nat.mod_eq_of_lt (Nat.and_lt_two_pow a (lt_pow_fuel a b).2)]
theorem lor_nat (a b : Nat) : Py.lor (a : Int) (b : Int) = ((a ||| b : Nat) : Int) := by
  unfold Py.lor
  rw [bitwise_nat (· || ·) (· ||| ·) rfl (fun a b => Nat.or_div_two) or_mod_two_if,
    Nat.mod_eq_of_lt (Nat.or_lt_two_pow (lt_pow_fuel a b).1 (lt_pow_fuel a b).2)]
theorem lxor_nat (a b : Nat) : Py.lxor (a : Int) (b : Int) = ((a ^^^ b : Nat) : Int) := by
  unfold Py.lxor
  rw [bitwise_nat (fun x y => x != y) (· ^^^ ·) rfl (fun a b => Nat.xor_div_two) xor_mod_two_if,
    Nat.mod_eq_of_lt (Nat.xor_lt_two_pow (lt_pow_fuel a b).1 (lt_pow_fuel a b).2)]

/-- Python's `&`, `|`, `^` (two's complement, `Model/PyInt.lean`) -/
def pyBw : BW → Int → Int → Int
  | .and, x, y => Py.land x y
  | .or, x, y => Py.lor x y
  | .xor, x, y => Py.lxor x y

theorem pyBw_nonneg {op : BW} {x y : Int} (hx : 0 ≤ x) (hy : 0 ≤ y) :
    pyBw op x y = ((bwSem op x.toNat y.toNat : Nat) : Int) := by
  obtain ⟨a, rfl⟩ := Int.eq_ofNat_of_zero_le hx
  obtain ⟨b, rfl⟩ := Int.eq_ofNat_of_zero_le hy
  cases op <;> simp only [pyBw, bwSem, Int.toNat_natCast]
  · exact land_nat a b
  · exact lxor_nat a b
  · exact lor_nat a b

theorem pyCmp_eq_cmpSem (op : Cmp) (x y : Int) : pyCmp op x y = cmpSem op x y := by
  cases op <;> rfl

end Pysnark
