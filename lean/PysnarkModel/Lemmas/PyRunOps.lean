import PysnarkModel.Lemmas.PyRunBase
/-!
# C05 at program level: one agreement lemma per dispatch function

`f a b s = .ok (v, s')`, `ValRef a pa`, `ValRef b pb`, not excluded  ⟹  the configuration part of
the state is unchanged (`Same s s'`), the reference function does not stop, and `ValRef v pv`.
All three operand kinds (plain int, secret integer, secret boolean) in every combination.
-/
set_option linter.unusedSimpArgs false
namespace Pysnark

/-- what the agreement lemmas need of the tracer state: no guard, error checking on,
`LinComb.ONE` is the constant one -/
structure PyOk (s : St) : Prop where
  plain : Plain s
  one : s.one = oneSafe

theorem PyOk.same {s s' : St} (h : PyOk s) (sm : Same s s') : PyOk s' :=
  ⟨h.plain.same sm, sm.one.trans h.one⟩

theorem PyOk.guard {s : St} (h : PyOk s) : s.guard = none := h.plain.guard
theorem PyOk.ign {s : St} (h : PyOk s) : s.ignoreErrors = false := h.plain.ign

theorem Same.of_eq {s s' : St} (h : s' = s) : Same s s' := h ▸ Same.refl s

/-- kinds that can be related to a plain value -/
def Val.isPy : Val → Bool
  | .fxp _ => false
  | .flt _ _ => false
  | _ => true

theorem ValRef.isPy {a : Val} {pa : PyVal} (h : ValRef a pa) : a.isPy = true := by
  cases a <;> first | rfl | exact (valRef_fxp h).elim | exact (valRef_flt h).elim

/-- a scalar and its reference value -/
theorem ValRef.sc {a : Val} {pa : PyVal} (h : ValRef a pa) (hs : a.isSc = true) :
    pa.num? = some a.num ∧ pa.isBool = a.isLcb ∧ (a.isLcb = true → a.num = 0 ∨ a.num = 1) := by
  cases a <;> simp only [Val.isSc, Bool.false_eq_true] at hs
  · rw [valRef_int_iff.mp h]; exact ⟨rfl, rfl, by simp [Val.isLcb]⟩
  · rw [valRef_lc_iff.mp h]; exact ⟨rfl, rfl, by simp [Val.isLcb]⟩
  · obtain ⟨e, hb⟩ := valRef_lcb_iff.mp h
    rw [e]; exact ⟨rfl, rfl, fun _ => hb⟩

theorem valRef_int_res (c : Int) : ValRef (.int c) (.int c) := valRef_int_iff.mpr rfl
theorem valRef_lc_res {z : LinComb} {x : Int} (h : z.value = x) : ValRef (.lc z) (.int x) :=
  valRef_lc_iff.mpr (by rw [h])
theorem valRef_lcb_res {z : LinComb} {x : Int} (h : z.value = x) (hb : x = 0 ∨ x = 1) :
    ValRef (.lcb z) (.bool x) := valRef_lcb_iff.mpr ⟨by rw [h], by rw [h]; exact hb⟩
theorem valRef_ofFB {o : Option LinComb} {x : Int} (h : valFB o = x) : ValRef (ofFB o) (.int x) := by
  cases o with
  | none => simp only [valFB] at h; subst h; exact valRef_int_res 0
  | some z => exact valRef_lc_res h

/-! ## `-x`, `x + y`, `x - y`, `x * y` on scalars -/
section arith
variable {s s' : St} {a b v : Val}

theorem negV_sc (ha : a.isSc = true) (h : negV a s = .ok (v, s')) :
    s' = s ∧ v.isSc = true ∧ v.isLcb = false ∧ v.num = -a.num ∧ (a.isInt = false → v.isLc = true) := by
  cases a <;> simp only [Val.isSc, Bool.false_eq_true] at ha <;> unfold negV at h <;>
    obtain ⟨rfl, rfl⟩ := pure_ok' h <;> exact ⟨rfl, rfl, rfl, rfl, by simp [Val.isInt, Val.isLc]⟩

theorem addV_sc (ha : a.isSc = true) (hb : b.isSc = true) (h : addV a b s = .ok (v, s')) :
    s' = s ∧ v.isSc = true ∧ v.isLcb = false ∧ v.num = a.num + b.num ∧
      ((a.isInt && b.isInt) = false → v.isLc = true) := by
  cases a <;> simp only [Val.isSc, Bool.false_eq_true] at ha <;>
    cases b <;> simp only [Val.isSc, Bool.false_eq_true] at hb <;>
    simp only [addV, addLV] at h <;> obtain ⟨rfl, rfl⟩ := pure_ok' h <;>
    refine ⟨rfl, rfl, rfl, ?_, by simp [Val.isInt, Val.isLc]⟩ <;>
    simp [Val.num, add_comm]

theorem subV_sc (ha : a.isSc = true) (hb : b.isSc = true) (h : subV a b s = .ok (v, s')) :
    s' = s ∧ v.isSc = true ∧ v.isLcb = false ∧ v.num = a.num - b.num ∧
      ((a.isInt && b.isInt) = false → v.isLc = true) := by
  by_cases hii : (a.isInt && b.isInt) = true
  · cases a <;> cases b <;> simp only [Val.isInt, Bool.and_true, Bool.and_false, Bool.false_eq_true] at hii
    unfold subV at h
    obtain ⟨rfl, rfl⟩ := pure_ok' h
    exact ⟨rfl, rfl, rfl, rfl, by simp [Val.isInt]⟩
  · have hstep : (do let nb ← negV b; addV a nb : M Val) s = .ok (v, s') := by
      rw [← h]
      cases a <;> cases b <;> rfl
    obtain ⟨nb, s1, h1, h2⟩ := bind_ok.mp hstep
    obtain ⟨rfl, sc1, -, n1, l1⟩ := negV_sc hb h1
    obtain ⟨rfl, sc2, lb2, n2, l2⟩ := addV_sc ha sc1 h2
    refine ⟨rfl, sc2, lb2, by rw [n2, n1]; ring, fun _ => l2 ?_⟩
    cases hbi : b.isInt with
    | false =>
      have hl := l1 hbi
      cases nb <;> simp_all [Val.isLc, Val.isInt]
    | true =>
      have : a.isInt = false := by
        cases hai : a.isInt with
        | false => rfl
        | true => simp [hai, hbi] at hii
      simp [this]

theorem mulLV_sc {x : LinComb} (hb : b.isSc = true) (h : mulLV x b s = .ok (v, s')) :
    Same s s' ∧ ∃ z, v = .lc z ∧ z.value = x.value * b.num := by
  cases b <;> simp only [Val.isSc, Bool.false_eq_true] at hb <;> simp only [mulLV] at h
  · obtain ⟨rfl, rfl⟩ := pure_ok' h; exact ⟨Same.refl _, _, rfl, rfl⟩
  · obtain ⟨r, s1, h1, h⟩ := bind_ok.mp h
    obtain ⟨rfl, rfl⟩ := pure_ok' h
    obtain ⟨sm, v1⟩ := mulLL_val h1
    exact ⟨sm, _, rfl, v1⟩
  · obtain ⟨r, s1, h1, h⟩ := bind_ok.mp h
    obtain ⟨rfl, rfl⟩ := pure_ok' h
    obtain ⟨sm, v1⟩ := mulLL_val h1
    exact ⟨sm, _, rfl, by rw [v1]; simp [Val.num, mul_comm]⟩

theorem mulV_sc (ha : a.isSc = true) (hb : b.isSc = true) (h : mulV a b s = .ok (v, s')) :
    Same s s' ∧ v.isSc = true ∧ v.isLcb = false ∧ v.num = a.num * b.num := by
  cases a <;> simp only [Val.isSc, Bool.false_eq_true] at ha <;> simp only [mulV] at h
  · cases b <;> simp only [Val.isSc, Bool.false_eq_true] at hb <;> simp only at h
    · obtain ⟨rfl, rfl⟩ := pure_ok' h; exact ⟨Same.refl _, rfl, rfl, rfl⟩
    · obtain ⟨sm, z, rfl, vz⟩ := mulLV_sc (b := .int _) rfl h
      exact ⟨sm, rfl, rfl, by simp [Val.num, vz, mul_comm]⟩
    · obtain ⟨sm, z, rfl, vz⟩ := mulLV_sc (b := .int _) rfl h
      exact ⟨sm, rfl, rfl, by simp [Val.num, vz, mul_comm]⟩
  · obtain ⟨sm, z, rfl, vz⟩ := mulLV_sc hb h
    exact ⟨sm, rfl, rfl, vz⟩
  · obtain ⟨sm, z, rfl, vz⟩ := mulLV_sc hb h
    exact ⟨sm, rfl, rfl, vz⟩
end arith

/-- an integer-typed scalar result against the reference -/
theorem valRef_of_intres {v : Val} {x : Int} (hs : v.isSc = true) (hl : v.isLcb = false) (hn : v.num = x) :
    ValRef v (.int x) := by
  cases v <;> simp only [Val.isSc, Val.isLcb, Bool.false_eq_true, Bool.true_eq_false] at hs hl
  · exact hn ▸ valRef_int_res _
  · exact valRef_lc_res hn

@[simp] theorem Val.num_int (c : Int) : (Val.int c).num = c := rfl
@[simp] theorem Val.num_lc (x : LinComb) : (Val.lc x).num = x.value := rfl
@[simp] theorem Val.num_lcb (x : LinComb) : (Val.lcb x).num = x.value := rfl

theorem Val.isLc_iff {v : Val} : v.isLc = true ↔ ∃ z, v = .lc z := by
  cases v <;> simp [Val.isLc]

/-- `a - b` with at least one secret operand is a secret integer -/
theorem subV_sc_lc {s s' : St} {a b v : Val} (ha : a.isSc = true) (hb : b.isSc = true)
    (hs : (a.isInt && b.isInt) = false) (h : subV a b s = .ok (v, s')) :
    s' = s ∧ ∃ z, v = .lc z ∧ z.value = a.num - b.num := by
  obtain ⟨rfl, -, -, n, l⟩ := subV_sc ha hb h
  obtain ⟨z, rfl⟩ := Val.isLc_iff.mp (l hs)
  exact ⟨rfl, z, rfl, n⟩

theorem cmpSem_01 (op : Cmp) (x y : Int) : cmpSem op x y = 0 ∨ cmpSem op x y = 1 := by
  cases op <;> simp only [cmpSem] <;> split <;> simp

/-! ## comparisons -/
section cmp
variable {s s' : St} {a b v : Val}

/-- `x < y`, … with `x` a secret integer and `y` any scalar -/
theorem cmpLV_sc {op : Cmp} {x : LinComb} {o : Val} (hp : Plain s) (ho : o.isSc = true)
    (h : cmpLV op x o s = .ok (v, s')) :
    Same s s' ∧ ∃ r, v = .lcb r ∧ r.value = cmpSem op x.value o.num := by
  have hx : (Val.lc x).isSc = true := rfl
  have h1i : (Val.int 1).isSc = true := rfl
  unfold cmpLV at h
  cases op <;> simp only at h
  · obtain ⟨d, s1, h1, h⟩ := bind_ok.mp h
    obtain ⟨rfl, d1, rfl, vd1⟩ := subV_sc_lc ho hx (by simp [Val.isInt]) h1
    obtain ⟨d', s2, h2, h⟩ := bind_ok.mp h
    obtain ⟨rfl, d2, rfl, vd2⟩ := subV_sc_lc (a := .lc d1) rfl h1i (by simp [Val.isInt]) h2
    obtain ⟨sm, r, rfl, vr⟩ := checkPositiveV_lc_val hp h
    refine ⟨sm, r, rfl, ?_⟩
    simp only [Val.num_lc, Val.num_int] at vd1 vd2
    rw [vr]; simp only [cmpSem]
    split <;> split <;> first | rfl | omega
  · obtain ⟨d, s1, h1, h⟩ := bind_ok.mp h
    obtain ⟨rfl, d1, rfl, vd1⟩ := subV_sc_lc ho hx (by simp [Val.isInt]) h1
    obtain ⟨sm, r, rfl, vr⟩ := checkPositiveV_lc_val hp h
    refine ⟨sm, r, rfl, ?_⟩
    simp only [Val.num_lc, Val.num_int] at vd1
    rw [vr]; simp only [cmpSem]
    split <;> split <;> first | rfl | omega
  · obtain ⟨d, s1, h1, h⟩ := bind_ok.mp h
    obtain ⟨rfl, d1, rfl, vd1⟩ := subV_sc_lc hx ho (by simp [Val.isInt]) h1
    obtain ⟨sm, r, rfl, vr⟩ := checkZeroV_lc_val h
    refine ⟨sm, r, rfl, ?_⟩
    simp only [Val.num_lc, Val.num_int] at vd1
    rw [vr]; simp only [cmpSem]
    split <;> split <;> first | rfl | omega
  · obtain ⟨d, s1, h1, h⟩ := bind_ok.mp h
    obtain ⟨rfl, d1, rfl, vd1⟩ := subV_sc_lc hx ho (by simp [Val.isInt]) h1
    obtain ⟨sm, r, rfl, vr⟩ := checkNonzeroV_lc_val h
    refine ⟨sm, r, rfl, ?_⟩
    simp only [Val.num_lc, Val.num_int] at vd1
    rw [vr]; simp only [cmpSem]
    split <;> split <;> first | rfl | omega
  · obtain ⟨d, s1, h1, h⟩ := bind_ok.mp h
    obtain ⟨rfl, d1, rfl, vd1⟩ := subV_sc_lc hx ho (by simp [Val.isInt]) h1
    obtain ⟨d', s2, h2, h⟩ := bind_ok.mp h
    obtain ⟨rfl, d2, rfl, vd2⟩ := subV_sc_lc (a := .lc d1) rfl h1i (by simp [Val.isInt]) h2
    obtain ⟨sm, r, rfl, vr⟩ := checkPositiveV_lc_val hp h
    refine ⟨sm, r, rfl, ?_⟩
    simp only [Val.num_lc, Val.num_int] at vd1 vd2
    rw [vr]; simp only [cmpSem]
    split <;> split <;> first | rfl | omega
  · obtain ⟨d, s1, h1, h⟩ := bind_ok.mp h
    obtain ⟨rfl, d1, rfl, vd1⟩ := subV_sc_lc hx ho (by simp [Val.isInt]) h1
    obtain ⟨sm, r, rfl, vr⟩ := checkPositiveV_lc_val hp h
    refine ⟨sm, r, rfl, ?_⟩
    simp only [Val.num_lc, Val.num_int] at vd1
    rw [vr]; simp only [cmpSem]
    split <;> split <;> first | rfl | omega

/-- `LinCombBool._ensurebool` on a scalar -/
theorem ensurebool_sc {o : Val} {y : LinComb} (ho : o.isSc = true) (h : ensurebool o s = .ok (y, s')) :
    Same s s' ∧ y.value = o.num ∧ (o.isLcb = false → y.value = 0 ∨ y.value = 1) := by
  cases o <;> simp only [Val.isSc, Bool.false_eq_true] at ho <;> simp only [ensurebool] at h
  · obtain ⟨sm, vy⟩ := ensureboolI_val h
    refine ⟨sm, vy, fun _ => ?_⟩
    unfold ensureboolI at h
    split at h
    · cases h
    · obtain ⟨-, rfl, hb⟩ := mkBool_val h
      exact hb
  · split at h
    · cases h
    · obtain ⟨sm, rfl, hb⟩ := mkBool_val h
      exact ⟨sm, rfl, fun _ => hb⟩
  · obtain ⟨rfl, rfl⟩ := pure_ok' h
    exact ⟨Same.refl _, rfl, by simp [Val.isLcb]⟩

/-- all six comparisons on two scalars, not both plain -/
theorem cmpV_sc {op : Cmp} (hp : Plain s) (ha : a.isSc = true) (hb : b.isSc = true)
    (h : cmpV op a b s = .ok (v, s')) :
    Same s s' ∧ ∃ r, v = .lcb r ∧ r.value = cmpSem op a.num b.num := by
  cases a <;> simp only [Val.isSc, Bool.false_eq_true] at ha <;> simp only [cmpV] at h
  · -- a plain int
    cases b <;> simp only [Val.isSc, Bool.false_eq_true] at hb <;> simp only at h
    · exact (raise_ok.mp h).elim
    · obtain ⟨sm, r, rfl, vr⟩ := cmpLV_sc hp (o := .int _) rfl h
      exact ⟨sm, r, rfl, by rw [vr, cmpSem_mirror]; rfl⟩
    · obtain ⟨z, s1, h1, h⟩ := bind_ok.mp h
      obtain ⟨r, s2, h2, h⟩ := bind_ok.mp h
      obtain ⟨rfl, rfl⟩ := pure_ok' h
      obtain ⟨sm1, vz, -⟩ := ensurebool_sc (o := .int _) rfl h1
      obtain ⟨sm2, vr⟩ := cmpLL_val (sm1.guard_none hp.guard) (sm1.ign_false hp.ign) h2
      exact ⟨sm1.trans sm2, r, rfl, by rw [vr, cmpSem_mirror, vz]; rfl⟩
  · cases b <;> simp only [Val.isSc, Bool.false_eq_true] at hb <;> simp only at h <;> exact cmpLV_sc hp rfl h
  · obtain ⟨y, s1, h1, h⟩ := bind_ok.mp h
    obtain ⟨r, s2, h2, h⟩ := bind_ok.mp h
    obtain ⟨rfl, rfl⟩ := pure_ok' h
    obtain ⟨sm1, vy, -⟩ := ensurebool_sc hb h1
    obtain ⟨sm2, vr⟩ := cmpLL_val (sm1.guard_none hp.guard) (sm1.ign_false hp.ign) h2
    exact ⟨sm1.trans sm2, r, rfl, by rw [vr, vy]; rfl⟩
end cmp

/-! ## `&`, `|`, `^` -/
theorem bitwise_comm (f : Bool → Bool → Bool) (hf : ∀ p q, f p q = f q p) :
    ∀ (n : Nat) (a b : Int), Py.bitwise f n a b = Py.bitwise f n b a
  | 0, a, b => by unfold Py.bitwise; rw [hf]
  | n+1, a, b => by
    unfold Py.bitwise
    rw [hf, bitwise_comm f hf n]

theorem fuelFor_comm (a b : Int) : Py.fuelFor a b = Py.fuelFor b a := by
  unfold Py.fuelFor; rw [Nat.max_comm]

theorem pyBw_comm (op : BW) (x y : Int) : pyBw op x y = pyBw op y x := by
  cases op <;> simp only [pyBw, Py.land, Py.lor, Py.lxor]
  · rw [fuelFor_comm, bitwise_comm _ (fun p q => Bool.and_comm p q)]
  · rw [fuelFor_comm, bitwise_comm _ (fun p q => by cases p <;> cases q <;> rfl)]
  · rw [fuelFor_comm, bitwise_comm _ (fun p q => Bool.or_comm p q)]

/-- on two booleans (0/1) the bitwise operations are the arithmetic formulas of `LinCombBool` -/
theorem pyBw_bool {x y : Int} (hx : x = 0 ∨ x = 1) (hy : y = 0 ∨ y = 1) :
    pyBw .and x y = x * y ∧ pyBw .xor x y = x + y - x * 2 * y ∧ pyBw .or x y = x + y - x * y ∧
      ∀ op, pyBw op x y = 0 ∨ pyBw op x y = 1 := by
  have h0 : (0 : Int) ≤ x := by omega
  have h1 : (0 : Int) ≤ y := by omega
  have key : ∀ op, pyBw op x y = ((bwSem op x.toNat y.toNat : Nat) : Int) := fun op => pyBw_nonneg h0 h1
  rcases hx with rfl | rfl <;> rcases hy with rfl | rfl <;>
    refine ⟨by rw [key]; rfl, by rw [key]; rfl, by rw [key]; rfl, fun op => ?_⟩ <;>
    rw [key] <;> cases op <;> simp [bwSem]

/-- the arm of `LinCombBool.__and__/__xor__/__or__` for a secret operand, after `_ensurebool` -/
def bwSec (op : BW) (x y : LinComb) : M Val :=
  match op with
  | .and => do let p ← mulLL x y; let r ← mkBool p false; pure (Val.lcb r)
  | .xor => do let p ← mulLL (x.mulI 2) y; let r ← mkBool ((x.add y).sub p) false; pure (Val.lcb r)
  | .or => do let p ← mulLL x y; let r ← mkBool ((x.add y).sub p) false; pure (Val.lcb r)

/-- the arm for a plain operand, after `1 if other else 0` -/
def bwConst (op : BW) (x : LinComb) (c : Int) : M Val :=
  match op with
  | .and => do let r ← mkBool (x.mulI c) false; pure (Val.lcb r)
  | .xor => do let r ← mkBool ((x.addI c).sub ((x.mulI 2).mulI c)) false; pure (Val.lcb r)
  | .or => do let r ← mkBool ((x.addI c).sub (x.mulI c)) false; pure (Val.lcb r)

theorem bwSec_val {op : BW} {x y : LinComb} {s s' : St} {v : Val} (hx : x.value = 0 ∨ x.value = 1)
    (hy : y.value = 0 ∨ y.value = 1) (h : bwSec op x y s = .ok (v, s')) :
    Same s s' ∧ ∃ r, v = .lcb r ∧ r.value = pyBw op x.value y.value ∧ (r.value = 0 ∨ r.value = 1) := by
  obtain ⟨e1, e2, e3, e4⟩ := pyBw_bool hx hy
  cases op <;> simp only [bwSec] at h
  · obtain ⟨p, s2, h2, h⟩ := bind_ok.mp h
    obtain ⟨r, s3, h3, h⟩ := bind_ok.mp h
    obtain ⟨rfl, rfl⟩ := pure_ok' h
    obtain ⟨sm2, v2⟩ := mulLL_val h2
    obtain ⟨sm3, rfl, hb⟩ := mkBool_val h3
    exact ⟨sm2.trans sm3, _, rfl, by rw [v2, e1], hb⟩
  · obtain ⟨p, s2, h2, h⟩ := bind_ok.mp h
    obtain ⟨r, s3, h3, h⟩ := bind_ok.mp h
    obtain ⟨rfl, rfl⟩ := pure_ok' h
    obtain ⟨sm2, v2⟩ := mulLL_val h2
    obtain ⟨sm3, rfl, hb⟩ := mkBool_val h3
    exact ⟨sm2.trans sm3, _, rfl, by rw [sub_value, add_value, v2, mulI_value, e2], hb⟩
  · obtain ⟨p, s2, h2, h⟩ := bind_ok.mp h
    obtain ⟨r, s3, h3, h⟩ := bind_ok.mp h
    obtain ⟨rfl, rfl⟩ := pure_ok' h
    obtain ⟨sm2, v2⟩ := mulLL_val h2
    obtain ⟨sm3, rfl, hb⟩ := mkBool_val h3
    exact ⟨sm2.trans sm3, _, rfl, by rw [sub_value, add_value, v2, e3], hb⟩

theorem bwConst_val {op : BW} {x : LinComb} {c : Int} {s s' : St} {v : Val} (hx : x.value = 0 ∨ x.value = 1)
    (hc : c = 0 ∨ c = 1) (h : bwConst op x c s = .ok (v, s')) :
    Same s s' ∧ ∃ r, v = .lcb r ∧ r.value = pyBw op x.value c ∧ (r.value = 0 ∨ r.value = 1) := by
  obtain ⟨e1, e2, e3, e4⟩ := pyBw_bool hx hc
  cases op <;> simp only [bwConst] at h
  · obtain ⟨r, s3, h3, h⟩ := bind_ok.mp h
    obtain ⟨rfl, rfl⟩ := pure_ok' h
    obtain ⟨sm3, rfl, hb⟩ := mkBool_val h3
    exact ⟨sm3, _, rfl, by rw [mulI_value, e1], hb⟩
  · obtain ⟨r, s3, h3, h⟩ := bind_ok.mp h
    obtain ⟨rfl, rfl⟩ := pure_ok' h
    obtain ⟨sm3, rfl, hb⟩ := mkBool_val h3
    exact ⟨sm3, _, rfl, by rw [sub_value, addI_value, mulI_value, mulI_value, e2], hb⟩
  · obtain ⟨r, s3, h3, h⟩ := bind_ok.mp h
    obtain ⟨rfl, rfl⟩ := pure_ok' h
    obtain ⟨sm3, rfl, hb⟩ := mkBool_val h3
    exact ⟨sm3, _, rfl, by rw [sub_value, addI_value, mulI_value, e3], hb⟩

theorem bwBV_lc_eq (op : BW) (x y : LinComb) :
    bwBV op x (.lc y) = (do let y' ← ensurebool (.lc y); bwSec op x y') := by
  cases op <;> rfl
theorem bwBV_lcb_eq (op : BW) (x y : LinComb) :
    bwBV op x (.lcb y) = (do let y' ← ensurebool (.lcb y); bwSec op x y') := by
  cases op <;> rfl
theorem bwBV_int_eq (op : BW) (x : LinComb) (c : Int) :
    bwBV op x (.int c) = (do let c' ← truthy (.int c); bwConst op x c') := by
  cases op <;> rfl

section bw
variable {s s' : St} {v : Val}

/-- `LinCombBool.__and__/__xor__/__or__(x, other)`: `other` a secret or the int 0/1 -/
theorem bwBV_sc {op : BW} {x : LinComb} {o : Val} (hx : x.value = 0 ∨ x.value = 1)
    (ho : o.isSc = true) (hob : boolOther o = true) (hol : o.isLcb = true → o.num = 0 ∨ o.num = 1)
    (h : bwBV op x o s = .ok (v, s')) :
    Same s s' ∧ ∃ r, v = .lcb r ∧ r.value = pyBw op x.value o.num ∧ (r.value = 0 ∨ r.value = 1) := by
  cases o with
  | int c =>
    have hc : c = 0 ∨ c = 1 := by simpa [boolOther] using hob
    rw [bwBV_int_eq] at h
    obtain ⟨c', s1, h1, h2⟩ := bind_ok.mp h
    simp only [truthy] at h1
    obtain ⟨hc', hs1⟩ := pure_ok' h1
    have hcc : c' = c := by
      rw [← hc']; rcases hc with rfl | rfl <;> rfl
    rw [hcc, ← hs1] at h2
    exact bwConst_val hx hc h2
  | lc y0 =>
    rw [bwBV_lc_eq] at h
    obtain ⟨y, s1, h1, h⟩ := bind_ok.mp h
    obtain ⟨sm1, vy, hyb⟩ := ensurebool_sc (o := .lc _) rfl h1
    obtain ⟨sm, hr⟩ := bwSec_val hx (hyb rfl) h
    rw [vy] at hr
    exact ⟨sm1.trans sm, hr⟩
  | lcb y0 =>
    rw [bwBV_lcb_eq] at h
    obtain ⟨y, s1, h1, h⟩ := bind_ok.mp h
    obtain ⟨sm1, vy, -⟩ := ensurebool_sc (o := .lcb _) rfl h1
    obtain ⟨sm, hr⟩ := bwSec_val hx (vy ▸ hol rfl) h
    rw [vy] at hr
    exact ⟨sm1.trans sm, hr⟩
  | _ => simp [Val.isSc] at ho

/-- `LinComb.__and__/__xor__/__or__(x, other)` -/
theorem bwLV_sc {op : BW} {x : LinComb} {o : Val} (hi : s.ignoreErrors = false)
    (ho : o.isSc = true) (hol : o.isLcb = true → o.num = 0 ∨ o.num = 1)
    (h : bwLV op x o s = .ok (v, s')) :
    Same s s' ∧ ValRef v (pyTag o.isLcb (pyBw op x.value o.num)) := by
  cases o with
  | int c =>
    simp only [bwLV] at h
    cases op <;> simp only at h <;>
      (obtain ⟨r, s1, h1, h⟩ := bind_ok.mp h
       obtain ⟨rfl, rfl⟩ := pure_ok' h
       obtain ⟨sm, vr⟩ := privVal_val h1
       exact ⟨sm, valRef_lc_res vr⟩)
  | lc y =>
    simp only [bwLV] at h
    simp only [Val.isLcb, pyTag, Bool.false_eq_true, if_false, Val.num_lc]
    cases op <;> simp only at h
    · obtain ⟨r, s1, h1, h⟩ := bind_ok.mp h
      obtain ⟨rfl, rfl⟩ := pure_ok' h
      obtain ⟨sm, a0, b0, -, -, vr⟩ := andLL_val hi h1
      rw [pyBw_nonneg a0 b0]
      exact ⟨sm, valRef_ofFB vr⟩
    · obtain ⟨r, s1, h1, h⟩ := bind_ok.mp h
      obtain ⟨rfl, rfl⟩ := pure_ok' h
      obtain ⟨sm, a0, b0, -, -, vr⟩ := xorLL_val hi h1
      rw [pyBw_nonneg a0 b0]
      exact ⟨sm, valRef_ofFB vr⟩
    · obtain ⟨r, s1, h1, h⟩ := bind_ok.mp h
      obtain ⟨rfl, rfl⟩ := pure_ok' h
      obtain ⟨sm, a0, b0, -, -, vr⟩ := orLL_val hi h1
      rw [pyBw_nonneg a0 b0]
      exact ⟨sm, valRef_ofFB vr⟩
  | lcb y =>
    simp only [bwLV] at h
    cases op <;> simp only at h
    · have hy := hol rfl
      simp only [Val.num_lcb] at hy
      -- `ensurebool (.lc x)` inside `bwBV` checks that `x` is boolean
      have hxb : x.value = 0 ∨ x.value = 1 := by
        rw [bwBV_lc_eq] at h
        obtain ⟨x', s1, h1, -⟩ := bind_ok.mp h
        obtain ⟨-, vx, hb⟩ := ensurebool_sc (o := .lc x) rfl h1
        simpa [vx] using hb rfl
      obtain ⟨sm, r, rfl, vr, hb⟩ := bwBV_sc (o := .lc x) hy rfl rfl (by simp [Val.isLcb]) h
      refine ⟨sm, ?_⟩
      simp only [Val.isLcb, pyTag, if_true, Val.num_lcb, Val.num_lc] at vr ⊢
      rw [pyBw_comm]
      exact valRef_lcb_res vr (by rw [← vr]; exact hb)
    · exact (raise_ok.mp h).elim
    · exact (raise_ok.mp h).elim
  | _ => simp [Val.isSc] at ho
end bw

end Pysnark
