import PysnarkModel.Lemmas.PyRunOps
/-!
# C05 at program level: division, powers, shifts; the binary-operator lemma `binopV_py`
-/
set_option linter.unusedSimpArgs false
namespace Pysnark

/-! ## a successful operator has scalar operands -/
section dead
variable {s s' : St} {a b v : Val}

theorem addV_ok_sc (ha : a.isPy = true) (hb : b.isPy = true) (h : addV a b s = .ok (v, s')) :
    a.isSc = true ∧ b.isSc = true := by
  cases a <;> cases b <;> first
    | exact ⟨rfl, rfl⟩
    | (exfalso; first | exact Bool.false_ne_true ha | exact Bool.false_ne_true hb
                      | (simp only [addV, addLV, tyErr, raise_ok] at h))

theorem negV_ok_sc (hb : b.isPy = true) (h : negV b s = .ok (v, s')) : b.isSc = true := by
  cases b <;> first
    | rfl
    | (exfalso; first | exact Bool.false_ne_true hb | (simp only [negV, tyErr, raise_ok] at h))

theorem subV_ok_sc (ha : a.isPy = true) (hb : b.isPy = true) (h : subV a b s = .ok (v, s')) :
    a.isSc = true ∧ b.isSc = true := by
  have hstep : (do let nb ← negV b; addV a nb : M Val) s = .ok (v, s') := by
    rw [← h]; cases a <;> cases b <;> rfl
  obtain ⟨nb, s1, h1, h2⟩ := bind_ok.mp hstep
  have hbs := negV_ok_sc hb h1
  obtain ⟨-, sc1, -, -, -⟩ := negV_sc hbs h1
  have hnb : nb.isPy = true := by cases nb <;> simp_all [Val.isSc, Val.isPy]
  exact ⟨(addV_ok_sc ha hnb h2).1, hbs⟩

theorem mulV_ok_sc (ha : a.isPy = true) (hb : b.isPy = true) (h : mulV a b s = .ok (v, s')) :
    a.isSc = true ∧ b.isSc = true := by
  cases a <;> cases b <;> first
    | exact ⟨rfl, rfl⟩
    | (exfalso; first | exact Bool.false_ne_true ha | exact Bool.false_ne_true hb
                      | (simp only [mulV, mulLV, tyErr, raise_ok] at h))

theorem truedivV_ok_sc (ha : a.isPy = true) (hb : b.isPy = true) (h : truedivV a b s = .ok (v, s')) :
    a.isSc = true ∧ b.isSc = true := by
  cases a <;> cases b <;> first
    | exact ⟨rfl, rfl⟩
    | (exfalso; first | exact Bool.false_ne_true ha | exact Bool.false_ne_true hb
                      | (simp only [truedivV, tyErr, raise_ok] at h))

theorem divmodV_ok_sc {w : DM} (ha : a.isPy = true) (hb : b.isPy = true)
    (h : divmodV w a b s = .ok (v, s')) : a.isSc = true ∧ b.isSc = true := by
  cases a <;> cases b <;> first
    | exact ⟨rfl, rfl⟩
    | (exfalso; first | exact Bool.false_ne_true ha | exact Bool.false_ne_true hb
                      | (simp [divmodV, divmodLV, tyErr, raise_ok, bind_ok, pure_ok] at h))

theorem powV_ok_sc (ha : a.isPy = true) (hb : b.isPy = true) (hx : a.isLcb = false)
    (h : powV a b s = .ok (v, s')) : a.isSc = true ∧ b.isSc = true := by
  cases a <;> cases b <;> first
    | exact ⟨rfl, rfl⟩
    | (exfalso; first | exact Bool.false_ne_true ha | exact Bool.false_ne_true hb
                      | exact Bool.false_ne_true hx.symm
                      | (simp only [powV, tyErr, raise_ok] at h))

theorem lshiftV_ok_sc (ha : a.isPy = true) (hb : b.isPy = true) (h : lshiftV a b s = .ok (v, s')) :
    a.isSc = true ∧ b.isSc = true := by
  cases a <;> cases b <;> first
    | exact ⟨rfl, rfl⟩
    | (exfalso; first | exact Bool.false_ne_true ha | exact Bool.false_ne_true hb
                      | (simp only [lshiftV, lshiftLV, tyErr, raise_ok] at h))

theorem rshiftV_ok_sc (ha : a.isPy = true) (hb : b.isPy = true) (h : rshiftV a b s = .ok (v, s')) :
    a.isSc = true ∧ b.isSc = true := by
  cases a <;> cases b <;> first
    | exact ⟨rfl, rfl⟩
    | (exfalso; first | exact Bool.false_ne_true ha | exact Bool.false_ne_true hb
                      | (simp only [rshiftV, rshiftLV, tyErr, raise_ok] at h))

theorem ensurebool_ok_sc (hb : b.isPy = true) {y : LinComb} (h : ensurebool b s = .ok (y, s')) :
    b.isSc = true := by
  cases b <;> first
    | rfl
    | (exfalso; first | exact Bool.false_ne_true hb | (simp only [ensurebool, raise_ok] at h))

theorem cmpLV_ok_sc {op : Cmp} {x : LinComb} (hb : b.isPy = true) (h : cmpLV op x b s = .ok (v, s')) :
    b.isSc = true := by
  unfold cmpLV at h
  cases op <;> simp only at h <;> obtain ⟨d, s1, h1, -⟩ := bind_ok.mp h
  · exact (subV_ok_sc hb rfl h1).1
  · exact (subV_ok_sc hb rfl h1).1
  · exact (subV_ok_sc rfl hb h1).2
  · exact (subV_ok_sc rfl hb h1).2
  · exact (subV_ok_sc rfl hb h1).2
  · exact (subV_ok_sc rfl hb h1).2

theorem cmpV_ok_sc {op : Cmp} (ha : a.isPy = true) (hb : b.isPy = true) (h : cmpV op a b s = .ok (v, s')) :
    a.isSc = true ∧ b.isSc = true := by
  cases a with
  | lc x =>
    cases b with
    | fxp y => exact absurd hb (by simp [Val.isPy])
    | _ => exact ⟨rfl, cmpLV_ok_sc hb (by simpa only [cmpV] using h)⟩
  | lcb x =>
    simp only [cmpV] at h
    obtain ⟨y, s1, h1, -⟩ := bind_ok.mp h
    exact ⟨rfl, ensurebool_ok_sc hb h1⟩
  | fxp x => exact absurd ha (by simp [Val.isPy])
  | flt m e => exact absurd ha (by simp [Val.isPy])
  | int c =>
    cases b with
    | lc y => exact ⟨rfl, rfl⟩
    | lcb y => exact ⟨rfl, rfl⟩
    | fxp y => exact absurd hb (by simp [Val.isPy])
    | _ => simp only [cmpV, raise_ok] at h
  | none =>
    cases b with
    | lc y => exact ⟨cmpLV_ok_sc rfl (by simpa only [cmpV] using h), rfl⟩
    | lcb y =>
      simp only [cmpV] at h
      obtain ⟨z, s1, h1, -⟩ := bind_ok.mp h
      exact ⟨ensurebool_ok_sc rfl h1, rfl⟩
    | fxp y => exact absurd hb (by simp [Val.isPy])
    | _ => simp only [cmpV, raise_ok] at h
  | list xs =>
    cases b with
    | lc y => exact ⟨cmpLV_ok_sc rfl (by simpa only [cmpV] using h), rfl⟩
    | lcb y =>
      simp only [cmpV] at h
      obtain ⟨z, s1, h1, -⟩ := bind_ok.mp h
      exact ⟨ensurebool_ok_sc rfl h1, rfl⟩
    | fxp y => exact absurd hb (by simp [Val.isPy])
    | _ => simp only [cmpV, raise_ok] at h
  | tuple xs =>
    cases b with
    | lc y => exact ⟨cmpLV_ok_sc rfl (by simpa only [cmpV] using h), rfl⟩
    | lcb y =>
      simp only [cmpV] at h
      obtain ⟨z, s1, h1, -⟩ := bind_ok.mp h
      exact ⟨ensurebool_ok_sc rfl h1, rfl⟩
    | fxp y => exact absurd hb (by simp [Val.isPy])
    | _ => simp only [cmpV, raise_ok] at h

/-- `&`, `|`, `^`: the exclusion `boolBitwiseConst` removes the truthiness arm -/
theorem bwV_ok_sc {op : BW} (ha : a.isPy = true) (hb : b.isPy = true)
    (hx1 : a.isLcb = true → boolOther b = true) (hx2 : b.isLcb = true → boolOther a = true)
    (h : bwV op a b s = .ok (v, s')) : a.isSc = true ∧ b.isSc = true := by
  cases a <;> cases b <;> first
    | exact ⟨rfl, rfl⟩
    | (exfalso; first | exact Bool.false_ne_true ha | exact Bool.false_ne_true hb
                      | exact Bool.false_ne_true (hx1 rfl) | exact Bool.false_ne_true (hx2 rfl)
                      | (simp only [bwV, bwLV, tyErr, raise_ok] at h))
end dead

/-! ## `x ** e` with a secret exponent: exact when the power does not wrap -/
theorem mulAll_range {s0 : St} (hp : 0 < s0.p) : ∀ (ms : List LinComb) {acc : LinComb} {s s' : St} {r : LinComb},
    powLL.mulAll s0 ms acc s = .ok (r, s') → 0 ≤ acc.value ∧ acc.value < s0.p →
      0 ≤ r.value ∧ r.value < s0.p
  | [], acc, s, s', r, h, ha => by
    unfold powLL.mulAll at h
    obtain ⟨rfl, rfl⟩ := pure_ok' h
    exact ha
  | m :: ms, acc, s, s', r, h, _ => by
    unfold powLL.mulAll at h
    obtain ⟨r1, s1, h1, h⟩ := bind_ok.mp h
    refine mulAll_range hp ms h ?_
    rw [reduceValue_value]
    exact ⟨Int.emod_nonneg _ (by omega), Int.emod_lt_of_pos _ hp⟩

theorem powLL_range {s s' : St} {a e r : LinComb} (hone : s.one.value = 1) (hp : 1 < s.p)
    (h : powLL a e s = .ok (r, s')) : 0 ≤ r.value ∧ r.value < s.p := by
  unfold powLL at h
  obtain ⟨ebits, s1, h1, h⟩ := bind_ok.mp h
  rw [getSt_bind] at h
  obtain ⟨tail, s2, h2, h⟩ := bind_ok.mp h
  obtain ⟨mults, s3, h3, h⟩ := bind_ok.mp h
  rw [getSt_bind] at h
  obtain ⟨sm1, -, -⟩ := toBits_val h1
  obtain ⟨sm2, -⟩ := powersAux_val _ h2
  have hmap := mapM'_val (fun (bp : LinComb × LinComb) => do
      let one ← ensureboolI 1
      let c ← eqLL bp.1 one
      let s' ← getSt
      iteLLL c bp.2 s'.one)
    (fun bp => sel bp.1.value bp.2.value) (fun s => s.one.value = 1)
    (fun s s' sm hs => by rw [sm.one]; exact hs)
    (by
      intro bp s s' r hs h
      obtain ⟨one, s1, h1, h⟩ := bind_ok.mp h
      obtain ⟨c, s2, h2, h⟩ := bind_ok.mp h
      rw [getSt_bind] at h
      obtain ⟨sm1, v1⟩ := ensureboolI_val h1
      obtain ⟨sm2, v2⟩ := eqLL_val h2
      obtain ⟨sm3, v3⟩ := iteLLL_val h
      refine ⟨(sm1.trans sm2).trans sm3, ?_⟩
      rw [v3, v2, v1, (sm1.trans sm2).one, hs]
      unfold sel
      split <;> ring)
    _ (s := s2) (by rw [(sm1.trans sm2).one]; exact hone) h3
  obtain ⟨sm3, -⟩ := hmap
  have sm13 := (sm1.trans sm2).trans sm3
  have := mulAll_range (s0 := s3) (by rw [sm13.p]; omega) mults h
    (by rw [sm13.one, hone, sm13.p]; omega)
  rwa [sm13.p] at this

theorem powWraps_false {p x e : Int} (h : powWraps p x e = false) :
    0 ≤ x ^ e.toNat ∧ x ^ e.toNat < p := by
  unfold powWraps at h
  split at h
  · cases h
  · simpa using h

/-- the shortcut in `powWraps` does not change its value: it is `true` exactly when `x ^ e` is
outside `[0, p)` -/
theorem powWraps_eq (p x e : Int) :
    powWraps p x e = !(decide (0 ≤ x ^ e.toNat) && decide (x ^ e.toNat < p)) := by
  unfold powWraps
  split
  · rename_i hc
    obtain ⟨hx, he⟩ := hc
    symm
    simp only [Bool.not_eq_true', Bool.and_eq_false_iff, decide_eq_false_iff_not, not_le, not_lt]
    -- |x ^ n| ≥ 2 ^ n > |p|
    have h1 : (2 : Int) ^ e.toNat ≤ |x ^ e.toNat| := by
      rw [abs_pow]
      have : (2 : Int) ≤ |x| := by rw [Int.abs_eq_natAbs]; exact_mod_cast hx
      exact pow_le_pow_left₀ (by norm_num) this _
    have h2 : |p| < (2 : Int) ^ e.toNat := by
      rw [Int.abs_eq_natAbs]
      have a := Nat.lt_log2_self (n := p.natAbs)
      have b : 2 ^ (p.natAbs.log2 + 1) ≤ 2 ^ e.toNat := Nat.pow_le_pow_right (by norm_num) (by omega)
      exact_mod_cast lt_of_lt_of_le a b
    by_cases h0 : 0 ≤ x ^ e.toNat
    · right
      rw [abs_of_nonneg h0] at h1
      have : p ≤ |p| := le_abs_self p
      omega
    · left; omega
  · rfl

/-- NOT excluded by `secretExponentWraps`: the traced power is the Python power -/
theorem powLL_exact {s s' : St} {a e r : LinComb} (hi : s.ignoreErrors = false) (hone : s.one.value = 1)
    (hp : 1 < s.p) (hw : powWraps s.p a.value e.value = false) (h : powLL a e s = .ok (r, s')) :
    Same s s' ∧ 0 ≤ e.value ∧ r.value = a.value ^ e.value.toNat := by
  obtain ⟨sm, e0, -, hc⟩ := powLL_val hi hone h
  obtain ⟨r0, r1⟩ := powLL_range hone hp h
  refine ⟨sm, e0, ?_⟩
  have hw' := powWraps_false hw
  have := hc
  unfold Int.ModEq at this
  rwa [Int.emod_eq_of_lt r0 r1, Int.emod_eq_of_lt hw'.1 hw'.2] at this

theorem PrimeP.one_lt {s : St} (h : PrimeP s) : 1 < s.p := by
  obtain ⟨q, hq, e⟩ := h
  rw [e]; exact_mod_cast hq.one_lt

theorem PrimeP.same {s s' : St} (h : PrimeP s) (sm : Same s s') : PrimeP s' := by
  obtain ⟨q, hq, e⟩ := h
  exact ⟨q, hq, sm.p.trans e⟩

theorem PyOk.one_val {s : St} (h : PyOk s) : s.one.value = 1 := by rw [h.one]; rfl

/-! ## `/`, `//`, `%`, `divmod`, `**`, `<<`, `>>` on scalars -/
section ops
variable {s s' : St} {a b v : Val}

theorem truedivV_sc (hk : PyOk s) (ha : a.isSc = true) (hb : b.isSc = true)
    (h : truedivV a b s = .ok (v, s')) :
    Same s s' ∧ b.num ≠ 0 ∧ Int.fmod a.num b.num = 0 ∧ ValRef v (.int (Int.fdiv a.num b.num)) := by
  cases a with
  | lc x =>
    cases b with
    | int c =>
      simp only [truedivV] at h
      obtain ⟨r, s1, h1, h⟩ := bind_ok.mp h
      obtain ⟨rfl, rfl⟩ := pure_ok' h
      obtain ⟨rfl, c0, hm, vr, -⟩ := truedivLI_val hk.guard hk.ign h1
      exact ⟨Same.refl _, c0, hm, valRef_lc_res vr⟩
    | lc y =>
      simp only [truedivV] at h
      obtain ⟨r, s1, h1, h⟩ := bind_ok.mp h
      obtain ⟨rfl, rfl⟩ := pure_ok' h
      obtain ⟨sm, c0, hm, vr, -⟩ := truedivLL_val hk.guard hk.ign h1
      exact ⟨sm, c0, hm, valRef_lc_res vr⟩
    | lcb y => simp only [truedivV, tyErr, raise_ok] at h
    | _ => simp [Val.isSc] at hb
  | int c =>
    cases b with
    | lc y =>
      simp only [truedivV] at h
      obtain ⟨r, s1, h1, h⟩ := bind_ok.mp h
      obtain ⟨rfl, rfl⟩ := pure_ok' h
      obtain ⟨sm, c0, hm, vr, -⟩ := truedivLL_val hk.guard hk.ign h1
      exact ⟨sm, c0, hm, valRef_lc_res vr⟩
    | int d => simp only [truedivV, raise_ok] at h
    | lcb y => simp only [truedivV, tyErr, raise_ok] at h
    | _ => simp [Val.isSc] at hb
  | lcb x =>
    cases b <;> first
      | (simp only [Val.isSc, Bool.false_eq_true] at hb; done)
      | (simp only [truedivV, tyErr, raise_ok] at h)
  | _ => simp [Val.isSc] at ha

theorem divmodV_sc {w : DM} (ha : a.isSc = true) (hb : b.isSc = true)
    (h : divmodV w a b s = .ok (v, s')) :
    Same s s' ∧ b.num ≠ 0 ∧ ∃ qr : LinComb × LinComb, v = pickL w qr ∧
      qr.1.value = Int.fdiv a.num b.num ∧ qr.2.value = Int.fmod a.num b.num := by
  cases a with
  | lc x =>
    cases b with
    | int c =>
      obtain ⟨sm, qr, e, v1, v2⟩ := divmodV_int_val (o := .int c) trivial h
      refine ⟨sm, ?_, qr, e, v1, v2⟩
      simp only [divmodV, divmodLV] at h
      obtain ⟨oqr, s1, h1, -⟩ := bind_ok.mp h
      obtain ⟨qr', s2, h2, -⟩ := bind_ok.mp h1
      exact (divmodLL_val h2).2.1
    | lc y =>
      obtain ⟨sm, qr, e, v1, v2⟩ := divmodV_int_val (o := .lc y) trivial h
      refine ⟨sm, ?_, qr, e, v1, v2⟩
      simp only [divmodV, divmodLV] at h
      obtain ⟨oqr, s1, h1, -⟩ := bind_ok.mp h
      obtain ⟨qr', s2, h2, -⟩ := bind_ok.mp h1
      exact (divmodLL_val h2).2.1
    | lcb y => simp [divmodV, divmodLV, tyErr, raise_ok, bind_ok, pure_ok] at h
    | _ => simp [Val.isSc] at hb
  | int c =>
    cases b with
    | lc y =>
      simp only [divmodV] at h
      obtain ⟨qr, s1, h1, h⟩ := bind_ok.mp h
      obtain ⟨rfl, rfl⟩ := pure_ok' h
      obtain ⟨sm, d0, v1, v2, -⟩ := divmodLL_val h1
      exact ⟨sm, d0, qr, rfl, v1, v2⟩
    | int d => simp only [divmodV, raise_ok] at h
    | lcb y => simp only [divmodV, tyErr, raise_ok] at h
    | _ => simp [Val.isSc] at hb
  | lcb x =>
    cases b <;> first
      | (simp only [Val.isSc, Bool.false_eq_true] at hb; done)
      | (simp only [divmodV, tyErr, raise_ok] at h)
  | _ => simp [Val.isSc] at ha

/-- `x ** n` (public `n`), `x ** e`, `c ** e` (secret `e`, not wrapping) -/
theorem powV_sc (hk : PyOk s) (hP : PrimeP s) (ha : a.isSc = true) (hb : b.isSc = true)
    (hx : pyExclBin s.p .pow a b = none) (h : powV a b s = .ok (v, s')) :
    Same s s' ∧ 0 ≤ b.num ∧ ValRef v (.int (a.num ^ b.num.toNat)) := by
  cases a with
  | lc x =>
    cases b with
    | int n =>
      simp only [powV] at h
      split at h
      · exact (raise_ok.mp h).elim
      · rename_i hn
        split at h
        · exact (raise_ok.mp h).elim
        · obtain ⟨r, s1, h1, h⟩ := bind_ok.mp h
          obtain ⟨rfl, rfl⟩ := pure_ok' h
          by_cases hn0 : n.toNat = 0
          · rw [hn0] at h1
            obtain ⟨rfl, rfl⟩ := powLN_zero_val h1
            refine ⟨Same.refl _, by simp only [Val.num_int]; omega, valRef_lc_res ?_⟩
            simp only [Val.num_int, Val.num_lc]
            rw [hn0, hk.one_val]; simp
          · obtain ⟨m, hm⟩ : ∃ m, n.toNat = m + 1 := ⟨n.toNat - 1, by omega⟩
            rw [hm] at h1
            obtain ⟨sm, vr⟩ := powLN_val m h1
            refine ⟨sm, by simp only [Val.num_int]; omega, valRef_lc_res ?_⟩
            simp only [Val.num_int, Val.num_lc]
            rw [hm, vr]
    | lc e =>
      simp only [powV] at h
      obtain ⟨r, s1, h1, h⟩ := bind_ok.mp h
      obtain ⟨rfl, rfl⟩ := pure_ok' h
      have hw : powWraps s.p x.value e.value = false := by
        simp only [pyExclBin] at hx
        split at hx
        · cases hx
        · simpa using ‹¬ powWraps s.p x.value e.value = true›
      obtain ⟨sm, e0, vr⟩ := powLL_exact hk.ign hk.one_val hP.one_lt hw h1
      exact ⟨sm, e0, valRef_lc_res vr⟩
    | lcb y => simp only [powV, tyErr, raise_ok] at h
    | _ => simp [Val.isSc] at hb
  | int c =>
    cases b with
    | lc e =>
      simp only [powV] at h
      obtain ⟨r, s1, h1, h⟩ := bind_ok.mp h
      obtain ⟨rfl, rfl⟩ := pure_ok' h
      have hw : powWraps s.p c e.value = false := by
        simp only [pyExclBin] at hx
        split at hx
        · cases hx
        · simpa using ‹¬ powWraps s.p c e.value = true›
      obtain ⟨sm, e0, vr⟩ := powLL_exact (a := LinComb.const c) hk.ign hk.one_val hP.one_lt hw h1
      exact ⟨sm, e0, valRef_lc_res vr⟩
    | int d => simp only [powV, raise_ok] at h
    | lcb y => simp only [powV, tyErr, raise_ok] at h
    | _ => simp [Val.isSc] at hb
  | lcb x => simp [pyExclBin] at hx
  | _ => simp [Val.isSc] at ha
end ops

end Pysnark
