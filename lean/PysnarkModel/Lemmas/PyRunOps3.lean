import PysnarkModel.Lemmas.PyRunOps2
/-!
# C05 at program level: shifts, `&|^` dispatch, and the binary-operator lemma `binopV_py`
-/
set_option linter.unusedSimpArgs false
namespace Pysnark

section shifts
variable {s s' : St} {a b v : Val}

theorem fdiv_pow_eq_shiftRight (x : Int) (n : Nat) : Int.fdiv x (2 ^ n) = x >>> n := by
  rw [Int.fdiv_eq_ediv_of_nonneg _ (by positivity), Int.shiftRight_eq_div_pow]; norm_cast

/-- the shared secret-count arm of `<<`: `x * 2 ** e` -/
theorem lshiftLV_lc_val {x e : LinComb} (hk : PyOk s) (hP : PrimeP s)
    (hw : powWraps s.p 2 e.value = false) (h : lshiftLV x (.lc e) s = .ok (v, s')) :
    Same s s' ∧ 0 ≤ e.value ∧ ∃ z, v = .lc z ∧ z.value = x.value * 2 ^ e.value.toNat := by
  simp only [lshiftLV] at h
  obtain ⟨pw, s1, h1, h⟩ := bind_ok.mp h
  obtain ⟨r, s2, h2, h⟩ := bind_ok.mp h
  obtain ⟨rfl, rfl⟩ := pure_ok' h
  obtain ⟨sm1, e0, vp⟩ := powLL_exact (a := LinComb.const 2) hk.ign hk.one_val hP.one_lt hw h1
  obtain ⟨sm2, vr⟩ := mulLL_val h2
  exact ⟨sm1.trans sm2, e0, r, rfl, by rw [vr, vp]; rfl⟩

/-- the shared secret-count arm of `>>`: `x // 2 ** e` -/
theorem rshiftLV_lc_val {x e : LinComb} (hk : PyOk s) (hP : PrimeP s)
    (hw : powWraps s.p 2 e.value = false) (h : rshiftLV x (.lc e) s = .ok (v, s')) :
    Same s s' ∧ 0 ≤ e.value ∧ ∃ z, v = .lc z ∧ z.value = x.value >>> e.value.toNat := by
  simp only [rshiftLV] at h
  obtain ⟨pw, s1, h1, h⟩ := bind_ok.mp h
  obtain ⟨q, s2, h2, h⟩ := bind_ok.mp h
  obtain ⟨rfl, rfl⟩ := pure_ok' h
  obtain ⟨sm1, e0, vp⟩ := powLL_exact (a := LinComb.const 2) hk.ign hk.one_val hP.one_lt hw h1
  unfold floordivLL at h2
  obtain ⟨qr, s3, h3, h2⟩ := bind_ok.mp h2
  obtain ⟨rfl, rfl⟩ := pure_ok' h2
  obtain ⟨sm2, -, vq, -, -⟩ := divmodLL_val h3
  refine ⟨sm1.trans sm2, e0, _, rfl, ?_⟩
  rw [vq, vp]
  exact fdiv_pow_eq_shiftRight _ _

theorem powWraps_of_excl_l {p : Int} {a : Val} {e : LinComb} (hx : pyExclBin p .lshift a (.lc e) = none) :
    powWraps p 2 e.value = false := by
  simp only [pyExclBin] at hx
  split at hx
  · cases hx
  · simpa using ‹¬ powWraps p 2 e.value = true›

theorem powWraps_of_excl_r {p : Int} {a : Val} {e : LinComb} (hx : pyExclBin p .rshift a (.lc e) = none) :
    powWraps p 2 e.value = false := by
  simp only [pyExclBin] at hx
  split at hx
  · cases hx
  · simpa using ‹¬ powWraps p 2 e.value = true›

theorem lshiftV_sc (hk : PyOk s) (hP : PrimeP s) (ha : a.isSc = true) (hb : b.isSc = true)
    (hx : pyExclBin s.p .lshift a b = none) (h : lshiftV a b s = .ok (v, s')) :
    Same s s' ∧ 0 ≤ b.num ∧ ValRef v (.int (a.num * 2 ^ b.num.toNat)) := by
  cases a with
  | lc x =>
    cases b with
    | int n =>
      simp only [lshiftV] at h
      obtain ⟨rfl, hn, z, rfl, vz⟩ := lshiftLV_int_val h
      exact ⟨Same.refl _, hn, valRef_lc_res vz⟩
    | lc e =>
      simp only [lshiftV] at h
      obtain ⟨sm, e0, z, rfl, vz⟩ := lshiftLV_lc_val hk hP (powWraps_of_excl_l hx) h
      exact ⟨sm, e0, valRef_lc_res vz⟩
    | lcb y => simp only [lshiftV, lshiftLV, tyErr, raise_ok] at h
    | _ => simp [Val.isSc] at hb
  | int c =>
    cases b with
    | lc e =>
      simp only [lshiftV] at h
      obtain ⟨sm, e0, z, rfl, vz⟩ := lshiftLV_lc_val hk hP (powWraps_of_excl_l hx) h
      exact ⟨sm, e0, valRef_lc_res vz⟩
    | int d => simp only [lshiftV, raise_ok] at h
    | lcb y => simp only [lshiftV, tyErr, raise_ok] at h
    | _ => simp [Val.isSc] at hb
  | lcb x =>
    cases b <;> first
      | (simp only [Val.isSc, Bool.false_eq_true] at hb; done)
      | (simp only [lshiftV, tyErr, raise_ok] at h)
  | _ => simp [Val.isSc] at ha

theorem rshiftV_sc (hk : PyOk s) (hP : PrimeP s) (ha : a.isSc = true) (hb : b.isSc = true)
    (hx : pyExclBin s.p .rshift a b = none) (h : rshiftV a b s = .ok (v, s')) :
    Same s s' ∧ 0 ≤ b.num ∧ ValRef v (.int (a.num >>> b.num.toNat)) := by
  cases a with
  | lc x =>
    cases b with
    | int n =>
      simp only [rshiftV, rshiftLV] at h
      obtain ⟨r, s1, h1, h⟩ := bind_ok.mp h
      obtain ⟨rfl, rfl⟩ := pure_ok' h
      have hn : 0 ≤ n := rshiftLI_ok_nonneg h1
      obtain ⟨sm, -, vr⟩ := rshiftLI_val hn hk.ign h1
      exact ⟨sm, hn, valRef_ofFB vr⟩
    | lc e =>
      simp only [rshiftV] at h
      obtain ⟨sm, e0, z, rfl, vz⟩ := rshiftLV_lc_val hk hP (powWraps_of_excl_r hx) h
      exact ⟨sm, e0, valRef_lc_res vz⟩
    | lcb y => simp only [rshiftV, rshiftLV, tyErr, raise_ok] at h
    | _ => simp [Val.isSc] at hb
  | int c =>
    cases b with
    | lc e =>
      simp only [rshiftV] at h
      obtain ⟨sm, e0, z, rfl, vz⟩ := rshiftLV_lc_val hk hP (powWraps_of_excl_r hx) h
      exact ⟨sm, e0, valRef_lc_res vz⟩
    | int d => simp only [rshiftV, raise_ok] at h
    | lcb y => simp only [rshiftV, tyErr, raise_ok] at h
    | _ => simp [Val.isSc] at hb
  | lcb x =>
    cases b <;> first
      | (simp only [Val.isSc, Bool.false_eq_true] at hb; done)
      | (simp only [rshiftV, tyErr, raise_ok] at h)
  | _ => simp [Val.isSc] at ha
end shifts

/-! ## `&`, `|`, `^` at the dispatch -/
def BinOp.bw? : BinOp → Option BW
  | .band => some .and
  | .bxor => some .xor
  | .bor => some .or
  | _ => none

theorem pyExclBin_bw {p : Int} {op : BinOp} {w : BW} {a b : Val} (hw : op.bw? = some w)
    (hx : pyExclBin p op a b = none) :
    (a.isLcb = true → boolOther b = true) ∧ (b.isLcb = true → boolOther a = true) := by
  cases op <;> simp only [BinOp.bw?, reduceCtorEq] at hw <;>
    (cases a <;> cases b <;> simp_all [pyExclBin, Val.isLcb, boolOther] <;> omega)

theorem bwV_sc {op : BW} {s s' : St} {a b v : Val} (hk : PyOk s) (ha : a.isSc = true) (hb : b.isSc = true)
    (hla : a.isLcb = true → a.num = 0 ∨ a.num = 1) (hlb : b.isLcb = true → b.num = 0 ∨ b.num = 1)
    (hx1 : a.isLcb = true → boolOther b = true) (hx2 : b.isLcb = true → boolOther a = true)
    (h : bwV op a b s = .ok (v, s')) :
    Same s s' ∧ ValRef v (pyTag (a.isLcb || b.isLcb) (pyBw op a.num b.num)) := by
  cases a with
  | lc x =>
    simp only [bwV] at h
    simpa [Val.isLcb] using bwLV_sc hk.ign hb hlb h
  | lcb x =>
    simp only [bwV] at h
    obtain ⟨sm, r, rfl, vr, hbr⟩ := bwBV_sc (hla rfl) hb (hx1 rfl) hlb h
    refine ⟨sm, ?_⟩
    simp only [Val.isLcb, Bool.true_or, pyTag, if_true, Val.num_lcb]
    exact valRef_lcb_res vr (by rw [← vr]; exact hbr)
  | int c =>
    cases b with
    | lc y =>
      simp only [bwV] at h
      obtain ⟨sm, hv⟩ := bwLV_sc (o := .int c) hk.ign rfl (by simp [Val.isLcb]) h
      refine ⟨sm, ?_⟩
      simp only [Val.isLcb, Bool.or_self, pyTag, Bool.false_eq_true, if_false, Val.num_int, Val.num_lc] at hv ⊢
      rw [pyBw_comm]; exact hv
    | lcb y =>
      simp only [bwV] at h
      split at h
      · rename_i hop
        have hop' : op = .and := by simpa using hop
        subst hop'
        obtain ⟨sm, r, rfl, vr, hbr⟩ := bwBV_sc (o := .int c) (hlb rfl) rfl (hx2 rfl) (by simp [Val.isLcb]) h
        refine ⟨sm, ?_⟩
        simp only [Val.isLcb, Bool.or_true, pyTag, if_true, Val.num_lcb, Val.num_int] at vr ⊢
        rw [pyBw_comm]
        exact valRef_lcb_res vr (by rw [← vr]; exact hbr)
      · exact (raise_ok.mp h).elim
    | int d => simp only [bwV, raise_ok] at h
    | _ => simp [Val.isSc] at hb
  | _ => simp [Val.isSc] at ha

/-! ## the binary operators -/
theorem pyBin_sc {op : BinOp} {a b : Val} {pa pb : PyVal} (ha : ValRef a pa) (hb : ValRef b pb)
    (sa : a.isSc = true) (sb : b.isSc = true) :
    pyBin op pa pb = pyBinInt op (a.isLcb || b.isLcb) a.num b.num := by
  obtain ⟨na, ba, -⟩ := ha.sc sa
  obtain ⟨nb, bb, -⟩ := hb.sc sb
  simp only [pyBin, na, nb, ba, bb]

theorem cmpV_py {op : Cmp} {s s' : St} {a b v : Val} (hk : PyOk s) (ha : a.isSc = true) (hb : b.isSc = true)
    (h : cmpV op a b s = .ok (v, s')) :
    Same s s' ∧ ValRef v (.bool (pyCmp op a.num b.num)) := by
  obtain ⟨sm, r, rfl, vr⟩ := cmpV_sc hk.plain ha hb h
  rw [pyCmp_eq_cmpSem]
  exact ⟨sm, valRef_lcb_res vr (cmpSem_01 _ _ _)⟩

/-- **every binary operator, every operand-kind combination** -/
theorem binopV_py {op : BinOp} {s s' : St} {a b v : Val} {pa pb : PyVal} (hk : PyOk s) (hP : PrimeP s)
    (ha : ValRef a pa) (hb : ValRef b pb) (hx : pyExclBin s.p op a b = none)
    (h : binopV op a b s = .ok (v, s')) :
    Same s s' ∧ ∃ pv, pyBin op pa pb = .ok pv ∧ ValRef v pv := by
  have hpa := ha.isPy
  have hpb := hb.isPy
  cases op <;> simp only [binopV] at h
  case add =>
    obtain ⟨sa, sb⟩ := addV_ok_sc hpa hpb h
    obtain ⟨rfl, sc, lb, n, -⟩ := addV_sc sa sb h
    exact ⟨Same.refl _, _, by rw [pyBin_sc ha hb sa sb]; rfl, valRef_of_intres sc lb n⟩
  case sub =>
    obtain ⟨sa, sb⟩ := subV_ok_sc hpa hpb h
    obtain ⟨rfl, sc, lb, n, -⟩ := subV_sc sa sb h
    exact ⟨Same.refl _, _, by rw [pyBin_sc ha hb sa sb]; rfl, valRef_of_intres sc lb n⟩
  case mul =>
    obtain ⟨sa, sb⟩ := mulV_ok_sc hpa hpb h
    obtain ⟨sm, sc, lb, n⟩ := mulV_sc sa sb h
    exact ⟨sm, _, by rw [pyBin_sc ha hb sa sb]; rfl, valRef_of_intres sc lb n⟩
  case truediv =>
    obtain ⟨sa, sb⟩ := truedivV_ok_sc hpa hpb h
    obtain ⟨sm, d0, hm, hv⟩ := truedivV_sc hk sa sb h
    refine ⟨sm, _, ?_, hv⟩
    rw [pyBin_sc ha hb sa sb]; simp only [pyBinInt, d0, hm, if_false, ne_eq, not_true_eq_false]
  case floordiv =>
    obtain ⟨sa, sb⟩ := divmodV_ok_sc hpa hpb h
    obtain ⟨sm, d0, qr, rfl, v1, v2⟩ := divmodV_sc sa sb h
    refine ⟨sm, _, ?_, valRef_lc_res (x := Int.fdiv a.num b.num) v1⟩
    rw [pyBin_sc ha hb sa sb]; simp only [pyBinInt, d0, if_false]
  case mod =>
    obtain ⟨sa, sb⟩ := divmodV_ok_sc hpa hpb h
    obtain ⟨sm, d0, qr, rfl, v1, v2⟩ := divmodV_sc sa sb h
    refine ⟨sm, _, ?_, valRef_lc_res (x := Int.fmod a.num b.num) v2⟩
    rw [pyBin_sc ha hb sa sb]; simp only [pyBinInt, d0, if_false]
  case divmod =>
    obtain ⟨sa, sb⟩ := divmodV_ok_sc hpa hpb h
    obtain ⟨sm, d0, qr, rfl, v1, v2⟩ := divmodV_sc sa sb h
    refine ⟨sm, .tuple [.int (Int.fdiv a.num b.num), .int (Int.fmod a.num b.num)], ?_, ?_⟩
    · rw [pyBin_sc ha hb sa sb]; simp only [pyBinInt, d0, if_false]
    · exact valRef_tuple_iff.mpr ⟨_, rfl, ValRefL.cons (valRef_lc_res v1)
        (ValRefL.cons (valRef_lc_res v2) ValRefL.nil)⟩
  case pow =>
    have hxl : a.isLcb = false := by
      cases a <;> first | rfl | (simp [pyExclBin] at hx)
    obtain ⟨sa, sb⟩ := powV_ok_sc hpa hpb hxl h
    obtain ⟨sm, e0, hv⟩ := powV_sc hk hP sa sb hx h
    refine ⟨sm, _, ?_, hv⟩
    rw [pyBin_sc ha hb sa sb]; simp only [pyBinInt, not_lt.mpr e0, if_false]
  case lshift =>
    obtain ⟨sa, sb⟩ := lshiftV_ok_sc hpa hpb h
    obtain ⟨sm, e0, hv⟩ := lshiftV_sc hk hP sa sb hx h
    refine ⟨sm, _, ?_, hv⟩
    rw [pyBin_sc ha hb sa sb]; simp only [pyBinInt, not_lt.mpr e0, if_false]
  case rshift =>
    obtain ⟨sa, sb⟩ := rshiftV_ok_sc hpa hpb h
    obtain ⟨sm, e0, hv⟩ := rshiftV_sc hk hP sa sb hx h
    refine ⟨sm, _, ?_, hv⟩
    rw [pyBin_sc ha hb sa sb]; simp only [pyBinInt, not_lt.mpr e0, if_false]
  case band =>
    obtain ⟨x1, x2⟩ := pyExclBin_bw (w := .and) rfl hx
    obtain ⟨sa, sb⟩ := bwV_ok_sc hpa hpb x1 x2 h
    obtain ⟨sm, hv⟩ := bwV_sc hk sa sb (ha.sc sa).2.2 (hb.sc sb).2.2 x1 x2 h
    exact ⟨sm, _, by rw [pyBin_sc ha hb sa sb]; rfl, hv⟩
  case bxor =>
    obtain ⟨x1, x2⟩ := pyExclBin_bw (w := .xor) rfl hx
    obtain ⟨sa, sb⟩ := bwV_ok_sc hpa hpb x1 x2 h
    obtain ⟨sm, hv⟩ := bwV_sc hk sa sb (ha.sc sa).2.2 (hb.sc sb).2.2 x1 x2 h
    exact ⟨sm, _, by rw [pyBin_sc ha hb sa sb]; rfl, hv⟩
  case bor =>
    obtain ⟨x1, x2⟩ := pyExclBin_bw (w := .or) rfl hx
    obtain ⟨sa, sb⟩ := bwV_ok_sc hpa hpb x1 x2 h
    obtain ⟨sm, hv⟩ := bwV_sc hk sa sb (ha.sc sa).2.2 (hb.sc sb).2.2 x1 x2 h
    exact ⟨sm, _, by rw [pyBin_sc ha hb sa sb]; rfl, hv⟩
  case lt =>
    obtain ⟨sa, sb⟩ := cmpV_ok_sc hpa hpb h
    obtain ⟨sm, hv⟩ := cmpV_py hk sa sb h
    exact ⟨sm, _, by rw [pyBin_sc ha hb sa sb]; rfl, hv⟩
  case le =>
    obtain ⟨sa, sb⟩ := cmpV_ok_sc hpa hpb h
    obtain ⟨sm, hv⟩ := cmpV_py hk sa sb h
    exact ⟨sm, _, by rw [pyBin_sc ha hb sa sb]; rfl, hv⟩
  case eq =>
    obtain ⟨sa, sb⟩ := cmpV_ok_sc hpa hpb h
    obtain ⟨sm, hv⟩ := cmpV_py hk sa sb h
    exact ⟨sm, _, by rw [pyBin_sc ha hb sa sb]; rfl, hv⟩
  case ne =>
    obtain ⟨sa, sb⟩ := cmpV_ok_sc hpa hpb h
    obtain ⟨sm, hv⟩ := cmpV_py hk sa sb h
    exact ⟨sm, _, by rw [pyBin_sc ha hb sa sb]; rfl, hv⟩
  case gt =>
    obtain ⟨sa, sb⟩ := cmpV_ok_sc hpa hpb h
    obtain ⟨sm, hv⟩ := cmpV_py hk sa sb h
    exact ⟨sm, _, by rw [pyBin_sc ha hb sa sb]; rfl, hv⟩
  case ge =>
    obtain ⟨sa, sb⟩ := cmpV_ok_sc hpa hpb h
    obtain ⟨sm, hv⟩ := cmpV_py hk sa sb h
    exact ⟨sm, _, by rw [pyBin_sc ha hb sa sb]; rfl, hv⟩

end Pysnark
