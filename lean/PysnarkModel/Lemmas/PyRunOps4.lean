import PysnarkModel.Lemmas.PyRunOps3
/-!
# C05 at program level: constructors, unary operators, methods, selection, literals
-/
set_option linter.unusedSimpArgs false
namespace Pysnark

theorem Same.of_spec {s s' : St} (hle : s.le s') (hf : Frame s s') : Same s s' :=
  ⟨hf.guard, hf.ign, hf.one, hf.bl, hf.res, hle.p⟩

/-! ## literals -/
theorem pyLitL_spec : ∀ {xs : List Val} {ys : List PyVal}, pyLitL xs = some ys →
    xs.length = ys.length ∧ ∀ (j : Nat) (h1 : j < xs.length) (h2 : j < ys.length), pyLit xs[j] = some ys[j]
  | [], ys, h => by
    simp only [pyLitL, Option.some.injEq] at h
    subst h
    exact ⟨rfl, fun j h1 => by simp at h1⟩
  | x :: xs, ys, h => by
    simp only [pyLitL] at h
    cases hx : pyLit x with
    | none => simp [hx] at h
    | some y =>
      cases hxs : pyLitL xs with
      | none => simp [hx, hxs] at h
      | some ys' =>
        simp only [hx, hxs, Option.some.injEq] at h
        subst h
        obtain ⟨hl, hp⟩ := pyLitL_spec hxs
        refine ⟨by simp [hl], ?_⟩
        intro j h1 h2
        cases j with
        | zero => simpa using hx
        | succ j => simpa using hp j (by simpa using h1) (by simpa using h2)

/-- a plain literal: related to its reference value, and coherent in every state -/
theorem pyLit_spec : ∀ (v : Val) {w : PyVal}, pyLit v = some w → ValRef v w ∧ ∀ s, GoodV s v
  | .none, w, h => by
    simp only [pyLit, Option.some.injEq] at h; subst h
    exact ⟨valRef_none_iff.mpr rfl, fun _ => GoodV_none⟩
  | .int c, w, h => by
    simp only [pyLit, Option.some.injEq] at h; subst h
    exact ⟨valRef_int_res c, fun _ => GoodV_int⟩
  | .flt _ _, w, h => by simp [pyLit] at h
  | .lc _, w, h => by simp [pyLit] at h
  | .lcb _, w, h => by simp [pyLit] at h
  | .fxp _, w, h => by simp [pyLit] at h
  | .list xs, w, h => by
    simp only [pyLit, Option.map_eq_some_iff] at h
    obtain ⟨ys, hys, rfl⟩ := h
    obtain ⟨hl, hp⟩ := pyLitL_spec hys
    have key : ∀ v ∈ xs, ∀ w, pyLit v = some w → ValRef v w ∧ ∀ s, GoodV s v :=
      fun v hm w hw => pyLit_spec v hw
    refine ⟨valRef_list_iff.mpr ⟨ys, rfl, valRefL_of_forall hl (fun j h1 h2 =>
      (key xs[j] (List.getElem_mem h1) _ (hp j h1 h2)).1)⟩, fun s => GoodV_list.mpr (fun v hv => ?_)⟩
    obtain ⟨j, hj, rfl⟩ := List.getElem_of_mem hv
    exact (key xs[j] hv _ (hp j hj (hl ▸ hj))).2 s
  | .tuple xs, w, h => by
    simp only [pyLit, Option.map_eq_some_iff] at h
    obtain ⟨ys, hys, rfl⟩ := h
    obtain ⟨hl, hp⟩ := pyLitL_spec hys
    have key : ∀ v ∈ xs, ∀ w, pyLit v = some w → ValRef v w ∧ ∀ s, GoodV s v :=
      fun v hm w hw => pyLit_spec v hw
    refine ⟨valRef_tuple_iff.mpr ⟨ys, rfl, valRefL_of_forall hl (fun j h1 h2 =>
      (key xs[j] (List.getElem_mem h1) _ (hp j h1 h2)).1)⟩, fun s => GoodV_tuple.mpr (fun v hv => ?_)⟩
    obtain ⟨j, hj, rfl⟩ := List.getElem_of_mem hv
    exact (key xs[j] hv _ (hp j hj (hl ▸ hj))).2 s

/-! ## constructors -/
section mk
variable {s s' : St} {v r : Val} {pv : PyVal}

theorem pubValBool_val {v : Int} {r : LinComb} (h : pubValBool v s = .ok (r, s')) :
    Same s s' ∧ r.value = v ∧ (v = 0 ∨ v = 1) := by
  unfold pubValBool at h
  split at h
  · cases h
  · obtain ⟨x, s1, h1, h2⟩ := bind_ok.mp h
    obtain ⟨sm1, v1⟩ := pubVal_val h1
    obtain ⟨sm2, rfl, hb⟩ := mkBool_val h2
    exact ⟨sm1.trans sm2, v1, v1 ▸ hb⟩

theorem mkVal_py {k : Kind} (hv : ValRef v pv) (hk1 : k ≠ .privx) (hk2 : k ≠ .pubx)
    (h : mkVal k v s = .ok (r, s')) :
    Same s s' ∧ ∃ pr, pyMk k pv = .ok pr ∧ ValRef r pr := by
  cases v with
  | int c =>
    rw [valRef_int_iff.mp hv]
    cases k <;> simp only [mkVal] at h
    · obtain ⟨x, s1, h1, h⟩ := bind_ok.mp h
      obtain ⟨rfl, rfl⟩ := pure_ok' h
      obtain ⟨sm, vx⟩ := privVal_val h1
      exact ⟨sm, _, rfl, valRef_lc_res vx⟩
    · obtain ⟨x, s1, h1, h⟩ := bind_ok.mp h
      obtain ⟨rfl, rfl⟩ := pure_ok' h
      obtain ⟨sm, vx⟩ := pubVal_val h1
      exact ⟨sm, _, rfl, valRef_lc_res vx⟩
    · obtain ⟨rfl, rfl⟩ := pure_ok' h
      exact ⟨Same.refl _, _, rfl, valRef_lc_res rfl⟩
    · obtain ⟨x, s1, h1, h⟩ := bind_ok.mp h
      obtain ⟨rfl, rfl⟩ := pure_ok' h
      obtain ⟨sm, vx, hb⟩ := privValBool_val h1
      exact ⟨sm, .bool c, by simp only [pyMk, hb, if_true], valRef_lcb_res vx hb⟩
    · obtain ⟨x, s1, h1, h⟩ := bind_ok.mp h
      obtain ⟨rfl, rfl⟩ := pure_ok' h
      obtain ⟨sm, vx, hb⟩ := pubValBool_val h1
      exact ⟨sm, .bool c, by simp only [pyMk, hb, if_true], valRef_lcb_res vx hb⟩
    · exact absurd rfl hk1
    · exact absurd rfl hk2
  | flt m e => exact (valRef_flt hv).elim
  | fxp x => exact (valRef_fxp hv).elim
  | _ =>
    exfalso
    cases k <;> first
      | exact hk1 rfl
      | exact hk2 rfl
      | (simp only [mkVal, raise_ok] at h)

theorem wrapBool_py (hv : ValRef v pv) (h : wrapBool v s = .ok (r, s')) :
    Same s s' ∧ ∃ pr, pyWrapb pv = .ok pr ∧ ValRef r pr := by
  cases v with
  | lc x =>
    rw [valRef_lc_iff.mp hv]
    simp only [wrapBool] at h
    obtain ⟨y, s1, h1, h⟩ := bind_ok.mp h
    obtain ⟨rfl, rfl⟩ := pure_ok' h
    obtain ⟨sm, rfl, hb⟩ := mkBool_val h1
    exact ⟨sm, .bool y.value, by simp only [pyWrapb, PyVal.num?, hb, if_true], valRef_lcb_res rfl hb⟩
  | _ => simp only [wrapBool, raise_ok] at h
end mk

/-! ## unary operators -/
theorem unV_py {op : Un} {s s' : St} {a v : Val} {pa : PyVal} (hk : PyOk s) (ha : ValRef a pa)
    (hx : ∀ x, op = .invert → a ≠ .lc x) (h : unV op a s = .ok (v, s')) :
    Same s s' ∧ ∃ pv, pyUn op pa = .ok pv ∧ ValRef v pv := by
  cases a with
  | int c =>
    rw [valRef_int_iff.mp ha]
    cases op <;> simp only [unV, negV, raise_ok] at h
    obtain ⟨rfl, rfl⟩ := pure_ok' h
    exact ⟨Same.refl _, _, rfl, valRef_int_res _⟩
  | lc x =>
    rw [valRef_lc_iff.mp ha]
    cases op <;> simp only [unV, negV] at h
    · obtain ⟨rfl, rfl⟩ := pure_ok' h
      exact ⟨Same.refl _, _, rfl, valRef_lc_res rfl⟩
    · obtain ⟨rfl, rfl⟩ := pure_ok' h
      exact ⟨Same.refl _, _, rfl, valRef_lc_res rfl⟩
    · obtain ⟨r, s1, h1, h⟩ := bind_ok.mp h
      obtain ⟨rfl, rfl⟩ := pure_ok' h
      obtain ⟨sm, vr⟩ := absL_val hk.guard hk.ign h1
      exact ⟨sm, _, rfl, valRef_lc_res vr⟩
    · exact absurd rfl (hx x rfl)
  | lcb x =>
    obtain ⟨e, hb⟩ := valRef_lcb_iff.mp ha
    rw [e]
    cases op <;> simp only [unV, negV] at h
    · obtain ⟨rfl, rfl⟩ := pure_ok' h
      exact ⟨Same.refl _, _, rfl, valRef_lc_res rfl⟩
    · obtain ⟨rfl, rfl⟩ := pure_ok' h
      exact ⟨Same.refl _, _, rfl, valRef_lcb_res rfl hb⟩
    · obtain ⟨r, s1, h1, h⟩ := bind_ok.mp h
      obtain ⟨rfl, rfl⟩ := pure_ok' h
      obtain ⟨sm, vr⟩ := absL_val hk.guard hk.ign h1
      exact ⟨sm, _, rfl, valRef_lc_res vr⟩
    · obtain ⟨r, s1, h1, h⟩ := bind_ok.mp h
      obtain ⟨rfl, rfl⟩ := pure_ok' h
      obtain ⟨sm, vr, -⟩ := boolNot_val h1
      exact ⟨sm, _, rfl, valRef_lcb_res vr (by omega)⟩
  | flt m e => exact (valRef_flt ha).elim
  | fxp x => exact (valRef_fxp ha).elim
  | _ => cases op <;> simp only [unV, negV, tyErr, raise_ok] at h

end Pysnark
