import PysnarkModel.Lemmas.PyRunOps4
/-!
# C05 at program level: method calls and selection
-/
set_option linter.unusedSimpArgs false
namespace Pysnark

@[simp] theorem PyVal.num?_int (v : Int) : (PyVal.int v).num? = some v := rfl
@[simp] theorem PyVal.num?_bool (v : Int) : (PyVal.bool v).num? = some v := rfl

theorem pyBitsVal_eq : ∀ (bs : List Int) (k : Nat), pyBitsVal bs k = bitsVal bs k
  | [], _ => rfl
  | b :: bs, k => by simp only [pyBitsVal, bitsVal, pyBitsVal_eq bs (k+1)]

section meth
variable {s s' : St} {v : Val}

theorem valL_value {x : LinComb} {r : Int} (h : valL x s = .ok (r, s')) : r = x.value := by
  unfold valL at h
  obtain ⟨o, s1, h1, h⟩ := bind_ok.mp h
  obtain ⟨u, s2, h2, h⟩ := bind_ok.mp h
  obtain ⟨rfl, rfl⟩ := pure_ok' h
  rfl

/-- the width argument -/
theorem argNat_py {args : List Val} {pargs : List PyVal} {n : Option Nat} (bl : Nat)
    (ha : ValRefL args pargs) (h : argNat? args s = .ok (n, s')) :
    s' = s ∧ pyWidth bl pargs = some (n.getD bl) := by
  cases args with
  | nil =>
    rw [valRefL_nil_iff.mp ha]
    simp only [argNat?] at h
    obtain ⟨rfl, rfl⟩ := pure_ok' h
    exact ⟨rfl, rfl⟩
  | cons a as =>
    obtain ⟨w, ws, rfl, hw, hws⟩ := valRefL_cons_iff.mp ha
    cases as with
    | nil =>
      rw [valRefL_nil_iff.mp hws]
      cases a with
      | int c =>
        rw [valRef_int_iff.mp hw]
        simp only [argNat?] at h
        split at h
        · exact (raise_ok.mp h).elim
        · rename_i hc
          obtain ⟨rfl, rfl⟩ := pure_ok' h
          have h0 : 0 ≤ c := by
            simp only [Bool.or_eq_true, decide_eq_true_eq, not_or, not_lt] at hc
            exact hc.1
          exact ⟨rfl, by simp only [pyWidth, h0, if_true, Option.getD_some]⟩
      | none =>
        rw [valRef_none_iff.mp hw]
        simp only [argNat?] at h
        obtain ⟨rfl, rfl⟩ := pure_ok' h
        exact ⟨rfl, rfl⟩
      | _ => simp only [argNat?, raise_ok] at h
    | cons b bs => simp only [argNat?, raise_ok] at h

theorem valRefL_bits : ∀ {bs : List LinComb} {vs : List Int}, bs.map (·.value) = vs →
    (∀ b ∈ vs, b = 0 ∨ b = 1) → ValRefL (bs.map Val.lcb) (vs.map PyVal.bool)
  | [], vs, h, _ => by
    simp only [List.map_nil] at h; subst h; exact ValRefL.nil
  | b :: bs, vs, h, h01 => by
    simp only [List.map_cons] at h
    subst h
    simp only [List.map_cons]
    exact ValRefL.cons (valRef_lcb_res rfl (h01 _ List.mem_cons_self))
      (valRefL_bits rfl (fun c hc => h01 c (List.mem_cons_of_mem _ hc)))

theorem unwrapBits_py : ∀ {xs : List Val} {ys : List PyVal} {bs : List LinComb} {s s' : St},
    ValRefL xs ys → unwrapBits xs s = .ok (bs, s') → s' = s ∧ pyNums ys = some (bs.map (·.value))
  | [], ys, bs, s, s', ha, h => by
    rw [valRefL_nil_iff.mp ha]
    simp only [unwrapBits] at h
    obtain ⟨rfl, rfl⟩ := pure_ok' h
    exact ⟨rfl, rfl⟩
  | x :: xs, ys, bs, s, s', ha, h => by
    obtain ⟨w, ws, rfl, hw, hws⟩ := valRefL_cons_iff.mp ha
    cases x with
    | lc z =>
      simp only [unwrapBits] at h
      obtain ⟨r, s1, h1, h⟩ := bind_ok.mp h
      obtain ⟨rfl, rfl⟩ := pure_ok' h
      obtain ⟨rfl, hr⟩ := unwrapBits_py hws h1
      rw [valRef_lc_iff.mp hw]
      exact ⟨rfl, by simp only [pyNums, PyVal.num?, hr, List.map_cons]⟩
    | lcb z =>
      simp only [unwrapBits] at h
      obtain ⟨r, s1, h1, h⟩ := bind_ok.mp h
      obtain ⟨rfl, rfl⟩ := pure_ok' h
      obtain ⟨rfl, hr⟩ := unwrapBits_py hws h1
      rw [(valRef_lcb_iff.mp hw).1]
      exact ⟨rfl, by simp only [pyNums, PyVal.num?, hr, List.map_cons]⟩
    | _ => simp only [unwrapBits, raise_ok] at h

theorem bind_pure_none {α : Type} {m : M α} (h : (m >>= fun _ => (pure Val.none : M Val)) s = .ok (v, s')) :
    v = .none := by
  obtain ⟨_, _, _, h⟩ := bind_ok.mp h
  exact (pure_ok' h).1.symm

/-- `x.if_else(t, f)` = `f + x * (t - f)` -/
theorem ifElse_py {x : LinComb} {t f : Val} {pt pf : PyVal} (ht : ValRef t pt) (hf : ValRef f pf)
    (h : (do let d ← subV t f; let pr ← mulLV x d; addV f pr : M Val) s = .ok (v, s')) :
    ∃ tx fx, pt.num? = some tx ∧ pf.num? = some fx ∧ ValRef v (.int (fx + x.value * (tx - fx))) := by
  obtain ⟨d, s1, h1, h⟩ := bind_ok.mp h
  obtain ⟨pr, s2, h2, h⟩ := bind_ok.mp h
  obtain ⟨st, sf⟩ := subV_ok_sc ht.isPy hf.isPy h1
  obtain ⟨rfl, sd, -, nd, -⟩ := subV_sc st sf h1
  obtain ⟨-, z, rfl, vz⟩ := mulLV_sc sd h2
  obtain ⟨-, sv, lv, nv, -⟩ := addV_sc sf (b := .lc z) rfl h
  refine ⟨t.num, f.num, (ht.sc st).1, (hf.sc sf).1, valRef_of_intres sv lv ?_⟩
  rw [nv, Val.num_lc, vz, nd]

/-- **method calls** (`Same` comes from the invariant lemma `callMeth_spec`) -/
theorem callMeth_py {m : Meth} {self : Val} {args : List Val} {pself : PyVal} {pargs : List PyVal}
    {bl : Nat} (hk : PyOk s) (hinv : Inv s) (hP : PrimeP s) (hgs : GoodV s self)
    (hga : ∀ v ∈ args, GoodV s v) (hbl : s.bitlength = bl) (hs : ValRef self pself)
    (ha : ValRefL args pargs) (h : callMeth m self args s = .ok (v, s')) :
    Same s s' ∧ ∃ pv, pyCall bl m pself pargs = .ok pv ∧ ValRef v pv := by
  obtain ⟨le1, f1, -, -⟩ := callMeth_spec hinv hP hgs hga h
  refine ⟨Same.of_spec le1 f1, ?_⟩
  have hnone : ValRef Val.none PyVal.none := valRef_none_iff.mpr rfl
  cases self with
  | lc x =>
    rw [valRef_lc_iff.mp hs]
    cases m <;> simp only [callMeth] at h
    case val =>
      obtain ⟨r, s1, h1, h⟩ := bind_ok.mp h
      obtain ⟨rfl, rfl⟩ := pure_ok' h
      rw [valL_value h1]
      exact ⟨_, rfl, valRef_int_res _⟩
    case toBits =>
      obtain ⟨n, s1, h1, h⟩ := bind_ok.mp h
      obtain ⟨bs, s2, h2, h⟩ := bind_ok.mp h
      obtain ⟨rfl, rfl⟩ := pure_ok' h
      obtain ⟨rfl, hw⟩ := argNat_py bl ha h1
      obtain ⟨-, vb, hr⟩ := toBits_val h2
      obtain ⟨x0, xb⟩ := hr hk.ign
      rw [hbl] at vb xb
      have xlt := lt_pow_of_fits x0 xb
      refine ⟨.list ((Py.bitsOf x.value (n.getD bl)).map PyVal.bool), ?_, ?_⟩
      · simp only [pyCall, PyVal.num?_int, hw, x0, xlt, and_self, if_true]
      · exact valRef_list_iff.mpr ⟨_, rfl, valRefL_bits vb (bitsOf_01 _ _)⟩
    case checkPositive =>
      obtain ⟨n, s1, h1, h⟩ := bind_ok.mp h
      obtain ⟨r, s2, h2, h⟩ := bind_ok.mp h
      obtain ⟨rfl, rfl⟩ := pure_ok' h
      obtain ⟨rfl, -⟩ := argNat_py bl ha h1
      obtain ⟨-, vr, -⟩ := checkPositive_val hk.guard hk.ign h2
      exact ⟨_, rfl, valRef_lcb_res vr (by split <;> simp)⟩
    case assertPositive =>
      obtain ⟨n, s1, h1, h⟩ := bind_ok.mp h
      rw [bind_pure_none h]; exact ⟨_, rfl, hnone⟩
    case checkZero =>
      obtain ⟨r, s1, h1, h⟩ := bind_ok.mp h
      obtain ⟨rfl, rfl⟩ := pure_ok' h
      obtain ⟨-, vr⟩ := checkZero_val h1
      exact ⟨_, rfl, valRef_lcb_res vr (by split <;> simp)⟩
    case checkNonzero =>
      obtain ⟨r, s1, h1, h⟩ := bind_ok.mp h
      obtain ⟨rfl, rfl⟩ := pure_ok' h
      obtain ⟨-, vr⟩ := checkNonzero_val h1
      exact ⟨_, rfl, valRef_lcb_res vr (by split <;> simp)⟩
    case assertZero => rw [bind_pure_none h]; exact ⟨_, rfl, hnone⟩
    case assertNonzero => rw [bind_pure_none h]; exact ⟨_, rfl, hnone⟩
    case ifElse =>
      split at h
      · rename_i t f
        obtain ⟨pt, ws, rfl, ht, hws⟩ := valRefL_cons_iff.mp ha
        obtain ⟨pf, ws', rfl, hf, hws'⟩ := valRefL_cons_iff.mp hws
        rw [valRefL_nil_iff.mp hws']
        obtain ⟨tx, fx, e1, e2, hv⟩ := ifElse_py ht hf h
        exact ⟨_, by simp only [pyCall, PyVal.num?_int, PyVal.num?_bool, e1, e2], hv⟩
      · exact (raise_ok.mp h).elim
    case fromBits => exact (raise_ok.mp h).elim
    case assertRange =>
      split at h
      · obtain ⟨l, s1, h1, h⟩ := bind_ok.mp h
        obtain ⟨hh, s2, h2, h⟩ := bind_ok.mp h
        rw [bind_pure_none h]; exact ⟨_, rfl, hnone⟩
      · exact (raise_ok.mp h).elim
    all_goals
      split at h
      · obtain ⟨y, s1, h1, h⟩ := bind_ok.mp h
        rw [bind_pure_none h]; exact ⟨_, rfl, hnone⟩
      · exact (raise_ok.mp h).elim
  | lcb x =>
    obtain ⟨e, hb⟩ := valRef_lcb_iff.mp hs
    rw [e]
    cases m <;> simp only [callMeth] at h
    case val =>
      obtain ⟨r, s1, h1, h⟩ := bind_ok.mp h
      obtain ⟨rfl, rfl⟩ := pure_ok' h
      rw [valL_value h1]
      exact ⟨_, rfl, valRef_int_res _⟩
    case toBits => exact (raise_ok.mp h).elim
    case checkPositive =>
      split at h
      · obtain ⟨r, s2, h2, h⟩ := bind_ok.mp h
        obtain ⟨rfl, rfl⟩ := pure_ok' h
        obtain ⟨-, vr, -⟩ := checkPositive_val hk.guard hk.ign h2
        exact ⟨_, rfl, valRef_lcb_res vr (by split <;> simp)⟩
      · exact (raise_ok.mp h).elim
    case assertPositive =>
      split at h
      · rw [bind_pure_none h]; exact ⟨_, rfl, hnone⟩
      · exact (raise_ok.mp h).elim
    case checkZero =>
      obtain ⟨r, s1, h1, h⟩ := bind_ok.mp h
      obtain ⟨rfl, rfl⟩ := pure_ok' h
      obtain ⟨-, vr⟩ := checkZero_val h1
      exact ⟨_, rfl, valRef_lcb_res vr (by split <;> simp)⟩
    case checkNonzero => exact (raise_ok.mp h).elim
    case assertZero => rw [bind_pure_none h]; exact ⟨_, rfl, hnone⟩
    case assertNonzero => rw [bind_pure_none h]; exact ⟨_, rfl, hnone⟩
    case ifElse =>
      split at h
      · rename_i t f
        obtain ⟨pt, ws, rfl, ht, hws⟩ := valRefL_cons_iff.mp ha
        obtain ⟨pf, ws', rfl, hf, hws'⟩ := valRefL_cons_iff.mp hws
        rw [valRefL_nil_iff.mp hws']
        obtain ⟨tx, fx, e1, e2, hv⟩ := ifElse_py ht hf h
        exact ⟨_, by simp only [pyCall, PyVal.num?_int, PyVal.num?_bool, e1, e2], hv⟩
      · exact (raise_ok.mp h).elim
    case fromBits => exact (raise_ok.mp h).elim
    case assertRange => exact (raise_ok.mp h).elim
    all_goals
      split at h
      · obtain ⟨y, s1, h1, h⟩ := bind_ok.mp h
        rw [bind_pure_none h]; exact ⟨_, rfl, hnone⟩
      · exact (raise_ok.mp h).elim
  | list xs =>
    obtain ⟨ys, rfl, hys⟩ := valRef_list_iff.mp hs
    cases m <;> simp only [callMeth, raise_ok] at h
    obtain ⟨bs, s1, h1, h⟩ := bind_ok.mp h
    obtain ⟨rfl, rfl⟩ := pure_ok' h
    obtain ⟨rfl, hn⟩ := unwrapBits_py hys h1
    refine ⟨.int (pyBitsVal (bs.map (·.value)) 0), by simp only [pyCall, hn], valRef_ofFB ?_⟩
    rw [valFB_fromBits, pyBitsVal_eq]
  | fxp x => exact (valRef_fxp hs).elim
  | flt _ _ => exact (valRef_flt hs).elim
  | _ => simp only [callMeth, raise_ok] at h
end meth

end Pysnark
