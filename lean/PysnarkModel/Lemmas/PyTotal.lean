import PysnarkModel.Lemmas.PyRun
/-!
# C05 at program level, totality: the gadgets do not raise inside the documented domain

`Ok m s` : the computation `m` returns from state `s`.  All statements are for the unguarded mode
(`s.guard = none`); error checking may be on.
-/
set_option linter.unusedSimpArgs false
namespace Pysnark

/-- `m` returns (does not raise) from `s` -/
def Ok {α : Type} (m : M α) (s : St) : Prop := ∃ r, m s = .ok r

theorem Ok.bind {α β : Type} {m : M α} {f : α → M β} {s s1 : St} {a : α} (h1 : m s = .ok (a, s1))
    (h2 : Ok (f a) s1) : Ok (m >>= f) s := by
  obtain ⟨⟨b, s2⟩, h2⟩ := h2
  exact ⟨(b, s2), bind_ok.mpr ⟨a, s1, h1, h2⟩⟩

theorem Ok.pure {α : Type} (a : α) (s : St) : Ok (pure a : M α) s := ⟨(a, s), rfl⟩

theorem Ok.of_eq {α : Type} {m : M α} {s : St} {r : α × St} (h : m s = .ok r) : Ok m s := ⟨r, h⟩

/-- first component of a bind: from an existential with `Same` -/
theorem Ok.bind' {α β : Type} {m : M α} {f : α → M β} {s : St} (h1 : Ok m s)
    (h2 : ∀ a s1, m s = .ok (a, s1) → Ok (f a) s1) : Ok (m >>= f) s := by
  obtain ⟨⟨a, s1⟩, h1⟩ := h1
  exact Ok.bind h1 (h2 a s1 h1)

theorem mapM'_ok {α β : Type} {f : α → M β} (P : St → Prop)
    (hf : ∀ x s, P s → ∃ r s', f x s = .ok (r, s') ∧ P s') :
    ∀ (xs : List α) (s : St), P s → ∃ rs s', mapM' f xs s = .ok (rs, s') ∧ P s'
  | [], s, hs => ⟨[], s, rfl, hs⟩
  | x :: xs, s, hs => by
    obtain ⟨r, s1, h1, hs1⟩ := hf x s hs
    obtain ⟨rs, s2, h2, hs2⟩ := mapM'_ok P hf xs s1 hs1
    refine ⟨r :: rs, s2, ?_, hs2⟩
    unfold mapM'
    exact bind_ok.mpr ⟨r, s1, h1, bind_ok.mpr ⟨rs, s2, h2, rfl⟩⟩

section gadgets
variable {s : St}

theorem pubValBool_total {v : Int} (hg : s.guard = none) (hb : v = 0 ∨ v = 1) :
    ∃ r s', pubValBool v s = .ok (r, s') ∧ Same s s' ∧ r.value = v := by
  unfold pubValBool
  have : isBooleanValue v = true := isBooleanValue_iff.mpr hb
  simp only [this, Bool.not_true, Bool.false_eq_true, if_false]
  obtain ⟨s2, h2, sm2⟩ := mkBool_total (s := { s with pub := s.pub ++ [v] })
    (x := ⟨v, [(Wire.pub s.pub.length, 1)]⟩) (c := true) hg hb
  have sm0 : Same s { s with pub := s.pub ++ [v] } := ⟨rfl, rfl, rfl, rfl, rfl, rfl⟩
  exact ⟨_, s2, bind_ok.mpr ⟨_, _, rfl, h2⟩, sm0.trans sm2, rfl⟩

theorem assertPositive_total {x : LinComb} {bits : Option Nat} (hg : s.guard = none)
    (h0 : 0 ≤ x.value) (hb : x.value < 2 ^ bits.getD s.bitlength) :
    ∃ s', assertPositive x bits s = .ok ((), s') ∧ Same s s' := by
  have hbl := bitLength_le_of_lt h0 hb
  unfold assertPositive
  dsimp only
  have hf : fitsNonneg x.value (bits.getD s.bitlength) = true := fitsNonneg_iff.mpr ⟨h0, hbl⟩
  simp only [hf, Bool.not_true, Bool.and_false, Bool.false_eq_true, if_false]
  obtain ⟨rs, s1, h1, sm⟩ := toBits_total (bits := bits) hg h0 hbl
  exact ⟨s1, bind_ok.mpr ⟨rs, s1, h1, rfl⟩, sm⟩

theorem assertLt_total {a b : LinComb} (hg : s.guard = none) (hlt : a.value < b.value)
    (hb : b.value - a.value - 1 < 2 ^ s.bitlength) :
    ∃ s', assertLt a b s = .ok ((), s') ∧ Same s s' := by
  unfold assertLt
  have : (!s.ignoreErrors && decide (a.value ≥ b.value)) = false := by
    simp only [Bool.and_eq_false_iff, Bool.not_eq_false', decide_eq_false_iff_not, not_le]
    exact Or.inr hlt
  simp only [this, Bool.false_eq_true, if_false]
  exact assertPositive_total (bits := none) hg (by simp only [subI_value, sub_value]; omega)
    (by simp only [subI_value, sub_value, Option.getD_none]; exact hb)

/-- `//`, `%`, `divmod`: a positive divisor not above `2^bitlength` -/
theorem divmodLL_total {a d : LinComb} (hg : s.guard = none) (hd0 : 0 < d.value)
    (hd : d.value ≤ 2 ^ s.bitlength) : Ok (divmodLL a d) s := by
  unfold divmodLL
  have hne : (d.value == 0) = false := by simpa using hd0.ne'
  simp only [hne, Bool.false_eq_true, if_false]
  set q := Py.floordiv a.value d.value with hq
  have hrem : a.value - q * d.value = Int.fmod a.value d.value := by
    rw [Int.fmod_def, hq]; unfold Py.floordiv; ring
  have hr0 : 0 ≤ Int.fmod a.value d.value := by
    rw [Int.fmod_eq_emod_of_nonneg _ hd0.le]; exact Int.emod_nonneg _ hd0.ne'
  have hr1 : Int.fmod a.value d.value < d.value := by
    rw [Int.fmod_eq_emod_of_nonneg _ hd0.le]; exact Int.emod_lt_of_pos _ hd0
  refine Ok.bind (a := ⟨q, [(Wire.priv s.priv.length, 1)]⟩) rfl ?_
  refine Ok.bind' ⟨_, rfl⟩ ?_
  intro res s2 h2
  obtain ⟨sm2, v2⟩ := mulLL_val h2
  have sm0 : Same s { s with priv := s.priv ++ [q] } := ⟨rfl, rfl, rfl, rfl, rfl, rfl⟩
  have sm02 : Same s s2 := sm0.trans sm2
  refine Ok.bind (a := ⟨a.value - res.value, [(Wire.priv s2.priv.length, 1)]⟩) rfl ?_
  have hrv : a.value - res.value = Int.fmod a.value d.value := by rw [v2]; exact hrem
  have g3 : ({ s2 with priv := s2.priv ++ [a.value - res.value] } : St).guard = none := sm02.guard_none hg
  obtain ⟨s4, h4, sm4⟩ := addConstraint_total (s := { s2 with priv := s2.priv ++ [a.value - res.value] })
    (v := ⟨q, [(Wire.priv s.priv.length, 1)]⟩) (w := d)
    (y := a.sub ⟨a.value - res.value, [(Wire.priv s2.priv.length, 1)]⟩) (check := true) g3
    (Or.inl (by simp only [sub_value]; rw [v2]; ring))
  refine Ok.bind h4 ?_
  have g4 : s4.guard = none := sm4.guard_none g3
  have bl4 : s4.bitlength = s.bitlength := sm4.bl.trans sm02.bl
  obtain ⟨s5, h5, sm5⟩ := assertLt_total (s := s4)
    (a := ⟨a.value - res.value, [(Wire.priv s2.priv.length, 1)]⟩) (b := d) g4
    (by show a.value - res.value < d.value; rw [hrv]; exact hr1)
    (by show d.value - (a.value - res.value) - 1 < _; rw [hrv, bl4]; omega)
  refine Ok.bind h5 ?_
  have g5 : s5.guard = none := sm5.guard_none g4
  obtain ⟨s6, h6, -⟩ := assertPositive_total (s := s5)
    (x := ⟨a.value - res.value, [(Wire.priv s2.priv.length, 1)]⟩) (bits := none) g5
    (by show 0 ≤ a.value - res.value; rw [hrv]; exact hr0)
    (by show a.value - res.value < _; rw [hrv]; simp only [Option.getD_none, sm5.bl, bl4]; omega)
  exact Ok.bind h6 (Ok.pure _ _)

/-- `/` by a secret: non-zero divisor, exact division -/
theorem truedivLL_total {a b : LinComb} (hg : s.guard = none) (hb : b.value ≠ 0)
    (hm : Int.fmod a.value b.value = 0) : Ok (truedivLL a b) s := by
  unfold Ok truedivLL
  rw [getSt_bind]
  have hhint : truedivHint s a.value b.value = .ok (Py.floordiv a.value b.value) := by
    unfold truedivHint
    have h0 : (b.value == 0) = false := by simpa using hb
    simp [h0, isGuard_of_none hg, Py.mod, hm]
  rw [hhint, liftE_ok_bind]
  refine Ok.bind (a := ⟨Py.floordiv a.value b.value, [(Wire.priv s.priv.length, 1)]⟩) rfl ?_
  obtain ⟨s2, h2, -⟩ := addConstraint_total (s := { s with priv := s.priv ++ [Py.floordiv a.value b.value] })
    (v := b) (w := ⟨Py.floordiv a.value b.value, [(Wire.priv s.priv.length, 1)]⟩) (y := a) (check := true) hg
    (Or.inl (Int.mul_fdiv_cancel_of_fmod_eq_zero hm))
  exact Ok.bind h2 (Ok.pure _ _)

/-- `/` by a plain int: non-zero modulo the field prime, exact division -/
theorem truedivLI_total {a : LinComb} {c : Int} (hg : s.guard = none) (hP : PrimeP s)
    (hc : c % s.p ≠ 0) (hm : Int.fmod a.value c = 0) : Ok (truedivLI a c) s := by
  obtain ⟨q, hq, e⟩ := hP
  have hc0 : c ≠ 0 := by rintro rfl; simp at hc
  rw [e] at hc
  obtain ⟨y, hy, -⟩ := Py.invert_correct hq c hc
  refine ⟨(⟨Py.floordiv a.value c, a.lc.scale y⟩, s), ?_⟩
  unfold truedivLI
  have h0 : (c == 0) = false := by simpa using hc0
  have hm' : (Py.mod a.value c == 0) = true := by simp [Py.mod, hm]
  simp only [h0, Bool.false_eq_true, if_false, isGuard_of_none hg, Bool.true_and, hm', if_true, e, hy]

theorem rshiftLI_total {a : LinComb} {n : Int} (hn : 0 ≤ n) (hg : s.guard = none) (h0 : 0 ≤ a.value)
    (hb : a.value < 2 ^ s.bitlength) : Ok (rshiftLI a n) s := by
  unfold rshiftLI
  simp only [not_lt.mpr hn, if_false]
  obtain ⟨rs, s1, h1, -⟩ := toBits_total (x := a) (bits := none) hg h0 (bitLength_le_of_lt h0 hb)
  exact Ok.bind h1 (Ok.pure _ _)

/-- the common skeleton of `&`, `|`, `^` on two secret integers -/
theorem bitwiseLL_total {a b : LinComb} (f : LinComb × LinComb → M LinComb)
    (hf : ∀ xy s, ∃ r s', f xy s = .ok (r, s'))
    (hg : s.guard = none) (ha0 : 0 ≤ a.value) (ha : a.value < 2 ^ s.bitlength)
    (hb0 : 0 ≤ b.value) (hb : b.value < 2 ^ s.bitlength) :
    Ok (do let ab ← toBits a none
           let bb ← toBits b none
           let res ← mapM' f (ab.zip bb)
           pure (fromBits res) : M (Option LinComb)) s := by
  obtain ⟨ab, s1, h1, sm1⟩ := toBits_total (x := a) (bits := none) hg ha0 (bitLength_le_of_lt ha0 ha)
  refine Ok.bind h1 ?_
  obtain ⟨bb, s2, h2, -⟩ := toBits_total (s := s1) (x := b) (bits := none) (sm1.guard_none hg) hb0
    (bitLength_le_of_lt hb0 (by simpa only [Option.getD_none, sm1.bl] using hb))
  refine Ok.bind h2 ?_
  obtain ⟨rs, s3, h3, -⟩ := mapM'_ok (fun _ => True) (fun xy s _ => by
    obtain ⟨r, s', h⟩ := hf xy s; exact ⟨r, s', h, trivial⟩) (ab.zip bb) s2 trivial
  exact Ok.bind h3 (Ok.pure _ _)

theorem andLL_total {a b : LinComb} (hg : s.guard = none) (ha0 : 0 ≤ a.value) (ha : a.value < 2 ^ s.bitlength)
    (hb0 : 0 ≤ b.value) (hb : b.value < 2 ^ s.bitlength) : Ok (andLL a b) s := by
  unfold andLL
  exact bitwiseLL_total _ (fun xy s => ⟨_, _, rfl⟩) hg ha0 ha hb0 hb
theorem orLL_total {a b : LinComb} (hg : s.guard = none) (ha0 : 0 ≤ a.value) (ha : a.value < 2 ^ s.bitlength)
    (hb0 : 0 ≤ b.value) (hb : b.value < 2 ^ s.bitlength) : Ok (orLL a b) s := by
  unfold orLL
  exact bitwiseLL_total _ (fun xy s => ⟨_, _, rfl⟩) hg ha0 ha hb0 hb
theorem xorLL_total {a b : LinComb} (hg : s.guard = none) (ha0 : 0 ≤ a.value) (ha : a.value < 2 ^ s.bitlength)
    (hb0 : 0 ≤ b.value) (hb : b.value < 2 ^ s.bitlength) : Ok (xorLL a b) s := by
  unfold xorLL
  exact bitwiseLL_total _ (fun xy s => ⟨_, _, rfl⟩) hg ha0 ha hb0 hb

theorem pyCheckPositive_ok {x : LinComb} {bits : Option Nat} (hg : s.guard = none)
    (hb : Py.bitLength x.value ≤ bits.getD s.bitlength) : Ok (checkPositive x bits) s := by
  obtain ⟨r, s', h⟩ := checkPositive_total (bits := bits) hg hb
  exact ⟨_, h⟩

theorem pyCheckZero_ok {x : LinComb} (hP : PrimeP s) (hx : x.value = 0 ∨ x.value % s.p ≠ 0) :
    Ok (checkZero x) s := by
  obtain ⟨r, s', h⟩ := (checkZero_ok_iff_prime hP).mpr (by
    rintro ⟨h0, hm⟩
    rcases hx with hx | hx
    · exact h0 hx
    · exact hx hm)
  exact ⟨_, h⟩

theorem pyCheckNonzero_ok {x : LinComb} (hg : s.guard = none) (hP : PrimeP s)
    (hx : x.value = 0 ∨ x.value % s.p ≠ 0) : Ok (checkNonzero x) s := by
  unfold checkNonzero
  refine Ok.bind' (pyCheckZero_ok hP hx) ?_
  intro z s1 h1
  obtain ⟨sm, vz⟩ := checkZero_val h1
  unfold boolNot
  obtain ⟨s2, h2, -⟩ := mkBool_total (s := s1) (x := z.rsubI 1) (c := false) (sm.guard_none hg)
    (by rw [rsubI_value, vz]; split <;> simp)
  exact ⟨_, h2⟩

theorem absL_total {a : LinComb} (hg : s.guard = none) (hb : Py.bitLength a.value ≤ s.bitlength) :
    Ok (absL a) s := by
  unfold absL
  refine Ok.bind' (pyCheckPositive_ok (bits := none) hg (by simpa only [subI_value, sub_zero, Option.getD_none] using hb)) ?_
  intro c s1 _
  exact ⟨_, rfl⟩

theorem valL_total {x : LinComb} (hg : s.guard = none) : Ok (valL x) s := by
  unfold valL
  refine Ok.bind (a := ⟨x.value, [(Wire.pub s.pub.length, 1)]⟩) rfl ?_
  obtain ⟨s2, h2, -⟩ := assertZero_total (s := { s with pub := s.pub ++ [x.value] })
    (x := x.sub ⟨x.value, [(Wire.pub s.pub.length, 1)]⟩) hg (by simp)
  exact Ok.bind h2 (Ok.pure _ _)

theorem ensureboolI_total {v : Int} (hg : s.guard = none) (hb : v = 0 ∨ v = 1) :
    ∃ r s', ensureboolI v s = .ok (r, s') ∧ Same s s' ∧ r.value = v := by
  unfold ensureboolI
  have : isBooleanValue v = true := isBooleanValue_iff.mpr hb
  simp only [this, Bool.not_true, Bool.false_eq_true, if_false]
  obtain ⟨s2, h2, sm⟩ := mkBool_total (s := s) (x := LinComb.const v) (c := true) hg hb
  exact ⟨_, s2, h2, sm, rfl⟩
end gadgets

end Pysnark
