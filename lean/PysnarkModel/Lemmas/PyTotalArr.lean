import PysnarkModel.Lemmas.PyTotalIte
/-!
# C05 at program level, totality: array access through a SECRET index

`a[i]`, `a[i] = v` with `i` a secret integer, `0 ≤ i < len(a) ≤ p`, elements (and `v`) plain or
secret integers: the index check passes, every one-hot selector is a zero test of `i - k` with
`|i - k| < p` (zero or invertible), the selectors sum to 1 (`assert_eq` passes), and the dot product /
the element-wise selection never raise.
-/
set_option linter.unusedSimpArgs false
namespace Pysnark

/-- `mapM'` returns when `f` does on every element; `Q` holds of every result -/
theorem mapM'_ok_mem_res {α β : Type} {f : α → M β} (P : St → Prop) (Q : β → Prop) :
    ∀ (xs : List α) (s : St), (∀ x ∈ xs, ∀ s, P s → ∃ r s', f x s = .ok (r, s') ∧ P s' ∧ Q r) → P s →
      ∃ rs s', mapM' f xs s = .ok (rs, s') ∧ P s' ∧ ∀ r ∈ rs, Q r
  | [], s, _, hs => ⟨[], s, rfl, hs, fun _ h => by simp at h⟩
  | x :: xs, s, hf, hs => by
    obtain ⟨r, s1, h1, hs1, q1⟩ := hf x (List.mem_cons_self ..) s hs
    obtain ⟨rs, s2, h2, hs2, q2⟩ :=
      mapM'_ok_mem_res P Q xs s1 (fun y hy => hf y (List.mem_cons_of_mem _ hy)) hs1
    refine ⟨r :: rs, s2, ?_, hs2, ?_⟩
    · unfold mapM'
      exact bind_ok.mpr ⟨r, s1, h1, bind_ok.mpr ⟨rs, s2, h2, rfl⟩⟩
    · intro y hy
      rcases List.mem_cons.mp hy with rfl | hy
      · exact q1
      · exact q2 y hy

/-- the sum of the values -/
def lcSum : List LinComb → Int
  | [] => 0
  | b :: bs => b.value + lcSum bs

theorem foldl_addB_value : ∀ (bs : List LinComb) (a : LinComb),
    (bs.foldl (fun acc x => x.add acc) a).value = a.value + lcSum bs
  | [], a => by simp [lcSum]
  | b :: bs, a => by
    rw [List.foldl_cons, foldl_addB_value bs (b.add a), add_value]
    simp only [lcSum]; ring

theorem sumBools_value {b : LinComb} {bs : List LinComb} :
    ∃ sm, sumBools (b :: bs) = some sm ∧ sm.value = lcSum (b :: bs) := by
  refine ⟨_, rfl, ?_⟩
  rw [foldl_addB_value, addI_value]
  simp only [lcSum]; ring

/-- `|d| < p`: zero or not a multiple of `p` -/
theorem nz_of_abs_lt {p d : Int} (h : |d| < p) : d = 0 ∨ d % p ≠ 0 := by
  by_cases h0 : d = 0
  · exact Or.inl h0
  · right
    intro hm
    exact h0 (Int.eq_zero_of_abs_lt_dvd (Int.dvd_of_emod_eq_zero hm) h)

section
variable {s : St}

theorem eqLI_total {a : LinComb} {c : Int} (hP : PrimeP s)
    (hz : a.value - c = 0 ∨ (a.value - c) % s.p ≠ 0) :
    ∃ r s', eqLI a c s = .ok (r, s') ∧ Same s s' ∧ r.value = if a.value = c then 1 else 0 := by
  obtain ⟨⟨r, s'⟩, h⟩ := pyCheckZero_ok (x := a.subI c) hP (by rw [subI_value]; exact hz)
  exact ⟨r, s', h, (checkZero_val h).1, eqLI_value h⟩

/-- the one-hot selectors `[item == k for k in range(i, i+n)]`: 0/1-valued, their sum is 1 when the
item is one of the positions and 0 otherwise -/
theorem oneHot_total {item : LinComb} : ∀ (n i : Nat) (s : St), s.guard = none → PrimeP s →
    (∀ k : Nat, i ≤ k → k < i + n → item.value - k = 0 ∨ (item.value - k) % s.p ≠ 0) →
    ∃ rs s', oneHot item i n s = .ok (rs, s') ∧ Same s s' ∧ rs.length = n ∧
      (∀ b ∈ rs, b.value = 0 ∨ b.value = 1) ∧
      lcSum rs = if (i : Int) ≤ item.value ∧ item.value < ((i + n : Nat) : Int) then 1 else 0
  | 0, i, s, _, _, _ => by
    refine ⟨[], s, rfl, Same.refl _, rfl, fun _ h => by simp at h, ?_⟩
    simp only [lcSum, Nat.add_zero]
    rw [if_neg]; omega
  | n+1, i, s, hg, hP, hz => by
    obtain ⟨c, s1, h1, sm1, vc⟩ := eqLI_total (a := item) (c := (i : Int)) hP (hz i (le_refl _) (by omega))
    obtain ⟨rest, s2, h2, sm2, hl, h01, hsum⟩ := oneHot_total n (i+1) s1 (sm1.guard_none hg) (hP.same sm1)
      (fun k hk1 hk2 => by rw [sm1.p]; exact hz k (by omega) (by omega))
    refine ⟨c :: rest, s2, ?_, sm1.trans sm2, by simp [hl], ?_, ?_⟩
    · unfold oneHot
      exact bind_ok.mpr ⟨c, s1, h1, bind_ok.mpr ⟨rest, s2, h2, rfl⟩⟩
    · intro b hb
      rcases List.mem_cons.mp hb with rfl | hb
      · rw [vc]; split <;> simp
      · exact h01 b hb
    · simp only [lcSum]
      rw [vc, hsum]
      push_cast
      split_ifs <;> omega

theorem arrayCheck_pass {item : LinComb} {n : Nat} (h0 : 0 ≤ item.value) (h1 : item.value < n) :
    arrayCheck item n s = .ok ((), s) := by
  unfold arrayCheck
  have : (decide (item.value < 0) || decide (item.value ≥ (n : Int))) = false := by
    simp only [Bool.or_eq_false_iff, decide_eq_false_iff_not, not_lt, ge_iff_le, not_le]
    exact ⟨h0, h1⟩
  simp only [this, Bool.and_false, Bool.false_eq_true, if_false]

/-- **the selectors of a secret index in range** -/
theorem arrayIxs_total {it : LinComb} {n : Nat} (hk : PyOk s) (hP : PrimeP s) (h0 : 0 ≤ it.value)
    (h1 : it.value < n) (hn : (n : Int) ≤ s.p) :
    ∃ ixs s', arrayIxs it n s = .ok (ixs, s') ∧ Same s s' ∧ ixs.length = n ∧
      ∀ b ∈ ixs, b.value = 0 ∨ b.value = 1 := by
  have hg := hk.guard
  obtain ⟨ixs, s1, e1, sm1, hl, h01, hsum⟩ := oneHot_total (item := it) n 0 s hg hP (by
    intro k _ hk2
    exact nz_of_abs_lt (abs_lt.mpr ⟨by omega, by omega⟩))
  have hsum1 : lcSum ixs = 1 := by
    rw [hsum, if_pos]
    exact ⟨by simpa using h0, by simpa using h1⟩
  cases ixs with
  | nil =>
    simp only [List.length_nil] at hl
    omega
  | cons b bs =>
    obtain ⟨sm, hsm, vsm⟩ := sumBools_value (b := b) (bs := bs)
    have hk1 := hk.same sm1
    obtain ⟨s2, e2, sm2⟩ := assertEq_total (s := s1) (a := sm) (b := s1.one.mulI 1) (sm1.guard_none hg)
      (by rw [vsm, hsum1, mulI_value, hk1.one_val]; rfl)
    refine ⟨b :: bs, s2, ?_, sm1.trans sm2, hl, h01⟩
    unfold arrayIxs
    refine bind_ok.mpr ⟨(), s, arrayCheck_pass h0 h1, bind_ok.mpr ⟨b :: bs, s1, e1, ?_⟩⟩
    simp only [hsm]
    exact bind_ok.mpr ⟨s1.one.mulI 1, s1, rfl, bind_ok.mpr ⟨(), s2, e2, rfl⟩⟩

theorem mulLV_intLike_total {c : LinComb} {v : Val} (hv : v.isIntLike = true) (s : St) :
    ∃ r s', mulLV c v s = .ok (r, s') ∧ True ∧ ∃ y, r = Val.lc y := by
  cases v <;> simp only [Val.isIntLike, Bool.false_eq_true] at hv
  · exact ⟨_, s, rfl, trivial, _, rfl⟩
  · rename_i y
    obtain ⟨r, s', h⟩ := mulLL_total c y s
    exact ⟨.lc r, s', by simp only [mulLV]; exact bind_ok.mpr ⟨r, s', h, rfl⟩, trivial, r, rfl⟩

theorem foldlM_addV_total : ∀ (ps : List Val) (a : LinComb) (s : St), (∀ q ∈ ps, ∃ y, q = Val.lc y) →
    ∃ r, ps.foldlM (fun acc x => addV acc x) (Val.lc a) s = .ok (r, s)
  | [], a, s, _ => ⟨.lc a, by rw [List.foldlM_nil]; rfl⟩
  | q :: ps, a, s, hp => by
    obtain ⟨y, rfl⟩ := hp q List.mem_cons_self
    obtain ⟨r, hr⟩ := foldlM_addV_total ps (a.add y) s (fun q hq => hp q (List.mem_cons_of_mem _ hq))
    refine ⟨r, ?_⟩
    rw [List.foldlM_cons]
    exact bind_ok.mpr ⟨.lc (a.add y), s, rfl, hr⟩

/-- `lin_comb(ixs, arr)` on plain / secret integer elements -/
theorem linComb_total {ixs : List LinComb} {arr : List Val} (harr : ∀ v ∈ arr, v.isIntLike = true) :
    Ok (linComb ixs arr) s := by
  obtain ⟨prods, s1, h1, -, hlc⟩ := mapM'_ok_mem_res (f := fun (cv : LinComb × Val) => mulLV cv.1 cv.2)
    (fun _ => True) (fun r => ∃ y, r = Val.lc y) (ixs.zip arr) s
    (fun cv hcv s _ => mulLV_intLike_total (harr _ (List.of_mem_zip hcv).2) s) trivial
  unfold linComb
  refine Ok.bind h1 ?_
  cases prods with
  | nil => exact Ok.pure _ _
  | cons q ps =>
    obtain ⟨y, rfl⟩ := hlc q List.mem_cons_self
    obtain ⟨r, hr⟩ := foldlM_addV_total ps (y.addI 0) s1 (fun q hq => hlc q (List.mem_cons_of_mem _ hq))
    exact Ok.bind (a := Val.lc (y.addI 0)) (s1 := s1) rfl ⟨_, hr⟩

/-- **`a[i]` with a secret index** does not raise: `0 ≤ i < len(a) ≤ p`, integer elements -/
theorem arrayGet_total {arr : List Val} {it : LinComb} (hk : PyOk s) (hP : PrimeP s)
    (harr : ∀ v ∈ arr, v.isIntLike = true) (h0 : 0 ≤ it.value) (h1 : it.value < arr.length)
    (hn : (arr.length : Int) ≤ s.p) : Ok (arrayGet arr (.lc it)) s := by
  obtain ⟨ixs, s1, e1, -, -, -⟩ := arrayIxs_total hk hP h0 h1 hn
  simp only [arrayGet]
  exact Ok.bind e1 (linComb_total harr)

/-- **`a[i] = v` with a secret index** does not raise -/
theorem arraySet_total {arr : List Val} {it : LinComb} {v : Val} (hk : PyOk s) (hP : PrimeP s)
    (harr : ∀ x ∈ arr, x.isIntLike = true) (hv : v.isIntLike = true) (h0 : 0 ≤ it.value)
    (h1 : it.value < arr.length) (hn : (arr.length : Int) ≤ s.p) : Ok (arraySet arr (.lc it) v) s := by
  obtain ⟨ixs, s1, e1, -, -, h01⟩ := arrayIxs_total hk hP h0 h1 hn
  simp only [arraySet]
  refine Ok.bind e1 ?_
  have hvs := isIntLike_sc hv
  have hvb : v.isLcb = false := by cases v <;> simp_all [Val.isIntLike, Val.isLcb]
  obtain ⟨rs, s2, h2, -, -⟩ := mapM'_ok_mem_res
    (f := fun (cv : LinComb × Val) => ifThenElse (.lcb cv.1) false v cv.2)
    (fun _ => True) (fun _ => True) (ixs.zip arr) s1
    (fun cv hcv s _ => by
      obtain ⟨hc, hx⟩ := List.of_mem_zip hcv
      have hxi := harr _ hx
      have hxb : cv.2.isLcb = false := by
        generalize cv.2 = x at hxi
        cases x <;> simp_all [Val.isIntLike, Val.isLcb]
      obtain ⟨⟨r, s'⟩, h⟩ := ifThenElse_total (s := s) (cond := .lcb cv.1) (t := v) (f := cv.2) (same := false)
        (Or.inr (Or.inr ⟨cv.1, rfl, h01 _ hc, hvs, isIntLike_sc hxi,
          fun h => (by rw [hvb] at h; cases h), fun h => (by rw [hxb] at h; cases h)⟩))
      exact ⟨r, s', h, trivial, trivial⟩) trivial
  exact ⟨_, h2⟩
end

end Pysnark
