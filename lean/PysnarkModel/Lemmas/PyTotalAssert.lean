import PysnarkModel.Lemmas.PyTotalOps2
/-!
# C05 at program level, totality: the assertion methods

An assertion whose relation HOLDS on the reference values, with the range-checked difference inside
the bit length (as for the corresponding comparison operator), does not raise.
-/
set_option linter.unusedSimpArgs false
namespace Pysnark

section gadgets
variable {s : St} {a b : LinComb}

theorem assertLe_total (hg : s.guard = none) (hle : a.value ≤ b.value)
    (hb : b.value - a.value < 2 ^ s.bitlength) : ∃ s', assertLe a b s = .ok ((), s') ∧ Same s s' := by
  unfold assertLe
  have : (!s.ignoreErrors && decide (a.value > b.value)) = false := by
    simp only [Bool.and_eq_false_iff, Bool.not_eq_false', decide_eq_false_iff_not, not_lt]
    exact Or.inr hle
  simp only [this, Bool.false_eq_true, if_false]
  exact assertPositive_total (bits := none) hg (by simp only [sub_value]; omega)
    (by simp only [sub_value, Option.getD_none]; exact hb)

theorem assertGt_total (hg : s.guard = none) (hlt : b.value < a.value)
    (hb : a.value - b.value - 1 < 2 ^ s.bitlength) : ∃ s', assertGt a b s = .ok ((), s') ∧ Same s s' := by
  unfold assertGt
  have : (!s.ignoreErrors && decide (a.value ≤ b.value)) = false := by
    simp only [Bool.and_eq_false_iff, Bool.not_eq_false', decide_eq_false_iff_not, not_le]
    exact Or.inr hlt
  simp only [this, Bool.false_eq_true, if_false]
  exact assertPositive_total (bits := none) hg (by simp only [subI_value, sub_value]; omega)
    (by simp only [subI_value, sub_value, Option.getD_none]; exact hb)

theorem assertGe_total (hg : s.guard = none) (hle : b.value ≤ a.value)
    (hb : a.value - b.value < 2 ^ s.bitlength) : ∃ s', assertGe a b s = .ok ((), s') ∧ Same s s' := by
  unfold assertGe
  have : (!s.ignoreErrors && decide (a.value < b.value)) = false := by
    simp only [Bool.and_eq_false_iff, Bool.not_eq_false', decide_eq_false_iff_not, not_lt]
    exact Or.inr hle
  simp only [this, Bool.false_eq_true, if_false]
  exact assertPositive_total (bits := none) hg (by simp only [sub_value]; omega)
    (by simp only [sub_value, Option.getD_none]; exact hb)

theorem assertEq_total (hg : s.guard = none) (he : a.value = b.value) :
    ∃ s', assertEq a b s = .ok ((), s') ∧ Same s s' := by
  unfold assertEq
  have : (!s.ignoreErrors && a.value != b.value) = false := by simp [he]
  simp only [this, Bool.false_eq_true, if_false]
  exact assertZero_total hg (by simp only [sub_value]; omega)

/-- `assert_nonzero`: the value is invertible modulo the field prime -/
theorem assertNonzero_total {x : LinComb} (hg : s.guard = none) (hP : PrimeP s) (hx : x.value % s.p ≠ 0) :
    ∃ s', assertNonzero x s = .ok ((), s') ∧ Same s s' := by
  obtain ⟨q, hq, e⟩ := hP
  have hx0 : x.value ≠ 0 := by rintro h; rw [h] at hx; simp at hx
  rw [e] at hx
  obtain ⟨y, hy, -⟩ := Py.invert_correct hq x.value hx
  unfold assertNonzero
  rw [getSt_bind]
  have hhint : assertNonzeroHint s x.value = .ok y := by
    unfold assertNonzeroHint
    have h0 : (x.value != 0) = true := by simpa using hx0
    simp only [isGuard_of_none hg, h0, Bool.and_self, if_true, e, hy]
  rw [hhint, liftE_ok_bind, privVal_bind]
  have sm0 : Same s { s with priv := s.priv ++ [y] } := ⟨rfl, rfl, rfl, rfl, rfl, rfl⟩
  obtain ⟨s2, h2, sm2⟩ := addConstraint_total (s := { s with priv := s.priv ++ [y] })
    (v := x) (w := ⟨y, [(Wire.priv s.priv.length, 1)]⟩) (y := s.one) (check := false) hg (Or.inr rfl)
  exact ⟨s2, h2, sm0.trans sm2⟩

theorem assertNe_total (hg : s.guard = none) (hP : PrimeP s) (hne : a.value ≠ b.value)
    (hm : (a.value - b.value) % s.p ≠ 0) : ∃ s', assertNe a b s = .ok ((), s') ∧ Same s s' := by
  unfold assertNe
  have : (!s.ignoreErrors && a.value == b.value) = false := by simp [hne]
  simp only [this, Bool.false_eq_true, if_false]
  exact assertNonzero_total hg hP (by simpa only [sub_value] using hm)

/-- `assert_range(lo, hi)`: `lo ≤ x < hi`, both differences inside the bit length -/
theorem assertRange_total {x lo hi : LinComb} (hg : s.guard = none) (h1 : lo.value ≤ x.value)
    (h2 : x.value < hi.value) (hb1 : x.value - lo.value < 2 ^ s.bitlength)
    (hb2 : hi.value - x.value - 1 < 2 ^ s.bitlength) :
    ∃ s', assertRange x lo hi s = .ok ((), s') ∧ Same s s' := by
  unfold assertRange
  have : (!s.ignoreErrors && (decide (x.value < lo.value) || decide (x.value ≥ hi.value))) = false := by
    simp only [Bool.and_eq_false_iff, Bool.not_eq_false', Bool.or_eq_false_iff, decide_eq_false_iff_not,
      not_lt, ge_iff_le, not_le]
    exact Or.inr ⟨h1, h2⟩
  simp only [this, Bool.false_eq_true, if_false]
  obtain ⟨s1, e1, sm1⟩ := assertPositive_total (s := s) (x := x.sub lo) (bits := none) hg
    (by simp only [sub_value]; omega) (by simp only [sub_value, Option.getD_none]; exact hb1)
  obtain ⟨s2, e2, sm2⟩ := assertPositive_total (s := s1) (x := (hi.sub x).subI 1) (bits := none)
    (sm1.guard_none hg) (by simp only [subI_value, sub_value]; omega)
    (by simp only [subI_value, sub_value, Option.getD_none, sm1.bl]; exact hb2)
  exact ⟨s2, bind_ok.mpr ⟨(), s1, e1, e2⟩, sm1.trans sm2⟩
end gadgets

/-! ## the six comparison assertions as one group -/

/-- `assert_lt`, `assert_le`, `assert_eq`, `assert_ne`, `assert_gt`, `assert_ge` -/
def Meth.isCmpAssert : Meth → Bool
  | .assertLt | .assertLe | .assertEq | .assertNe | .assertGt | .assertGe => true
  | _ => false

theorem fits_lt {bl : Nat} {d : Int} (h0 : 0 ≤ d) (h : fitsAbs bl d = true) : d < 2 ^ bl :=
  lt_pow_of_fits h0 (fitsAbs_iff.mp h)

theorem assertCmp_total {s : St} {m : Meth} {a b : LinComb} (hm : m.isCmpAssert = true)
    (hg : s.guard = none) (hP : PrimeP s)
    (hd : pyDomAssertCmp s.p s.bitlength m a.value b.value = true) :
    ∃ s', assertCmp m a b s = .ok ((), s') ∧ Same s s' := by
  cases m <;> simp only [Meth.isCmpAssert, Bool.false_eq_true] at hm <;>
    simp only [pyDomAssertCmp, Bool.and_eq_true, decide_eq_true_eq] at hd <;> simp only [assertCmp]
  · exact assertLt_total hg hd.1 (fits_lt (by omega) hd.2)
  · exact assertLe_total hg hd.1 (fits_lt (by omega) hd.2)
  · exact assertEq_total hg hd
  · exact assertNe_total hg hP hd.1 hd.2
  · exact assertGt_total hg hd.1 (fits_lt (by omega) hd.2)
  · exact assertGe_total hg hd.1 (fits_lt (by omega) hd.2)

theorem pyGapCall_cmp {m : Meth} (hm : m.isCmpAssert = true) (self : Val) (args : List Val) :
    pyGapCall m self args =
      match self, args with
      | .lc _, [o] => if o.isIntLike then Option.none else some .kinds
      | .lcb _, [o] => if o.isSc then Option.none else some .kinds
      | _, _ => some .kinds := by
  cases m <;> simp only [Meth.isCmpAssert, Bool.false_eq_true] at hm <;> rfl

theorem pyDomCall_cmp {m : Meth} (hm : m.isCmpAssert = true) (p : Int) (bl : Nat) (self : PyVal)
    (args : List PyVal) :
    pyDomCall p bl m self args =
      match self.num?, args with
      | some x, [o] =>
        match o.num? with
        | some y => pyDomAssertCmp p bl m x y && (!self.isBool || is01 y)
        | Option.none => false
      | _, _ => false := by
  cases m <;> simp only [Meth.isCmpAssert, Bool.false_eq_true] at hm <;> rfl

theorem callMeth_cmp_lc {m : Meth} (hm : m.isCmpAssert = true) (x : LinComb) (o : Val) :
    callMeth m (.lc x) [o] = (do let y ← ensurelc o; assertCmp m x y; pure Val.none) := by
  cases m <;> simp only [Meth.isCmpAssert, Bool.false_eq_true] at hm <;> rfl

theorem callMeth_cmp_lcb {m : Meth} (hm : m.isCmpAssert = true) (x : LinComb) (o : Val) :
    callMeth m (.lcb x) [o] = (do let y ← ensurebool o; assertCmp m x y; pure Val.none) := by
  cases m <;> simp only [Meth.isCmpAssert, Bool.false_eq_true] at hm <;> rfl

section
variable {s : St}

/-- `_ensurelc` on a plain or secret integer -/
theorem ensurelc_total {o : Val} (hk : PyOk s) (ho : o.isIntLike = true) :
    ∃ y, ensurelc o s = .ok (y, s) ∧ y.value = o.num := by
  cases o <;> simp only [Val.isIntLike, Bool.false_eq_true] at ho
  · rename_i c
    refine ⟨s.one.mulI c, rfl, ?_⟩
    rw [mulI_value, hk.one_val, Val.num_int]; ring
  · rename_i y
    exact ⟨y, rfl, rfl⟩

theorem isIntLike_sc {o : Val} (ho : o.isIntLike = true) : o.isSc = true := by
  cases o <;> simp_all [Val.isIntLike, Val.isSc]

/-- **`x.assert_lt(y)`, … , `x.assert_ne(y)`** do not raise inside the domain -/
theorem callAssertCmp_total {m : Meth} {self : Val} {args : List Val} {pself : PyVal} {pargs : List PyVal}
    (hm : m.isCmpAssert = true) (hk : PyOk s) (hP : PrimeP s) (hs : ValRef self pself)
    (ha : ValRefL args pargs) (hgap : pyGapCall m self args = none)
    (hd : pyDomCall s.p s.bitlength m pself pargs = true) : Ok (callMeth m self args) s := by
  have hg := hk.guard
  rw [pyGapCall_cmp hm] at hgap
  rw [pyDomCall_cmp hm] at hd
  split at hgap
  · -- a secret integer
    rename_i x o
    split at hgap
    · rename_i ho
      obtain ⟨po, ws, rfl, hvo, hws⟩ := valRefL_cons_iff.mp ha
      rw [valRefL_nil_iff.mp hws, valRef_lc_iff.mp hs] at hd
      obtain ⟨no, -, -⟩ := hvo.sc (isIntLike_sc ho)
      simp only [PyVal.num?_int, no, PyVal.isBool, Bool.not_false, Bool.true_or, Bool.and_true] at hd
      obtain ⟨y, hy, vy⟩ := ensurelc_total hk ho
      rw [callMeth_cmp_lc hm]
      refine Ok.bind hy ?_
      obtain ⟨s', h', -⟩ := assertCmp_total (a := x) (b := y) hm hg hP (by rw [vy]; exact hd)
      exact Ok.bind h' (Ok.pure _ _)
    · cases hgap
  · -- a secret boolean: the other operand is coerced, its value has to be 0/1
    rename_i x o
    split at hgap
    · rename_i ho
      obtain ⟨po, ws, rfl, hvo, hws⟩ := valRefL_cons_iff.mp ha
      rw [valRefL_nil_iff.mp hws, (valRef_lcb_iff.mp hs).1] at hd
      obtain ⟨no, -, -⟩ := hvo.sc ho
      simp only [PyVal.num?_bool, no, PyVal.isBool, Bool.not_true, Bool.false_or, Bool.and_eq_true] at hd
      obtain ⟨y, s1, hy, sm, vy⟩ := ensurebool_total hg ho (is01_iff.mp hd.2)
      rw [callMeth_cmp_lcb hm]
      refine Ok.bind hy ?_
      obtain ⟨s', h', -⟩ := assertCmp_total (s := s1) (a := x) (b := y) hm (sm.guard_none hg) (hP.same sm)
        (by rw [vy, sm.p, sm.bl]; exact hd.1)
      exact Ok.bind h' (Ok.pure _ _)
    · cases hgap
  · cases hgap
end

end Pysnark
