import PysnarkModel.Lemmas.PyTotalOps
/-!
# C05 at program level, totality: a SECRET exponent / shift count

`x ** e`, `x << e`, `x >> e` with `e` a secret integer: the exponent is bit-decomposed at the
current bit length (`0 ≤ e < 2^bl` is all `**` and `<<` need: squares and products are reduced
modulo `p`, nothing else is checked); `>>` floor-divides by the secret `2^e`, a divisor that has to
lie in `(0, 2^bl]`: `e ≤ bl`, and `2^e < p` (the power does not wrap: `PyFragment`).
-/
set_option linter.unusedSimpArgs false
namespace Pysnark

/-- `mapM'` returns when `f` does on every ELEMENT of the list, from every state satisfying `P` -/
theorem mapM'_ok_mem {α β : Type} {f : α → M β} (P : St → Prop) :
    ∀ (xs : List α) (s : St), (∀ x ∈ xs, ∀ s, P s → ∃ r s', f x s = .ok (r, s') ∧ P s') → P s →
      ∃ rs s', mapM' f xs s = .ok (rs, s') ∧ P s'
  | [], s, _, hs => ⟨[], s, rfl, hs⟩
  | x :: xs, s, hf, hs => by
    obtain ⟨r, s1, h1, hs1⟩ := hf x (List.mem_cons_self ..) s hs
    obtain ⟨rs, s2, h2, hs2⟩ := mapM'_ok_mem P xs s1 (fun y hy => hf y (List.mem_cons_of_mem _ hy)) hs1
    refine ⟨r :: rs, s2, ?_, hs2⟩
    unfold mapM'
    exact bind_ok.mpr ⟨r, s1, h1, bind_ok.mpr ⟨rs, s2, h2, rfl⟩⟩

theorem neg_one_emod_ne {p : Int} (hp : 1 < p) : (-1 : Int) % p ≠ 0 := by
  intro h
  have h1 : p ∣ (-1 : Int) := Int.dvd_of_emod_eq_zero h
  have h2 : p ∣ (1 : Int) := (Int.dvd_neg).mp h1
  have := Int.eq_one_of_dvd_one (by omega) h2
  omega

section
variable {s : St}

/-- the squaring chain never raises -/
theorem powersAux_total : ∀ (n : Nat) (curr : LinComb) (p : Int) (s : St),
    ∃ rs s', powersAux n curr p s = .ok (rs, s') ∧ Same s s'
  | 0, _, _, s => ⟨[], s, rfl, Same.refl _⟩
  | n+1, curr, p, s => by
    obtain ⟨c, s1, h1⟩ := mulLL_total curr curr s
    obtain ⟨sm1, -⟩ := mulLL_val h1
    obtain ⟨rest, s2, h2, sm2⟩ := powersAux_total n (reduceValue c p) p s1
    refine ⟨reduceValue c p :: rest, s2, ?_, sm1.trans sm2⟩
    unfold powersAux
    exact bind_ok.mpr ⟨c, s1, h1, bind_ok.mpr ⟨rest, s2, h2, rfl⟩⟩

/-- the final product never raises -/
theorem mulAll_total (s0 : St) : ∀ (ms : List LinComb) (acc : LinComb) (s : St),
    ∃ r s', powLL.mulAll s0 ms acc s = .ok (r, s')
  | [], acc, s => ⟨acc, s, by unfold powLL.mulAll; rfl⟩
  | m :: ms, acc, s => by
    obtain ⟨r1, s1, h1⟩ := mulLL_total acc m s
    obtain ⟨r, s2, h2⟩ := mulAll_total s0 ms (reduceValue r1 s0.p) s1
    refine ⟨r, s2, ?_⟩
    unfold powLL.mulAll
    exact bind_ok.mpr ⟨r1, s1, h1, h2⟩

/-- the selection `if_then_else(bit == 1, power, ONE)` on a 0/1-valued bit -/
theorem powSel_total {bp : LinComb × LinComb} (hg : s.guard = none) (hP : PrimeP s)
    (hb : bp.1.value = 0 ∨ bp.1.value = 1) :
    ∃ r s', (do let one ← ensureboolI 1
                let c ← eqLL bp.1 one
                let s' ← getSt
                iteLLL c bp.2 s'.one : M LinComb) s = .ok (r, s') ∧ (s'.guard = none ∧ PrimeP s') := by
  obtain ⟨one, s1, h1, sm1, v1⟩ := ensureboolI_total (s := s) (v := 1) hg (Or.inr rfl)
  have hP1 := hP.same sm1
  have hz : (bp.1.sub one).value = 0 ∨ (bp.1.sub one).value % s1.p ≠ 0 := by
    rw [sub_value, v1]
    rcases hb with h | h
    · right; rw [h]; exact neg_one_emod_ne hP1.one_lt
    · left; rw [h]; rfl
  obtain ⟨⟨c, s2⟩, h2⟩ := pyCheckZero_ok hP1 hz
  obtain ⟨sm2, -⟩ := checkZero_val h2
  obtain ⟨r, s3, h3⟩ := iteLLL_total c bp.2 s2.one s2
  obtain ⟨sm3, -⟩ := iteLLL_val h3
  have sm := (sm1.trans sm2).trans sm3
  refine ⟨r, s3, ?_, sm.guard_none hg, hP.same sm⟩
  refine bind_ok.mpr ⟨one, s1, h1, bind_ok.mpr ⟨c, s2, h2, ?_⟩⟩
  rw [getSt_bind]
  exact h3

/-- **`x ** e` with a secret exponent** does not raise when `0 ≤ e < 2^bitlength` -/
theorem powLL_total {a e : LinComb} (hg : s.guard = none) (hP : PrimeP s) (h0 : 0 ≤ e.value)
    (hb : e.value < 2 ^ s.bitlength) : Ok (powLL a e) s := by
  obtain ⟨ebits, s1, h1, sm1⟩ := toBits_total (x := e) (bits := none) hg h0 (bitLength_le_of_lt h0 hb)
  obtain ⟨-, hv, -⟩ := toBits_val h1
  have hbits : ∀ b ∈ ebits, b.value = 0 ∨ b.value = 1 := by
    intro b hb
    have : b.value ∈ ebits.map (·.value) := List.mem_map.mpr ⟨b, hb, rfl⟩
    rw [hv] at this
    exact bitsOf_01 _ _ _ this
  unfold powLL
  refine Ok.bind h1 ?_
  refine Ok.bind (a := s1) (s1 := s1) rfl ?_
  obtain ⟨tail, s2, h2, sm2⟩ := powersAux_total ebits.length a s1.p s1
  refine Ok.bind h2 ?_
  have sm12 := sm1.trans sm2
  obtain ⟨ms, s3, h3, -⟩ := mapM'_ok_mem (fun s => s.guard = none ∧ PrimeP s)
    (f := fun (bp : LinComb × LinComb) => do
      let one ← ensureboolI 1
      let c ← eqLL bp.1 one
      let s' ← getSt
      iteLLL c bp.2 s'.one) (ebits.zip (a :: tail)) s2
    (fun bp hbp s hs => powSel_total hs.1 hs.2 (hbits _ (List.of_mem_zip hbp).1))
    ⟨sm12.guard_none hg, hP.same sm12⟩
  refine Ok.bind h3 ?_
  refine Ok.bind (a := s3) (s1 := s3) rfl ?_
  obtain ⟨r, s4, h4⟩ := mulAll_total s3 ms s3.one s3
  exact ⟨_, h4⟩

/-- `x << e` with a secret count: `x * 2 ** e` -/
theorem lshiftLV_lc_total {x e : LinComb} (hg : s.guard = none) (hP : PrimeP s) (h0 : 0 ≤ e.value)
    (hb : e.value < 2 ^ s.bitlength) : Ok (lshiftLV x (.lc e)) s := by
  simp only [lshiftLV]
  refine Ok.bind' (powLL_total hg hP h0 hb) ?_
  intro pw s1 _
  obtain ⟨r, s2, h2⟩ := mulLL_total x pw s1
  exact Ok.bind h2 (Ok.pure _ _)

/-- `x >> e` with a secret count: `x // 2 ** e`; the divisor `2^e` is positive because the power
does not wrap and has to be at most `2^bitlength` -/
theorem rshiftLV_lc_total {x e : LinComb} (hk : PyOk s) (hP : PrimeP s)
    (hw : powWraps s.p 2 e.value = false) (h0 : 0 ≤ e.value) (hb : e.value ≤ s.bitlength) :
    Ok (rshiftLV x (.lc e)) s := by
  have hg := hk.guard
  have hlt : e.value < 2 ^ s.bitlength := by
    have : (s.bitlength : Int) < 2 ^ s.bitlength := by exact_mod_cast Nat.lt_two_pow_self
    omega
  simp only [rshiftLV]
  refine Ok.bind' (powLL_total (a := LinComb.const 2) hg hP h0 hlt) ?_
  intro pw s1 h1
  obtain ⟨sm1, -, vp⟩ := powLL_exact (a := LinComb.const 2) hk.ign hk.one_val hP.one_lt hw h1
  have vp' : pw.value = 2 ^ e.value.toNat := vp
  have hle : e.value.toNat ≤ s.bitlength := by omega
  have hd : Ok (divmodLL x pw) s1 := by
    refine divmodLL_total (sm1.guard_none hg) (by rw [vp']; positivity) ?_
    rw [vp', sm1.bl]
    exact pow_le_pow_right₀ (by norm_num) hle
  have hf : Ok (floordivLL x pw) s1 := by
    unfold floordivLL
    exact Ok.bind' hd (fun _ _ _ => Ok.pure _ _)
  exact Ok.bind' hf (fun _ _ _ => Ok.pure _ _)
end

end Pysnark
