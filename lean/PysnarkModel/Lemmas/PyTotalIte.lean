import PysnarkModel.Lemmas.PyTotalOps3
import PysnarkModel.Lemmas.IteTag
/-!
# C05 at program level, totality: selection (`if_then_else`)
-/
set_option linter.unusedSimpArgs false
namespace Pysnark

section
variable {s : St}

/-- `LinCombBool(x, False)` on a 0/1 value returns (no constraint, no look at the guard) -/
theorem mkBool_false_total {x : LinComb} (hb : x.value = 0 ∨ x.value = 1) : mkBool x false s = .ok (x, s) := by
  unfold mkBool
  have : isBooleanValue x.value = true := isBooleanValue_iff.mpr hb
  simp [this]

/-- the selection arithmetic does not raise on scalars; when both branches are booleans the result
is handed to `LinCombBool(ret, False)`, which accepts it because condition and branches are 0/1 -/
theorem iteAux_total {c : LinComb} {n : Nat} {t f : Val} (ht : t.isSc = true) (hf : f.isSc = true)
    (hc : c.value = 0 ∨ c.value = 1) (hbt : t.isLcb = true → t.num = 0 ∨ t.num = 1)
    (hbf : f.isLcb = true → f.num = 0 ∨ f.num = 1) :
    Ok (iteAux c (n+1) t f) s := by
  have key : Ok (do let d ← subV t f; let pr ← mulLV c d; let ret ← addV f pr; iteTag t f ret : M Val) s := by
    obtain ⟨d, h1⟩ := subV_total (s := s) ht hf
    obtain ⟨-, sd, -, nd, -⟩ := subV_sc ht hf h1
    refine Ok.bind h1 (Ok.bind' (mulLV_total sd) ?_)
    intro pr s1 h2
    obtain ⟨-, z, rfl, vz⟩ := mulLV_sc sd h2
    obtain ⟨v, h3⟩ := addV_total (s := s1) hf (b := .lc z) rfl
    refine Ok.bind h3 ?_
    obtain ⟨-, -, -, nv, hlc⟩ := addV_sc hf (b := .lc z) rfl h3
    by_cases hbb : bothLcb t f = true
    · cases t <;> cases f <;> simp only [bothLcb, reduceCtorEq] at hbb
      obtain ⟨w, rfl⟩ := Val.isLc_iff.mp (hlc rfl)
      rw [iteTag_bb]
      have hw : w.value = 0 ∨ w.value = 1 := by
        have e : w.value = _ := nv
        rw [e, Val.num_lc, vz, nd]
        have h1 := hbt rfl; have h2 := hbf rfl
        simp only [Val.num_lcb] at h1 h2 ⊢
        rcases hc with h | h <;> rcases h1 with h1 | h1 <;> rcases h2 with h2 | h2 <;> simp [h, h1, h2]
      exact Ok.bind (mkBool_false_total hw) (Ok.pure _ _)
    · rw [iteTag_other _ (by simpa using hbb)]
      exact Ok.pure _ _
  unfold iteAux
  split
  · exact Ok.pure _ _
  · cases t <;> simp only [Val.isSc, Bool.false_eq_true] at ht <;>
      exact Ok.bind (a := f) (s1 := s) rfl key

theorem depth_sc {t : Val} (ht : t.isSc = true) : t.depth = 1 := by
  cases t <;> simp only [Val.isSc, Bool.false_eq_true] at ht <;> simp [Val.depth]

theorem ifThenElse_total {cond t f : Val} {same : Bool}
    (h : same = true ∨ (∃ c, cond = .int c ∧ (c = 0 ∨ c = 1)) ∨
      (∃ c, cond = .lcb c ∧ (c.value = 0 ∨ c.value = 1) ∧ t.isSc = true ∧ f.isSc = true ∧
        (t.isLcb = true → t.num = 0 ∨ t.num = 1) ∧ (f.isLcb = true → f.num = 0 ∨ f.num = 1))) :
    Ok (ifThenElse cond same t f) s := by
  unfold ifThenElse
  split
  · exact Ok.pure _ _
  · rename_i hsh
    rcases h with h | ⟨c, rfl, hc⟩ | ⟨c, rfl, hcb, ht, hf, hbt, hbf⟩
    · simp [h] at hsh
    · simp only
      have : (c != 0 && c != 1) = false := by rcases hc with rfl | rfl <;> rfl
      simp only [this, Bool.false_eq_true, if_false]
      exact Ok.pure _ _
    · simp only [depth_sc ht]
      exact iteAux_total ht hf hcb hbt hbf

end

end Pysnark
