import PysnarkModel.Lemmas.PyTotal
/-!
# C05 at program level, totality: the dispatch functions on supported operand kinds
-/
set_option linter.unusedSimpArgs false
namespace Pysnark

section arith
variable {s : St} {a b : Val}

theorem negV_total (hb : b.isSc = true) : ∃ v, negV b s = .ok (v, s) := by
  cases b <;> simp only [Val.isSc, Bool.false_eq_true] at hb <;> exact ⟨_, rfl⟩

theorem addV_total (ha : a.isSc = true) (hb : b.isSc = true) : ∃ v, addV a b s = .ok (v, s) := by
  cases a <;> simp only [Val.isSc, Bool.false_eq_true] at ha <;>
    cases b <;> simp only [Val.isSc, Bool.false_eq_true] at hb <;> exact ⟨_, rfl⟩

theorem subV_total (ha : a.isSc = true) (hb : b.isSc = true) : ∃ v, subV a b s = .ok (v, s) := by
  cases a <;> simp only [Val.isSc, Bool.false_eq_true] at ha <;>
    cases b <;> simp only [Val.isSc, Bool.false_eq_true] at hb <;> exact ⟨_, rfl⟩

theorem mulLV_total {x : LinComb} (hb : b.isSc = true) : Ok (mulLV x b) s := by
  cases b <;> simp only [Val.isSc, Bool.false_eq_true] at hb <;> exact ⟨_, rfl⟩

theorem mulV_total (ha : a.isSc = true) (hb : b.isSc = true) : Ok (mulV a b) s := by
  cases a <;> simp only [Val.isSc, Bool.false_eq_true] at ha <;>
    cases b <;> simp only [Val.isSc, Bool.false_eq_true] at hb <;> exact ⟨_, rfl⟩
end arith

/-! ## comparisons -/
/-- the difference that the comparison gadget range-checks fits; `==`, `!=`: the difference is zero
or invertible -/
def pyCmpOk (p : Int) (bl : Nat) : Cmp → Int → Int → Prop
  | .lt, x, y => Py.bitLength (y - x - 1) ≤ bl
  | .le, x, y => Py.bitLength (y - x) ≤ bl
  | .gt, x, y => Py.bitLength (x - y - 1) ≤ bl
  | .ge, x, y => Py.bitLength (x - y) ≤ bl
  | .eq, x, y => x - y = 0 ∨ (x - y) % p ≠ 0
  | .ne, x, y => x - y = 0 ∨ (x - y) % p ≠ 0

theorem nz_neg {p d : Int} (h : d = 0 ∨ d % p ≠ 0) : -d = 0 ∨ (-d) % p ≠ 0 := by
  rcases h with h | h
  · left; omega
  · right
    intro h0
    apply h
    have : p ∣ -d := Int.dvd_of_emod_eq_zero h0
    exact Int.emod_eq_zero_of_dvd ((Int.dvd_neg).mp this)

theorem cmpOk_mirror {p : Int} {bl : Nat} {op : Cmp} {x y : Int} (h : pyCmpOk p bl op x y) :
    pyCmpOk p bl op.mirror y x := by
  cases op <;> simp only [pyCmpOk, Cmp.mirror] at h ⊢
  · exact h
  · exact h
  · have := nz_neg h; rwa [neg_sub] at this
  · have := nz_neg h; rwa [neg_sub] at this
  · exact h
  · exact h

section cmp
variable {s : St}

theorem cmpLL_total {op : Cmp} {x y : LinComb} (hg : s.guard = none) (hP : PrimeP s)
    (h : pyCmpOk s.p s.bitlength op x.value y.value) : Ok (cmpLL op x y) s := by
  cases op <;> simp only [cmpLL, pyCmpOk] at h ⊢
  · exact pyCheckPositive_ok (bits := none) hg (by simpa only [subI_value, sub_value, Option.getD_none] using h)
  · exact pyCheckPositive_ok (bits := none) hg (by simpa only [sub_value, Option.getD_none] using h)
  · exact pyCheckZero_ok hP (by simpa only [sub_value] using h)
  · exact pyCheckNonzero_ok hg hP (by simpa only [sub_value] using h)
  · exact pyCheckPositive_ok (bits := none) hg (by simpa only [subI_value, sub_value, Option.getD_none] using h)
  · exact pyCheckPositive_ok (bits := none) hg (by simpa only [sub_value, Option.getD_none] using h)

theorem checkPositiveV_lc_ok {d : LinComb} (hg : s.guard = none) (hb : Py.bitLength d.value ≤ s.bitlength) :
    Ok (checkPositiveV (.lc d)) s := by
  unfold checkPositiveV
  exact Ok.bind' (pyCheckPositive_ok (bits := none) hg hb) (fun _ _ _ => Ok.pure _ _)

theorem cmpLV_total {op : Cmp} {x : LinComb} {o : Val} (hg : s.guard = none) (hP : PrimeP s)
    (ho : o.isSc = true) (h : pyCmpOk s.p s.bitlength op x.value o.num) : Ok (cmpLV op x o) s := by
  have hx : (Val.lc x).isSc = true := rfl
  have h1i : (Val.int 1).isSc = true := rfl
  unfold cmpLV
  cases op <;> simp only [pyCmpOk] at h ⊢
  · obtain ⟨d, h1⟩ := subV_total (s := s) ho hx
    obtain ⟨-, d1, rfl, vd1⟩ := subV_sc_lc ho hx (by simp [Val.isInt]) h1
    refine Ok.bind h1 ?_
    obtain ⟨d', h2⟩ := subV_total (s := s) (a := .lc d1) rfl h1i
    obtain ⟨-, d2, rfl, vd2⟩ := subV_sc_lc (a := .lc d1) rfl h1i (by simp [Val.isInt]) h2
    refine Ok.bind h2 (checkPositiveV_lc_ok hg ?_)
    simp only [Val.num_lc, Val.num_int] at vd1 vd2
    rw [vd2, vd1]; exact h
  · obtain ⟨d, h1⟩ := subV_total (s := s) ho hx
    obtain ⟨-, d1, rfl, vd1⟩ := subV_sc_lc ho hx (by simp [Val.isInt]) h1
    refine Ok.bind h1 (checkPositiveV_lc_ok hg ?_)
    simp only [Val.num_lc] at vd1
    rw [vd1]; exact h
  · obtain ⟨d, h1⟩ := subV_total (s := s) hx ho
    obtain ⟨-, d1, rfl, vd1⟩ := subV_sc_lc hx ho (by simp [Val.isInt]) h1
    refine Ok.bind h1 ?_
    unfold checkZeroV
    simp only [Val.num_lc] at vd1
    exact Ok.bind' (pyCheckZero_ok hP (by rw [vd1]; exact h)) (fun _ _ _ => Ok.pure _ _)
  · obtain ⟨d, h1⟩ := subV_total (s := s) hx ho
    obtain ⟨-, d1, rfl, vd1⟩ := subV_sc_lc hx ho (by simp [Val.isInt]) h1
    refine Ok.bind h1 ?_
    unfold checkNonzeroV
    simp only [Val.num_lc] at vd1
    exact Ok.bind' (pyCheckNonzero_ok hg hP (by rw [vd1]; exact h)) (fun _ _ _ => Ok.pure _ _)
  · obtain ⟨d, h1⟩ := subV_total (s := s) hx ho
    obtain ⟨-, d1, rfl, vd1⟩ := subV_sc_lc hx ho (by simp [Val.isInt]) h1
    refine Ok.bind h1 ?_
    obtain ⟨d', h2⟩ := subV_total (s := s) (a := .lc d1) rfl h1i
    obtain ⟨-, d2, rfl, vd2⟩ := subV_sc_lc (a := .lc d1) rfl h1i (by simp [Val.isInt]) h2
    refine Ok.bind h2 (checkPositiveV_lc_ok hg ?_)
    simp only [Val.num_lc, Val.num_int] at vd1 vd2
    rw [vd2, vd1]; exact h
  · obtain ⟨d, h1⟩ := subV_total (s := s) hx ho
    obtain ⟨-, d1, rfl, vd1⟩ := subV_sc_lc hx ho (by simp [Val.isInt]) h1
    refine Ok.bind h1 (checkPositiveV_lc_ok hg ?_)
    simp only [Val.num_lc] at vd1
    rw [vd1]; exact h

/-- `_ensurebool` on a scalar whose value is 0/1 -/
theorem ensurebool_total {o : Val} (hg : s.guard = none) (ho : o.isSc = true) (hb : o.num = 0 ∨ o.num = 1) :
    ∃ y s', ensurebool o s = .ok (y, s') ∧ Same s s' ∧ y.value = o.num := by
  cases o with
  | int c =>
    simp only [ensurebool]
    exact ensureboolI_total hg hb
  | lc x =>
    simp only [ensurebool]
    have : isBooleanValue x.value = true := isBooleanValue_iff.mpr hb
    simp only [this, Bool.not_true, Bool.false_eq_true, if_false]
    obtain ⟨s2, h2, sm⟩ := mkBool_total (s := s) (x := x) (c := true) hg hb
    exact ⟨x, s2, h2, sm, rfl⟩
  | lcb x => exact ⟨x, s, rfl, Same.refl _, rfl⟩
  | _ => simp [Val.isSc] at ho

theorem cmpV_total {op : Cmp} {a b : Val} (hg : s.guard = none) (hP : PrimeP s)
    (ha : a.isSc = true) (hb : b.isSc = true) (hii : (a.isInt && b.isInt) = false)
    (hca : a.isLcb = true → b.num = 0 ∨ b.num = 1) (hcb : b.isLcb = true → a.num = 0 ∨ a.num = 1)
    (h : pyCmpOk s.p s.bitlength op a.num b.num) : Ok (cmpV op a b) s := by
  cases a with
  | lc x =>
    cases b <;> simp only [Val.isSc, Bool.false_eq_true] at hb <;> simp only [cmpV] <;>
      exact cmpLV_total hg hP rfl h
  | lcb x =>
    simp only [cmpV]
    obtain ⟨y, s1, h1, sm, vy⟩ := ensurebool_total hg hb (hca rfl)
    refine Ok.bind h1 (Ok.bind' (cmpLL_total (sm.guard_none hg) (hP.same sm) ?_) (fun _ _ _ => Ok.pure _ _))
    rw [sm.p, sm.bl, vy]; exact h
  | int c =>
    cases b with
    | lc y =>
      simp only [cmpV]
      exact cmpLV_total hg hP (o := .int c) rfl (cmpOk_mirror h)
    | lcb y =>
      simp only [cmpV]
      obtain ⟨z, s1, h1, sm, vz⟩ := ensurebool_total (o := .int c) hg rfl (hcb rfl)
      refine Ok.bind h1 (Ok.bind' (cmpLL_total (sm.guard_none hg) (hP.same sm) ?_) (fun _ _ _ => Ok.pure _ _))
      rw [sm.p, sm.bl, vz]; exact cmpOk_mirror h
    | int d => simp [Val.isInt] at hii
    | _ => simp [Val.isSc] at hb
  | _ => simp [Val.isSc] at ha
end cmp

end Pysnark
