import PysnarkModel.Lemmas.PyTotalExp
/-!
# C05 at program level, totality: `&|^`, division, powers, shifts (public and secret exponent /
count); `binopV_total`
-/
set_option linter.unusedSimpArgs false
namespace Pysnark

section bw
variable {s : St}

theorem bwSec_total {op : BW} {x y : LinComb} (hg : s.guard = none) (hx : x.value = 0 ∨ x.value = 1)
    (hy : y.value = 0 ∨ y.value = 1) : Ok (bwSec op x y) s := by
  cases op <;> simp only [bwSec]
  · refine Ok.bind' ⟨_, rfl⟩ ?_
    intro p s1 h1
    obtain ⟨sm, vp⟩ := mulLL_val h1
    obtain ⟨s2, h2, -⟩ := mkBool_total (s := s1) (x := p) (c := false) (sm.guard_none hg)
      (by rw [vp]; rcases hx with h | h <;> rcases hy with h' | h' <;> simp [h, h'])
    exact Ok.bind h2 (Ok.pure _ _)
  · refine Ok.bind' ⟨_, rfl⟩ ?_
    intro p s1 h1
    obtain ⟨sm, vp⟩ := mulLL_val h1
    obtain ⟨s2, h2, -⟩ := mkBool_total (s := s1) (x := (x.add y).sub p) (c := false) (sm.guard_none hg)
      (by rw [sub_value, add_value, vp, mulI_value]
          rcases hx with h | h <;> rcases hy with h' | h' <;> simp [h, h'])
    exact Ok.bind h2 (Ok.pure _ _)
  · refine Ok.bind' ⟨_, rfl⟩ ?_
    intro p s1 h1
    obtain ⟨sm, vp⟩ := mulLL_val h1
    obtain ⟨s2, h2, -⟩ := mkBool_total (s := s1) (x := (x.add y).sub p) (c := false) (sm.guard_none hg)
      (by rw [sub_value, add_value, vp]
          rcases hx with h | h <;> rcases hy with h' | h' <;> simp [h, h'])
    exact Ok.bind h2 (Ok.pure _ _)

theorem bwConst_total {op : BW} {x : LinComb} {c : Int} (hg : s.guard = none)
    (hx : x.value = 0 ∨ x.value = 1) (hc : c = 0 ∨ c = 1) : Ok (bwConst op x c) s := by
  cases op <;> simp only [bwConst]
  · obtain ⟨s2, h2, -⟩ := mkBool_total (s := s) (x := x.mulI c) (c := false) hg
      (by rw [mulI_value]; rcases hx with h | h <;> rcases hc with h' | h' <;> simp [h, h'])
    exact Ok.bind h2 (Ok.pure _ _)
  · obtain ⟨s2, h2, -⟩ := mkBool_total (s := s) (x := (x.addI c).sub ((x.mulI 2).mulI c)) (c := false) hg
      (by rw [sub_value, addI_value, mulI_value, mulI_value]
          rcases hx with h | h <;> rcases hc with h' | h' <;> simp [h, h'])
    exact Ok.bind h2 (Ok.pure _ _)
  · obtain ⟨s2, h2, -⟩ := mkBool_total (s := s) (x := (x.addI c).sub (x.mulI c)) (c := false) hg
      (by rw [sub_value, addI_value, mulI_value]
          rcases hx with h | h <;> rcases hc with h' | h' <;> simp [h, h'])
    exact Ok.bind h2 (Ok.pure _ _)

/-- `LinCombBool &,|,^ other` with `other` a 0/1-valued scalar -/
theorem bwBV_total {op : BW} {x : LinComb} {o : Val} (hg : s.guard = none)
    (hx : x.value = 0 ∨ x.value = 1) (ho : o.isSc = true) (hb : o.num = 0 ∨ o.num = 1) :
    Ok (bwBV op x o) s := by
  cases o with
  | int c =>
    rw [bwBV_int_eq]
    simp only [Val.num_int] at hb
    have : (if (c == 0) = true then (0 : Int) else 1) = c := by rcases hb with rfl | rfl <;> rfl
    refine Ok.bind (a := c) (s1 := s) ?_ (bwConst_total hg hx hb)
    simp only [truthy, this]; rfl
  | lc y =>
    rw [bwBV_lc_eq]
    obtain ⟨y', s1, h1, sm, vy⟩ := ensurebool_total (o := .lc y) hg rfl hb
    exact Ok.bind h1 (bwSec_total (sm.guard_none hg) hx (by rw [vy]; exact hb))
  | lcb y =>
    rw [bwBV_lcb_eq]
    obtain ⟨y', s1, h1, sm, vy⟩ := ensurebool_total (o := .lcb y) hg rfl hb
    exact Ok.bind h1 (bwSec_total (sm.guard_none hg) hx (by rw [vy]; exact hb))
  | _ => simp [Val.isSc] at ho

theorem inBits_iff {bl : Nat} {x : Int} : inBits bl x = true ↔ 0 ≤ x ∧ x < 2 ^ bl := by
  simp [inBits]
theorem is01_iff {x : Int} : is01 x = true ↔ x = 0 ∨ x = 1 := by simp [is01]
theorem fitsAbs_iff {bl : Nat} {x : Int} : fitsAbs bl x = true ↔ Py.bitLength x ≤ bl := by simp [fitsAbs]
theorem nzModP_iff {p x : Int} : nzModP p x = true ↔ x = 0 ∨ x % p ≠ 0 := by simp [nzModP]

/-- `&`, `|`, `^` on the supported operand kinds -/
theorem bwV_total {op : BW} {a b : Val} (hg : s.guard = none)
    (hla : a.isLcb = true → a.num = 0 ∨ a.num = 1) (hlb : b.isLcb = true → b.num = 0 ∨ b.num = 1)
    (hx1 : a.isLcb = true → boolOther b = true) (hx2 : b.isLcb = true → boolOther a = true)
    (hgap : pyGapBin (match op with | .and => .band | .xor => .bxor | .or => .bor) a b = none)
    (hda : inBits s.bitlength a.num = true) (hdb : inBits s.bitlength b.num = true)
    (hca : a.isLcb = true → is01 b.num = true) (hcb : b.isLcb = true → is01 a.num = true) :
    Ok (bwV op a b) s := by
  obtain ⟨a0, a1⟩ := inBits_iff.mp hda
  obtain ⟨b0, b1⟩ := inBits_iff.mp hdb
  cases a with
  | lc x =>
    cases b with
    | int c => cases op <;> exact ⟨_, rfl⟩
    | lc y =>
      simp only [bwV, bwLV]
      cases op <;> simp only
      · exact Ok.bind' (andLL_total hg a0 a1 b0 b1) (fun _ _ _ => Ok.pure _ _)
      · exact Ok.bind' (xorLL_total hg a0 a1 b0 b1) (fun _ _ _ => Ok.pure _ _)
      · exact Ok.bind' (orLL_total hg a0 a1 b0 b1) (fun _ _ _ => Ok.pure _ _)
    | lcb y =>
      cases op <;> simp [pyGapBin] at hgap
      simp only [bwV, bwLV]
      exact bwBV_total (o := .lc x) hg (hlb rfl) rfl (is01_iff.mp (hcb rfl))
    | _ => cases op <;> simp [pyGapBin] at hgap
  | lcb x =>
    have hxv := hla rfl
    cases b with
    | int c => simp only [bwV]; exact bwBV_total (o := .int c) hg hxv rfl (is01_iff.mp (hca rfl))
    | lc y => simp only [bwV]; exact bwBV_total (o := .lc y) hg hxv rfl (is01_iff.mp (hca rfl))
    | lcb y => simp only [bwV]; exact bwBV_total (o := .lcb y) hg hxv rfl (hlb rfl)
    | _ => cases op <;> simp [pyGapBin] at hgap
  | int c =>
    cases b with
    | lc y => cases op <;> exact ⟨_, rfl⟩
    | lcb y =>
      cases op <;> simp [pyGapBin] at hgap
      simp only [bwV, beq_self_eq_true, if_true]
      exact bwBV_total (o := .int c) hg (hlb rfl) rfl (is01_iff.mp (hcb rfl))
    | _ => cases op <;> simp [pyGapBin] at hgap
  | _ => cases op <;> simp [pyGapBin] at hgap
end bw

/-! ## the binary operators -/
theorem pyGapBin_sc {op : BinOp} {a b : Val} (h : pyGapBin op a b = none) : a.isSc = true ∧ b.isSc = true := by
  cases op <;> cases a <;> cases b <;> simp_all [pyGapBin, Val.isSc]

def BinOp.cmp? : BinOp → Option Cmp
  | .lt => some .lt
  | .le => some .le
  | .eq => some .eq
  | .ne => some .ne
  | .gt => some .gt
  | .ge => some .ge
  | _ => none

theorem cmpOk_of_dom {p : Int} {bl : Nat} {op : BinOp} {c : Cmp} {ba bb sb : Bool} {x y : Int}
    (hc : op.cmp? = some c)
    (hd : pyDomBin p bl op ba bb sb x y = true) :
    pyCmpOk p bl c x y ∧ (ba = true → y = 0 ∨ y = 1) ∧ (bb = true → x = 0 ∨ x = 1) := by
  cases op <;> simp only [BinOp.cmp?, reduceCtorEq, Option.some.injEq] at hc <;> subst hc <;>
    simp only [pyDomBin, Bool.and_eq_true, Bool.or_eq_true, Bool.not_eq_true', fitsAbs_iff, nzModP_iff,
      is01_iff] at hd <;>
    (refine ⟨hd.1.1, fun h => ?_, fun h => ?_⟩
     · rcases hd.1.2 with h' | h'
       · rw [h] at h'; cases h'
       · exact h'
     · rcases hd.2 with h' | h'
       · rw [h] at h'; cases h'
       · exact h')

theorem binopV_total {s : St} {op : BinOp} {a b : Val} {pa pb pv : PyVal} (hk : PyOk s) (hP : PrimeP s)
    (ha : ValRef a pa) (hb : ValRef b pb) (hx : pyExclBin s.p op a b = none)
    (hgap : pyGapBin op a b = none) (hpy : pyBin op pa pb = .ok pv)
    (hd : pyDomBin s.p s.bitlength op pa.isBool pb.isBool b.isLc a.num b.num = true) :
    Ok (binopV op a b) s := by
  obtain ⟨sa, sb⟩ := pyGapBin_sc hgap
  obtain ⟨na, ba, la⟩ := ha.sc sa
  obtain ⟨nb, bb, lb⟩ := hb.sc sb
  rw [pyBin_sc ha hb sa sb] at hpy
  rw [ba, bb] at hd
  have hg := hk.guard
  -- the comparison operators share one argument
  have cmpcase : ∀ (c : Cmp), op.cmp? = some c →
      (a.isInt && b.isInt) = false → Ok (cmpV c a b) s := by
    intro c hc hii
    obtain ⟨h1, h2, h3⟩ := cmpOk_of_dom hc hd
    exact cmpV_total hg hP sa sb hii h2 h3 h1
  have hii : ∀ (c : Cmp), op.cmp? = some c →
      (a.isInt && b.isInt) = false := by
    intro c hc
    cases op <;> simp only [BinOp.cmp?, reduceCtorEq] at hc <;>
      (simp only [pyGapBin, sa, sb, Bool.and_self, Bool.true_and] at hgap
       cases hq : (a.isInt && b.isInt) with
       | false => rfl
       | true => simp [hq] at hgap)
  cases op <;> simp only [binopV]
  case add => obtain ⟨v, h⟩ := addV_total (s := s) sa sb; exact ⟨_, h⟩
  case sub => obtain ⟨v, h⟩ := subV_total (s := s) sa sb; exact ⟨_, h⟩
  case mul => exact mulV_total sa sb
  case truediv =>
    simp only [pyBinInt] at hpy
    split at hpy
    · cases hpy
    · rename_i y0
      split at hpy
      · cases hpy
      · rename_i hm
        have hm' : Int.fmod a.num b.num = 0 := by simpa using hm
        have hdp : b.num % s.p ≠ 0 := by simpa [pyDomBin] using hd
        cases a <;> cases b <;> simp only [pyGapBin, reduceCtorEq] at hgap <;> simp only [truedivV]
        · exact Ok.bind' (truedivLL_total (a := LinComb.const _) hg y0 hm') (fun _ _ _ => Ok.pure _ _)
        · exact Ok.bind' (truedivLI_total hg hP hdp hm') (fun _ _ _ => Ok.pure _ _)
        · exact Ok.bind' (truedivLL_total hg y0 hm') (fun _ _ _ => Ok.pure _ _)
  case floordiv =>
    have hdd : 0 < b.num ∧ b.num ≤ 2 ^ s.bitlength := by simpa [pyDomBin] using hd
    cases a <;> cases b <;> simp only [pyGapBin, reduceCtorEq] at hgap <;> simp only [divmodV, divmodLV]
    · exact Ok.bind' (divmodLL_total (a := LinComb.const _) hg hdd.1 hdd.2) (fun _ _ _ => Ok.pure _ _)
    · exact Ok.bind' (Ok.bind' (divmodLL_total (d := LinComb.const _) hg hdd.1 hdd.2) (fun _ _ _ => Ok.pure _ _))
        (fun o s1 h1 => by
          obtain ⟨qr, s2, -, h2⟩ := bind_ok.mp h1
          obtain ⟨rfl, rfl⟩ := pure_ok' h2
          exact Ok.pure _ _)
    · exact Ok.bind' (Ok.bind' (divmodLL_total hg hdd.1 hdd.2) (fun _ _ _ => Ok.pure _ _))
        (fun o s1 h1 => by
          obtain ⟨qr, s2, -, h2⟩ := bind_ok.mp h1
          obtain ⟨rfl, rfl⟩ := pure_ok' h2
          exact Ok.pure _ _)
  case mod =>
    have hdd : 0 < b.num ∧ b.num ≤ 2 ^ s.bitlength := by simpa [pyDomBin] using hd
    cases a <;> cases b <;> simp only [pyGapBin, reduceCtorEq] at hgap <;> simp only [divmodV, divmodLV]
    · exact Ok.bind' (divmodLL_total (a := LinComb.const _) hg hdd.1 hdd.2) (fun _ _ _ => Ok.pure _ _)
    · exact Ok.bind' (Ok.bind' (divmodLL_total (d := LinComb.const _) hg hdd.1 hdd.2) (fun _ _ _ => Ok.pure _ _))
        (fun o s1 h1 => by
          obtain ⟨qr, s2, -, h2⟩ := bind_ok.mp h1
          obtain ⟨rfl, rfl⟩ := pure_ok' h2
          exact Ok.pure _ _)
    · exact Ok.bind' (Ok.bind' (divmodLL_total hg hdd.1 hdd.2) (fun _ _ _ => Ok.pure _ _))
        (fun o s1 h1 => by
          obtain ⟨qr, s2, -, h2⟩ := bind_ok.mp h1
          obtain ⟨rfl, rfl⟩ := pure_ok' h2
          exact Ok.pure _ _)
  case divmod =>
    have hdd : 0 < b.num ∧ b.num ≤ 2 ^ s.bitlength := by simpa [pyDomBin] using hd
    cases a <;> cases b <;> simp only [pyGapBin, reduceCtorEq] at hgap <;> simp only [divmodV, divmodLV]
    · exact Ok.bind' (divmodLL_total (a := LinComb.const _) hg hdd.1 hdd.2) (fun _ _ _ => Ok.pure _ _)
    · exact Ok.bind' (Ok.bind' (divmodLL_total (d := LinComb.const _) hg hdd.1 hdd.2) (fun _ _ _ => Ok.pure _ _))
        (fun o s1 h1 => by
          obtain ⟨qr, s2, -, h2⟩ := bind_ok.mp h1
          obtain ⟨rfl, rfl⟩ := pure_ok' h2
          exact Ok.pure _ _)
    · exact Ok.bind' (Ok.bind' (divmodLL_total hg hdd.1 hdd.2) (fun _ _ _ => Ok.pure _ _))
        (fun o s1 h1 => by
          obtain ⟨qr, s2, -, h2⟩ := bind_ok.mp h1
          obtain ⟨rfl, rfl⟩ := pure_ok' h2
          exact Ok.pure _ _)
  case pow =>
    simp only [pyBinInt] at hpy
    split at hpy
    · cases hpy
    · rename_i y0
      cases b with
      | int n =>
        have hdd : n ≤ 300 := by
          simp only [pyDomBin, Val.isLc, Bool.false_eq_true, if_false] at hd; exact of_decide_eq_true hd
        cases a <;> simp only [pyGapBin, reduceCtorEq] at hgap
        rename_i x
        simp only [Val.num_int] at y0
        simp only [powV, y0, not_lt.mpr hdd, if_false]
        obtain ⟨r, s', h⟩ := powLN_total x n.toNat s
        exact Ok.bind h (Ok.pure _ _)
      | lc e =>
        have hdd := inBits_iff.mp (by
          simp only [pyDomBin, Val.isLc, Val.num_int, Val.num_lc] at hd; simpa using hd : inBits s.bitlength e.value = true)
        cases a <;> simp only [pyGapBin, reduceCtorEq] at hgap <;> simp only [powV] <;>
          exact Ok.bind' (powLL_total hg hP hdd.1 hdd.2) (fun _ _ _ => Ok.pure _ _)
      | _ => cases a <;> simp [pyGapBin] at hgap
  case lshift =>
    simp only [pyBinInt] at hpy
    split at hpy
    · cases hpy
    · rename_i y0
      cases b with
      | int n =>
        have hdd : n ≤ 4096 := by
          simp only [pyDomBin, Val.isLc, Bool.false_eq_true, if_false] at hd; exact of_decide_eq_true hd
        cases a <;> simp only [pyGapBin, reduceCtorEq] at hgap
        rename_i x
        simp only [Val.num_int] at y0
        simp only [lshiftV, lshiftLV, not_lt.mpr hdd, if_false]
        refine Ok.bind (a := x.mulI (2 ^ n.toNat)) (s1 := s) ?_ (Ok.pure _ _)
        unfold lshiftLI
        simp only [y0, if_false]
      | lc e =>
        have hdd := inBits_iff.mp (by
          simp only [pyDomBin, Val.isLc, Val.num_int, Val.num_lc] at hd; simpa using hd : inBits s.bitlength e.value = true)
        cases a <;> simp only [pyGapBin, reduceCtorEq] at hgap <;> simp only [lshiftV] <;>
          exact lshiftLV_lc_total hg hP hdd.1 hdd.2
      | _ => cases a <;> simp [pyGapBin] at hgap
  case rshift =>
    simp only [pyBinInt] at hpy
    split at hpy
    · cases hpy
    · rename_i y0
      cases b with
      | int n =>
        have hdd := inBits_iff.mp (by
          simp only [pyDomBin, Val.isLc, Val.num_int, Val.num_lc] at hd; simpa using hd : inBits s.bitlength a.num = true)
        cases a <;> simp only [pyGapBin, reduceCtorEq] at hgap
        simp only [Val.num_int] at y0
        simp only [rshiftV, rshiftLV]
        exact Ok.bind' (rshiftLI_total (not_lt.mp y0) hg hdd.1 hdd.2) (fun _ _ _ => Ok.pure _ _)
      | lc e =>
        have hdd : 0 ≤ e.value ∧ e.value ≤ s.bitlength := by
          simp only [pyDomBin, Val.isLc, if_true, Bool.and_eq_true] at hd
          exact ⟨of_decide_eq_true hd.1, of_decide_eq_true hd.2⟩
        have hw := powWraps_of_excl_r hx
        cases a <;> simp only [pyGapBin, reduceCtorEq] at hgap <;> simp only [rshiftV] <;>
          exact rshiftLV_lc_total hk hP hw hdd.1 hdd.2
      | _ => cases a <;> simp [pyGapBin] at hgap
  case band =>
    obtain ⟨x1, x2⟩ := pyExclBin_bw (w := .and) rfl hx
    simp only [pyDomBin, Bool.and_eq_true, Bool.or_eq_true, Bool.not_eq_true'] at hd
    exact bwV_total (op := .and) hg la lb x1 x2 hgap hd.1.1.1 hd.1.1.2
      (fun h => by rcases hd.1.2 with h' | h'; (rw [h] at h'; cases h'); exact h')
      (fun h => by rcases hd.2 with h' | h'; (rw [h] at h'; cases h'); exact h')
  case bxor =>
    obtain ⟨x1, x2⟩ := pyExclBin_bw (w := .xor) rfl hx
    simp only [pyDomBin, Bool.and_eq_true, Bool.or_eq_true, Bool.not_eq_true'] at hd
    exact bwV_total (op := .xor) hg la lb x1 x2 hgap hd.1.1.1 hd.1.1.2
      (fun h => by rcases hd.1.2 with h' | h'; (rw [h] at h'; cases h'); exact h')
      (fun h => by rcases hd.2 with h' | h'; (rw [h] at h'; cases h'); exact h')
  case bor =>
    obtain ⟨x1, x2⟩ := pyExclBin_bw (w := .or) rfl hx
    simp only [pyDomBin, Bool.and_eq_true, Bool.or_eq_true, Bool.not_eq_true'] at hd
    exact bwV_total (op := .or) hg la lb x1 x2 hgap hd.1.1.1 hd.1.1.2
      (fun h => by rcases hd.1.2 with h' | h'; (rw [h] at h'; cases h'); exact h')
      (fun h => by rcases hd.2 with h' | h'; (rw [h] at h'; cases h'); exact h')
  case lt => exact cmpcase .lt rfl (hii .lt rfl)
  case le => exact cmpcase .le rfl (hii .le rfl)
  case eq => exact cmpcase .eq rfl (hii .eq rfl)
  case ne => exact cmpcase .ne rfl (hii .ne rfl)
  case gt => exact cmpcase .gt rfl (hii .gt rfl)
  case ge => exact cmpcase .ge rfl (hii .ge rfl)

end Pysnark
