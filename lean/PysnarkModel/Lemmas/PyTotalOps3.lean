import PysnarkModel.Lemmas.PyTotalAssert
/-!
# C05 at program level, totality: constructors, unary operators, methods, selection
-/
set_option linter.unusedSimpArgs false
namespace Pysnark

section
variable {s : St}

theorem mkVal_total {k : Kind} {c : Int} {pr : PyVal} (hg : s.guard = none)
    (hpy : pyMk k (.int c) = .ok pr) : Ok (mkVal k (.int c)) s := by
  cases k <;> simp only [pyMk, reduceCtorEq] at hpy <;> simp only [mkVal]
  · exact ⟨_, rfl⟩
  · exact ⟨_, rfl⟩
  · exact ⟨_, rfl⟩
  · split at hpy
    · rename_i hc
      obtain ⟨r, s', h, -, -⟩ := privValBool_total (s := s) hg hc
      exact Ok.bind h (Ok.pure _ _)
    · cases hpy
  · split at hpy
    · rename_i hc
      obtain ⟨r, s', h, -, -⟩ := pubValBool_total (s := s) hg hc
      exact Ok.bind h (Ok.pure _ _)
    · cases hpy

theorem wrapBool_total {x : LinComb} {pr : PyVal} (hg : s.guard = none)
    (hpy : pyWrapb (.int x.value) = .ok pr) : Ok (wrapBool (.lc x)) s := by
  simp only [pyWrapb, PyVal.num?_int] at hpy
  split at hpy
  · rename_i hc
    simp only [wrapBool]
    obtain ⟨s', h, -⟩ := mkBool_total (s := s) (x := x) (c := true) hg hc
    exact Ok.bind h (Ok.pure _ _)
  · cases hpy

theorem unV_total {op : Un} {a : Val} {pa : PyVal} (hg : s.guard = none) (ha : ValRef a pa)
    (hgap : pyGapUn op a = none) (hd : op = .abs → Py.bitLength a.num ≤ s.bitlength) :
    Ok (unV op a) s := by
  cases a with
  | int c => cases op <;> simp only [pyGapUn, reduceCtorEq] at hgap; exact ⟨_, rfl⟩
  | lc x =>
    cases op <;> simp only [pyGapUn, reduceCtorEq] at hgap <;> simp only [unV]
    · exact ⟨_, rfl⟩
    · exact ⟨_, rfl⟩
    · exact Ok.bind' (absL_total hg (hd rfl)) (fun _ _ _ => Ok.pure _ _)
  | lcb x =>
    obtain ⟨-, hb⟩ := valRef_lcb_iff.mp ha
    cases op <;> simp only [unV]
    · exact ⟨_, rfl⟩
    · exact ⟨_, rfl⟩
    · exact Ok.bind' (absL_total hg (hd rfl)) (fun _ _ _ => Ok.pure _ _)
    · unfold boolNot
      obtain ⟨s', h, -⟩ := mkBool_total (s := s) (x := x.rsubI 1) (c := false) hg
        (by rw [rsubI_value]; omega)
      exact Ok.bind h (Ok.pure _ _)
  | _ => cases op <;> simp [pyGapUn] at hgap

/-- the width argument, when the reference accepts it and it is at most 4096 -/
theorem argNat_total {args : List Val} {pargs : List PyVal} {bl w : Nat} (hw : pyWidthArgs args = true)
    (ha : ValRefL args pargs) (hp : pyWidth bl pargs = some w) (h4 : w ≤ 4096) :
    ∃ n, argNat? args s = .ok (n, s) ∧ (n.getD bl = w) := by
  cases args with
  | nil =>
    rw [valRefL_nil_iff.mp ha] at hp
    simp only [pyWidth, Option.some.injEq] at hp
    exact ⟨none, rfl, hp⟩
  | cons a as =>
    obtain ⟨pw, ws, rfl, hv, hws⟩ := valRefL_cons_iff.mp ha
    cases as with
    | nil =>
      rw [valRefL_nil_iff.mp hws] at hp
      cases a with
      | none =>
        rw [valRef_none_iff.mp hv] at hp
        simp only [pyWidth, Option.some.injEq] at hp
        exact ⟨none, rfl, hp⟩
      | int c =>
        rw [valRef_int_iff.mp hv] at hp
        simp only [pyWidth] at hp
        split at hp
        · rename_i h0
          simp only [Option.some.injEq] at hp
          refine ⟨some c.toNat, ?_, by simpa using hp⟩
          simp only [argNat?]
          have : (decide (c < 0) || decide (c > 4096)) = false := by
            simp only [Bool.or_eq_false_iff, decide_eq_false_iff_not, not_lt]
            omega
          simp only [this, Bool.false_eq_true, if_false]
          rfl
        · cases hp
      | _ => simp [pyWidthArgs] at hw
    | cons b bs => cases a <;> simp [pyWidthArgs] at hw

theorem unwrapBits_total : ∀ (xs : List Val), xs.all Val.isSecretSc = true → ∃ bs, unwrapBits xs s = .ok (bs, s)
  | [], _ => ⟨[], rfl⟩
  | x :: xs, h => by
    simp only [List.all_cons, Bool.and_eq_true] at h
    obtain ⟨bs, hbs⟩ := unwrapBits_total xs h.2
    cases x with
    | lc z => exact ⟨z :: bs, by simp only [unwrapBits]; exact bind_ok.mpr ⟨bs, s, hbs, rfl⟩⟩
    | lcb z => exact ⟨z :: bs, by simp only [unwrapBits]; exact bind_ok.mpr ⟨bs, s, hbs, rfl⟩⟩
    | _ => simp [Val.isSecretSc] at h

/-- `x.if_else(t, f)` on scalars -/
theorem ifElse_total {x : LinComb} {t f : Val} (ht : t.isSc = true) (hf : f.isSc = true) :
    Ok (do let d ← subV t f; let pr ← mulLV x d; addV f pr : M Val) s := by
  obtain ⟨d, h1⟩ := subV_total (s := s) ht hf
  obtain ⟨-, sd, -, -, -⟩ := subV_sc ht hf h1
  refine Ok.bind h1 (Ok.bind' (mulLV_total sd) ?_)
  intro pr s1 h2
  obtain ⟨-, z, rfl, -⟩ := mulLV_sc sd h2
  obtain ⟨v, h3⟩ := addV_total (s := s1) hf (b := .lc z) rfl
  exact ⟨_, h3⟩

theorem callMeth_total {m : Meth} {self : Val} {args : List Val} {pself : PyVal} {pargs : List PyVal}
    {pv : PyVal} (hk : PyOk s) (hP : PrimeP s) (hs : ValRef self pself) (ha : ValRefL args pargs)
    (hgap : pyGapCall m self args = none) (hpy : pyCall s.bitlength m pself pargs = .ok pv)
    (hd : pyDomCall s.p s.bitlength m pself pargs = true) : Ok (callMeth m self args) s := by
  have hg := hk.guard
  by_cases hm : m.isCmpAssert = true
  · exact callAssertCmp_total hm hk hP hs ha hgap hd
  cases m <;> simp only [Meth.isCmpAssert, not_true_eq_false, Bool.false_eq_true, not_false_eq_true] at hm <;>
    simp only [pyGapCall, reduceCtorEq] at hgap
  case assertPositive =>
    cases self <;> simp only [reduceCtorEq] at hgap
    · rename_i x
      split at hgap
      · rename_i hw
        rw [valRef_lc_iff.mp hs] at hd
        simp only [pyDomCall, PyVal.num?_int] at hd
        cases hpw : pyWidth s.bitlength pargs with
        | none => simp [hpw] at hd
        | some w =>
          simp only [hpw, Bool.and_eq_true, decide_eq_true_eq, inBits_iff] at hd
          obtain ⟨n, hn, hnw⟩ := argNat_total (s := s) hw ha hpw hd.1
          simp only [callMeth]
          refine Ok.bind hn ?_
          obtain ⟨s', h', -⟩ := assertPositive_total (x := x) (bits := n) hg hd.2.1 (by rw [hnw]; exact hd.2.2)
          exact Ok.bind h' (Ok.pure _ _)
      · cases hgap
    · rename_i x
      split at hgap
      · rename_i he
        have hnil : args = [] := by cases args <;> simp_all
        subst hnil
        rw [valRefL_nil_iff.mp ha, (valRef_lcb_iff.mp hs).1] at hd
        simp only [pyDomCall, PyVal.num?_bool, pyWidth, Bool.and_eq_true, decide_eq_true_eq, inBits_iff] at hd
        simp only [callMeth, List.isEmpty_nil, if_true]
        obtain ⟨s', h', -⟩ := assertPositive_total (x := x) (bits := none) hg hd.2.1
          (by simpa only [Option.getD_none] using hd.2.2)
        exact Ok.bind h' (Ok.pure _ _)
      · cases hgap
  case assertZero =>
    cases self <;> simp only [Val.isSecretSc, Bool.false_eq_true, if_false, reduceCtorEq] at hgap
    · rename_i x
      rw [valRef_lc_iff.mp hs] at hd
      simp only [pyDomCall, PyVal.num?_int, decide_eq_true_eq] at hd
      simp only [callMeth]
      obtain ⟨s', h', -⟩ := assertZero_total (x := x) hg hd
      exact Ok.bind h' (Ok.pure _ _)
    · rename_i x
      rw [(valRef_lcb_iff.mp hs).1] at hd
      simp only [pyDomCall, PyVal.num?_bool, decide_eq_true_eq] at hd
      simp only [callMeth]
      obtain ⟨s', h', -⟩ := assertZero_total (x := x) hg hd
      exact Ok.bind h' (Ok.pure _ _)
  case assertNonzero =>
    cases self <;> simp only [Val.isSecretSc, Bool.false_eq_true, if_false, reduceCtorEq] at hgap
    · rename_i x
      rw [valRef_lc_iff.mp hs] at hd
      simp only [pyDomCall, PyVal.num?_int, Bool.and_eq_true, decide_eq_true_eq] at hd
      simp only [callMeth]
      obtain ⟨s', h', -⟩ := assertNonzero_total (x := x) hg hP hd.2
      exact Ok.bind h' (Ok.pure _ _)
    · rename_i x
      rw [(valRef_lcb_iff.mp hs).1] at hd
      simp only [pyDomCall, PyVal.num?_bool, Bool.and_eq_true, decide_eq_true_eq] at hd
      simp only [callMeth]
      obtain ⟨s', h', -⟩ := assertNonzero_total (x := x) hg hP hd.2
      exact Ok.bind h' (Ok.pure _ _)
  case assertRange =>
    split at hgap
    · rename_i x lo hi
      split at hgap
      · rename_i hlh
        simp only [Bool.and_eq_true] at hlh
        obtain ⟨plo, ws, rfl, hvlo, hws⟩ := valRefL_cons_iff.mp ha
        obtain ⟨phi, ws', rfl, hvhi, hws'⟩ := valRefL_cons_iff.mp hws
        rw [valRefL_nil_iff.mp hws', valRef_lc_iff.mp hs] at hd
        obtain ⟨nlo, -, -⟩ := hvlo.sc (isIntLike_sc hlh.1)
        obtain ⟨nhi, -, -⟩ := hvhi.sc (isIntLike_sc hlh.2)
        simp only [pyDomCall, PyVal.num?_int, nlo, nhi, Bool.and_eq_true, decide_eq_true_eq] at hd
        obtain ⟨l, hl, vl⟩ := ensurelc_total hk hlh.1
        obtain ⟨h, hh, vh⟩ := ensurelc_total hk hlh.2
        simp only [callMeth]
        refine Ok.bind hl (Ok.bind hh ?_)
        obtain ⟨s', h', -⟩ := assertRange_total (x := x) (lo := l) (hi := h) hg (by rw [vl]; exact hd.1.1.1)
          (by rw [vh]; exact hd.1.1.2) (by rw [vl]; exact fits_lt (by omega) hd.1.2)
          (by rw [vh]; exact fits_lt (by omega) hd.2)
        exact Ok.bind h' (Ok.pure _ _)
      · cases hgap
    · cases hgap
  case val =>
    cases self <;> simp only [Val.isSecretSc, Bool.false_eq_true, if_false, reduceCtorEq] at hgap <;>
      simp only [callMeth] <;> exact Ok.bind' (valL_total hg) (fun _ _ _ => Ok.pure _ _)
  case toBits =>
    cases self <;> simp only [reduceCtorEq] at hgap
    rename_i x
    split at hgap
    · rename_i hw
      rw [valRef_lc_iff.mp hs] at hpy hd
      simp only [pyCall, PyVal.num?_int] at hpy
      simp only [pyDomCall] at hd
      cases hpw : pyWidth s.bitlength pargs with
      | none => simp [hpw] at hd
      | some w =>
        simp only [hpw] at hpy hd
        have h4 : w ≤ 4096 := by simpa using hd
        split at hpy
        · rename_i hx
          obtain ⟨n, hn, hnw⟩ := argNat_total (s := s) hw ha hpw h4
          simp only [callMeth]
          refine Ok.bind hn ?_
          obtain ⟨rs, s', h, -⟩ := toBits_total (x := x) (bits := n) hg hx.1
            (bitLength_le_of_lt hx.1 (by rw [hnw]; exact hx.2))
          exact Ok.bind h (Ok.pure _ _)
        · cases hpy
    · cases hgap
  case checkPositive =>
    cases self <;> simp only [reduceCtorEq] at hgap
    · rename_i x
      split at hgap
      · rename_i hw
        rw [valRef_lc_iff.mp hs] at hd
        simp only [pyDomCall, PyVal.num?_int] at hd
        cases hpw : pyWidth s.bitlength pargs with
        | none => simp [hpw] at hd
        | some w =>
          simp only [hpw, Bool.and_eq_true, decide_eq_true_eq, fitsAbs_iff] at hd
          obtain ⟨n, hn, hnw⟩ := argNat_total (s := s) hw ha hpw hd.1
          simp only [callMeth]
          refine Ok.bind hn (Ok.bind' (pyCheckPositive_ok (bits := n) hg (by rw [hnw]; exact hd.2))
            (fun _ _ _ => Ok.pure _ _))
      · cases hgap
    · rename_i x
      split at hgap
      · rename_i he
        have hnil : args = [] := by cases args <;> simp_all
        subst hnil
        rw [valRefL_nil_iff.mp ha, (valRef_lcb_iff.mp hs).1] at hd
        simp only [pyDomCall, PyVal.num?_bool, pyWidth, Bool.and_eq_true, decide_eq_true_eq, fitsAbs_iff] at hd
        simp only [callMeth, List.isEmpty_nil, if_true]
        exact Ok.bind' (pyCheckPositive_ok (bits := none) hg (by simpa using hd.2)) (fun _ _ _ => Ok.pure _ _)
      · cases hgap
  case checkZero =>
    cases self <;> simp only [Val.isSecretSc, Bool.false_eq_true, if_false, reduceCtorEq] at hgap
    · rw [valRef_lc_iff.mp hs] at hd
      simp only [pyDomCall, PyVal.num?_int, nzModP_iff] at hd
      simp only [callMeth]
      exact Ok.bind' (pyCheckZero_ok hP hd) (fun _ _ _ => Ok.pure _ _)
    · rw [(valRef_lcb_iff.mp hs).1] at hd
      simp only [pyDomCall, PyVal.num?_bool, nzModP_iff] at hd
      simp only [callMeth]
      exact Ok.bind' (pyCheckZero_ok hP hd) (fun _ _ _ => Ok.pure _ _)
  case checkNonzero =>
    cases self <;> simp only [reduceCtorEq] at hgap
    rw [valRef_lc_iff.mp hs] at hd
    simp only [pyDomCall, PyVal.num?_int, nzModP_iff] at hd
    simp only [callMeth]
    exact Ok.bind' (pyCheckNonzero_ok hg hP hd) (fun _ _ _ => Ok.pure _ _)
  case ifElse =>
    split at hgap
    · rename_i t f
      split at hgap
      · rename_i hc
        simp only [Bool.and_eq_true] at hc
        cases self <;> simp only [Val.isSecretSc, Bool.false_eq_true, false_and, and_false] at hc <;>
          simp only [callMeth] <;> exact ifElse_total hc.1.2 hc.2
      · cases hgap
    · cases hgap
  case fromBits =>
    cases self <;> simp only [reduceCtorEq] at hgap
    rename_i xs
    split at hgap
    · rename_i hall
      obtain ⟨bs, hbs⟩ := unwrapBits_total (s := s) xs hall
      simp only [callMeth]
      exact Ok.bind hbs (Ok.pure _ _)
    · cases hgap
end

end Pysnark
