import PysnarkModel.Lemmas.PyTotalArr
/-!
# C05 at program level, totality: one instruction, the whole run
-/
set_option linter.unusedSimpArgs false
namespace Pysnark

section
variable {s : St}

theorem getRegs_total {regs : List Val} {pregs : List PyVal} (hR : ValRefL regs pregs) :
    ∀ {is : List Nat} {pvs : List PyVal}, pyGets pregs is = .ok pvs →
      ∃ vs, getRegs regs is s = .ok (vs, s) ∧ ValRefL vs pvs ∧ pyArgs regs is = some vs
  | [], pvs, h => by
    simp only [pyGets, Except.ok.injEq] at h
    subst h
    exact ⟨[], rfl, ValRefL.nil, rfl⟩
  | i :: is, pvs, h => by
    simp only [pyGets, pyGet] at h
    cases hi : pregs[i]? with
    | none => simp [hi] at h
    | some w =>
      simp only [hi] at h
      cases hr : pyGets pregs is with
      | error e => simp [hr] at h
      | ok ws =>
        simp only [hr, Except.ok.injEq] at h
        subst h
        obtain ⟨v, hv, hvw⟩ := hR.get' hi
        obtain ⟨vs, hvs, hrel, hargs⟩ := getRegs_total hR hr
        refine ⟨v :: vs, ?_, ValRefL.cons hvw hrel, by simp only [pyArgs, hv, hargs]⟩
        unfold getRegs
        exact bind_ok.mpr ⟨v, s, getReg_iff.mpr ⟨hv, rfl⟩, bind_ok.mpr ⟨vs, s, hvs, rfl⟩⟩
end

/-- reading a register that exists -/
theorem getReg_some {regs : List Val} {i : Nat} {x : Val} {s : St} (h : regs[i]? = some x) :
    getReg regs i s = .ok (x, s) := getReg_iff.mpr ⟨h, rfl⟩

theorem pyGet_some {pregs : List PyVal} {i : Nat} {w : PyVal} (h : pregs[i]? = some w) :
    pyGet pregs i = .ok w := by unfold pyGet; rw [h]

theorem secretAt_some {regs : List Val} {i : Nat} {y : Val} (h : regs[i]? = some y) :
    secretAt regs i = y.isLc := by
  unfold secretAt; rw [h]; cases y <;> rfl

/-- **one instruction does not raise** inside the fragment, the coverage table and the domain -/
theorem step_py_total {st : St} {regs : List Val} {frames : List GuardBak} {pregs : List PyVal}
    {bl : Nat} {i : Instr} {r : PyVal × List PyVal × Nat} (hR : PyRel st regs frames pregs bl)
    (hx : i.pyExcl st regs = none) (hgap : i.pyGap regs = none)
    (hpy : pyStep bl pregs i = .ok r) (hd : pyDom st.p bl pregs regs i = true) :
    ∃ r', step regs frames i st = .ok r' := by
  have hP := hR.inv.prime
  have hk := hR.ok
  have hg := hk.guard
  have hbl := hR.bl
  subst hbl
  cases i
  case lit w => exact ⟨_, rfl⟩
  case mk k a =>
    simp only [Instr.pyGap] at hgap
    cases ha : regs[a]? with
    | none => simp [ha] at hgap
    | some x =>
      cases x <;> simp only [ha, reduceCtorEq] at hgap
      rename_i c
      obtain ⟨w, hw, hvw⟩ := hR.regs.get ha
      rw [valRef_int_iff.mp hvw] at hw
      simp only [pyStep, pyGet_some hw] at hpy
      cases hm : pyMk k (.int c) with
      | error e => simp [hm] at hpy
      | ok pr =>
        unfold step; simp only
        exact Ok.bind (getReg_some ha) (Ok.bind' (mkVal_total hg hm) (fun _ _ _ => Ok.pure _ _))
  case wrapb a =>
    simp only [Instr.pyGap] at hgap
    cases ha : regs[a]? with
    | none => simp [ha] at hgap
    | some x =>
      cases x <;> simp only [ha, reduceCtorEq] at hgap
      rename_i z
      obtain ⟨w, hw, hvw⟩ := hR.regs.get ha
      rw [valRef_lc_iff.mp hvw] at hw
      simp only [pyStep, pyGet_some hw] at hpy
      cases hm : pyWrapb (.int z.value) with
      | error e => simp [hm] at hpy
      | ok pr =>
        unfold step; simp only
        exact Ok.bind (getReg_some ha) (Ok.bind' (wrapBool_total hg hm) (fun _ _ _ => Ok.pure _ _))
  case wrapx a => simp [Instr.pyGap] at hgap
  case bin op a b =>
    simp only [Instr.pyGap] at hgap
    cases ha : regs[a]? with
    | none => simp [ha] at hgap
    | some x =>
      cases hb : regs[b]? with
      | none => simp [ha, hb] at hgap
      | some y =>
        simp only [ha, hb] at hgap
        simp only [Instr.pyExcl, ha, hb] at hx
        obtain ⟨px, hpx, hvx⟩ := hR.regs.get ha
        obtain ⟨py, hpy', hvy⟩ := hR.regs.get hb
        obtain ⟨sa, sb⟩ := pyGapBin_sc hgap
        obtain ⟨na, -, -⟩ := hvx.sc sa
        obtain ⟨nb, -, -⟩ := hvy.sc sb
        simp only [pyStep, pyGet_some hpx, pyGet_some hpy'] at hpy
        simp only [pyDom, hpx, hpy', na, nb, secretAt_some hb] at hd
        cases hm : pyBin op px py with
        | error e => simp [hm] at hpy
        | ok pr =>
          unfold step; simp only
          exact Ok.bind (getReg_some ha) (Ok.bind (getReg_some hb)
            (Ok.bind' (binopV_total hk hP hvx hvy hx hgap hm hd) (fun _ _ _ => Ok.pure _ _)))
  case un op a =>
    simp only [Instr.pyGap] at hgap
    cases ha : regs[a]? with
    | none => simp [ha] at hgap
    | some x =>
      simp only [ha] at hgap
      obtain ⟨px, hpx, hvx⟩ := hR.regs.get ha
      have hdd : op = .abs → Py.bitLength x.num ≤ st.bitlength := by
        rintro rfl
        have sx : x.isSc = true := by
          cases x <;> simp_all [pyGapUn, Val.isSc]
        obtain ⟨na, -, -⟩ := hvx.sc sx
        simp only [pyDom, hpx, na, fitsAbs_iff] at hd
        exact hd
      unfold step; simp only
      exact Ok.bind (getReg_some ha) (Ok.bind' (unV_total hg hvx hgap hdd) (fun _ _ _ => Ok.pure _ _))
  case call m self args =>
    simp only [Instr.pyGap] at hgap
    cases hs : regs[self]? with
    | none => simp [hs] at hgap
    | some x =>
      obtain ⟨px, hpx, hvx⟩ := hR.regs.get hs
      simp only [pyStep, pyGet_some hpx] at hpy
      cases hga : pyGets pregs args with
      | error e => simp [hga] at hpy
      | ok pas =>
        obtain ⟨as, has, hrel, hargs⟩ := getRegs_total (s := st) hR.regs hga
        simp only [hs, hargs] at hgap
        simp only [hga] at hpy
        simp only [pyDom, hpx, hga] at hd
        cases hm : pyCall st.bitlength m px pas with
        | error e => simp [hm] at hpy
        | ok pr =>
          unfold step; simp only
          exact Ok.bind (getReg_some hs) (Ok.bind has
            (Ok.bind' (callMeth_total hk hP hvx hrel hgap hm hd) (fun _ _ _ => Ok.pure _ _)))
  case ite c t f =>
    simp only [Instr.pyGap] at hgap
    cases hc : regs[c]? with
    | none => simp [hc] at hgap
    | some cv =>
      cases ht : regs[t]? with
      | none => cases cv <;> simp [hc, ht] at hgap
      | some tv =>
        cases hf : regs[f]? with
        | none => cases cv <;> simp [hc, ht, hf] at hgap
        | some fv =>
          obtain ⟨pc, hpc, hvc⟩ := hR.regs.get hc
          simp only [pyDom, hpc, Bool.or_eq_true] at hd
          unfold step; simp only
          refine Ok.bind (getReg_some hc) (Ok.bind (getReg_some ht) (Ok.bind (getReg_some hf)
            (Ok.bind' (ifThenElse_total ?_) (fun _ _ _ => Ok.pure _ _))))
          by_cases hsame : (t == f) = true
          · exact Or.inl hsame
          · right
            have hsame' : (t == f) = false := by simpa using hsame
            cases cv with
            | int cc =>
              left
              refine ⟨cc, rfl, ?_⟩
              rw [valRef_int_iff.mp hvc] at hd
              rcases hd with hd | hd
              · exact absurd hd hsame
              · simpa [is01_iff] using hd
            | lcb cc =>
              right
              simp only [hc, ht, hf, hsame', Bool.false_or] at hgap
              obtain ⟨pt, -, hvt⟩ := hR.regs.get ht
              obtain ⟨pf, -, hvf⟩ := hR.regs.get hf
              have hsc : tv.isSc = true ∧ fv.isSc = true := by
                cases hq : (tv.isSc && fv.isSc) with
                | true => simpa using hq
                | false => simp [hq] at hgap
              exact ⟨cc, rfl, (valRef_lcb_iff.mp hvc).2, hsc.1, hsc.2, (hvt.sc hsc.1).2.2, (hvf.sc hsc.2).2.2⟩
            | _ => simp [hc, ht, hf, hsame'] at hgap
  case list xs =>
    simp only [pyStep] at hpy
    cases hga : pyGets pregs xs with
    | error e => simp [hga] at hpy
    | ok pas =>
      obtain ⟨as, has, -, -⟩ := getRegs_total (s := st) hR.regs hga
      unfold step; simp only
      exact Ok.bind has (Ok.pure _ _)
  case arr xs =>
    simp only [pyStep] at hpy
    cases hga : pyGets pregs xs with
    | error e => simp [hga] at hpy
    | ok pas =>
      obtain ⟨as, has, -, -⟩ := getRegs_total (s := st) hR.regs hga
      unfold step; simp only
      exact Ok.bind has (Ok.pure _ _)
  case idx a k =>
    simp only [Instr.pyGap] at hgap
    cases ha : regs[a]? with
    | none => simp [ha] at hgap
    | some x =>
      obtain ⟨px, hpx, hvx⟩ := hR.regs.get ha
      simp only [pyStep, pyGet_some hpx] at hpy
      have key : ∀ (xs : List Val) (ys : List PyVal), ValRefL xs ys →
          (∃ y, pySeqIdx ys k = .ok y) →
          Ok (match pyIndex xs.length k with
            | some j => match xs[j]? with
              | some y => pure (y, regs, frames)
              | Option.none => raise .index
            | Option.none => raise .index : M (Val × List Val × List GuardBak)) st := by
        intro xs ys hxy ⟨y, hy⟩
        unfold pySeqIdx at hy
        rw [← hxy.length] at hy
        cases hj : pyIndex xs.length k with
        | none => simp [hj] at hy
        | some j =>
          simp only [hj] at hy ⊢
          cases hyj : ys[j]? with
          | none => simp [hyj] at hy
          | some w =>
            obtain ⟨v, hv, -⟩ := hxy.get' hyj
            simp only [hv]
            exact Ok.pure _ _
      unfold step; simp only
      refine Ok.bind (getReg_some ha) ?_
      cases x with
      | list xs =>
        obtain ⟨ys, rfl, hys⟩ := valRef_list_iff.mp hvx
        simp only at hpy
        cases hq : pySeqIdx ys k with
        | error e => simp [hq] at hpy
        | ok y => exact key xs ys hys ⟨y, hq⟩
      | tuple xs =>
        obtain ⟨ys, rfl, hys⟩ := valRef_tuple_iff.mp hvx
        simp only at hpy
        cases hq : pySeqIdx ys k with
        | error e => simp [hq] at hpy
        | ok y => exact key xs ys hys ⟨y, hq⟩
      | _ => simp [ha] at hgap
  case genter c => simp [Instr.pyGap] at hgap
  case gleave => simp [Instr.pyGap] at hgap
  case setBl n => exact ⟨_, rfl⟩
  case setRes n => exact ⟨_, rfl⟩
  case setIgn b => simp [Instr.pyGap] at hgap
  case aget a k =>
    simp only [Instr.pyGap] at hgap
    cases ha : regs[a]? with
    | none => simp [ha] at hgap
    | some x =>
      cases hkk : regs[k]? with
      | none => cases x <;> simp [ha, hkk] at hgap
      | some kv =>
        cases x with
        | list xs =>
          cases kv with
          | int j =>
            obtain ⟨px, hpx, hvx⟩ := hR.regs.get ha
            obtain ⟨pk, hpk, hvk⟩ := hR.regs.get hkk
            obtain ⟨ys, rfl, hys⟩ := valRef_list_iff.mp hvx
            rw [valRef_int_iff.mp hvk] at hpk
            simp only [pyStep, pyGet_some hpx, pyGet_some hpk, PyVal.num?_int] at hpy
            cases hq : pySeqIdx ys j with
            | error e => simp [hq] at hpy
            | ok y =>
              unfold pySeqIdx at hq
              rw [← hys.length] at hq
              cases hj : pyIndex xs.length j with
              | none => simp [hj] at hq
              | some q =>
                simp only [hj] at hq
                cases hyq : ys[q]? with
                | none => simp [hyq] at hq
                | some w =>
                  obtain ⟨v, hv, -⟩ := hys.get' hyq
                  unfold step; simp only
                  refine Ok.bind (getReg_some ha) (Ok.bind (getReg_some hkk) ?_)
                  simp only [arrayGet, hj, hv]
                  exact Ok.bind (a := v) (s1 := st) rfl (Ok.pure _ _)
          | lc it =>
            obtain ⟨px, hpx, hvx⟩ := hR.regs.get ha
            obtain ⟨pk, hpk, hvk⟩ := hR.regs.get hkk
            obtain ⟨ys, rfl, hys⟩ := valRef_list_iff.mp hvx
            rw [valRef_lc_iff.mp hvk] at hpk
            simp only [Instr.pyExcl, ha, hkk] at hx
            have hall : xs.all Val.isIntLike = true := by
              cases hq : xs.all Val.isIntLike with
              | true => rfl
              | false => simp [hq] at hx
            simp only [pyDom, secretAt_some hkk, Val.isLc, Bool.not_true, Bool.false_or, pyDomIdx, hpx, hpk,
              PyVal.num?_int, Bool.and_eq_true, decide_eq_true_eq, ← hys.length] at hd
            unfold step; simp only
            refine Ok.bind (getReg_some ha) (Ok.bind (getReg_some hkk) ?_)
            exact Ok.bind' (arrayGet_total hk hP (fun v hv => List.all_eq_true.mp hall v hv) hd.1.1 hd.1.2 hd.2)
              (fun _ _ _ => Ok.pure _ _)
          | _ => simp [ha, hkk] at hgap
        | _ => simp [ha, hkk] at hgap
  case aset a k w =>
    simp only [Instr.pyGap] at hgap
    cases ha : regs[a]? with
    | none => simp [ha] at hgap
    | some x =>
      cases hkk : regs[k]? with
      | none => cases x <;> simp [ha, hkk] at hgap
      | some kv =>
        cases hw : regs[w]? with
        | none => cases x <;> cases kv <;> simp [ha, hkk, hw] at hgap
        | some wv =>
          cases x with
          | list xs =>
            cases kv with
            | int j =>
              obtain ⟨px, hpx, hvx⟩ := hR.regs.get ha
              obtain ⟨pk, hpk, hvk⟩ := hR.regs.get hkk
              obtain ⟨pw, hpw, hvw⟩ := hR.regs.get hw
              obtain ⟨ys, rfl, hys⟩ := valRef_list_iff.mp hvx
              rw [valRef_int_iff.mp hvk] at hpk
              simp only [pyStep, pyGet_some hpx, pyGet_some hpk, pyGet_some hpw, PyVal.num?_int,
                ← hys.length] at hpy
              cases hj : pyIndex xs.length j with
              | none => simp [hj] at hpy
              | some q =>
                unfold step; simp only
                refine Ok.bind (getReg_some ha) (Ok.bind (getReg_some hkk) (Ok.bind (getReg_some hw) ?_))
                simp only [arraySet, hj]
                exact Ok.bind (a := xs.set q wv) (s1 := st) rfl (Ok.pure _ _)
            | lc it =>
              obtain ⟨px, hpx, hvx⟩ := hR.regs.get ha
              obtain ⟨pk, hpk, hvk⟩ := hR.regs.get hkk
              obtain ⟨ys, rfl, hys⟩ := valRef_list_iff.mp hvx
              rw [valRef_lc_iff.mp hvk] at hpk
              simp only [Instr.pyExcl, ha, hkk, hw] at hx
              have hall : xs.all Val.isIntLike = true ∧ wv.isIntLike = true := by
                cases hq : (xs.all Val.isIntLike && wv.isIntLike) with
                | true => simpa using hq
                | false => simp [hq] at hx
              simp only [pyDom, secretAt_some hkk, Val.isLc, Bool.not_true, Bool.false_or, pyDomIdx, hpx, hpk,
                PyVal.num?_int, Bool.and_eq_true, decide_eq_true_eq, ← hys.length] at hd
              unfold step; simp only
              refine Ok.bind (getReg_some ha) (Ok.bind (getReg_some hkk) (Ok.bind (getReg_some hw) ?_))
              exact Ok.bind' (arraySet_total hk hP (fun v hv => List.all_eq_true.mp hall.1 v hv) hall.2
                hd.1.1 hd.1.2 hd.2) (fun _ _ _ => Ok.pure _ _)
            | _ => simp [ha, hkk, hw] at hgap
          | _ => simp [ha, hkk, hw] at hgap

/-- induction over the program -/
theorem runAux_py_total : ∀ (is : List Instr) (k : Nat) (regs : List Val) (frames : List GuardBak) (st : St)
    (pregs : List PyVal) (bl kk : Nat) (p : Int), PyRel st regs frames pregs bl → st.p = p →
    pyFragAux is regs frames st = true → pySupAux is regs frames st = true →
    pyDomAux p is bl pregs regs frames st = true → (∃ r, pyRunAux is kk bl pregs = .ok r) →
    (runAux is k regs frames st).err = none
  | [], k, regs, frames, st, pregs, bl, kk, p, _, _, _, _, _, _ => rfl
  | i :: is, k, regs, frames, st, pregs, bl, kk, p, hR, hp, hf, hs, hd, ⟨r, hrun⟩ => by
    unfold pyFragAux at hf
    unfold pySupAux at hs
    unfold pyDomAux at hd
    unfold pyRunAux at hrun
    unfold runAux
    cases hpy : pyStep bl pregs i with
    | error e => simp [hpy] at hrun
    | ok pr =>
      obtain ⟨pv, pregs', bl'⟩ := pr
      simp only [hpy] at hrun hd
      simp only [Bool.and_eq_true, Option.isNone_iff_eq_none] at hf hs hd
      obtain ⟨⟨⟨v, regs', frames'⟩, st'⟩, hstep⟩ := step_py_total hR hf.1 hs.1 hpy (hp ▸ hd.1)
      simp only [hstep] at hf hs hd ⊢
      obtain ⟨pv2, pregs2, bl2, hpy2, hR', hp'⟩ := step_py hR hf.1 hstep
      rw [hpy] at hpy2
      simp only [Except.ok.injEq, Prod.mk.injEq] at hpy2
      obtain ⟨rfl, rfl, rfl⟩ := hpy2
      exact runAux_py_total is (k+1) _ _ _ _ _ (kk+1) p hR' (hp'.trans hp) hf.2 hs.2 hd.2 ⟨r, hrun⟩

/-- **Program-level totality.**  See `C05_program_total` in `Props/C05.lean` for the reading. -/
theorem run_py_total (p : Nat) (hp : p.Prime) (bl res : Nat) (prog : List Instr)
    (hfrag : PyFragment (St.init p bl res) prog) (hsup : PySupported (St.init p bl res) prog)
    (hdom : InDomain (St.init p bl res) prog) (pregs : List PyVal) (hpy : pyRun bl prog = .ok pregs) :
    (run (St.init p bl res) prog).err = none := by
  unfold run
  unfold PyFragment at hfrag
  unfold PySupported at hsup
  unfold InDomain at hdom
  unfold pyRun at hpy
  cases hr : pyRunAux prog 0 bl [] with
  | error e => simp [hr] at hpy
  | ok r =>
    exact runAux_py_total prog 0 [] [] _ [] bl 0 p (PyRel.init p hp bl res) rfl hfrag hsup hdom ⟨r, hr⟩

end Pysnark
