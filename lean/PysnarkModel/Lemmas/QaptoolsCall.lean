import PysnarkModel.Lemmas.QaptoolsRun
/-!
# `@subqap` calls: copies, `ensure_single`, blocks and glue, for every state and every call
-/
namespace Pysnark.Qaptools
open Pysnark.QapEq

/-- `y` stands for `x` in a block: `x` itself if `ensure_single` accepts it, else a fresh wire that
holds `x.value` -/
def Stands (cfg : Cfg) (s' : St) (x y : LC) : Prop :=
  (isSingle cfg x = true ∧ y = x) ∨
  (isSingle cfg x = false ∧ ∃ w, y = ⟨x.value, [(1, w)]⟩ ∧ (w, x.value) ∈ s'.wires)

theorem Stands.mono {cfg : Cfg} {s s' : St} {x y : LC} (hw : ∀ e ∈ s.wires, e ∈ s'.wires)
    (h : Stands cfg s x y) : Stands cfg s' x y := by
  rcases h with h | ⟨h, w, hy, hm⟩
  · exact Or.inl h
  · exact Or.inr ⟨h, w, hy, hw _ hm⟩

/-- `b` is a fresh copy of `a`: one wire with coefficient one that holds `a.value` -/
def CopyOf (s : St) (a b : LC) : Prop := ∃ w, b = ⟨a.value, [(1, w)]⟩ ∧ (w, a.value) ∈ s.wires

theorem CopyOf.mono {s s' : St} {a b : LC} (hw : ∀ e ∈ s.wires, e ∈ s'.wires) (h : CopyOf s a b) :
    CopyOf s' a b := by
  obtain ⟨w, hb, hm⟩ := h
  exact ⟨w, hb, hw _ hm⟩

theorem isSingle_copy (cfg : Cfg) (v : Int) (w : WireName) : isSingle cfg ⟨v, [(1, w)]⟩ = true := by
  simp [isSingle]

theorem ensureSingle_pos (cfg : Cfg) (x : LC) (s : St) (h : isSingle cfg x = true) :
    ensureSingle cfg x s = (x, s) := by
  simp [ensureSingle, h]

theorem ensureSingle_neg (cfg : Cfg) (x : LC) (s : St) (h : isSingle cfg x = false) (hg : s.guard = none) :
    ensureSingle cfg x s =
      (⟨x.value, [(1, nextSid s)]⟩,
       addConstraint [] [] (Sig.sub cfg.p [(1, nextSid s)] x.sig) (privval x.value s).2) := by
  simp [ensureSingle, h, privval_eq, hg]

/-- `ensure_single` on a linear combination it does not accept, with guard `g` active -/
theorem ensureSingle_guarded (cfg : Cfg) (x : LC) (s : St) (h : isSingle cfg x = false) (g : LC)
    (hg : s.guard = some g) :
    ensureSingle cfg x s =
      (⟨x.value, [(1, nextSid s)]⟩,
       addConstraint g.sig [(1, nextSid (privval x.value s).2)] []
        (addConstraint [] [] (Sig.add (Sig.sub cfg.p [(1, nextSid s)] x.sig) [(1, nextSid (privval x.value s).2)])
          (privval 0 (privval x.value s).2).2)) := by
  simp [ensureSingle, h, privval_eq, hg]

/-- everything but the three files, the flush pointer and the counters is left alone -/
def SameFrame (s s' : St) : Prop := s'.ctx = s.ctx ∧ s'.stack = s.stack ∧ s'.ios = s.ios

/-- the guard in effect is one of the `LinComb`s the history is judged with -/
def GuardOK (K : Hyp) (s : St) : Prop := ∀ g, s.guard = some g → g ∈ K.Ls

theorem SameFrame.refl (s : St) : SameFrame s s := ⟨rfl, rfl, rfl⟩
theorem SameFrame.trans {s s' s'' : St} (h1 : SameFrame s s') (h2 : SameFrame s' s'') : SameFrame s s'' :=
  ⟨h2.1.trans h1.1, h2.2.1.trans h1.2.1, h2.2.2.trans h1.2.2⟩

@[simp] theorem privval_guard (v : Int) (s : St) : (privval v s).2.guard = s.guard := rfl
@[simp] theorem addConstraint_guard (a b c : Sig) (s : St) : (addConstraint a b c s).guard = s.guard := rfl

theorem ensureSingle_guard (cfg : Cfg) (x : LC) (s : St) : (ensureSingle cfg x s).2.guard = s.guard := by
  unfold ensureSingle
  split
  · rfl
  · cases hg : s.guard <;> simp [hg]

theorem ensureAll_guard (cfg : Cfg) (xs : List LC) (s : St) : (ensureAll cfg xs s).2.guard = s.guard := by
  induction xs generalizing s with
  | nil => rfl
  | cons x xs ih => simp only [ensureAll]; rw [ih, ensureSingle_guard]

theorem ensureSingle_spec (cfg : Cfg) (K : Hyp) (hp : K.p = cfg.p) (x : LC) (s : St)
    (hx : isSingle cfg x = false → x ∈ K.Ls) (hgd : GuardOK K s) :
    Stands cfg (ensureSingle cfg x s).2 x (ensureSingle cfg x s).1 ∧
    Step K s (ensureSingle cfg x s).2 ∧ SameFrame s (ensureSingle cfg x s).2 := by
  cases h : isSingle cfg x with
  | true =>
    rw [ensureSingle_pos _ _ _ h]
    exact ⟨Or.inl ⟨h, rfl⟩, Step.refl s, SameFrame.refl s⟩
  | false =>
    cases hg : s.guard with
    | none =>
      rw [ensureSingle_neg _ _ _ h hg]
      refine ⟨Or.inr ⟨h, nextSid s, rfl, by simp⟩, ?_, ⟨rfl, rfl, rfl⟩⟩
      refine Step.of_fields [(nextSid s, x.value)] [] [conLine [] [] (Sig.sub cfg.p [(1, nextSid s)] x.sig)]
        (by simp) (by simp) (by simp) (Or.inl (by simp)) ?_
      intro l hl E hE hok hext ht
      simp only [List.mem_singleton] at hl
      subst hl
      rw [← hp, ← hE]
      exact good_ensure E hok _ x (hext.1 _ (by simp)) (ht.2 _ (hx h))
    | some g =>
      rw [ensureSingle_guarded _ _ _ h g hg]
      refine ⟨Or.inr ⟨h, nextSid s, rfl, by simp⟩, ?_, ⟨rfl, rfl, rfl⟩⟩
      refine Step.of_fields [(nextSid s, x.value), (nextSid (privval x.value s).2, 0)] []
        [conLine [] [] (Sig.add (Sig.sub cfg.p [(1, nextSid s)] x.sig) [(1, nextSid (privval x.value s).2)]),
         conLine g.sig [(1, nextSid (privval x.value s).2)] []]
        (by simp) (by simp) (by simp) (Or.inl (by simp)) ?_
      intro l hl E hE hok hext ht
      simp only [List.mem_cons, List.not_mem_nil, or_false] at hl
      rcases hl with rfl | rfl
      · rw [← hp, ← hE]
        exact good_ensure_guarded E hok _ _ x (hext.1 _ (by simp)) (hext.1 _ (by simp)) (ht.2 _ (hx h))
      · exact good_guard_dummy E hok _ g (hext.1 _ (by simp)) (ht.2 _ (hgd g hg))

theorem ensureAll_spec (cfg : Cfg) (K : Hyp) (hp : K.p = cfg.p) (xs : List LC) (s : St)
    (hx : ∀ x ∈ xs, isSingle cfg x = false → x ∈ K.Ls) (hgd : GuardOK K s) :
    List.Forall₂ (Stands cfg (ensureAll cfg xs s).2) xs (ensureAll cfg xs s).1 ∧
    Step K s (ensureAll cfg xs s).2 ∧ SameFrame s (ensureAll cfg xs s).2 := by
  induction xs generalizing s with
  | nil => exact ⟨List.Forall₂.nil, Step.refl s, SameFrame.refl s⟩
  | cons x xs ih =>
    obtain ⟨h1, h2, h3⟩ := ensureSingle_spec cfg K hp x s (hx x (by simp)) hgd
    have hgd' : GuardOK K (ensureSingle cfg x s).2 := by
      intro g hg; rw [ensureSingle_guard] at hg; exact hgd g hg
    obtain ⟨g1, g2, g3⟩ := ih (ensureSingle cfg x s).2 (fun y hy => hx y (by simp [hy])) hgd'
    simp only [ensureAll]
    exact ⟨List.Forall₂.cons (h1.mono g2.wires_sub) g1, h2.trans g2, h3.trans g3⟩

theorem ensureAll_length (cfg : Cfg) (xs : List LC) (s : St) : (ensureAll cfg xs s).1.length = xs.length := by
  induction xs generalizing s with
  | nil => rfl
  | cons x xs ih => simp [ensureAll, ih]

/-- what `vc_declare_block` leaves behind -/
structure BlockSpec (cfg : Cfg) (K : Hyp) (bn : String) (vcs : List LC) (rnd1 : Int) (s : St) (r : List LC × St) : Prop where
  stands : List.Forall₂ (Stands cfg r.2) vcs r.1
  step : Step K s r.2
  frame : SameFrame s r.2
  line : blockLine s.ctx bn r.1 ∈ r.2.eqs
  flushed : r.2.flushed = r.2.eqs.length
  rnd : ((s.ctx, "rnd1_" ++ bn), rnd1) ∈ r.2.wires

theorem declareBlock_spec (cfg : Cfg) (K : Hyp) (hp : K.p = cfg.p) (bn : String) (vcs : List LC)
    (rnd1 rnd2 : Int) (s : St) (hx : ∀ x ∈ vcs, isSingle cfg x = false → x ∈ K.Ls) (hgd : GuardOK K s) :
    BlockSpec cfg K bn vcs rnd1 s (declareBlock cfg bn vcs rnd1 rnd2 s) := by
  obtain ⟨h1, h2, h3⟩ := ensureAll_spec cfg K hp vcs s hx hgd
  have hctx : (ensureAll cfg vcs s).2.ctx = s.ctx := h3.1
  let s1 := (ensureAll cfg vcs s).2
  have e : declareBlock cfg bn vcs rnd1 rnd2 s =
      ((ensureAll cfg vcs s).1,
       flush (emit (blockLine s1.ctx bn (ensureAll cfg vcs s).1)
         (printwire rnd2 (s1.ctx, "rnd2_" ++ bn) (printwire rnd1 (s1.ctx, "rnd1_" ++ bn) s1)))) := rfl
  rw [e]
  have st2 : Step K s1 (flush (emit (blockLine s1.ctx bn (ensureAll cfg vcs s).1)
         (printwire rnd2 (s1.ctx, "rnd2_" ++ bn) (printwire rnd1 (s1.ctx, "rnd1_" ++ bn) s1)))) := by
    refine Step.of_fields [((s1.ctx, "rnd1_" ++ bn), rnd1), ((s1.ctx, "rnd2_" ++ bn), rnd2)] []
      [blockLine s1.ctx bn (ensureAll cfg vcs s).1] (by simp [flush, emit, printwire]) (by simp [flush, emit, printwire])
      (by simp [flush, emit, printwire]) (Or.inr (by simp [flush, emit, printwire])) ?_
    intro l hl E _ _ _ _
    simp only [List.mem_singleton] at hl
    subst hl
    exact good_directive E _ _ (by decide)
  refine ⟨?_, h2.trans st2, ⟨h3.1, h3.2.1, h3.2.2⟩, ?_, ?_, ?_⟩
  · exact h1.imp (fun _ _ h => h.mono st2.wires_sub)
  · show blockLine s.ctx bn _ ∈ _
    rw [← hctx]; simp [flush, emit, printwire, s1]
  · simp [flush, emit, printwire]
  · show ((s.ctx, _), rnd1) ∈ _
    rw [← hctx]; simp [flush, emit, printwire, s1]

theorem declareBlock_guard (cfg : Cfg) (bn : String) (vcs : List LC) (rnd1 rnd2 : Int) (s : St) :
    (declareBlock cfg bn vcs rnd1 rnd2 s).2.guard = s.guard := by
  show (ensureAll cfg vcs s).2.guard = s.guard
  exact ensureAll_guard cfg vcs s

/-- what `vc_glue` leaves behind -/
structure GlueSpec (cfg : Cfg) (K : Hyp) (c1 c2 : String) (vals : List (LC × LC)) (rndv : Int) (s s' : St)
    (bn1 bn2 : String) (vs1 vs2 : List LC) : Prop where
  stands1 : List.Forall₂ (Stands cfg s') (vals.map Prod.fst) vs1
  stands2 : List.Forall₂ (Stands cfg s') (vals.map Prod.snd) vs2
  line1 : blockLine c1 bn1 vs1 ∈ s'.eqs
  line2 : blockLine c2 bn2 vs2 ∈ s'.eqs
  glue : glueLine c1 bn1 c2 bn2 ∈ s'.eqs
  flushed : s'.flushed = s'.eqs.length
  rnd1 : ((c1, "rnd1_" ++ bn1), rndv) ∈ s'.wires
  rnd2 : ((c2, "rnd1_" ++ bn2), rndv) ∈ s'.wires
  step : Step K s s'
  frame : SameFrame s s'

theorem step_setctx {K : Hyp} (s : St) (c : String) : Step K s { s with ctx := c } :=
  Step.of_fields [] [] [] (by simp) (by simp) (by simp) (Or.inl rfl) (by simp)

theorem step_bump {K : Hyp} (s : St) (c : String) : Step K s (bump c s) :=
  Step.of_fields [] [] [] (by simp [bump]) (by simp [bump]) (by simp [bump]) (Or.inl rfl) (by simp)

theorem vcGlue_spec (cfg : Cfg) (K : Hyp) (hp : K.p = cfg.p) (c1 c2 : String) (vals : List (LC × LC))
    (rndv r2a r2b : Int) (s : St)
    (h1 : ∀ x ∈ vals.map Prod.fst, isSingle cfg x = false → x ∈ K.Ls)
    (h2 : ∀ x ∈ vals.map Prod.snd, isSingle cfg x = false → x ∈ K.Ls) (hgd : GuardOK K s) :
    ∃ bn1 bn2 vs1 vs2, GlueSpec cfg K c1 c2 vals rndv s (vcGlue cfg c1 c2 vals rndv r2a r2b s) bn1 bn2 vs1 vs2 := by
  let s1 : St := { s with ctx := c1 }
  let bn1 := toString (dget s1.ctr c1)
  let s2 := bump c1 s1
  have A := declareBlock_spec cfg K hp bn1 (vals.map Prod.fst) rndv r2a s2 h1 hgd
  let s3 := (declareBlock cfg bn1 (vals.map Prod.fst) rndv r2a s2).2
  let s4 : St := { s3 with ctx := c2 }
  let bn2 := toString (dget s4.ctr c2)
  let s5 := bump c2 s4
  have hgd5 : GuardOK K s5 := by
    intro g hg
    have : s5.guard = s.guard := declareBlock_guard cfg bn1 (vals.map Prod.fst) rndv r2a s2
    rw [this] at hg; exact hgd g hg
  have B := declareBlock_spec cfg K hp bn2 (vals.map Prod.snd) rndv r2b s5 h2 hgd5
  let s6 := (declareBlock cfg bn2 (vals.map Prod.snd) rndv r2b s5).2
  let s7 : St := { s6 with ctx := s.ctx }
  have e : vcGlue cfg c1 c2 vals rndv r2a r2b s = flush (emit (glueLine c1 bn1 c2 bn2) s7) := rfl
  have st7 : Step K s7 (flush (emit (glueLine c1 bn1 c2 bn2) s7)) := by
    refine Step.of_fields [] [] [glueLine c1 bn1 c2 bn2] (by simp [flush, emit]) (by simp [flush, emit])
      (by simp [flush, emit]) (Or.inr (by simp [flush, emit])) ?_
    intro l hl E _ _ _ _
    simp only [List.mem_singleton] at hl
    subst hl
    exact good_directive E _ _ (by decide)
  have st36 : Step K s3 s6 := (step_setctx s3 c2).trans ((step_bump s4 c2).trans B.step)
  have st6f : Step K s6 (flush (emit (glueLine c1 bn1 c2 bn2) s7)) := (step_setctx s6 s.ctx).trans st7
  have st02 : Step K s s2 := (step_setctx s c1).trans (step_bump s1 c1)
  rw [e]
  refine ⟨bn1, bn2, (declareBlock cfg bn1 (vals.map Prod.fst) rndv r2a s2).1,
    (declareBlock cfg bn2 (vals.map Prod.snd) rndv r2b s5).1, ⟨?_, ?_, ?_, ?_, ?_, ?_, ?_, ?_, ?_, ?_⟩⟩
  · exact A.stands.imp (fun _ _ h => h.mono (st36.trans st6f).wires_sub)
  · exact B.stands.imp (fun _ _ h => h.mono st6f.wires_sub)
  · exact (st36.trans st6f).eqs_sub _ A.line
  · exact st6f.eqs_sub _ B.line
  · simp [flush, emit]
  · simp [flush, emit]
  · exact (st36.trans st6f).wires_sub _ A.rnd
  · exact st6f.wires_sub _ B.rnd
  · exact st02.trans (A.step.trans (st36.trans st6f))
  · refine ⟨rfl, ?_, ?_⟩
    · show s6.stack = s.stack
      have := B.frame.2.1; have := A.frame.2.1
      simp_all [s6, s5, s4, s3, s2, s1, bump]
    · show s6.ios = s.ios
      have := B.frame.2.2; have := A.frame.2.2
      simp_all [s6, s5, s4, s3, s2, s1, bump]

theorem vcGlue_guard (cfg : Cfg) (c1 c2 : String) (vals : List (LC × LC)) (rndv r2a r2b : Int) (s : St) :
    (vcGlue cfg c1 c2 vals rndv r2a r2b s).guard = s.guard := by
  unfold vcGlue
  simp only [flush, emit, bump, declareBlock_guard]

/-! ## argument and result copies -/

def isL (a : Arg) : Bool := a.kind == .lincomb

theorem copyArgs_spec (K : Hyp) (args : List Arg) (s : St) :
    (copyArgs args s).1.map Prod.fst = (args.filter isL).map (·.lc) ∧
    (∀ ab ∈ (copyArgs args s).1, CopyOf (copyArgs args s).2 ab.1 ab.2) ∧
    Step K s (copyArgs args s).2 ∧ SameFrame s (copyArgs args s).2 := by
  induction args generalizing s with
  | nil => exact ⟨rfl, by simp [copyArgs], Step.refl s, SameFrame.refl s⟩
  | cons a args ih =>
    cases hk : a.kind with
    | lincomb =>
      obtain ⟨g1, g2, g3, g4⟩ := ih (privval a.lc.value s).2
      have e : copyArgs (a :: args) s =
          ((a.lc, ⟨a.lc.value, [(1, nextSid s)]⟩) :: (copyArgs args (privval a.lc.value s).2).1,
           (copyArgs args (privval a.lc.value s).2).2) := by
        simp [copyArgs, hk, privval_eq]
      rw [e]
      refine ⟨by simp [g1, isL, hk], ?_, (step_privval _ s).trans g3, SameFrame.trans ⟨rfl, rfl, rfl⟩ g4⟩
      intro ab hab
      simp only [List.mem_cons] at hab
      rcases hab with rfl | hab
      · exact ⟨nextSid s, rfl, g3.wires_sub _ (by simp)⟩
      · exact g2 ab hab
    | bool =>
      have e : copyArgs (a :: args) s = copyArgs args s := by simp [copyArgs, hk]
      rw [e]
      obtain ⟨g1, g2, g3, g4⟩ := ih s
      exact ⟨by simp [g1, isL, hk], g2, g3, g4⟩
    | fxp =>
      have e : copyArgs (a :: args) s = copyArgs args s := by simp [copyArgs, hk]
      rw [e]
      obtain ⟨g1, g2, g3, g4⟩ := ih s
      exact ⟨by simp [g1, isL, hk], g2, g3, g4⟩

theorem copyRets_spec (K : Hyp) (args : List Arg) (s : St) :
    (copyRets args s).1.map Prod.snd = (args.filter isL).map (·.lc) ∧
    (∀ ab ∈ (copyRets args s).1, CopyOf (copyRets args s).2 ab.2 ab.1) ∧
    Step K s (copyRets args s).2 ∧ SameFrame s (copyRets args s).2 := by
  induction args generalizing s with
  | nil => exact ⟨rfl, by simp [copyRets], Step.refl s, SameFrame.refl s⟩
  | cons a args ih =>
    cases hk : a.kind with
    | lincomb =>
      obtain ⟨g1, g2, g3, g4⟩ := ih (privval a.lc.value s).2
      have e : copyRets (a :: args) s =
          ((⟨a.lc.value, [(1, nextSid s)]⟩, a.lc) :: (copyRets args (privval a.lc.value s).2).1,
           (copyRets args (privval a.lc.value s).2).2) := by
        simp [copyRets, hk, privval_eq]
      rw [e]
      refine ⟨by simp [g1, isL, hk], ?_, (step_privval _ s).trans g3, SameFrame.trans ⟨rfl, rfl, rfl⟩ g4⟩
      intro ab hab
      simp only [List.mem_cons] at hab
      rcases hab with rfl | hab
      · exact ⟨nextSid s, rfl, g3.wires_sub _ (by simp)⟩
      · exact g2 ab hab
    | bool =>
      have e : copyRets (a :: args) s = copyRets args s := by simp [copyRets, hk]
      rw [e]
      obtain ⟨g1, g2, g3, g4⟩ := ih s
      exact ⟨by simp [g1, isL, hk], g2, g3, g4⟩
    | fxp =>
      have e : copyRets (a :: args) s = copyRets args s := by simp [copyRets, hk]
      rw [e]
      obtain ⟨g1, g2, g3, g4⟩ := ih s
      exact ⟨by simp [g1, isL, hk], g2, g3, g4⟩

theorem copyArgs_guard (args : List Arg) (s : St) : (copyArgs args s).2.guard = s.guard := by
  induction args generalizing s with
  | nil => rfl
  | cons a args ih => cases hk : a.kind <;> simp [copyArgs, hk, ih]

theorem copyRets_guard (args : List Arg) (s : St) : (copyRets args s).2.guard = s.guard := by
  induction args generalizing s with
  | nil => rfl
  | cons a args ih => cases hk : a.kind <;> simp [copyRets, hk, ih]

end Pysnark.Qaptools

