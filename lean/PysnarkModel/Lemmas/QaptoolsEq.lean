import PysnarkModel.Model.Qaptools
import Mathlib.Tactic.Ring
/-!
# The lines written by the qaptools model parse back to what was meant (`Spec/QapEq.lean`)
-/
namespace Pysnark.Qaptools
open Pysnark.QapEq

/-! ## token lists of a linear combination -/

def Sig.toks' (s : Sig) : List Tok := s.flatMap fun cw => [.num cw.1, .wire cw.2.1 cw.2.2]

theorem Sig.toks_nil : Sig.toks [] = [.sym ""] := rfl

theorem Sig.toks_cons (cw : Int × WireName) (s : Sig) : Sig.toks (cw :: s) = Sig.toks' (cw :: s) := rfl

theorem Sig.toks'_cons (cw : Int × WireName) (s : Sig) :
    Sig.toks' (cw :: s) = .num cw.1 :: .wire cw.2.1 cw.2.2 :: Sig.toks' s := by
  simp [Sig.toks']

theorem parseLC_toks' (here : String) (s : Sig) (r : List Tok) (t : Terms)
    (h : parseLC here r = some t) : parseLC here (Sig.toks' s ++ r) = some (s ++ t) := by
  induction s with
  | nil => simpa [Sig.toks'] using h
  | cons cw s ih =>
    rw [Sig.toks'_cons]
    simp only [List.cons_append, parseLC, ih, Option.map_some, List.cons_append]

theorem parseLC_toks (here : String) (s : Sig) : parseLC here (Sig.toks s) = some s := by
  cases s with
  | nil => simp [Sig.toks_nil, parseLC]
  | cons cw s =>
    rw [Sig.toks_cons]
    have := parseLC_toks' here (cw :: s) [] [] (by simp [parseLC])
    simpa using this

/-- a token that can occur inside a printed linear combination -/
def lcTok : Tok → Bool
  | .num _ => true
  | .wire _ _ => true
  | .sym s => s = ""
  | .loc _ => false

theorem lcTok_toks' (s : Sig) : ∀ t ∈ Sig.toks' s, lcTok t = true := by
  induction s with
  | nil => simp [Sig.toks']
  | cons cw s ih =>
    rw [Sig.toks'_cons]
    intro t ht
    simp only [List.mem_cons] at ht
    rcases ht with rfl | rfl | ht
    · rfl
    · rfl
    · exact ih t ht

theorem lcTok_toks (s : Sig) : ∀ t ∈ Sig.toks s, lcTok t = true := by
  cases s with
  | nil => simp [Sig.toks_nil, lcTok]
  | cons cw s => rw [Sig.toks_cons]; exact lcTok_toks' _

theorem splitAt_append (t : Tok) (l r : List Tok) (h : ∀ x ∈ l, x ≠ t) :
    splitAt t (l ++ t :: r) = some (l, r) := by
  induction l with
  | nil => simp [splitAt]
  | cons x l ih =>
    have hx : x ≠ t := h x (by simp)
    have := ih (fun y hy => h y (by simp [hy]))
    simp [splitAt, hx, this]

theorem dropDot_append (l : List Tok) : dropDot (l ++ [.sym "."]) = some l := by
  induction l with
  | nil => simp [dropDot]
  | cons x l ih =>
    cases l with
    | nil => simp [dropDot]
    | cons y l =>
      simp only [List.cons_append] at ih ⊢
      simp [dropDot, ih]

theorem toks_ne_of_not_lcTok (s : Sig) (t : Tok) (h : lcTok t = false) : ∀ x ∈ Sig.toks s, x ≠ t := by
  intro x hx he
  have := lcTok_toks s x hx
  rw [he, h] at this
  exact Bool.noConfusion this

theorem parseMul_conLine (here : String) (a b c : Sig) :
    parseLine.parseMul here (conLine a b c) = some (.mul a b c) := by
  unfold parseLine.parseMul conLine
  have h1 : splitAt (.sym "*") (Sig.toks a ++ [.sym "*"] ++ Sig.toks b ++ [.sym "="] ++ Sig.toks c ++ [.sym "."]) =
      some (Sig.toks a, Sig.toks b ++ [.sym "="] ++ Sig.toks c ++ [.sym "."]) := by
    have := splitAt_append (.sym "*") (Sig.toks a) (Sig.toks b ++ [.sym "="] ++ Sig.toks c ++ [.sym "."])
      (toks_ne_of_not_lcTok a _ (by decide))
    simpa [List.append_assoc] using this
  have h2 : splitAt (.sym "=") (Sig.toks b ++ [.sym "="] ++ Sig.toks c ++ [.sym "."]) =
      some (Sig.toks b, Sig.toks c ++ [.sym "."]) := by
    have := splitAt_append (.sym "=") (Sig.toks b) (Sig.toks c ++ [.sym "."])
      (toks_ne_of_not_lcTok b _ (by decide))
    simpa [List.append_assoc] using this
  simp only [h1, h2, dropDot_append, parseLC_toks]

theorem head_toks (s : Sig) : ∃ t r, Sig.toks s = t :: r ∧ lcTok t = true := by
  cases s with
  | nil => exact ⟨_, _, rfl, rfl⟩
  | cons cw s => exact ⟨_, _, by rw [Sig.toks_cons, Sig.toks'_cons], rfl⟩

theorem parseLine_conLine (here : String) (a b c : Sig) :
    parseLine here (conLine a b c) = some (.mul a b c) := by
  have hm := parseMul_conLine here a b c
  obtain ⟨t, r, ht, hl⟩ := head_toks a
  have hc : conLine a b c = t :: (r ++ [.sym "*"] ++ Sig.toks b ++ [.sym "="] ++ Sig.toks c ++ [.sym "."]) := by
    simp [conLine, ht]
  rw [hc] at hm ⊢
  cases t with
  | num n => simpa [parseLine] using hm
  | wire x l => simpa [parseLine] using hm
  | loc l => simp [lcTok] at hl
  | sym s =>
    simp only [lcTok, decide_eq_true_eq] at hl
    subst hl
    have h1 : ("" : String) ≠ "*" := by decide
    have h2 : isDirective "" = false := by decide
    simp only [parseLine, h1, if_false, h2, Bool.false_eq_true]
    exact hm

theorem parseLine_lin (here : String) (s : Sig) :
    parseLine here (.sym "*" :: .sym "=" :: Sig.toks' s) = some (.lin s) := by
  have := parseLC_toks' here s [] [] (by simp [parseLC])
  simp only [List.append_nil] at this
  simp [parseLine, this]

theorem pubLine_eq (sid sido : WireName) :
    pubLine sid sido = .sym "*" :: .sym "=" :: Sig.toks' [(1, sid), (-1, sido)] := by
  simp [pubLine, Sig.toks']

theorem oneLine_eq (call : String) :
    oneLine call = .sym "*" :: .sym "=" :: Sig.toks' [(1, (call, "one")), (-1, (call, "onex"))] := by
  simp [oneLine, Sig.toks']

theorem parseLine_directive (here : String) (s : String) (r : List Tok) (h : isDirective s = true) :
    parseLine here (.sym s :: r) = some .directive := by
  have : s ≠ "*" := by
    intro he; subst he; exact absurd h (by decide)
  simp [parseLine, this, h]

/-- a linear combination whose wires live in context `x`, printed, stripped of its contexts and read
for context `x`, is the original: the equations of a per-function file mean what was traced -/
theorem parseLC_stripCtx (x : String) (sg : Sig) (h : ∀ cw ∈ sg, cw.2.1 = x) :
    parseLC x (stripCtx (Sig.toks' sg)) = some sg := by
  induction sg with
  | nil => simp [Sig.toks', stripCtx, parseLC]
  | cons cw sg ih =>
    have h1 : cw.2.1 = x := h cw (by simp)
    have := ih (fun e he => h e (by simp [he]))
    obtain ⟨c, w1, w2⟩ := cw
    simp only at h1
    subst h1
    rw [Sig.toks'_cons]
    simp only [stripCtx, List.map_cons] at this ⊢
    simp only [parseLC, this, Option.map_some]

/-! ## evaluation -/

theorem evalLC_append (a : Asg) (x y : Terms) (u v : Int) (hx : evalLC a x = some u) (hy : evalLC a y = some v) :
    evalLC a (x ++ y) = some (u + v) := by
  induction x generalizing u with
  | nil => simp [evalLC] at hx; subst hx; simpa using hy
  | cons cw x ih =>
    obtain ⟨c, w⟩ := cw
    simp only [evalLC, List.cons_append] at hx ⊢
    cases haw : a w with
    | none => simp [haw] at hx
    | some vw =>
      cases hxe : evalLC a x with
      | none => simp [haw, hxe] at hx
      | some sx =>
        simp only [haw, hxe, Option.some.injEq] at hx
        rw [ih sx hxe]
        simp only [Option.some.injEq]
        omega

theorem evalLC_neg (p : Int) (a : Asg) (x : Terms) (u : Int) (hx : evalLC a x = some u) :
    ∃ v, evalLC a (Sig.neg p x) = some v ∧ (v + u) % p = 0 := by
  induction x generalizing u with
  | nil => simp [evalLC] at hx; subst hx; exact ⟨0, by simp [Sig.neg, evalLC], by simp⟩
  | cons cw x ih =>
    obtain ⟨c, w⟩ := cw
    simp only [evalLC] at hx
    cases haw : a w with
    | none => simp [haw] at hx
    | some vw =>
      cases hxe : evalLC a x with
      | none => simp [haw, hxe] at hx
      | some sx =>
        simp only [haw, hxe, Option.some.injEq] at hx
        obtain ⟨v, hv, hm⟩ := ih sx hxe
        refine ⟨-c % p * vw + v, ?_, ?_⟩
        · have : Sig.neg p ((c, w) :: x) = (-c % p, w) :: Sig.neg p x := by simp [Sig.neg]
          rw [this]; simp only [evalLC, haw, hv]
        · subst hx
          have e : (-c % p * vw + v + (c * vw + sx)) = (-c % p + c) * vw + (v + sx) := by ring
          rw [e]
          have h1 : (-c % p + c) % p = 0 := by
            have := Int.emod_emod_of_dvd (-c) (dvd_refl p)
            rw [Int.add_emod, Int.emod_emod_of_dvd _ (dvd_refl p), ← Int.add_emod]; simp
          have h2 : ((-c % p + c) * vw) % p = 0 := by
            rw [Int.mul_emod, h1]; simp
          rw [Int.add_emod, h2, hm]; simp

end Pysnark.Qaptools
