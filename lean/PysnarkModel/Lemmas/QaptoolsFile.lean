import PysnarkModel.Lemmas.QaptoolsScope
import PysnarkModel.Lemmas.QaptoolsShape
import PysnarkModel.Lemmas.QaptoolsNames
import Mathlib.Data.List.Nodup
/-!
# The equations of a per-function file hold for the call they are read for

A line of `pysnark_eqs_<fn>` is a line of the equation file with leading/trailing blanks removed
(`strip`) and the context of every wire removed (`stripCtx`).  Read for the context `x` of a call
(`Spec/QapEq.lean`: a bare name refers to the context the file is read for) it is the statement that was
traced, so it holds on the wire and I/O files whenever the traced line does.
-/
namespace Pysnark.Qaptools
open Pysnark.QapEq

/-! ## `strip` on the shapes of line that are written -/

theorem strip_blank_cons (l : List Tok) : strip (.sym "" :: l) = strip l := by
  simp [strip, stripL]

theorem strip_conLine_cons (cw : Int × WireName) (a b c : Sig) :
    strip (conLine (cw :: a) b c) = conLine (cw :: a) b c := by
  have e : conLine (cw :: a) b c =
      .num cw.1 :: ((.wire cw.2.1 cw.2.2 :: Sig.toks' a ++ [.sym "*"] ++ Sig.toks b ++ [.sym "="] ++ Sig.toks c) ++ [.sym "."]) := by
    simp [conLine, Sig.toks_cons, Sig.toks'_cons]
  rw [e]
  exact strip_self _ _ _ (by intro h; cases h) (by decide)

theorem strip_conLine_nil (b c : Sig) :
    strip (conLine [] b c) = .sym "*" :: (Sig.toks b ++ [.sym "="] ++ Sig.toks c ++ [.sym "."]) := by
  have e : conLine [] b c = .sym "" :: .sym "*" :: ((Sig.toks b ++ [.sym "="] ++ Sig.toks c) ++ [.sym "."]) := by
    simp [conLine, Sig.toks_nil]
  rw [e, strip_blank_cons]
  have := strip_self (.sym "*") (Sig.toks b ++ [.sym "="] ++ Sig.toks c) (.sym ".") (by decide) (by decide)
  simpa using this

theorem strip_pubLine (a b : WireName) : strip (pubLine a b) = pubLine a b := by
  have := strip_self (.sym "*") [.sym "=", .num 1, .wire a.1 a.2, .num (-1)] (.wire b.1 b.2) (by decide) (by intro h; cases h)
  simpa [pubLine] using this

theorem strip_oneLine (c : String) : strip (oneLine c) = oneLine c := by
  have := strip_self (.sym "*") [.sym "=", .num 1, .wire c "one", .num (-1)] (.wire c "onex") (by decide) (by intro h; cases h)
  simpa [oneLine] using this

/-! ## linear combinations with the contexts removed -/

theorem mem_toks_of_mem (s : Sig) (k : Int) (w : WireName) (h : (k, w) ∈ s) : Tok.wire w.1 w.2 ∈ Sig.toks s := by
  cases s with
  | nil => simp at h
  | cons cw s =>
    rw [Sig.toks_cons]
    generalize cw :: s = s' at h
    induction s' with
    | nil => simp at h
    | cons e s' ih =>
      rw [Sig.toks'_cons]
      simp only [List.mem_cons] at h
      rcases h with rfl | h
      · simp
      · simp [ih h]

theorem stripCtx_append (a b : List Tok) : stripCtx (a ++ b) = stripCtx a ++ stripCtx b := by
  simp [stripCtx]

/-- a token of a printed linear combination whose contexts have been removed -/
def lcTokL : Tok → Bool
  | .num _ => true
  | .loc _ => true
  | .sym s => s = ""
  | .wire _ _ => false

theorem lcTokL_stripCtx (s : Sig) : ∀ t ∈ stripCtx (Sig.toks s), lcTokL t = true := by
  intro t ht
  simp only [stripCtx, List.mem_map] at ht
  obtain ⟨u, hu, rfl⟩ := ht
  have := lcTok_toks s u hu
  cases u with
  | num n => rfl
  | wire x l => rfl
  | loc l => simp [lcTok] at this
  | sym x => simpa [lcTok, lcTokL] using this

theorem parseLC_stripCtx_toks (x : String) (sg : Sig) (h : ∀ cw ∈ sg, cw.2.1 = x) :
    parseLC x (stripCtx (Sig.toks sg)) = some sg := by
  cases sg with
  | nil => simp [Sig.toks_nil, stripCtx, parseLC]
  | cons cw sg => rw [Sig.toks_cons]; exact parseLC_stripCtx x _ h

theorem head_stripCtx_toks (s : Sig) : ∃ t r, stripCtx (Sig.toks s) = t :: r ∧ lcTokL t = true ∧ t ≠ .sym "=" := by
  obtain ⟨t, r, ht, _⟩ := head_toks s
  have hm := lcTokL_stripCtx s
  rw [ht] at hm ⊢
  simp only [stripCtx, List.map_cons] at hm ⊢
  refine ⟨_, _, rfl, hm _ (by simp), ?_⟩
  have := hm _ (List.mem_cons_self)
  intro he
  rw [he] at this
  simp [lcTokL] at this

/-- the text `B = C .` with contexts removed, read for context `x` -/
theorem parse_tail (b c : Sig) :
    splitAt (.sym "=") (stripCtx (Sig.toks b) ++ .sym "=" :: (stripCtx (Sig.toks c) ++ [.sym "."])) =
      some (stripCtx (Sig.toks b), stripCtx (Sig.toks c) ++ [.sym "."]) :=
  splitAt_append _ _ _ (by
    intro t ht he
    have := lcTokL_stripCtx b t ht
    rw [he] at this; simp [lcTokL] at this)

/-- `A * B = C .` with the contexts removed (and a leading empty `A` stripped), read for the context the
wires live in, is the traced statement -/
theorem parseLine_stripped_con (x : String) (a b c : Sig) (ha : ∀ cw ∈ a, cw.2.1 = x)
    (hb : ∀ cw ∈ b, cw.2.1 = x) (hc : ∀ cw ∈ c, cw.2.1 = x) :
    parseLine x (stripCtx (strip (conLine a b c))) = some (.mul a b c) := by
  have hstar : ∀ s : Sig, ∀ t ∈ stripCtx (Sig.toks s), t ≠ .sym "*" := by
    intro s t ht he
    have := lcTokL_stripCtx s t ht
    rw [he] at this; simp [lcTokL] at this
  have tail := parse_tail b c
  cases a with
  | nil =>
    rw [strip_conLine_nil]
    have e : stripCtx (.sym "*" :: (Sig.toks b ++ [.sym "="] ++ Sig.toks c ++ [.sym "."])) =
        .sym "*" :: (stripCtx (Sig.toks b) ++ .sym "=" :: (stripCtx (Sig.toks c) ++ [.sym "."])) := by
      simp [stripCtx]
    rw [e]
    obtain ⟨t, r, ht, hl, hne⟩ := head_stripCtx_toks b
    have pm : parseLine.parseMul x (.sym "*" :: (stripCtx (Sig.toks b) ++ .sym "=" :: (stripCtx (Sig.toks c) ++ [.sym "."]))) =
        some (.mul [] b c) := by
      unfold parseLine.parseMul
      have s1 : splitAt (.sym "*") (.sym "*" :: (stripCtx (Sig.toks b) ++ .sym "=" :: (stripCtx (Sig.toks c) ++ [.sym "."]))) =
          some ([], stripCtx (Sig.toks b) ++ .sym "=" :: (stripCtx (Sig.toks c) ++ [.sym "."])) := by
        simp [splitAt]
      simp only [s1, tail, dropDot_append, parseLC_stripCtx_toks x b hb, parseLC_stripCtx_toks x c hc, parseLC]
    rw [ht] at pm ⊢
    cases t with
    | num n => simpa [parseLine] using pm
    | loc l => simpa [parseLine] using pm
    | wire y l => simp [lcTokL] at hl
    | sym s =>
      simp only [lcTokL, decide_eq_true_eq] at hl
      subst hl
      have h1 : ("" : String) ≠ "=" := by decide
      simp only [parseLine, List.cons_append, h1, if_false, if_true]
      exact pm
  | cons cw a =>
    rw [strip_conLine_cons]
    have e : stripCtx (conLine (cw :: a) b c) =
        stripCtx (Sig.toks (cw :: a)) ++ .sym "*" :: (stripCtx (Sig.toks b) ++ .sym "=" :: (stripCtx (Sig.toks c) ++ [.sym "."])) := by
      simp [conLine, stripCtx]
    rw [e]
    have s1 := splitAt_append (.sym "*") (stripCtx (Sig.toks (cw :: a)))
      (stripCtx (Sig.toks b) ++ .sym "=" :: (stripCtx (Sig.toks c) ++ [.sym "."])) (hstar (cw :: a))
    have pm : parseLine.parseMul x (stripCtx (Sig.toks (cw :: a)) ++ .sym "*" :: (stripCtx (Sig.toks b) ++ .sym "=" :: (stripCtx (Sig.toks c) ++ [.sym "."]))) =
        some (.mul (cw :: a) b c) := by
      unfold parseLine.parseMul
      simp only [s1, tail, dropDot_append, parseLC_stripCtx_toks x _ ha, parseLC_stripCtx_toks x b hb,
        parseLC_stripCtx_toks x c hc]
    have hh : stripCtx (Sig.toks (cw :: a)) = .num cw.1 :: .loc cw.2.2 :: stripCtx (Sig.toks' a) := by
      rw [Sig.toks_cons, Sig.toks'_cons]; simp [stripCtx]
    rw [hh] at pm ⊢
    simpa [parseLine] using pm

theorem parseLine_stripped_lin (x : String) (l1 l2 : String) :
    parseLine x (stripCtx [.sym "*", .sym "=", .num 1, .wire x l1, .num (-1), .wire x l2]) =
      some (.lin [(1, (x, l1)), (-1, (x, l2))]) := by
  simp [stripCtx, parseLine, parseLC]

/-! ## from the traced line to the line of the per-function file -/

theorem ctx_of_wire_mem (l : Line) (x y n : String) (hk : lineKey (strip l) = some x) (ho : oneCtx (strip l))
    (hm : Tok.wire y n ∈ strip l) : y = x := by
  have : y ∈ ctxsOf (strip l) := (mem_ctxsOf _ y).2 ⟨n, hm⟩
  have := ho y this
  rw [hk] at this
  exact Option.some.inj this

/-- a traced line that holds, read back stripped for the one context its wires live in, holds -/
theorem holds_strip (p : Int) (a : Asg) (x : String) (l : Line) (hs : EqShape l)
    (hh : holds p a "" l = true) (hq : isEquation (strip l) = true)
    (hk : lineKey (strip l) = some x) (ho : oneCtx (strip l)) :
    holds p a x (stripCtx (strip l)) = true := by
  cases hs with
  | con sa sb sc =>
    have hw : ∀ (s : Sig), (∀ t ∈ Sig.toks s, t ≠ .sym "" → t ∈ strip (conLine sa sb sc)) → ∀ cw ∈ s, cw.2.1 = x := by
      intro s hsub cw hcw
      have := mem_toks_of_mem s cw.1 cw.2 hcw
      exact ctx_of_wire_mem _ x _ _ hk ho (hsub _ this (by intro h; cases h))
    have sub : ∀ t, t ≠ .sym "" → (t ∈ Sig.toks sa ∨ t ∈ Sig.toks sb ∨ t ∈ Sig.toks sc) → t ∈ strip (conLine sa sb sc) := by
      intro t hne ht
      cases sa with
      | nil =>
        rw [strip_conLine_nil]
        rcases ht with ht | ht | ht
        · simp [Sig.toks_nil] at ht; exact absurd ht hne
        · simp [ht]
        · simp [ht]
      | cons cw sa =>
        rw [strip_conLine_cons]
        rcases ht with ht | ht | ht <;> simp [conLine, ht]
    have ha := hw sa (fun t ht hne => sub t hne (Or.inl ht))
    have hb := hw sb (fun t ht hne => sub t hne (Or.inr (Or.inl ht)))
    have hc := hw sc (fun t ht hne => sub t hne (Or.inr (Or.inr ht)))
    simp only [holds, parseLine_conLine] at hh
    simp only [holds, parseLine_stripped_con x sa sb sc ha hb hc]
    exact hh
  | pub sid sido =>
    rw [strip_pubLine] at hk ho ⊢
    have h1 : sid.1 = x := ctx_of_wire_mem (pubLine sid sido) x sid.1 sid.2 (by rw [strip_pubLine]; exact hk)
      (by rw [strip_pubLine]; exact ho) (by rw [strip_pubLine]; simp [pubLine])
    have h2 : sido.1 = x := ctx_of_wire_mem (pubLine sid sido) x sido.1 sido.2 (by rw [strip_pubLine]; exact hk)
      (by rw [strip_pubLine]; exact ho) (by rw [strip_pubLine]; simp [pubLine])
    obtain ⟨s1, s2⟩ := sid
    obtain ⟨o1, o2⟩ := sido
    simp only at h1 h2
    have e : pubLine (s1, s2) (o1, o2) = [.sym "*", .sym "=", .num 1, .wire x s2, .num (-1), .wire x o2] := by
      simp [pubLine, h1, h2]
    have e2 : [Tok.sym "*", .sym "=", .num 1, .wire x s2, .num (-1), .wire x o2] =
        .sym "*" :: .sym "=" :: Sig.toks' [(1, (x, s2)), (-1, (x, o2))] := by simp [Sig.toks']
    rw [e] at hh ⊢
    simp only [holds, parseLine_stripped_lin x s2 o2]
    rw [e2] at hh
    simpa only [holds, parseLine_lin] using hh
  | one call =>
    rw [strip_oneLine] at hk ho ⊢
    have h1 : call = x := ctx_of_wire_mem (oneLine call) x call "one" (by rw [strip_oneLine]; exact hk)
      (by rw [strip_oneLine]; exact ho) (by rw [strip_oneLine]; simp [oneLine])
    subst h1
    have e2 : oneLine call = .sym "*" :: .sym "=" :: Sig.toks' [(1, (call, "one")), (-1, (call, "onex"))] := oneLine_eq call
    have e3 : oneLine call = [.sym "*", .sym "=", .num 1, .wire call "one", .num (-1), .wire call "onex"] := rfl
    rw [e2] at hh
    rw [e3]
    simp only [holds, parseLine_stripped_lin call "one" "onex"]
    simpa only [holds, parseLine_lin] using hh
  | fn f c =>
    obtain ⟨r', hr⟩ := strip_head "[function]" [.sym f, .sym c] (by decide)
    rw [functionLine, hr] at hq
    simp [isEquation, isDirective] at hq
  | block c bn vcs =>
    obtain ⟨r', hr⟩ := strip_head "[ioblock]" ([.sym c, .sym bn] ++ (if vcs.isEmpty then [.sym ""] else vcs.map headWire)) (by decide)
    have : blockLine c bn vcs = .sym "[ioblock]" :: ([.sym c, .sym bn] ++ (if vcs.isEmpty then [.sym ""] else vcs.map headWire)) := by
      simp [blockLine]
    rw [this, hr] at hq
    simp [isEquation, isDirective] at hq
  | glue c1 b1 c2 b2 _ =>
    obtain ⟨r', hr⟩ := strip_head "[glue]" [.sym c1, .sym b1, .sym c2, .sym b2] (by decide)
    rw [glueLine, hr] at hq
    simp [isEquation, isDirective] at hq

theorem holds_blockStr (p : Int) (a : Asg) (x : String) (b : String × List Tok) : holds p a x (blockStr b) = true := by
  have : blockStr b = .sym "[ioblock]" :: (.sym b.1 :: b.2) := rfl
  rw [this]
  simp [holds, parseLine_directive x "[ioblock]" _ (by decide), Stmt.holds]

/-- every line of the normalised equation set of context `x` (what is written into a per-function file),
read for `x`, holds on the wire and I/O files of the run -/
theorem getqap_sat {Dg : Type} [DecidableEq Dg] (H : List Line → Dg) (cfg : Cfg) (d1 d2 d3 : Int) (ops : List Op)
    (out : SplitOut Dg) (h : prove H cfg (run cfg d1 d2 d3 ops) = .ok out) :
    let s := run cfg d1 d2 d3 ops
    let E : Env := ⟨cfg.p, s.wires, s.ios⟩
    (∀ c ∈ consOf ops, ConHold E c) → (∀ x ∈ lcsOf ops, Coherent E x) →
    ∀ x l, l ∈ getqap out.acc x → holds cfg.p (asgOf s.wires s.ios) x l = true := by
  intro s E hc hl x l hm
  have hok : E.ok := keysOk_of_ninv s (ninv_run cfg d1 d2 d3 ops)
  have sat : ∀ l0 ∈ s.eqs, holds cfg.p (asgOf s.wires s.ios) "" l0 = true := by
    intro l0 h0
    let K : Hyp := ⟨cfg.p, consOf ops, lcsOf ops⟩
    obtain ⟨st, _⟩ := run_spec cfg K rfl d1 d2 d3 ops (opOK_of_mem cfg.p ops)
    exact eqs_good_of_step st l0 h0 E rfl hok ⟨fun e he => he, fun e he => he⟩ ⟨hc, hl⟩
  have shaped := (shape_run cfg d1 d2 d3 ops).1
  obtain ⟨h1, _⟩ := splitLines_of_qapsplit H _ out h
  obtain ⟨e1, _, e3⟩ := splitLines_spec _ Acc.empty out.acc h1
  have hm' := (getqap_perm out.acc x).mem_iff.1 hm
  rcases List.mem_append.1 hm' with hb | he
  · obtain ⟨b, _, rfl⟩ := List.mem_map.1 hb
    exact holds_blockStr _ _ _ b
  · rw [e1] at he
    simp only [Acc.empty, eqsGet, List.nil_append] at he
    unfold tracedEqs at he
    rw [List.mem_filterMap] at he
    obtain ⟨t, ht, hsome⟩ := he
    obtain ⟨l0, hl0, rfl⟩ := List.mem_map.1 ht
    split at hsome
    · rename_i hcond
      simp only [Bool.and_eq_true, Bool.not_eq_true', decide_eq_true_eq] at hcond
      obtain ⟨⟨hq, hemp⟩, hk⟩ := hcond
      simp only [Option.some.injEq] at hsome
      subst hsome
      have hne : strip l0 ≠ [] := by intro e; rw [e] at hemp; simp at hemp
      have hin : l0 ∈ s.eqs := by
        unfold onDisk at hl0
        split at hl0
        · exact hl0
        · exact List.mem_of_mem_take hl0
      exact holds_strip _ _ x l0 (shaped l0 hin) (sat l0 hin) hq hk (e3 l0 hl0 hq hne)
    · cases hsome

/-! ## the contexts of the calls of a history are pairwise distinct -/

theorem tree_runFrom (cfg : Cfg) (ops : List Op) : ∀ (s : St) (T : List Path) (cur : Path) (C : List String),
    TInv T cur s → WInv T s → T.Nodup → T.reverse.map pname = C →
    ∃ T' cur', TInv T' cur' (runFrom cfg s ops) ∧ WInv T' (runFrom cfg s ops) ∧ T'.Nodup ∧
      T'.reverse.map pname = C ++ (callsFrom cfg s ops).map Prod.fst := by
  induction ops with
  | nil => intro s T cur C t w nd hC; exact ⟨T, cur, t, w, nd, by simp [callsFrom, hC]⟩
  | cons o ops ih =>
    intro s T cur C t w nd hC
    obtain ⟨T1, cur1, t1, w1, rel⟩ := ninv_step_tree cfg s o T cur t w
    cases o with
    | enter fn args d1 d2 d3 =>
      obtain ⟨pn, rfl, hnew, hname⟩ := rel
      obtain ⟨T2, cur2, t2, w2, nd2, h2⟩ := ih _ (pn :: T) cur1 (C ++ [callName fn none s]) t1 w1
        (List.nodup_cons.2 ⟨hnew, nd⟩) (by simp [hC, hname])
      exact ⟨T2, cur2, t2, w2, nd2, by simp [callsFrom, h2]⟩
    | priv v => subst rel; obtain ⟨T2, cur2, t2, w2, nd2, h2⟩ := ih _ T1 cur1 C t1 w1 nd hC; exact ⟨T2, cur2, t2, w2, nd2, by simpa [callsFrom] using h2⟩
    | pub v => subst rel; obtain ⟨T2, cur2, t2, w2, nd2, h2⟩ := ih _ T1 cur1 C t1 w1 nd hC; exact ⟨T2, cur2, t2, w2, nd2, by simpa [callsFrom] using h2⟩
    | con a b c => subst rel; obtain ⟨T2, cur2, t2, w2, nd2, h2⟩ := ih _ T1 cur1 C t1 w1 nd hC; exact ⟨T2, cur2, t2, w2, nd2, by simpa [callsFrom] using h2⟩
    | leave r a b c => subst rel; obtain ⟨T2, cur2, t2, w2, nd2, h2⟩ := ih _ T1 cur1 C t1 w1 nd hC; exact ⟨T2, cur2, t2, w2, nd2, by simpa [callsFrom] using h2⟩
    | guard g => subst rel; obtain ⟨T2, cur2, t2, w2, nd2, h2⟩ := ih _ T1 cur1 C t1 w1 nd hC; exact ⟨T2, cur2, t2, w2, nd2, by simpa [callsFrom] using h2⟩
    | abort => subst rel; obtain ⟨T2, cur2, t2, w2, nd2, h2⟩ := ih _ T1 cur1 C t1 w1 nd hC; exact ⟨T2, cur2, t2, w2, nd2, by simpa [callsFrom] using h2⟩

/-- contexts are distinct per call: `main` and the contexts the calls of a history get are pairwise different -/
theorem calls_nodup (cfg : Cfg) (d1 d2 d3 : Int) (ops : List Op) :
    ("main" :: (callsOf cfg d1 d2 d3 ops).map Prod.fst).Nodup := by
  obtain ⟨T0, cur0, t0, w0⟩ := ninv_init d1 d2 d3
  -- the initial tree is the root alone
  have init : ∃ cur, TInv [[]] cur (St.init d1 d2 d3) ∧ WInv [[]] (St.init d1 d2 d3) := by
    have := ninv_init d1 d2 d3
    unfold NInv at this
    refine ⟨[], ?_⟩
    refine ⟨⟨⟨?_, ?_⟩, by simp, rfl, by simp [St.init], ?_, ?_⟩, ⟨?_, ?_, ?_, ?_⟩⟩
    · intro e q hm; simp at hm
    · intro n f f' q hm; simp at hm
    · intro n f q hm; simp at hm
    · intro n f hm; simp at hm
    · intro e he
      simp only [St.init, enterfn_wires, callName, List.nil_append, List.mem_cons, List.not_mem_nil, or_false] at he
      rcases he with rfl | rfl | rfl | rfl
      · exact ⟨[], by simp, Loc.dv, rfl, trivial⟩
      · exact ⟨[], by simp, Loc.dw, rfl, trivial⟩
      · exact ⟨[], by simp, Loc.dy, rfl, trivial⟩
      · exact ⟨[], by simp, Loc.onex, rfl, trivial⟩
    · intro e he; simp [St.init] at he
    · simp only [St.init, enterfn_wires, callName, List.nil_append]
      simp
    · simp [St.init]
  obtain ⟨cur, t, w⟩ := init
  obtain ⟨T', cur', t', _, nd, h⟩ := tree_runFrom cfg ops (St.init d1 d2 d3) [[]] cur ["main"] t w (by simp) (by simp [pname])
  have : (T'.reverse.map pname).Nodup := by
    apply List.Nodup.map_on
    · intro a ha b hb hab
      exact pname_inj t'.tree a b (by simpa using ha) (by simpa using hb) hab
    · exact List.nodup_reverse.2 nd
  rw [h] at this
  simpa [callsOf] using this

/-! ## the schedule file and the call table -/

/-- what a (stripped) line of the equation file contributes to the schedule file -/
def schedOf (t : Line) : Option Line :=
  match t with
  | .sym s :: r =>
    if s = "[function]" then
      match r with
      | f :: c :: _ => some (scheduleFunction c.render f.render)
      | _ => none
    else if s = "[glue]" then some (.sym s :: r)
    else none
  | _ => none

/-- `(call, function)` of a (stripped) `[function]` line, as `qapsplit` reads it -/
def fnKV (t : Line) : Option (String × String) :=
  match t with
  | .sym s :: f :: c :: _ => if s = "[function]" then some (c.render, f.render) else none
  | _ => none

theorem splitLine_sched (a a' : Acc) (ln : Line) (h : splitLine a ln = .ok a') :
    a'.schedule = a.schedule ++ (schedOf (strip ln)).toList ∧
    a'.fns = (match fnKV (strip ln) with | some kv => sset a.fns kv.1 kv.2 | none => a.fns) := by
  unfold splitLine at h
  split at h
  · rename_i hs
    simp only [Except.ok.injEq] at h; subst h
    simp [hs, schedOf, fnKV]
  · rename_i s r hs
    rw [hs]
    split at h
    · rename_i hf
      split at h
      · rename_i f c rest
        simp only [Except.ok.injEq] at h; subst h
        simp [schedOf, fnKV, hf]
      · cases h
    · rename_i hf
      have hkv : fnKV (.sym s :: r) = none := by
        unfold fnKV
        split
        · rename_i heq
          simp only [List.cons.injEq] at heq
          obtain ⟨h1, _⟩ := heq
          injection h1 with h1
          subst h1; simp [hf]
        · rfl
      split at h
      · rename_i hb
        have hsc : schedOf (.sym s :: r) = none := by
          have : s ≠ "[glue]" := by rw [hb]; decide
          simp [schedOf, hf, this]
        split at h
        · split at h
          · cases h
          · split at h
            · simp only [Except.ok.injEq] at h; subst h
              simp [hsc, hkv]
            · split at h <;> cases h
        · cases h
      · split at h
        · rename_i hb he
          have hsc : schedOf (.sym s :: r) = none := by
            have : s ≠ "[glue]" := by rw [he]; decide
            simp [schedOf, hf, this]
          simp only [Except.ok.injEq] at h; subst h
          simp [hsc, hkv]
        · split at h
          · rename_i hb he hg
            simp only [Except.ok.injEq] at h; subst h
            subst hg
            simp [schedOf, hkv]
          · rename_i hb he hg
            have hsc : schedOf (.sym s :: r) = none := by simp [schedOf, hf, hg]
            split at h
            · cases h
            · simp only [Except.ok.injEq] at h; subst h
              simp [hsc, hkv]
  · rename_i toks hnil hsym
    have hsc : schedOf (strip ln) = none := by
      unfold schedOf
      split
      · rename_i s r heq; exact absurd heq (hsym s r)
      · rfl
    have hkv : fnKV (strip ln) = none := by
      unfold fnKV
      split
      · rename_i s f c rest heq; exact absurd heq (hsym s _)
      · rfl
    split at h
    · cases h
    · simp only [Except.ok.injEq] at h; subst h
      simp [hsc, hkv]

/-- the call table after reading lines: later `[function]` lines overwrite earlier ones of the same call -/
def fnsAfter (d : List (String × String)) : List Line → List (String × String)
  | [] => d
  | t :: r =>
    match fnKV t with
    | some kv => fnsAfter (sset d kv.1 kv.2) r
    | none => fnsAfter d r

theorem splitLines_sched (D : List Line) : ∀ (a a' : Acc), splitLines a D = .ok a' →
    a'.schedule = a.schedule ++ (D.map strip).filterMap schedOf ∧ a'.fns = fnsAfter a.fns (D.map strip) := by
  induction D with
  | nil =>
    intro a a' h
    simp only [splitLines, Except.ok.injEq] at h; subst h
    simp [fnsAfter]
  | cons ln D ih =>
    intro a a' h
    simp only [splitLines] at h
    cases h1 : splitLine a ln with
    | error e => rw [h1] at h; cases h
    | ok a1 =>
      rw [h1] at h
      obtain ⟨s1, s2⟩ := splitLine_sched a a1 ln h1
      obtain ⟨t1, t2⟩ := ih a1 a' h
      constructor
      · rw [t1, s1, List.map_cons, List.filterMap_cons]
        cases schedOf (strip ln) <;> simp
      · rw [t2, s2, List.map_cons]
        simp only [fnsAfter]
        cases fnKV (strip ln) <;> rfl

/-! ## the lines a history writes, as `qapsplit` reads them -/

theorem strip_functionLine (f c : String) (h : c ≠ "") : strip (functionLine f c) = functionLine f c := by
  have := strip_self (.sym "[function]") [.sym f] (.sym c) (by decide) (by intro e; injection e with e; exact h e)
  simpa [functionLine] using this

theorem strip_glueLine (c1 b1 c2 b2 : String) (h : b2 ≠ "") : strip (glueLine c1 b1 c2 b2) = glueLine c1 b1 c2 b2 := by
  have := strip_self (.sym "[glue]") [.sym c1, .sym b1, .sym c2] (.sym b2) (by decide) (by intro e; injection e with e; exact h e)
  simpa [glueLine] using this

/-- for a written line, what `qapsplit` reads as `(call, function)` is what the `[function]` line says -/
theorem fnKV_strip (l : Line) (hs : EqShape l) : fnKV (strip l) = fnOf l := by
  cases hs with
  | con a b c =>
    rw [fnOf_conLine]
    cases a with
    | nil =>
      rw [strip_conLine_nil]
      simp only [fnKV]
      split
      · rename_i heq
        simp only [List.cons.injEq] at heq
        obtain ⟨h1, _⟩ := heq
        injection h1 with h1
        subst h1; simp
      · rfl
    | cons cw a =>
      rw [strip_conLine_cons]
      have : conLine (cw :: a) b c = .num cw.1 :: (.wire cw.2.1 cw.2.2 :: Sig.toks' a ++ [.sym "*"] ++ Sig.toks b ++ [.sym "="] ++ Sig.toks c ++ [.sym "."]) := by
        simp [conLine, Sig.toks_cons, Sig.toks'_cons]
      rw [this]; rfl
  | pub a b => rw [strip_pubLine]; rfl
  | one c => rw [strip_oneLine]; rfl
  | fn f c h => rw [strip_functionLine f c h, fnOf_functionLine]; simp [fnKV, functionLine, Tok.render]
  | block c bn vcs =>
    rw [fnOf_blockLine]
    have e : blockLine c bn vcs = .sym "[ioblock]" :: ([.sym c, .sym bn] ++ (if vcs.isEmpty then [.sym ""] else vcs.map headWire)) := by
      simp [blockLine]
    obtain ⟨r', hr⟩ := strip_head "[ioblock]" ([.sym c, .sym bn] ++ (if vcs.isEmpty then [.sym ""] else vcs.map headWire)) (by decide)
    rw [e, hr]
    simp only [fnKV]
    split
    · rename_i heq
      simp only [List.cons.injEq] at heq
      obtain ⟨h1, _⟩ := heq
      injection h1 with h1
      subst h1; simp
    · rfl
  | glue c1 b1 c2 b2 _ =>
    obtain ⟨r', hr⟩ := strip_head "[glue]" [.sym c1, .sym b1, .sym c2, .sym b2] (by decide)
    rw [glueLine, hr]
    simp only [fnKV]
    split
    · rename_i heq
      simp only [List.cons.injEq] at heq
      obtain ⟨h1, _⟩ := heq
      injection h1 with h1
      subst h1; simp [fnOf]
    · simp [fnOf]

/-- what a written line contributes to the schedule file: a `[function]` line its schedule entry (call,
the three files of the function), a `[glue]` line itself, every other line nothing -/
def schedLine (l : Line) : Option Line :=
  match fnOf l with
  | some cf => some (scheduleFunction cf.1 cf.2)
  | none => if (glueOf l).isSome then some l else none

theorem schedOf_strip (l : Line) (hs : EqShape l) : schedOf (strip l) = schedLine l := by
  cases hs with
  | con a b c =>
    simp only [schedLine, fnOf_conLine, glueOf_conLine]
    cases a with
    | nil => rw [strip_conLine_nil]; simp [schedOf]
    | cons cw a =>
      rw [strip_conLine_cons]
      have : conLine (cw :: a) b c = .num cw.1 :: (.wire cw.2.1 cw.2.2 :: Sig.toks' a ++ [.sym "*"] ++ Sig.toks b ++ [.sym "="] ++ Sig.toks c ++ [.sym "."]) := by
        simp [conLine, Sig.toks_cons, Sig.toks'_cons]
      rw [this]; rfl
  | pub a b => rw [strip_pubLine]; rfl
  | one c => rw [strip_oneLine]; rfl
  | fn f c h =>
    rw [strip_functionLine f c h]
    simp only [schedLine, fnOf_functionLine]
    simp [schedOf, functionLine, Tok.render]
  | block c bn vcs =>
    have e : blockLine c bn vcs = .sym "[ioblock]" :: ([.sym c, .sym bn] ++ (if vcs.isEmpty then [.sym ""] else vcs.map headWire)) := by
      simp [blockLine]
    obtain ⟨r', hr⟩ := strip_head "[ioblock]" ([.sym c, .sym bn] ++ (if vcs.isEmpty then [.sym ""] else vcs.map headWire)) (by decide)
    simp only [schedLine, fnOf_blockLine, glueOf_blockLine]
    rw [e, hr]
    simp [schedOf]
  | glue c1 b1 c2 b2 h =>
    rw [strip_glueLine c1 b1 c2 b2 h]
    simp only [schedLine, fnOf_glueLine, glueOf_glueLine]
    simp [schedOf, glueLine]

theorem sched_eq (D : List Line) (hs : ∀ l ∈ D, EqShape l) : (D.map strip).filterMap schedOf = D.filterMap schedLine := by
  induction D with
  | nil => rfl
  | cons l D ih =>
    simp only [List.map_cons, List.filterMap_cons, schedOf_strip l (hs l (by simp)),
      ih (fun x hx => hs x (by simp [hx]))]

theorem fnsAfter_eq (D : List Line) (hs : ∀ l ∈ D, EqShape l) : ∀ d, fnsAfter d (D.map strip) =
    (D.filterMap fnOf).foldl (fun d kv => sset d kv.1 kv.2) d := by
  induction D with
  | nil => intro d; rfl
  | cons l D ih =>
    intro d
    have := fnKV_strip l (hs l (by simp))
    simp only [List.map_cons, fnsAfter, this, List.filterMap_cons]
    cases fnOf l with
    | none => exact ih (fun x hx => hs x (by simp [hx])) d
    | some kv => exact ih (fun x hx => hs x (by simp [hx])) _

theorem sset_fresh (d : List (String × String)) (k v : String) (h : k ∉ d.map Prod.fst) : sset d k v = d ++ [(k, v)] := by
  induction d with
  | nil => rfl
  | cons e d ih =>
    obtain ⟨k', v'⟩ := e
    simp only [List.map_cons, List.mem_cons, not_or] at h
    have : ¬ k' = k := fun e => h.1 e.symm
    simp [sset, this, ih h.2]

theorem foldl_sset_nodup (L : List (String × String)) : ∀ d, (d.map Prod.fst ++ L.map Prod.fst).Nodup →
    L.foldl (fun d kv => sset d kv.1 kv.2) d = d ++ L := by
  induction L with
  | nil => intro d _; simp
  | cons kv L ih =>
    intro d hn
    simp only [List.foldl_cons]
    have hk : kv.1 ∉ d.map Prod.fst := by
      intro hm
      rw [List.nodup_append] at hn
      exact hn.2.2 _ hm _ (by simp) rfl
    rw [sset_fresh d kv.1 kv.2 hk, ih]
    · simp
    · simpa [List.map_append] using hn

/-! ## the `[function]` and `[glue]` lines of the file are properly bracketed -/

/-- remove everything above and including `c`; `none` if `c` is not open -/
def dropThrough (c : String) : List String → Option (List String)
  | [] => none
  | x :: r => if x = c then some r else dropThrough c r

/-- the contexts that are open after the call/return lines `evs`, innermost first, starting from `fs`:
a `[function]` line opens its context; a `[glue] old _ new _` line must find `new` open and `old` directly
below it once `new` and everything opened inside it (calls whose body raised) are removed; `none` if a
`[glue]` line does not fit -/
def openEv : List String → List ((String × String) ⊕ (String × String)) → Option (List String)
  | fs, [] => some fs
  | fs, .inl cf :: r => openEv (cf.1 :: fs) r
  | fs, .inr oc :: r =>
    match dropThrough oc.2 fs with
    | some (o :: rest) => if o = oc.1 then openEv (o :: rest) r else none
    | _ => none

theorem openEv_append (a b : List ((String × String) ⊕ (String × String))) : ∀ fs,
    openEv fs (a ++ b) = (openEv fs a).bind fun fs' => openEv fs' b := by
  induction a with
  | nil => intro fs; rfl
  | cons e a ih =>
    intro fs
    cases e with
    | inl cf => simp [openEv, ih]
    | inr oc =>
      simp only [List.cons_append, openEv]
      split
      · split
        · exact ih _
        · rfl
      · rfl

theorem dropThrough_append (c : String) (pre post : List String) (h : c ∉ pre) :
    dropThrough c (pre ++ c :: post) = some post := by
  induction pre with
  | nil => simp [dropThrough]
  | cons x pre ih =>
    have hx : x ≠ c := by intro e; exact h (by simp [e])
    simp [dropThrough, hx, ih (by intro hm; exact h (by simp [hm]))]

/-- the frames of the stack sit in the list of open contexts, innermost first, each callee directly above its caller -/
def Emb : List Frame → List String → Prop
  | [], _ => True
  | f :: rest, FS => ∃ pre post, FS = pre ++ f.new :: post ∧ post.head? = some f.old ∧ f.new ∉ pre ∧ Emb rest post

theorem Emb.weaken (st : List Frame) (pre post : List String) (h : Emb st post) (hn : (pre ++ post).Nodup) :
    Emb st (pre ++ post) := by
  cases st with
  | nil => trivial
  | cons f rest =>
    obtain ⟨pre2, post2, e, hh, hnin, hr⟩ := h
    refine ⟨pre ++ pre2, post2, by rw [e]; simp, hh, ?_, hr⟩
    intro hm
    rcases List.mem_append.1 hm with hm | hm
    · rw [List.nodup_append] at hn
      exact hn.2.2 _ hm _ (by rw [e]; simp) rfl
    · exact hnin hm

structure BInv (T : List Path) (s : St) (FS : List String) : Prop where
  head : FS.head? = some s.ctx
  nodup : FS.Nodup
  sub : ∀ c ∈ FS, ∃ p ∈ T, c = pname p
  emb : Emb s.stack FS

theorem copyRets_ctx (args : List Arg) (s : St) : (copyRets args s).2.ctx = s.ctx := by
  induction args generalizing s with
  | nil => rfl
  | cons a args ih => cases hk : a.kind <;> simp [copyRets, hk, ih]

theorem copyRets_stack (args : List Arg) (s : St) : (copyRets args s).2.stack = s.stack := by
  induction args generalizing s with
  | nil => rfl
  | cons a args ih => cases hk : a.kind <;> simp [copyRets, hk, ih]

theorem copyArgs_ctx (args : List Arg) (s : St) : (copyArgs args s).2.ctx = s.ctx := by
  induction args generalizing s with
  | nil => rfl
  | cons a args ih => cases hk : a.kind <;> simp [copyArgs, hk, ih]

theorem copyArgs_stack (args : List Arg) (s : St) : (copyArgs args s).2.stack = s.stack := by
  induction args generalizing s with
  | nil => rfl
  | cons a args ih => cases hk : a.kind <;> simp [copyArgs, hk, ih]

theorem bracket_step (cfg : Cfg) (s : St) (op : Op) (T : List Path) (cur : Path) (FS : List String)
    (t : TInv T cur s) (w : WInv T s) (b : BInv T s FS) :
    ∃ T' cur' FS' ne, TInv T' cur' (step cfg s op) ∧ WInv T' (step cfg s op) ∧ BInv T' (step cfg s op) FS' ∧
      (step cfg s op).eqs = s.eqs ++ ne ∧ openEv FS (ne.filterMap evOf) = some FS' := by
  obtain ⟨T1, cur1, t1, w1, rel⟩ := ninv_step_tree cfg s op T cur t w
  obtain ⟨ne, e, _, _, _, ev⟩ := shape_step cfg s op
  cases op with
  | priv v =>
    subst rel
    exact ⟨T1, cur1, FS, ne, t1, w1, ⟨b.head, b.nodup, b.sub, b.emb⟩, e, by rw [ev]; rfl⟩
  | pub v =>
    subst rel
    exact ⟨T1, cur1, FS, ne, t1, w1, ⟨b.head, b.nodup, b.sub, b.emb⟩, e, by rw [ev]; rfl⟩
  | con x y z =>
    subst rel
    exact ⟨T1, cur1, FS, ne, t1, w1, ⟨b.head, b.nodup, b.sub, b.emb⟩, e, by rw [ev]; rfl⟩
  | guard g =>
    subst rel
    exact ⟨T1, cur1, FS, ne, t1, w1, ⟨b.head, b.nodup, b.sub, b.emb⟩, e, by rw [ev]; rfl⟩
  | abort =>
    subst rel
    cases hst : s.stack with
    | nil =>
      have es : step cfg s .abort = s := by simp [step, hst]
      refine ⟨T1, cur1, FS, ne, t1, w1, ?_, e, by rw [ev]; cases s.stack <;> rfl⟩
      rw [es]; exact b
    | cons f rest =>
      have es : step cfg s .abort = { s with stack := rest } := by simp [step, hst]
      refine ⟨T1, cur1, FS, ne, t1, w1, ?_, e, by rw [ev]; cases s.stack <;> rfl⟩
      rw [es]
      refine ⟨b.head, b.nodup, b.sub, ?_⟩
      have := b.emb
      rw [hst] at this
      obtain ⟨pre, post, e0, _, _, hr⟩ := this
      show Emb rest FS
      rw [e0]
      have hn := b.nodup
      rw [e0] at hn
      have : pre ++ f.new :: post = (pre ++ [f.new]) ++ post := by simp
      rw [this] at hn ⊢
      exact Emb.weaken rest _ post hr hn
  | enter fn args d1 d2 d3 =>
    obtain ⟨pn, rfl, hnew, hname⟩ := rel
    have hctx : (step cfg s (.enter fn args d1 d2 d3)).ctx = callName fn none s := by
      show (copyArgs args (enterfn fn none d1 d2 d3 s)).2.ctx = _
      rw [copyArgs_ctx, enterfn_ctx]
    have hfresh : callName fn none s ∉ FS := by
      intro hm
      obtain ⟨p, hp, he⟩ := b.sub _ hm
      have := pname_inj t1.tree p pn (by simp [hp]) (by simp) (by rw [← he, hname])
      subst this
      exact hnew hp
    refine ⟨pn :: T, cur1, callName fn none s :: FS, ne, t1, w1, ⟨by simp [hctx], List.nodup_cons.2 ⟨hfresh, b.nodup⟩, ?_, ?_⟩, e,
      by rw [ev]; simp [openEv]⟩
    · intro c hc
      simp only [List.mem_cons] at hc
      rcases hc with rfl | hc
      · exact ⟨pn, by simp, hname.symm⟩
      · obtain ⟨p, hp, he⟩ := b.sub c hc
        exact ⟨p, by simp [hp], he⟩
    · show Emb (⟨s.ctx, (enterfn fn none d1 d2 d3 s).ctx, _⟩ :: (copyArgs args (enterfn fn none d1 d2 d3 s)).2.stack) _
      rw [copyArgs_stack, enterfn_stack, enterfn_ctx]
      exact ⟨[], FS, rfl, b.head, by simp, b.emb⟩
  | leave rets rndv r2a r2b =>
    subst rel
    cases hst : s.stack with
    | nil =>
      have es : step cfg s (.leave rets rndv r2a r2b) = s := by simp [step, hst]
      refine ⟨T1, cur1, FS, ne, t1, w1, ?_, e, by rw [ev, hst]; rfl⟩
      rw [es]; exact b
    | cons f rest =>
      have hemb := b.emb
      rw [hst] at hemb
      obtain ⟨pre, post, e0, hh, hnin, hr⟩ := hemb
      have hctx : (step cfg s (.leave rets rndv r2a r2b)).ctx = f.old := by
        rw [leave_eq cfg s f rest hst]
        show (copyRets rets (continuefn f.old { s with stack := rest })).2.ctx = f.old
        rw [copyRets_ctx]; rfl
      have hstk : (step cfg s (.leave rets rndv r2a r2b)).stack = rest := by
        rw [leave_eq cfg s f rest hst]
        obtain ⟨q, hq, q', hq', e1, e2⟩ := t.frames f (by rw [hst]; simp)
        let s1 := continuefn f.old { s with stack := rest }
        have w1' : WInv T1 s1 := nm_bump _ f.old (w.congr rfl rfl (fun _ => Nat.le_refl _) (fun _ => Nat.le_refl _))
        obtain ⟨w2, m2⟩ := nm_copyRets t.tree q hq rets s1 e1 w1'
        have hg := nm_vcGlue t.tree q q' hq hq' cfg (f.argret ++ (copyRets rets s1).1) rndv r2a r2b (copyRets rets s1).2 w2
        rw [← e1, ← e2] at hg
        rw [hg.2.stack, m2.stack]; rfl
      cases hp : post with
      | nil => rw [hp] at hh; simp at hh
      | cons o rest' =>
        have ho : o = f.old := by rw [hp] at hh; simpa using hh
        rw [ho] at hp
        have hnd : (pre ++ f.new :: f.old :: rest').Nodup := by rw [← hp, ← e0]; exact b.nodup
        refine ⟨T1, cur1, f.old :: rest', ne, t1, w1, ⟨by simp [hctx], ?_, ?_, ?_⟩, e, ?_⟩
        · have : (pre ++ f.new :: f.old :: rest') = (pre ++ [f.new]) ++ (f.old :: rest') := by simp
          rw [this, List.nodup_append] at hnd
          exact hnd.2.1
        · intro c hc
          apply b.sub c
          rw [e0, hp]
          simp only [List.mem_append, List.mem_cons] at hc ⊢
          exact Or.inr (Or.inr hc)
        · rw [hstk, ← hp]; exact hr
        · rw [ev, hst]
          simp only [openEv]
          rw [e0, dropThrough_append _ _ _ hnin, hp]
          simp [openEv]

theorem bracket_runFrom (cfg : Cfg) (ops : List Op) : ∀ (s : St) (T : List Path) (cur : Path) (FS : List String),
    TInv T cur s → WInv T s → BInv T s FS →
    ∃ FS' ne, (runFrom cfg s ops).eqs = s.eqs ++ ne ∧ openEv FS (ne.filterMap evOf) = some FS' ∧
      FS'.head? = some (runFrom cfg s ops).ctx ∧ FS'.Nodup := by
  induction ops with
  | nil => intro s T cur FS _ _ b; exact ⟨FS, [], by simp [runFrom], rfl, b.head, b.nodup⟩
  | cons o ops ih =>
    intro s T cur FS t w b
    obtain ⟨T1, cur1, FS1, n1, t1, w1, b1, e1, o1⟩ := bracket_step cfg s o T cur FS t w b
    obtain ⟨FS2, n2, e2, o2, h2, nd2⟩ := ih _ T1 cur1 FS1 t1 w1 b1
    refine ⟨FS2, n1 ++ n2, by simp only [runFrom]; rw [e2, e1]; simp, ?_, h2, nd2⟩
    rw [List.filterMap_append, openEv_append, o1]
    exact o2

/-- Reading the `[function]` and `[glue]` lines of the equation file in order: every `[glue] old _ new _`
finds `new` among the open contexts with `old` directly below it (once `new` and what was opened inside it
and never closed are removed); the innermost context still open at the end is the current context -/
theorem bracket_run (cfg : Cfg) (d1 d2 d3 : Int) (ops : List Op) :
    ∃ FS, openEv [] ((run cfg d1 d2 d3 ops).eqs.filterMap evOf) = some FS ∧
      FS.head? = some (run cfg d1 d2 d3 ops).ctx ∧ FS.Nodup := by
  obtain ⟨T, cur, t, w⟩ := ninv_init d1 d2 d3
  have e0 : (St.init d1 d2 d3).eqs = [functionLine "main" "main", oneLine "main"] := by
    simp [St.init, enterfn_eqs, callName]
  have hb : BInv T (St.init d1 d2 d3) ["main"] := by
    refine ⟨rfl, by simp, ?_, by simp [St.init, Emb]⟩
    intro c hc
    simp only [List.mem_singleton] at hc
    subst hc
    exact ⟨cur, t.cur_mem, t.ctx⟩
  obtain ⟨FS', ne, e, o, h, nd⟩ := bracket_runFrom cfg ops (St.init d1 d2 d3) T cur ["main"] t w hb
  refine ⟨FS', ?_, h, nd⟩
  show openEv [] ((runFrom cfg (St.init d1 d2 d3) ops).eqs.filterMap evOf) = _
  rw [e, e0, List.filterMap_append]
  have : [functionLine "main" "main", oneLine "main"].filterMap evOf = [.inl ("main", "main")] := by
    simp [evOf, fnOf_functionLine, fnOf_oneLine, glueOf_oneLine]
  rw [this, openEv_append]
  simpa [openEv] using o

end Pysnark.Qaptools
