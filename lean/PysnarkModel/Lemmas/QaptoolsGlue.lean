import PysnarkModel.Lemmas.QaptoolsHist
/-!
# Values carried by the paired blocks of a `[glue]` line
-/
namespace Pysnark.Qaptools
open Pysnark.QapEq

/-- value of the wire a block lists for `y` -/
def blockVal (E : Env) (y : LC) : Option Int :=
  match headWire y with
  | .wire c n => E.asg (c, n)
  | _ => none

/-- a one-term linear combination has coefficient one (what `ensure_single` should test) -/
def unitHead (x : LC) : Bool :=
  match x.sig with
  | [(c, _)] => c == 1
  | _ => true

/-- no one-term argument or result of a call carries a coefficient other than one -/
def unitSingles (Ls : List LC) : Bool := Ls.all unitHead

theorem isSingle_unit (cfg : Cfg) (h : cfg.unitCoeff = true) (x : LC) (hs : isSingle cfg x = true) :
    unitHead x = true := by
  unfold isSingle at hs
  unfold unitHead
  split at hs
  · rename_i c w hsig
    simp only [hsig]
    simpa [h] using hs
  · cases hs

theorem coherent_of_copy (E : Env) (hok : E.ok) (s : St) (hext : Ext s E) (a b : LC) (h : CopyOf s a b) :
    Coherent E b ∧ b.value = a.value ∧ unitHead b = true := by
  obtain ⟨w, rfl, hm⟩ := h
  have a1 := asg_of_mem E hok w a.value (by simp [hext.1 _ hm])
  exact ⟨⟨1 * a.value + 0, by simp [evalLC, a1], by simp⟩, rfl, by simp [unitHead]⟩

/-- the wire listed for `x` holds `x.value` modulo `p` -/
theorem stands_val (cfg : Cfg) (E : Env) (hok : E.ok) (s' : St) (hext : Ext s' E) (x y : LC)
    (h : Stands cfg s' x y) (hc : Coherent E x) (hu : isSingle cfg x = true → unitHead x = true) :
    ∃ v, blockVal E y = some v ∧ v % E.p = x.value % E.p := by
  rcases h with ⟨hs, rfl⟩ | ⟨_, w, rfl, hm⟩
  · have hu := hu hs
    unfold isSingle at hs
    split at hs
    · rename_i c w hsig
      obtain ⟨u, hu1, hu2⟩ := hc
      have hc1 : c = 1 := by simpa [unitHead, hsig] using hu
      subst hc1
      rw [hsig] at hu1
      simp only [evalLC] at hu1
      cases ha : E.asg w with
      | none => simp [ha] at hu1
      | some v =>
        simp only [ha, Option.some.injEq] at hu1
        refine ⟨v, by simp [blockVal, headWire, hsig, ha], ?_⟩
        rw [← hu2, ← hu1]; simp
    · cases hs
  · have a1 := asg_of_mem E hok w x.value (by simp [hext.1 _ hm])
    exact ⟨x.value, by simp [blockVal, headWire, a1], rfl⟩

/-- the two blocks carry pairwise equal values modulo `p` -/
def PairwiseEq (E : Env) (vs1 vs2 : List LC) : Prop :=
  List.Forall₂ (fun y1 y2 => ∃ v1 v2, blockVal E y1 = some v1 ∧ blockVal E y2 = some v2 ∧ v1 % E.p = v2 % E.p) vs1 vs2

theorem pairwise_of_stands (cfg : Cfg) (E : Env) (hok : E.ok) (s' : St) (hext : Ext s' E)
    (vals : List (LC × LC)) :
    ∀ (vs1 vs2 : List LC),
    List.Forall₂ (Stands cfg s') (vals.map Prod.fst) vs1 → List.Forall₂ (Stands cfg s') (vals.map Prod.snd) vs2 →
    (∀ ab ∈ vals, ab.1.value = ab.2.value ∧ Coherent E ab.1 ∧ Coherent E ab.2 ∧
      (isSingle cfg ab.1 = true → unitHead ab.1 = true) ∧ (isSingle cfg ab.2 = true → unitHead ab.2 = true)) →
    PairwiseEq E vs1 vs2 := by
  induction vals with
  | nil =>
    intro vs1 vs2 h1 h2 _
    simp only [List.map_nil, List.forall₂_nil_left_iff] at h1 h2
    subst h1; subst h2; exact List.Forall₂.nil
  | cons ab vals ih =>
    intro vs1 vs2 h1 h2 hp
    simp only [List.map_cons] at h1 h2
    obtain ⟨y1, r1, a1, b1, rfl⟩ := List.forall₂_cons_left_iff.1 h1
    obtain ⟨y2, r2, a2, b2, rfl⟩ := List.forall₂_cons_left_iff.1 h2
    obtain ⟨e, c1, c2, u1, u2⟩ := hp ab (by simp)
    obtain ⟨v1, p1, q1⟩ := stands_val cfg E hok s' hext _ _ a1 c1 u1
    obtain ⟨v2, p2, q2⟩ := stands_val cfg E hok s' hext _ _ a2 c2 u2
    refine List.Forall₂.cons ⟨v1, v2, p1, p2, ?_⟩ (ih r1 r2 b1 b2 (fun x hx => hp x (by simp [hx])))
    rw [q1, q2, e]

/-- the common part of the glue theorems -/
theorem glue_core (cfg : Cfg) (d1 d2 d3 : Int) (pre post : List Op) (rets : List Arg) (rndv r2a r2b : Int)
    (f : Frame) (rest : List Frame) (hst : (run cfg d1 d2 d3 pre).stack = f :: rest) :
    let ops := pre ++ .leave rets rndv r2a r2b :: post
    let K : Hyp := ⟨cfg.p, consOf ops, lcsOf ops⟩
    let s0 := run cfg d1 d2 d3 pre
    let s1 := step cfg s0 (.leave rets rndv r2a r2b)
    let sf := run cfg d1 d2 d3 ops
    ∃ bn1 bn2 vs1 vs2,
      GlueSpec cfg K f.old f.new (f.argret ++ (beforeGlue s0 f rest rets).1) rndv (beforeGlue s0 f rest rets).2 s1 bn1 bn2 vs1 vs2 ∧
      Step K s1 sf ∧ s1.flushed ≤ s1.eqs.length ∧ FrameOK K s0 f ∧ Step K s0 (beforeGlue s0 f rest rets).2 ∧
      (beforeGlue s0 f rest rets).1.map Prod.snd = lcsOfArgs rets ∧
      (∀ ab ∈ (beforeGlue s0 f rest rets).1, CopyOf (beforeGlue s0 f rest rets).2 ab.2 ab.1) := by
  intro ops K s0 s1 sf
  have hok := opOK_of_mem cfg.p ops
  have hpre : ∀ op ∈ pre, opOK K op := fun op h => hok op (by simp [ops, h])
  have hpost : ∀ op ∈ post, opOK K op := fun op h => hok op (by simp [ops, h])
  have hleave : opOK K (.leave rets rndv r2a r2b) := hok _ (by simp [ops])
  obtain ⟨p1, p2, _, _, p5⟩ := run_spec cfg K rfl d1 d2 d3 pre hpre
  have gok : GuardOK K s0 := run_guardOK cfg K d1 d2 d3 pre hpre
  obtain ⟨bn1, bn2, vs1, vs2, g, st0, _, _, c1, c2⟩ := leave_spec cfg K rfl s0 f rest hst p2 rets rndv r2a r2b hleave gok
  have sok : StackOK K s1 := (step_spec cfg K rfl s0 _ p2 hleave gok).2.1
  obtain ⟨q1, _⟩ := runFrom_spec cfg K rfl post s1 sok hpost (step_guardOK cfg K s0 _ gok hleave)
  have e : sf = runFrom cfg s1 post := by
    show runFrom cfg (St.init d1 d2 d3) (pre ++ _ :: post) = _
    rw [runFrom_append]; rfl
  refine ⟨bn1, bn2, vs1, vs2, g, by rw [e]; exact q1, ?_, p2 f (by rw [hst]; simp), st0, c1, c2⟩
  rw [g.flushed]

theorem mem_onDisk_of_flushed {K : Hyp} (cfg : Cfg) (s1 sf : St) (h : Step K s1 sf) (hf : s1.flushed = s1.eqs.length)
    (l : Line) (hl : l ∈ s1.eqs) : l ∈ onDisk cfg sf := by
  unfold onDisk
  split
  · exact h.eqs_sub l hl
  · apply h.disk_mono (by rw [hf]) l
    rw [hf, List.take_length]; exact hl

/-- pairwise equal values in the paired blocks of the call that returns after `pre` -/
theorem glue_equal_core (cfg : Cfg) (d1 d2 d3 : Int) (pre post : List Op) (rets : List Arg)
    (rndv r2a r2b : Int) (f : Frame) (rest : List Frame)
    (hst : (run cfg d1 d2 d3 pre).stack = f :: rest) :
    let ops := pre ++ .leave rets rndv r2a r2b :: post
    let sf := run cfg d1 d2 d3 ops
    let E : Env := ⟨cfg.p, sf.wires, sf.ios⟩
    E.ok → (∀ x ∈ lcsOf ops, Coherent E x) → (∀ x ∈ lcsOf ops, isSingle cfg x = true → unitHead x = true) →
    ∃ bn1 bn2 vs1 vs2,
      blockLine f.old bn1 vs1 ∈ onDisk cfg sf ∧ blockLine f.new bn2 vs2 ∈ onDisk cfg sf ∧
      glueLine f.old bn1 f.new bn2 ∈ onDisk cfg sf ∧ PairwiseEq E vs1 vs2 := by
  intro ops sf E hok hcoh hunit
  obtain ⟨bn1, bn2, vs1, vs2, g, st, _, fok, st0, c1, c2⟩ := glue_core cfg d1 d2 d3 pre post rets rndv r2a r2b f rest hst
  refine ⟨bn1, bn2, vs1, vs2, mem_onDisk_of_flushed cfg _ _ st g.flushed _ g.line1,
    mem_onDisk_of_flushed cfg _ _ st g.flushed _ g.line2, mem_onDisk_of_flushed cfg _ _ st g.flushed _ g.glue, ?_⟩
  have ext1 : Ext (step cfg (run cfg d1 d2 d3 pre) (.leave rets rndv r2a r2b)) E :=
    ⟨fun e he => st.wires_sub e he, fun e he => st.ios_sub e he⟩
  have extb : Ext (beforeGlue (run cfg d1 d2 d3 pre) f rest rets).2 E :=
    Ext.mono g.step.wires_sub g.step.ios_sub ext1
  have ext0 : Ext (run cfg d1 d2 d3 pre) E := Ext.mono st0.wires_sub st0.ios_sub extb
  have hu := hunit
  apply pairwise_of_stands cfg E hok _ ext1 _ vs1 vs2 g.stands1 g.stands2
  intro ab hab
  rcases List.mem_append.1 hab with hab | hab
  · obtain ⟨m1, m2⟩ := fok ab hab
    obtain ⟨k1, k2, k3⟩ := coherent_of_copy E hok _ ext0 _ _ m2
    exact ⟨k2.symm, hcoh _ m1, k1, hu _ m1, fun _ => k3⟩
  · obtain ⟨k1, k2, k3⟩ := coherent_of_copy E hok _ extb _ _ (c2 ab hab)
    have hm : ab.2 ∈ lcsOf ops := by
      have : ab.2 ∈ lcsOfArgs rets := by rw [← c1]; exact List.mem_map.2 ⟨ab, hab, rfl⟩
      have hsub : ∀ (a b : List Op) (x : LC), x ∈ lcsOf b → x ∈ lcsOf (a ++ b) := by
        intro a b x hx
        induction a with
        | nil => exact hx
        | cons o a ih => exact lcsOf_cons_sub o _ x ih
      apply hsub
      simp [lcsOf, this]
    exact ⟨k2, k1, hcoh _ hm, fun _ => k3, hu _ hm⟩


end Pysnark.Qaptools
