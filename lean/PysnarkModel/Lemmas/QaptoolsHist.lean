import PysnarkModel.Lemmas.QaptoolsCall
/-!
# Induction over histories of the qaptools model
-/
namespace Pysnark.Qaptools
open Pysnark.QapEq

/-- the traced constraints of a history -/
def consOf : List Op → List (Sig × Sig × Sig)
  | [] => []
  | .con a b c :: r => (a, b, c) :: consOf r
  | _ :: r => consOf r

def lcsOfArgs (args : List Arg) : List LC := (args.filter isL).map (·.lc)

/-- the `LinComb` arguments and results that cross a call boundary in a history -/
def lcsOf : List Op → List LC
  | [] => []
  | .enter _ args _ _ _ :: r => lcsOfArgs args ++ lcsOf r
  | .leave rets _ _ _ :: r => lcsOfArgs rets ++ lcsOf r
  | .guard (some g) :: r => g :: lcsOf r
  | _ :: r => lcsOf r

/-- the values made public by a history, in order -/
def pubsOf : List Op → List Int
  | [] => []
  | .pub v :: r => v :: pubsOf r
  | _ :: r => pubsOf r

def opOK (K : Hyp) : Op → Prop
  | .con a b c => (a, b, c) ∈ K.cons
  | .enter _ args _ _ _ => ∀ x ∈ lcsOfArgs args, x ∈ K.Ls
  | .leave rets _ _ _ => ∀ x ∈ lcsOfArgs rets, x ∈ K.Ls
  | .guard (some g) => g ∈ K.Ls
  | _ => True

theorem consOf_cons_sub (o : Op) (ops : List Op) (x : Sig × Sig × Sig) (h : x ∈ consOf ops) :
    x ∈ consOf (o :: ops) := by
  cases o <;> simp [consOf, h]

theorem lcsOf_cons_sub (o : Op) (ops : List Op) (x : LC) (h : x ∈ lcsOf ops) : x ∈ lcsOf (o :: ops) := by
  cases o with
  | guard g => cases g <;> simp [lcsOf, h]
  | priv v => simpa [lcsOf] using h
  | pub v => simpa [lcsOf] using h
  | con a b c => simpa [lcsOf] using h
  | abort => simpa [lcsOf] using h
  | enter fn args d1 d2 d3 => simp [lcsOf, h]
  | leave rets a b c => simp [lcsOf, h]

theorem opOK_of_mem (p : Int) (ops : List Op) : ∀ op ∈ ops, opOK ⟨p, consOf ops, lcsOf ops⟩ op := by
  induction ops with
  | nil => simp
  | cons o ops ih =>
    have weaken : ∀ op, opOK ⟨p, consOf ops, lcsOf ops⟩ op → opOK ⟨p, consOf (o :: ops), lcsOf (o :: ops)⟩ op := by
      intro op h
      cases op with
      | con a b c => exact consOf_cons_sub o ops _ h
      | enter fn args d1 d2 d3 => intro x hx; exact lcsOf_cons_sub o ops x (h x hx)
      | leave rets a b c => intro x hx; exact lcsOf_cons_sub o ops x (h x hx)
      | priv v => trivial
      | pub v => trivial
      | abort => trivial
      | guard g =>
        cases g with
        | none => trivial
        | some g => exact lcsOf_cons_sub o ops g h
    intro op hop
    simp only [List.mem_cons] at hop
    rcases hop with rfl | hop
    · cases op with
      | guard g => cases g <;> simp [opOK, lcsOf]
      | priv v => trivial
      | pub v => trivial
      | abort => trivial
      | con a b c => simp [opOK, consOf]
      | enter fn args d1 d2 d3 => simp only [opOK, lcsOf]; intro x hx; simp [hx]
      | leave rets a b c => simp only [opOK, lcsOf]; intro x hx; simp [hx]
    · exact weaken op (ih op hop)

def FrameOK (K : Hyp) (s : St) (f : Frame) : Prop := ∀ ab ∈ f.argret, ab.1 ∈ K.Ls ∧ CopyOf s ab.1 ab.2
def StackOK (K : Hyp) (s : St) : Prop := ∀ f ∈ s.stack, FrameOK K s f

theorem StackOK.mono {K : Hyp} {s s' : St} (hw : ∀ e ∈ s.wires, e ∈ s'.wires) (hst : s'.stack = s.stack)
    (h : StackOK K s) : StackOK K s' := by
  intro f hf ab hab
  rw [hst] at hf
  exact ⟨(h f hf ab hab).1, (h f hf ab hab).2.mono hw⟩

/-- effect of one event on the I/O file -/
def IosSpec (s : St) (op : Op) (s' : St) : Prop :=
  match op with
  | .pub v => ∃ w o, s'.ios = s.ios ++ [(o, v)] ∧ (w, v) ∈ s'.wires ∧ pubLine w o ∈ s'.eqs.take s'.flushed
  | _ => s'.ios = s.ios

theorem mem_copy_single (cfg : Cfg) (s : St) (a x : LC) (h : CopyOf s a x) : isSingle cfg x = true := by
  obtain ⟨w, rfl, _⟩ := h
  exact isSingle_copy cfg _ w

theorem leave_eq (cfg : Cfg) (s : St) (f : Frame) (rest : List Frame) (hst : s.stack = f :: rest)
    (rets : List Arg) (rndv r2a r2b : Int) :
    step cfg s (.leave rets rndv r2a r2b) =
      vcGlue cfg f.old f.new
        (f.argret ++ (copyRets rets (continuefn f.old { s with stack := rest })).1) rndv r2a r2b
        (copyRets rets (continuefn f.old { s with stack := rest })).2 := by
  simp [step, hst]

/-- the state in which `vc_glue` starts when the body of the call on top of the stack returns -/
def beforeGlue (s : St) (f : Frame) (rest : List Frame) (rets : List Arg) : List (LC × LC) × St :=
  copyRets rets (continuefn f.old { s with stack := rest })

theorem leave_spec (cfg : Cfg) (K : Hyp) (hp : K.p = cfg.p) (s : St) (f : Frame) (rest : List Frame)
    (hst : s.stack = f :: rest) (hs : StackOK K s) (rets : List Arg) (rndv r2a r2b : Int)
    (ho : opOK K (.leave rets rndv r2a r2b)) (hgd : GuardOK K s) :
    ∃ bn1 bn2 vs1 vs2,
      GlueSpec cfg K f.old f.new (f.argret ++ (beforeGlue s f rest rets).1) rndv (beforeGlue s f rest rets).2
        (step cfg s (.leave rets rndv r2a r2b)) bn1 bn2 vs1 vs2 ∧
      Step K s (beforeGlue s f rest rets).2 ∧
      (beforeGlue s f rest rets).2.stack = rest ∧ (beforeGlue s f rest rets).2.ios = s.ios ∧
      (beforeGlue s f rest rets).1.map Prod.snd = lcsOfArgs rets ∧
      (∀ ab ∈ (beforeGlue s f rest rets).1, CopyOf (beforeGlue s f rest rets).2 ab.2 ab.1) := by
  obtain ⟨c1, c2, c3, c4⟩ := copyRets_spec K rets (continuefn f.old { s with stack := rest })
  have fok : FrameOK K s f := hs f (by simp [hst])
  have st0 : Step K s (continuefn f.old { s with stack := rest }) :=
    Step.of_fields [] [] [] (by simp [continuefn, bump]) (by simp [continuefn, bump])
      (by simp [continuefn, bump]) (Or.inl rfl) (by simp)
  have h1 : ∀ x ∈ (f.argret ++ (beforeGlue s f rest rets).1).map Prod.fst, isSingle cfg x = false → x ∈ K.Ls := by
    intro x hx hsx
    simp only [List.map_append, List.mem_append, List.mem_map] at hx
    rcases hx with ⟨ab, hab, rfl⟩ | ⟨ab, hab, rfl⟩
    · exact (fok ab hab).1
    · have := mem_copy_single cfg _ _ _ (c2 ab hab)
      rw [this] at hsx; exact Bool.noConfusion hsx
  have h2 : ∀ x ∈ (f.argret ++ (beforeGlue s f rest rets).1).map Prod.snd, isSingle cfg x = false → x ∈ K.Ls := by
    intro x hx hsx
    simp only [List.map_append, List.mem_append] at hx
    rcases hx with hx | hx
    · obtain ⟨ab, hab, rfl⟩ := List.mem_map.1 hx
      have := mem_copy_single cfg _ _ _ (fok ab hab).2
      rw [this] at hsx; exact Bool.noConfusion hsx
    · have : x ∈ lcsOfArgs rets := by
        have e : (beforeGlue s f rest rets).1.map Prod.snd = lcsOfArgs rets := c1
        rw [← e]; exact hx
      exact ho x this
  have hgd' : GuardOK K (beforeGlue s f rest rets).2 := by
    intro g hg
    have : (beforeGlue s f rest rets).2.guard = s.guard := by
      unfold beforeGlue; rw [copyRets_guard]; rfl
    rw [this] at hg; exact hgd g hg
  obtain ⟨bn1, bn2, vs1, vs2, g⟩ := vcGlue_spec cfg K hp f.old f.new (f.argret ++ (beforeGlue s f rest rets).1)
    rndv r2a r2b (beforeGlue s f rest rets).2 h1 h2 hgd'
  refine ⟨bn1, bn2, vs1, vs2, ?_, st0.trans c3, ?_, ?_, c1, c2⟩
  · rw [leave_eq cfg s f rest hst]; exact g
  · exact c4.2.1.trans (by simp [continuefn, bump])
  · exact c4.2.2.trans (by simp [continuefn, bump])

theorem mem_take_mono {α : Type} (A B : List α) (n m : Nat) (x : α) (h : x ∈ A.take n) (hn : n ≤ A.length)
    (hm : n ≤ m) : x ∈ (A ++ B).take m := by
  have e : (A ++ B).take n = A.take n := List.take_append_of_le_length hn
  rw [← e] at h
  obtain ⟨i, hi, rfl⟩ := List.getElem_of_mem h
  simp only [List.length_take] at hi
  rw [List.getElem_take]
  exact List.mem_take_iff_getElem.2 ⟨i, by omega, rfl⟩

theorem Step.disk_mono {K : Hyp} {s s' : St} (h : Step K s s') (hf : s.flushed ≤ s.eqs.length) (l : Line)
    (hl : l ∈ s.eqs.take s.flushed) : l ∈ s'.eqs.take s'.flushed := by
  obtain ⟨_, _, ⟨ne, e, _⟩, f⟩ := h
  rw [e]
  exact mem_take_mono _ _ _ _ _ hl hf (f hf).2

/-- only a `guard` event changes the guard in effect -/
theorem step_guard (cfg : Cfg) (s : St) (op : Op) :
    (step cfg s op).guard = match op with
      | .guard g => g
      | _ => s.guard := by
  cases op with
  | priv v => rfl
  | pub v => rfl
  | con a b c => rfl
  | guard g => rfl
  | abort => simp only [step]; split <;> rfl
  | enter fn args d1 d2 d3 =>
    show (copyArgs args (enterfn fn none d1 d2 d3 s)).2.guard = s.guard
    rw [copyArgs_guard]; rfl
  | leave rets rndv r2a r2b =>
    simp only [step]
    split
    · rfl
    · rw [vcGlue_guard, copyRets_guard]; rfl

theorem step_guardOK (cfg : Cfg) (K : Hyp) (s : St) (op : Op) (hgd : GuardOK K s) (ho : opOK K op) :
    GuardOK K (step cfg s op) := by
  intro g hg
  rw [step_guard] at hg
  cases op with
  | guard g' =>
    simp only at hg
    subst hg
    exact ho
  | priv v => exact hgd g hg
  | pub v => exact hgd g hg
  | con a b c => exact hgd g hg
  | abort => exact hgd g hg
  | enter fn args d1 d2 d3 => exact hgd g hg
  | leave rets rndv r2a r2b => exact hgd g hg

theorem step_spec (cfg : Cfg) (K : Hyp) (hp : K.p = cfg.p) (s : St) (op : Op) (hs : StackOK K s)
    (ho : opOK K op) (hgd : GuardOK K s) :
    Step K s (step cfg s op) ∧ StackOK K (step cfg s op) ∧ IosSpec s op (step cfg s op) := by
  cases op with
  | guard g =>
    exact ⟨Step.of_fields [] [] [] (by simp [step]) (by simp [step]) (by simp [step]) (Or.inl rfl) (by simp),
      hs.mono (by simp [step]) rfl, rfl⟩
  | abort =>
    cases hst : s.stack with
    | nil =>
      have e : step cfg s .abort = s := by simp [step, hst]
      rw [e]; exact ⟨Step.refl s, hs, rfl⟩
    | cons f rest =>
      have e : step cfg s .abort = { s with stack := rest } := by simp [step, hst]
      rw [e]
      refine ⟨Step.of_fields [] [] [] (by simp) (by simp) (by simp) (Or.inl rfl) (by simp), ?_, rfl⟩
      intro f' hf' ab hab
      have : f' ∈ s.stack := by rw [hst]; simp [show f' ∈ rest from hf']
      exact hs f' this ab hab
  | priv v =>
    exact ⟨step_privval v s, hs.mono (step_privval (K := K) v s).wires_sub rfl, rfl⟩
  | pub v =>
    refine ⟨step_pubval v s, hs.mono (step_pubval (K := K) v s).wires_sub rfl, ?_⟩
    refine ⟨nextSid s, nextSido s, by simp [step], by simp [step], ?_⟩
    have : (step cfg s (.pub v)).eqs.take (step cfg s (.pub v)).flushed = (step cfg s (.pub v)).eqs := by
      apply List.take_of_length_le
      simp [step]
    rw [this]; simp [step]
  | con a b c =>
    exact ⟨step_con a b c s ho, hs.mono (by simp [step]) rfl, rfl⟩
  | enter fn args d1 d2 d3 =>
    obtain ⟨g1, g2, g3, g4⟩ := copyArgs_spec K args (enterfn fn none d1 d2 d3 s)
    have e : step cfg s (.enter fn args d1 d2 d3) =
        { (copyArgs args (enterfn fn none d1 d2 d3 s)).2 with
          stack := ⟨s.ctx, (enterfn fn none d1 d2 d3 s).ctx, (copyArgs args (enterfn fn none d1 d2 d3 s)).1⟩ ::
            (copyArgs args (enterfn fn none d1 d2 d3 s)).2.stack } := rfl
    have st : Step K s (step cfg s (.enter fn args d1 d2 d3)) := by
      rw [e]
      exact (step_enterfn fn none d1 d2 d3 s).trans (g3.trans
        (Step.of_fields [] [] [] (by simp) (by simp) (by simp) (Or.inl rfl) (by simp)))
    refine ⟨st, ?_, ?_⟩
    · intro f hf
      rw [e] at hf
      simp only [List.mem_cons] at hf
      rcases hf with rfl | hf
      · intro ab hab
        refine ⟨?_, ?_⟩
        · apply ho
          show ab.1 ∈ (args.filter isL).map (·.lc)
          rw [← g1]; exact List.mem_map.2 ⟨ab, hab, rfl⟩
        · rw [e]; exact g2 ab hab
      · have hf' : f ∈ s.stack := by
          have := g4.2.1; rw [this] at hf; simpa using hf
        intro ab hab
        exact ⟨(hs f hf' ab hab).1, (hs f hf' ab hab).2.mono st.wires_sub⟩
    · show (step cfg s (.enter fn args d1 d2 d3)).ios = s.ios
      rw [e]; show (copyArgs args (enterfn fn none d1 d2 d3 s)).2.ios = s.ios
      rw [g4.2.2]; simp
  | leave rets rndv r2a r2b =>
    cases hst : s.stack with
    | nil =>
      have e : step cfg s (.leave rets rndv r2a r2b) = s := by simp [step, hst]
      rw [e]; exact ⟨Step.refl s, hs, rfl⟩
    | cons f rest =>
      obtain ⟨bn1, bn2, vs1, vs2, g, st, hstk, hios, _, _⟩ := leave_spec cfg K hp s f rest hst hs rets rndv r2a r2b ho hgd
      have st' := st.trans g.step
      refine ⟨st', ?_, ?_⟩
      · intro f' hf'
        rw [g.frame.2.1, hstk] at hf'
        have : f' ∈ s.stack := by rw [hst]; simp [hf']
        intro ab hab
        exact ⟨(hs f' this ab hab).1, (hs f' this ab hab).2.mono st'.wires_sub⟩
      · show (step cfg s (.leave rets rndv r2a r2b)).ios = s.ios
        rw [g.frame.2.2, hios]

theorem runFrom_append (cfg : Cfg) (s : St) (a b : List Op) :
    runFrom cfg s (a ++ b) = runFrom cfg (runFrom cfg s a) b := by
  induction a generalizing s with
  | nil => rfl
  | cons o a ih => simp [runFrom, ih]

/-- every I/O line is tied to a wire of equal value by an equality that is on disk -/
def PubInv (s : St) : Prop :=
  ∀ e ∈ s.ios, ∃ w, (w, e.2) ∈ s.wires ∧ pubLine w e.1 ∈ s.eqs.take s.flushed

theorem runFrom_spec (cfg : Cfg) (K : Hyp) (hp : K.p = cfg.p) (ops : List Op) (s : St) (hs : StackOK K s)
    (ho : ∀ op ∈ ops, opOK K op) (hgd : GuardOK K s) :
    Step K s (runFrom cfg s ops) ∧ StackOK K (runFrom cfg s ops) ∧
    (runFrom cfg s ops).ios.map Prod.snd = s.ios.map Prod.snd ++ pubsOf ops ∧
    (s.flushed ≤ s.eqs.length → PubInv s → PubInv (runFrom cfg s ops)) := by
  induction ops generalizing s with
  | nil => exact ⟨Step.refl s, hs, by simp [runFrom, pubsOf], fun _ h => h⟩
  | cons o ops ih =>
    obtain ⟨a1, a2, a3⟩ := step_spec cfg K hp s o hs (ho o (by simp)) hgd
    obtain ⟨b1, b2, b3, b4⟩ := ih (step cfg s o) a2 (fun op h => ho op (by simp [h]))
      (step_guardOK cfg K s o hgd (ho o (by simp)))
    refine ⟨a1.trans b1, b2, ?_, ?_⟩
    · show (runFrom cfg (step cfg s o) ops).ios.map Prod.snd = _
      rw [b3]
      cases o with
      | pub v =>
        obtain ⟨w, o', e, _⟩ := a3
        rw [e]; simp [pubsOf]
      | priv v => simp only [IosSpec] at a3; rw [a3]; simp [pubsOf]
      | con a b c => simp only [IosSpec] at a3; rw [a3]; simp [pubsOf]
      | enter fn args d1 d2 d3 => simp only [IosSpec] at a3; rw [a3]; simp [pubsOf]
      | leave rets a b c => simp only [IosSpec] at a3; rw [a3]; simp [pubsOf]
      | guard g => simp only [IosSpec] at a3; rw [a3]; simp [pubsOf]
      | abort => simp only [IosSpec] at a3; rw [a3]; simp [pubsOf]
    · intro hf hpi
      apply b4 (a1.2.2.2 hf).1
      intro e he
      have old : ∀ e ∈ s.ios, ∃ w, (w, e.2) ∈ (step cfg s o).wires ∧
          pubLine w e.1 ∈ (step cfg s o).eqs.take (step cfg s o).flushed := by
        intro e he
        obtain ⟨w, hw, hl⟩ := hpi e he
        exact ⟨w, a1.wires_sub _ hw, a1.disk_mono hf _ hl⟩
      cases o with
      | pub v =>
        obtain ⟨w, o', e', hw, hl⟩ := a3
        rw [e'] at he
        simp only [List.mem_append, List.mem_singleton] at he
        rcases he with he | rfl
        · exact old e he
        · exact ⟨w, hw, hl⟩
      | priv v => simp only [IosSpec] at a3; rw [a3] at he; exact old e he
      | con a b c => simp only [IosSpec] at a3; rw [a3] at he; exact old e he
      | enter fn args d1 d2 d3 => simp only [IosSpec] at a3; rw [a3] at he; exact old e he
      | leave rets a b c => simp only [IosSpec] at a3; rw [a3] at he; exact old e he
      | guard g => simp only [IosSpec] at a3; rw [a3] at he; exact old e he
      | abort => simp only [IosSpec] at a3; rw [a3] at he; exact old e he

theorem runFrom_guardOK (cfg : Cfg) (K : Hyp) (ops : List Op) : ∀ (s : St), GuardOK K s →
    (∀ op ∈ ops, opOK K op) → GuardOK K (runFrom cfg s ops) := by
  induction ops with
  | nil => intro s h _; exact h
  | cons o ops ih =>
    intro s h ho
    exact ih _ (step_guardOK cfg K s o h (ho o (by simp))) (fun op hop => ho op (by simp [hop]))

theorem init_guard (d1 d2 d3 : Int) : (St.init d1 d2 d3).guard = none := rfl

theorem run_guardOK (cfg : Cfg) (K : Hyp) (d1 d2 d3 : Int) (ops : List Op) (ho : ∀ op ∈ ops, opOK K op) :
    GuardOK K (run cfg d1 d2 d3 ops) :=
  runFrom_guardOK cfg K ops _ (by intro g hg; rw [init_guard] at hg; cases hg) ho

/-- the state before `import pysnark.runtime` -/
def St.blank : St :=
  { ctx := "", ctr := [], ioctr := [], eqs := [], flushed := 0, wires := [], ios := [], stack := [] }

theorem init_step (K : Hyp) (d1 d2 d3 : Int) : Step K St.blank (St.init d1 d2 d3) :=
  step_enterfn "main" (some "main") d1 d2 d3 St.blank

/-- everything about a whole run, from the blank state -/
theorem run_spec (cfg : Cfg) (K : Hyp) (hp : K.p = cfg.p) (d1 d2 d3 : Int) (ops : List Op)
    (ho : ∀ op ∈ ops, opOK K op) :
    Step K St.blank (run cfg d1 d2 d3 ops) ∧ StackOK K (run cfg d1 d2 d3 ops) ∧
    (run cfg d1 d2 d3 ops).ios.map Prod.snd = pubsOf ops ∧ PubInv (run cfg d1 d2 d3 ops) ∧
    (run cfg d1 d2 d3 ops).flushed ≤ (run cfg d1 d2 d3 ops).eqs.length := by
  have i := init_step K d1 d2 d3
  have hs : StackOK K (St.init d1 d2 d3) := by intro f hf; simp [St.init] at hf
  have hg0 : GuardOK K (St.init d1 d2 d3) := by intro g hg; rw [init_guard] at hg; cases hg
  obtain ⟨b1, b2, b3, b4⟩ := runFrom_spec cfg K hp ops (St.init d1 d2 d3) hs ho hg0
  have hf : (St.init d1 d2 d3).flushed ≤ (St.init d1 d2 d3).eqs.length := by simp [St.init]
  refine ⟨i.trans b1, b2, ?_, b4 hf ?_, (b1.2.2.2 hf).1⟩
  · show (runFrom cfg (St.init d1 d2 d3) ops).ios.map Prod.snd = _
    rw [b3]; simp [St.init]
  · intro e he; simp [St.init] at he

theorem eqs_good_of_step {K : Hyp} {s' : St} (h : Step K St.blank s') : ∀ l ∈ s'.eqs, GoodAll K s' l := by
  obtain ⟨_, _, ⟨ne, e, g⟩, _⟩ := h
  intro l hl
  rw [e] at hl
  simp only [St.blank, List.nil_append] at hl
  exact g l hl

end Pysnark.Qaptools
