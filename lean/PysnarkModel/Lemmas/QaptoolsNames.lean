import PysnarkModel.Lemmas.QaptoolsHist
import Std.Data.String.ToNat
/-!
# Wire names are pairwise distinct, over all histories

Every name the emitters write is `<ctx>/<local>` with `<local>` one of `<n>` (a counter value),
`rnd1_<n>`, `rnd2_<n>`, `deltav`, `deltaw`, `deltay`, `onex`, `o_<n>`; per context the counters only
grow, and the context of a call is `<caller>_<counter of the caller>_<function name>`.  Function names
are arbitrary strings, so two different chains of calls may well spell the same text
(`main_0_a_5_b` is `a_5_b` called from `main` and also `b` called from `main_0_a`); what makes call
names distinct is that the counter of a context is increased when a call returns to it, so one context
never makes two calls at the same counter value.  The invariant keeps the tree of calls made so far as
ghost data and shows that spelling is injective on every such tree.
-/
namespace Pysnark.Qaptools
open Pysnark.QapEq

/-! ## strings -/

theorem str_append_cancel_left (a x y : String) (h : a ++ x = a ++ y) : x = y := by
  apply String.toList_injective
  have := congrArg String.toList h
  simpa [String.toList_append] using this

theorem str_append_cancel_right (a x y : String) (h : x ++ a = y ++ a) : x = y := by
  apply String.toList_injective
  have := congrArg String.toList h
  simpa [String.toList_append] using this

theorem natStr_toList (n : Nat) : (toString n).toList = Nat.toDigits 10 n := Nat.toList_repr

theorem natStr_inj (n m : Nat) (h : toString n = toString m) : n = m := Nat.repr_injective h

theorem digit_of_mem_natStr (n : Nat) (c : Char) (h : c ∈ (toString n).toList) : c.isDigit = true := by
  rw [natStr_toList] at h
  exact Nat.isDigit_of_mem_toDigits (by decide) (by decide) h

theorem natStr_ne_nil (n : Nat) : (toString n).toList ≠ [] := by
  rw [natStr_toList]
  exact Nat.toDigits_ne_nil

/-- two texts `<digits>_<rest>` agree only if digits and rests agree -/
theorem split_at_underscore (l1 l2 r1 r2 : List Char) (h1 : ∀ c ∈ l1, c ≠ '_') (h2 : ∀ c ∈ l2, c ≠ '_')
    (h : l1 ++ '_' :: r1 = l2 ++ '_' :: r2) : l1 = l2 ∧ r1 = r2 := by
  induction l1 generalizing l2 with
  | nil =>
    cases l2 with
    | nil => simpa using h
    | cons c l2 =>
      simp only [List.nil_append, List.cons_append, List.cons.injEq] at h
      exact absurd h.1.symm (h2 c (by simp))
  | cons c l1 ih =>
    cases l2 with
    | nil =>
      simp only [List.nil_append, List.cons_append, List.cons.injEq] at h
      exact absurd h.1 (h1 c (by simp))
    | cons c' l2 =>
      simp only [List.cons_append, List.cons.injEq] at h
      obtain ⟨a, b⟩ := ih l2 (fun x hx => h1 x (by simp [hx])) (fun x hx => h2 x (by simp [hx])) h.2
      exact ⟨by rw [h.1, a], b⟩

theorem natStr_no_underscore (n : Nat) : ∀ c ∈ (toString n).toList, c ≠ '_' := by
  intro c hc he
  subst he
  have := digit_of_mem_natStr n _ hc
  simp at this

/-- `<n>_<x> = <m>_<y>` only if `n = m` and `x = y` -/
theorem seg_inj (n m : Nat) (x y : String) (h : toString n ++ "_" ++ x = toString m ++ "_" ++ y) :
    n = m ∧ x = y := by
  have := congrArg String.toList h
  simp only [String.toList_append] at this
  have e : ("_" : String).toList = ['_'] := by decide
  rw [e] at this
  simp only [List.append_assoc, List.cons_append, List.nil_append] at this
  obtain ⟨a, b⟩ := split_at_underscore _ _ _ _ (natStr_no_underscore n) (natStr_no_underscore m) this
  exact ⟨natStr_inj n m (String.toList_injective a), String.toList_injective b⟩

/-! ## local names -/

/-- the local part of a wire name -/
inductive Loc where
  | num (k : Nat)
  | rnd1 (k : Nat)
  | rnd2 (k : Nat)
  | dv | dw | dy | onex
  | out (k : Nat)
deriving DecidableEq, Repr

def Loc.str : Loc → String
  | .num k => toString k
  | .rnd1 k => "rnd1_" ++ toString k
  | .rnd2 k => "rnd2_" ++ toString k
  | .dv => "deltav"
  | .dw => "deltaw"
  | .dy => "deltay"
  | .onex => "onex"
  | .out k => "o_" ++ toString k

/-- first character of the text, `'?'` for the empty text -/
def headC (s : String) : Char := s.toList.headD '?'

theorem headC_natStr (n : Nat) : (headC (toString n)).isDigit = true := by
  unfold headC
  cases h : (toString n).toList with
  | nil => exact absurd h (natStr_ne_nil n)
  | cons c r =>
    simp only [List.headD_cons]
    exact digit_of_mem_natStr n c (by rw [h]; simp)

theorem headC_append_lit (a : String) (x : String) (c : Char) (r : List Char) (h : a.toList = c :: r) :
    headC (a ++ x) = c := by
  simp [headC, String.toList_append, h]

/-- a tag that separates the eight shapes of local names: first character, and for the shapes that
share it the character that tells them apart -/
def Loc.tag : Loc → Nat
  | .num _ => 0 | .rnd1 _ => 1 | .rnd2 _ => 2 | .dv => 3 | .dw => 4 | .dy => 5 | .onex => 6 | .out _ => 7

def tagOfText (s : String) : Nat :=
  match s.toList with
  | 'r' :: 'n' :: 'd' :: '1' :: _ => 1
  | 'r' :: 'n' :: 'd' :: '2' :: _ => 2
  | 'd' :: 'e' :: 'l' :: 't' :: 'a' :: 'v' :: _ => 3
  | 'd' :: 'e' :: 'l' :: 't' :: 'a' :: 'w' :: _ => 4
  | 'd' :: 'e' :: 'l' :: 't' :: 'a' :: 'y' :: _ => 5
  | 'o' :: 'n' :: _ => 6
  | 'o' :: '_' :: _ => 7
  | _ => 0

theorem tagOfText_natStr (n : Nat) : tagOfText (toString n) = 0 := by
  unfold tagOfText
  have hd : ∀ c ∈ (toString n).toList, c.isDigit = true := digit_of_mem_natStr n
  split <;> first
    | rfl
    | (rename_i heq; rw [heq] at hd; have := hd _ (List.mem_cons_self); simp at this)

theorem Loc.tag_str (l : Loc) : tagOfText l.str = l.tag := by
  cases l with
  | num k => exact tagOfText_natStr k
  | rnd1 k => simp [Loc.str, tagOfText, String.toList_append, Loc.tag]
  | rnd2 k => simp [Loc.str, tagOfText, String.toList_append, Loc.tag]
  | dv => decide
  | dw => decide
  | dy => decide
  | onex => decide
  | out k => simp [Loc.str, tagOfText, String.toList_append, Loc.tag]

theorem Loc.str_inj (a b : Loc) (h : a.str = b.str) : a = b := by
  have ht : a.tag = b.tag := by rw [← Loc.tag_str, ← Loc.tag_str, h]
  cases a <;> cases b <;> simp only [Loc.tag] at ht <;> first
    | rfl
    | omega
    | (simp only [Loc.str] at h
       first
         | (have := natStr_inj _ _ h; subst this; rfl)
         | (have := natStr_inj _ _ (str_append_cancel_left _ _ _ h); subst this; rfl))

theorem Loc.str_ne_one (a : Loc) : a.str ≠ "one" := by
  intro h
  have ht := Loc.tag_str a
  rw [h] at ht
  have e : tagOfText "one" = 6 := by decide
  rw [e] at ht
  cases a <;> simp [Loc.tag] at ht
  have : ("onex" : String) ≠ "one" := by decide
  exact this h

/-! ## call paths and their spelling -/

/-- a call, as the list of `(counter of the caller, function name)` from the call itself up to `main` -/
abbrev Path := List (Nat × String)

/-- the context name `enterfn` gives to the call -/
def pname : Path → String
  | [] => "main"
  | e :: q => pname q ++ "_" ++ toString e.1 ++ "_" ++ e.2

def seg (e : Nat × String) : String := "_" ++ (toString e.1 ++ "_" ++ e.2)

/-- spelling of a root-first list of calls -/
def rsegs : List (Nat × String) → String
  | [] => ""
  | e :: r => seg e ++ rsegs r

theorem pname_cons (e : Nat × String) (q : Path) : pname (e :: q) = pname q ++ seg e := by
  simp [pname, seg, String.append_assoc]

theorem rsegs_append (a b : List (Nat × String)) : rsegs (a ++ b) = rsegs a ++ rsegs b := by
  induction a with
  | nil => simp [rsegs]
  | cons e a ih => simp [rsegs, ih, String.append_assoc]

theorem pname_eq (p : Path) : pname p = "main" ++ rsegs p.reverse := by
  induction p with
  | nil => simp [pname, rsegs]
  | cons e q ih =>
    rw [pname_cons, ih, List.reverse_cons, rsegs_append]
    simp [rsegs, String.append_assoc]

/-- the calls made so far form a tree: with a call all its callers, and one context never makes two
calls at the same counter value -/
structure TreeOK (T : List Path) : Prop where
  tail : ∀ e q, e :: q ∈ T → q ∈ T
  one : ∀ n f f' q, (n, f) :: q ∈ T → (n, f') :: q ∈ T → f = f'

theorem TreeOK.suffix {T : List Path} (h : TreeOK T) (a b : Path) (hm : a ++ b ∈ T) : b ∈ T := by
  induction a with
  | nil => simpa using hm
  | cons e a ih => exact ih (h.tail e _ hm)

theorem seg_ne_empty (e : Nat × String) (x : String) : seg e ++ x ≠ "" := by
  intro h
  have := congrArg String.toList h
  simp [seg, String.toList_append] at this

theorem rsegs_inj {T : List Path} (h : TreeOK T) (P : List (Nat × String)) :
    ∀ (P' Q : List (Nat × String)), (Q ++ P).reverse ∈ T → (Q ++ P').reverse ∈ T → rsegs P = rsegs P' → P = P' := by
  induction P with
  | nil =>
    intro P' Q _ _ he
    cases P' with
    | nil => rfl
    | cons e' R' => exact absurd he.symm (seg_ne_empty e' _)
  | cons e R ih =>
    intro P' Q h1 h2 he
    cases P' with
    | nil => exact absurd he (seg_ne_empty e _)
    | cons e' R' =>
      obtain ⟨n, f⟩ := e
      obtain ⟨n', f'⟩ := e'
      simp only [rsegs, seg, String.append_assoc] at he
      have he2 := str_append_cancel_left _ _ _ he
      have he3 : toString n ++ "_" ++ (f ++ rsegs R) = toString n' ++ "_" ++ (f' ++ rsegs R') := by
        simpa [String.append_assoc] using he2
      obtain ⟨hn, hr⟩ := seg_inj _ _ _ _ he3
      subst hn
      have m1 : (n, f) :: Q.reverse ∈ T := by
        apply h.suffix R.reverse
        simpa using h1
      have m2 : (n, f') :: Q.reverse ∈ T := by
        apply h.suffix R'.reverse
        simpa using h2
      have hf := h.one n f f' _ m1 m2
      subst hf
      have hr2 := str_append_cancel_left _ _ _ hr
      have := ih R' (Q ++ [(n, f)]) (by simpa using h1) (by simpa using h2) hr2
      rw [this]

/-- spelling is injective on a tree of calls -/
theorem pname_inj {T : List Path} (h : TreeOK T) (p p' : Path) (h1 : p ∈ T) (h2 : p' ∈ T)
    (he : pname p = pname p') : p = p' := by
  rw [pname_eq, pname_eq] at he
  have := rsegs_inj h p.reverse p'.reverse [] (by simpa using h1) (by simpa using h2)
    (str_append_cancel_left _ _ _ he)
  simpa using congrArg List.reverse this

/-! ## counters -/

theorem dget_dset (d : List (String × Nat)) (k : String) (v : Nat) (k' : String) :
    dget (dset d k v) k' = if k = k' then v else dget d k' := by
  induction d with
  | nil => by_cases h : k = k' <;> simp [dset, dget, h]
  | cons e d ih =>
    obtain ⟨k0, v0⟩ := e
    by_cases h0 : k0 = k
    · subst h0
      by_cases h : k0 = k' <;> simp [dset, dget, h]
    · by_cases h1 : k0 = k'
      · subst h1
        have : ¬ k = k0 := fun e => h0 e.symm
        simp [dset, dget, h0, this]
      · simp [dset, dget, h0, h1, ih]

theorem dget_bump (c : String) (s : St) (c' : String) :
    dget (bump c s).ctr c' = if c = c' then dget s.ctr c' + 1 else dget s.ctr c' := by
  simp only [bump, dget_dset]
  by_cases h : c = c'
  · subst h; simp
  · simp [h]

theorem dget_bump_le (c : String) (s : St) (c' : String) : dget s.ctr c' ≤ dget (bump c s).ctr c' := by
  rw [dget_bump]; split <;> omega

/-! ## the invariant on the wire and I/O files -/

/-- the counter of its context bounds a wire's local name -/
def Loc.wbound (n : Nat) : Loc → Prop
  | .num k => k ≤ n
  | .rnd1 k => k < n
  | .rnd2 k => k < n
  | .out _ => False
  | _ => True

theorem Loc.wbound_mono {n m : Nat} (h : n ≤ m) (l : Loc) (hb : l.wbound n) : l.wbound m := by
  cases l <;> simp only [Loc.wbound] at hb ⊢ <;> omega

/-- every wire is `<call>/<local>` for a call made so far and a local name within the counter of that
call; every I/O name is `<call>/o_<k>` within the I/O counter; no name is written twice -/
structure WInv (T : List Path) (s : St) : Prop where
  wires : ∀ e ∈ s.wires, ∃ p ∈ T, ∃ l : Loc, e.1 = (pname p, l.str) ∧ l.wbound (dget s.ctr (pname p))
  ios : ∀ e ∈ s.ios, ∃ p ∈ T, ∃ k, e.1 = (pname p, (Loc.out k).str) ∧ k ≤ dget s.ioctr (pname p)
  wnodup : (s.wires.map Prod.fst).Nodup
  inodup : (s.ios.map Prod.fst).Nodup

theorem WInv.congr {T : List Path} {s s' : St} (h : WInv T s) (hw : s'.wires = s.wires) (hi : s'.ios = s.ios)
    (hc : ∀ c, dget s.ctr c ≤ dget s'.ctr c) (hio : ∀ c, dget s.ioctr c ≤ dget s'.ioctr c) : WInv T s' := by
  refine ⟨?_, ?_, by rw [hw]; exact h.wnodup, by rw [hi]; exact h.inodup⟩
  · intro e he
    rw [hw] at he
    obtain ⟨p, hp, l, h1, h2⟩ := h.wires e he
    exact ⟨p, hp, l, h1, l.wbound_mono (hc _) h2⟩
  · intro e he
    rw [hi] at he
    obtain ⟨p, hp, k, h1, h2⟩ := h.ios e he
    exact ⟨p, hp, k, h1, Nat.le_trans h2 (hio _)⟩

theorem WInv.superset {T T' : List Path} {s : St} (h : WInv T s) (hs : ∀ p ∈ T, p ∈ T') : WInv T' s := by
  refine ⟨?_, ?_, h.wnodup, h.inodup⟩
  · intro e he
    obtain ⟨p, hp, l, h1, h2⟩ := h.wires e he
    exact ⟨p, hs p hp, l, h1, h2⟩
  · intro e he
    obtain ⟨p, hp, k, h1, h2⟩ := h.ios e he
    exact ⟨p, hs p hp, k, h1, h2⟩

/-- a name whose local part is beyond the counter has not been written -/
theorem WInv.fresh_of_bound {T : List Path} {s : St} (hT : TreeOK T) (h : WInv T s) (p : Path) (hp : p ∈ T)
    (l : Loc) (hnb : ¬ l.wbound (dget s.ctr (pname p))) : ∀ e ∈ s.wires, e.1 ≠ (pname p, l.str) := by
  intro e he heq
  obtain ⟨p', hp', l', h1, h2⟩ := h.wires e he
  rw [h1] at heq
  simp only [Prod.mk.injEq] at heq
  have := pname_inj hT p' p hp' hp heq.1
  subst this
  have := Loc.str_inj _ _ heq.2
  subst this
  exact hnb h2

/-- no wire of a call that has not been made -/
theorem WInv.fresh_of_new {T : List Path} {s : St} (h : WInv T s) (p : Path) (hT : TreeOK (p :: T)) (hp : p ∉ T)
    (x : String) : ∀ e ∈ s.wires, e.1 ≠ (pname p, x) := by
  intro e he heq
  obtain ⟨p', hp', l', h1, _⟩ := h.wires e he
  rw [h1] at heq
  simp only [Prod.mk.injEq] at heq
  have := pname_inj hT p' p (by simp [hp']) (by simp) heq.1
  subst this
  exact hp hp'

/-- writing one more wire -/
theorem WInv.add_wire {T : List Path} {s : St} (h : WInv T s) (s' : St) (p : Path) (hp : p ∈ T) (l : Loc)
    (v : Int) (hw : s'.wires = s.wires ++ [((pname p, l.str), v)]) (hi : s'.ios = s.ios)
    (hc : ∀ c, dget s.ctr c ≤ dget s'.ctr c) (hio : ∀ c, dget s.ioctr c ≤ dget s'.ioctr c)
    (hb : l.wbound (dget s'.ctr (pname p))) (hfresh : ∀ e ∈ s.wires, e.1 ≠ (pname p, l.str)) : WInv T s' := by
  refine ⟨?_, ?_, ?_, by rw [hi]; exact h.inodup⟩
  · intro e he
    rw [hw] at he
    simp only [List.mem_append, List.mem_singleton] at he
    rcases he with he | rfl
    · obtain ⟨p', hp', l', h1, h2⟩ := h.wires e he
      exact ⟨p', hp', l', h1, l'.wbound_mono (hc _) h2⟩
    · exact ⟨p, hp, l, rfl, hb⟩
  · intro e he
    rw [hi] at he
    obtain ⟨p', hp', k, h1, h2⟩ := h.ios e he
    exact ⟨p', hp', k, h1, Nat.le_trans h2 (hio _)⟩
  · rw [hw, List.map_append, List.nodup_append]
    refine ⟨h.wnodup, by simp, ?_⟩
    intro a ha b hb' hab
    simp only [List.map_cons, List.map_nil, List.mem_singleton] at hb'
    obtain ⟨e, he, rfl⟩ := List.mem_map.1 ha
    exact hfresh e he (hab.trans hb')

/-! ## steps that only write wires in known contexts -/

/-- counters grow, context and stack are left alone -/
structure Mono (s s' : St) : Prop where
  ctr : ∀ c, dget s.ctr c ≤ dget s'.ctr c
  ioctr : ∀ c, dget s.ioctr c ≤ dget s'.ioctr c
  stack : s'.stack = s.stack
  ctx : s'.ctx = s.ctx

theorem Mono.refl (s : St) : Mono s s := ⟨fun _ => Nat.le_refl _, fun _ => Nat.le_refl _, rfl, rfl⟩

theorem Mono.trans {s s' s'' : St} (h1 : Mono s s') (h2 : Mono s' s'') : Mono s s'' :=
  ⟨fun c => Nat.le_trans (h1.ctr c) (h2.ctr c), fun c => Nat.le_trans (h1.ioctr c) (h2.ioctr c),
   h2.stack.trans h1.stack, h2.ctx.trans h1.ctx⟩

/-- the wires written between `s` and `s'` are counter-named wires of context `c` -/
def OnlyNums (c : String) (s s' : St) : Prop :=
  ∀ e ∈ s'.wires, e ∈ s.wires ∨ ∃ k, e.1 = (c, (Loc.num k).str)

theorem OnlyNums.refl (c : String) (s : St) : OnlyNums c s s := fun _ he => Or.inl he

theorem OnlyNums.trans {c : String} {s s' s'' : St} (h1 : OnlyNums c s s') (h2 : OnlyNums c s' s'') :
    OnlyNums c s s'' := by
  intro e he
  rcases h2 e he with h | h
  · exact h1 e h
  · exact Or.inr h

theorem nextSid_eq (s : St) : nextSid s = (s.ctx, (Loc.num (dget s.ctr s.ctx + 1)).str) := by
  simp [nextSid, dget_bump, Loc.str]

theorem nm_privval {T : List Path} (hT : TreeOK T) (p : Path) (hp : p ∈ T) (v : Int) (s : St)
    (hc : s.ctx = pname p) (h : WInv T s) :
    WInv T (privval v s).2 ∧ Mono s (privval v s).2 ∧ OnlyNums s.ctx s (privval v s).2 := by
  have hctr : ∀ c, dget s.ctr c ≤ dget (privval v s).2.ctr c := fun c => dget_bump_le s.ctx s c
  refine ⟨?_, ⟨hctr, fun _ => Nat.le_refl _, rfl, rfl⟩, ?_⟩
  · apply h.add_wire _ p hp (Loc.num (dget s.ctr s.ctx + 1)) v
    · rw [privval_wires, nextSid_eq, hc]
    · rfl
    · exact hctr
    · exact fun _ => Nat.le_refl _
    · show dget s.ctr s.ctx + 1 ≤ dget (bump s.ctx s).ctr (pname p)
      rw [dget_bump, hc]; simp
    · rw [hc]
      apply h.fresh_of_bound hT p hp
      simp [Loc.wbound]
  · intro e he
    rw [privval_wires] at he
    simp only [List.mem_append, List.mem_singleton] at he
    rcases he with he | rfl
    · exact Or.inl he
    · exact Or.inr ⟨_, nextSid_eq s⟩

theorem Mono.of_eq {s s' : St} (h1 : s'.ctr = s.ctr) (h2 : s'.ioctr = s.ioctr) (h3 : s'.stack = s.stack)
    (h4 : s'.ctx = s.ctx) : Mono s s' :=
  ⟨fun c => by rw [h1], fun c => by rw [h2], h3, h4⟩

theorem nm_addConstraint {T : List Path} (a b c : Sig) (s : St) (h : WInv T s) :
    WInv T (addConstraint a b c s) ∧ Mono s (addConstraint a b c s) ∧ OnlyNums s.ctx s (addConstraint a b c s) :=
  ⟨h.congr rfl rfl (fun _ => Nat.le_refl _) (fun _ => Nat.le_refl _), Mono.of_eq rfl rfl rfl rfl,
   fun _ he => Or.inl he⟩

theorem nm_ensureSingle {T : List Path} (hT : TreeOK T) (p : Path) (hp : p ∈ T) (cfg : Cfg) (x : LC) (s : St)
    (hc : s.ctx = pname p) (h : WInv T s) :
    WInv T (ensureSingle cfg x s).2 ∧ Mono s (ensureSingle cfg x s).2 ∧ OnlyNums s.ctx s (ensureSingle cfg x s).2 := by
  cases hs : isSingle cfg x with
  | true => rw [ensureSingle_pos _ _ _ hs]; exact ⟨h, Mono.refl s, OnlyNums.refl _ s⟩
  | false =>
    obtain ⟨a1, a2, a3⟩ := nm_privval hT p hp x.value s hc h
    cases hg : s.guard with
    | none =>
      rw [ensureSingle_neg _ _ _ hs hg]
      obtain ⟨c1, c2, c3⟩ := nm_addConstraint [] [] (Sig.sub cfg.p [(1, nextSid s)] x.sig) (privval x.value s).2 a1
      exact ⟨c1, a2.trans c2, a3.trans c3⟩
    | some g =>
      rw [ensureSingle_guarded _ _ _ hs g hg]
      obtain ⟨b1, b2, b3⟩ := nm_privval hT p hp 0 (privval x.value s).2 hc a1
      obtain ⟨c1, c2, c3⟩ := nm_addConstraint [] []
        (Sig.add (Sig.sub cfg.p [(1, nextSid s)] x.sig) [(1, nextSid (privval x.value s).2)])
        (privval 0 (privval x.value s).2).2 b1
      obtain ⟨e1, e2, e3⟩ := nm_addConstraint g.sig [(1, nextSid (privval x.value s).2)] [] _ c1
      exact ⟨e1, ((a2.trans b2).trans c2).trans e2, ((a3.trans b3).trans c3).trans e3⟩

theorem nm_ensureAll {T : List Path} (hT : TreeOK T) (p : Path) (hp : p ∈ T) (cfg : Cfg) (xs : List LC) :
    ∀ (s : St), s.ctx = pname p → WInv T s →
    WInv T (ensureAll cfg xs s).2 ∧ Mono s (ensureAll cfg xs s).2 ∧ OnlyNums s.ctx s (ensureAll cfg xs s).2 := by
  induction xs with
  | nil => intro s _ h; exact ⟨h, Mono.refl s, OnlyNums.refl _ s⟩
  | cons x xs ih =>
    intro s hc h
    obtain ⟨a1, a2, a3⟩ := nm_ensureSingle hT p hp cfg x s hc h
    obtain ⟨b1, b2, b3⟩ := ih (ensureSingle cfg x s).2 (a2.ctx.trans hc) a1
    simp only [ensureAll]
    rw [a2.ctx] at b3
    exact ⟨b1, a2.trans b2, a3.trans b3⟩

theorem nm_declareBlock {T : List Path} (hT : TreeOK T) (p : Path) (hp : p ∈ T) (cfg : Cfg) (k : Nat)
    (vcs : List LC) (rnd1 rnd2 : Int) (s : St) (hc : s.ctx = pname p) (h : WInv T s)
    (hk : k < dget s.ctr (pname p))
    (hf1 : ∀ e ∈ s.wires, e.1 ≠ (pname p, (Loc.rnd1 k).str))
    (hf2 : ∀ e ∈ s.wires, e.1 ≠ (pname p, (Loc.rnd2 k).str)) :
    WInv T (declareBlock cfg (toString k) vcs rnd1 rnd2 s).2 ∧
    Mono s (declareBlock cfg (toString k) vcs rnd1 rnd2 s).2 := by
  obtain ⟨a1, a2, a3⟩ := nm_ensureAll hT p hp cfg vcs s hc h
  let s1 := (ensureAll cfg vcs s).2
  have hc1 : s1.ctx = pname p := a2.ctx.trans hc
  let s2 := printwire rnd1 (s1.ctx, "rnd1_" ++ toString k) s1
  let s3 := printwire rnd2 (s2.ctx, "rnd2_" ++ toString k) s2
  have e : (declareBlock cfg (toString k) vcs rnd1 rnd2 s).2 = flush (emit (blockLine s3.ctx (toString k) (ensureAll cfg vcs s).1) s3) := rfl
  rw [e]
  have fr1 : ∀ e ∈ s1.wires, e.1 ≠ (pname p, (Loc.rnd1 k).str) := by
    intro e he heq
    rcases a3 e he with h0 | ⟨k', hk'⟩
    · exact hf1 e h0 heq
    · rw [hk'] at heq
      simp only [Prod.mk.injEq] at heq
      have := Loc.str_inj _ _ heq.2
      cases this
  have fr2 : ∀ e ∈ s1.wires, e.1 ≠ (pname p, (Loc.rnd2 k).str) := by
    intro e he heq
    rcases a3 e he with h0 | ⟨k', hk'⟩
    · exact hf2 e h0 heq
    · rw [hk'] at heq
      simp only [Prod.mk.injEq] at heq
      have := Loc.str_inj _ _ heq.2
      cases this
  have hk1 : k < dget s1.ctr (pname p) := Nat.lt_of_lt_of_le hk (a2.ctr _)
  have w2 : WInv T s2 := by
    apply a1.add_wire s2 p hp (Loc.rnd1 k) rnd1
    · show s1.wires ++ [((s1.ctx, "rnd1_" ++ toString k), rnd1)] = _
      rw [hc1]; rfl
    · rfl
    · exact fun _ => Nat.le_refl _
    · exact fun _ => Nat.le_refl _
    · exact hk1
    · exact fr1
  have w3 : WInv T s3 := by
    apply w2.add_wire s3 p hp (Loc.rnd2 k) rnd2
    · show s2.wires ++ [((s2.ctx, "rnd2_" ++ toString k), rnd2)] = _
      have : s2.ctx = pname p := hc1
      rw [this]; rfl
    · rfl
    · exact fun _ => Nat.le_refl _
    · exact fun _ => Nat.le_refl _
    · exact hk1
    · intro e he heq
      have : s2.wires = s1.wires ++ [((s1.ctx, "rnd1_" ++ toString k), rnd1)] := rfl
      rw [this] at he
      simp only [List.mem_append, List.mem_singleton] at he
      rcases he with he | rfl
      · exact fr2 e he heq
      · simp only [Prod.mk.injEq] at heq
        have : (Loc.rnd1 k).str = (Loc.rnd2 k).str := heq.2
        have := Loc.str_inj _ _ this
        cases this
  exact ⟨w3.congr rfl rfl (fun _ => Nat.le_refl _) (fun _ => Nat.le_refl _),
    a2.trans (Mono.of_eq rfl rfl rfl rfl)⟩

theorem nm_setctx {T : List Path} (s : St) (c : String) (h : WInv T s) : WInv T { s with ctx := c } :=
  h.congr rfl rfl (fun _ => Nat.le_refl _) (fun _ => Nat.le_refl _)

theorem nm_bump {T : List Path} (s : St) (c : String) (h : WInv T s) : WInv T (bump c s) :=
  h.congr rfl rfl (dget_bump_le c s) (fun _ => Nat.le_refl _)

/-- `vc_glue` between two known contexts: names stay distinct, counters grow, context and stack are restored -/
theorem nm_vcGlue {T : List Path} (hT : TreeOK T) (q1 q2 : Path) (h1 : q1 ∈ T) (h2 : q2 ∈ T) (cfg : Cfg)
    (vals : List (LC × LC)) (rndv r2a r2b : Int) (s : St) (h : WInv T s) :
    WInv T (vcGlue cfg (pname q1) (pname q2) vals rndv r2a r2b s) ∧
    Mono s (vcGlue cfg (pname q1) (pname q2) vals rndv r2a r2b s) := by
  let c1 := pname q1
  let c2 := pname q2
  let s1 : St := { s with ctx := c1 }
  let k1 := dget s1.ctr c1
  let s2 := bump c1 s1
  have w1 : WInv T s1 := nm_setctx s c1 h
  have w2 : WInv T s2 := nm_bump s1 c1 w1
  have A := nm_declareBlock hT q1 h1 cfg k1 (vals.map Prod.fst) rndv r2a s2 rfl w2
    (by show k1 < dget (bump c1 s1).ctr c1; rw [dget_bump]; simp [k1])
    (w1.fresh_of_bound hT q1 h1 (Loc.rnd1 k1) (by simp [Loc.wbound, k1, c1]))
    (w1.fresh_of_bound hT q1 h1 (Loc.rnd2 k1) (by simp [Loc.wbound, k1, c1]))
  let s3 := (declareBlock cfg (toString k1) (vals.map Prod.fst) rndv r2a s2).2
  let s4 : St := { s3 with ctx := c2 }
  let k2 := dget s4.ctr c2
  let s5 := bump c2 s4
  have w4 : WInv T s4 := nm_setctx s3 c2 A.1
  have w5 : WInv T s5 := nm_bump s4 c2 w4
  have B := nm_declareBlock hT q2 h2 cfg k2 (vals.map Prod.snd) rndv r2b s5 rfl w5
    (by show k2 < dget (bump c2 s4).ctr c2; rw [dget_bump]; simp [k2])
    (w4.fresh_of_bound hT q2 h2 (Loc.rnd1 k2) (by simp [Loc.wbound, k2, c2]))
    (w4.fresh_of_bound hT q2 h2 (Loc.rnd2 k2) (by simp [Loc.wbound, k2, c2]))
  let s6 := (declareBlock cfg (toString k2) (vals.map Prod.snd) rndv r2b s5).2
  let s7 : St := { s6 with ctx := s.ctx }
  have e : vcGlue cfg (pname q1) (pname q2) vals rndv r2a r2b s = flush (emit (glueLine c1 (toString k1) c2 (toString k2)) s7) := rfl
  rw [e]
  refine ⟨(nm_setctx s6 s.ctx B.1).congr rfl rfl (fun _ => Nat.le_refl _) (fun _ => Nat.le_refl _), ?_⟩
  have m02 : ∀ c, dget s.ctr c ≤ dget s2.ctr c := fun c => dget_bump_le c1 s1 c
  have m35 : ∀ c, dget s3.ctr c ≤ dget s5.ctr c := fun c => dget_bump_le c2 s4 c
  refine ⟨fun c => ?_, fun c => ?_, ?_, rfl⟩
  · exact Nat.le_trans (m02 c) (Nat.le_trans (A.2.ctr c) (Nat.le_trans (m35 c) (B.2.ctr c)))
  · exact Nat.le_trans (A.2.ioctr c) (B.2.ioctr c)
  · show s6.stack = s.stack
    have a : s6.stack = s5.stack := B.2.stack
    have b : s3.stack = s2.stack := A.2.stack
    rw [a]; show s3.stack = s.stack; rw [b]; rfl

theorem nm_copyArgs {T : List Path} (hT : TreeOK T) (p : Path) (hp : p ∈ T) (args : List Arg) :
    ∀ (s : St), s.ctx = pname p → WInv T s → WInv T (copyArgs args s).2 ∧ Mono s (copyArgs args s).2 := by
  induction args with
  | nil => intro s _ h; exact ⟨h, Mono.refl s⟩
  | cons a args ih =>
    intro s hc h
    cases hk : a.kind with
    | lincomb =>
      obtain ⟨a1, a2, _⟩ := nm_privval hT p hp a.lc.value s hc h
      obtain ⟨b1, b2⟩ := ih (privval a.lc.value s).2 hc a1
      have e : (copyArgs (a :: args) s).2 = (copyArgs args (privval a.lc.value s).2).2 := by
        simp [copyArgs, hk]
      rw [e]; exact ⟨b1, a2.trans b2⟩
    | bool =>
      have e : copyArgs (a :: args) s = copyArgs args s := by simp [copyArgs, hk]
      rw [e]; exact ih s hc h
    | fxp =>
      have e : copyArgs (a :: args) s = copyArgs args s := by simp [copyArgs, hk]
      rw [e]; exact ih s hc h

theorem nm_copyRets {T : List Path} (hT : TreeOK T) (p : Path) (hp : p ∈ T) (args : List Arg) :
    ∀ (s : St), s.ctx = pname p → WInv T s → WInv T (copyRets args s).2 ∧ Mono s (copyRets args s).2 := by
  induction args with
  | nil => intro s _ h; exact ⟨h, Mono.refl s⟩
  | cons a args ih =>
    intro s hc h
    cases hk : a.kind with
    | lincomb =>
      obtain ⟨a1, a2, _⟩ := nm_privval hT p hp a.lc.value s hc h
      obtain ⟨b1, b2⟩ := ih (privval a.lc.value s).2 hc a1
      have e : (copyRets (a :: args) s).2 = (copyRets args (privval a.lc.value s).2).2 := by
        simp [copyRets, hk]
      rw [e]; exact ⟨b1, a2.trans b2⟩
    | bool =>
      have e : copyRets (a :: args) s = copyRets args s := by simp [copyRets, hk]
      rw [e]; exact ih s hc h
    | fxp =>
      have e : copyRets (a :: args) s = copyRets args s := by simp [copyRets, hk]
      rw [e]; exact ih s hc h

theorem dget_ioset (s : St) (c' : String) :
    dget s.ioctr c' ≤ dget (dset s.ioctr s.ctx (dget s.ioctr s.ctx + 1)) c' := by
  rw [dget_dset]; split
  · rename_i h; subst h; omega
  · exact Nat.le_refl _

theorem nm_pubval {T : List Path} (hT : TreeOK T) (p : Path) (hp : p ∈ T) (v : Int) (s : St)
    (hc : s.ctx = pname p) (h : WInv T s) : WInv T (pubval v s).2 ∧ Mono s (pubval v s).2 := by
  obtain ⟨a1, a2, _⟩ := nm_privval hT p hp v s hc h
  refine ⟨⟨?_, ?_, ?_, ?_⟩, ⟨a2.ctr, fun c => dget_ioset s c, rfl, rfl⟩⟩
  · intro e he
    exact a1.wires e he
  · intro e he
    rw [pubval_ios] at he
    simp only [List.mem_append, List.mem_singleton] at he
    rcases he with he | rfl
    · obtain ⟨p', hp', k, h1, h2⟩ := h.ios e he
      exact ⟨p', hp', k, h1, Nat.le_trans h2 (dget_ioset s _)⟩
    · refine ⟨p, hp, dget s.ioctr s.ctx + 1, ?_, ?_⟩
      · simp [nextSido, hc, Loc.str, dget_dset]
      · show _ ≤ dget (dset s.ioctr s.ctx (dget s.ioctr s.ctx + 1)) (pname p)
        rw [dget_dset, hc]; simp
  · exact a1.wnodup
  · rw [pubval_ios, List.map_append, List.nodup_append]
    refine ⟨h.inodup, by simp, ?_⟩
    intro a ha b hb hab
    simp only [List.map_cons, List.map_nil, List.mem_singleton] at hb
    obtain ⟨e, he, rfl⟩ := List.mem_map.1 ha
    obtain ⟨p', hp', k, h1, h2⟩ := h.ios e he
    rw [hab, hb] at h1
    have hn : nextSido s = (pname p, (Loc.out (dget s.ioctr s.ctx + 1)).str) := by
      simp [nextSido, hc, Loc.str, dget_dset]
    rw [hn] at h1
    simp only [Prod.mk.injEq] at h1
    have := pname_inj hT p p' hp hp' h1.1
    subst this
    have := Loc.str_inj _ _ h1.2
    simp only [Loc.out.injEq] at this
    rw [hc] at this
    omega

/-! ## the tree of calls -/

/-- ghost data `T` (calls made so far) and `cur` (the call whose context is current): spelling is
injective on `T`; every frame of the stack names two calls of `T`; a call never has a counter value
above its caller's counter, and the calls made from the current context lie strictly below its
counter (the counter is increased when a call returns to it) -/
structure TInv (T : List Path) (cur : Path) (s : St) : Prop where
  tree : TreeOK T
  cur_mem : cur ∈ T
  ctx : s.ctx = pname cur
  frames : ∀ f ∈ s.stack, ∃ q ∈ T, ∃ q' ∈ T, f.old = pname q ∧ f.new = pname q'
  child_le : ∀ n f q, (n, f) :: q ∈ T → n ≤ dget s.ctr (pname q)
  child_lt : ∀ n f, (n, f) :: cur ∈ T → n < dget s.ctr (pname cur)

theorem TInv.mono {T : List Path} {cur : Path} {s s' : St} (h : TInv T cur s) (m : Mono s s') : TInv T cur s' :=
  ⟨h.tree, h.cur_mem, m.ctx.trans h.ctx, by rw [m.stack]; exact h.frames,
   fun n f q hq => Nat.le_trans (h.child_le n f q hq) (m.ctr _),
   fun n f hq => Nat.lt_of_lt_of_le (h.child_lt n f hq) (m.ctr _)⟩

/-- the invariant of all histories -/
def NInv (s : St) : Prop := ∃ T cur, TInv T cur s ∧ WInv T s

theorem pname_length_cons (e : Nat × String) (q : Path) : (pname q).length < (pname (e :: q)).length := by
  rw [pname_cons]
  have : ("_" : String).length = 1 := by decide
  simp only [String.length_append, seg, this]
  omega

theorem callName_eq (fn : String) (s : St) (cur : Path) (h : s.ctx = pname cur) :
    callName fn none s = pname ((dget s.ctr s.ctx, fn) :: cur) := by
  simp [callName, pname, h]

/-- entering a call: the tree grows by one fresh call -/
theorem tree_enter {T : List Path} {cur : Path} {s : St} (h : TInv T cur s) (fn : String) :
    TreeOK (((dget s.ctr s.ctx, fn) :: cur) :: T) ∧ ((dget s.ctr s.ctx, fn) :: cur) ∉ T := by
  have hlt : ∀ f, (dget s.ctr s.ctx, f) :: cur ∉ T := by
    intro f hm
    have := h.child_lt _ f hm
    rw [h.ctx] at this
    omega
  refine ⟨⟨?_, ?_⟩, hlt fn⟩
  · intro e q hm
    simp only [List.mem_cons] at hm
    rcases hm with hm | hm
    · simp only [List.cons.injEq] at hm
      rw [hm.2]; simp [h.cur_mem]
    · simp [h.tree.tail e q hm]
  · intro n f f' q h1 h2
    simp only [List.mem_cons, List.cons.injEq, Prod.mk.injEq] at h1 h2
    rcases h1 with ⟨⟨rfl, rfl⟩, rfl⟩ | h1 <;> rcases h2 with ⟨⟨e1, rfl⟩, e2⟩ | h2
    · rfl
    · exact absurd h2 (hlt _)
    · subst e2; subst e1; exact absurd h1 (hlt _)
    · exact h.tree.one n f f' q h1 h2

/-- the four wires `enterfn` writes for a fresh call -/
theorem nm_enterfn {T : List Path} {cur : Path} {s : St} (h : TInv T cur s) (w : WInv T s) (fn : String)
    (d1 d2 d3 : Int) :
    let pn := (dget s.ctr s.ctx, fn) :: cur
    TInv (pn :: T) pn (enterfn fn none d1 d2 d3 s) ∧ WInv (pn :: T) (enterfn fn none d1 d2 d3 s) := by
  intro pn
  obtain ⟨hT', hnew⟩ := tree_enter h fn
  have hname : callName fn none s = pname pn := callName_eq fn s cur h.ctx
  have hne : ∀ q ∈ T, pname q ≠ pname pn := by
    intro q hq he
    have := pname_inj hT' q pn (by simp [hq]) (List.mem_cons_self) he
    subst this; exact hnew hq
  have hctr : ∀ q ∈ T, dget (enterfn fn none d1 d2 d3 s).ctr (pname q) = dget s.ctr (pname q) := by
    intro q hq
    have e : (enterfn fn none d1 d2 d3 s).ctr = dset s.ctr (callName fn none s) 0 := rfl
    rw [e, dget_dset, hname]
    have := hne q hq
    simp [this.symm]
  have hioctr : ∀ q ∈ T, dget (enterfn fn none d1 d2 d3 s).ioctr (pname q) = dget s.ioctr (pname q) := by
    intro q hq
    have e : (enterfn fn none d1 d2 d3 s).ioctr = dset s.ioctr (callName fn none s) 0 := rfl
    rw [e, dget_dset, hname]
    have := hne q hq
    simp [this.symm]
  constructor
  · refine ⟨hT', by simp, by rw [enterfn_ctx, hname], ?_, ?_, ?_⟩
    · intro f hf
      rw [enterfn_stack] at hf
      obtain ⟨q, hq, q', hq', e1, e2⟩ := h.frames f hf
      exact ⟨q, by simp [hq], q', by simp [hq'], e1, e2⟩
    · intro n f q hm
      simp only [List.mem_cons] at hm
      rcases hm with hm | hm
      · simp only [pn, List.cons.injEq, Prod.mk.injEq] at hm
        obtain ⟨⟨rfl, _⟩, rfl⟩ := hm
        rw [hctr q h.cur_mem, h.ctx]
      · have hq : q ∈ T := h.tree.tail _ _ hm
        rw [hctr q hq]
        exact h.child_le n f q hm
    · intro n f hm
      simp only [List.mem_cons] at hm
      rcases hm with hm | hm
      · have := congrArg List.length hm
        simp [pn] at this
      · exact absurd (h.tree.tail _ _ hm) hnew
  · have hw : (enterfn fn none d1 d2 d3 s).wires = s.wires ++
        [((pname pn, Loc.dv.str), d1), ((pname pn, Loc.dw.str), d2), ((pname pn, Loc.dy.str), d3),
         ((pname pn, Loc.onex.str), 1)] := by
      rw [enterfn_wires, hname]; rfl
    refine ⟨?_, ?_, ?_, ?_⟩
    · intro e he
      rw [hw] at he
      simp only [List.mem_append, List.mem_cons, List.not_mem_nil, or_false] at he
      rcases he with he | rfl | rfl | rfl | rfl
      · obtain ⟨p', hp', l', h1, h2⟩ := w.wires e he
        refine ⟨p', by simp [hp'], l', h1, ?_⟩
        rw [hctr p' hp']; exact h2
      · exact ⟨pn, by simp, Loc.dv, rfl, trivial⟩
      · exact ⟨pn, by simp, Loc.dw, rfl, trivial⟩
      · exact ⟨pn, by simp, Loc.dy, rfl, trivial⟩
      · exact ⟨pn, by simp, Loc.onex, rfl, trivial⟩
    · intro e he
      rw [enterfn_ios] at he
      obtain ⟨p', hp', k, h1, h2⟩ := w.ios e he
      refine ⟨p', by simp [hp'], k, h1, ?_⟩
      rw [hioctr p' hp']; exact h2
    · rw [hw, List.map_append, List.nodup_append]
      refine ⟨w.wnodup, ?_, ?_⟩
      · simp only [List.map_cons, List.map_nil, List.nodup_cons, List.mem_cons, Prod.mk.injEq, true_and,
          List.not_mem_nil, or_false, not_false_eq_true, List.nodup_nil, and_true]
        have a : Loc.dv.str ≠ Loc.dw.str := by decide
        have b : Loc.dv.str ≠ Loc.dy.str := by decide
        have c : Loc.dv.str ≠ Loc.onex.str := by decide
        have d : Loc.dw.str ≠ Loc.dy.str := by decide
        have e : Loc.dw.str ≠ Loc.onex.str := by decide
        have f : Loc.dy.str ≠ Loc.onex.str := by decide
        simp [a, b, c, d, e, f]
      · intro a ha b hb hab
        obtain ⟨e, he, rfl⟩ := List.mem_map.1 ha
        simp only [List.map_cons, List.map_nil, List.mem_cons, List.not_mem_nil, or_false] at hb
        rcases hb with rfl | rfl | rfl | rfl <;> exact w.fresh_of_new pn hT' hnew _ e he hab
    · rw [enterfn_ios]; exact w.inodup

/-! ## every event keeps the invariant -/

/-- one event, with the ghost data explicit: only `enter` makes the tree grow, by one call that was not
in it, spelled as the context `enterfn` computes -/
theorem ninv_step_tree (cfg : Cfg) (s : St) (op : Op) (T : List Path) (cur : Path) (t : TInv T cur s) (w : WInv T s) :
    ∃ T' cur', TInv T' cur' (step cfg s op) ∧ WInv T' (step cfg s op) ∧
      match op with
      | .enter fn _ _ _ _ => ∃ pn, T' = pn :: T ∧ pn ∉ T ∧ pname pn = callName fn none s
      | _ => T' = T := by
  cases op with
  | priv v =>
    obtain ⟨a1, a2, _⟩ := nm_privval t.tree cur t.cur_mem v s t.ctx w
    exact ⟨T, cur, t.mono a2, a1, rfl⟩
  | pub v =>
    obtain ⟨a1, a2⟩ := nm_pubval t.tree cur t.cur_mem v s t.ctx w
    exact ⟨T, cur, t.mono a2, a1, rfl⟩
  | con a b c =>
    obtain ⟨a1, a2, _⟩ := nm_addConstraint a b c s w
    exact ⟨T, cur, t.mono a2, a1, rfl⟩
  | guard g =>
    exact ⟨T, cur, t.mono (Mono.of_eq rfl rfl rfl rfl), w.congr rfl rfl (fun _ => Nat.le_refl _) (fun _ => Nat.le_refl _), rfl⟩
  | abort =>
    cases hst : s.stack with
    | nil =>
      have e : step cfg s .abort = s := by simp [step, hst]
      rw [e]; exact ⟨T, cur, t, w, rfl⟩
    | cons f rest =>
      have e : step cfg s .abort = { s with stack := rest } := by simp [step, hst]
      rw [e]
      refine ⟨T, cur, ⟨t.tree, t.cur_mem, t.ctx, ?_, t.child_le, t.child_lt⟩,
        w.congr rfl rfl (fun _ => Nat.le_refl _) (fun _ => Nat.le_refl _), rfl⟩
      intro f' hf'
      exact t.frames f' (by rw [hst]; simp [show f' ∈ rest from hf'])
  | enter fn args d1 d2 d3 =>
    obtain ⟨t1, w1⟩ := nm_enterfn t w fn d1 d2 d3
    let pn : Path := (dget s.ctr s.ctx, fn) :: cur
    obtain ⟨w2, m2⟩ := nm_copyArgs t1.tree pn t1.cur_mem args (enterfn fn none d1 d2 d3 s) t1.ctx w1
    have t2 := t1.mono m2
    have e : step cfg s (.enter fn args d1 d2 d3) =
        { (copyArgs args (enterfn fn none d1 d2 d3 s)).2 with
          stack := ⟨s.ctx, (enterfn fn none d1 d2 d3 s).ctx, (copyArgs args (enterfn fn none d1 d2 d3 s)).1⟩ ::
            (copyArgs args (enterfn fn none d1 d2 d3 s)).2.stack } := rfl
    rw [e]
    refine ⟨pn :: T, pn, ⟨t2.tree, t2.cur_mem, t2.ctx, ?_, t2.child_le, t2.child_lt⟩,
      w2.congr rfl rfl (fun _ => Nat.le_refl _) (fun _ => Nat.le_refl _),
      ⟨pn, rfl, (tree_enter t fn).2, (callName_eq fn s cur t.ctx).symm⟩⟩
    intro f hf
    simp only [List.mem_cons] at hf
    rcases hf with rfl | hf
    · exact ⟨cur, by simp [t.cur_mem], pn, by simp, t.ctx, t1.ctx⟩
    · exact t2.frames f hf
  | leave rets rndv r2a r2b =>
    cases hst : s.stack with
    | nil =>
      have e : step cfg s (.leave rets rndv r2a r2b) = s := by simp [step, hst]
      rw [e]; exact ⟨T, cur, t, w, rfl⟩
    | cons f rest =>
      rw [leave_eq cfg s f rest hst]
      obtain ⟨q, hq, q', hq', e1, e2⟩ := t.frames f (by rw [hst]; simp)
      let s1 := continuefn f.old { s with stack := rest }
      have w1 : WInv T s1 := nm_bump _ f.old (w.congr rfl rfl (fun _ => Nat.le_refl _) (fun _ => Nat.le_refl _))
      have t1 : TInv T q s1 := by
        refine ⟨t.tree, hq, e1, ?_, ?_, ?_⟩
        · intro f' hf'
          exact t.frames f' (by rw [hst]; simp [show f' ∈ rest from hf'])
        · intro n g p hp
          exact Nat.le_trans (t.child_le n g p hp) (dget_bump_le f.old _ _)
        · intro n g hp
          have := t.child_le n g q hp
          show n < dget (bump f.old { s with stack := rest, ctx := f.old }).ctr (pname q)
          rw [dget_bump, e1]
          simp only [if_true]
          exact Nat.lt_succ_of_le this
      obtain ⟨w2, m2⟩ := nm_copyRets t.tree q hq rets s1 e1 w1
      have t2 := t1.mono m2
      have hg := nm_vcGlue t.tree q q' hq hq' cfg (f.argret ++ (copyRets rets s1).1) rndv r2a r2b
        (copyRets rets s1).2 w2
      rw [← e1, ← e2] at hg
      exact ⟨T, q, t2.mono hg.2, hg.1, rfl⟩

theorem ninv_step (cfg : Cfg) (s : St) (op : Op) (h : NInv s) : NInv (step cfg s op) := by
  obtain ⟨T, cur, t, w⟩ := h
  obtain ⟨T', cur', t', w', _⟩ := ninv_step_tree cfg s op T cur t w
  exact ⟨T', cur', t', w'⟩

theorem ninv_runFrom (cfg : Cfg) (ops : List Op) : ∀ s, NInv s → NInv (runFrom cfg s ops) := by
  induction ops with
  | nil => intro s h; exact h
  | cons o ops ih => intro s h; exact ih _ (ninv_step cfg s o h)

theorem ninv_init (d1 d2 d3 : Int) : NInv (St.init d1 d2 d3) := by
  refine ⟨[[]], [], ⟨⟨?_, ?_⟩, by simp, rfl, by simp [St.init], ?_, ?_⟩, ⟨?_, ?_, ?_, ?_⟩⟩
  · intro e q hm; simp at hm
  · intro n f f' q hm; simp at hm
  · intro n f q hm; simp at hm
  · intro n f hm; simp at hm
  · intro e he
    simp only [St.init, enterfn_wires, callName, List.nil_append, List.mem_cons, List.not_mem_nil, or_false] at he
    rcases he with rfl | rfl | rfl | rfl
    · exact ⟨[], by simp, Loc.dv, rfl, trivial⟩
    · exact ⟨[], by simp, Loc.dw, rfl, trivial⟩
    · exact ⟨[], by simp, Loc.dy, rfl, trivial⟩
    · exact ⟨[], by simp, Loc.onex, rfl, trivial⟩
  · intro e he; simp [St.init] at he
  · simp only [St.init, enterfn_wires, callName, List.nil_append]
    simp
  · simp [St.init]

theorem ninv_run (cfg : Cfg) (d1 d2 d3 : Int) (ops : List Op) : NInv (run cfg d1 d2 d3 ops) :=
  ninv_runFrom cfg ops _ (ninv_init d1 d2 d3)

/-! ## from the invariant to the decidable check on the files -/

theorem keysOk_iff (L : List (WireName × Int)) :
    keysOk L = true ↔ (L.map Prod.fst).Nodup ∧ ∀ k ∈ L.map Prod.fst, k.2 ≠ "one" := by
  induction L with
  | nil => simp [keysOk]
  | cons e L ih =>
    obtain ⟨k, v⟩ := e
    simp only [keysOk, Bool.and_eq_true, bne_iff_ne, ne_eq, Bool.not_eq_true', List.any_eq_false, beq_iff_eq, ih,
      List.map_cons, List.nodup_cons, List.mem_map, List.mem_cons, forall_eq_or_imp]
    constructor
    · rintro ⟨⟨h1, h2⟩, h3, h4⟩
      refine ⟨⟨?_, h3⟩, h1, h4⟩
      rintro ⟨a, ha, rfl⟩
      exact h2 a ha rfl
    · rintro ⟨⟨h1, h3⟩, h2, h4⟩
      refine ⟨⟨h2, ?_⟩, h3, h4⟩
      intro a ha he
      exact h1 ⟨a, ha, he⟩

/-- the names of the wire file and of the I/O file are pairwise distinct and none is called `one` -/
theorem keysOk_of_ninv (s : St) (h : NInv s) : keysOk (s.wires ++ s.ios) = true := by
  obtain ⟨T, cur, t, w⟩ := h
  rw [keysOk_iff, List.map_append, List.nodup_append]
  refine ⟨⟨w.wnodup, w.inodup, ?_⟩, ?_⟩
  · intro a ha b hb hab
    obtain ⟨e, he, rfl⟩ := List.mem_map.1 ha
    obtain ⟨e', he', rfl⟩ := List.mem_map.1 hb
    obtain ⟨p, _, l, h1, h2⟩ := w.wires e he
    obtain ⟨p', _, k, h1', _⟩ := w.ios e' he'
    rw [h1, h1'] at hab
    simp only [Prod.mk.injEq] at hab
    have := Loc.str_inj _ _ hab.2
    subst this
    exact h2
  · intro k hk
    simp only [List.mem_append, List.mem_map] at hk
    rcases hk with ⟨e, he, rfl⟩ | ⟨e, he, rfl⟩
    · obtain ⟨p, _, l, h1, _⟩ := w.wires e he
      rw [h1]; exact l.str_ne_one
    · obtain ⟨p, _, k, h1, _⟩ := w.ios e he
      rw [h1]; exact (Loc.out k).str_ne_one

end Pysnark.Qaptools
