import PysnarkModel.Lemmas.QaptoolsEq
import Mathlib.Data.List.Forall2
/-!
# Invariants of the qaptools emitters over all histories
-/
namespace Pysnark.Qaptools
open Pysnark.QapEq

/-! ## the files a run is judged against -/

/-- modulus, wire file, I/O file -/
structure Env where
  p : Int
  W : List (WireName × Int)
  IO : List (WireName × Int)

def Env.asg (E : Env) : Asg := asgOf E.W E.IO

/-- names pairwise distinct, none called `one` (decidable; checked on the real files by the oracle) -/
def keysOk : List (WireName × Int) → Bool
  | [] => true
  | (k, _) :: r => k.2 != "one" && !(r.any (·.1 == k)) && keysOk r

def Env.ok (E : Env) : Prop := keysOk (E.W ++ E.IO) = true

theorem lookupW_of_mem (L : List (WireName × Int)) (h : keysOk L = true) (k : WireName) (v : Int)
    (hm : (k, v) ∈ L) : lookupW k L = some v ∧ k.2 ≠ "one" := by
  induction L with
  | nil => simp at hm
  | cons e L ih =>
    obtain ⟨k', v'⟩ := e
    simp only [keysOk, Bool.and_eq_true, bne_iff_ne, ne_eq, Bool.not_eq_true', List.any_eq_false,
      beq_iff_eq] at h
    obtain ⟨⟨h1, h2⟩, h3⟩ := h
    simp only [List.mem_cons, Prod.mk.injEq] at hm
    rcases hm with ⟨rfl, rfl⟩ | hm
    · simp [lookupW, h1]
    · have hne : k' ≠ k := by
        intro he; subst he
        exact h2 (k', v) hm rfl
      have := ih h3 hm
      simp [lookupW, hne, this.1, this.2]

theorem asg_of_mem (E : Env) (h : E.ok) (k : WireName) (v : Int) (hm : (k, v) ∈ E.W ++ E.IO) :
    E.asg k = some v := by
  have := lookupW_of_mem _ h k v hm
  simp [Env.asg, asgOf, this.1, this.2]

/-- the files extend what state `s` has written -/
def Ext (s : St) (E : Env) : Prop := (∀ e ∈ s.wires, e ∈ E.W) ∧ (∀ e ∈ s.ios, e ∈ E.IO)

/-- the traced constraint `a * b = c` holds modulo `p` on the values of the files -/
def ConHold (E : Env) (c : Sig × Sig × Sig) : Prop :=
  Stmt.holds E.p E.asg (.mul c.1 c.2.1 c.2.2) = some true

/-- value and wire expression of a `LinComb` agree modulo `p` on the values of the files (C04) -/
def Coherent (E : Env) (x : LC) : Prop := ∃ v, evalLC E.asg x.sig = some v ∧ v % E.p = x.value % E.p

def Trust (E : Env) (cons : List (Sig × Sig × Sig)) (Ls : List LC) : Prop :=
  (∀ c ∈ cons, ConHold E c) ∧ (∀ x ∈ Ls, Coherent E x)

def Good (E : Env) (l : Line) : Prop := holds E.p E.asg "" l = true

/-- what a history is judged under: the modulus, its traced constraints and the `LinComb`s that
cross call boundaries -/
structure Hyp where
  p : Int
  cons : List (Sig × Sig × Sig)
  Ls : List LC

/-- line `l` is true under every pair of files that extends state `s`, has proper names, and on
which the traced constraints hold and the call arguments/results are coherent -/
def GoodAll (K : Hyp) (s : St) (l : Line) : Prop :=
  ∀ E : Env, E.p = K.p → E.ok → Ext s E → Trust E K.cons K.Ls → Good E l

theorem Ext.mono {s s' : St} {E : Env} (hw : ∀ e ∈ s.wires, e ∈ s'.wires) (hi : ∀ e ∈ s.ios, e ∈ s'.ios)
    (h : Ext s' E) : Ext s E := ⟨fun e he => h.1 e (hw e he), fun e he => h.2 e (hi e he)⟩

theorem GoodAll.mono {K : Hyp} {s s' : St} {l : Line} (hw : ∀ e ∈ s.wires, e ∈ s'.wires)
    (hi : ∀ e ∈ s.ios, e ∈ s'.ios) (h : GoodAll K s l) : GoodAll K s' l :=
  fun E hp hok hext ht => h E hp hok (Ext.mono hw hi hext) ht

/-! ## goodness of each kind of line -/

theorem good_directive (E : Env) (s : String) (r : List Tok) (h : isDirective s = true) :
    Good E (.sym s :: r) := by
  simp [Good, holds, parseLine_directive _ s r h, Stmt.holds]

theorem good_con (E : Env) (a b c : Sig) (h : ConHold E (a, b, c)) : Good E (conLine a b c) := by
  simp only [Good, holds, parseLine_conLine]
  simp only [ConHold] at h
  simp [h]

theorem good_pubLine (E : Env) (hok : E.ok) (sid sido : WireName) (v : Int)
    (h1 : (sid, v) ∈ E.W) (h2 : (sido, v) ∈ E.IO) : Good E (pubLine sid sido) := by
  have a1 := asg_of_mem E hok sid v (by simp [h1])
  have a2 := asg_of_mem E hok sido v (by simp [h2])
  simp only [Good, holds, pubLine_eq, parseLine_lin, Stmt.holds, evalLC, a1, a2]
  simp

theorem good_oneLine (E : Env) (hok : E.ok) (call : String) (h1 : ((call, "onex"), 1) ∈ E.W) :
    Good E (oneLine call) := by
  have a1 := asg_of_mem E hok (call, "onex") 1 (by simp [h1])
  have a0 : E.asg (call, "one") = some 1 := by simp [Env.asg, asgOf]
  simp only [Good, holds, oneLine_eq, parseLine_lin, Stmt.holds, evalLC, a1, a0]
  simp

/-- the equation written by `ensure_single`: `0 * 0 = ret - x` -/
theorem good_ensure (E : Env) (hok : E.ok) (sid : WireName) (x : LC) (h1 : (sid, x.value) ∈ E.W)
    (hc : Coherent E x) : Good E (conLine [] [] (Sig.sub E.p [(1, sid)] x.sig)) := by
  have a1 := asg_of_mem E hok sid x.value (by simp [h1])
  obtain ⟨u, hu, hm⟩ := hc
  obtain ⟨v, hv, hvm⟩ := evalLC_neg E.p E.asg x.sig u hu
  have e1 : evalLC E.asg [(1, sid)] = some (1 * x.value + 0) := by simp [evalLC, a1]
  have e2 := evalLC_append E.asg [(1, sid)] (Sig.neg E.p x.sig) _ _ e1 hv
  apply good_con
  simp only [ConHold, Stmt.holds, Sig.sub, Sig.add, e2, evalLC]
  simp only [Option.some.injEq, decide_eq_true_eq]
  have : (1 * x.value + 0 + v) % E.p = 0 := by
    have e : (1 * x.value + 0 + v) = (v + u) + (x.value - u) := by ring
    rw [e, Int.add_emod, hvm]
    have : (x.value - u) % E.p = 0 := by
      rw [Int.sub_emod, hm]; simp
    rw [this]; simp
  have e3 : (1 * x.value + 0 + v) = x.value + v := by ring
  rw [e3] at this
  simp [this]

/-- the first equation written by `ensure_single` under an active guard: `0 * 0 = ret - x + dummy`,
`dummy` holding 0 -/
theorem good_ensure_guarded (E : Env) (hok : E.ok) (sid dm : WireName) (x : LC) (h1 : (sid, x.value) ∈ E.W)
    (h2 : (dm, 0) ∈ E.W) (hc : Coherent E x) :
    Good E (conLine [] [] (Sig.add (Sig.sub E.p [(1, sid)] x.sig) [(1, dm)])) := by
  have a1 := asg_of_mem E hok sid x.value (by simp [h1])
  have a2 := asg_of_mem E hok dm 0 (by simp [h2])
  obtain ⟨u, hu, hm⟩ := hc
  obtain ⟨v, hv, hvm⟩ := evalLC_neg E.p E.asg x.sig u hu
  have e1 : evalLC E.asg [(1, sid)] = some (1 * x.value + 0) := by simp [evalLC, a1]
  have e2 := evalLC_append E.asg [(1, sid)] (Sig.neg E.p x.sig) _ _ e1 hv
  have e3 : evalLC E.asg [(1, dm)] = some (1 * 0 + 0) := by simp [evalLC, a2]
  have e4 := evalLC_append E.asg ([(1, sid)] ++ Sig.neg E.p x.sig) [(1, dm)] _ _ e2 e3
  apply good_con
  simp only [ConHold, Stmt.holds, Sig.sub, Sig.add, e4, evalLC]
  simp only [Option.some.injEq, decide_eq_true_eq]
  have : (1 * x.value + 0 + v) % E.p = 0 := by
    have e : (1 * x.value + 0 + v) = (v + u) + (x.value - u) := by ring
    rw [e, Int.add_emod, hvm]
    have : (x.value - u) % E.p = 0 := by
      rw [Int.sub_emod, hm]; simp
    rw [this]; simp
  have e5 : (1 * x.value + 0 + v + (1 * 0 + 0)) = 1 * x.value + 0 + v := by ring
  rw [e5, this]
  simp

/-- the second equation written by `ensure_single` under an active guard: `guard * dummy = 0` -/
theorem good_guard_dummy (E : Env) (hok : E.ok) (dm : WireName) (g : LC) (h2 : (dm, 0) ∈ E.W)
    (hc : Coherent E g) : Good E (conLine g.sig [(1, dm)] []) := by
  have a2 := asg_of_mem E hok dm 0 (by simp [h2])
  obtain ⟨u, hu, _⟩ := hc
  apply good_con
  simp [ConHold, Stmt.holds, hu, evalLC, a2]

/-! ## extension steps -/

/-- `s'` extends `s`: files grow by appending, every new equation line is good, and the flush
pointer moves forward and stays within the file -/
def Step (K : Hyp) (s s' : St) : Prop :=
  (∃ nw, s'.wires = s.wires ++ nw) ∧ (∃ ni, s'.ios = s.ios ++ ni) ∧
  (∃ ne, s'.eqs = s.eqs ++ ne ∧ ∀ l ∈ ne, GoodAll K s' l) ∧
  (s.flushed ≤ s.eqs.length → s'.flushed ≤ s'.eqs.length ∧ s.flushed ≤ s'.flushed)

theorem Step.refl {K : Hyp} (s : St) : Step K s s :=
  ⟨⟨[], by simp⟩, ⟨[], by simp⟩, ⟨[], by simp, by simp⟩, fun h => ⟨h, Nat.le_refl _⟩⟩

theorem Step.wires_sub {K : Hyp} {s s' : St} (h : Step K s s') : ∀ e ∈ s.wires, e ∈ s'.wires := by
  obtain ⟨⟨nw, w⟩, _⟩ := h
  intro e he; rw [w]; simp [he]

theorem Step.ios_sub {K : Hyp} {s s' : St} (h : Step K s s') : ∀ e ∈ s.ios, e ∈ s'.ios := by
  obtain ⟨_, ⟨ni, i⟩, _⟩ := h
  intro e he; rw [i]; simp [he]

theorem Step.eqs_sub {K : Hyp} {s s' : St} (h : Step K s s') : ∀ e ∈ s.eqs, e ∈ s'.eqs := by
  obtain ⟨_, _, ⟨ne, e, _⟩, _⟩ := h
  intro x hx; rw [e]; simp [hx]

theorem Step.trans {K : Hyp} {s s' s'' : St} (h1 : Step K s s') (h2 : Step K s' s'') :
    Step K s s'' := by
  have hw := h2.wires_sub
  have hi := h2.ios_sub
  obtain ⟨⟨nw1, w1⟩, ⟨ni1, i1⟩, ⟨ne1, e1, g1⟩, f1⟩ := h1
  obtain ⟨⟨nw2, w2⟩, ⟨ni2, i2⟩, ⟨ne2, e2, g2⟩, f2⟩ := h2
  refine ⟨⟨nw1 ++ nw2, by simp [w2, w1]⟩, ⟨ni1 ++ ni2, by simp [i2, i1]⟩,
    ⟨ne1 ++ ne2, by simp [e2, e1], ?_⟩, ?_⟩
  · intro l hl
    rcases List.mem_append.1 hl with hl | hl
    · exact (g1 l hl).mono hw hi
    · exact g2 l hl
  · intro h
    obtain ⟨a1, b1⟩ := f1 h
    obtain ⟨a2, b2⟩ := f2 a1
    exact ⟨a2, Nat.le_trans b1 b2⟩

/-- a step given by its effect on the fields -/
theorem Step.of_fields {K : Hyp} {s s' : St} (nw ni : List (WireName × Int)) (ne : List Line)
    (hw : s'.wires = s.wires ++ nw) (hi : s'.ios = s.ios ++ ni) (he : s'.eqs = s.eqs ++ ne)
    (hf : s'.flushed = s.flushed ∨ s'.flushed = s'.eqs.length)
    (hg : ∀ l ∈ ne, GoodAll K s' l) : Step K s s' := by
  refine ⟨⟨nw, hw⟩, ⟨ni, hi⟩, ⟨ne, he, hg⟩, ?_⟩
  intro h
  have hl : s.eqs.length ≤ s'.eqs.length := by rw [he]; simp
  constructor
  · rcases hf with hf | hf <;> omega
  · rcases hf with hf | hf <;> omega

/-! ## field effects of the primitives -/

/-- the name `privval`/`pubval` give to the next wire -/
def nextSid (s : St) : WireName := (s.ctx, toString (dget (bump s.ctx s).ctr s.ctx))

theorem privval_eq (v : Int) (s : St) :
    privval v s = ([(1, nextSid s)], printwire v (nextSid s) (bump s.ctx s)) := rfl

@[simp] theorem privval_wires (v : Int) (s : St) : (privval v s).2.wires = s.wires ++ [(nextSid s, v)] := rfl
@[simp] theorem privval_ios (v : Int) (s : St) : (privval v s).2.ios = s.ios := rfl
@[simp] theorem privval_eqs (v : Int) (s : St) : (privval v s).2.eqs = s.eqs := rfl
@[simp] theorem privval_flushed (v : Int) (s : St) : (privval v s).2.flushed = s.flushed := rfl
@[simp] theorem privval_ctx (v : Int) (s : St) : (privval v s).2.ctx = s.ctx := rfl
@[simp] theorem privval_stack (v : Int) (s : St) : (privval v s).2.stack = s.stack := rfl
@[simp] theorem privval_fst (v : Int) (s : St) : (privval v s).1 = [(1, nextSid s)] := rfl

theorem step_privval {K : Hyp} (v : Int) (s : St) : Step K s (privval v s).2 :=
  Step.of_fields [(nextSid s, v)] [] [] (by simp) (by simp) (by simp) (Or.inl (by simp)) (by simp)

/-- the I/O name `pubval` gives -/
def nextSido (s : St) : WireName :=
  (s.ctx, "o_" ++ toString (dget (dset s.ioctr s.ctx (dget s.ioctr s.ctx + 1)) s.ctx))

@[simp] theorem pubval_wires (v : Int) (s : St) : (pubval v s).2.wires = s.wires ++ [(nextSid s, v)] := rfl
@[simp] theorem pubval_ios (v : Int) (s : St) : (pubval v s).2.ios = s.ios ++ [(nextSido s, v)] := rfl
@[simp] theorem pubval_eqs (v : Int) (s : St) :
    (pubval v s).2.eqs = s.eqs ++ [pubLine (nextSid s) (nextSido s)] := rfl
@[simp] theorem pubval_flushed (v : Int) (s : St) : (pubval v s).2.flushed = (pubval v s).2.eqs.length := rfl
@[simp] theorem pubval_ctx (v : Int) (s : St) : (pubval v s).2.ctx = s.ctx := rfl
@[simp] theorem pubval_stack (v : Int) (s : St) : (pubval v s).2.stack = s.stack := rfl

theorem step_pubval {K : Hyp} (v : Int) (s : St) : Step K s (pubval v s).2 := by
  refine Step.of_fields [(nextSid s, v)] [(nextSido s, v)] [pubLine (nextSid s) (nextSido s)]
    (by simp) (by simp) (by simp) (Or.inr (by simp)) ?_
  intro l hl E _ hok hext _
  simp only [List.mem_singleton] at hl
  subst hl
  exact good_pubLine E hok _ _ v (hext.1 _ (by simp)) (hext.2 _ (by simp))

@[simp] theorem addConstraint_wires (a b c : Sig) (s : St) : (addConstraint a b c s).wires = s.wires := rfl
@[simp] theorem addConstraint_ios (a b c : Sig) (s : St) : (addConstraint a b c s).ios = s.ios := rfl
@[simp] theorem addConstraint_eqs (a b c : Sig) (s : St) : (addConstraint a b c s).eqs = s.eqs ++ [conLine a b c] := rfl
@[simp] theorem addConstraint_flushed (a b c : Sig) (s : St) : (addConstraint a b c s).flushed = s.flushed := rfl
@[simp] theorem addConstraint_ctx (a b c : Sig) (s : St) : (addConstraint a b c s).ctx = s.ctx := rfl
@[simp] theorem addConstraint_stack (a b c : Sig) (s : St) : (addConstraint a b c s).stack = s.stack := rfl

theorem step_con {K : Hyp} (a b c : Sig) (s : St) (h : (a, b, c) ∈ K.cons) :
    Step K s (addConstraint a b c s) := by
  refine Step.of_fields [] [] [conLine a b c] (by simp) (by simp) (by simp) (Or.inl (by simp)) ?_
  intro l hl E _ _ _ ht
  simp only [List.mem_singleton] at hl
  subst hl
  exact good_con E a b c (ht.1 _ h)

/-- the call name `enterfn` computes -/
def callName (fname : String) (call : Option String) (s : St) : String :=
  match call with
  | some c => c
  | none => s.ctx ++ "_" ++ toString (dget s.ctr s.ctx) ++ "_" ++ fname

@[simp] theorem enterfn_wires (fname : String) (call : Option String) (d1 d2 d3 : Int) (s : St) :
    (enterfn fname call d1 d2 d3 s).wires = s.wires ++
      [((callName fname call s, "deltav"), d1), ((callName fname call s, "deltaw"), d2),
       ((callName fname call s, "deltay"), d3), ((callName fname call s, "onex"), 1)] := by
  cases call <;> simp [enterfn, callName, printwire, emit]
@[simp] theorem enterfn_ios (fname : String) (call : Option String) (d1 d2 d3 : Int) (s : St) :
    (enterfn fname call d1 d2 d3 s).ios = s.ios := by
  cases call <;> rfl
@[simp] theorem enterfn_eqs (fname : String) (call : Option String) (d1 d2 d3 : Int) (s : St) :
    (enterfn fname call d1 d2 d3 s).eqs = s.eqs ++
      [functionLine fname (callName fname call s), oneLine (callName fname call s)] := by
  cases call <;> simp [enterfn, callName, printwire, emit]
@[simp] theorem enterfn_flushed (fname : String) (call : Option String) (d1 d2 d3 : Int) (s : St) :
    (enterfn fname call d1 d2 d3 s).flushed = s.flushed := by
  cases call <;> rfl
@[simp] theorem enterfn_ctx (fname : String) (call : Option String) (d1 d2 d3 : Int) (s : St) :
    (enterfn fname call d1 d2 d3 s).ctx = callName fname call s := by
  cases call <;> rfl
@[simp] theorem enterfn_stack (fname : String) (call : Option String) (d1 d2 d3 : Int) (s : St) :
    (enterfn fname call d1 d2 d3 s).stack = s.stack := by
  cases call <;> rfl

theorem step_enterfn {K : Hyp} (fname : String) (call : Option String) (d1 d2 d3 : Int) (s : St) :
    Step K s (enterfn fname call d1 d2 d3 s) := by
  refine Step.of_fields _ [] _ (enterfn_wires ..) (by simp) (enterfn_eqs ..) (Or.inl (by simp)) ?_
  intro l hl E _ hok hext _
  simp only [List.mem_cons, List.not_mem_nil, or_false] at hl
  rcases hl with rfl | rfl
  · exact good_directive E _ _ (by decide)
  · exact good_oneLine E hok _ (hext.1 _ (by simp))

end Pysnark.Qaptools
