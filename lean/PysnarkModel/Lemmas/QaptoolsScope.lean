import PysnarkModel.Lemmas.QaptoolsSplit
import PysnarkModel.Lemmas.QaptoolsHist
/-!
# When `qapsplit` cannot fail on contexts: histories that respect the function contexts
-/
namespace Pysnark.Qaptools
open Pysnark.QapEq

/-- all wires of the linear combination live in context `c` -/
def sigIn (c : String) (s : Sig) : Bool := s.all fun cw => cw.2.1 == c

/-- the event respects the context it happens in: traced equations, `LinComb` arguments (at the call)
and `LinComb` results (at the return) mention only wires of the current context, the call on top of
the stack has at least one `LinComb` argument or result, no guard is in effect when a call returns
(`ensure_single` would tie its fresh wires to the guard, whose wires live in ONE context while the two
blocks live in two), and no body raises (`vc_ctx` is not restored by an exception) -/
def scopedOp (s : St) : Op → Bool
  | .con a b c => sigIn s.ctx a && sigIn s.ctx b && sigIn s.ctx c
  | .enter _ args _ _ _ => args.all fun a => !isL a || sigIn s.ctx a.lc.sig
  | .leave rets _ _ _ =>
    (rets.all fun a => !isL a || sigIn s.ctx a.lc.sig) &&
    (match s.stack with
     | f :: _ => !f.argret.isEmpty || rets.any isL
     | [] => true) && s.guard.isNone
  | .abort => false
  | _ => true

/-- every event of the history respects the context it happens in (decidable: runs the model) -/
def scopedFrom (cfg : Cfg) : St → List Op → Bool
  | _, [] => true
  | s, o :: r => scopedOp s o && scopedFrom cfg (step cfg s o) r

/-! ## `strip` -/

theorem stripL_suffix (l : List Tok) : ∃ pre, l = pre ++ stripL l := by
  induction l with
  | nil => exact ⟨[], rfl⟩
  | cons t l ih =>
    cases t with
    | sym s =>
      by_cases h : s = ""
      · obtain ⟨pre, hp⟩ := ih
        refine ⟨.sym s :: pre, ?_⟩
        simp only [stripL, h, if_true, List.cons_append, List.cons.injEq, true_and]
        exact hp
      · exact ⟨[], by simp [stripL, h]⟩
    | num v => exact ⟨[], rfl⟩
    | wire x n => exact ⟨[], rfl⟩
    | loc x => exact ⟨[], rfl⟩

theorem stripL_subset (l : List Tok) : ∀ t ∈ stripL l, t ∈ l := by
  obtain ⟨pre, hp⟩ := stripL_suffix l
  intro t ht
  rw [hp]; simp [ht]

theorem strip_subset (l : List Tok) : ∀ t ∈ strip l, t ∈ l := by
  intro t ht
  simp only [strip, List.mem_reverse] at ht
  have := stripL_subset _ t ht
  simp only [List.mem_reverse] at this
  exact stripL_subset _ t this

theorem stripL_self (t : Tok) (r : List Tok) (h : t ≠ .sym "") : stripL (t :: r) = t :: r := by
  cases t with
  | sym s =>
    have : s ≠ "" := by intro e; exact h (by rw [e])
    simp [stripL, this]
  | num v => rfl
  | wire x n => rfl
  | loc x => rfl

theorem strip_self (t : Tok) (m : List Tok) (u : Tok) (h1 : t ≠ .sym "") (h2 : u ≠ .sym "") :
    strip (t :: (m ++ [u])) = t :: (m ++ [u]) := by
  unfold strip
  rw [stripL_self t _ h1]
  have : (t :: (m ++ [u])).reverse = u :: (m.reverse ++ [t]) := by simp
  rw [this, stripL_self u _ h2]
  simp

theorem stripL_snoc (X : List Tok) (t : Tok) (h : t ≠ .sym "") : ∃ X', stripL (X ++ [t]) = X' ++ [t] := by
  induction X with
  | nil => exact ⟨[], by simp [stripL_self t [] h]⟩
  | cons y X ih =>
    by_cases hy : y = .sym ""
    · subst hy
      obtain ⟨X', hX⟩ := ih
      exact ⟨X', by simpa [stripL] using hX⟩
    · exact ⟨y :: X, by rw [List.cons_append, stripL_self y _ hy]⟩

/-- a line that starts with a non-empty symbol keeps it under `strip` -/
theorem strip_head (s : String) (r : List Tok) (h : s ≠ "") : ∃ r', strip (.sym s :: r) = .sym s :: r' := by
  have hne : Tok.sym s ≠ .sym "" := by intro e; injection e with e; exact h e
  unfold strip
  rw [stripL_self _ _ hne]
  have : (Tok.sym s :: r).reverse = r.reverse ++ [.sym s] := by simp
  rw [this]
  obtain ⟨X', hX⟩ := stripL_snoc r.reverse (.sym s) hne
  rw [hX]
  exact ⟨X'.reverse, by simp⟩

theorem mem_ctxsOf (l : List Tok) (x : String) : x ∈ ctxsOf l ↔ ∃ n, Tok.wire x n ∈ l := by
  induction l with
  | nil => simp [ctxsOf]
  | cons t l ih =>
    rcases tok_cases t with ⟨y, m, rfl⟩ | hne
    · rw [ctxsOf_wire]
      simp only [List.mem_cons, ih, Tok.wire.injEq]
      constructor
      · rintro (rfl | ⟨n, hn⟩)
        · exact ⟨m, Or.inl ⟨rfl, rfl⟩⟩
        · exact ⟨n, Or.inr hn⟩
      · rintro ⟨n, (⟨rfl, _⟩ | hn)⟩
        · exact Or.inl rfl
        · exact Or.inr ⟨n, hn⟩
    · rw [ctxsOf_other _ _ hne, ih]
      constructor
      · rintro ⟨n, hn⟩; exact ⟨n, by simp [hn]⟩
      · rintro ⟨n, hn⟩
        simp only [List.mem_cons] at hn
        rcases hn with rfl | hn
        · exact absurd rfl (hne x n)
        · exact ⟨n, hn⟩

/-! ## lines that `splitLine` accepts in every state of the loop -/

def LineOK (l : Line) : Prop := ∀ a : Acc, ∃ a', splitLine a l = .ok a'

/-- a token that is not a directive keyword -/
def plainTok : Tok → Bool
  | .sym s => !isDirective s
  | _ => true

theorem isEquation_of_plain (l : Line) (h : ∀ t ∈ l, plainTok t = true) : isEquation l = true := by
  cases l with
  | nil => rfl
  | cons t r =>
    have := h t (by simp)
    cases t with
    | sym s => simpa [isEquation, plainTok] using this
    | num v => rfl
    | wire x n => rfl
    | loc x => rfl

theorem lineOK_of_equation (l : Line) (k0 : String) (h1 : ∀ t ∈ l, plainTok t = true)
    (h2 : ∀ x n, Tok.wire x n ∈ l → x = k0) : LineOK l := by
  intro a
  have hq : isEquation (strip l) = true := isEquation_of_plain _ (fun t ht => h1 t (strip_subset l t ht))
  have hc : contextualize (strip l) = .ok (lineKey (strip l), stripCtx (strip l)) := by
    apply contextualize_of_same _ k0
    intro x hx
    obtain ⟨n, hn⟩ := (mem_ctxsOf _ x).1 hx
    exact h2 x n (strip_subset l _ hn)
  unfold splitLine
  split
  · exact ⟨a, rfl⟩
  · rename_i s r hs
    rw [hs] at hq hc
    have hd : isDirective s = false := by simpa [isEquation] using hq
    have h' : s ≠ "[function]" ∧ s ≠ "[ioblock]" ∧ s ≠ "[external]" ∧ s ≠ "[glue]" := by
      refine ⟨?_, ?_, ?_, ?_⟩ <;> (intro e; subst e; simp [isDirective] at hd)
    simp only [h'.1, h'.2.1, h'.2.2.1, h'.2.2.2, if_false, hc]
    exact ⟨_, rfl⟩
  · rename_i toks _ _
    simp only [hc]
    exact ⟨_, rfl⟩

theorem mem_toks_wire (s : Sig) (x n : String) (h : Tok.wire x n ∈ Sig.toks s) : ∃ k, (k, (x, n)) ∈ s := by
  cases s with
  | nil => simp [Sig.toks_nil] at h
  | cons cw s =>
    rw [Sig.toks_cons] at h
    generalize cw :: s = s' at h
    induction s' with
    | nil => simp [Sig.toks'] at h
    | cons e s' ih =>
      rw [Sig.toks'_cons] at h
      simp only [List.mem_cons, Tok.wire.injEq] at h
      rcases h with h | ⟨h1, h2⟩ | h
      · cases h
      · exact ⟨e.1, by rw [h1, h2]; simp⟩
      · obtain ⟨k, hk⟩ := ih h
        exact ⟨k, by simp [hk]⟩

theorem plain_toks (s : Sig) : ∀ t ∈ Sig.toks s, plainTok t = true := by
  intro t ht
  have := lcTok_toks s t ht
  cases t with
  | sym x => simp only [lcTok, decide_eq_true_eq] at this; subst this; decide
  | num v => rfl
  | wire x n => rfl
  | loc x => rfl

theorem sigIn_iff (c : String) (s : Sig) : sigIn c s = true ↔ ∀ cw ∈ s, cw.2.1 = c := by
  simp [sigIn]

theorem lineOK_con (a b c : Sig) (k0 : String) (ha : sigIn k0 a = true) (hb : sigIn k0 b = true)
    (hc : sigIn k0 c = true) : LineOK (conLine a b c) := by
  apply lineOK_of_equation _ k0
  · intro t ht
    simp only [conLine, List.mem_append, List.mem_singleton] at ht
    rcases ht with ((((ht | rfl) | ht) | rfl) | ht) | rfl
    · exact plain_toks a t ht
    · decide
    · exact plain_toks b t ht
    · decide
    · exact plain_toks c t ht
    · decide
  · intro x n hx
    simp only [conLine, List.mem_append, List.mem_singleton] at hx
    rcases hx with ((((hx | hx) | hx) | hx) | hx) | hx
    · obtain ⟨k, hk⟩ := mem_toks_wire a x n hx; exact (sigIn_iff k0 a).1 ha _ hk
    · cases hx
    · obtain ⟨k, hk⟩ := mem_toks_wire b x n hx; exact (sigIn_iff k0 b).1 hb _ hk
    · cases hx
    · obtain ⟨k, hk⟩ := mem_toks_wire c x n hx; exact (sigIn_iff k0 c).1 hc _ hk
    · cases hx

theorem lineOK_pub (c n o : String) : LineOK (pubLine (c, n) (c, o)) := by
  apply lineOK_of_equation _ c
  · intro t ht; simp only [pubLine, List.mem_cons, List.not_mem_nil, or_false] at ht
    rcases ht with rfl | rfl | rfl | rfl | rfl | rfl <;> rfl
  · intro x m hx; simp only [pubLine, List.mem_cons, List.not_mem_nil, or_false] at hx
    rcases hx with hx | hx | hx | hx | hx | hx <;> cases hx <;> rfl

theorem lineOK_one (c : String) : LineOK (oneLine c) := by
  apply lineOK_of_equation _ c
  · intro t ht; simp only [oneLine, List.mem_cons, List.not_mem_nil, or_false] at ht
    rcases ht with rfl | rfl | rfl | rfl | rfl | rfl <;> rfl
  · intro x m hx; simp only [oneLine, List.mem_cons, List.not_mem_nil, or_false] at hx
    rcases hx with hx | hx | hx | hx | hx | hx <;> cases hx <;> rfl

theorem lineOK_glue (c1 b1 c2 b2 : String) : LineOK (glueLine c1 b1 c2 b2) := by
  intro a
  obtain ⟨r', hr⟩ := strip_head "[glue]" [.sym c1, .sym b1, .sym c2, .sym b2] (by decide)
  unfold splitLine glueLine
  rw [hr]
  exact ⟨_, rfl⟩

theorem lineOK_function (f c : String) (hc : c ≠ "") : LineOK (functionLine f c) := by
  intro a
  have : strip (functionLine f c) = functionLine f c := by
    have := strip_self (.sym "[function]") [.sym f] (.sym c) (by decide) (by intro e; injection e with e; exact hc e)
    simpa [functionLine] using this
  unfold splitLine
  rw [this]
  exact ⟨_, rfl⟩

/-- `y` is one term whose wire lives in context `c` -/
def Headed (c : String) (y : LC) : Prop := ∃ k w, y.sig = [(k, w)] ∧ w.1 = c

theorem headWire_of_headed (c : String) (y : LC) (h : Headed c y) : ∃ n, headWire y = .wire c n := by
  obtain ⟨k, w, hs, hw⟩ := h
  exact ⟨w.2, by simp [headWire, hs, hw]⟩

theorem lineOK_block (c bn : String) (vcs : List LC) (hne : vcs ≠ []) (h : ∀ y ∈ vcs, Headed c y) :
    LineOK (blockLine c bn vcs) := by
  intro a
  have hemp : vcs.isEmpty = false := by cases vcs <;> simp_all
  -- the wires listed
  have hw : ∀ t ∈ vcs.map headWire, ∃ n, t = .wire c n := by
    intro t ht
    obtain ⟨y, hy, rfl⟩ := List.mem_map.1 ht
    exact headWire_of_headed c y (h y hy)
  obtain ⟨m, u, hmu⟩ : ∃ m u, vcs.map headWire = m ++ [u] := by
    rcases List.eq_nil_or_concat (vcs.map headWire) with e | ⟨m, u, e⟩
    · simp at e; exact absurd e hne
    · exact ⟨m, u, by simpa using e⟩
  have hu : u ≠ .sym "" := by
    obtain ⟨n, hn⟩ := hw u (by rw [hmu]; simp)
    rw [hn]; intro e; cases e
  have hs : strip (blockLine c bn vcs) = blockLine c bn vcs := by
    have := strip_self (.sym "[ioblock]") ([.sym c, .sym bn] ++ m) u (by decide) hu
    simp only [blockLine, hemp, Bool.false_eq_true, if_false, hmu]
    simpa [List.append_assoc] using this
  have hc : contextualize (vcs.map headWire) = .ok (some c, stripCtx (vcs.map headWire)) := by
    have h1 := contextualize_of_same (vcs.map headWire) c (by
      intro x hx
      obtain ⟨n, hn⟩ := (mem_ctxsOf _ x).1 hx
      obtain ⟨n', hn'⟩ := hw _ hn
      injection hn' with e1 _)
    have hk : lineKey (vcs.map headWire) = some c := by
      apply getLast?_of_all
      · intro x hx
        obtain ⟨n, hn⟩ := (mem_ctxsOf _ x).1 hx
        obtain ⟨n', hn'⟩ := hw _ hn
        injection hn' with e1 _
        rw [e1]
      · intro e
        obtain ⟨n, hn⟩ := hw u (by rw [hmu]; simp)
        have : c ∈ ctxsOf (vcs.map headWire) := (mem_ctxsOf _ c).2 ⟨n, by rw [hmu, ← hn]; simp⟩
        rw [e] at this; simp at this
    rw [h1, hk]
  unfold splitLine
  rw [hs]
  simp only [blockLine, hemp, Bool.false_eq_true, if_false, List.cons_append, List.nil_append]
  have hne1 : ("[ioblock]" : String) ≠ "[function]" := by decide
  simp only [hne1, if_false, if_true, hc, Tok.render]
  exact ⟨_, rfl⟩

/-! ## the invariant -/

def InCtx (c : String) (x : LC) : Prop := ∀ cw ∈ x.sig, cw.2.1 = c

theorem Headed.inCtx {c : String} {y : LC} (h : Headed c y) : InCtx c y := by
  obtain ⟨k, w, hs, hw⟩ := h
  intro cw hcw
  rw [hs] at hcw
  simp only [List.mem_singleton] at hcw
  rw [hcw]; exact hw

/-- the stack is a chain of contexts: the current context is the callee of the top frame, whose
caller is the callee of the next frame -/
def Chain : String → List Frame → Prop
  | _, [] => True
  | c, f :: r => c = f.new ∧ Chain f.old r

def FrameScoped (f : Frame) : Prop := ∀ ab ∈ f.argret, InCtx f.old ab.1 ∧ Headed f.new ab.2

structure ScopeInv (s : St) : Prop where
  lines : ∀ l ∈ s.eqs, LineOK l
  chain : Chain s.ctx s.stack
  frames : ∀ f ∈ s.stack, FrameScoped f

/-- `s'` extends the equation file of `s` by acceptable lines and keeps context and stack -/
def ScopeStep (s s' : St) : Prop :=
  (∃ ne, s'.eqs = s.eqs ++ ne ∧ ∀ l ∈ ne, LineOK l) ∧ s'.ctx = s.ctx ∧ s'.stack = s.stack

theorem ScopeStep.refl (s : St) : ScopeStep s s := ⟨⟨[], by simp, by simp⟩, rfl, rfl⟩

theorem ScopeStep.trans {s s' s'' : St} (h1 : ScopeStep s s') (h2 : ScopeStep s' s'') : ScopeStep s s'' := by
  obtain ⟨⟨n1, e1, g1⟩, c1, k1⟩ := h1
  obtain ⟨⟨n2, e2, g2⟩, c2, k2⟩ := h2
  refine ⟨⟨n1 ++ n2, by simp [e2, e1], ?_⟩, c2.trans c1, k2.trans k1⟩
  intro l hl
  rcases List.mem_append.1 hl with hl | hl
  · exact g1 l hl
  · exact g2 l hl

theorem ScopeStep.lines {s s' : St} (h : ScopeStep s s') (hs : ∀ l ∈ s.eqs, LineOK l) : ∀ l ∈ s'.eqs, LineOK l := by
  obtain ⟨⟨n, e, g⟩, _, _⟩ := h
  intro l hl
  rw [e] at hl
  rcases List.mem_append.1 hl with hl | hl
  · exact hs l hl
  · exact g l hl

theorem nextSid_ctx (s : St) : (nextSid s).1 = s.ctx := rfl

theorem scope_privval (v : Int) (s : St) : ScopeStep s (privval v s).2 := ⟨⟨[], by simp, by simp⟩, rfl, rfl⟩

theorem sigIn_neg (c : String) (p : Int) (s : Sig) (h : sigIn c s = true) : sigIn c (Sig.neg p s) = true := by
  rw [sigIn_iff] at h ⊢
  intro cw hcw
  simp only [Sig.neg, List.mem_map] at hcw
  obtain ⟨e, he, rfl⟩ := hcw
  exact h e he

theorem ensureSingle_scope (cfg : Cfg) (x : LC) (s : St) (hx : InCtx s.ctx x) (hg : s.guard = none) :
    Headed s.ctx (ensureSingle cfg x s).1 ∧ ScopeStep s (ensureSingle cfg x s).2 := by
  cases h : isSingle cfg x with
  | true =>
    rw [ensureSingle_pos _ _ _ h]
    refine ⟨?_, ScopeStep.refl s⟩
    unfold isSingle at h
    split at h
    · rename_i c w hs
      exact ⟨c, w, hs, hx (c, w) (by rw [hs]; simp)⟩
    · cases h
  | false =>
    rw [ensureSingle_neg _ _ _ h hg]
    refine ⟨⟨1, nextSid s, rfl, rfl⟩,
      ⟨⟨[conLine [] [] (Sig.sub cfg.p [(1, nextSid s)] x.sig)], by simp, ?_⟩, rfl, rfl⟩⟩
    intro l hl
    simp only [List.mem_singleton] at hl
    subst hl
    apply lineOK_con _ _ _ s.ctx (by simp [sigIn]) (by simp [sigIn])
    have h1 : sigIn s.ctx x.sig = true := (sigIn_iff _ _).2 hx
    have h2 := sigIn_neg s.ctx cfg.p x.sig h1
    rw [sigIn_iff] at h2 ⊢
    intro cw hcw
    simp only [Sig.sub, Sig.add, List.mem_append, List.mem_singleton] at hcw
    rcases hcw with rfl | hcw
    · rfl
    · exact h2 cw hcw

theorem ensureAll_scope (cfg : Cfg) (xs : List LC) : ∀ (s : St), (∀ x ∈ xs, InCtx s.ctx x) → s.guard = none →
    (∀ y ∈ (ensureAll cfg xs s).1, Headed s.ctx y) ∧ ScopeStep s (ensureAll cfg xs s).2 := by
  induction xs with
  | nil => intro s _ _; exact ⟨by simp [ensureAll], ScopeStep.refl s⟩
  | cons x xs ih =>
    intro s hx hg
    obtain ⟨h1, h2⟩ := ensureSingle_scope cfg x s (hx x (by simp)) hg
    obtain ⟨g1, g2⟩ := ih (ensureSingle cfg x s).2 (by rw [h2.2.1]; exact fun y hy => hx y (by simp [hy]))
      (by rw [ensureSingle_guard]; exact hg)
    simp only [ensureAll]
    refine ⟨?_, h2.trans g2⟩
    intro y hy
    simp only [List.mem_cons] at hy
    rcases hy with rfl | hy
    · exact h1
    · have := g1 y hy; rwa [h2.2.1] at this

theorem declareBlock_scope (cfg : Cfg) (bn : String) (vcs : List LC) (rnd1 rnd2 : Int) (s : St)
    (hne : vcs ≠ []) (hx : ∀ x ∈ vcs, InCtx s.ctx x) (hg : s.guard = none) :
    ScopeStep s (declareBlock cfg bn vcs rnd1 rnd2 s).2 := by
  obtain ⟨h1, h2⟩ := ensureAll_scope cfg vcs s hx hg
  let s1 := (ensureAll cfg vcs s).2
  have e : (declareBlock cfg bn vcs rnd1 rnd2 s).2 =
       flush (emit (blockLine s1.ctx bn (ensureAll cfg vcs s).1)
         (printwire rnd2 (s1.ctx, "rnd2_" ++ bn) (printwire rnd1 (s1.ctx, "rnd1_" ++ bn) s1))) := rfl
  rw [e]
  refine h2.trans ⟨⟨[blockLine s1.ctx bn (ensureAll cfg vcs s).1], by simp [flush, emit, printwire, s1], ?_⟩, rfl, rfl⟩
  intro l hl
  simp only [List.mem_singleton] at hl
  subst hl
  have hc : s1.ctx = s.ctx := h2.2.1
  rw [hc]
  apply lineOK_block _ _ _ _ h1
  intro e0
  have := ensureAll_length cfg vcs s
  rw [e0] at this
  cases vcs <;> simp_all

theorem scope_setctx_bump (s : St) (c : String) :
    (bump c { s with ctx := c }).eqs = s.eqs ∧ (bump c { s with ctx := c }).ctx = c ∧
    (bump c { s with ctx := c }).stack = s.stack := ⟨rfl, rfl, rfl⟩

theorem vcGlue_scope (cfg : Cfg) (c1 c2 : String) (vals : List (LC × LC)) (rndv r2a r2b : Int) (s : St)
    (hne : vals ≠ []) (h1 : ∀ ab ∈ vals, InCtx c1 ab.1) (h2 : ∀ ab ∈ vals, InCtx c2 ab.2) (hg : s.guard = none) :
    ScopeStep s (vcGlue cfg c1 c2 vals rndv r2a r2b s) := by
  let s1 : St := { s with ctx := c1 }
  let bn1 := toString (dget s1.ctr c1)
  let s2 := bump c1 s1
  have A := declareBlock_scope cfg bn1 (vals.map Prod.fst) rndv r2a s2 (by simpa using hne)
    (by intro x hx; obtain ⟨ab, hab, rfl⟩ := List.mem_map.1 hx; exact h1 ab hab) hg
  let s3 := (declareBlock cfg bn1 (vals.map Prod.fst) rndv r2a s2).2
  let s4 : St := { s3 with ctx := c2 }
  let bn2 := toString (dget s4.ctr c2)
  let s5 := bump c2 s4
  have B := declareBlock_scope cfg bn2 (vals.map Prod.snd) rndv r2b s5 (by simpa using hne)
    (by intro x hx; obtain ⟨ab, hab, rfl⟩ := List.mem_map.1 hx; exact h2 ab hab)
    (by
      have : s5.guard = s.guard := declareBlock_guard cfg bn1 (vals.map Prod.fst) rndv r2a s2
      rw [this]; exact hg)
  let s6 := (declareBlock cfg bn2 (vals.map Prod.snd) rndv r2b s5).2
  let s7 : St := { s6 with ctx := s.ctx }
  have e : vcGlue cfg c1 c2 vals rndv r2a r2b s = flush (emit (glueLine c1 bn1 c2 bn2) s7) := rfl
  rw [e]
  obtain ⟨⟨n1, e1, g1⟩, _, k1⟩ := A
  obtain ⟨⟨n2, e2, g2⟩, _, k2⟩ := B
  refine ⟨⟨n1 ++ n2 ++ [glueLine c1 bn1 c2 bn2], ?_, ?_⟩, rfl, ?_⟩
  · show s6.eqs ++ [_] = _
    have : s6.eqs = s3.eqs ++ n2 := e2
    rw [this]
    have : s3.eqs = s.eqs ++ n1 := e1
    rw [this]; simp
  · intro l hl
    simp only [List.mem_append, List.mem_singleton] at hl
    rcases hl with (hl | hl) | rfl
    · exact g1 l hl
    · exact g2 l hl
    · exact lineOK_glue _ _ _ _
  · show s6.stack = s.stack
    have a : s6.stack = s3.stack := k2
    have b : s3.stack = s.stack := k1
    rw [a, b]

theorem copyArgs_scope (args : List Arg) : ∀ (s : St),
    (∀ ab ∈ (copyArgs args s).1, (∃ a ∈ args, isL a = true ∧ ab.1 = a.lc) ∧ Headed s.ctx ab.2) ∧
    ScopeStep s (copyArgs args s).2 := by
  induction args with
  | nil => intro s; exact ⟨by simp [copyArgs], ScopeStep.refl s⟩
  | cons a args ih =>
    intro s
    cases hk : a.kind with
    | lincomb =>
      obtain ⟨g1, g2⟩ := ih (privval a.lc.value s).2
      have e : copyArgs (a :: args) s =
          ((a.lc, ⟨a.lc.value, [(1, nextSid s)]⟩) :: (copyArgs args (privval a.lc.value s).2).1,
           (copyArgs args (privval a.lc.value s).2).2) := by
        simp [copyArgs, hk, privval_eq]
      rw [e]
      refine ⟨?_, (scope_privval _ s).trans g2⟩
      intro ab hab
      simp only [List.mem_cons] at hab
      rcases hab with rfl | hab
      · exact ⟨⟨a, by simp, by simp [isL, hk], rfl⟩, 1, nextSid s, rfl, rfl⟩
      · obtain ⟨⟨a', ha', hl, he⟩, hh⟩ := g1 ab hab
        exact ⟨⟨a', by simp [ha'], hl, he⟩, hh⟩
    | bool =>
      have e : copyArgs (a :: args) s = copyArgs args s := by simp [copyArgs, hk]
      rw [e]
      obtain ⟨g1, g2⟩ := ih s
      refine ⟨?_, g2⟩
      intro ab hab
      obtain ⟨⟨a', ha', hl, he⟩, hh⟩ := g1 ab hab
      exact ⟨⟨a', by simp [ha'], hl, he⟩, hh⟩
    | fxp =>
      have e : copyArgs (a :: args) s = copyArgs args s := by simp [copyArgs, hk]
      rw [e]
      obtain ⟨g1, g2⟩ := ih s
      refine ⟨?_, g2⟩
      intro ab hab
      obtain ⟨⟨a', ha', hl, he⟩, hh⟩ := g1 ab hab
      exact ⟨⟨a', by simp [ha'], hl, he⟩, hh⟩

theorem copyRets_scope (args : List Arg) : ∀ (s : St),
    (∀ ab ∈ (copyRets args s).1, (∃ a ∈ args, isL a = true ∧ ab.2 = a.lc) ∧ Headed s.ctx ab.1) ∧
    ScopeStep s (copyRets args s).2 ∧ ((copyRets args s).1 = [] → args.any isL = false) := by
  induction args with
  | nil => intro s; exact ⟨by simp [copyRets], ScopeStep.refl s, by simp⟩
  | cons a args ih =>
    intro s
    cases hk : a.kind with
    | lincomb =>
      obtain ⟨g1, g2, _⟩ := ih (privval a.lc.value s).2
      have e : copyRets (a :: args) s =
          ((⟨a.lc.value, [(1, nextSid s)]⟩, a.lc) :: (copyRets args (privval a.lc.value s).2).1,
           (copyRets args (privval a.lc.value s).2).2) := by
        simp [copyRets, hk, privval_eq]
      rw [e]
      refine ⟨?_, (scope_privval _ s).trans g2, by simp⟩
      intro ab hab
      simp only [List.mem_cons] at hab
      rcases hab with rfl | hab
      · exact ⟨⟨a, by simp, by simp [isL, hk], rfl⟩, 1, nextSid s, rfl, rfl⟩
      · obtain ⟨⟨a', ha', hl, he⟩, hh⟩ := g1 ab hab
        exact ⟨⟨a', by simp [ha'], hl, he⟩, hh⟩
    | bool =>
      have e : copyRets (a :: args) s = copyRets args s := by simp [copyRets, hk]
      rw [e]
      obtain ⟨g1, g2, g3⟩ := ih s
      refine ⟨?_, g2, fun h => by simp [isL, hk, g3 h]⟩
      intro ab hab
      obtain ⟨⟨a', ha', hl, he⟩, hh⟩ := g1 ab hab
      exact ⟨⟨a', by simp [ha'], hl, he⟩, hh⟩
    | fxp =>
      have e : copyRets (a :: args) s = copyRets args s := by simp [copyRets, hk]
      rw [e]
      obtain ⟨g1, g2, g3⟩ := ih s
      refine ⟨?_, g2, fun h => by simp [isL, hk, g3 h]⟩
      intro ab hab
      obtain ⟨⟨a', ha', hl, he⟩, hh⟩ := g1 ab hab
      exact ⟨⟨a', by simp [ha'], hl, he⟩, hh⟩

theorem callName_ne (fname : String) (s : St) : callName fname none s ≠ "" := by
  intro h
  have := congrArg String.length h
  simp [callName, String.length_append] at this

theorem scope_step (cfg : Cfg) (s : St) (op : Op) (hs : ScopeInv s) (ho : scopedOp s op = true) :
    ScopeInv (step cfg s op) := by
  cases op with
  | priv v => exact ⟨hs.lines, hs.chain, hs.frames⟩
  | guard g => exact ⟨hs.lines, hs.chain, hs.frames⟩
  | abort => simp [scopedOp] at ho
  | pub v =>
    refine ⟨?_, hs.chain, hs.frames⟩
    intro l hl
    have : (step cfg s (.pub v)).eqs = s.eqs ++ [pubLine (nextSid s) (nextSido s)] := rfl
    rw [this] at hl
    simp only [List.mem_append, List.mem_singleton] at hl
    rcases hl with hl | rfl
    · exact hs.lines l hl
    · exact lineOK_pub _ _ _
  | con a b c =>
    refine ⟨?_, hs.chain, hs.frames⟩
    simp only [scopedOp, Bool.and_eq_true] at ho
    intro l hl
    have : (step cfg s (.con a b c)).eqs = s.eqs ++ [conLine a b c] := rfl
    rw [this] at hl
    simp only [List.mem_append, List.mem_singleton] at hl
    rcases hl with hl | rfl
    · exact hs.lines l hl
    · exact lineOK_con a b c s.ctx ho.1.1 ho.1.2 ho.2
  | enter fn args d1 d2 d3 =>
    obtain ⟨g1, g2⟩ := copyArgs_scope args (enterfn fn none d1 d2 d3 s)
    have e : step cfg s (.enter fn args d1 d2 d3) =
        { (copyArgs args (enterfn fn none d1 d2 d3 s)).2 with
          stack := ⟨s.ctx, (enterfn fn none d1 d2 d3 s).ctx, (copyArgs args (enterfn fn none d1 d2 d3 s)).1⟩ ::
            (copyArgs args (enterfn fn none d1 d2 d3 s)).2.stack } := rfl
    have l1 : ∀ l ∈ (enterfn fn none d1 d2 d3 s).eqs, LineOK l := by
      intro l hl
      rw [enterfn_eqs] at hl
      simp only [List.mem_append, List.mem_cons, List.not_mem_nil, or_false] at hl
      rcases hl with hl | rfl | rfl
      · exact hs.lines l hl
      · exact lineOK_function _ _ (callName_ne fn s)
      · exact lineOK_one _
    rw [e]
    refine ⟨g2.lines l1, ?_, ?_⟩
    · show Chain _ (_ :: _)
      refine ⟨g2.2.1, ?_⟩
      have : (copyArgs args (enterfn fn none d1 d2 d3 s)).2.stack = s.stack := by rw [g2.2.2]; simp
      rw [this]; exact hs.chain
    · intro f hf
      simp only [List.mem_cons] at hf
      rcases hf with rfl | hf
      · intro ab hab
        obtain ⟨⟨a, ha, hl, he⟩, hh⟩ := g1 ab hab
        refine ⟨?_, hh⟩
        simp only [scopedOp, List.all_eq_true, Bool.or_eq_true, Bool.not_eq_true'] at ho
        have := ho a ha
        rw [hl] at this
        simp only [Bool.true_eq_false, false_or] at this
        rw [he]; exact (sigIn_iff _ _).1 this
      · have : (copyArgs args (enterfn fn none d1 d2 d3 s)).2.stack = s.stack := by rw [g2.2.2]; simp
        rw [this] at hf
        exact hs.frames f hf
  | leave rets rndv r2a r2b =>
    cases hst : s.stack with
    | nil =>
      have e : step cfg s (.leave rets rndv r2a r2b) = s := by simp [step, hst]
      rw [e]; exact hs
    | cons f rest =>
      rw [leave_eq cfg s f rest hst]
      have hch := hs.chain
      rw [hst] at hch
      obtain ⟨hc1, hc2⟩ := hch
      have hfr : FrameScoped f := hs.frames f (by rw [hst]; simp)
      let s1 := continuefn f.old { s with stack := rest }
      obtain ⟨g1, g2, g3⟩ := copyRets_scope rets s1
      simp only [scopedOp, hst, Bool.and_eq_true, List.all_eq_true, Bool.or_eq_true, Bool.not_eq_true'] at ho
      obtain ⟨⟨ho1, ho2⟩, hog⟩ := ho
      have hgn : s.guard = none := by simpa using hog
      have hne : f.argret ++ (copyRets rets s1).1 ≠ [] := by
        intro e
        simp only [List.append_eq_nil_iff] at e
        rcases ho2 with h | h
        · simp [e.1] at h
        · rw [g3 e.2] at h; cases h
      have G := vcGlue_scope cfg f.old f.new (f.argret ++ (copyRets rets s1).1) rndv r2a r2b (copyRets rets s1).2 hne
        (by
          intro ab hab
          rcases List.mem_append.1 hab with hab | hab
          · exact (hfr ab hab).1
          · exact (g1 ab hab).2.inCtx)
        (by
          intro ab hab
          rcases List.mem_append.1 hab with hab | hab
          · exact (hfr ab hab).2.inCtx
          · obtain ⟨⟨a, ha, hl, he⟩, _⟩ := g1 ab hab
            have := ho1 a ha
            rw [hl] at this
            simp only [Bool.true_eq_false, false_or] at this
            rw [he, ← hc1]; exact (sigIn_iff _ _).1 this)
        (by rw [copyRets_guard]; exact hgn)
      have l1 : ∀ l ∈ s1.eqs, LineOK l := hs.lines
      have tot := g2.trans G
      refine ⟨tot.lines l1, ?_, ?_⟩
      · rw [tot.2.1, tot.2.2]; exact hc2
      · intro f' hf'
        rw [tot.2.2] at hf'
        exact hs.frames f' (by rw [hst]; simp [show f' ∈ rest from hf'])

theorem scope_run (cfg : Cfg) (ops : List Op) : ∀ (s : St), ScopeInv s → scopedFrom cfg s ops = true →
    ScopeInv (runFrom cfg s ops) := by
  induction ops with
  | nil => intro s hs _; exact hs
  | cons o ops ih =>
    intro s hs h
    simp only [scopedFrom, Bool.and_eq_true] at h
    exact ih _ (scope_step cfg s o hs h.1) h.2

theorem scope_init (d1 d2 d3 : Int) : ScopeInv (St.init d1 d2 d3) := by
  refine ⟨?_, trivial, by simp [St.init]⟩
  intro l hl
  simp only [St.init, enterfn_eqs, List.nil_append, List.mem_cons, List.not_mem_nil, or_false] at hl
  rcases hl with rfl | rfl
  · exact lineOK_function _ _ (by decide)
  · exact lineOK_one _

theorem splitLines_ok (D : List Line) (h : ∀ l ∈ D, LineOK l) : ∀ a, ∃ a', splitLines a D = .ok a' := by
  induction D with
  | nil => intro a; exact ⟨a, rfl⟩
  | cons l D ih =>
    intro a
    obtain ⟨a1, h1⟩ := h l (by simp) a
    obtain ⟨a2, h2⟩ := ih (fun x hx => h x (by simp [hx])) a1
    exact ⟨a2, by simp [splitLines, h1, h2]⟩

end Pysnark.Qaptools
