import PysnarkModel.Lemmas.QaptoolsHist
/-!
# What the lines of the equation file look like, and which of them are `[function]` lines

Every line any history writes is one of six shapes; the `[function]` lines are `main` followed by one
line per call, in call order, naming the function and the context the call got.
-/
namespace Pysnark.Qaptools
open Pysnark.QapEq

/-- the six kinds of line the emitters write -/
inductive EqShape : Line → Prop where
  | con (a b c : Sig) : EqShape (conLine a b c)
  | pub (sid sido : WireName) : EqShape (pubLine sid sido)
  | one (call : String) : EqShape (oneLine call)
  | fn (f c : String) (h : c ≠ "") : EqShape (functionLine f c)
  | block (c bn : String) (vcs : List LC) : EqShape (blockLine c bn vcs)
  | glue (c1 b1 c2 b2 : String) (h : b2 ≠ "") : EqShape (glueLine c1 b1 c2 b2)

/-- `(context, function name)` of a `[function]` line -/
def fnOf : Line → Option (String × String)
  | [.sym s, .sym f, .sym c] => if s = "[function]" then some (c, f) else none
  | _ => none

/-- `(caller context, callee context)` of a `[glue]` line -/
def glueOf : Line → Option (String × String)
  | [.sym s, .sym c1, .sym _, .sym c2, .sym _] => if s = "[glue]" then some (c1, c2) else none
  | _ => none

theorem glueOf_of_length (l : Line) (h : l.length ≠ 5) : glueOf l = none := by
  unfold glueOf
  split
  · simp at h
  · rfl

theorem conLine_length (a b c : Sig) : 6 ≤ (conLine a b c).length := by
  obtain ⟨t, r, ht, _⟩ := head_toks a
  obtain ⟨t2, r2, ht2, _⟩ := head_toks b
  obtain ⟨t3, r3, ht3, _⟩ := head_toks c
  simp only [conLine, ht, ht2, ht3, List.length_append, List.length_cons, List.length_nil]
  omega

theorem glueOf_conLine (a b c : Sig) : glueOf (conLine a b c) = none :=
  glueOf_of_length _ (by have := conLine_length a b c; omega)
theorem glueOf_pubLine (a b : WireName) : glueOf (pubLine a b) = none := rfl
theorem glueOf_oneLine (c : String) : glueOf (oneLine c) = none := rfl
theorem glueOf_functionLine (f c : String) : glueOf (functionLine f c) = none := rfl
theorem glueOf_glueLine (c1 b1 c2 b2 : String) : glueOf (glueLine c1 b1 c2 b2) = some (c1, c2) := by
  simp [glueOf, glueLine]
theorem glueOf_blockLine (c bn : String) (vcs : List LC) : glueOf (blockLine c bn vcs) = none := by
  unfold blockLine
  split
  · rfl
  · simp only [List.cons_append, List.nil_append, glueOf]
    split
    · rename_i heq
      simp only [List.cons.injEq] at heq
      obtain ⟨h1, _⟩ := heq
      injection h1 with h1
      subst h1; simp
    · rfl

/-- what a line says about calls: a `[function]` line opens `(context, function)`, a `[glue]` line closes
`(caller context, callee context)` -/
def evOf (l : Line) : Option ((String × String) ⊕ (String × String)) :=
  match fnOf l with
  | some cf => some (.inl cf)
  | none => (glueOf l).map .inr

theorem evOf_none (l : Line) (h1 : fnOf l = none) (h2 : glueOf l = none) : evOf l = none := by
  simp [evOf, h1, h2]

theorem fnOf_functionLine (f c : String) : fnOf (functionLine f c) = some (c, f) := by
  simp [fnOf, functionLine]

theorem fnOf_of_length (l : Line) (h : l.length ≠ 3) : fnOf l = none := by
  unfold fnOf
  split
  · simp at h
  · rfl

theorem fnOf_conLine' (a b c : Sig) : fnOf (conLine a b c) = none :=
  fnOf_of_length _ (by have := conLine_length a b c; omega)

theorem fnOf_conLine (a b c : Sig) : fnOf (conLine a b c) = none := by
  obtain ⟨t, r, ht, hl⟩ := head_toks a
  obtain ⟨t2, r2, ht2, _⟩ := head_toks b
  have : conLine a b c = t :: (r ++ .sym "*" :: t2 :: (r2 ++ [.sym "="] ++ Sig.toks c ++ [.sym "."])) := by
    simp [conLine, ht, ht2]
  rw [this]
  cases t with
  | num n => rfl
  | wire x l => rfl
  | loc l => rfl
  | sym s =>
    simp only [lcTok, decide_eq_true_eq] at hl
    subst hl
    cases r with
    | nil =>
      -- `"" * t2 …`: at least four tokens follow
      cases c with
      | nil => cases r2 <;> simp [fnOf, Sig.toks_nil]
      | cons cw c => cases r2 <;> simp [fnOf]
    | cons x r =>
      simp only [fnOf, List.cons_append]
      split
      · rename_i heq
        simp only [List.cons.injEq] at heq
        obtain ⟨h1, _⟩ := heq
        injection h1 with h1
        subst h1
        simp
      · rfl

theorem fnOf_pubLine (a b : WireName) : fnOf (pubLine a b) = none := rfl
theorem fnOf_oneLine (c : String) : fnOf (oneLine c) = none := rfl
theorem fnOf_glueLine (c1 b1 c2 b2 : String) : fnOf (glueLine c1 b1 c2 b2) = none := rfl
theorem fnOf_blockLine (c bn : String) (vcs : List LC) : fnOf (blockLine c bn vcs) = none := by
  unfold blockLine
  split
  · rfl
  · cases vcs with
    | nil => simp_all
    | cons v vs => simp [fnOf]

/-- `s'` extends the equation file of `s` by lines of the six shapes, none of them a `[function]` or `[glue]` line -/
def XStep (s s' : St) : Prop := ∃ ne, s'.eqs = s.eqs ++ ne ∧ ∀ l ∈ ne, EqShape l ∧ fnOf l = none ∧ glueOf l = none

theorem XStep.refl (s : St) : XStep s s := ⟨[], by simp, by simp⟩

theorem XStep.trans {s s' s'' : St} (h1 : XStep s s') (h2 : XStep s' s'') : XStep s s'' := by
  obtain ⟨n1, e1, g1⟩ := h1
  obtain ⟨n2, e2, g2⟩ := h2
  refine ⟨n1 ++ n2, by simp [e2, e1], ?_⟩
  intro l hl
  rcases List.mem_append.1 hl with hl | hl
  · exact g1 l hl
  · exact g2 l hl

theorem XStep.of_eq {s s' : St} (h : s'.eqs = s.eqs) : XStep s s' := ⟨[], by simp [h], by simp⟩

theorem xstep_privval (v : Int) (s : St) : XStep s (privval v s).2 := XStep.of_eq rfl

theorem xstep_con (a b c : Sig) (s : St) : XStep s (addConstraint a b c s) :=
  ⟨[conLine a b c], rfl, by intro l hl; simp only [List.mem_singleton] at hl; subst hl; exact ⟨.con a b c, fnOf_conLine a b c, glueOf_conLine a b c⟩⟩

theorem xstep_pubval (v : Int) (s : St) : XStep s (pubval v s).2 :=
  ⟨[pubLine (nextSid s) (nextSido s)], rfl,
   by intro l hl; simp only [List.mem_singleton] at hl; subst hl; exact ⟨.pub _ _, rfl, rfl⟩⟩

theorem xstep_ensureSingle (cfg : Cfg) (x : LC) (s : St) : XStep s (ensureSingle cfg x s).2 := by
  cases h : isSingle cfg x with
  | true => rw [ensureSingle_pos _ _ _ h]; exact XStep.refl s
  | false =>
    cases hg : s.guard with
    | none =>
      rw [ensureSingle_neg _ _ _ h hg]
      exact (xstep_privval _ s).trans (xstep_con _ _ _ _)
    | some g =>
      rw [ensureSingle_guarded _ _ _ h g hg]
      exact (((xstep_privval _ s).trans (xstep_privval _ _)).trans (xstep_con _ _ _ _)).trans (xstep_con _ _ _ _)

theorem xstep_ensureAll (cfg : Cfg) (xs : List LC) : ∀ s, XStep s (ensureAll cfg xs s).2 := by
  induction xs with
  | nil => intro s; exact XStep.refl s
  | cons x xs ih => intro s; simp only [ensureAll]; exact (xstep_ensureSingle cfg x s).trans (ih _)

theorem xstep_declareBlock (cfg : Cfg) (bn : String) (vcs : List LC) (rnd1 rnd2 : Int) (s : St) :
    XStep s (declareBlock cfg bn vcs rnd1 rnd2 s).2 := by
  refine (xstep_ensureAll cfg vcs s).trans ⟨[blockLine (ensureAll cfg vcs s).2.ctx bn (ensureAll cfg vcs s).1], rfl, ?_⟩
  intro l hl
  simp only [List.mem_singleton] at hl
  subst hl
  exact ⟨.block _ _ _, fnOf_blockLine _ _ _, glueOf_blockLine _ _ _⟩

theorem natStr_nonempty (n : Nat) : toString n ≠ "" := by
  intro h
  have := congrArg String.length h
  have hp := Nat.length_repr_pos (n := n)
  have e : toString n = n.repr := rfl
  rw [e] at this
  simp at this

/-- `vc_glue` adds lines without `[function]`/`[glue]`, then ONE `[glue]` line pairing the two contexts -/
theorem xstep_vcGlue (cfg : Cfg) (c1 c2 : String) (vals : List (LC × LC)) (rndv r2a r2b : Int) (s : St) :
    ∃ s7 bn1 bn2, XStep s s7 ∧ (vcGlue cfg c1 c2 vals rndv r2a r2b s).eqs = s7.eqs ++ [glueLine c1 bn1 c2 bn2] ∧ bn2 ≠ "" := by
  let s1 : St := { s with ctx := c1 }
  let bn1 := toString (dget s1.ctr c1)
  let s2 := bump c1 s1
  let s3 := (declareBlock cfg bn1 (vals.map Prod.fst) rndv r2a s2).2
  let s4 : St := { s3 with ctx := c2 }
  let bn2 := toString (dget s4.ctr c2)
  let s5 := bump c2 s4
  let s6 := (declareBlock cfg bn2 (vals.map Prod.snd) rndv r2b s5).2
  let s7 : St := { s6 with ctx := s.ctx }
  have e : vcGlue cfg c1 c2 vals rndv r2a r2b s = flush (emit (glueLine c1 bn1 c2 bn2) s7) := rfl
  have a : XStep s s2 := XStep.of_eq rfl
  have b : XStep s2 s3 := xstep_declareBlock _ _ _ _ _ _
  have c : XStep s3 s5 := XStep.of_eq rfl
  have d : XStep s5 s6 := xstep_declareBlock _ _ _ _ _ _
  have f : XStep s6 s7 := XStep.of_eq rfl
  exact ⟨s7, bn1, bn2, (((a.trans b).trans c).trans d).trans f, by rw [e]; rfl, natStr_nonempty _⟩

theorem copyArgs_eqs (args : List Arg) (s : St) : (copyArgs args s).2.eqs = s.eqs := by
  induction args generalizing s with
  | nil => rfl
  | cons a args ih => cases hk : a.kind <;> simp [copyArgs, hk, ih]

theorem copyRets_eqs (args : List Arg) (s : St) : (copyRets args s).2.eqs = s.eqs := by
  induction args generalizing s with
  | nil => rfl
  | cons a args ih => cases hk : a.kind <;> simp [copyRets, hk, ih]

/-- the calls of a history, in order: `(context the call gets, function name)` -/
def callsFrom (cfg : Cfg) : St → List Op → List (String × String)
  | _, [] => []
  | s, .enter fn args d1 d2 d3 :: r => (callName fn none s, fn) :: callsFrom cfg (step cfg s (.enter fn args d1 d2 d3)) r
  | s, o :: r => callsFrom cfg (step cfg s o) r

/-- the returns of a history, in order: `(caller context, callee context)` of the frame each one pops -/
def returnsFrom (cfg : Cfg) : St → List Op → List (String × String)
  | _, [] => []
  | s, .leave rets a b c :: r =>
    (match s.stack with
     | f :: _ => [(f.old, f.new)]
     | [] => []) ++ returnsFrom cfg (step cfg s (.leave rets a b c)) r
  | s, o :: r => returnsFrom cfg (step cfg s o) r

theorem callName_nonempty (fname : String) (s : St) : callName fname none s ≠ "" := by
  intro h
  have := congrArg String.length h
  simp [callName, String.length_append] at this

/-- one event: the file grows by lines of the six shapes; an `enter` adds exactly one `[function]` line,
naming the function and the call's context, a `leave` that pops a frame exactly one `[glue]` line pairing
the frame's two contexts, every other event neither -/
theorem shape_step (cfg : Cfg) (s : St) (op : Op) :
    ∃ ne, (step cfg s op).eqs = s.eqs ++ ne ∧ (∀ l ∈ ne, EqShape l) ∧
      ne.filterMap fnOf = (match op with
        | .enter fn _ _ _ _ => [(callName fn none s, fn)]
        | _ => []) ∧
      ne.filterMap glueOf = (match op, s.stack with
        | .leave _ _ _ _, f :: _ => [(f.old, f.new)]
        | _, _ => []) ∧
      ne.filterMap evOf = (match op, s.stack with
        | .enter fn _ _ _ _, _ => [.inl (callName fn none s, fn)]
        | .leave _ _ _ _, f :: _ => [.inr (f.old, f.new)]
        | _, _ => []) := by
  have plain : ∀ s' : St, XStep s s' → ∃ ne, s'.eqs = s.eqs ++ ne ∧ (∀ l ∈ ne, EqShape l) ∧
      ne.filterMap fnOf = [] ∧ ne.filterMap glueOf = [] ∧ ne.filterMap evOf = [] := by
    intro s' ⟨ne, e, g⟩
    refine ⟨ne, e, fun l hl => (g l hl).1, ?_, ?_, ?_⟩
    · rw [List.filterMap_eq_nil_iff]
      exact fun l hl => (g l hl).2.1
    · rw [List.filterMap_eq_nil_iff]
      exact fun l hl => (g l hl).2.2
    · rw [List.filterMap_eq_nil_iff]
      exact fun l hl => evOf_none l (g l hl).2.1 (g l hl).2.2
  cases op with
  | priv v => obtain ⟨ne, a, b, c, d, e⟩ := plain _ (xstep_privval v s); exact ⟨ne, a, b, c, by simpa using d, by simpa using e⟩
  | pub v => obtain ⟨ne, a, b, c, d, e⟩ := plain _ (xstep_pubval v s); exact ⟨ne, a, b, c, by simpa using d, by simpa using e⟩
  | con x y z => obtain ⟨ne, a, b, c, d, e⟩ := plain _ (xstep_con x y z s); exact ⟨ne, a, b, c, by simpa using d, by simpa using e⟩
  | guard g => obtain ⟨ne, a, b, c, d, e⟩ := plain _ (XStep.of_eq (s' := step cfg s (.guard g)) rfl); exact ⟨ne, a, b, c, by simpa using d, by simpa using e⟩
  | abort =>
    have : XStep s (step cfg s .abort) := by
      simp only [step]
      split
      · exact XStep.refl s
      · exact XStep.of_eq rfl
    obtain ⟨ne, a, b, c, d, e⟩ := plain _ this
    exact ⟨ne, a, b, c, by simpa using d, by simpa using e⟩
  | leave rets rndv r2a r2b =>
    cases hst : s.stack with
    | nil =>
      have e : step cfg s (.leave rets rndv r2a r2b) = s := by simp [step, hst]
      rw [e]; exact ⟨[], by simp, by simp, by simp, by simp, by simp⟩
    | cons f rest =>
      rw [leave_eq cfg s f rest hst]
      have a : XStep s (copyRets rets (continuefn f.old { s with stack := rest })).2 :=
        XStep.of_eq (by rw [copyRets_eqs]; rfl)
      obtain ⟨s7, bn1, bn2, x7, e7, hb2⟩ := xstep_vcGlue cfg f.old f.new (f.argret ++ (copyRets rets (continuefn f.old { s with stack := rest })).1)
        rndv r2a r2b (copyRets rets (continuefn f.old { s with stack := rest })).2
      obtain ⟨ne, e, g⟩ := a.trans x7
      refine ⟨ne ++ [glueLine f.old bn1 f.new bn2], by rw [e7, e]; simp, ?_, ?_, ?_, ?_⟩
      · intro l hl
        simp only [List.mem_append, List.mem_singleton] at hl
        rcases hl with hl | rfl
        · exact (g l hl).1
        · exact .glue _ _ _ _ hb2
      · rw [List.filterMap_append]
        have : ne.filterMap fnOf = [] := by
          rw [List.filterMap_eq_nil_iff]; exact fun l hl => (g l hl).2.1
        simp [this, fnOf_glueLine]
      · rw [List.filterMap_append]
        have : ne.filterMap glueOf = [] := by
          rw [List.filterMap_eq_nil_iff]; exact fun l hl => (g l hl).2.2
        simp [this, glueOf_glueLine]
      · rw [List.filterMap_append]
        have : ne.filterMap evOf = [] := by
          rw [List.filterMap_eq_nil_iff]; exact fun l hl => evOf_none l (g l hl).2.1 (g l hl).2.2
        simp [this, evOf, fnOf_glueLine, glueOf_glueLine]
  | enter fn args d1 d2 d3 =>
    refine ⟨[functionLine fn (callName fn none s), oneLine (callName fn none s)], ?_, ?_, ?_, ?_, ?_⟩
    · show (copyArgs args (enterfn fn none d1 d2 d3 s)).2.eqs = _
      rw [copyArgs_eqs, enterfn_eqs]
    · intro l hl
      simp only [List.mem_cons, List.not_mem_nil, or_false] at hl
      rcases hl with rfl | rfl
      · exact .fn _ _ (callName_nonempty fn s)
      · exact .one _
    · simp [fnOf_functionLine, fnOf_oneLine]
    · simp [glueOf_functionLine, glueOf_oneLine]
    · simp [evOf, fnOf_functionLine, fnOf_oneLine, glueOf_oneLine]

theorem shape_runFrom (cfg : Cfg) (ops : List Op) : ∀ s,
    ∃ ne, (runFrom cfg s ops).eqs = s.eqs ++ ne ∧ (∀ l ∈ ne, EqShape l) ∧ ne.filterMap fnOf = callsFrom cfg s ops ∧
      ne.filterMap glueOf = returnsFrom cfg s ops := by
  induction ops with
  | nil => intro s; exact ⟨[], by simp [runFrom], by simp, by simp [callsFrom], by simp [returnsFrom]⟩
  | cons o ops ih =>
    intro s
    obtain ⟨n1, e1, g1, f1, k1, _⟩ := shape_step cfg s o
    obtain ⟨n2, e2, g2, f2, k2⟩ := ih (step cfg s o)
    refine ⟨n1 ++ n2, by simp only [runFrom]; rw [e2, e1]; simp, ?_, ?_, ?_⟩
    · intro l hl
      rcases List.mem_append.1 hl with hl | hl
      · exact g1 l hl
      · exact g2 l hl
    · rw [List.filterMap_append, f1, f2]
      cases o <;> simp [callsFrom]
    · rw [List.filterMap_append, k1, k2]
      cases o <;> simp [returnsFrom]
      cases s.stack <;> simp

/-- the calls of a whole run -/
def callsOf (cfg : Cfg) (d1 d2 d3 : Int) (ops : List Op) : List (String × String) :=
  callsFrom cfg (St.init d1 d2 d3) ops

/-- the returns of a whole run -/
def returnsOf (cfg : Cfg) (d1 d2 d3 : Int) (ops : List Op) : List (String × String) :=
  returnsFrom cfg (St.init d1 d2 d3) ops

/-- every line of the equation file has one of the six shapes; its `[function]` lines are `main`
followed by one line per call of the history, in order; its `[glue]` lines are one per return, in order -/
theorem shape_run (cfg : Cfg) (d1 d2 d3 : Int) (ops : List Op) :
    (∀ l ∈ (run cfg d1 d2 d3 ops).eqs, EqShape l) ∧
    (run cfg d1 d2 d3 ops).eqs.filterMap fnOf = ("main", "main") :: callsOf cfg d1 d2 d3 ops ∧
    (run cfg d1 d2 d3 ops).eqs.filterMap glueOf = returnsOf cfg d1 d2 d3 ops := by
  obtain ⟨ne, e, g, f, k⟩ := shape_runFrom cfg ops (St.init d1 d2 d3)
  have e0 : (St.init d1 d2 d3).eqs = [functionLine "main" "main", oneLine "main"] := by
    simp [St.init, enterfn_eqs, callName]
  refine ⟨?_, ?_, ?_⟩
  · intro l hl
    have hl : l ∈ (runFrom cfg (St.init d1 d2 d3) ops).eqs := hl
    rw [e, e0] at hl
    simp only [List.mem_append, List.mem_cons, List.not_mem_nil, or_false] at hl
    rcases hl with (rfl | rfl) | hl
    · exact .fn _ _ (by decide)
    · exact .one _
    · exact g l hl
  · show (runFrom cfg (St.init d1 d2 d3) ops).eqs.filterMap fnOf = _
    rw [e, e0, List.filterMap_append, f]
    simp [fnOf_functionLine, fnOf_oneLine, callsOf]
  · show (runFrom cfg (St.init d1 d2 d3) ops).eqs.filterMap glueOf = _
    rw [e, e0, List.filterMap_append, k]
    simp [glueOf_functionLine, glueOf_oneLine, returnsOf]

end Pysnark.Qaptools
