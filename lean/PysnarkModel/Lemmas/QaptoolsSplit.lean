import PysnarkModel.Model.Qaptools
import Mathlib.Data.List.Perm.Basic
/-!
# `qapsplit`: what ends up in the per-function files, for every content of the equation file
-/
namespace Pysnark.Qaptools
open Pysnark.QapEq

/-! ## `contextualize` -/

theorem ctxAux_wire (x n : String) (r : List Tok) (c : Option String) (acc : List Tok) :
    contextualizeAux (.wire x n :: r) c acc =
      if c ≠ none ∧ c ≠ some x then .error .inconsistentContexts
      else contextualizeAux r (some x) (acc ++ [.loc n]) := rfl

theorem ctxAux_other (t : Tok) (r : List Tok) (c : Option String) (acc : List Tok)
    (h : ∀ x n, t ≠ .wire x n) : contextualizeAux (t :: r) c acc = contextualizeAux r c (acc ++ [t]) := by
  cases t with
  | wire x n => exact absurd rfl (h x n)
  | num v => rfl
  | sym s => rfl
  | loc l => rfl

theorem ctxsOf_wire (x n : String) (r : List Tok) : ctxsOf (.wire x n :: r) = x :: ctxsOf r := rfl
theorem ctxsOf_other (t : Tok) (r : List Tok) (h : ∀ x n, t ≠ .wire x n) : ctxsOf (t :: r) = ctxsOf r := by
  cases t with
  | wire x n => exact absurd rfl (h x n)
  | num v => rfl
  | sym s => rfl
  | loc l => rfl

theorem stripCtx_wire (x n : String) (r : List Tok) : stripCtx (.wire x n :: r) = .loc n :: stripCtx r := rfl
theorem stripCtx_other (t : Tok) (r : List Tok) (h : ∀ x n, t ≠ .wire x n) : stripCtx (t :: r) = t :: stripCtx r := by
  cases t with
  | wire x n => exact absurd rfl (h x n)
  | num v => rfl
  | sym s => rfl
  | loc l => rfl

theorem tok_cases (t : Tok) : (∃ x n, t = .wire x n) ∨ (∀ x n, t ≠ .wire x n) := by
  cases t with
  | wire x n => exact Or.inl ⟨x, n, rfl⟩
  | num v => exact Or.inr (by intro x n h; cases h)
  | sym s => exact Or.inr (by intro x n h; cases h)
  | loc l => exact Or.inr (by intro x n h; cases h)

theorem ctxAux_ok (l : List Tok) : ∀ (c : Option String) (acc : List Tok) (k : Option String) (t : List Tok),
    contextualizeAux l c acc = .ok (k, t) →
    t = acc ++ stripCtx l ∧ (∀ x ∈ ctxsOf l, some x = k) ∧ (ctxsOf l = [] → k = c) ∧ (c ≠ none → k = c) := by
  induction l with
  | nil =>
    intro c acc k t h
    simp only [contextualizeAux, Except.ok.injEq, Prod.mk.injEq] at h
    obtain ⟨rfl, rfl⟩ := h
    simp [stripCtx, ctxsOf]
  | cons tk r ih =>
    intro c acc k t h
    rcases tok_cases tk with ⟨x, n, rfl⟩ | hne
    · rw [ctxAux_wire] at h
      split at h
      · cases h
      · rename_i hc
        obtain ⟨h1, h2, _, h4⟩ := ih _ _ _ _ h
        have hk : k = some x := h4 (by simp)
        refine ⟨by simp [h1, stripCtx_wire], ?_, by simp [ctxsOf_wire], ?_⟩
        · intro y hy
          rw [ctxsOf_wire] at hy
          simp only [List.mem_cons] at hy
          rcases hy with rfl | hy
          · exact hk.symm
          · exact h2 y hy
        · intro hcn
          have : c = some x := by
            by_contra hcx
            exact hc ⟨hcn, hcx⟩
          rw [hk, this]
    · rw [ctxAux_other _ _ _ _ hne] at h
      obtain ⟨h1, h2, h3, h4⟩ := ih _ _ _ _ h
      rw [ctxsOf_other _ _ hne, stripCtx_other _ _ hne]
      exact ⟨by simp [h1], h2, h3, h4⟩

theorem getLast?_of_all {α : Type} (L : List α) (k : Option α) (h1 : ∀ x ∈ L, some x = k) (h2 : L = [] → k = none) :
    L.getLast? = k := by
  rcases List.eq_nil_or_concat L with rfl | ⟨L', x, rfl⟩
  · simp [h2 rfl]
  · simp only [List.concat_eq_append, List.getLast?_append, List.getLast?_singleton, Option.some_or]
    exact h1 x (by simp)

theorem contextualize_ok (l : List Tok) (k : Option String) (t : List Tok) (h : contextualize l = .ok (k, t)) :
    t = stripCtx l ∧ k = lineKey l ∧ oneCtx l := by
  obtain ⟨h1, h2, h3, _⟩ := ctxAux_ok l none [] k t h
  have hk : lineKey l = k := getLast?_of_all _ _ h2 h3
  refine ⟨by simpa using h1, hk.symm, ?_⟩
  intro c hc
  rw [hk]; exact h2 c hc

theorem ctxAux_of_same (l : List Tok) : ∀ (c : Option String) (acc : List Tok) (k0 : String),
    (∀ x ∈ ctxsOf l, x = k0) → (c = none ∨ c = some k0) →
    ∃ k, contextualizeAux l c acc = .ok (k, acc ++ stripCtx l) := by
  induction l with
  | nil => intro c acc k0 _ _; exact ⟨c, by simp [contextualizeAux, stripCtx]⟩
  | cons tk r ih =>
    intro c acc k0 h hc
    rcases tok_cases tk with ⟨x, n, rfl⟩ | hne
    · rw [ctxAux_wire]
      have hx : x = k0 := h x (by simp [ctxsOf_wire])
      have : ¬ (c ≠ none ∧ c ≠ some x) := by
        rintro ⟨a, b⟩
        rcases hc with hc | hc
        · exact a hc
        · exact b (by rw [hc, hx])
      rw [if_neg this]
      obtain ⟨k, hk⟩ := ih (some x) (acc ++ [.loc n]) k0
        (fun y hy => h y (by simp [ctxsOf_wire, hy])) (Or.inr (by rw [hx]))
      exact ⟨k, by simp [hk, stripCtx_wire]⟩
    · rw [ctxAux_other _ _ _ _ hne]
      obtain ⟨k, hk⟩ := ih c (acc ++ [tk]) k0 (fun y hy => h y (by rw [ctxsOf_other _ _ hne]; exact hy)) hc
      exact ⟨k, by simp [hk, stripCtx_other _ _ hne]⟩

/-- a line whose wires all live in one context passes `contextualize` -/
theorem contextualize_of_same (l : List Tok) (k0 : String) (h : ∀ x ∈ ctxsOf l, x = k0) :
    contextualize l = .ok (lineKey l, stripCtx l) := by
  obtain ⟨k, hk⟩ := ctxAux_of_same l none [] k0 h (Or.inl rfl)
  have hk' : contextualize l = .ok (k, stripCtx l) := by simpa [contextualize] using hk
  obtain ⟨_, h2, _⟩ := contextualize_ok l k _ hk'
  rw [hk', h2]

/-! ## dictionaries -/

theorem eqsGet_eqsAdd (d : EqDict) (k k' : Option String) (l : Line) :
    eqsGet (eqsAdd d k l) k' = if k = k' then eqsGet d k' ++ [l] else eqsGet d k' := by
  induction d with
  | nil =>
    by_cases h : k = k' <;> simp [eqsAdd, eqsGet, h]
  | cons e d ih =>
    obtain ⟨k0, v⟩ := e
    by_cases h0 : k0 = k
    · subst h0
      by_cases h : k0 = k' <;> simp [eqsAdd, eqsGet, h]
    · by_cases h : k = k'
      · subst h
        simp [eqsAdd, eqsGet, h0, ih]
      · by_cases h1 : k0 = k'
        · subst h1; simp [eqsAdd, eqsGet, h0, h]
        · simp [eqsAdd, eqsGet, h0, h1, ih, h]

theorem blocksGet_blocksAdd (d : BlockDict) (k k' : String) (b : String × List Tok) :
    blocksGet (blocksAdd d k b) k' = if k = k' then blocksGet d k' ++ [b] else blocksGet d k' := by
  induction d with
  | nil =>
    by_cases h : k = k' <;> simp [blocksAdd, blocksGet, h]
  | cons e d ih =>
    obtain ⟨k0, v⟩ := e
    by_cases h0 : k0 = k
    · subst h0
      by_cases h : k0 = k' <;> simp [blocksAdd, blocksGet, h]
    · by_cases h : k = k'
      · subst h
        simp [blocksAdd, blocksGet, h0, ih]
      · by_cases h1 : k0 = k'
        · subst h1; simp [blocksAdd, blocksGet, h0, h]
        · simp [blocksAdd, blocksGet, h0, h1, ih, h]

/-! ## one line of the equation file -/

/-- contribution of one stripped line to the equation dictionary -/
def eqOf (t : Line) (k : Option String) : List Line :=
  if isEquation t && !t.isEmpty && decide (lineKey t = k) then [stripCtx t] else []

def blockOf (t : Line) (c : String) : List (String × List Tok) :=
  match t with
  | .sym s :: c' :: bn :: ws => if s = "[ioblock]" ∧ c'.render = c then [(bn.render, stripCtx ws)] else []
  | _ => []

theorem tracedEqs_cons (t : Line) (D : List Line) (k : Option String) :
    tracedEqs (t :: D) k = eqOf t k ++ tracedEqs D k := by
  unfold tracedEqs eqOf
  rw [List.filterMap_cons]
  split <;> simp_all

/-- the `[ioblock]` entries of context `c` among the (stripped) lines `D`, in file order -/
def tracedBlocks (D : List Line) (c : String) : List (String × List Tok) := D.flatMap fun t => blockOf t c

theorem tracedBlocks_cons (t : Line) (D : List Line) (c : String) :
    tracedBlocks (t :: D) c = blockOf t c ++ tracedBlocks D c := by
  simp [tracedBlocks]

theorem blockOf_ne (s : String) (r : List Tok) (c : String) (h : s ≠ "[ioblock]") :
    blockOf (.sym s :: r) c = [] := by
  cases r with
  | nil => rfl
  | cons c' r =>
    cases r with
    | nil => rfl
    | cons bn ws => simp [blockOf, h]

theorem isDirective_iff (s : String) :
    isDirective s = true ↔ s = "[function]" ∨ s = "[ioblock]" ∨ s = "[glue]" ∨ s = "[external]" := by
  simp [isDirective, or_assoc]

/-- effect of one line on the dictionaries -/
theorem splitLine_spec (a a' : Acc) (ln : Line) (h : splitLine a ln = .ok a') :
    (∀ k, eqsGet a'.eqs k = eqsGet a.eqs k ++ eqOf (strip ln) k) ∧
    (∀ c, blocksGet a'.blocks c = blocksGet a.blocks c ++ blockOf (strip ln) c) ∧
    (isEquation (strip ln) = true → strip ln ≠ [] → oneCtx (strip ln)) := by
  have eqcase : ∀ toks : Line, isEquation toks = true → toks ≠ [] →
      (match contextualize toks with
        | .error e => (.error e : Except SplitErr Acc)
        | .ok (q, tokn) => .ok { a with eqs := eqsAdd a.eqs q tokn }) = .ok a' →
      (∀ k, eqsGet a'.eqs k = eqsGet a.eqs k ++ eqOf toks k) ∧
      (∀ c, blocksGet a'.blocks c = blocksGet a.blocks c ++ blockOf toks c) ∧ oneCtx toks := by
    intro toks hq hne hm
    cases hc : contextualize toks with
    | error e => rw [hc] at hm; cases hm
    | ok qt =>
      obtain ⟨q, tokn⟩ := qt
      rw [hc] at hm
      simp only [Except.ok.injEq] at hm
      obtain ⟨h1, h2, h3⟩ := contextualize_ok toks q tokn hc
      subst hm
      refine ⟨?_, ?_, h3⟩
      · intro k
        have hemp : toks.isEmpty = false := by cases toks <;> simp_all
        simp only [eqsGet_eqsAdd, eqOf, hq, hemp, h2, h1]
        by_cases hk : lineKey toks = k <;> simp [hk]
      · intro c
        have : blockOf toks c = [] := by
          unfold blockOf
          split
          · rename_i s c' bn ws
            have : s ≠ "[ioblock]" := by
              intro he; subst he; simp [isEquation, isDirective] at hq
            simp [this]
          · rfl
        simp [this]
  unfold splitLine at h
  split at h
  · -- blank line
    rename_i hs
    simp only [Except.ok.injEq] at h; subst h
    simp [hs, eqOf, blockOf]
  · rename_i s r hs
    rw [hs]
    split at h
    · -- [function]
      rename_i hf
      split at h
      · simp only [Except.ok.injEq] at h; subst h
        refine ⟨?_, ?_, ?_⟩
        · intro k; simp [eqOf, isEquation, hf, isDirective]
        · intro c; simp [blockOf, hf]
        · intro hq; simp [isEquation, hf, isDirective] at hq
      · cases h
    · split at h
      · -- [ioblock]
        rename_i hf hb
        split at h
        · rename_i c bn ws
          split at h
          · cases h
          · rename_i chk lst hctx
            split at h
            · rename_i hchk
              simp only [Except.ok.injEq] at h; subst h
              obtain ⟨h1, _, _⟩ := contextualize_ok ws chk lst hctx
              refine ⟨?_, ?_, ?_⟩
              · intro k; simp [eqOf, isEquation, hb, isDirective]
              · intro c'
                simp only [blocksGet_blocksAdd, blockOf, hb, true_and, h1]
                by_cases hk : c.render = c' <;> simp [hk]
              · intro hq; simp [isEquation, hb, isDirective] at hq
            · split at h <;> cases h
        · cases h
      · split at h
        · -- [external]
          rename_i hf hb he
          simp only [Except.ok.injEq] at h; subst h
          refine ⟨?_, ?_, ?_⟩
          · intro k; simp [eqOf, isEquation, he, isDirective]
          · intro c
            have : blockOf (.sym s :: r) c = [] := blockOf_ne s r c (by rw [he]; decide)
            simp [this]
          · intro hq; simp [isEquation, he, isDirective] at hq
        · split at h
          · -- [glue]
            rename_i hf hb he hg
            simp only [Except.ok.injEq] at h; subst h
            refine ⟨?_, ?_, ?_⟩
            · intro k; simp [eqOf, isEquation, hg, isDirective]
            · intro c
              have : blockOf (.sym s :: r) c = [] := blockOf_ne s r c (by rw [hg]; decide)
              simp [this]
            · intro hq; simp [isEquation, hg, isDirective] at hq
          · -- an equation that starts with a symbol
            rename_i hf hb he hg
            have hq : isEquation (.sym s :: r) = true := by
              simp [isEquation, isDirective, hf, hb, he, hg]
            obtain ⟨e1, e2, e3⟩ := eqcase (.sym s :: r) hq (by simp) h
            exact ⟨e1, e2, fun _ _ => e3⟩
  · rename_i toks hnil hsym
    have hne : strip ln ≠ [] := hnil
    have hq : isEquation (strip ln) = true := by
      cases hs : strip ln with
      | nil => exact absurd hs hne
      | cons t r =>
        cases t with
        | sym s => exact absurd hs (hsym s r)
        | num v => rfl
        | wire x n => rfl
        | loc l => rfl
    obtain ⟨e1, e2, e3⟩ := eqcase (strip ln) hq hne h
    exact ⟨e1, e2, fun _ _ => e3⟩

theorem splitLines_spec (D : List Line) : ∀ (a a' : Acc), splitLines a D = .ok a' →
    (∀ k, eqsGet a'.eqs k = eqsGet a.eqs k ++ tracedEqs (D.map strip) k) ∧
    (∀ c, blocksGet a'.blocks c = blocksGet a.blocks c ++ tracedBlocks (D.map strip) c) ∧
    (∀ l ∈ D, isEquation (strip l) = true → strip l ≠ [] → oneCtx (strip l)) := by
  induction D with
  | nil =>
    intro a a' h
    simp only [splitLines, Except.ok.injEq] at h; subst h
    simp [tracedEqs, tracedBlocks]
  | cons ln D ih =>
    intro a a' h
    simp only [splitLines] at h
    cases h1 : splitLine a ln with
    | error e => rw [h1] at h; cases h
    | ok a1 =>
      rw [h1] at h
      obtain ⟨s1, s2, s3⟩ := splitLine_spec a a1 ln h1
      obtain ⟨t1, t2, t3⟩ := ih a1 a' h
      refine ⟨?_, ?_, ?_⟩
      · intro k; rw [t1, s1, List.map_cons, tracedEqs_cons]; simp
      · intro c; rw [t2, s2, List.map_cons, tracedBlocks_cons]; simp
      · intro l hl
        simp only [List.mem_cons] at hl
        rcases hl with rfl | hl
        · exact s3
        · exact t3 l hl

/-! ## sorting -/

theorem insertSorted_perm (x : Line) (l : List Line) : (insertSorted x l).Perm (x :: l) := by
  induction l with
  | nil => exact List.Perm.refl _
  | cons y l ih =>
    simp only [insertSorted]
    split
    · exact List.Perm.refl _
    · exact (List.Perm.cons y ih).trans (List.Perm.swap x y l)

theorem sortLines_perm (l : List Line) : (sortLines l).Perm l := by
  induction l with
  | nil => exact List.Perm.refl _
  | cons x l ih => exact (insertSorted_perm x _).trans (List.Perm.cons x ih)

theorem getqap_perm (a : Acc) (x : String) :
    (getqap a x).Perm ((blocksGet a.blocks x).map blockStr ++ eqsGet a.eqs (some x)) := sortLines_perm _

/-! ## the per-function loop -/

theorem sigGet_append {D : Type} (d : List (String × D)) (f f' : String) (h : D) :
    sigGet (d ++ [(f, h)]) f' = match sigGet d f' with
      | some v => some v
      | none => if f = f' then some h else none := by
  induction d with
  | nil => by_cases e : f = f' <;> simp [sigGet, e]
  | cons e d ih =>
    obtain ⟨k, v⟩ := e
    by_cases hk : k = f' <;> simp [sigGet, hk, ih]

/-- what the loop over the calls establishes -/
theorem finish_spec {D : Type} [DecidableEq D] (H : List Line → D) (a : Acc) (r : List (String × String)) :
    ∀ (files : List (String × List Line)) (sigs : List (String × D))
      (files' : List (String × List Line)) (sigs' : List (String × D)),
    finish H a r files sigs = .ok (files', sigs') →
    (∀ f d, sigGet sigs f = some d → sigGet sigs' f = some d) ∧
    (∀ xf ∈ r, sigGet sigs' xf.2 = some (H (getqap a xf.1))) ∧
    (∃ new, files' = files ++ new ∧
      ∀ fq ∈ new, sigGet sigs fq.1 = none ∧ ∃ x, (x, fq.1) ∈ r ∧ fq.2 = getqap a x) := by
  induction r with
  | nil =>
    intro files sigs files' sigs' h
    simp only [finish, Except.ok.injEq, Prod.mk.injEq] at h
    obtain ⟨rfl, rfl⟩ := h
    exact ⟨fun _ _ h => h, by simp, [], by simp, by simp⟩
  | cons xf r ih =>
    obtain ⟨x, f⟩ := xf
    intro files sigs files' sigs' h
    simp only [finish] at h
    cases hs : sigGet sigs f with
    | some hv =>
      rw [hs] at h
      simp only at h
      split at h
      · cases h
      · rename_i hne
        have heq : hv = H (getqap a x) := by simpa using hne
        obtain ⟨i1, i2, new, i3, i4⟩ := ih files sigs files' sigs' h
        refine ⟨i1, ?_, new, i3, ?_⟩
        · intro xf hxf
          simp only [List.mem_cons] at hxf
          rcases hxf with rfl | hxf
          · rw [← heq]; exact i1 f hv hs
          · exact i2 xf hxf
        · intro fq hfq
          obtain ⟨j1, y, j2, j3⟩ := i4 fq hfq
          exact ⟨j1, y, by simp [j2], j3⟩
    | none =>
      rw [hs] at h
      simp only at h
      obtain ⟨i1, i2, new, i3, i4⟩ := ih _ _ files' sigs' h
      have hnew : sigGet (sigs ++ [(f, H (getqap a x))]) f = some (H (getqap a x)) := by
        rw [sigGet_append, hs]; simp
      refine ⟨?_, ?_, (f, getqap a x) :: new, by simp [i3], ?_⟩
      · intro f' d hd
        apply i1
        rw [sigGet_append, hd]
      · intro xf hxf
        simp only [List.mem_cons] at hxf
        rcases hxf with rfl | hxf
        · exact i1 _ _ hnew
        · exact i2 xf hxf
      · intro fq hfq
        simp only [List.mem_cons] at hfq
        rcases hfq with rfl | hfq
        · exact ⟨hs, x, by simp, rfl⟩
        · obtain ⟨j1, y, j2, j3⟩ := i4 fq hfq
          refine ⟨?_, y, by simp [j2], j3⟩
          rw [sigGet_append] at j1
          cases hs' : sigGet sigs fq.1 with
          | none => rfl
          | some v => rw [hs'] at j1; cases j1

/-- an error of the loop names a function two of whose calls have different digests -/
theorem finish_error {D : Type} [DecidableEq D] (H : List Line → D) (a : Acc) (r : List (String × String)) :
    ∀ (files : List (String × List Line)) (sigs : List (String × D)) (e : SplitErr),
    finish H a r files sigs = .error e →
    ∃ f, e = .inconsistentFunctions f := by
  induction r with
  | nil => intro files sigs e h; simp [finish] at h
  | cons xf r ih =>
    obtain ⟨x, f⟩ := xf
    intro files sigs e h
    simp only [finish] at h
    cases hs : sigGet sigs f with
    | some hv =>
      rw [hs] at h
      simp only at h
      split at h
      · simp only [Except.error.injEq] at h; exact ⟨f, h.symm⟩
      · exact ih _ _ e h
    | none =>
      rw [hs] at h
      exact ih _ _ e h

theorem splitLines_of_qapsplit {Dg : Type} [DecidableEq Dg] (H : List Line → Dg) (D : List Line)
    (out : SplitOut Dg) (h : qapsplit H D = .ok out) :
    splitLines Acc.empty D = .ok out.acc ∧ finish H out.acc out.acc.fns [] [] = .ok (out.files, out.sigs) := by
  unfold qapsplit at h
  cases h1 : splitLines Acc.empty D with
  | error e => rw [h1] at h; cases h
  | ok a =>
    rw [h1] at h
    simp only at h
    cases h2 : finish H a a.fns [] [] with
    | error e => rw [h2] at h; cases h
    | ok fs =>
      obtain ⟨files, sigs⟩ := fs
      rw [h2] at h
      simp only at h
      split at h
      · cases h
      · simp only [Except.ok.injEq] at h
        subst h
        exact ⟨rfl, h2⟩


end Pysnark.Qaptools
