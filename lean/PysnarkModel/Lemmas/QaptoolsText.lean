import PysnarkModel.Lemmas.QaptoolsShape
/-!
# Reading the text of the equation file back gives the lines that were written

`QapText.parseLine (QapText.render l) = some l` for every line of the six shapes whose names are
well formed: no blank in any name, no `/` in a context.  Local names (`<n>`, `o_<n>`, `rnd1_<n>`, …) may
contain anything but blanks.  With a `/` in a context the text reads back as ANOTHER line (the name is cut
at its first `/`): that is the content of the finding `C12-name-separator`.
-/
namespace Pysnark.Qaptools
open Pysnark.QapEq Pysnark.QapText

/-! ## blanks -/

/-- tokens joined by single blanks -/
def joinBlank : List (List Char) → List Char
  | [] => []
  | [w] => w
  | w :: u :: r => w ++ ' ' :: joinBlank (u :: r)

theorem render_toList (l : Line) : (render l).toList = joinBlank (l.map fun t => t.render.toList) := by
  unfold render Line.render
  induction l with
  | nil => simp [joinBlank]
  | cons t l ih =>
    cases l with
    | nil => simp [joinBlank]
    | cons u l =>
      simp only [List.map_cons, String.intercalate_cons_cons, String.toList_append, joinBlank] at ih ⊢
      rw [← ih]
      have : (" " : String).toList = [' '] := by decide
      simp [this]

theorem splitBlank_word (w : List Char) (h : ' ' ∉ w) : splitBlank w = [w] := by
  induction w with
  | nil => rfl
  | cons c w ih =>
    have hc : c ≠ ' ' := by intro e; exact h (by simp [e])
    have := ih (by intro hm; exact h (by simp [hm]))
    simp [splitBlank, hc, this]

theorem splitBlank_word_blank (w r : List Char) (h : ' ' ∉ w) : splitBlank (w ++ ' ' :: r) = w :: splitBlank r := by
  induction w with
  | nil => simp [splitBlank]
  | cons c w ih =>
    have hc : c ≠ ' ' := by intro e; exact h (by simp [e])
    have := ih (by intro hm; exact h (by simp [hm]))
    simp [splitBlank, hc, this]

theorem splitBlank_joinBlank (ws : List (List Char)) (hne : ws ≠ []) (h : ∀ w ∈ ws, ' ' ∉ w) :
    splitBlank (joinBlank ws) = ws := by
  induction ws with
  | nil => exact absurd rfl hne
  | cons w ws ih =>
    cases ws with
    | nil => simpa [joinBlank] using splitBlank_word w (h w (by simp))
    | cons u r =>
      simp only [joinBlank]
      rw [splitBlank_word_blank _ _ (h w (by simp)), ih (by simp) (fun x hx => h x (by simp [hx]))]

/-! ## numbers -/

theorem readNat_toDigits (n : Nat) : readNat (Nat.toDigits 10 n) = some n := by
  unfold readNat
  have h1 : Nat.toDigits 10 n ≠ [] := Nat.toDigits_ne_nil
  have h2 : (Nat.toDigits 10 n).all Char.isDigit = true := by
    rw [List.all_eq_true]
    intro c hc
    exact Nat.isDigit_of_mem_toDigits (by decide) (by decide) hc
  simp [h1, h2]

theorem natStr_toList' (n : Nat) : (toString n).toList = Nat.toDigits 10 n := Nat.toList_repr

theorem toDigits_head_ne_minus (n : Nat) : ∀ r, Nat.toDigits 10 n ≠ '-' :: r := by
  intro r h
  have : ('-' : Char).isDigit = true := Nat.isDigit_of_mem_toDigits (b := 10) (n := n) (by decide) (by decide) (by rw [h]; simp)
  simp at this

theorem readInt_toString (k : Int) : readInt (toString k).toList = some k := by
  cases k with
  | ofNat m =>
    have e : (toString (Int.ofNat m)).toList = Nat.toDigits 10 m := by
      show (Int.repr (Int.ofNat m)).toList = _
      simp [Int.repr, Nat.toList_repr]
    rw [e]
    have := toDigits_head_ne_minus m
    unfold readInt
    split
    · rename_i r heq; exact absurd heq (this r)
    · simp [readNat_toDigits]
  | negSucc m =>
    have e : (toString (Int.negSucc m)).toList = '-' :: Nat.toDigits 10 (m + 1) := by
      show (Int.repr (Int.negSucc m)).toList = _
      simp [Int.repr, String.toList_append, Nat.toList_repr]
    rw [e]
    simp only [readInt, readNat_toDigits, Option.map_some]
    rfl

theorem intStr_chars (k : Int) : ∀ c ∈ (toString k).toList, c = '-' ∨ c.isDigit = true := by
  intro c hc
  cases k with
  | ofNat m =>
    have e : (toString (Int.ofNat m)).toList = Nat.toDigits 10 m := by
      show (Int.repr (Int.ofNat m)).toList = _
      simp [Int.repr, Nat.toList_repr]
    rw [e] at hc
    exact Or.inr (Nat.isDigit_of_mem_toDigits (by decide) (by decide) hc)
  | negSucc m =>
    have e : (toString (Int.negSucc m)).toList = '-' :: Nat.toDigits 10 (m + 1) := by
      show (Int.repr (Int.negSucc m)).toList = _
      simp [Int.repr, String.toList_append, Nat.toList_repr]
    rw [e] at hc
    simp only [List.mem_cons] at hc
    rcases hc with rfl | hc
    · exact Or.inl rfl
    · exact Or.inr (Nat.isDigit_of_mem_toDigits (by decide) (by decide) hc)

theorem intStr_ne_nil (k : Int) : (toString k).toList ≠ [] := by
  cases k with
  | ofNat m =>
    show (Int.repr (Int.ofNat m)).toList ≠ _
    simp [Int.repr, Nat.toList_repr, Nat.toDigits_ne_nil]
  | negSucc m =>
    show (Int.repr (Int.negSucc m)).toList ≠ _
    simp [Int.repr, String.toList_append]

/-! ## names -/

/-- no blank in the text -/
def noBlank (s : String) : Prop := ' ' ∉ s.toList
/-- neither blank nor `/` in the text -/
def plainCtx (s : String) : Prop := ' ' ∉ s.toList ∧ '/' ∉ s.toList

theorem cutSlash_append (c l : List Char) (h : '/' ∉ c) : cutSlash (c ++ '/' :: l) = some (c, l) := by
  induction c with
  | nil => simp [cutSlash]
  | cons x c ih =>
    have hx : x ≠ '/' := by intro e; exact h (by simp [e])
    have := ih (by intro hm; exact h (by simp [hm]))
    simp [cutSlash, hx, this]

theorem wire_toList (c l : String) : (Tok.wire c l).render.toList = c.toList ++ '/' :: l.toList := by
  have : ("/" : String).toList = ['/'] := by decide
  simp [Tok.render, String.toList_append, this]

theorem readName_wire (c l : String) (h : '/' ∉ c.toList) : readName (Tok.wire c l).render.toList = .wire c l := by
  rw [wire_toList]
  unfold readName
  have hne : c.toList ++ '/' :: l.toList ≠ [] := by simp
  simp [hne, cutSlash_append _ _ h, String.ofList_toList]

theorem cutSlash_none (w : List Char) (h : '/' ∉ w) : cutSlash w = none := by
  induction w with
  | nil => rfl
  | cons x w ih =>
    have hx : x ≠ '/' := by intro e; exact h (by simp [e])
    simp [cutSlash, hx, ih (by intro hm; exact h (by simp [hm]))]

theorem readName_sym (s : String) (h : '/' ∉ s.toList) : readName s.toList = .sym s := by
  unfold readName
  by_cases he : s.toList = []
  · have : s = "" := String.toList_injective (by simpa using he)
    simp [he, this]
  · simp [he, cutSlash_none _ h, String.ofList_toList]

theorem symOf_toList (s : String) : symOf s.toList = .sym s := by simp [symOf, String.ofList_toList]

/-! ## linear combinations -/

/-- the names of a linear combination are well formed -/
def SigWF (s : Sig) : Prop := ∀ cw ∈ s, plainCtx cw.2.1 ∧ noBlank cw.2.2

theorem readLC_toks' (s : Sig) (h : SigWF s) : readLC ((Sig.toks' s).map fun t => t.render.toList) = some (Sig.toks' s) := by
  induction s with
  | nil => simp [Sig.toks', readLC]
  | cons cw s ih =>
    rw [Sig.toks'_cons]
    have hw := (h cw (by simp)).1
    have ih' := ih (fun e he => h e (by simp [he]))
    simp only [List.map_cons]
    have e1 : (Tok.num cw.1).render.toList = (toString cw.1).toList := rfl
    rw [e1]
    cases hd : (toString cw.1).toList with
    | nil => exact absurd hd (intStr_ne_nil cw.1)
    | cons d ds =>
      have hi := readInt_toString cw.1
      rw [hd] at hi
      simp only [readLC, hi, ih', Option.map_some, readName_wire _ _ hw.2]

theorem readLC_toks (s : Sig) (h : SigWF s) : readLC ((Sig.toks s).map fun t => t.render.toList) = some (Sig.toks s) := by
  cases s with
  | nil => simp [Sig.toks_nil, Tok.render, readLC]
  | cons cw s => rw [Sig.toks_cons]; exact readLC_toks' _ h

/-- a token of a printed linear combination is never one of the three punctuation tokens -/
theorem lc_tok_ne (s : Sig) (k : List Char) (hk : k = ['*'] ∨ k = ['='] ∨ k = ['.']) :
    ∀ w ∈ (Sig.toks s).map (fun t => t.render.toList), w ≠ k := by
  intro w hw he
  obtain ⟨t, ht, rfl⟩ := List.mem_map.1 hw
  have hl := lcTok_toks s t ht
  cases t with
  | loc l => simp [lcTok] at hl
  | sym x =>
    simp only [lcTok, decide_eq_true_eq] at hl
    subst hl
    rcases hk with rfl | rfl | rfl <;> simp [Tok.render] at he
  | num n =>
    have hc := intStr_chars n
    have e1 : (Tok.num n).render.toList = (toString n).toList := rfl
    rw [e1] at he
    rcases hk with rfl | rfl | rfl
    · have := hc '*' (by rw [he]; simp); simp at this
    · have := hc '=' (by rw [he]; simp); simp at this
    · have := hc '.' (by rw [he]; simp); simp at this
  | wire c l =>
    rw [wire_toList] at he
    have : '/' ∈ k := by rw [← he]; simp
    rcases hk with rfl | rfl | rfl <;> simp at this

theorem cutTok_append (k : List Char) (a r : List (List Char)) (h : ∀ w ∈ a, w ≠ k) : cutTok k (a ++ k :: r) = some (a, r) := by
  induction a with
  | nil => simp [cutTok]
  | cons w a ih =>
    have hw : w ≠ k := h w (by simp)
    have := ih (fun x hx => h x (by simp [hx]))
    simp [cutTok, hw, this]

theorem dropDotTok_append (a : List (List Char)) : dropDotTok (a ++ [['.']]) = some a := by
  induction a with
  | nil => simp [dropDotTok]
  | cons w a ih =>
    cases a with
    | nil => simp [dropDotTok]
    | cons u a =>
      simp only [List.cons_append] at ih ⊢
      simp [dropDotTok, ih]

/-! ## well-formed lines -/

/-- names without blanks, contexts without `/` -/
inductive LineWF : Line → Prop where
  | con (a b c : Sig) (ha : SigWF a) (hb : SigWF b) (hc : SigWF c) : LineWF (conLine a b c)
  | pub (sid sido : WireName) (h1 : plainCtx sid.1) (h2 : noBlank sid.2) (h3 : plainCtx sido.1) (h4 : noBlank sido.2) :
      LineWF (pubLine sid sido)
  | one (call : String) (h : plainCtx call) : LineWF (oneLine call)
  | fn (f c : String) (hf : noBlank f) (hc : noBlank c) : LineWF (functionLine f c)
  | block (c bn : String) (vcs : List LC) (hc : noBlank c) (hb : noBlank bn)
      (hv : ∀ x ∈ vcs, ∀ cw ∈ x.sig.head?, plainCtx cw.2.1 ∧ noBlank cw.2.2) : LineWF (blockLine c bn vcs)
  | glue (c1 b1 c2 b2 : String) (h1 : noBlank c1) (h2 : noBlank b1) (h3 : noBlank c2) (h4 : noBlank b2) :
      LineWF (glueLine c1 b1 c2 b2)

theorem noBlank_toks (s : Sig) (h : SigWF s) : ∀ w ∈ (Sig.toks s).map (fun t => t.render.toList), ' ' ∉ w := by
  intro w hw hb
  obtain ⟨t, ht, rfl⟩ := List.mem_map.1 hw
  cases s with
  | nil => simp [Sig.toks_nil, Tok.render] at ht; subst ht; simp [Tok.render] at hb
  | cons cw s =>
    rw [Sig.toks_cons] at ht
    generalize cw :: s = s' at ht h
    induction s' with
    | nil => simp [Sig.toks'] at ht
    | cons e s' ih =>
      rw [Sig.toks'_cons] at ht
      simp only [List.mem_cons] at ht
      rcases ht with rfl | rfl | ht
      · have := intStr_chars e.1 ' ' hb
        simp at this
      · rw [wire_toList] at hb
        simp only [List.mem_append, List.mem_cons] at hb
        have hw := h e (by simp)
        rcases hb with hb | hb | hb
        · exact hw.1.1 hb
        · cases hb
        · exact hw.2 hb
      · exact ih ht (fun x hx => h x (by simp [hx]))

theorem headWire_read (x : LC) (h : ∀ cw ∈ x.sig.head?, plainCtx cw.2.1 ∧ noBlank cw.2.2) :
    readName (headWire x).render.toList = headWire x ∧ ' ' ∉ (headWire x).render.toList := by
  unfold headWire
  cases hs : x.sig with
  | nil =>
    simp only
    exact ⟨by decide, by decide⟩
  | cons cw r =>
    have := h cw (by simp [hs])
    simp only
    refine ⟨readName_wire _ _ this.1.2, ?_⟩
    rw [wire_toList]
    intro hb
    simp only [List.mem_append, List.mem_cons] at hb
    rcases hb with hb | hb | hb
    · exact this.1.1 hb
    · cases hb
    · exact this.2 hb

/-- the text of a well-formed line splits into the texts of its tokens -/
theorem split_render (l : Line) (hne : l ≠ []) (h : ∀ t ∈ l, ' ' ∉ t.render.toList) :
    splitBlank (render l).toList = l.map fun t => t.render.toList := by
  rw [render_toList]
  apply splitBlank_joinBlank
  · simpa using hne
  · intro w hw
    obtain ⟨t, ht, rfl⟩ := List.mem_map.1 hw
    exact h t ht

theorem readMul_conLine (a b c : Sig) (ha : SigWF a) (hb : SigWF b) (hc : SigWF c) :
    readMul ((conLine a b c).map fun t => t.render.toList) = some (conLine a b c) := by
  have e : (conLine a b c).map (fun t => t.render.toList) =
      (Sig.toks a).map (fun t => t.render.toList) ++ ['*'] :: ((Sig.toks b).map (fun t => t.render.toList) ++
        ['='] :: ((Sig.toks c).map (fun t => t.render.toList) ++ [['.']])) := by
    simp [conLine, Tok.render]
  rw [e]
  unfold readMul
  rw [cutTok_append _ _ _ (lc_tok_ne a _ (Or.inl rfl))]
  simp only
  rw [cutTok_append _ _ _ (lc_tok_ne b _ (Or.inr (Or.inl rfl)))]
  simp only [dropDotTok_append]
  rw [readLC_toks a ha, readLC_toks b hb, readLC_toks c hc]
  simp [conLine]

theorem kw_no_slash (k : List Char) (hk : k = "[function]".toList ∨ k = "[glue]".toList ∨ k = "[external]".toList ∨
    k = "[ioblock]".toList ∨ k = ['*']) : '/' ∉ k := by
  rcases hk with rfl | rfl | rfl | rfl | rfl <;> decide

theorem parse_render_pubLine (sid sido : WireName) (h1 : plainCtx sid.1) (h2 : noBlank sid.2) (h3 : plainCtx sido.1)
    (h4 : noBlank sido.2) : readToks (splitBlank (render (pubLine sid sido)).toList) = some (pubLine sid sido) := by
  have nb : ∀ t ∈ pubLine sid sido, ' ' ∉ t.render.toList := by
    intro t ht
    simp only [pubLine, List.mem_cons, List.not_mem_nil, or_false] at ht
    rcases ht with rfl | rfl | rfl | rfl | rfl | rfl
    · decide
    · decide
    · decide
    · rw [wire_toList]; intro hb
      simp only [List.mem_append, List.mem_cons] at hb
      rcases hb with hb | hb | hb
      · exact h1.1 hb
      · cases hb
      · exact h2 hb
    · decide
    · rw [wire_toList]; intro hb
      simp only [List.mem_append, List.mem_cons] at hb
      rcases hb with hb | hb | hb
      · exact h3.1 hb
      · cases hb
      · exact h4 hb
  rw [split_render _ (by simp [pubLine]) nb]
  have r1 : readInt ['1'] = some 1 := by decide
  have r2 : readInt ['-', '1'] = some (-1) := by decide
  have n1 : (Tok.num 1).render.toList = ['1'] := by decide
  have n2 : (Tok.num (-1)).render.toList = ['-', '1'] := by decide
  have s1 : (Tok.sym "*").render.toList = ['*'] := by decide
  have s2 : (Tok.sym "=").render.toList = ['='] := by decide
  have k1 : ['*'] ≠ "[function]".toList := by decide
  have k2 : ['*'] ≠ "[glue]".toList := by decide
  have k3 : ['*'] ≠ "[external]".toList := by decide
  have k4 : ['*'] ≠ "[ioblock]".toList := by decide
  simp only [pubLine, List.map_cons, List.map_nil, n1, n2, s1, s2, readToks, k1, k2, k3, k4, if_false, if_true]
  simp [readLC, r1, r2, readName_wire _ _ h1.2, readName_wire _ _ h3.2]

theorem parse_render (l : Line) (h : LineWF l) : QapText.parseLine (render l) = some l := by
  unfold QapText.parseLine
  cases h with
  | con a b c ha hb hc =>
    have nb : ∀ t ∈ conLine a b c, ' ' ∉ t.render.toList := by
      intro t ht
      simp only [conLine, List.mem_append, List.mem_singleton] at ht
      rcases ht with ((((ht | rfl) | ht) | rfl) | ht) | rfl
      · exact noBlank_toks a ha _ (List.mem_map.2 ⟨t, ht, rfl⟩)
      · decide
      · exact noBlank_toks b hb _ (List.mem_map.2 ⟨t, ht, rfl⟩)
      · decide
      · exact noBlank_toks c hc _ (List.mem_map.2 ⟨t, ht, rfl⟩)
      · decide
    have hne : conLine a b c ≠ [] := by
      intro e0; have := conLine_length a b c; rw [e0] at this; simp at this
    rw [split_render _ hne nb]
    have hm := readMul_conLine a b c ha hb hc
    -- the first token is a number or empty: neither a directive nor `*`
    obtain ⟨t, r, ht, hl⟩ := head_toks a
    have hc0 : conLine a b c = t :: (r ++ [.sym "*"] ++ Sig.toks b ++ [.sym "="] ++ Sig.toks c ++ [.sym "."]) := by
      simp [conLine, ht]
    have hfirst : ∀ k : List Char, (k = "[function]".toList ∨ k = "[glue]".toList ∨ k = "[external]".toList ∨
        k = "[ioblock]".toList ∨ k = ['*']) → t.render.toList ≠ k := by
      intro k hk he
      cases t with
      | loc l => simp [lcTok] at hl
      | wire x y =>
        rw [wire_toList] at he
        exact kw_no_slash k hk (by rw [← he]; simp)
      | sym x =>
        simp only [lcTok, decide_eq_true_eq] at hl
        subst hl
        rcases hk with rfl | rfl | rfl | rfl | rfl <;> simp [Tok.render] at he
      | num n =>
        have hcn := intStr_chars n
        have e1 : (Tok.num n).render.toList = (toString n).toList := rfl
        rw [e1] at he
        rcases hk with rfl | rfl | rfl | rfl | rfl
        · have := hcn '[' (by rw [he]; decide); simp at this
        · have := hcn '[' (by rw [he]; decide); simp at this
        · have := hcn '[' (by rw [he]; decide); simp at this
        · have := hcn '[' (by rw [he]; decide); simp at this
        · have := hcn '*' (by rw [he]; simp); simp at this
    rw [hc0] at hm ⊢
    simp only [List.map_cons] at hm ⊢
    unfold readToks
    simp only [hfirst _ (Or.inl rfl), hfirst _ (Or.inr (Or.inl rfl)), hfirst _ (Or.inr (Or.inr (Or.inl rfl))),
      hfirst _ (Or.inr (Or.inr (Or.inr (Or.inl rfl)))), hfirst _ (Or.inr (Or.inr (Or.inr (Or.inr rfl)))), if_false]
    exact hm
  | pub sid sido h1 h2 h3 h4 => exact parse_render_pubLine sid sido h1 h2 h3 h4
  | one call h =>
    have a1 : noBlank "one" := by unfold noBlank; decide
    have a2 : noBlank "onex" := by unfold noBlank; decide
    exact parse_render_pubLine (call, "one") (call, "onex") h a1 h a2
  | fn f c hf hc =>
    have nb : ∀ t ∈ functionLine f c, ' ' ∉ t.render.toList := by
      intro t ht
      simp only [functionLine, List.mem_cons, List.not_mem_nil, or_false] at ht
      rcases ht with rfl | rfl | rfl
      · decide
      · exact hf
      · exact hc
    rw [split_render _ (by simp [functionLine]) nb]
    simp [functionLine, readToks, Tok.render, symOf_toList]
  | glue c1 b1 c2 b2 h1 h2 h3 h4 =>
    have nb : ∀ t ∈ glueLine c1 b1 c2 b2, ' ' ∉ t.render.toList := by
      intro t ht
      simp only [glueLine, List.mem_cons, List.not_mem_nil, or_false] at ht
      rcases ht with rfl | rfl | rfl | rfl | rfl
      · decide
      · exact h1
      · exact h2
      · exact h3
      · exact h4
    rw [split_render _ (by simp [glueLine]) nb]
    have k1 : ("[glue]" : String).toList ≠ "[function]".toList := by decide
    simp [glueLine, readToks, Tok.render, symOf_toList, k1]
  | block c bn vcs hc hb hv =>
    have hw : ∀ t ∈ (if vcs.isEmpty then [Tok.sym ""] else vcs.map headWire),
        readName t.render.toList = t ∧ ' ' ∉ t.render.toList := by
      intro t ht
      split at ht
      · simp only [List.mem_singleton] at ht; subst ht; exact ⟨by decide, by decide⟩
      · obtain ⟨x, hx, rfl⟩ := List.mem_map.1 ht
        exact headWire_read x (hv x hx)
    have nb : ∀ t ∈ blockLine c bn vcs, ' ' ∉ t.render.toList := by
      intro t ht
      simp only [blockLine, List.mem_append, List.mem_cons, List.not_mem_nil, or_false] at ht
      rcases ht with (rfl | rfl | rfl) | ht
      · decide
      · exact hc
      · exact hb
      · exact (hw t ht).2
    rw [split_render _ (by simp [blockLine]) nb]
    have k1 : ("[ioblock]" : String).toList ≠ "[function]".toList := by decide
    have k2 : ("[ioblock]" : String).toList ≠ "[glue]".toList := by decide
    have k3 : ("[ioblock]" : String).toList ≠ "[external]".toList := by decide
    have hmap : (if vcs.isEmpty then [Tok.sym ""] else vcs.map headWire).map (fun t => readName t.render.toList) =
        (if vcs.isEmpty then [Tok.sym ""] else vcs.map headWire) := by
      rw [List.map_congr_left (g := id) (fun t ht => (hw t ht).1)]
      simp
    simp only [blockLine, List.cons_append, List.nil_append, List.map_cons, readToks, Tok.render, k1, k2, k3, if_false, if_true,
      symOf_toList, List.map_map]
    simp only [Function.comp_def]
    have := hmap
    simp only [Tok.render] at this
    rw [this]

/-- a file of well-formed lines reads back as itself -/
theorem readBack_id (D : List Line) (h : ∀ l ∈ D, LineWF l) : readBack D = some D := by
  induction D with
  | nil => rfl
  | cons l D ih =>
    simp only [readBack, parse_render l (h l (by simp)), ih (fun x hx => h x (by simp [hx]))]

/-- on well-formed text `prove()` is `prove()` on the structured lines -/
theorem proveText_eq {Dg : Type} [DecidableEq Dg] (H : List Line → Dg) (cfg : Cfg) (s : St)
    (h : ∀ l ∈ onDisk cfg s, LineWF l) : proveText H cfg s = prove H cfg s := by
  simp [proveText, prove, readBack_id _ h]

/-! ## every line a well-formed history writes is well formed -/

theorem natStr_plain (n : Nat) : plainCtx (toString n) := by
  constructor <;> intro h
  · have := Nat.isDigit_of_mem_toDigits (b := 10) (n := n) (by decide) (by decide) (by rw [← natStr_toList']; exact h)
    simp at this
  · have := Nat.isDigit_of_mem_toDigits (b := 10) (n := n) (by decide) (by decide) (by rw [← natStr_toList']; exact h)
    simp at this

theorem plainCtx_append (a b : String) (ha : plainCtx a) (hb : plainCtx b) : plainCtx (a ++ b) := by
  constructor <;> intro h <;> simp only [String.toList_append, List.mem_append] at h
  · rcases h with h | h
    · exact ha.1 h
    · exact hb.1 h
  · rcases h with h | h
    · exact ha.2 h
    · exact hb.2 h

theorem plainCtx_callName (fn : String) (s : St) (hc : plainCtx s.ctx) (hf : plainCtx fn) : plainCtx (callName fn none s) := by
  have u : plainCtx "_" := by constructor <;> decide
  exact plainCtx_append _ _ (plainCtx_append _ _ (plainCtx_append _ _ (plainCtx_append _ _ hc u) (natStr_plain _)) u) hf

theorem noBlank_append (a b : String) (ha : noBlank a) (hb : noBlank b) : noBlank (a ++ b) := by
  intro h
  simp only [String.toList_append, List.mem_append] at h
  rcases h with h | h
  · exact ha h
  · exact hb h

/-- a wire name is well formed -/
def WireWF (w : WireName) : Prop := plainCtx w.1 ∧ noBlank w.2

theorem nextSid_wf (s : St) (hc : plainCtx s.ctx) : WireWF (nextSid s) := ⟨hc, (natStr_plain _).1⟩

theorem nextSido_wf (s : St) (hc : plainCtx s.ctx) : WireWF (nextSido s) :=
  ⟨hc, noBlank_append _ _ (by unfold noBlank; decide) (natStr_plain _).1⟩

theorem SigWF.neg {s : Sig} (p : Int) (h : SigWF s) : SigWF (Sig.neg p s) := by
  intro cw hcw
  simp only [Sig.neg, List.mem_map] at hcw
  obtain ⟨e, he, rfl⟩ := hcw
  exact h e he

theorem SigWF.append {a b : Sig} (ha : SigWF a) (hb : SigWF b) : SigWF (a ++ b) := by
  intro cw hcw
  rcases List.mem_append.1 hcw with h | h
  · exact ha cw h
  · exact hb cw h

theorem SigWF.single (k : Int) (w : WireName) (h : WireWF w) : SigWF [(k, w)] := by
  intro cw hcw
  simp only [List.mem_singleton] at hcw
  subst hcw; exact h

theorem SigWF.nil : SigWF [] := by intro cw hcw; simp at hcw

/-- `s'` extends the equation file of `s` by well-formed lines; context, stack and guard are left alone -/
def WStep (s s' : St) : Prop :=
  (∃ ne, s'.eqs = s.eqs ++ ne ∧ ∀ l ∈ ne, LineWF l) ∧ s'.ctx = s.ctx ∧ s'.stack = s.stack ∧ s'.guard = s.guard

theorem WStep.refl (s : St) : WStep s s := ⟨⟨[], by simp, by simp⟩, rfl, rfl, rfl⟩

theorem WStep.trans {s s' s'' : St} (h1 : WStep s s') (h2 : WStep s' s'') : WStep s s'' := by
  obtain ⟨⟨n1, e1, g1⟩, c1, k1, u1⟩ := h1
  obtain ⟨⟨n2, e2, g2⟩, c2, k2, u2⟩ := h2
  refine ⟨⟨n1 ++ n2, by simp [e2, e1], ?_⟩, c2.trans c1, k2.trans k1, u2.trans u1⟩
  intro l hl
  rcases List.mem_append.1 hl with hl | hl
  · exact g1 l hl
  · exact g2 l hl

theorem WStep.lines {s s' : St} (h : WStep s s') (hs : ∀ l ∈ s.eqs, LineWF l) : ∀ l ∈ s'.eqs, LineWF l := by
  obtain ⟨⟨n, e, g⟩, _⟩ := h
  intro l hl
  rw [e] at hl
  rcases List.mem_append.1 hl with hl | hl
  · exact hs l hl
  · exact g l hl

theorem wstep_privval (v : Int) (s : St) : WStep s (privval v s).2 := ⟨⟨[], by simp, by simp⟩, rfl, rfl, rfl⟩

theorem wstep_con (a b c : Sig) (s : St) (ha : SigWF a) (hb : SigWF b) (hc : SigWF c) : WStep s (addConstraint a b c s) :=
  ⟨⟨[conLine a b c], rfl, by intro l hl; simp only [List.mem_singleton] at hl; subst hl; exact .con a b c ha hb hc⟩, rfl, rfl, rfl⟩

/-- the head wire of `y` is well formed -/
def HeadWF (y : LC) : Prop := ∀ cw ∈ y.sig.head?, plainCtx cw.2.1 ∧ noBlank cw.2.2

theorem wstep_ensureSingle (cfg : Cfg) (x : LC) (s : St) (hc : plainCtx s.ctx) (hx : SigWF x.sig)
    (hg : ∀ g, s.guard = some g → SigWF g.sig) :
    HeadWF (ensureSingle cfg x s).1 ∧ WStep s (ensureSingle cfg x s).2 := by
  cases h : isSingle cfg x with
  | true =>
    rw [ensureSingle_pos _ _ _ h]
    refine ⟨?_, WStep.refl s⟩
    intro cw hcw
    have : cw ∈ x.sig := by
      cases hs : x.sig with
      | nil => rw [hs] at hcw; simp at hcw
      | cons e r => rw [hs] at hcw; simp at hcw; subst hcw; simp
    exact hx cw this
  | false =>
    have w1 := nextSid_wf s hc
    have hd : HeadWF ⟨x.value, [(1, nextSid s)]⟩ := by
      intro cw hcw; simp at hcw; subst hcw; exact w1
    cases hgd : s.guard with
    | none =>
      rw [ensureSingle_neg _ _ _ h hgd]
      refine ⟨hd, (wstep_privval _ s).trans (wstep_con _ _ _ _ SigWF.nil SigWF.nil ?_)⟩
      exact (SigWF.single 1 _ w1).append (hx.neg cfg.p)
    | some g =>
      rw [ensureSingle_guarded _ _ _ h g hgd]
      have w2 : WireWF (nextSid (privval x.value s).2) := nextSid_wf _ hc
      refine ⟨hd, (((wstep_privval _ s).trans (wstep_privval _ _)).trans
        (wstep_con _ _ _ _ SigWF.nil SigWF.nil ?_)).trans (wstep_con _ _ _ _ (hg g hgd) (SigWF.single 1 _ w2) SigWF.nil)⟩
      exact ((SigWF.single 1 _ w1).append (hx.neg cfg.p)).append (SigWF.single 1 _ w2)

theorem wstep_ensureAll (cfg : Cfg) (xs : List LC) : ∀ (s : St), plainCtx s.ctx → (∀ x ∈ xs, SigWF x.sig) →
    (∀ g, s.guard = some g → SigWF g.sig) →
    (∀ y ∈ (ensureAll cfg xs s).1, HeadWF y) ∧ WStep s (ensureAll cfg xs s).2 := by
  induction xs with
  | nil => intro s _ _ _; exact ⟨by simp [ensureAll], WStep.refl s⟩
  | cons x xs ih =>
    intro s hc hx hg
    obtain ⟨h1, h2⟩ := wstep_ensureSingle cfg x s hc (hx x (by simp)) hg
    obtain ⟨g1, g2⟩ := ih (ensureSingle cfg x s).2 (by rw [h2.2.1]; exact hc) (fun y hy => hx y (by simp [hy]))
      (by rw [h2.2.2.2]; exact hg)
    simp only [ensureAll]
    refine ⟨?_, h2.trans g2⟩
    intro y hy
    simp only [List.mem_cons] at hy
    rcases hy with rfl | hy
    · exact h1
    · exact g1 y hy

theorem wstep_declareBlock (cfg : Cfg) (bn : String) (vcs : List LC) (rnd1 rnd2 : Int) (s : St) (hc : plainCtx s.ctx)
    (hb : noBlank bn) (hx : ∀ x ∈ vcs, SigWF x.sig) (hg : ∀ g, s.guard = some g → SigWF g.sig) :
    WStep s (declareBlock cfg bn vcs rnd1 rnd2 s).2 := by
  obtain ⟨h1, h2⟩ := wstep_ensureAll cfg vcs s hc hx hg
  refine h2.trans ⟨⟨[blockLine (ensureAll cfg vcs s).2.ctx bn (ensureAll cfg vcs s).1], rfl, ?_⟩, rfl, rfl, rfl⟩
  intro l hl
  simp only [List.mem_singleton] at hl
  subst hl
  rw [h2.2.1]
  exact .block _ _ _ hc.1 hb h1

theorem wstep_vcGlue (cfg : Cfg) (c1 c2 : String) (vals : List (LC × LC)) (rndv r2a r2b : Int) (s : St)
    (h1 : plainCtx c1) (h2 : plainCtx c2) (hv : ∀ ab ∈ vals, SigWF ab.1.sig ∧ SigWF ab.2.sig)
    (hg : ∀ g, s.guard = some g → SigWF g.sig) :
    WStep s (vcGlue cfg c1 c2 vals rndv r2a r2b s) := by
  let s1 : St := { s with ctx := c1 }
  let bn1 := toString (dget s1.ctr c1)
  let s2 := bump c1 s1
  have A := wstep_declareBlock cfg bn1 (vals.map Prod.fst) rndv r2a s2 h1 (natStr_plain _).1
    (by intro x hx; obtain ⟨ab, hab, rfl⟩ := List.mem_map.1 hx; exact (hv ab hab).1) hg
  let s3 := (declareBlock cfg bn1 (vals.map Prod.fst) rndv r2a s2).2
  let s4 : St := { s3 with ctx := c2 }
  let bn2 := toString (dget s4.ctr c2)
  let s5 := bump c2 s4
  have hg5 : ∀ g, s5.guard = some g → SigWF g.sig := by
    intro g hgg
    have : s5.guard = s.guard := A.2.2.2
    rw [this] at hgg; exact hg g hgg
  have B := wstep_declareBlock cfg bn2 (vals.map Prod.snd) rndv r2b s5 h2 (natStr_plain _).1
    (by intro x hx; obtain ⟨ab, hab, rfl⟩ := List.mem_map.1 hx; exact (hv ab hab).2) hg5
  let s6 := (declareBlock cfg bn2 (vals.map Prod.snd) rndv r2b s5).2
  let s7 : St := { s6 with ctx := s.ctx }
  have e : vcGlue cfg c1 c2 vals rndv r2a r2b s = flush (emit (glueLine c1 bn1 c2 bn2) s7) := rfl
  rw [e]
  obtain ⟨⟨n1, e1, g1⟩, _, k1, u1⟩ := A
  obtain ⟨⟨n2, e2, g2⟩, _, k2, u2⟩ := B
  refine ⟨⟨n1 ++ n2 ++ [glueLine c1 bn1 c2 bn2], ?_, ?_⟩, rfl, ?_, ?_⟩
  · show s6.eqs ++ [_] = _
    have : s6.eqs = s3.eqs ++ n2 := e2
    rw [this]
    have : s3.eqs = s.eqs ++ n1 := e1
    rw [this]; simp
  · intro l hl
    simp only [List.mem_append, List.mem_singleton] at hl
    rcases hl with (hl | hl) | rfl
    · exact g1 l hl
    · exact g2 l hl
    · exact .glue _ _ _ _ h1.1 (natStr_plain _).1 h2.1 (natStr_plain _).1
  · show s6.stack = s.stack
    have a : s6.stack = s3.stack := k2
    have b : s3.stack = s.stack := k1
    rw [a, b]
  · show s6.guard = s.guard
    have a : s6.guard = s3.guard := u2
    have b : s3.guard = s.guard := u1
    rw [a, b]

/-- the names an event brings in are well formed: no blank, no `/` in a function name or a context -/
def OpWF : Op → Prop
  | .con a b c => SigWF a ∧ SigWF b ∧ SigWF c
  | .enter fn args _ _ _ => plainCtx fn ∧ ∀ a ∈ args, SigWF a.lc.sig
  | .leave rets _ _ _ => ∀ a ∈ rets, SigWF a.lc.sig
  | .guard (some g) => SigWF g.sig
  | _ => True

structure TextInv (s : St) : Prop where
  lines : ∀ l ∈ s.eqs, LineWF l
  ctx : plainCtx s.ctx
  frames : ∀ f ∈ s.stack, plainCtx f.old ∧ plainCtx f.new ∧ ∀ ab ∈ f.argret, SigWF ab.1.sig ∧ SigWF ab.2.sig
  guard : ∀ g, s.guard = some g → SigWF g.sig

theorem copyArgs_wf (args : List Arg) : ∀ (s : St), plainCtx s.ctx → (∀ a ∈ args, SigWF a.lc.sig) →
    (∀ ab ∈ (copyArgs args s).1, SigWF ab.1.sig ∧ SigWF ab.2.sig) ∧ WStep s (copyArgs args s).2 := by
  induction args with
  | nil => intro s _ _; exact ⟨by simp [copyArgs], WStep.refl s⟩
  | cons a args ih =>
    intro s hc ha
    cases hk : a.kind with
    | lincomb =>
      obtain ⟨g1, g2⟩ := ih (privval a.lc.value s).2 hc (fun x hx => ha x (by simp [hx]))
      have e : copyArgs (a :: args) s =
          ((a.lc, ⟨a.lc.value, [(1, nextSid s)]⟩) :: (copyArgs args (privval a.lc.value s).2).1,
           (copyArgs args (privval a.lc.value s).2).2) := by
        simp [copyArgs, hk, privval_eq]
      rw [e]
      refine ⟨?_, (wstep_privval _ s).trans g2⟩
      intro ab hab
      simp only [List.mem_cons] at hab
      rcases hab with rfl | hab
      · exact ⟨ha a (by simp), SigWF.single 1 _ (nextSid_wf s hc)⟩
      · exact g1 ab hab
    | bool =>
      have e : copyArgs (a :: args) s = copyArgs args s := by simp [copyArgs, hk]
      rw [e]; exact ih s hc (fun x hx => ha x (by simp [hx]))
    | fxp =>
      have e : copyArgs (a :: args) s = copyArgs args s := by simp [copyArgs, hk]
      rw [e]; exact ih s hc (fun x hx => ha x (by simp [hx]))

theorem copyRets_wf (args : List Arg) : ∀ (s : St), plainCtx s.ctx → (∀ a ∈ args, SigWF a.lc.sig) →
    (∀ ab ∈ (copyRets args s).1, SigWF ab.1.sig ∧ SigWF ab.2.sig) ∧ WStep s (copyRets args s).2 := by
  induction args with
  | nil => intro s _ _; exact ⟨by simp [copyRets], WStep.refl s⟩
  | cons a args ih =>
    intro s hc ha
    cases hk : a.kind with
    | lincomb =>
      obtain ⟨g1, g2⟩ := ih (privval a.lc.value s).2 hc (fun x hx => ha x (by simp [hx]))
      have e : copyRets (a :: args) s =
          ((⟨a.lc.value, [(1, nextSid s)]⟩, a.lc) :: (copyRets args (privval a.lc.value s).2).1,
           (copyRets args (privval a.lc.value s).2).2) := by
        simp [copyRets, hk, privval_eq]
      rw [e]
      refine ⟨?_, (wstep_privval _ s).trans g2⟩
      intro ab hab
      simp only [List.mem_cons] at hab
      rcases hab with rfl | hab
      · exact ⟨SigWF.single 1 _ (nextSid_wf s hc), ha a (by simp)⟩
      · exact g1 ab hab
    | bool =>
      have e : copyRets (a :: args) s = copyRets args s := by simp [copyRets, hk]
      rw [e]; exact ih s hc (fun x hx => ha x (by simp [hx]))
    | fxp =>
      have e : copyRets (a :: args) s = copyRets args s := by simp [copyRets, hk]
      rw [e]; exact ih s hc (fun x hx => ha x (by simp [hx]))

theorem text_step (cfg : Cfg) (s : St) (op : Op) (hs : TextInv s) (ho : OpWF op) : TextInv (step cfg s op) := by
  cases op with
  | priv v => exact ⟨hs.lines, hs.ctx, hs.frames, hs.guard⟩
  | pub v =>
    refine ⟨?_, hs.ctx, hs.frames, hs.guard⟩
    intro l hl
    have : (step cfg s (.pub v)).eqs = s.eqs ++ [pubLine (nextSid s) (nextSido s)] := rfl
    rw [this] at hl
    simp only [List.mem_append, List.mem_singleton] at hl
    rcases hl with hl | rfl
    · exact hs.lines l hl
    · exact .pub _ _ (nextSid_wf s hs.ctx).1 (nextSid_wf s hs.ctx).2 (nextSido_wf s hs.ctx).1 (nextSido_wf s hs.ctx).2
  | con a b c =>
    obtain ⟨ha, hb, hc⟩ := ho
    exact ⟨(wstep_con a b c s ha hb hc).lines hs.lines, hs.ctx, hs.frames, hs.guard⟩
  | guard g =>
    refine ⟨hs.lines, hs.ctx, hs.frames, ?_⟩
    intro g' hg'
    have : (step cfg s (.guard g)).guard = g := rfl
    rw [this] at hg'
    subst hg'
    exact ho
  | abort =>
    cases hst : s.stack with
    | nil =>
      have e : step cfg s .abort = s := by simp [step, hst]
      rw [e]; exact hs
    | cons f rest =>
      have e : step cfg s .abort = { s with stack := rest } := by simp [step, hst]
      rw [e]
      exact ⟨hs.lines, hs.ctx, fun f' hf' => hs.frames f' (by rw [hst]; simp [show f' ∈ rest from hf']), hs.guard⟩
  | enter fn args d1 d2 d3 =>
    obtain ⟨hfn, hargs⟩ := ho
    have hcn : plainCtx (callName fn none s) := plainCtx_callName fn s hs.ctx hfn
    have hc1 : plainCtx (enterfn fn none d1 d2 d3 s).ctx := by rw [enterfn_ctx]; exact hcn
    obtain ⟨g1, g2⟩ := copyArgs_wf args (enterfn fn none d1 d2 d3 s) hc1 hargs
    have e : step cfg s (.enter fn args d1 d2 d3) =
        { (copyArgs args (enterfn fn none d1 d2 d3 s)).2 with
          stack := ⟨s.ctx, (enterfn fn none d1 d2 d3 s).ctx, (copyArgs args (enterfn fn none d1 d2 d3 s)).1⟩ ::
            (copyArgs args (enterfn fn none d1 d2 d3 s)).2.stack } := rfl
    have l1 : ∀ l ∈ (enterfn fn none d1 d2 d3 s).eqs, LineWF l := by
      intro l hl
      rw [enterfn_eqs] at hl
      simp only [List.mem_append, List.mem_cons, List.not_mem_nil, or_false] at hl
      rcases hl with hl | rfl | rfl
      · exact hs.lines l hl
      · exact .fn _ _ hfn.1 hcn.1
      · exact .one _ hcn
    rw [e]
    have hstk : (copyArgs args (enterfn fn none d1 d2 d3 s)).2.stack = s.stack := by rw [g2.2.2.1]; simp
    have hgd : (copyArgs args (enterfn fn none d1 d2 d3 s)).2.guard = s.guard := by rw [g2.2.2.2]; rfl
    refine ⟨g2.lines l1, ?_, ?_, ?_⟩
    · show plainCtx (copyArgs args (enterfn fn none d1 d2 d3 s)).2.ctx
      rw [g2.2.1]; exact hc1
    · intro f hf
      simp only [List.mem_cons] at hf
      rcases hf with rfl | hf
      · exact ⟨hs.ctx, hc1, g1⟩
      · rw [hstk] at hf; exact hs.frames f hf
    · intro g hg
      have : (copyArgs args (enterfn fn none d1 d2 d3 s)).2.guard = some g := hg
      rw [hgd] at this
      exact hs.guard g this
  | leave rets rndv r2a r2b =>
    cases hst : s.stack with
    | nil =>
      have e : step cfg s (.leave rets rndv r2a r2b) = s := by simp [step, hst]
      rw [e]; exact hs
    | cons f rest =>
      rw [leave_eq cfg s f rest hst]
      obtain ⟨fo, fnw, far⟩ := hs.frames f (by rw [hst]; simp)
      let s1 := continuefn f.old { s with stack := rest }
      have hc1 : plainCtx s1.ctx := fo
      obtain ⟨g1, g2⟩ := copyRets_wf rets s1 hc1 ho
      have hg2 : ∀ g, (copyRets rets s1).2.guard = some g → SigWF g.sig := by
        intro g hg
        have e : (copyRets rets s1).2.guard = s.guard := by rw [g2.2.2.2]; rfl
        rw [e] at hg; exact hs.guard g hg
      have G := wstep_vcGlue cfg f.old f.new (f.argret ++ (copyRets rets s1).1) rndv r2a r2b (copyRets rets s1).2 fo fnw
        (by
          intro ab hab
          rcases List.mem_append.1 hab with hab | hab
          · exact far ab hab
          · exact g1 ab hab) hg2
      have tot := g2.trans G
      have l1 : ∀ l ∈ s1.eqs, LineWF l := hs.lines
      refine ⟨tot.lines l1, ?_, ?_, ?_⟩
      · rw [tot.2.1]; exact hc1
      · intro f' hf'
        rw [tot.2.2.1] at hf'
        exact hs.frames f' (by rw [hst]; simp [show f' ∈ rest from hf'])
      · intro g hg
        rw [tot.2.2.2] at hg
        exact hs.guard g hg

theorem text_runFrom (cfg : Cfg) (ops : List Op) : ∀ (s : St), TextInv s → (∀ op ∈ ops, OpWF op) →
    TextInv (runFrom cfg s ops) := by
  induction ops with
  | nil => intro s hs _; exact hs
  | cons o ops ih =>
    intro s hs ho
    exact ih _ (text_step cfg s o hs (ho o (by simp))) (fun op h => ho op (by simp [h]))

theorem text_init (d1 d2 d3 : Int) : TextInv (St.init d1 d2 d3) := by
  have hm : plainCtx "main" := by constructor <;> decide
  refine ⟨?_, hm, by simp [St.init], by intro g hg; rw [init_guard] at hg; cases hg⟩
  intro l hl
  simp only [St.init, enterfn_eqs, List.nil_append, List.mem_cons, List.not_mem_nil, or_false, callName] at hl
  rcases hl with rfl | rfl
  · exact .fn _ _ hm.1 hm.1
  · exact .one _ hm

/-- every line a history with well-formed names writes is well formed -/
theorem text_run (cfg : Cfg) (d1 d2 d3 : Int) (ops : List Op) (ho : ∀ op ∈ ops, OpWF op) :
    ∀ l ∈ (run cfg d1 d2 d3 ops).eqs, LineWF l :=
  (text_runFrom cfg ops _ (text_init d1 d2 d3) ho).lines

end Pysnark.Qaptools
