import PysnarkModel.Model.Select
/-!
# Converse lemmas about the selection loops (used by C20: which configurations reach `nobackend`)
and two list lemmas about keyed tables.  Core Lean only.
-/
namespace Pysnark
open Pysnark.Select

/-- a successful auto-detection loop splits the registry at the entry it returns -/
theorem autoLoop_some_split (l : String → Bool) : ∀ (reg : List (String × String))
    (e : String × String) (errs : List String), autoLoop l reg = (some e, errs) →
    ∃ a b, reg = a ++ e :: b ∧ (∀ x ∈ a, l x.2 = false) ∧ l e.2 = true ∧ errs = a.map Prod.snd
  | [], e, errs, h => by simp [autoLoop] at h
  | x :: r, e, errs, h => by
    simp only [autoLoop] at h
    split at h
    · rename_i hx
      simp only [Prod.mk.injEq, Option.some.injEq] at h
      obtain ⟨rfl, rfl⟩ := h
      exact ⟨[], r, rfl, by simp, hx, rfl⟩
    · rename_i hx
      simp only [Prod.mk.injEq] at h
      obtain ⟨h1, h2⟩ := h
      obtain ⟨a, b, hr, ha, he, herr⟩ := autoLoop_some_split l r e (autoLoop l r).2 (Prod.ext h1 rfl)
      refine ⟨x :: a, b, by rw [hr]; rfl, ?_, he, ?_⟩
      · intro y hy
        rcases List.mem_cons.mp hy with rfl | hy
        · simpa using hx
        · exact ha y hy
      · rw [← h2, herr]; rfl

/-- a result produced by the auto-detection stage is the first loadable registry entry -/
theorem usedAuto_ok_split (c : Config) (hauto : usedAuto c = true) {n m : String} {u : Bool}
    {errs : List String} (h : select c = .ok n m u errs) :
    ∃ a b, c.registry = a ++ (n, m) :: b ∧ (∀ x ∈ a, c.loadable x.2 = false) ∧
      c.loadable m = true ∧ errs = a.map Prod.snd := by
  have key : ∀ u', (stage3 c u').1 = .auto → (stage3 c u').2 = .ok n m u errs →
      ∃ a b, c.registry = a ++ (n, m) :: b ∧ (∀ x ∈ a, c.loadable x.2 = false) ∧
        c.loadable m = true ∧ errs = a.map Prod.snd := by
    intro u' hs hr
    simp only [stage3] at hs hr
    split at hr
    · rename_i hi; simp [hi] at hs
    · split at hr
      · rename_i e errs' heq
        simp only [Sel.ok.injEq] at hr
        obtain ⟨rfl, rfl, _, rfl⟩ := hr
        exact autoLoop_some_split _ _ _ _ heq
      · simp at hr
  simp only [usedAuto, beq_iff_eq] at hauto
  simp only [select] at h
  simp only [selectStaged] at hauto h
  cases h1 : stage1 c.registry c.preimported with
  | some e => simp [h1] at hauto
  | none =>
    rw [h1] at hauto h
    cases hv : c.env with
    | none =>
      rw [hv] at hauto h
      exact key false hauto h
    | some v =>
      rw [hv] at hauto h
      dsimp only at hauto h
      cases h2 : envLoop c.loadable v c.registry none with
      | error m' => simp [h2] at hauto
      | ok o =>
        rw [h2] at hauto h
        cases o with
        | none => exact key true hauto h
        | some e => simp at hauto

/-- `a ++ x :: b = front ++ [x]` with `x` not in `front` forces `a = front`, `b = []` -/
theorem split_unique_last {α : Type} : ∀ (front a b : List α) (x : α), x ∉ front →
    a ++ x :: b = front ++ [x] → a = front ∧ b = []
  | [], [], b, x, _, h => by simpa using h
  | [], z :: a, b, x, _, h => by
    simp only [List.cons_append, List.nil_append, List.cons.injEq] at h
    exact absurd h.2 (by simp)
  | y :: f, [], b, x, hx, h => by
    simp only [List.nil_append, List.cons_append, List.cons.injEq] at h
    exact absurd (by rw [h.1]; simp) hx
  | y :: f, z :: a, b, x, hx, h => by
    simp only [List.cons_append, List.cons.injEq] at h
    obtain ⟨ha, hb⟩ := split_unique_last f a b x (fun hm => hx (List.mem_cons_of_mem _ hm)) h.2
    exact ⟨by rw [h.1, ha], hb⟩

/-- a successful `lookup` returns an entry of the table -/
theorem lookup_mem {α : Type} (k : String) (v : α) : ∀ (l : List (String × α)),
    l.lookup k = some v → (k, v) ∈ l
  | [], h => by simp [List.lookup] at h
  | (k', v') :: r, h => by
    simp only [List.lookup] at h
    split at h
    · rename_i hk
      simp only [Option.some.injEq] at h
      have : k = k' := by simpa using hk
      rw [this, h]; simp
    · exact List.mem_cons_of_mem _ (lookup_mem k v r h)

/-- if the values of a keyed table are told apart by `f`, a value is found under one key only -/
theorem lookup_key_injective {α β : Type} (f : α → β) : ∀ (l : List (String × α)),
    (l.map fun kv => f kv.2).Nodup → ∀ (a b : String) (v : α),
    l.lookup a = some v → l.lookup b = some v → a = b := by
  intro l hnd a b v ha hb
  have hma := lookup_mem a v l ha
  have hmb := lookup_mem b v l hb
  clear ha hb
  induction l with
  | nil => simp at hma
  | cons x r ih =>
    simp only [List.map_cons, List.nodup_cons, List.mem_map, not_exists, not_and] at hnd
    rcases List.mem_cons.mp hma with h1 | h1 <;> rcases List.mem_cons.mp hmb with h2 | h2
    · rw [← h2] at h1; exact congrArg Prod.fst h1
    · exact absurd (by rw [← h1]) (hnd.1 (b, v) h2)
    · exact absurd (by rw [← h2]) (hnd.1 (a, v) h1)
    · exact ih hnd.2 h1 h2

end Pysnark
