import PysnarkModel.Model.Snark
import PysnarkModel.Lemmas.Emit
import PysnarkModel.Lemmas.InvVal
/-!
# `for_each_in` and the `@snark` wrapper (C17)
-/
namespace Pysnark

/-! ## induction over values -/
theorem Val.induct {P : Val → Prop} (leaf : ∀ v, v.isLeaf = true → P v)
    (list : ∀ xs, (∀ x ∈ xs, P x) → P (.list xs)) (tuple : ∀ xs, (∀ x ∈ xs, P x) → P (.tuple xs)) :
    ∀ v, P v :=
  @Val.rec P (fun xs => ∀ x ∈ xs, P x) (leaf _ rfl) (fun _ => leaf _ rfl) (fun _ _ => leaf _ rfl)
    (fun _ => leaf _ rfl) (fun _ => leaf _ rfl) (fun _ => leaf _ rfl) list tuple (by simp)
    (fun head tail h1 h2 x hx => by
      rcases List.mem_cons.mp hx with rfl | hx
      · exact h1
      · exact h2 x hx)

theorem forEachIn_leaf (conv : Val → M Val) {v : Val} (h : v.isLeaf = true) : forEachIn conv v = conv v := by
  cases v <;> first | rfl | simp [Val.isLeaf] at h

theorem leaves_leaf {v : Val} (h : v.isLeaf = true) : v.leaves = [v] := by
  cases v <;> first | rfl | simp [Val.isLeaf] at h

theorem skel_leaf {v : Val} (h : v.isLeaf = true) : v.skel = .none := by
  cases v <;> first | rfl | simp [Val.isLeaf] at h

@[simp] theorem leaves_list (xs : List Val) : (Val.list xs).leaves = Val.leavesL xs := by simp [Val.leaves]
@[simp] theorem leaves_tuple (xs : List Val) : (Val.tuple xs).leaves = Val.leavesL xs := by simp [Val.leaves]
@[simp] theorem leavesL_nil : Val.leavesL [] = [] := by simp [Val.leavesL]
@[simp] theorem leavesL_cons (x : Val) (xs : List Val) : Val.leavesL (x :: xs) = x.leaves ++ Val.leavesL xs := by
  simp [Val.leavesL]
@[simp] theorem skel_list (xs : List Val) : (Val.list xs).skel = .list (Val.skelL xs) := by simp [Val.skel]
@[simp] theorem skel_tuple (xs : List Val) : (Val.tuple xs).skel = .tuple (Val.skelL xs) := by simp [Val.skel]
@[simp] theorem skelL_nil : Val.skelL [] = [] := by simp [Val.skelL]
@[simp] theorem skelL_cons (x : Val) (xs : List Val) : Val.skelL (x :: xs) = x.skel :: Val.skelL xs := by
  simp [Val.skelL]

/-! ## generic specification of one `for_each_in` pass -/

/-- what one pass does, given what the converter does on leaves: `I` is an invariant of the state,
`σ r = τ v` relates a converted leaf to the original, `step` is the state change per leaf -/
def FESpec {β : Type} (conv : Val → M Val) (I : St → Prop) (σ τ : Val → β) (step : St → Val → St)
    (v : Val) : Prop :=
  ∀ s r s', I s → forEachIn conv v s = .ok (r, s') →
    r.skel = v.skel ∧ r.leaves.map σ = v.leaves.map τ ∧ s' = v.leaves.foldl step s ∧ I s'

theorem forEachInL_spec {β : Type} {conv : Val → M Val} {I : St → Prop} {σ τ : Val → β}
    {step : St → Val → St} : ∀ (xs : List Val), (∀ x ∈ xs, FESpec conv I σ τ step x) →
    ∀ s rs s', I s → forEachInL conv xs s = .ok (rs, s') →
      Val.skelL rs = Val.skelL xs ∧ (Val.leavesL rs).map σ = (Val.leavesL xs).map τ ∧
      s' = (Val.leavesL xs).foldl step s ∧ I s'
  | [], _, s, rs, s', hI, h => by
    unfold forEachInL at h
    obtain ⟨rfl, rfl⟩ := pure_ok' h
    exact ⟨rfl, rfl, rfl, hI⟩
  | x :: xs, ih, s, rs, s', hI, h => by
    unfold forEachInL at h
    obtain ⟨y, s1, h1, hk⟩ := bind_ok.mp h
    obtain ⟨ys, s2, h2, hk2⟩ := bind_ok.mp hk
    obtain ⟨rfl, rfl⟩ := pure_ok' hk2
    obtain ⟨a1, a2, a3, a4⟩ := ih x List.mem_cons_self s y s1 hI h1
    obtain ⟨b1, b2, b3, b4⟩ := forEachInL_spec xs (fun x' hx' => ih x' (List.mem_cons_of_mem _ hx'))
      s1 ys s2 a4 h2
    refine ⟨by simp [a1, b1], by simp [a2, b2], ?_, b4⟩
    rw [b3, a3]; simp [List.foldl_append]

theorem forEachIn_spec {β : Type} {conv : Val → M Val} {I : St → Prop} {σ τ : Val → β}
    {step : St → Val → St}
    (hconv : ∀ v, v.isLeaf = true → ∀ s r s', I s → conv v s = .ok (r, s') →
      r.isLeaf = true ∧ σ r = τ v ∧ s' = step s v ∧ I s') :
    ∀ v, FESpec conv I σ τ step v := by
  intro v
  induction v using Val.induct with
  | leaf v hv =>
    intro s r s' hI h
    rw [forEachIn_leaf conv hv] at h
    obtain ⟨c1, c2, c3, c4⟩ := hconv v hv s r s' hI h
    rw [skel_leaf hv, skel_leaf c1, leaves_leaf hv, leaves_leaf c1]
    exact ⟨rfl, by simp [c2], by simp [c3], c4⟩
  | list xs ih =>
    intro s r s' hI h
    unfold forEachIn at h
    obtain ⟨ys, s1, h1, hk⟩ := bind_ok.mp h
    obtain ⟨rfl, rfl⟩ := pure_ok' hk
    obtain ⟨b1, b2, b3, b4⟩ := forEachInL_spec xs ih s ys s1 hI h1
    exact ⟨by simp [b1], by simpa using b2, by simpa using b3, b4⟩
  | tuple xs ih =>
    intro s r s' hI h
    unfold forEachIn at h
    obtain ⟨ys, s1, h1, hk⟩ := bind_ok.mp h
    obtain ⟨rfl, rfl⟩ := pure_ok' hk
    obtain ⟨b1, b2, b3, b4⟩ := forEachInL_spec xs ih s ys s1 hI h1
    exact ⟨by simp [b1], by simpa using b2, by simpa using b3, b4⟩

/-! ## `snarkIn` -/

/-- append public values; nothing else changes -/
def St.addPub (s : St) (vs : List Int) : St := { s with pub := s.pub ++ vs }

@[simp] theorem St.addPub_nil (s : St) : s.addPub [] = s := by simp [St.addPub]
@[simp] theorem St.addPub_addPub (s : St) (a b : List Int) : (s.addPub a).addPub b = s.addPub (a ++ b) := by
  simp [St.addPub, List.append_assoc]
@[simp] theorem St.addPub_res (s : St) (a : List Int) : (s.addPub a).resolution = s.resolution := rfl

/-- forget the wires: what a leaf looks like at the Python level -/
def Val.erase : Val → Val
  | .lc x => .lc ⟨x.value, []⟩
  | .lcb x => .lcb ⟨x.value, []⟩
  | .fxp x => .fxp ⟨x.value, []⟩
  | v => v

/-- value-level effect of the three input passes on an (erased) leaf -/
def inIntE : Val → Val
  | .int c => .lc ⟨c, []⟩
  | v => v
def inFltE (res : Nat) : Val → Val
  | .flt m e => .fxp ⟨scaleFlt m e res, []⟩
  | v => v

def stepInt (s : St) (v : Val) : St :=
  match v.intOf? with
  | some c => s.addPub [c]
  | Option.none => s

def stepFlt (s : St) (v : Val) : St :=
  match v.fltOf? with
  | some me => s.addPub [scaleFlt me.1 me.2 s.resolution]
  | Option.none => s

theorem foldl_stepInt : ∀ (l : List Val) (s : St), l.foldl stepInt s = s.addPub (l.filterMap Val.intOf?)
  | [], s => by simp
  | v :: l, s => by
    rw [List.foldl_cons, foldl_stepInt l, List.filterMap_cons]
    unfold stepInt
    cases v.intOf? <;> simp

theorem foldl_stepFlt : ∀ (l : List Val) (s : St),
    l.foldl stepFlt s = s.addPub ((l.filterMap Val.fltOf?).map (fun me => scaleFlt me.1 me.2 s.resolution))
  | [], s => by simp
  | v :: l, s => by
    rw [List.foldl_cons, foldl_stepFlt l, List.filterMap_cons]
    unfold stepFlt
    cases v.fltOf? <;> simp

theorem inInt_leaf (v : Val) (hv : v.isLeaf = true) (s : St) (r : Val) (s' : St) (_ : True)
    (h : inInt v s = .ok (r, s')) :
    r.isLeaf = true ∧ r.erase = inIntE v.erase ∧ s' = stepInt s v ∧ True := by
  cases v with
  | int c =>
    unfold inInt mkVal at h
    simp only at h
    obtain ⟨x, s1, h1, hk⟩ := bind_ok.mp h
    obtain ⟨rfl, rfl⟩ := pure_ok' hk
    obtain ⟨rfl, rfl, -⟩ := pubVal_ok h1
    exact ⟨rfl, rfl, rfl, trivial⟩
  | list _ => simp [Val.isLeaf] at hv
  | tuple _ => simp [Val.isLeaf] at hv
  | _ =>
    unfold inInt at h
    obtain ⟨rfl, rfl⟩ := pure_ok' h
    exact ⟨hv, rfl, rfl, trivial⟩

theorem inFlt_leaf (res : Nat) (v : Val) (hv : v.isLeaf = true) (s : St) (r : Val) (s' : St)
    (hI : s.resolution = res) (h : inFlt v s = .ok (r, s')) :
    r.isLeaf = true ∧ r.erase = inFltE res v.erase ∧ s' = stepFlt s v ∧ s'.resolution = res := by
  cases v with
  | flt m e =>
    unfold inFlt mkVal at h
    simp only at h
    rw [getRes_bind] at h
    obtain ⟨x, s1, h1, hk⟩ := bind_ok.mp h
    obtain ⟨rfl, rfl⟩ := pure_ok' hk
    obtain ⟨rfl, rfl, -⟩ := pubVal_ok h1
    exact ⟨rfl, by simp [Val.erase, inFltE, hI], rfl, hI⟩
  | list _ => simp [Val.isLeaf] at hv
  | tuple _ => simp [Val.isLeaf] at hv
  | _ =>
    unfold inFlt at h
    obtain ⟨rfl, rfl⟩ := pure_ok' h
    exact ⟨hv, rfl, rfl, hI⟩

theorem inBool_leaf (v : Val) (hv : v.isLeaf = true) (s : St) (r : Val) (s' : St) (_ : True)
    (h : inBool v s = .ok (r, s')) :
    r.isLeaf = true ∧ r.erase = v.erase ∧ s' = (fun s _ => s) s v ∧ True := by
  unfold inBool at h
  obtain ⟨rfl, rfl⟩ := pure_ok' h
  exact ⟨hv, rfl, rfl, trivial⟩

theorem foldl_const {α : Type} (l : List α) (s : St) : l.foldl (fun s _ => s) s = s := by
  induction l with
  | nil => rfl
  | cons _ _ ih => simp

theorem filterMap_fltOf_inIntE (l : List Val) :
    (l.map (fun v => inIntE v.erase)).filterMap Val.fltOf? = l.filterMap Val.fltOf? := by
  rw [List.filterMap_map]; congr 1; funext v; cases v <;> rfl

theorem filterMap_fltOf_erase (l : List Val) :
    (l.map Val.erase).filterMap Val.fltOf? = l.filterMap Val.fltOf? := by
  rw [List.filterMap_map]; congr 1; funext v; cases v <;> rfl

/-- the value-level image of an argument leaf: ints become `LinComb`s, floats `LinCombFxp`s -/
def inLeaf (res : Nat) (v : Val) : Val := inFltE res (inIntE v.erase)

theorem erase_idem (v : Val) : v.erase.erase = v.erase := by cases v <;> rfl

/-- **`snarkIn`**: the state afterwards is the state before with the int leaves (traversal order)
followed by the scaled float leaves (traversal order) appended to the public values — nothing
else: no private value, no constraint; the skeleton is kept and every leaf is converted per `inLeaf` -/
theorem snarkIn_spec {args r : Val} {s s' : St} (h : snarkIn args s = .ok (r, s')) :
    s' = s.addPub (args.leaves.filterMap Val.intOf? ++
      (args.leaves.filterMap Val.fltOf?).map (fun me => scaleFlt me.1 me.2 s.resolution)) ∧
    r.skel = args.skel ∧ r.leaves.map Val.erase = args.leaves.map (inLeaf s.resolution) := by
  unfold snarkIn at h
  obtain ⟨a1, s1, h1, hk⟩ := bind_ok.mp h
  obtain ⟨a2, s2, h2, h3⟩ := bind_ok.mp hk
  obtain ⟨k1, l1, e1, -⟩ := forEachIn_spec (I := fun _ => True) (σ := Val.erase)
    (τ := fun v => inIntE v.erase) (step := stepInt) inInt_leaf args s a1 s1 trivial h1
  have hres1 : s1.resolution = s.resolution := by rw [e1, foldl_stepInt]; rfl
  obtain ⟨k2, l2, e2, -⟩ := forEachIn_spec (I := fun s => s.resolution = s1.resolution) (σ := Val.erase)
    (τ := fun v => inFltE s1.resolution v.erase) (step := stepFlt) (inFlt_leaf s1.resolution)
    a1 s1 a2 s2 rfl h2
  obtain ⟨k3, l3, e3, -⟩ := forEachIn_spec (I := fun _ => True) (σ := Val.erase)
    (τ := Val.erase) (step := fun s _ => s) inBool_leaf a2 s2 r s' trivial h3
  rw [foldl_const] at e3
  subst e3
  refine ⟨?_, by rw [k3, k2, k1], ?_⟩
  · rw [e2, foldl_stepFlt, e1, foldl_stepInt, St.addPub_addPub]
    congr 2
    have : a1.leaves.filterMap Val.fltOf? = args.leaves.filterMap Val.fltOf? := by
      rw [← filterMap_fltOf_erase a1.leaves, l1, filterMap_fltOf_inIntE]
    rw [this]; rfl
  · rw [l3]
    have e : a2.leaves.map Val.erase = (a1.leaves.map Val.erase).map (inFltE s1.resolution) := by
      rw [l2, List.map_map]
      apply List.map_congr_left
      intro v _; simp
    rw [e, l1, List.map_map, hres1]
    rfl

/-! ## `snarkOut` -/

/-- the constraints `0 * 0 = x − out` of revealing `xs`, the first output being public wire `k` -/
def revealCons : Nat → List LinComb → List Constraint
  | _, [] => []
  | k, x :: xs => (LC.zero, LC.zero, (x.sub ⟨x.value, [(Wire.pub k, 1)]⟩).lc) :: revealCons (k+1) xs

/-- reveal `xs` (`x.val()` for each, in order): one public value and one constraint per secret -/
def St.reveal (s : St) (xs : List LinComb) : St :=
  { s with pub := s.pub ++ xs.map (·.value), cons := s.cons ++ revealCons s.pub.length xs }

theorem revealCons_append : ∀ (k : Nat) (a b : List LinComb),
    revealCons k (a ++ b) = revealCons k a ++ revealCons (k + a.length) b
  | _, [], _ => by simp [revealCons]
  | k, x :: a, b => by
    simp only [List.cons_append, revealCons, List.length_cons, revealCons_append (k+1) a b]
    congr 3; omega

@[simp] theorem St.reveal_nil (s : St) : s.reveal [] = s := by simp [St.reveal, revealCons]
theorem St.reveal_reveal (s : St) (a b : List LinComb) : (s.reveal a).reveal b = s.reveal (a ++ b) := by
  simp [St.reveal, revealCons_append, List.append_assoc]
@[simp] theorem St.reveal_guard (s : St) (a : List LinComb) : (s.reveal a).guard = s.guard := rfl
@[simp] theorem St.reveal_res (s : St) (a : List LinComb) : (s.reveal a).resolution = s.resolution := rfl
@[simp] theorem St.reveal_priv (s : St) (a : List LinComb) : (s.reveal a).priv = s.priv := rfl
@[simp] theorem St.reveal_pub (s : St) (a : List LinComb) : (s.reveal a).pub = s.pub ++ a.map (·.value) := rfl
@[simp] theorem St.reveal_cons (s : St) (a : List LinComb) :
    (s.reveal a).cons = s.cons ++ revealCons s.pub.length a := rfl

theorem revealCons_length : ∀ (k : Nat) (a : List LinComb), (revealCons k a).length = a.length
  | _, [] => rfl
  | k, _ :: a => by simp [revealCons, revealCons_length (k+1) a]

theorem revealCons_get : ∀ (k : Nat) (a : List LinComb) (i : Nat) (h : i < a.length),
    (revealCons k a)[i]'(by rw [revealCons_length]; exact h) =
      (LC.zero, LC.zero, (a[i].sub ⟨a[i].value, [(Wire.pub (k + i), 1)]⟩).lc)
  | _, [], _, h => by simp at h
  | k, x :: a, 0, _ => by simp [revealCons]
  | k, x :: a, i+1, h => by
    simp only [revealCons, List.getElem_cons_succ]
    rw [revealCons_get (k+1) a i (by simpa using h)]
    have : k + 1 + i = k + (i + 1) := by omega
    rw [this]

/-- `x.val()` outside a guarded region: the value, one public wire, one constraint -/
theorem valL_ok {x : LinComb} {v : Int} {s s' : St} (hg : s.guard = none) (h : valL x s = .ok (v, s')) :
    v = x.value ∧ s' = s.reveal [x] := by
  unfold valL at h
  obtain ⟨o, s1, h1, hk⟩ := bind_ok.mp h
  obtain ⟨u, s2, h2, hk2⟩ := bind_ok.mp hk
  obtain ⟨rfl, rfl⟩ := pure_ok' hk2
  obtain ⟨rfl, rfl, -⟩ := pubVal_ok h1
  have := assertZero_ok (s := { s with pub := s.pub ++ [x.value] }) hg h2
  refine ⟨rfl, ?_⟩
  rw [this]
  simp [St.ext, St.reveal, revealCons]

def stepSel (sel : Val → Option LinComb) (s : St) (v : Val) : St :=
  match sel v with
  | some x => s.reveal [x]
  | Option.none => s

theorem foldl_stepSel (sel : Val → Option LinComb) : ∀ (l : List Val) (s : St),
    l.foldl (stepSel sel) s = s.reveal (l.filterMap sel)
  | [], s => by simp
  | v :: l, s => by
    rw [List.foldl_cons, foldl_stepSel sel l, List.filterMap_cons]
    unfold stepSel
    cases sel v <;> simp [St.reveal_reveal]

/-- the three output converters on a leaf value -/
def outLcE : Val → Val
  | .lc x => .int x.value
  | v => v
def outFxpE (res : Nat) : Val → Val
  | .fxp x => .flt x.value res
  | v => v
def outLcbE : Val → Val
  | .lcb x => .int x.value
  | v => v

/-- the invariant of the output passes: no guard, fixed resolution -/
def OutInv (res : Nat) (s : St) : Prop := s.guard = none ∧ s.resolution = res

theorem outLc_leaf (res : Nat) (v : Val) (hv : v.isLeaf = true) (s : St) (r : Val) (s' : St)
    (hI : OutInv res s) (h : outLc v s = .ok (r, s')) :
    r.isLeaf = true ∧ id r = outLcE v ∧ s' = stepSel Val.lcOf? s v ∧ OutInv res s' := by
  cases v with
  | lc x =>
    unfold outLc at h
    obtain ⟨w, s1, h1, hk⟩ := bind_ok.mp h
    obtain ⟨rfl, rfl⟩ := pure_ok' hk
    obtain ⟨rfl, rfl⟩ := valL_ok hI.1 h1
    exact ⟨rfl, rfl, rfl, hI⟩
  | list _ => simp [Val.isLeaf] at hv
  | tuple _ => simp [Val.isLeaf] at hv
  | _ =>
    unfold outLc at h
    obtain ⟨rfl, rfl⟩ := pure_ok' h
    exact ⟨hv, rfl, rfl, hI⟩

theorem outFxp_leaf (res : Nat) (v : Val) (hv : v.isLeaf = true) (s : St) (r : Val) (s' : St)
    (hI : OutInv res s) (h : outFxp v s = .ok (r, s')) :
    r.isLeaf = true ∧ id r = outFxpE res v ∧ s' = stepSel Val.fxpOf? s v ∧ OutInv res s' := by
  cases v with
  | fxp x =>
    unfold outFxp callMeth at h
    simp only at h
    obtain ⟨w, s1, h1, hk⟩ := bind_ok.mp h
    obtain ⟨rfl, rfl⟩ := valL_ok hI.1 h1
    rw [getRes_bind] at hk
    split at hk
    · exact (raise_ok.mp hk).elim
    · obtain ⟨rfl, rfl⟩ := pure_ok' hk
      exact ⟨rfl, by simp [outFxpE, hI.2], rfl, hI⟩
  | list _ => simp [Val.isLeaf] at hv
  | tuple _ => simp [Val.isLeaf] at hv
  | _ =>
    unfold outFxp at h
    obtain ⟨rfl, rfl⟩ := pure_ok' h
    exact ⟨hv, rfl, rfl, hI⟩

theorem outLcb_leaf (res : Nat) (v : Val) (hv : v.isLeaf = true) (s : St) (r : Val) (s' : St)
    (hI : OutInv res s) (h : outLcb v s = .ok (r, s')) :
    r.isLeaf = true ∧ id r = outLcbE v ∧ s' = stepSel Val.lcbOf? s v ∧ OutInv res s' := by
  cases v with
  | lcb x =>
    unfold outLcb callMeth at h
    simp only at h
    obtain ⟨w, s1, h1, hk⟩ := bind_ok.mp h
    obtain ⟨rfl, rfl⟩ := pure_ok' hk
    obtain ⟨rfl, rfl⟩ := valL_ok hI.1 h1
    exact ⟨rfl, rfl, rfl, hI⟩
  | list _ => simp [Val.isLeaf] at hv
  | tuple _ => simp [Val.isLeaf] at hv
  | _ =>
    unfold outLcb at h
    obtain ⟨rfl, rfl⟩ := pure_ok' h
    exact ⟨hv, rfl, rfl, hI⟩

theorem reveal_eq (res : Nat) (v : Val) : outLcbE (outFxpE res (outLcE v)) = reveal res v := by
  cases v <;> rfl

theorem reveal_not_secret (res : Nat) (v : Val) (hv : v.isLeaf = true) :
    (reveal res v).isSecret = false ∧ (reveal res v).isLeaf = true := by
  cases v <;> first | exact ⟨rfl, rfl⟩ | simp [Val.isLeaf] at hv

theorem leaves_isLeaf : ∀ (v : Val), ∀ l ∈ v.leaves, l.isLeaf = true := by
  intro v
  induction v using Val.induct with
  | leaf v hv => intro l hl; rw [leaves_leaf hv] at hl; simp at hl; rw [hl]; exact hv
  | list xs ih =>
    intro l hl
    simp only [leaves_list] at hl
    induction xs with
    | nil => simp at hl
    | cons x xs ihx =>
      simp only [leavesL_cons, List.mem_append] at hl
      rcases hl with hl | hl
      · exact ih x List.mem_cons_self l hl
      · exact ihx (fun y hy => ih y (List.mem_cons_of_mem _ hy)) hl
  | tuple xs ih =>
    intro l hl
    simp only [leaves_tuple] at hl
    induction xs with
    | nil => simp at hl
    | cons x xs ihx =>
      simp only [leavesL_cons, List.mem_append] at hl
      rcases hl with hl | hl
      · exact ih x List.mem_cons_self l hl
      · exact ihx (fun y hy => ih y (List.mem_cons_of_mem _ hy)) hl

/-- **`snarkOut`** (outside guarded regions): the secrets are revealed pass by pass — all `LinComb`
leaves, then all `LinCombFxp` leaves, then all `LinCombBool` leaves, each in traversal order — one
public value (the secret's value) and one constraint `0·0 = secret − output` per secret, nothing
else; the structure returned has the same skeleton and every leaf replaced by `reveal` -/
theorem snarkOut_spec {ret r : Val} {s s' : St} (hg : s.guard = none) (h : snarkOut ret s = .ok (r, s')) :
    s' = s.reveal (ret.leaves.filterMap Val.lcOf? ++ ret.leaves.filterMap Val.fxpOf? ++
      ret.leaves.filterMap Val.lcbOf?) ∧
    r.skel = ret.skel ∧ r.leaves = ret.leaves.map (reveal s.resolution) := by
  unfold snarkOut at h
  obtain ⟨r1, s1, h1, hk⟩ := bind_ok.mp h
  obtain ⟨r2, s2, h2, h3⟩ := bind_ok.mp hk
  obtain ⟨k1, l1, e1, i1⟩ := forEachIn_spec (outLc_leaf s.resolution) ret s r1 s1 ⟨hg, rfl⟩ h1
  obtain ⟨k2, l2, e2, i2⟩ := forEachIn_spec (outFxp_leaf s.resolution) r1 s1 r2 s2 i1 h2
  obtain ⟨k3, l3, e3, -⟩ := forEachIn_spec (outLcb_leaf s.resolution) r2 s2 r s' i2 h3
  simp only [List.map_id_fun, id_eq] at l1 l2 l3
  have f2 : r1.leaves.filterMap Val.fxpOf? = ret.leaves.filterMap Val.fxpOf? := by
    rw [l1, List.filterMap_map]; congr 1; funext v; cases v <;> rfl
  have f3 : r2.leaves.filterMap Val.lcbOf? = ret.leaves.filterMap Val.lcbOf? := by
    rw [l2, l1, List.map_map, List.filterMap_map]; congr 1; funext v; cases v <;> rfl
  refine ⟨?_, by rw [k3, k2, k1], ?_⟩
  · rw [e3, foldl_stepSel, e2, foldl_stepSel, e1, foldl_stepSel, St.reveal_reveal, St.reveal_reveal,
      f2, f3, List.append_assoc]
  · rw [l3, l2, l1, List.map_map, List.map_map]
    apply List.map_congr_left
    intro v _
    exact reveal_eq _ v

/-! ## `snarkOut` inside a guarded region (`runtime.guard` is some `g`)

Inside a guarded region `add_constraint(v, w, y)` allocates a private dummy `d = v·w − y`, records
`v·w = y + d` and `g·d = 0`.  For `x.val()` the asserted difference `x − out` has value 0, so the dummy
is 0 WHATEVER the value of the guard: one public value, one private 0 and two constraints per secret. -/

/-- `add_constraint` under a guard `g` -/
theorem addConstraint_guarded_ok {v w y g : LinComb} {check : Bool} {s s' : St} {u : Unit} (hg : s.guard = some g)
    (h : addConstraint v w y check s = .ok (u, s')) :
    s' = s.ext [v.value * w.value - y.value]
      [(v.lc, w.lc, (y.add (fw s.priv.length (v.value * w.value - y.value))).lc),
       (g.lc, (fw s.priv.length (v.value * w.value - y.value)).lc, LC.zero)] := by
  unfold addConstraint at h
  rw [hg] at h
  simp only at h
  obtain ⟨d, s1, h1, hk⟩ := bind_ok.mp h
  obtain ⟨u1, s2, h2, h3⟩ := bind_ok.mp hk
  obtain ⟨rfl, rfl⟩ := privVal_ok h1
  have e2 := addConstraintUnsafe_ok h2
  subst e2
  have e3 := addConstraintUnsafe_ok h3
  subst e3
  simp [LinComb.zero]

/-- the constraints of revealing `xs` under the guard `g`: the first output is public wire `k`, the
first dummy private wire `j` -/
def revealConsG (g : LinComb) : Nat → Nat → List LinComb → List Constraint
  | _, _, [] => []
  | k, j, x :: xs =>
    (LC.zero, LC.zero, ((x.sub ⟨x.value, [(Wire.pub k, 1)]⟩).add (fw j 0)).lc) ::
      (g.lc, (fw j 0).lc, LC.zero) :: revealConsG g (k+1) (j+1) xs

/-- reveal `xs` under the guard `g`: per secret one public value (its value), one private dummy 0, and the
two constraints `0·0 = x − out + d`, `g·d = 0` -/
def St.revealG (s : St) (g : LinComb) (xs : List LinComb) : St :=
  { s with pub := s.pub ++ xs.map (·.value), priv := s.priv ++ List.replicate xs.length 0,
           cons := s.cons ++ revealConsG g s.pub.length s.priv.length xs }

theorem revealConsG_append (g : LinComb) : ∀ (k j : Nat) (a b : List LinComb),
    revealConsG g k j (a ++ b) = revealConsG g k j a ++ revealConsG g (k + a.length) (j + a.length) b
  | _, _, [], _ => by simp [revealConsG]
  | k, j, x :: a, b => by
    simp only [List.cons_append, revealConsG, List.length_cons, revealConsG_append g (k+1) (j+1) a b]
    have e1 : k + 1 + a.length = k + (a.length + 1) := by omega
    have e2 : j + 1 + a.length = j + (a.length + 1) := by omega
    rw [e1, e2]

theorem revealConsG_length (g : LinComb) : ∀ (k j : Nat) (a : List LinComb),
    (revealConsG g k j a).length = 2 * a.length
  | _, _, [] => rfl
  | k, j, _ :: a => by simp [revealConsG, revealConsG_length g (k+1) (j+1) a]; omega

@[simp] theorem St.revealG_nil (s : St) (g : LinComb) : s.revealG g [] = s := by simp [St.revealG, revealConsG]
theorem St.revealG_revealG (s : St) (g : LinComb) (a b : List LinComb) :
    (s.revealG g a).revealG g b = s.revealG g (a ++ b) := by
  simp [St.revealG, revealConsG_append, List.append_assoc]
@[simp] theorem St.revealG_guard (s : St) (g : LinComb) (a : List LinComb) : (s.revealG g a).guard = s.guard := rfl
@[simp] theorem St.revealG_res (s : St) (g : LinComb) (a : List LinComb) :
    (s.revealG g a).resolution = s.resolution := rfl

/-- `x.val()` inside a guarded region: the value, one public wire, one private dummy 0, two constraints;
nothing of this depends on the VALUE of the guard -/
theorem valL_ok_guarded {x g : LinComb} {v : Int} {s s' : St} (hg : s.guard = some g)
    (h : valL x s = .ok (v, s')) : v = x.value ∧ s' = s.revealG g [x] := by
  unfold valL at h
  obtain ⟨o, s1, h1, hk⟩ := bind_ok.mp h
  obtain ⟨u, s2, h2, hk2⟩ := bind_ok.mp hk
  obtain ⟨rfl, rfl⟩ := pure_ok' hk2
  obtain ⟨rfl, rfl, -⟩ := pubVal_ok h1
  unfold assertZero at h2
  split at h2
  · cases h2
  · have := addConstraint_guarded_ok (s := { s with pub := s.pub ++ [x.value] }) hg h2
    refine ⟨rfl, ?_⟩
    rw [this]
    simp [St.ext, St.revealG, revealConsG, LinComb.zero, LinComb.sub, LinComb.add, LinComb.neg, fw]

def stepSelG (g : LinComb) (sel : Val → Option LinComb) (s : St) (v : Val) : St :=
  match sel v with
  | some x => s.revealG g [x]
  | Option.none => s

theorem foldl_stepSelG (g : LinComb) (sel : Val → Option LinComb) : ∀ (l : List Val) (s : St),
    l.foldl (stepSelG g sel) s = s.revealG g (l.filterMap sel)
  | [], s => by simp
  | v :: l, s => by
    rw [List.foldl_cons, foldl_stepSelG g sel l, List.filterMap_cons]
    unfold stepSelG
    cases sel v <;> simp [St.revealG_revealG]

/-- the invariant of the output passes inside a guarded region: the guard stays `g`, fixed resolution -/
def OutInvG (g : LinComb) (res : Nat) (s : St) : Prop := s.guard = some g ∧ s.resolution = res

theorem outLc_leafG (g : LinComb) (res : Nat) (v : Val) (hv : v.isLeaf = true) (s : St) (r : Val) (s' : St)
    (hI : OutInvG g res s) (h : outLc v s = .ok (r, s')) :
    r.isLeaf = true ∧ id r = outLcE v ∧ s' = stepSelG g Val.lcOf? s v ∧ OutInvG g res s' := by
  cases v with
  | lc x =>
    unfold outLc at h
    obtain ⟨w, s1, h1, hk⟩ := bind_ok.mp h
    obtain ⟨rfl, rfl⟩ := pure_ok' hk
    obtain ⟨rfl, rfl⟩ := valL_ok_guarded hI.1 h1
    exact ⟨rfl, rfl, rfl, hI⟩
  | list _ => simp [Val.isLeaf] at hv
  | tuple _ => simp [Val.isLeaf] at hv
  | _ =>
    unfold outLc at h
    obtain ⟨rfl, rfl⟩ := pure_ok' h
    exact ⟨hv, rfl, rfl, hI⟩

theorem outFxp_leafG (g : LinComb) (res : Nat) (v : Val) (hv : v.isLeaf = true) (s : St) (r : Val) (s' : St)
    (hI : OutInvG g res s) (h : outFxp v s = .ok (r, s')) :
    r.isLeaf = true ∧ id r = outFxpE res v ∧ s' = stepSelG g Val.fxpOf? s v ∧ OutInvG g res s' := by
  cases v with
  | fxp x =>
    unfold outFxp callMeth at h
    simp only at h
    obtain ⟨w, s1, h1, hk⟩ := bind_ok.mp h
    obtain ⟨rfl, rfl⟩ := valL_ok_guarded hI.1 h1
    rw [getRes_bind] at hk
    split at hk
    · exact (raise_ok.mp hk).elim
    · obtain ⟨rfl, rfl⟩ := pure_ok' hk
      exact ⟨rfl, by simp [outFxpE, hI.2], rfl, hI⟩
  | list _ => simp [Val.isLeaf] at hv
  | tuple _ => simp [Val.isLeaf] at hv
  | _ =>
    unfold outFxp at h
    obtain ⟨rfl, rfl⟩ := pure_ok' h
    exact ⟨hv, rfl, rfl, hI⟩

theorem outLcb_leafG (g : LinComb) (res : Nat) (v : Val) (hv : v.isLeaf = true) (s : St) (r : Val) (s' : St)
    (hI : OutInvG g res s) (h : outLcb v s = .ok (r, s')) :
    r.isLeaf = true ∧ id r = outLcbE v ∧ s' = stepSelG g Val.lcbOf? s v ∧ OutInvG g res s' := by
  cases v with
  | lcb x =>
    unfold outLcb callMeth at h
    simp only at h
    obtain ⟨w, s1, h1, hk⟩ := bind_ok.mp h
    obtain ⟨rfl, rfl⟩ := pure_ok' hk
    obtain ⟨rfl, rfl⟩ := valL_ok_guarded hI.1 h1
    exact ⟨rfl, rfl, rfl, hI⟩
  | list _ => simp [Val.isLeaf] at hv
  | tuple _ => simp [Val.isLeaf] at hv
  | _ =>
    unfold outLcb at h
    obtain ⟨rfl, rfl⟩ := pure_ok' h
    exact ⟨hv, rfl, rfl, hI⟩

/-- **`snarkOut` inside a guarded region**: as `snarkOut_spec`, with `St.revealG` in place of `St.reveal`:
the same public values in the same order (pass by pass), whatever the value of the guard; each output
additionally costs one private dummy (value 0) and its constraints are the guarded pair -/
theorem snarkOut_spec_guarded {ret r : Val} {g : LinComb} {s s' : St} (hg : s.guard = some g)
    (h : snarkOut ret s = .ok (r, s')) :
    s' = s.revealG g (ret.leaves.filterMap Val.lcOf? ++ ret.leaves.filterMap Val.fxpOf? ++
      ret.leaves.filterMap Val.lcbOf?) ∧
    r.skel = ret.skel ∧ r.leaves = ret.leaves.map (reveal s.resolution) := by
  unfold snarkOut at h
  obtain ⟨r1, s1, h1, hk⟩ := bind_ok.mp h
  obtain ⟨r2, s2, h2, h3⟩ := bind_ok.mp hk
  obtain ⟨k1, l1, e1, i1⟩ := forEachIn_spec (outLc_leafG g s.resolution) ret s r1 s1 ⟨hg, rfl⟩ h1
  obtain ⟨k2, l2, e2, i2⟩ := forEachIn_spec (outFxp_leafG g s.resolution) r1 s1 r2 s2 i1 h2
  obtain ⟨k3, l3, e3, -⟩ := forEachIn_spec (outLcb_leafG g s.resolution) r2 s2 r s' i2 h3
  simp only [List.map_id_fun, id_eq] at l1 l2 l3
  have f2 : r1.leaves.filterMap Val.fxpOf? = ret.leaves.filterMap Val.fxpOf? := by
    rw [l1, List.filterMap_map]; congr 1; funext v; cases v <;> rfl
  have f3 : r2.leaves.filterMap Val.lcbOf? = ret.leaves.filterMap Val.lcbOf? := by
    rw [l2, l1, List.map_map, List.filterMap_map]; congr 1; funext v; cases v <;> rfl
  refine ⟨?_, by rw [k3, k2, k1], ?_⟩
  · rw [e3, foldl_stepSelG, e2, foldl_stepSelG, e1, foldl_stepSelG, St.revealG_revealG, St.revealG_revealG,
      f2, f3, List.append_assoc]
  · rw [l3, l2, l1, List.map_map, List.map_map]
    apply List.map_congr_left
    intro v _
    exact reveal_eq _ v

end Pysnark
