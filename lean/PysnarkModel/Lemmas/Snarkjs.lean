import PysnarkModel.Model.Snarkjs
import PysnarkModel.Spec.Iden3
import Mathlib.Tactic.Ring
import Mathlib.Tactic.Linarith
import Mathlib.Tactic.NormNum
import Mathlib.Data.Int.ModEq
import Mathlib.Data.List.GetD
/-!
# Round trip of the snarkjs writer model through the independent iden3 decoders
-/
namespace Pysnark.Snarkjs
open Pysnark.Iden3

/-! ## `leBytes` -/

theorem leBytes_zero (v : Int) : leBytes 0 v = [] := rfl

theorem leBytes_succ (n : Nat) (v : Int) :
    leBytes (n + 1) v = (v % 256).toNat :: leBytes n (v >>> 8) := by
  unfold leBytes
  rw [List.range_succ_eq_map, List.map_cons, List.map_map]
  congr 1
  · simp
  apply List.map_congr_left
  intro i _
  have : 8 * (i + 1) = 8 + 8 * i := by ring
  simp only [Function.comp, this, Int.shiftRight_add]

theorem leBytes_length (n : Nat) (v : Int) : (leBytes n v).length = n := by
  simp [leBytes]

theorem leBytes_lt (n : Nat) (v : Int) : ∀ b ∈ leBytes n v, b < 256 := by
  intro b hb
  simp only [leBytes, List.mem_map] at hb
  obtain ⟨i, _, rfl⟩ := hb
  omega

theorem leNat_leBytes (n : Nat) (v : Int) (h0 : 0 ≤ v) (h : v < 256 ^ n) :
    leNat (leBytes n v) = v.toNat := by
  induction n generalizing v with
  | zero =>
    have : v = 0 := by simp at h; omega
    subst this; rfl
  | succ n ih =>
    rw [leBytes_succ, leNat]
    have hs : v >>> 8 = v / 256 := by
      rw [Int.shiftRight_eq_div_pow]; norm_num
    rw [hs]
    have h1 : 0 ≤ v / 256 := by omega
    have h2 : v / 256 < 256 ^ n := by
      apply Int.ediv_lt_of_lt_mul (by norm_num)
      rw [pow_succ] at h; exact h
    rw [ih _ h1 h2]
    omega

theorem leBytes_all (n : Nat) (v : Int) : (leBytes n v).all (· < 256) = true := by
  rw [List.all_eq_true]
  intro b hb
  simpa using leBytes_lt n v b hb

/-! ## Elementary parsers on encoder output -/

theorem takeBytes_append (n : Nat) (a r : List Nat) (h : a.length = n) :
    takeBytes n (a ++ r) = some (a, r) := by
  subst h
  simp [takeBytes]

theorem readNat_leBytes (n : Nat) (v : Int) (r : List Nat) (h0 : 0 ≤ v) (h : v < 256 ^ n) :
    readNat n (leBytes n v ++ r) = some (v.toNat, r) := by
  unfold readNat
  rw [takeBytes_append n _ r (leBytes_length n v)]
  dsimp only
  rw [leNat_leBytes n v h0 h]

theorem readNat_leBytes_nat (n : Nat) (k : Nat) (r : List Nat) (h : k < 256 ^ n) :
    readNat n (leBytes n (k : Int) ++ r) = some (k, r) := by
  have := readNat_leBytes n (k : Int) r (by omega) (by exact_mod_cast h)
  simpa using this

theorem expectNat_leBytes (n : Nat) (v : Int) (k : Nat) (r : List Nat) (h0 : 0 ≤ v)
    (h : v < 256 ^ n) (hk : v.toNat = k) :
    expectNat n k (leBytes n v ++ r) = some ((), r) := by
  unfold expectNat
  rw [readNat_leBytes n v r h0 h]
  simp [hk]

theorem expectBytes_append (m r : List Nat) : expectBytes m (m ++ r) = some ((), r) := by
  unfold expectBytes
  rw [takeBytes_append m.length m r rfl]
  simp

theorem readSection_enc (id : Nat) (vid vlen : Int) (body r : List Nat)
    (hid0 : 0 ≤ vid) (hid : vid < 256 ^ 4) (hidk : vid.toNat = id)
    (hl0 : 0 ≤ vlen) (hl : vlen < 256 ^ 8) (hlk : vlen.toNat = body.length) :
    readSection id (leBytes 4 vid ++ (leBytes 8 vlen ++ (body ++ r))) = some (body, r) := by
  unfold readSection
  rw [expectNat_leBytes 4 vid id _ hid0 hid hidk]
  dsimp only
  rw [readNat_leBytes 8 vlen _ hl0 hl]
  dsimp only
  rw [takeBytes_append _ body r hlk.symm]

theorem readMany_flatMap {α β : Type} (p : Parser β) (enc : α → List Nat) (f : α → β)
    (l : List α) (hp : ∀ a ∈ l, ∀ r, p (enc a ++ r) = some (f a, r)) (r : List Nat) :
    readMany p l.length (l.flatMap enc ++ r) = some (l.map f, r) := by
  induction l with
  | nil => simp [readMany]
  | cons a l ih =>
    rw [List.length_cons, List.flatMap_cons, List.append_assoc, readMany]
    dsimp only
    rw [hp a (List.mem_cons_self ..)]
    dsimp only
    rw [ih (fun b hb => hp b (List.mem_cons_of_mem _ hb))]
    rfl

theorem parseAll_of {α : Type} (p : Parser α) (bs : List Nat) (a : α)
    (h : p (bs ++ []) = some (a, [])) : parseAll p bs = some a := by
  rw [List.append_nil] at h
  simp [parseAll, h]

theorem length_flatMap_const {α : Type} (enc : α → List Nat) (c : Nat) (l : List α)
    (h : ∀ a ∈ l, (enc a).length = c) : (l.flatMap enc).length = c * l.length := by
  induction l with
  | nil => simp
  | cons a l ih =>
    rw [List.flatMap_cons, List.length_append, h a (List.mem_cons_self ..),
      ih (fun b hb => h b (List.mem_cons_of_mem _ hb)), List.length_cons]
    ring

/-! ## Well-formed traces -/

/-- an LC has fewer than `2^32` terms and all its keys name the constant one, an existing public
value or an existing private value -/
def lcOK (t : Trace) (l : KLC) : Prop :=
  l.length < 2 ^ 32 ∧ ∀ kc ∈ l, -(t.privs.length : Int) ≤ kc.1 ∧ kc.1 ≤ (t.pubs.length : Int)

instance (t : Trace) (l : KLC) : Decidable (lcOK t l) := by unfold lcOK; infer_instance

def Trace.WF (t : Trace) : Prop :=
  0 < t.p ∧ t.p < 2 ^ 256 ∧
  t.pubs.length + t.privs.length + 1 < 2 ^ 32 ∧
  t.cons.length < 2 ^ 32 ∧
  12 * t.cons.length + 36 * nlcs t.cons < 2 ^ 64 ∧
  ∀ c ∈ t.cons, lcOK t c.1 ∧ lcOK t c.2.1 ∧ lcOK t c.2.2

instance (t : Trace) : Decidable t.WF := by unfold Trace.WF; infer_instance

/-! ## `witness.wtns` -/

/-- the values the model writes into section 2 of `witness.wtns` -/
def wtnsValues (t : Trace) : List Int := 1 :: (t.pubs ++ t.privs).map (· % t.p)

/-- the decoded witness: constant one, public values in creation order, private values in
creation order, each reduced modulo `p` -/
def decodedWitness (t : Trace) : List Nat :=
  1 :: (t.pubs ++ t.privs).map (fun v => (v % t.p).toNat)

theorem decodedWitness_eq (t : Trace) : decodedWitness t = (wtnsValues t).map Int.toNat := by
  simp [decodedWitness, wtnsValues, Function.comp_def]

def wtnsBody1 (t : Trace) : List Nat :=
  leBytes 4 32 ++ (leBytes 32 t.p ++
    (leBytes 4 ((t.pubs.length + t.privs.length + 1 : Nat) : Int) ++ []))

def wtnsBody2 (t : Trace) : List Nat := (wtnsValues t).flatMap (leBytes 32)

theorem encodeWtns_eq (t : Trace) :
    encodeWtns t = Iden3.magicWtns ++ (leBytes 4 2 ++ (leBytes 4 2 ++
      (leBytes 4 1 ++ (leBytes 8 40 ++ (wtnsBody1 t ++
      (leBytes 4 2 ++ (leBytes 8 (((t.pubs.length + t.privs.length + 1 : Nat) : Int) * 32) ++
      (wtnsBody2 t ++ [])))))))) := by
  simp [encodeWtns, wtnsBody1, wtnsBody2, wtnsValues, List.flatMap_map, List.flatMap_append,
    Iden3.magicWtns, Snarkjs.magicWtns]

theorem encodeWtns_bytes (t : Trace) : (encodeWtns t).all (· < 256) = true := by
  simp [encodeWtns, List.all_append, List.all_flatMap, leBytes_all, Snarkjs.magicWtns]

theorem wtnsValues_range (t : Trace) (h : t.WF) : ∀ v ∈ wtnsValues t, 0 ≤ v ∧ v < 256 ^ 32 := by
  obtain ⟨hp0, hp, _⟩ := h
  have hp' : t.p < 256 ^ 32 := by norm_num at hp ⊢; exact hp
  intro v hv
  simp only [wtnsValues, List.mem_cons, List.mem_map] at hv
  rcases hv with rfl | ⟨x, _, rfl⟩
  · norm_num
  · exact ⟨Int.emod_nonneg _ (by omega), lt_trans (Int.emod_lt_of_pos _ hp0) hp'⟩

theorem wtnsHeader_enc (t : Trace) (h : t.WF) (r : List Nat) :
    wtnsHeader (leBytes 4 32 ++ (leBytes 32 t.p ++
      (leBytes 4 ((t.pubs.length + t.privs.length + 1 : Nat) : Int) ++ r))) =
    some ((32, t.p.toNat, t.pubs.length + t.privs.length + 1), r) := by
  obtain ⟨hp0, hp, hn, _⟩ := h
  unfold wtnsHeader
  rw [readNat_leBytes 4 32 _ (by norm_num) (by norm_num)]
  dsimp only
  rw [show (32 : Int).toNat = 32 from rfl,
    readNat_leBytes 32 t.p _ (by omega) (by norm_num at hp ⊢; exact hp)]
  dsimp only
  rw [readNat_leBytes_nat 4 _ _ (by norm_num at hn ⊢; exact hn)]

theorem wtns_roundtrip (t : Trace) (h : t.WF) :
    decodeWtns (encodeWtns t) =
      some ⟨32, t.p.toNat, t.pubs.length + t.privs.length + 1, decodedWitness t⟩ := by
  have hn : t.pubs.length + t.privs.length + 1 < 2 ^ 32 := h.2.2.1
  have hlen2 : (wtnsBody2 t).length = 32 * (t.pubs.length + t.privs.length + 1) := by
    rw [wtnsBody2, length_flatMap_const _ 32 _ (fun a _ => leBytes_length 32 a)]
    simp [wtnsValues]
  unfold decodeWtns
  rw [if_pos (encodeWtns_bytes t), encodeWtns_eq, expectBytes_append]
  dsimp only
  rw [expectNat_leBytes 4 2 2 _ (by norm_num) (by norm_num) rfl]
  dsimp only
  rw [expectNat_leBytes 4 2 2 _ (by norm_num) (by norm_num) rfl]
  dsimp only
  rw [readSection_enc 1 1 40 (wtnsBody1 t) _ (by norm_num) (by norm_num) rfl (by norm_num)
    (by norm_num) (by simp [wtnsBody1, leBytes_length])]
  dsimp only
  rw [readSection_enc 2 2 _ (wtnsBody2 t) [] (by norm_num) (by norm_num) rfl (by omega)
    (by norm_num at hn ⊢; omega) (by rw [hlen2]; omega)]
  dsimp only
  rw [parseAll_of wtnsHeader (wtnsBody1 t) _ (by rw [wtnsBody1]; exact wtnsHeader_enc t h [])]
  dsimp only
  have hcount : t.pubs.length + t.privs.length + 1 = (wtnsValues t).length := by
    simp [wtnsValues]
  rw [parseAll_of _ (wtnsBody2 t) ((wtnsValues t).map Int.toNat) (by
    rw [wtnsBody2, hcount]
    exact readMany_flatMap (readNat 32) (leBytes 32) Int.toNat (wtnsValues t)
      (fun a ha r => readNat_leBytes 32 a r (wtnsValues_range t h a ha).1
        (wtnsValues_range t h a ha).2) [])]
  dsimp only
  rw [decodedWitness_eq]

/-! ## `circuit.r1cs` -/

/-- decoded form of a recorded term / LC / constraint -/
def mapTerm (t : Trace) (kc : Int × Int) : Nat × Nat :=
  ((wireIndex t.pubs.length kc.1).toNat, (kc.2 % t.p).toNat)

def mapLC (t : Trace) (l : KLC) : DLC := l.map (mapTerm t)

def mapCon (t : Trace) (c : KLC × KLC × KLC) : DLC × DLC × DLC :=
  (mapLC t c.1, mapLC t c.2.1, mapLC t c.2.2)

theorem encodeFac_length (t : Trace) (kc : Int × Int) : (encodeFac t kc).length = 36 := by
  simp [encodeFac, leBytes_length]

theorem encodeLC_length (t : Trace) (l : KLC) : (encodeLC t l).length = 4 + 36 * l.length := by
  rw [encodeLC, List.length_append, leBytes_length,
    length_flatMap_const _ 36 _ (fun a _ => encodeFac_length t a)]

theorem encodeCons_length (t : Trace) (cs : List (KLC × KLC × KLC)) :
    (cs.flatMap (encodeCon t)).length = 12 * cs.length + 36 * nlcs cs := by
  induction cs with
  | nil => simp [nlcs]
  | cons c cs ih =>
    rw [List.flatMap_cons, List.length_append, ih]
    simp only [encodeCon, List.length_append, encodeLC_length, nlcs, List.map_cons, List.sum_cons,
      List.length_cons]
    ring

theorem readTerm_enc (t : Trace) (h : t.WF) (kc : Int × Int)
    (hk : -(t.privs.length : Int) ≤ kc.1 ∧ kc.1 ≤ (t.pubs.length : Int)) (r : List Nat) :
    readTerm 32 (t.privs.length + t.pubs.length + 1) (encodeFac t kc ++ r) =
      some (mapTerm t kc, r) := by
  obtain ⟨hp0, hp, hn, _⟩ := h
  have hw0 : 0 ≤ wireIndex t.pubs.length kc.1 := by unfold wireIndex; split <;> omega
  have hw1 : wireIndex t.pubs.length kc.1 < (t.privs.length + t.pubs.length + 1 : Nat) := by
    unfold wireIndex; split <;> omega
  unfold readTerm
  rw [encodeFac, List.append_assoc,
    readNat_leBytes 4 _ _ hw0 (by norm_num at hn ⊢; omega)]
  dsimp only
  rw [if_pos (by omega),
    readNat_leBytes 32 _ _ (Int.emod_nonneg _ (by omega))
      (lt_trans (Int.emod_lt_of_pos _ hp0) (by norm_num at hp ⊢; exact hp))]
  rfl

theorem readLC_enc (t : Trace) (h : t.WF) (l : KLC) (hl : lcOK t l) (r : List Nat) :
    readLC 32 (t.privs.length + t.pubs.length + 1) (encodeLC t l ++ r) = some (mapLC t l, r) := by
  unfold readLC
  rw [encodeLC, List.append_assoc,
    readNat_leBytes_nat 4 _ _ (by have := hl.1; norm_num at this ⊢; exact this)]
  dsimp only
  exact readMany_flatMap _ (encodeFac t) (mapTerm t) l
    (fun a ha r => readTerm_enc t h a (hl.2 a ha) r) r

theorem readConstraint_enc (t : Trace) (h : t.WF) (c : KLC × KLC × KLC)
    (hc : lcOK t c.1 ∧ lcOK t c.2.1 ∧ lcOK t c.2.2) (r : List Nat) :
    readConstraint 32 (t.privs.length + t.pubs.length + 1) (encodeCon t c ++ r) =
      some (mapCon t c, r) := by
  unfold readConstraint
  rw [encodeCon, List.append_assoc, List.append_assoc, readLC_enc t h _ hc.1]
  dsimp only
  rw [readLC_enc t h _ hc.2.1]
  dsimp only
  rw [readLC_enc t h _ hc.2.2]
  rfl

def r1csBody1 (t : Trace) : List Nat :=
  leBytes 4 32 ++ (leBytes 32 t.p ++
    (leBytes 4 ((t.privs.length + t.pubs.length + 1 : Nat) : Int) ++
    (leBytes 4 (t.pubs.length : Nat) ++ (leBytes 4 0 ++ (leBytes 4 0 ++ (leBytes 8 0 ++
    (leBytes 4 (t.cons.length : Nat) ++ [])))))))

def r1csBody2 (t : Trace) : List Nat := t.cons.flatMap (encodeCon t)

def r1csBody3 (t : Trace) : List Nat :=
  (List.range (t.privs.length + t.pubs.length + 1)).flatMap (fun _ => leBytes 8 0)

theorem encodeR1cs_eq (t : Trace) :
    encodeR1cs t = Iden3.magicR1cs ++ (leBytes 4 1 ++ (leBytes 4 3 ++
      (leBytes 4 1 ++ (leBytes 8 64 ++ (r1csBody1 t ++
      (leBytes 4 2 ++ (leBytes 8 ((12 * t.cons.length + 36 * nlcs t.cons : Nat) : Int) ++
        (r1csBody2 t ++
      (leBytes 4 3 ++ (leBytes 8 ((8 * (t.privs.length + t.pubs.length + 1) : Nat) : Int) ++
        (r1csBody3 t ++ []))))))))))) := by
  simp only [encodeR1cs, r1csBody1, r1csBody2, r1csBody3, Iden3.magicR1cs, Snarkjs.magicR1cs,
    List.append_assoc, List.append_nil]

theorem encodeR1cs_bytes (t : Trace) : (encodeR1cs t).all (· < 256) = true := by
  simp [encodeR1cs, encodeCon, encodeLC, encodeFac, List.all_append, List.all_flatMap,
    leBytes_all, Snarkjs.magicR1cs]

theorem r1csHeader_enc (t : Trace) (h : t.WF) :
    r1csHeader (r1csBody1 t) =
      some (⟨32, t.p.toNat, t.privs.length + t.pubs.length + 1, t.pubs.length, 0, 0, 0,
        t.cons.length⟩, []) := by
  obtain ⟨hp0, hp, hn, hm, _⟩ := h
  unfold r1csHeader r1csBody1
  rw [readNat_leBytes 4 32 _ (by norm_num) (by norm_num)]
  dsimp only
  rw [show (32 : Int).toNat = 32 from rfl,
    readNat_leBytes 32 t.p _ (by omega) (by norm_num at hp ⊢; exact hp)]
  dsimp only
  rw [readNat_leBytes_nat 4 _ _ (by norm_num at hn ⊢; omega)]
  dsimp only
  rw [readNat_leBytes_nat 4 _ _ (by norm_num at hn ⊢; omega)]
  dsimp only
  rw [readNat_leBytes 4 0 _ (by norm_num) (by norm_num)]
  dsimp only
  rw [readNat_leBytes 4 0 _ (by norm_num) (by norm_num)]
  dsimp only
  rw [readNat_leBytes 8 0 _ (by norm_num) (by norm_num)]
  dsimp only
  rw [readNat_leBytes_nat 4 _ _ (by norm_num at hm ⊢; omega)]
  rfl

theorem r1cs_roundtrip (t : Trace) (h : t.WF) :
    decodeR1cs (encodeR1cs t) =
      some { fieldSize := 32, prime := t.p.toNat,
             nWires := t.pubs.length + t.privs.length + 1,
             nPubOut := t.pubs.length, nPubIn := 0, nPrvIn := 0, nLabels := 0,
             nConstraints := t.cons.length,
             constraints := t.cons.map (mapCon t),
             labels := List.replicate (t.pubs.length + t.privs.length + 1) 0 } := by
  have hn : t.pubs.length + t.privs.length + 1 < 2 ^ 32 := h.2.2.1
  have hs2 : 12 * t.cons.length + 36 * nlcs t.cons < 2 ^ 64 := h.2.2.2.2.1
  have hcomm : t.pubs.length + t.privs.length + 1 = t.privs.length + t.pubs.length + 1 := by omega
  have hlen3 : (r1csBody3 t).length = 8 * (t.privs.length + t.pubs.length + 1) := by
    rw [r1csBody3, length_flatMap_const _ 8 _ (fun a _ => leBytes_length 8 0), List.length_range]
  unfold decodeR1cs
  rw [if_pos (encodeR1cs_bytes t), encodeR1cs_eq, expectBytes_append]
  dsimp only
  rw [expectNat_leBytes 4 1 1 _ (by norm_num) (by norm_num) rfl]
  dsimp only
  rw [expectNat_leBytes 4 3 3 _ (by norm_num) (by norm_num) rfl]
  dsimp only
  rw [readSection_enc 1 1 64 (r1csBody1 t) _ (by norm_num) (by norm_num) rfl (by norm_num)
    (by norm_num) (by simp [r1csBody1, leBytes_length])]
  dsimp only
  rw [readSection_enc 2 2 _ (r1csBody2 t) _ (by norm_num) (by norm_num) rfl (by omega)
    (by norm_num at hs2 ⊢; omega) (by rw [r1csBody2, encodeCons_length]; omega)]
  dsimp only
  rw [readSection_enc 3 3 _ (r1csBody3 t) [] (by norm_num) (by norm_num) rfl (by omega)
    (by norm_num at hn ⊢; omega) (by rw [hlen3]; omega)]
  dsimp only
  rw [parseAll_of r1csHeader (r1csBody1 t) _ (by rw [List.append_nil]; exact r1csHeader_enc t h)]
  dsimp only
  rw [parseAll_of _ (r1csBody2 t) (t.cons.map (mapCon t)) (by
    rw [r1csBody2]
    exact readMany_flatMap _ (encodeCon t) (mapCon t) t.cons
      (fun c hc r => readConstraint_enc t h c (h.2.2.2.2.2 c hc) r) [])]
  dsimp only
  rw [parseAll_of _ (r1csBody3 t) (List.replicate (t.privs.length + t.pubs.length + 1) 0) (by
    have := readMany_flatMap (readNat 8) (fun _ : Nat => leBytes 8 0) (fun _ => 0)
      (List.range (t.privs.length + t.pubs.length + 1))
      (fun a _ r => readNat_leBytes 8 0 r (by norm_num) (by norm_num)) []
    rw [List.length_range] at this
    rw [r1csBody3, this, List.map_const', List.length_range])]
  dsimp only
  rw [hcomm]

/-! ## Wire numbering -/

/-- on the keys `[-npriv, npub]` the wire numbering is a bijection onto `[0, npub+npriv]`:
`0 ↦ 0`, the `i`-th public value `↦ i`, the `j`-th private value `↦ npub + j` -/
theorem wireIndex_bijective (npub npriv : Nat) :
    wireIndex npub 0 = 0 ∧
    (∀ i : Nat, 1 ≤ i → i ≤ npub → wireIndex npub (i : Int) = (i : Int)) ∧
    (∀ j : Nat, 1 ≤ j → j ≤ npriv → wireIndex npub (-(j : Int)) = (npub : Int) + (j : Int)) ∧
    (∀ k : Int, -(npriv : Int) ≤ k → k ≤ (npub : Int) →
      0 ≤ wireIndex npub k ∧ wireIndex npub k ≤ (npub : Int) + (npriv : Int)) ∧
    (∀ k k' : Int, -(npriv : Int) ≤ k → k ≤ (npub : Int) → -(npriv : Int) ≤ k' →
      k' ≤ (npub : Int) → wireIndex npub k = wireIndex npub k' → k = k') ∧
    (∀ w : Int, 0 ≤ w → w ≤ (npub : Int) + (npriv : Int) →
      ∃ k : Int, -(npriv : Int) ≤ k ∧ k ≤ (npub : Int) ∧ wireIndex npub k = w) := by
  refine ⟨by simp [wireIndex], ?_, ?_, ?_, ?_, ?_⟩
  · intro i _ _; unfold wireIndex; split <;> omega
  · intro j _ _; unfold wireIndex; split <;> omega
  · intro k _ _; unfold wireIndex; split <;> omega
  · intro k k' _ _ _ _; unfold wireIndex; split <;> split <;> omega
  · intro w _ _
    by_cases hw : w ≤ (npub : Int)
    · exact ⟨w, by omega, hw, by unfold wireIndex; split <;> omega⟩
    · exact ⟨(npub : Int) - w, by omega, by omega, by unfold wireIndex; split <;> omega⟩

/-! ## Canonical field elements -/

theorem decodedWitness_lt (t : Trace) (h1 : 1 < t.p) : ∀ v ∈ decodedWitness t, v < t.p.toNat := by
  intro v hv
  simp only [decodedWitness, List.mem_cons, List.mem_map] at hv
  rcases hv with rfl | ⟨x, _, rfl⟩
  · omega
  · have := Int.emod_lt_of_pos x (show 0 < t.p by omega)
    have := Int.emod_nonneg x (show t.p ≠ 0 by omega)
    omega

theorem mapLC_coeff_lt (t : Trace) (h0 : 0 < t.p) (l : KLC) :
    ∀ ic ∈ mapLC t l, ic.2 < t.p.toNat := by
  intro ic hic
  simp only [mapLC, List.mem_map] at hic
  obtain ⟨kc, _, rfl⟩ := hic
  have := Int.emod_lt_of_pos kc.2 h0
  have := Int.emod_nonneg kc.2 (show t.p ≠ 0 by omega)
  simp only [mapTerm]
  omega

/-- every field element in the decoded files is canonical (`< prime`); the coefficients need only
`0 < p` (part of `WF`), the witness needs `1 < p` because the constant one is written as `1` -/
theorem canonical (t : Trace) (h : t.WF) (w : WtnsFile) (r : R1csFile)
    (hw : decodeWtns (encodeWtns t) = some w) (hr : decodeR1cs (encodeR1cs t) = some r) :
    (1 < t.p → ∀ v ∈ w.values, v < w.prime) ∧
    (∀ c ∈ r.constraints, ∀ l ∈ [c.1, c.2.1, c.2.2], ∀ ic ∈ l, ic.2 < r.prime) := by
  rw [wtns_roundtrip t h] at hw
  rw [r1cs_roundtrip t h] at hr
  cases hw; cases hr
  refine ⟨fun h1 => decodedWitness_lt t h1, ?_⟩
  intro c hc l hl ic hic
  simp only [List.mem_map] at hc
  obtain ⟨c0, _, rfl⟩ := hc
  simp only [List.mem_cons, List.not_mem_nil, or_false, mapCon] at hl
  rcases hl with rfl | rfl | rfl <;> exact mapLC_coeff_lt t h.1 _ ic hic

/-! ## Satisfaction transfers between the recorded trace and the decoded files -/

/-- the decoded witness at the wire of key `k` is the recorded value of `k`, modulo `p` -/
theorem decodedWitness_wire (t : Trace) (h0 : 0 < t.p) (k : Int)
    (hk : -(t.privs.length : Int) ≤ k ∧ k ≤ (t.pubs.length : Int)) :
    (((decodedWitness t).getD (wireIndex t.pubs.length k).toNat 0 : Nat) : Int)
      ≡ assign t k [ZMOD t.p] := by
  have hp : t.p ≠ 0 := by omega
  rcases lt_trichotomy k 0 with hneg | rfl | hpos
  · obtain ⟨j, rfl⟩ : ∃ j : Nat, k = -((j : Int) + 1) := ⟨(-k - 1).toNat, by omega⟩
    have hj : j < t.privs.length := by omega
    have hw : (wireIndex t.pubs.length (-((j : Int) + 1))).toNat = (t.pubs.length + j) + 1 := by
      unfold wireIndex; split <;> omega
    have ha : assign t (-((j : Int) + 1)) = t.privs[j] := by
      unfold assign
      rw [if_neg (by omega), if_neg (by omega)]
      have : (-(-((j : Int) + 1))).toNat - 1 = j := by omega
      rw [this, List.getD_eq_getElem (l := t.privs) (d := 0) hj]
    have hlen : t.pubs.length + j <
        (List.map (fun v => (v % t.p).toNat) (t.pubs ++ t.privs)).length := by simp; omega
    rw [hw, ha, decodedWitness, List.getD_cons_succ, List.getD_eq_getElem _ _ hlen]
    simp only [List.getElem_map]
    rw [List.getElem_append_right (by omega)]
    simp only [Nat.add_sub_cancel_left]
    rw [Int.toNat_of_nonneg (Int.emod_nonneg _ hp)]
    exact Int.mod_modEq _ _
  · simp [wireIndex, decodedWitness, assign]
  · obtain ⟨i, rfl⟩ : ∃ i : Nat, k = (i : Int) + 1 := ⟨(k - 1).toNat, by omega⟩
    have hi : i < t.pubs.length := by omega
    have hw : (wireIndex t.pubs.length ((i : Int) + 1)).toNat = i + 1 := by
      unfold wireIndex; split <;> omega
    have ha : assign t ((i : Int) + 1) = t.pubs[i] := by
      unfold assign
      rw [if_neg (by omega), if_pos (by omega)]
      have : ((i : Int) + 1).toNat - 1 = i := by omega
      rw [this, List.getD_eq_getElem (l := t.pubs) (d := 0) hi]
    have hlen : i <
        (List.map (fun v => (v % t.p).toNat) (t.pubs ++ t.privs)).length := by simp; omega
    rw [hw, ha, decodedWitness, List.getD_cons_succ, List.getD_eq_getElem _ _ hlen]
    simp only [List.getElem_map]
    rw [List.getElem_append_left hi, Int.toNat_of_nonneg (Int.emod_nonneg _ hp)]
    exact Int.mod_modEq _ _

/-- per linear combination: the decoded LC evaluated on the decoded witness is congruent to the
recorded LC evaluated on the recorded assignment -/
theorem evalDecoded_mapLC (t : Trace) (h0 : 0 < t.p) (l : KLC)
    (hl : ∀ kc ∈ l, -(t.privs.length : Int) ≤ kc.1 ∧ kc.1 ≤ (t.pubs.length : Int)) :
    evalDecoded (mapLC t l) (decodedWitness t) ≡ evalKLC t l [ZMOD t.p] := by
  induction l with
  | nil => exact Int.ModEq.refl _
  | cons kc l ih =>
    simp only [evalDecoded, evalKLC, mapLC, List.map_cons, List.sum_cons] at ih ⊢
    apply Int.ModEq.add
    · apply Int.ModEq.mul
      · simp only [mapTerm]
        rw [Int.toNat_of_nonneg (Int.emod_nonneg _ (by omega))]
        exact Int.mod_modEq _ _
      · exact decodedWitness_wire t h0 kc.1 (hl kc (List.mem_cons_self ..))
    · exact ih (fun b hb => hl b (List.mem_cons_of_mem _ hb))

/-- per constraint: the decoded witness satisfies the decoded constraint modulo the decoded prime
iff the recorded assignment satisfies the recorded constraint modulo `p` -/
theorem sat_transfer (t : Trace) (h : t.WF) (c : KLC × KLC × KLC) (hc : c ∈ t.cons) :
    satDecoded t.p.toNat (decodedWitness t) (mapCon t c) ↔ satRecorded t c := by
  have h0 : 0 < t.p := h.1
  obtain ⟨ha, hb, hcc⟩ := h.2.2.2.2.2 c hc
  have ea := evalDecoded_mapLC t h0 c.1 ha.2
  have eb := evalDecoded_mapLC t h0 c.2.1 hb.2
  have ec := evalDecoded_mapLC t h0 c.2.2 hcc.2
  unfold satDecoded satRecorded
  rw [Int.toNat_of_nonneg (by omega : 0 ≤ t.p)]
  change (_ ≡ _ [ZMOD t.p]) ↔ (_ ≡ _ [ZMOD t.p])
  simp only [mapCon]
  constructor
  · intro hs; exact ((ea.mul eb).symm.trans hs).trans ec
  · intro hs; exact ((ea.mul eb).trans hs).trans ec.symm

/-- the same, stated on whatever the two decoders return for the written files -/
theorem sat_transfer_files (t : Trace) (h : t.WF) (w : WtnsFile) (r : R1csFile)
    (hw : decodeWtns (encodeWtns t) = some w) (hr : decodeR1cs (encodeR1cs t) = some r) :
    r.prime = w.prime ∧ r.nWires = w.nWitness ∧
    (∀ (i : Nat) (dc : DLC × DLC × DLC) (c : KLC × KLC × KLC),
      r.constraints[i]? = some dc → t.cons[i]? = some c →
      (satDecoded r.prime w.values dc ↔ satRecorded t c)) ∧
    ((∀ dc ∈ r.constraints, satDecoded r.prime w.values dc) ↔ (∀ c ∈ t.cons, satRecorded t c)) := by
  rw [wtns_roundtrip t h] at hw
  rw [r1cs_roundtrip t h] at hr
  cases hw; cases hr
  refine ⟨rfl, rfl, ?_, ?_⟩
  · intro i dc c hdc hc
    simp only [List.getElem?_map, hc, Option.map_some, Option.some.injEq] at hdc
    subst hdc
    exact sat_transfer t h c (List.mem_of_getElem? hc)
  · simp only [List.mem_map, forall_exists_index, and_imp, forall_apply_eq_imp_iff₂]
    constructor
    · intro hs c hc; exact (sat_transfer t h c hc).1 (hs c hc)
    · intro hs c hc; exact (sat_transfer t h c hc).2 (hs c hc)

/-! ## Non-vacuity: a concrete well-formed trace over the bn128 scalar field -/

def bn128 : Int :=
  21888242871839275222246405745257275088548364400416034343698204186575808495617

/-- two publics (one negative), two privates (one `≥ p`), two constraints (one with a zero
coefficient and coefficients outside `[0,p)`, one with empty LCs) -/
def exTrace : Trace where
  p := bn128
  pubs := [5, -7]
  privs := [3, bn128 + 11]
  cons := [([(-1, 1)], [(1, 2), (0, 0)], [(-2, 1), (0, -1)]),
           ([], [(2, bn128 + 4), (-2, -3)], [])]

example : exTrace.WF := by decide +kernel

example : decodeWtns (encodeWtns exTrace) =
    some ⟨32, bn128.toNat, 5, [1, 5, (bn128 - 7).toNat, 3, 11]⟩ := by decide +kernel

example : decodeR1cs (encodeR1cs exTrace) =
    some { fieldSize := 32, prime := bn128.toNat, nWires := 5, nPubOut := 2, nPubIn := 0,
           nPrvIn := 0, nLabels := 0, nConstraints := 2,
           constraints :=
             [([(3, 1)], [(1, 2), (0, 0)], [(4, 1), (0, (bn128 - 1).toNat)]),
              ([], [(2, 4), (4, (bn128 - 3).toNat)], [])],
           labels := [0, 0, 0, 0, 0] } := by decide +kernel

/-- the general theorems apply to it -/
example : (decodeWtns (encodeWtns exTrace)).isSome ∧ (decodeR1cs (encodeR1cs exTrace)).isSome := by
  have h : exTrace.WF := by decide +kernel
  rw [wtns_roundtrip _ h, r1cs_roundtrip _ h]
  exact ⟨rfl, rfl⟩

/-- the first recorded constraint `priv1 * (2*pub1 + 0) = priv2 - 1`, i.e. `3 * 10 = 10`, is not
satisfied, the second `0 * _ = 0` is; the decoded files agree -/
example : ¬ satRecorded exTrace (exTrace.cons[0]) ∧ satRecorded exTrace (exTrace.cons[1]) := by
  decide +kernel

example : ¬ satDecoded bn128.toNat (decodedWitness exTrace) (mapCon exTrace exTrace.cons[0]) ∧
    satDecoded bn128.toNat (decodedWitness exTrace) (mapCon exTrace exTrace.cons[1]) := by
  decide +kernel

/-! The decoders are strict: truncated, extended or corrupted files are rejected. -/

example : decodeWtns (encodeWtns exTrace).dropLast = none := by decide +kernel
example : decodeWtns (encodeWtns exTrace ++ [0]) = none := by decide +kernel
example : decodeR1cs (encodeR1cs exTrace).dropLast = none := by decide +kernel
example : decodeR1cs (encodeR1cs exTrace ++ [0]) = none := by decide +kernel
/-- wrong magic (the two files swapped) -/
example : decodeWtns (encodeR1cs exTrace) = none ∧ decodeR1cs (encodeWtns exTrace) = none := by
  decide +kernel
/-- byte 12 is the low byte of the id of section 1 -/
example : decodeWtns ((encodeWtns exTrace).set 12 2) = none := by decide +kernel
/-- byte 16 is the low byte of the size of section 1 -/
example : decodeR1cs ((encodeR1cs exTrace).set 16 63) = none := by decide +kernel
/-- byte 60 is the low byte of `nWires`: a wrong wire count is caught by the label section -/
example : decodeR1cs ((encodeR1cs exTrace).set 60 6) = none := by decide +kernel
/-- a non-byte element -/
example : decodeWtns ((encodeWtns exTrace).set 100 256) = none := by decide +kernel

end Pysnark.Snarkjs
