import PysnarkModel.Lemmas.Emit
import Mathlib.Data.ZMod.Basic
import Mathlib.Algebra.Field.ZMod
import Mathlib.Tactic.Ring
import Mathlib.Tactic.LinearCombination
import Mathlib.Tactic.Linarith
/-!
# Soundness of the gadgets against an adversarial prover (C02/C03, layer 2)

`w` is ANY assignment of integers to the wires with `w .one = 1`; `ev p w l` is the value of the
wire expression `l` under `w` in the prime field.  If the constraints an operation appended hold
under `w`, the result's wire expression evaluates to the intended function of the operands'.
-/
namespace Pysnark

/-! ## `LinComb` arithmetic: well-formedness and evaluation (integers) -/
namespace LinComb
variable {a b : LinComb} (w : Wire → Int) (c : Int)

theorem WF_add (ha : a.lc.WF) (hb : b.lc.WF) : (a.add b).lc.WF := LC.WF_add _ _ ha hb
theorem WF_neg (ha : a.lc.WF) : a.neg.lc.WF := LC.WF_neg _ ha
theorem WF_sub (ha : a.lc.WF) (hb : b.lc.WF) : (a.sub b).lc.WF := WF_add ha (WF_neg hb)
theorem WF_mulI (ha : a.lc.WF) : (a.mulI c).lc.WF := LC.WF_scale _ c ha
theorem WF_const : (const c).lc.WF := LC.WF_scale _ c LC.WF_one
theorem WF_addI (ha : a.lc.WF) : (a.addI c).lc.WF := WF_add ha (WF_const c)
theorem WF_subI (ha : a.lc.WF) : (a.subI c).lc.WF := WF_addI (-c) ha
theorem WF_rsubI (ha : a.lc.WF) : (a.rsubI c).lc.WF := WF_addI c (WF_neg ha)

theorem eval_add (ha : a.lc.WF) (hb : b.lc.WF) :
    LC.eval w (a.add b).lc = LC.eval w a.lc + LC.eval w b.lc := LC.eval_add w _ _ ha hb
theorem eval_neg : LC.eval w a.neg.lc = - LC.eval w a.lc := LC.eval_neg w _
theorem eval_sub (ha : a.lc.WF) (hb : b.lc.WF) :
    LC.eval w (a.sub b).lc = LC.eval w a.lc - LC.eval w b.lc := by
  unfold sub; rw [eval_add w ha (WF_neg hb), eval_neg]; ring
theorem eval_mulI : LC.eval w (a.mulI c).lc = c * LC.eval w a.lc := LC.eval_scale w _ c
theorem eval_const : LC.eval w (const c).lc = c * w .one := by
  simp [const, LC.eval_scale, LC.one, LC.eval]
theorem eval_addI (ha : a.lc.WF) : LC.eval w (a.addI c).lc = LC.eval w a.lc + c * w .one := by
  unfold addI; rw [eval_add w ha (WF_const c), eval_const]
theorem eval_subI (ha : a.lc.WF) : LC.eval w (a.subI c).lc = LC.eval w a.lc - c * w .one := by
  unfold subI; rw [eval_addI w (-c) ha]; ring
theorem eval_rsubI (ha : a.lc.WF) : LC.eval w (a.rsubI c).lc = c * w .one - LC.eval w a.lc := by
  unfold rsubI; rw [eval_addI w c (WF_neg ha), eval_neg]; ring
end LinComb

theorem WF_fw (k : Nat) (v : Int) : (fw k v).lc.WF := LC.WF_single _ _

/-! ## evaluation in the field -/

/-- value of a wire expression under the assignment `w`, in `ZMod p` -/
def ev (p : ℕ) (w : Wire → Int) (l : LC) : ZMod p := ((LC.eval w l : Int) : ZMod p)

theorem ev_eq (p : ℕ) (w : Wire → Int) (l : LC) : ev p w l = ((LC.eval w l : Int) : ZMod p) := rfl

section ev
variable {p : ℕ} {w : Wire → Int} {a b : LinComb}

theorem ev_add (ha : a.lc.WF) (hb : b.lc.WF) : ev p w (a.add b).lc = ev p w a.lc + ev p w b.lc := by
  unfold ev; rw [LinComb.eval_add w ha hb]; push_cast; rfl
theorem ev_neg : ev p w a.neg.lc = - ev p w a.lc := by
  unfold ev; rw [LinComb.eval_neg]; push_cast; rfl
theorem ev_sub (ha : a.lc.WF) (hb : b.lc.WF) : ev p w (a.sub b).lc = ev p w a.lc - ev p w b.lc := by
  unfold ev; rw [LinComb.eval_sub w ha hb]; push_cast; rfl
theorem ev_mulI (c : Int) : ev p w (a.mulI c).lc = (c : ZMod p) * ev p w a.lc := by
  unfold ev; rw [LinComb.eval_mulI]; push_cast; rfl
theorem ev_const (h1 : w .one = 1) (c : Int) : ev p w (LinComb.const c).lc = (c : ZMod p) := by
  unfold ev; rw [LinComb.eval_const, h1]; simp
theorem ev_addI (h1 : w .one = 1) (c : Int) (ha : a.lc.WF) :
    ev p w (a.addI c).lc = ev p w a.lc + (c : ZMod p) := by
  unfold ev; rw [LinComb.eval_addI w c ha, h1]; push_cast; simp
theorem ev_subI (h1 : w .one = 1) (c : Int) (ha : a.lc.WF) :
    ev p w (a.subI c).lc = ev p w a.lc - (c : ZMod p) := by
  unfold ev; rw [LinComb.eval_subI w c ha, h1]; push_cast; simp
theorem ev_rsubI (h1 : w .one = 1) (c : Int) (ha : a.lc.WF) :
    ev p w (a.rsubI c).lc = (c : ZMod p) - ev p w a.lc := by
  unfold ev; rw [LinComb.eval_rsubI w c ha, h1]; push_cast; simp
@[simp] theorem ev_zero : ev p w LC.zero = 0 := by simp [ev]
@[simp] theorem ev_nil : ev p w [] = 0 := by simp [ev, LC.eval]
theorem ev_one (h1 : w .one = 1) : ev p w LC.one = 1 := by simp [ev, LC.one, h1]
@[simp] theorem ev_wire (k : Wire) : ev p w [(k, 1)] = (w k : ZMod p) := by simp [ev]
@[simp] theorem ev_fw (k : Nat) (v : Int) : ev p w (fw k v).lc = (w (.priv k) : ZMod p) := by
  simp [ev]

/-- **bridge**: R1CS satisfaction modulo `p` is the product equation in `ZMod p` -/
theorem sat_iff (A B C : LC) : Sat (p : Int) w (A, B, C) ↔ ev p w A * ev p w B = ev p w C := by
  unfold Sat ev
  rw [← Int.dvd_iff_emod_eq_zero, ← ZMod.intCast_zmod_eq_zero_iff_dvd]
  push_cast
  exact sub_eq_zero
end ev

/-! ## field algebra used below -/
section field
variable {p : ℕ} [Fact p.Prime]

theorem bool_of_mul {x : ZMod p} (h : x * (1 - x) = 0) : x = 0 ∨ x = 1 := by
  rcases mul_eq_zero.mp h with h | h
  · exact Or.inl h
  · exact Or.inr (sub_eq_zero.mp h).symm

theorem check_zero_field (x wt r : ZMod p) (h1 : x * wt = 1 - r) (h2 : x * r = 0) :
    r = if x = 0 then 1 else 0 := by
  by_cases hx : x = 0
  · subst hx; simp at h1 ⊢; linear_combination h1
  · simp [hx]; exact (mul_eq_zero.mp h2).resolve_left hx
end field

/-! ## arithmetic gadgets -/
section gadgets
variable {p : ℕ} [Fact p.Prime] {s s' : St} {w : Wire → Int}

/-- `x * y`: the fresh result wire is forced to the product -/
theorem mulLL_sound {x y r : LinComb} (hp : s.p = p) (h : mulLL x y s = .ok (r, s'))
    (hw : NewSat s s' w) : ev p w r.lc = ev p w x.lc * ev p w y.lc := by
  obtain ⟨rfl, rfl⟩ := mulLL_ok h
  rw [NewSat_ext, hp] at hw
  have := (sat_iff _ _ _).mp (hw _ (List.mem_singleton.mpr rfl))
  simpa using this.symm

/-- `LinCombBool(x)` with `constrain = True`: `x (1 - x) = 0`, hence `x ∈ {0,1}` -/
theorem mkBool_sound {x r : LinComb} (hp : s.p = p) (hg : s.guard = none) (hx : x.lc.WF)
    (h : mkBool x true s = .ok (r, s')) (h1 : w .one = 1) (hw : NewSat s s' w) :
    r = x ∧ ev p w x.lc * (1 - ev p w x.lc) = 0 ∧ (ev p w x.lc = 0 ∨ ev p w x.lc = 1) := by
  obtain ⟨rfl, rfl⟩ := mkBool_true_ok hg h
  rw [NewSat_ext, hp] at hw
  have := (sat_iff _ _ _).mp (hw _ (List.mem_singleton.mpr rfl))
  rw [ev_rsubI h1 1 hx] at this
  have e : ev p w r.lc * (1 - ev p w r.lc) = 0 := by simpa using this
  exact ⟨rfl, e, bool_of_mul e⟩

/-- `PrivValBool(v)`: the fresh wire is forced to 0/1 -/
theorem privValBool_sound {v : Int} {r : LinComb} (hp : s.p = p) (hg : s.guard = none)
    (h : privValBool v s = .ok (r, s')) (h1 : w .one = 1) (hw : NewSat s s' w) :
    ev p w r.lc = 0 ∨ ev p w r.lc = 1 := by
  obtain ⟨rfl, rfl⟩ := privValBool_ok hg h
  rw [NewSat_ext, hp] at hw
  have := (sat_iff _ _ _).mp (hw _ (List.mem_singleton.mpr rfl))
  rw [ev_rsubI h1 1 (WF_fw _ _)] at this
  exact bool_of_mul (by simpa using this)

/-- the two constraints of `check_zero` force the result wire to the indicator of `x = 0` -/
theorem czCons_sound {x : LinComb} {k : Nat} {rv : Int} (h1 : w .one = 1)
    (hw : ∀ c ∈ czCons k x rv, Sat (p : Int) w c) :
    (w (.priv k) : ZMod p) = if ev p w x.lc = 0 then 1 else 0 := by
  have c1 := (sat_iff _ _ _).mp
    (hw (x.lc, [(Wire.priv (k+1), 1)], (oneSafe.sub (fw k rv)).lc) (by simp [czCons]))
  have c2 := (sat_iff _ _ _).mp (hw (x.lc, [(Wire.priv k, 1)], LC.zero) (by simp [czCons]))
  rw [ev_sub LC.WF_one (WF_fw _ _)] at c1
  simp only [oneSafe, ev_one h1, ev_fw, ev_wire, ev_zero] at c1 c2
  exact check_zero_field _ _ _ c1 c2

/-- `check_zero`: the result is the indicator of `x = 0` -/
theorem checkZero_sound {x r : LinComb} (hp : s.p = p) (h : checkZero x s = .ok (r, s'))
    (h1 : w .one = 1) (hw : NewSat s s' w) :
    ev p w r.lc = if ev p w x.lc = 0 then 1 else 0 := by
  obtain ⟨rv, wv, rfl, rfl⟩ := checkZero_ok h
  rw [NewSat_ext, hp] at hw
  simpa using czCons_sound h1 hw

/-- `check_nonzero`: the result is the indicator of `x ≠ 0` -/
theorem checkNonzero_sound {x r : LinComb} (hp : s.p = p) (h : checkNonzero x s = .ok (r, s'))
    (h1 : w .one = 1) (hw : NewSat s s' w) :
    ev p w r.lc = if ev p w x.lc = 0 then 0 else 1 := by
  obtain ⟨rv, wv, rfl, rfl⟩ := checkNonzero_ok h
  rw [NewSat_ext, hp] at hw
  rw [ev_rsubI h1 1 (WF_fw _ _), ev_fw, czCons_sound h1 hw]
  split <;> simp

/-- `assert_zero` -/
theorem assertZero_sound {x : LinComb} {u : Unit} (hp : s.p = p) (hg : s.guard = none)
    (h : assertZero x s = .ok (u, s')) (hw : NewSat s s' w) : ev p w x.lc = 0 := by
  have := assertZero_ok hg h; subst this
  rw [NewSat_ext, hp] at hw
  have := (sat_iff _ _ _).mp (hw _ (List.mem_singleton.mpr rfl))
  simpa using this.symm

/-- `assert_nonzero` (`LinComb.ONE` is the constant one outside guarded regions) -/
theorem assertNonzero_sound {x : LinComb} {u : Unit} (hp : s.p = p) (hg : s.guard = none)
    (hone : s.one = oneSafe) (h : assertNonzero x s = .ok (u, s')) (h1 : w .one = 1)
    (hw : NewSat s s' w) : ev p w x.lc ≠ 0 := by
  obtain ⟨wv, rfl⟩ := assertNonzero_ok hg h
  rw [NewSat_ext, hp] at hw
  have := (sat_iff _ _ _).mp (hw _ (List.mem_singleton.mpr rfl))
  rw [hone] at this
  simp only [oneSafe, ev_one h1, ev_wire] at this
  intro h0; rw [h0] at this; simp at this

/-- `if_then_else(c, t, f)` = `f + c (t - f)` -/
theorem iteLLL_sound {c t f r : LinComb} (hp : s.p = p) (ht : t.lc.WF) (hf : f.lc.WF)
    (h : iteLLL c t f s = .ok (r, s')) (hw : NewSat s s' w) :
    ev p w r.lc = ev p w f.lc + ev p w c.lc * (ev p w t.lc - ev p w f.lc) := by
  obtain ⟨rfl, rfl⟩ := iteLLL_ok h
  rw [NewSat_ext, hp] at hw
  have := (sat_iff _ _ _).mp (hw _ (List.mem_singleton.mpr rfl))
  rw [ev_sub ht hf] at this
  rw [ev_add hf (WF_fw _ _), ev_fw, ← ev_wire (p := p) (w := w), ← this]

/-- `a / b` for two `LinComb`s: `b * r = a` -/
theorem truedivLL_sound {a b r : LinComb} (hp : s.p = p) (hg : s.guard = none)
    (h : truedivLL a b s = .ok (r, s')) (hw : NewSat s s' w) :
    ev p w b.lc * ev p w r.lc = ev p w a.lc := by
  obtain ⟨q, rfl, rfl⟩ := truedivLL_ok hg h
  rw [NewSat_ext, hp] at hw
  have := (sat_iff _ _ _).mp (hw _ (List.mem_singleton.mpr rfl))
  simpa using this

/-- so the quotient is determined when the divisor is nonzero -/
theorem truedivLL_determined {a b r : LinComb} (hp : s.p = p) (hg : s.guard = none)
    (h : truedivLL a b s = .ok (r, s')) (hw : NewSat s s' w) (hb : ev p w b.lc ≠ 0) :
    ev p w r.lc = ev p w a.lc / ev p w b.lc := by
  have := truedivLL_sound hp hg h hw
  exact eq_div_of_mul_eq hb (by rw [mul_comm]; exact this)

end gadgets

/-! ## `from_bits`: evaluation -/

/-- `Σ eval(bᵢ)·2ⁱ`, little-endian, over the integers -/
def wsum (w : Wire → Int) : List LinComb → Int
  | [] => 0
  | b :: bs => LC.eval w b.lc + 2 * wsum w bs

theorem fromBitsAux_WF : ∀ (bs : List LinComb) (i : Nat) (acc : LinComb), acc.lc.WF →
    (∀ b ∈ bs, b.lc.WF) → (fromBitsAux bs i acc).lc.WF
  | [], _, _, ha, _ => ha
  | b :: bs, i, acc, ha, hb => by
    unfold fromBitsAux
    exact fromBitsAux_WF bs (i+1) _
      (LinComb.WF_add ha (LinComb.WF_mulI _ (hb b List.mem_cons_self)))
      (fun x hx => hb x (List.mem_cons_of_mem _ hx))

theorem eval_fromBitsAux (w : Wire → Int) : ∀ (bs : List LinComb) (i : Nat) (acc : LinComb),
    acc.lc.WF → (∀ b ∈ bs, b.lc.WF) →
    LC.eval w (fromBitsAux bs i acc).lc = LC.eval w acc.lc + 2 ^ i * wsum w bs
  | [], _, _, _, _ => by simp [fromBitsAux, wsum]
  | b :: bs, i, acc, ha, hb => by
    have hb0 := hb b List.mem_cons_self
    unfold fromBitsAux
    rw [eval_fromBitsAux w bs (i+1) _ (LinComb.WF_add ha (LinComb.WF_mulI _ hb0))
      (fun x hx => hb x (List.mem_cons_of_mem _ hx)),
      LinComb.eval_add w ha (LinComb.WF_mulI _ hb0), LinComb.eval_mulI]
    simp only [wsum]; ring

/-- evaluation of what `from_bits` returns (`none` is the python int 0) -/
def evalFB (w : Wire → Int) : Option LinComb → Int
  | none => 0
  | some y => LC.eval w y.lc

theorem evalFB_fromBits (w : Wire → Int) (bs : List LinComb) (hb : ∀ b ∈ bs, b.lc.WF) :
    evalFB w (fromBits bs) = wsum w bs := by
  cases bs with
  | nil => rfl
  | cons b bs =>
    have hb0 := hb b List.mem_cons_self
    simp only [fromBits, evalFB]
    rw [eval_fromBitsAux w bs 1 _ (LinComb.WF_addI 0 (LinComb.WF_mulI 1 hb0))
      (fun x hx => hb x (List.mem_cons_of_mem _ hx)),
      LinComb.eval_addI w 0 (LinComb.WF_mulI 1 hb0), LinComb.eval_mulI]
    simp only [wsum]; ring

theorem fromBits_WF (bs : List LinComb) (hb : ∀ b ∈ bs, b.lc.WF) :
    ∀ y, fromBits bs = some y → y.lc.WF := by
  intro y hy
  cases bs with
  | nil => cases hy
  | cons b bs =>
    have hb0 := hb b List.mem_cons_self
    simp only [fromBits, Option.some.injEq] at hy
    subst hy
    exact fromBitsAux_WF bs 1 _ (LinComb.WF_addI 0 (LinComb.WF_mulI 1 hb0))
      (fun x hx => hb x (List.mem_cons_of_mem _ hx))

theorem eval_subFB (w : Wire → Int) {x : LinComb} (hx : x.lc.WF) (bs : List LinComb)
    (hb : ∀ b ∈ bs, b.lc.WF) :
    LC.eval w (x.subFB (fromBits bs)).lc = LC.eval w x.lc - wsum w bs := by
  rw [← evalFB_fromBits w bs hb]
  cases h : fromBits bs with
  | none => simp [LinComb.subFB, evalFB, LinComb.eval_subI w 0 hx]
  | some y => simp [LinComb.subFB, evalFB, LinComb.eval_sub w hx (fromBits_WF bs hb y h)]

theorem eval_addFB (w : Wire → Int) {x : LinComb} (hx : x.lc.WF) (bs : List LinComb)
    (hb : ∀ b ∈ bs, b.lc.WF) :
    LC.eval w (x.addFB (fromBits bs)).lc = LC.eval w x.lc + wsum w bs := by
  rw [← evalFB_fromBits w bs hb]
  cases h : fromBits bs with
  | none => simp [LinComb.addFB, evalFB, LinComb.eval_addI w 0 hx]
  | some y => simp [LinComb.addFB, evalFB, LinComb.eval_add w hx (fromBits_WF bs hb y h)]

theorem addFB_WF {x : LinComb} (hx : x.lc.WF) (bs : List LinComb) (hb : ∀ b ∈ bs, b.lc.WF) :
    (x.addFB (fromBits bs)).lc.WF := by
  cases h : fromBits bs with
  | none => exact LinComb.WF_addI 0 hx
  | some y => exact LinComb.WF_add hx (fromBits_WF bs hb y h)

/-! ## bit sums in the field -/
section bits
variable {p : ℕ}

/-- `Σ bᵢ 2ⁱ`, little-endian, in the field -/
def zsum : List (ZMod p) → ZMod p
  | [] => 0
  | b :: bs => b + 2 * zsum bs

theorem wsum_cast (w : Wire → Int) (bs : List LinComb) :
    ((wsum w bs : Int) : ZMod p) = zsum (bs.map (fun b => ev p w b.lc)) := by
  induction bs with
  | nil => simp [wsum, zsum]
  | cons b bs ih => simp only [wsum, List.map_cons, zsum]; push_cast; rw [ih]; rfl

theorem ev_subFB {w : Wire → Int} {x : LinComb} (hx : x.lc.WF) (bs : List LinComb)
    (hb : ∀ b ∈ bs, b.lc.WF) :
    ev p w (x.subFB (fromBits bs)).lc = ev p w x.lc - zsum (bs.map (fun b => ev p w b.lc)) := by
  rw [ev_eq, eval_subFB w hx bs hb]; push_cast; rw [wsum_cast]; rfl

theorem ev_addFB {w : Wire → Int} {x : LinComb} (hx : x.lc.WF) (bs : List LinComb)
    (hb : ∀ b ∈ bs, b.lc.WF) :
    ev p w (x.addFB (fromBits bs)).lc = ev p w x.lc + zsum (bs.map (fun b => ev p w b.lc)) := by
  rw [ev_eq, eval_addFB w hx bs hb]; push_cast; rw [wsum_cast]; rfl

variable [Fact p.Prime]

/-- a list of field elements that are all 0/1 is the bit pattern of a natural `S < 2^len`;
each element is the corresponding binary digit of `S` -/
theorem zsum_bits (bs : List (ZMod p)) (hb : ∀ b ∈ bs, b * (1 - b) = 0) :
    ∃ S : ℕ, S < 2 ^ bs.length ∧ zsum bs = (S : ZMod p) ∧
      ∀ (i : Nat) (hi : i < bs.length), bs[i] = ((S / 2 ^ i % 2 : ℕ) : ZMod p) := by
  induction bs with
  | nil => exact ⟨0, by simp, by simp [zsum], by simp⟩
  | cons b bs ih =>
    obtain ⟨S, hS, hSe, hbit⟩ := ih (fun x hx => hb x (List.mem_cons_of_mem _ hx))
    have key : ∀ (d : ℕ), d < 2 → b = (d : ZMod p) →
        ∃ S' : ℕ, S' < 2 ^ (b :: bs).length ∧ zsum (b :: bs) = (S' : ZMod p) ∧
          ∀ (i : Nat) (hi : i < (b :: bs).length), (b :: bs)[i] = ((S' / 2 ^ i % 2 : ℕ) : ZMod p) := by
      intro d hd hbd
      refine ⟨d + 2 * S, ?_, ?_, ?_⟩
      · simp only [List.length_cons, pow_succ]; omega
      · simp only [zsum, hSe, hbd]; push_cast; ring
      · intro i hi
        cases i with
        | zero =>
          simp only [List.getElem_cons_zero, pow_zero, Nat.div_one]
          rw [hbd]; congr 1; omega
        | succ i =>
          simp only [List.getElem_cons_succ]
          rw [hbit i (by simpa using hi)]
          have e : (d + 2 * S) / 2 ^ (i+1) = S / 2 ^ i := by
            rw [pow_succ, Nat.mul_comm (2^i) 2, ← Nat.div_div_eq_div_mul]
            congr 1; omega
          rw [e]
    rcases bool_of_mul (hb b List.mem_cons_self) with h | h
    · exact key 0 (by omega) (by simpa using h)
    · exact key 1 (by omega) (by simpa using h)

/-- naturals below `p` are distinct in `ZMod p` -/
theorem natCast_inj_lt {a b : ℕ} (ha : a < p) (hb : b < p) (h : (a : ZMod p) = b) : a = b := by
  rw [ZMod.natCast_eq_natCast_iff'] at h
  rwa [Nat.mod_eq_of_lt ha, Nat.mod_eq_of_lt hb] at h

/-- the value is the embedding of a natural below `2^n` -/
def InRange (p n : ℕ) (x : ZMod p) : Prop := ∃ S : ℕ, S < 2 ^ n ∧ x = (S : ZMod p)
/-- the value is the embedding of an integer in `[-2^n, -1]` -/
def InNegRange (p n : ℕ) (x : ZMod p) : Prop := ∃ S : ℕ, S < 2 ^ n ∧ x = -((S + 1 : ℕ) : ZMod p)

/-- the two ranges are disjoint when `2^(n+1) ≤ p` -/
theorem range_exclusive {n : ℕ} (hn : 2 ^ (n + 1) ≤ p) {x : ZMod p}
    (h1 : InRange p n x) (h2 : InNegRange p n x) : False := by
  obtain ⟨S, hS, e1⟩ := h1
  obtain ⟨T, hT, e2⟩ := h2
  have : ((S + T + 1 : ℕ) : ZMod p) = 0 := by
    push_cast; rw [← e1, e2]; push_cast; ring
  rw [ZMod.natCast_eq_zero_iff] at this
  have hlt : S + T + 1 < p := by
    have : 2 ^ (n+1) = 2 * 2 ^ n := by ring
    omega
  exact absurd (Nat.le_of_dvd (by omega) this) (by omega)

end bits

/-! ## `to_bits`, `check_positive`, `assert_positive` -/
section ranges
variable {p : ℕ} [Fact p.Prime] {s s' : St} {w : Wire → Int}

theorem bitWires_WF {k : Nat} {vs : List Int} : ∀ b ∈ bitWires k vs, b.lc.WF := by
  intro b hb
  obtain ⟨i, v, -, rfl⟩ := bitWires_lc_mem hb
  exact WF_fw _ _

/-- the booleanity constraints force every bit wire to 0/1 -/
theorem bitCons_sound {k : Nat} {vs : List Int} (h1 : w .one = 1)
    (hw : ∀ c ∈ bitCons k vs, Sat (p : Int) w c) :
    ∀ b ∈ bitWires k vs, ev p w b.lc * (1 - ev p w b.lc) = 0 := by
  intro b hb
  have := (sat_iff _ _ _).mp (hw (boolC b) (List.mem_map_of_mem hb))
  rw [ev_rsubI h1 1 (bitWires_WF b hb)] at this
  simpa using this

/-- what the constraints of `to_bits` force, for ANY assignment: the bit wires are 0/1, `x` is
their binary sum, hence the embedding of a natural `S < 2^n`, whose binary digits they are.
No size condition on `p` is needed for this part. -/
theorem toBitsCons_sound {x : LinComb} {k : Nat} {vs : List Int} (hx : x.lc.WF) (h1 : w .one = 1)
    (hw : ∀ c ∈ toBitsCons k x vs, Sat (p : Int) w c) :
    ∃ S : ℕ, S < 2 ^ vs.length ∧ ev p w x.lc = (S : ZMod p) ∧
      ∀ (i : Nat) (hi : i < (bitWires k vs).length),
        ev p w (bitWires k vs)[i].lc = ((S / 2 ^ i % 2 : ℕ) : ZMod p) := by
  have hb := bitCons_sound h1 (fun c hc => hw c (List.mem_append_left _ hc))
  have hz := (sat_iff _ _ _).mp
    (hw (LC.zero, LC.zero, (x.subFB (fromBits (bitWires k vs))).lc) (by simp [toBitsCons]))
  obtain ⟨S, hS, hSe, hbit⟩ := zsum_bits ((bitWires k vs).map (fun b => ev p w b.lc))
    (by intro b hb'; obtain ⟨b0, hb0, rfl⟩ := List.mem_map.mp hb'; exact hb b0 hb0)
  refine ⟨S, by simpa using hS, ?_, ?_⟩
  · rw [ev_subFB hx _ bitWires_WF, hSe] at hz
    simp only [ev_zero, mul_zero] at hz
    linear_combination -hz
  · intro i hi
    have := hbit i (by simpa using hi)
    simpa using this

/-- **`to_bits`** (width `n = bits` or the global bit length) -/
theorem toBits_sound {x : LinComb} {bits : Option Nat} {bs : List LinComb} (hp : s.p = p)
    (hg : s.guard = none) (hx : x.lc.WF) (h : toBits x bits s = .ok (bs, s'))
    (h1 : w .one = 1) (hw : NewSat s s' w) :
    bs.length = bits.getD s.bitlength ∧
    ∃ S : ℕ, S < 2 ^ (bits.getD s.bitlength) ∧ ev p w x.lc = (S : ZMod p) ∧
      ∀ (i : Nat) (hi : i < bs.length), ev p w bs[i].lc = ((S / 2 ^ i % 2 : ℕ) : ZMod p) := by
  obtain ⟨vs, hl, rfl, rfl⟩ := toBits_ok hg h
  rw [NewSat_ext, hp] at hw
  obtain ⟨S, hS, hSe, hbit⟩ := toBitsCons_sound hx h1 hw
  exact ⟨by simpa using hl, S, hl ▸ hS, hSe, hbit⟩

/-- every returned bit evaluates to 0 or 1 -/
theorem toBits_bool {x : LinComb} {bits : Option Nat} {bs : List LinComb} (hp : s.p = p)
    (hg : s.guard = none) (hx : x.lc.WF) (h : toBits x bits s = .ok (bs, s'))
    (h1 : w .one = 1) (hw : NewSat s s' w) :
    ∀ b ∈ bs, ev p w b.lc = 0 ∨ ev p w b.lc = 1 := by
  obtain ⟨-, S, -, -, hbit⟩ := toBits_sound hp hg hx h h1 hw
  intro b hb
  obtain ⟨i, hi, rfl⟩ := List.mem_iff_getElem.mp hb
  rw [hbit i hi]
  rcases Nat.mod_two_eq_zero_or_one (S / 2 ^ i) with e | e <;> rw [e] <;> simp

/-- with `2^n ≤ p` the natural is unique, so the bits are a function of `x`: two assignments
that satisfy the new constraints and agree on `x` agree on every returned bit -/
theorem toBits_determined {x : LinComb} {bits : Option Nat} {bs : List LinComb} (hp : s.p = p)
    (hn : 2 ^ (bits.getD s.bitlength) ≤ p)
    (hg : s.guard = none) (hx : x.lc.WF) (h : toBits x bits s = .ok (bs, s'))
    {w' : Wire → Int} (h1 : w .one = 1) (h1' : w' .one = 1)
    (hw : NewSat s s' w) (hw' : NewSat s s' w') (hxx : ev p w x.lc = ev p w' x.lc) :
    ∀ (i : Nat) (hi : i < bs.length), ev p w bs[i].lc = ev p w' bs[i].lc := by
  obtain ⟨-, S, hS, hSe, hbit⟩ := toBits_sound hp hg hx h h1 hw
  obtain ⟨-, T, hT, hTe, hbit'⟩ := toBits_sound hp hg hx h h1' hw'
  have : S = T := natCast_inj_lt (p := p) (by omega) (by omega) (by rw [← hSe, ← hTe, hxx])
  subst this
  intro i hi
  rw [hbit i hi, hbit' i hi]

/-- **`assert_positive(bits)`**: the width enforced is the requested one -/
theorem assertPositive_sound {x : LinComb} {bits : Option Nat} {u : Unit} (hp : s.p = p)
    (hg : s.guard = none) (hx : x.lc.WF) (h : assertPositive x bits s = .ok (u, s'))
    (h1 : w .one = 1) (hw : NewSat s s' w) : InRange p (bits.getD s.bitlength) (ev p w x.lc) := by
  obtain ⟨vs, hl, rfl⟩ := assertPositive_ok hg h
  rw [NewSat_ext, hp] at hw
  obtain ⟨S, hS, hSe, -⟩ := toBitsCons_sound hx h1 hw
  exact ⟨S, hl ▸ hS, hSe⟩

/-- what the constraints of `check_positive` force, for ANY assignment -/
theorem cpCons_sound {x : LinComb} {k : Nat} {rv : Int} {vs : List Int} (hx : x.lc.WF)
    (h1 : w .one = 1) (hw : ∀ c ∈ cpCons k x rv vs, Sat (p : Int) w c) :
    ((w (.priv k) : ZMod p) = 1 ∧ InRange p vs.length (ev p w x.lc)) ∨
    ((w (.priv k) : ZMod p) = 0 ∧ InNegRange p vs.length (ev p w x.lc)) := by
  have hr := (sat_iff _ _ _).mp (hw (boolC (fw k rv)) (by simp [cpCons]))
  rw [ev_rsubI h1 1 (WF_fw _ _)] at hr
  simp only [ev_fw, Int.cast_one, ev_zero] at hr
  have hb := bitCons_sound (k := k+1) (vs := vs) h1 (fun c hc => hw c (by simp [cpCons, hc]))
  have hc := (sat_iff _ _ _).mp (hw (((fw k rv).mulI 2).lc, x.lc,
      ((x.addFB (fromBits (bitWires (k+1) vs))).add ((fw k rv).rsubI 1)).lc) (by simp [cpCons]))
  obtain ⟨S, hS, hSe, -⟩ := zsum_bits ((bitWires (k+1) vs).map (fun b => ev p w b.lc))
    (by intro b hb'; obtain ⟨b0, hb0, rfl⟩ := List.mem_map.mp hb'; exact hb b0 hb0)
  have hS' : S < 2 ^ vs.length := by simpa using hS
  rw [ev_add (addFB_WF hx _ bitWires_WF) (LinComb.WF_rsubI 1 (WF_fw _ _)),
    ev_rsubI h1 1 (WF_fw _ _), ev_mulI, ev_fw, ev_addFB hx _ bitWires_WF, hSe] at hc
  push_cast at hc
  rcases bool_of_mul hr with h | h
  · right; refine ⟨h, S, hS', ?_⟩
    rw [h] at hc; push_cast; linear_combination -hc
  · left; refine ⟨h, S, hS', ?_⟩
    rw [h] at hc; linear_combination hc

/-- **`check_positive`** (width `n`): the result is 0/1; 1 forces `x ∈ [0, 2^n)`, 0 forces
`x ∈ [-2^n, -1]` -/
theorem checkPositive_sound {x r : LinComb} {bits : Option Nat} (hp : s.p = p)
    (hg : s.guard = none) (hx : x.lc.WF) (h : checkPositive x bits s = .ok (r, s'))
    (h1 : w .one = 1) (hw : NewSat s s' w) :
    (ev p w r.lc = 1 ∧ InRange p (bits.getD s.bitlength) (ev p w x.lc)) ∨
    (ev p w r.lc = 0 ∧ InNegRange p (bits.getD s.bitlength) (ev p w x.lc)) := by
  obtain ⟨rv, vs, hl, rfl, rfl⟩ := checkPositive_ok hg h
  rw [NewSat_ext, hp] at hw
  have := cpCons_sound hx h1 hw
  rw [hl] at this
  simpa using this

/-- with `2^(n+1) ≤ p` the two cases are exclusive, so the result is a function of `x` -/
theorem checkPositive_iff {x r : LinComb} {bits : Option Nat} (hp : s.p = p)
    (hn : 2 ^ (bits.getD s.bitlength + 1) ≤ p)
    (hg : s.guard = none) (hx : x.lc.WF) (h : checkPositive x bits s = .ok (r, s'))
    (h1 : w .one = 1) (hw : NewSat s s' w) :
    (ev p w r.lc = 1 ↔ InRange p (bits.getD s.bitlength) (ev p w x.lc)) ∧
    (ev p w r.lc = 0 ↔ InNegRange p (bits.getD s.bitlength) (ev p w x.lc)) := by
  rcases checkPositive_sound hp hg hx h h1 hw with ⟨e, hr⟩ | ⟨e, hr⟩
  · refine ⟨⟨fun _ => hr, fun _ => e⟩, ⟨fun e0 => ?_, fun hn' => (range_exclusive hn hr hn').elim⟩⟩
    rw [e] at e0; exact absurd e0 one_ne_zero
  · refine ⟨⟨fun e1 => ?_, fun hr' => (range_exclusive hn hr' hr).elim⟩, ⟨fun _ => hr, fun _ => e⟩⟩
    rw [e] at e1; exact absurd e1 zero_ne_one

theorem checkPositive_determined {x r : LinComb} {bits : Option Nat} (hp : s.p = p)
    (hn : 2 ^ (bits.getD s.bitlength + 1) ≤ p)
    (hg : s.guard = none) (hx : x.lc.WF) (h : checkPositive x bits s = .ok (r, s'))
    {w' : Wire → Int} (h1 : w .one = 1) (h1' : w' .one = 1)
    (hw : NewSat s s' w) (hw' : NewSat s s' w') (hxx : ev p w x.lc = ev p w' x.lc) :
    ev p w r.lc = ev p w' r.lc := by
  have a := checkPositive_iff hp hn hg hx h h1 hw
  have b := checkPositive_iff hp hn hg hx h h1' hw'
  rw [hxx] at a
  rcases checkPositive_sound hp hg hx h h1' hw' with ⟨e, hr⟩ | ⟨e, hr⟩
  · rw [e, a.1.mpr hr]
  · rw [e, a.2.mpr hr]

end ranges

/-! ## comparisons -/
section comparisons
variable {p : ℕ} [Fact p.Prime] {s s' : St} {w : Wire → Int} {a b r : LinComb} {c : Int}

/-- what a comparison that reduces to `check_positive x` (global bit length) forces -/
def CPSpec (p : ℕ) (n : ℕ) (r x : ZMod p) : Prop :=
  (r = 1 ∧ InRange p n x) ∨ (r = 0 ∧ InNegRange p n x)

theorem cpEmit_sound {x : LinComb} (hp : s.p = p) (hx : x.lc.WF) (he : CPEmit s s' x r)
    (h1 : w .one = 1) (hw : NewSat s s' w) :
    CPSpec p s.bitlength (ev p w r.lc) (ev p w x.lc) := by
  obtain ⟨rv, vs, hl, rfl, rfl⟩ := he
  rw [NewSat_ext, hp] at hw
  have := cpCons_sound hx h1 hw
  rw [hl] at this
  simpa [CPSpec] using this

/-- `CPSpec` makes the result boolean; with `2^(n+1) ≤ p` it makes it a function of `x` -/
theorem CPSpec.bool {n : ℕ} {r x : ZMod p} (h : CPSpec p n r x) : r = 0 ∨ r = 1 := by
  rcases h with ⟨e, -⟩ | ⟨e, -⟩
  · exact Or.inr e
  · exact Or.inl e

theorem CPSpec.iff {n : ℕ} (hn : 2 ^ (n + 1) ≤ p) {r x : ZMod p} (h : CPSpec p n r x) :
    (r = 1 ↔ InRange p n x) ∧ (r = 0 ↔ InNegRange p n x) := by
  rcases h with ⟨e, hr⟩ | ⟨e, hr⟩
  · refine ⟨⟨fun _ => hr, fun _ => e⟩, ⟨fun e0 => ?_, fun hn' => (range_exclusive hn hr hn').elim⟩⟩
    rw [e] at e0; exact absurd e0 one_ne_zero
  · refine ⟨⟨fun e1 => ?_, fun hr' => (range_exclusive hn hr' hr).elim⟩, ⟨fun _ => hr, fun _ => e⟩⟩
    rw [e] at e1; exact absurd e1 zero_ne_one

theorem CPSpec.unique {n : ℕ} (hn : 2 ^ (n + 1) ≤ p) {r r' x : ZMod p}
    (h : CPSpec p n r x) (h' : CPSpec p n r' x) : r = r' := by
  have a := h.iff hn
  rcases h' with ⟨e, hr⟩ | ⟨e, hr⟩
  · rw [e, a.1.mpr hr]
  · rw [e, a.2.mpr hr]

/-- `a < b`: 1 forces `b - a - 1 ∈ [0, 2^n)`, 0 forces `b - a - 1 ∈ [-2^n, -1]` -/
theorem ltLL_sound (hp : s.p = p) (hg : s.guard = none) (ha : a.lc.WF) (hb : b.lc.WF)
    (h : ltLL a b s = .ok (r, s')) (h1 : w .one = 1) (hw : NewSat s s' w) :
    CPSpec p s.bitlength (ev p w r.lc) (ev p w b.lc - ev p w a.lc - 1) := by
  have := cpEmit_sound hp (LinComb.WF_subI 1 (LinComb.WF_sub hb ha)) (ltLL_ok hg h) h1 hw
  rwa [ev_subI h1 1 (LinComb.WF_sub hb ha), ev_sub hb ha, Int.cast_one] at this

theorem leLL_sound (hp : s.p = p) (hg : s.guard = none) (ha : a.lc.WF) (hb : b.lc.WF)
    (h : leLL a b s = .ok (r, s')) (h1 : w .one = 1) (hw : NewSat s s' w) :
    CPSpec p s.bitlength (ev p w r.lc) (ev p w b.lc - ev p w a.lc) := by
  have := cpEmit_sound hp (LinComb.WF_sub hb ha) (leLL_ok hg h) h1 hw
  rwa [ev_sub hb ha] at this

theorem gtLL_sound (hp : s.p = p) (hg : s.guard = none) (ha : a.lc.WF) (hb : b.lc.WF)
    (h : gtLL a b s = .ok (r, s')) (h1 : w .one = 1) (hw : NewSat s s' w) :
    CPSpec p s.bitlength (ev p w r.lc) (ev p w a.lc - ev p w b.lc - 1) := by
  have := cpEmit_sound hp (LinComb.WF_subI 1 (LinComb.WF_sub ha hb)) (gtLL_ok hg h) h1 hw
  rwa [ev_subI h1 1 (LinComb.WF_sub ha hb), ev_sub ha hb, Int.cast_one] at this

theorem geLL_sound (hp : s.p = p) (hg : s.guard = none) (ha : a.lc.WF) (hb : b.lc.WF)
    (h : geLL a b s = .ok (r, s')) (h1 : w .one = 1) (hw : NewSat s s' w) :
    CPSpec p s.bitlength (ev p w r.lc) (ev p w a.lc - ev p w b.lc) := by
  have := cpEmit_sound hp (LinComb.WF_sub ha hb) (geLL_ok hg h) h1 hw
  rwa [ev_sub ha hb] at this

theorem ltLI_sound (hp : s.p = p) (hg : s.guard = none) (ha : a.lc.WF)
    (h : ltLI a c s = .ok (r, s')) (h1 : w .one = 1) (hw : NewSat s s' w) :
    CPSpec p s.bitlength (ev p w r.lc) ((c : ZMod p) - ev p w a.lc - 1) := by
  have := cpEmit_sound hp (LinComb.WF_subI 1 (LinComb.WF_rsubI c ha)) (ltLI_ok hg h) h1 hw
  rwa [ev_subI h1 1 (LinComb.WF_rsubI c ha), ev_rsubI h1 c ha, Int.cast_one] at this

theorem leLI_sound (hp : s.p = p) (hg : s.guard = none) (ha : a.lc.WF)
    (h : leLI a c s = .ok (r, s')) (h1 : w .one = 1) (hw : NewSat s s' w) :
    CPSpec p s.bitlength (ev p w r.lc) ((c : ZMod p) - ev p w a.lc) := by
  have := cpEmit_sound hp (LinComb.WF_rsubI c ha) (leLI_ok hg h) h1 hw
  rwa [ev_rsubI h1 c ha] at this

theorem gtLI_sound (hp : s.p = p) (hg : s.guard = none) (ha : a.lc.WF)
    (h : gtLI a c s = .ok (r, s')) (h1 : w .one = 1) (hw : NewSat s s' w) :
    CPSpec p s.bitlength (ev p w r.lc) (ev p w a.lc - (c : ZMod p) - 1) := by
  have := cpEmit_sound hp (LinComb.WF_subI 1 (LinComb.WF_subI c ha)) (gtLI_ok hg h) h1 hw
  rwa [ev_subI h1 1 (LinComb.WF_subI c ha), ev_subI h1 c ha, Int.cast_one] at this

theorem geLI_sound (hp : s.p = p) (hg : s.guard = none) (ha : a.lc.WF)
    (h : geLI a c s = .ok (r, s')) (h1 : w .one = 1) (hw : NewSat s s' w) :
    CPSpec p s.bitlength (ev p w r.lc) (ev p w a.lc - (c : ZMod p)) := by
  have := cpEmit_sound hp (LinComb.WF_subI c ha) (geLI_ok hg h) h1 hw
  rwa [ev_subI h1 c ha] at this

/-- `a == b`: the indicator of equality in the field -/
theorem eqLL_sound (hp : s.p = p) (ha : a.lc.WF) (hb : b.lc.WF)
    (h : eqLL a b s = .ok (r, s')) (h1 : w .one = 1) (hw : NewSat s s' w) :
    ev p w r.lc = if ev p w a.lc = ev p w b.lc then 1 else 0 := by
  have := checkZero_sound hp h h1 hw
  rw [ev_sub ha hb] at this
  simpa [sub_eq_zero] using this

theorem neLL_sound (hp : s.p = p) (ha : a.lc.WF) (hb : b.lc.WF)
    (h : neLL a b s = .ok (r, s')) (h1 : w .one = 1) (hw : NewSat s s' w) :
    ev p w r.lc = if ev p w a.lc = ev p w b.lc then 0 else 1 := by
  have := checkNonzero_sound hp h h1 hw
  rw [ev_sub ha hb] at this
  simpa [sub_eq_zero] using this

theorem eqLI_sound (hp : s.p = p) (ha : a.lc.WF)
    (h : eqLI a c s = .ok (r, s')) (h1 : w .one = 1) (hw : NewSat s s' w) :
    ev p w r.lc = if ev p w a.lc = (c : ZMod p) then 1 else 0 := by
  have := checkZero_sound hp h h1 hw
  rw [ev_subI h1 c ha] at this
  simpa [sub_eq_zero] using this

theorem neLI_sound (hp : s.p = p) (ha : a.lc.WF)
    (h : neLI a c s = .ok (r, s')) (h1 : w .one = 1) (hw : NewSat s s' w) :
    ev p w r.lc = if ev p w a.lc = (c : ZMod p) then 0 else 1 := by
  have := checkNonzero_sound hp h h1 hw
  rw [ev_subI h1 c ha] at this
  simpa [sub_eq_zero] using this

end comparisons

/-! ## assertions -/
section asserts
variable {p : ℕ} [Fact p.Prime] {s s' : St} {w : Wire → Int} {a b : LinComb} {u : Unit}

theorem apEmit_sound {x : LinComb} (hp : s.p = p) (hx : x.lc.WF) (he : APEmit s s' x)
    (h1 : w .one = 1) (hw : NewSat s s' w) : InRange p s.bitlength (ev p w x.lc) := by
  obtain ⟨vs, hl, rfl⟩ := he
  rw [NewSat_ext, hp] at hw
  obtain ⟨S, hS, hSe, -⟩ := toBitsCons_sound hx h1 hw
  exact ⟨S, hl ▸ hS, hSe⟩

theorem assertLt_sound (hp : s.p = p) (hg : s.guard = none) (ha : a.lc.WF) (hb : b.lc.WF)
    (h : assertLt a b s = .ok (u, s')) (h1 : w .one = 1) (hw : NewSat s s' w) :
    InRange p s.bitlength (ev p w b.lc - ev p w a.lc - 1) := by
  have := apEmit_sound hp (LinComb.WF_subI 1 (LinComb.WF_sub hb ha)) (assertLt_ok hg h) h1 hw
  rwa [ev_subI h1 1 (LinComb.WF_sub hb ha), ev_sub hb ha, Int.cast_one] at this

theorem assertLe_sound (hp : s.p = p) (hg : s.guard = none) (ha : a.lc.WF) (hb : b.lc.WF)
    (h : assertLe a b s = .ok (u, s')) (h1 : w .one = 1) (hw : NewSat s s' w) :
    InRange p s.bitlength (ev p w b.lc - ev p w a.lc) := by
  have := apEmit_sound hp (LinComb.WF_sub hb ha) (assertLe_ok hg h) h1 hw
  rwa [ev_sub hb ha] at this

theorem assertGt_sound (hp : s.p = p) (hg : s.guard = none) (ha : a.lc.WF) (hb : b.lc.WF)
    (h : assertGt a b s = .ok (u, s')) (h1 : w .one = 1) (hw : NewSat s s' w) :
    InRange p s.bitlength (ev p w a.lc - ev p w b.lc - 1) := by
  have := apEmit_sound hp (LinComb.WF_subI 1 (LinComb.WF_sub ha hb)) (assertGt_ok hg h) h1 hw
  rwa [ev_subI h1 1 (LinComb.WF_sub ha hb), ev_sub ha hb, Int.cast_one] at this

theorem assertGe_sound (hp : s.p = p) (hg : s.guard = none) (ha : a.lc.WF) (hb : b.lc.WF)
    (h : assertGe a b s = .ok (u, s')) (h1 : w .one = 1) (hw : NewSat s s' w) :
    InRange p s.bitlength (ev p w a.lc - ev p w b.lc) := by
  have := apEmit_sound hp (LinComb.WF_sub ha hb) (assertGe_ok hg h) h1 hw
  rwa [ev_sub ha hb] at this

theorem assertEq_sound (hp : s.p = p) (hg : s.guard = none) (ha : a.lc.WF) (hb : b.lc.WF)
    (h : assertEq a b s = .ok (u, s')) (hw : NewSat s s' w) : ev p w a.lc = ev p w b.lc := by
  have := assertEq_ok hg h; subst this
  rw [NewSat_ext, hp] at hw
  have := (sat_iff _ _ _).mp (hw _ (List.mem_singleton.mpr rfl))
  rw [ev_sub ha hb] at this
  simp only [ev_zero, mul_zero] at this
  exact sub_eq_zero.mp this.symm

theorem assertNe_sound (hp : s.p = p) (hg : s.guard = none) (hone : s.one = oneSafe)
    (ha : a.lc.WF) (hb : b.lc.WF)
    (h : assertNe a b s = .ok (u, s')) (h1 : w .one = 1) (hw : NewSat s s' w) :
    ev p w a.lc ≠ ev p w b.lc := by
  obtain ⟨wv, rfl⟩ := assertNe_ok hg h
  rw [NewSat_ext, hp] at hw
  have := (sat_iff _ _ _).mp (hw _ (List.mem_singleton.mpr rfl))
  rw [hone, ev_sub ha hb] at this
  simp only [oneSafe, ev_one h1, ev_wire] at this
  intro h0; rw [h0, sub_self, zero_mul] at this; exact zero_ne_one this

/-- `assert_range(lo, hi)`: `x - lo ≥ 0` and `hi - x - 1 ≥ 0`, the half-open range `[lo, hi)` -/
theorem assertRange_sound {x lo hi : LinComb} (hp : s.p = p) (hg : s.guard = none)
    (hx : x.lc.WF) (hlo : lo.lc.WF) (hhi : hi.lc.WF)
    (h : assertRange x lo hi s = .ok (u, s')) (h1 : w .one = 1) (hw : NewSat s s' w) :
    InRange p s.bitlength (ev p w x.lc - ev p w lo.lc) ∧
    InRange p s.bitlength (ev p w hi.lc - ev p w x.lc - 1) := by
  obtain ⟨vs1, vs2, hl1, hl2, rfl⟩ := assertRange_ok hg h
  rw [NewSat_ext, hp] at hw
  obtain ⟨S, hS, hSe, -⟩ := toBitsCons_sound (LinComb.WF_sub hx hlo) h1
    (fun c hc => hw c (List.mem_append_left _ hc))
  obtain ⟨T, hT, hTe, -⟩ := toBitsCons_sound (LinComb.WF_subI 1 (LinComb.WF_sub hhi hx)) h1
    (fun c hc => hw c (List.mem_append_right _ hc))
  rw [ev_sub hx hlo] at hSe
  rw [ev_subI h1 1 (LinComb.WF_sub hhi hx), ev_sub hhi hx, Int.cast_one] at hTe
  exact ⟨⟨S, hl1 ▸ hS, hSe⟩, ⟨T, hl2 ▸ hT, hTe⟩⟩

end asserts

/-! ## bitwise operations on two `LinComb`s -/
section bitwise
variable {p : ℕ}

/-- field value of what `from_bits` returns (`none` is the python int 0) -/
def evFB (p : ℕ) (w : Wire → Int) : Option LinComb → ZMod p
  | none => 0
  | some y => ev p w y.lc

theorem evFB_fromBits {w : Wire → Int} (bs : List LinComb) (hb : ∀ b ∈ bs, b.lc.WF) :
    evFB p w (fromBits bs) = zsum (bs.map (fun b => ev p w b.lc)) := by
  rw [← wsum_cast, ← evalFB_fromBits w bs hb]
  cases fromBits bs <;> simp [evFB, evalFB, ev]

/-- the binary digits of `T < 2^n` sum back to `T` -/
theorem zsum_digits : ∀ (n T : ℕ), T < 2 ^ n →
    zsum ((List.range n).map (fun i => ((T / 2 ^ i % 2 : ℕ) : ZMod p))) = (T : ZMod p)
  | 0, T, h => by
    have : T = 0 := by simpa using h
    subst this; simp [zsum]
  | n+1, T, h => by
    rw [List.range_succ_eq_map, List.map_cons, List.map_map, zsum]
    have e : (fun i => ((T / 2 ^ i % 2 : ℕ) : ZMod p)) ∘ Nat.succ
        = fun i => (((T / 2) / 2 ^ i % 2 : ℕ) : ZMod p) := by
      funext i
      simp only [Function.comp, Nat.succ_eq_add_one, pow_succ]
      rw [Nat.mul_comm (2 ^ i) 2, ← Nat.div_div_eq_div_mul]
    rw [e, zsum_digits n (T / 2) (by rw [pow_succ] at h; omega)]
    have := congrArg (Nat.cast : ℕ → ZMod p) (Nat.mod_add_div T 2)
    push_cast at this
    simpa using this

theorem digit_lt (S i : ℕ) : S / 2 ^ i % 2 < 2 := Nat.mod_lt _ (by omega)

theorem and_digit (a b i : ℕ) : (a &&& b) / 2 ^ i % 2 = (a / 2 ^ i % 2) &&& (b / 2 ^ i % 2) := by
  rw [← Nat.shiftRight_eq_div_pow, Nat.shiftRight_and_distrib, Nat.shiftRight_eq_div_pow,
    Nat.shiftRight_eq_div_pow]
  exact Nat.and_mod_two_pow (n := 1)
theorem or_digit (a b i : ℕ) : (a ||| b) / 2 ^ i % 2 = (a / 2 ^ i % 2) ||| (b / 2 ^ i % 2) := by
  rw [← Nat.shiftRight_eq_div_pow, Nat.shiftRight_or_distrib, Nat.shiftRight_eq_div_pow,
    Nat.shiftRight_eq_div_pow]
  exact Nat.or_mod_two_pow (n := 1)
theorem xor_digit (a b i : ℕ) : (a ^^^ b) / 2 ^ i % 2 = (a / 2 ^ i % 2) ^^^ (b / 2 ^ i % 2) := by
  rw [← Nat.shiftRight_eq_div_pow, Nat.shiftRight_xor_distrib, Nat.shiftRight_eq_div_pow,
    Nat.shiftRight_eq_div_pow]
  exact Nat.xor_mod_two_pow (n := 1)

variable [Fact p.Prime] {s s' : St} {w : Wire → Int}

theorem mapWires_WF (R : Nat → LinComb × LinComb → LinComb)
    (hR : ∀ k xy, xy.1.lc.WF → xy.2.lc.WF → (R k xy).lc.WF) :
    ∀ (k : Nat) (xs : List (LinComb × LinComb)), (∀ xy ∈ xs, xy.1.lc.WF ∧ xy.2.lc.WF) →
      ∀ b ∈ mapWires R k xs, b.lc.WF
  | _, [], _, b, hb => by simp [mapWires] at hb
  | k, x :: xs, hx, b, hb => by
    simp only [mapWires, List.mem_cons] at hb
    rcases hb with rfl | hb
    · exact hR k x (hx x List.mem_cons_self).1 (hx x List.mem_cons_self).2
    · exact mapWires_WF R hR (k+1) xs (fun y hy => hx y (List.mem_cons_of_mem _ hy)) b hb

omit [Fact p.Prime] in
theorem mapCons_sound (R : Nat → LinComb × LinComb → LinComb)
    (C : Nat → LinComb × LinComb → Constraint) (g : ZMod p → ZMod p → ZMod p)
    (hstep : ∀ k xy, xy.1.lc.WF → xy.2.lc.WF → Sat (p : Int) w (C k xy) →
      ev p w (R k xy).lc = g (ev p w xy.1.lc) (ev p w xy.2.lc)) :
    ∀ (k : Nat) (xs : List (LinComb × LinComb)), (∀ xy ∈ xs, xy.1.lc.WF ∧ xy.2.lc.WF) →
      (∀ c ∈ mapCons C k xs, Sat (p : Int) w c) →
      (mapWires R k xs).map (fun b => ev p w b.lc)
        = xs.map (fun xy => g (ev p w xy.1.lc) (ev p w xy.2.lc))
  | _, [], _, _ => by simp [mapWires]
  | k, x :: xs, hx, hc => by
    simp only [mapWires, List.map_cons]
    rw [hstep k x (hx x List.mem_cons_self).1 (hx x List.mem_cons_self).2
        (hc _ (by simp [mapCons])),
      mapCons_sound R C g hstep (k+1) xs (fun y hy => hx y (List.mem_cons_of_mem _ hy))
        (fun c hc' => hc c (by simp [mapCons, hc']))]

/-- generic soundness of `&`, `|`, `^` on two `LinComb`s: both operands are embeddings of
naturals below `2^n` and the result is the binary sum of the digit-wise operation -/
theorem bitwiseEmit_sound (R : Nat → LinComb × LinComb → LinComb)
    (C : Nat → LinComb × LinComb → Constraint) (g : ZMod p → ZMod p → ZMod p) (f : ℕ → ℕ → ℕ)
    (hR : ∀ k xy, xy.1.lc.WF → xy.2.lc.WF → (R k xy).lc.WF)
    (hstep : ∀ k xy, xy.1.lc.WF → xy.2.lc.WF → Sat (p : Int) w (C k xy) →
      ev p w (R k xy).lc = g (ev p w xy.1.lc) (ev p w xy.2.lc))
    (hgf : ∀ x y : ℕ, x < 2 → y < 2 → g (x : ZMod p) (y : ZMod p) = ((f x y : ℕ) : ZMod p))
    {a b : LinComb} {r : Option LinComb} (hp : s.p = p) (ha : a.lc.WF) (hb : b.lc.WF)
    (he : BitwiseEmit R C s s' a b r) (h1 : w .one = 1) (hw : NewSat s s' w) :
    ∃ Sa Sb : ℕ, Sa < 2 ^ s.bitlength ∧ Sb < 2 ^ s.bitlength ∧
      ev p w a.lc = (Sa : ZMod p) ∧ ev p w b.lc = (Sb : ZMod p) ∧
      evFB p w r = zsum ((List.range s.bitlength).map
        (fun i => ((f (Sa / 2 ^ i % 2) (Sb / 2 ^ i % 2) : ℕ) : ZMod p))) := by
  obtain ⟨va, vb, hs, hla, hlb, -, rfl, rfl⟩ := he
  rw [NewSat_ext, hp] at hw
  obtain ⟨Sa, hSa, hSae, hA⟩ := toBitsCons_sound ha h1
    (fun c hc => hw c (List.mem_append_left _ (List.mem_append_left _ hc)))
  obtain ⟨Sb, hSb, hSbe, hB⟩ := toBitsCons_sound hb h1
    (fun c hc => hw c (List.mem_append_left _ (List.mem_append_right _ hc)))
  refine ⟨Sa, Sb, hla ▸ hSa, hlb ▸ hSb, hSae, hSbe, ?_⟩
  have hzipWF : ∀ xy ∈ (bitWires s.priv.length va).zip (bitWires (s.priv.length + s.bitlength) vb),
      xy.1.lc.WF ∧ xy.2.lc.WF := by
    intro xy hxy
    obtain ⟨h1', h2'⟩ := List.of_mem_zip (a := xy.1) (b := xy.2) hxy
    exact ⟨bitWires_WF _ h1', bitWires_WF _ h2'⟩
  rw [evFB_fromBits _ (mapWires_WF R hR _ _ hzipWF),
    mapCons_sound R C g hstep _ _ hzipWF (fun c hc => hw c (List.mem_append_right _ hc))]
  congr 1
  apply List.ext_getElem
  · simp [hla, hlb]
  · intro i hi1 hi2
    have hiA : i < (bitWires s.priv.length va).length := by
      simp only [List.length_map, List.length_zip, bitWires_length] at hi1 ⊢; omega
    have hiB : i < (bitWires (s.priv.length + s.bitlength) vb).length := by
      simp only [List.length_map, List.length_zip, bitWires_length] at hi1 ⊢; omega
    simp only [List.getElem_map, List.getElem_zip, List.getElem_range]
    rw [hA i hiA, hB i hiB]
    exact hgf _ _ (digit_lt _ _) (digit_lt _ _)

theorem bit_cases {x : ℕ} (h : x < 2) : x = 0 ∨ x = 1 := by omega

/-- **`a & b`**: both operands are forced into `[0, 2^n)` and the result is the bitwise AND of
their representatives -/
theorem andLL_sound {a b : LinComb} {r : Option LinComb} (hp : s.p = p) (hg : s.guard = none)
    (ha : a.lc.WF) (hb : b.lc.WF) (h : andLL a b s = .ok (r, s')) (h1 : w .one = 1)
    (hw : NewSat s s' w) :
    ∃ Sa Sb : ℕ, Sa < 2 ^ s.bitlength ∧ Sb < 2 ^ s.bitlength ∧
      ev p w a.lc = (Sa : ZMod p) ∧ ev p w b.lc = (Sb : ZMod p) ∧
      evFB p w r = ((Sa &&& Sb : ℕ) : ZMod p) := by
  obtain ⟨Sa, Sb, hSa, hSb, ea, eb, er⟩ := bitwiseEmit_sound (w := w) andR andC
    (fun u v => v * u) (fun x y => x &&& y)
    (fun k xy _ _ => WF_fw _ _)
    (fun k xy _ _ hc => by
      have := (sat_iff _ _ _).mp hc
      simp only [andR, ev_fw]; simpa using this.symm)
    (fun x y hx hy => by
      rcases bit_cases hx with rfl | rfl <;> rcases bit_cases hy with rfl | rfl <;> simp)
    hp ha hb (andLL_ok hg h) h1 hw
  refine ⟨Sa, Sb, hSa, hSb, ea, eb, ?_⟩
  rw [er, ← zsum_digits s.bitlength (Sa &&& Sb) (Nat.and_lt_two_pow _ hSb)]
  simp only [and_digit]

/-- **`a | b`** -/
theorem orLL_sound {a b : LinComb} {r : Option LinComb} (hp : s.p = p) (hg : s.guard = none)
    (ha : a.lc.WF) (hb : b.lc.WF) (h : orLL a b s = .ok (r, s')) (h1 : w .one = 1)
    (hw : NewSat s s' w) :
    ∃ Sa Sb : ℕ, Sa < 2 ^ s.bitlength ∧ Sb < 2 ^ s.bitlength ∧
      ev p w a.lc = (Sa : ZMod p) ∧ ev p w b.lc = (Sb : ZMod p) ∧
      evFB p w r = ((Sa ||| Sb : ℕ) : ZMod p) := by
  obtain ⟨Sa, Sb, hSa, hSb, ea, eb, er⟩ := bitwiseEmit_sound (w := w) orR andC
    (fun u v => v + u - v * u) (fun x y => x ||| y)
    (fun k xy h1' h2' => LinComb.WF_sub (LinComb.WF_add h2' h1') (WF_fw _ _))
    (fun k xy h1' h2' hc => by
      have := (sat_iff _ _ _).mp hc
      simp only [orR]
      rw [ev_sub (LinComb.WF_add h2' h1') (WF_fw _ _), ev_add h2' h1', ev_fw]
      simp only [ev_wire] at this
      rw [← this])
    (fun x y hx hy => by
      rcases bit_cases hx with rfl | rfl <;> rcases bit_cases hy with rfl | rfl <;> simp)
    hp ha hb (orLL_ok hg h) h1 hw
  refine ⟨Sa, Sb, hSa, hSb, ea, eb, ?_⟩
  rw [er, ← zsum_digits s.bitlength (Sa ||| Sb) (Nat.or_lt_two_pow hSa hSb)]
  simp only [or_digit]

/-- **`a ^ b`** -/
theorem xorLL_sound {a b : LinComb} {r : Option LinComb} (hp : s.p = p) (hg : s.guard = none)
    (ha : a.lc.WF) (hb : b.lc.WF) (h : xorLL a b s = .ok (r, s')) (h1 : w .one = 1)
    (hw : NewSat s s' w) :
    ∃ Sa Sb : ℕ, Sa < 2 ^ s.bitlength ∧ Sb < 2 ^ s.bitlength ∧
      ev p w a.lc = (Sa : ZMod p) ∧ ev p w b.lc = (Sb : ZMod p) ∧
      evFB p w r = ((Sa ^^^ Sb : ℕ) : ZMod p) := by
  obtain ⟨Sa, Sb, hSa, hSb, ea, eb, er⟩ := bitwiseEmit_sound (w := w) xorR xorC
    (fun u v => v + u - v * (2 * u)) (fun x y => x ^^^ y)
    (fun k xy h1' h2' => LinComb.WF_sub (LinComb.WF_add h2' h1') (WF_fw _ _))
    (fun k xy h1' h2' hc => by
      have := (sat_iff _ _ _).mp hc
      simp only [xorR]
      rw [ev_sub (LinComb.WF_add h2' h1') (WF_fw _ _), ev_add h2' h1', ev_fw]
      rw [ev_mulI] at this
      simp only [ev_wire] at this
      rw [← this]; push_cast; rfl)
    (fun x y hx hy => by
      rcases bit_cases hx with rfl | rfl <;> rcases bit_cases hy with rfl | rfl <;> norm_num)
    hp ha hb (xorLL_ok hg h) h1 hw
  refine ⟨Sa, Sb, hSa, hSb, ea, eb, ?_⟩
  rw [er, ← zsum_digits s.bitlength (Sa ^^^ Sb) (Nat.xor_lt_two_pow hSa hSb)]
  simp only [xor_digit]

/-- with `2^n ≤ p` a result of the form `F Sa Sb` of the representatives is a function of the
operands' field values -/
theorem bitop_determined {n : ℕ} (hn : 2 ^ n ≤ p) (F : ℕ → ℕ → ℕ) {xa xb r r' : ZMod p}
    (h : ∃ Sa Sb : ℕ, Sa < 2 ^ n ∧ Sb < 2 ^ n ∧ xa = (Sa : ZMod p) ∧ xb = (Sb : ZMod p) ∧
      r = ((F Sa Sb : ℕ) : ZMod p))
    (h' : ∃ Sa Sb : ℕ, Sa < 2 ^ n ∧ Sb < 2 ^ n ∧ xa = (Sa : ZMod p) ∧ xb = (Sb : ZMod p) ∧
      r' = ((F Sa Sb : ℕ) : ZMod p)) : r = r' := by
  obtain ⟨Sa, Sb, hSa, hSb, ea, eb, er⟩ := h
  obtain ⟨Ta, Tb, hTa, hTb, ea', eb', er'⟩ := h'
  have e1 : Sa = Ta := natCast_inj_lt (p := p) (by omega) (by omega) (by rw [← ea, ← ea'])
  have e2 : Sb = Tb := natCast_inj_lt (p := p) (by omega) (by omega) (by rw [← eb, ← eb'])
  rw [er, er', e1, e2]

/-- `a & b` is determined by the operands: two assignments that satisfy the new constraints and
agree on the operands agree on the result (`2^n ≤ p`) -/
theorem andLL_determined {a b : LinComb} {r : Option LinComb} (hp : s.p = p)
    (hn : 2 ^ s.bitlength ≤ p) (hg : s.guard = none)
    (ha : a.lc.WF) (hb : b.lc.WF) (h : andLL a b s = .ok (r, s'))
    {w' : Wire → Int} (h1 : w .one = 1) (h1' : w' .one = 1)
    (hw : NewSat s s' w) (hw' : NewSat s s' w')
    (hxa : ev p w a.lc = ev p w' a.lc) (hxb : ev p w b.lc = ev p w' b.lc) :
    evFB p w r = evFB p w' r := by
  have A := andLL_sound hp hg ha hb h h1 hw
  have B := andLL_sound hp hg ha hb h h1' hw'
  rw [← hxa, ← hxb] at B
  exact bitop_determined hn (fun x y => x &&& y) A B

theorem orLL_determined {a b : LinComb} {r : Option LinComb} (hp : s.p = p)
    (hn : 2 ^ s.bitlength ≤ p) (hg : s.guard = none)
    (ha : a.lc.WF) (hb : b.lc.WF) (h : orLL a b s = .ok (r, s'))
    {w' : Wire → Int} (h1 : w .one = 1) (h1' : w' .one = 1)
    (hw : NewSat s s' w) (hw' : NewSat s s' w')
    (hxa : ev p w a.lc = ev p w' a.lc) (hxb : ev p w b.lc = ev p w' b.lc) :
    evFB p w r = evFB p w' r := by
  have A := orLL_sound hp hg ha hb h h1 hw
  have B := orLL_sound hp hg ha hb h h1' hw'
  rw [← hxa, ← hxb] at B
  exact bitop_determined hn (fun x y => x ||| y) A B

theorem xorLL_determined {a b : LinComb} {r : Option LinComb} (hp : s.p = p)
    (hn : 2 ^ s.bitlength ≤ p) (hg : s.guard = none)
    (ha : a.lc.WF) (hb : b.lc.WF) (h : xorLL a b s = .ok (r, s'))
    {w' : Wire → Int} (h1 : w .one = 1) (h1' : w' .one = 1)
    (hw : NewSat s s' w) (hw' : NewSat s s' w')
    (hxa : ev p w a.lc = ev p w' a.lc) (hxb : ev p w b.lc = ev p w' b.lc) :
    evFB p w r = evFB p w' r := by
  have A := xorLL_sound hp hg ha hb h h1 hw
  have B := xorLL_sound hp hg ha hb h h1' hw'
  rw [← hxa, ← hxb] at B
  exact bitop_determined hn (fun x y => x ^^^ y) A B

/-- `mulBB` (product of two booleans, operands swapped by Python's reflected dispatch) -/
theorem mulBB_sound {x y r : LinComb} (hp : s.p = p) (h : mulBB x y s = .ok (r, s'))
    (hw : NewSat s s' w) : ev p w r.lc = ev p w x.lc * ev p w y.lc := by
  rw [mulLL_sound hp h hw, mul_comm]

end bitwise

/-! ## `~x`, `abs` -/
section misc
variable {p : ℕ} [Fact p.Prime] {s s' : St} {w : Wire → Int}

omit [Fact p.Prime] in
/-- the last constraint of `to_bits`: `x` is the binary sum of the bit wires -/
theorem toBitsCons_zsum {x : LinComb} {k : Nat} {vs : List Int} (hx : x.lc.WF)
    (hw : ∀ c ∈ toBitsCons k x vs, Sat (p : Int) w c) :
    zsum ((bitWires k vs).map (fun b => ev p w b.lc)) = ev p w x.lc := by
  have hz := (sat_iff _ _ _).mp
    (hw (LC.zero, LC.zero, (x.subFB (fromBits (bitWires k vs))).lc) (by simp [toBitsCons]))
  rw [ev_subFB hx _ bitWires_WF] at hz
  simp only [ev_zero, mul_zero] at hz
  linear_combination hz

theorem zsum_compl (l : List (ZMod p)) :
    zsum (l.map (fun x => 1 - x)) = (2 ^ l.length - 1) - zsum l := by
  induction l with
  | nil => simp [zsum]
  | cons b bs ih => simp only [List.map_cons, zsum, ih, List.length_cons, pow_succ]; ring

/-- **`~a`** as the model computes it: `a` is forced into `[0, 2^n)` and the result is
`2^n - 1 - a` (the `n`-bit complement, not Python's `-a - 1`) -/
theorem invertL_sound {a : LinComb} {r : Option LinComb} (hp : s.p = p) (hg : s.guard = none)
    (ha : a.lc.WF) (h : invertL a s = .ok (r, s')) (h1 : w .one = 1) (hw : NewSat s s' w) :
    InRange p s.bitlength (ev p w a.lc) ∧
    evFB p w r = 2 ^ s.bitlength - 1 - ev p w a.lc := by
  obtain ⟨vs, hl, rfl, rfl⟩ := invertL_ok hg h
  rw [NewSat_ext, hp] at hw
  obtain ⟨S, hS, hSe, -⟩ := toBitsCons_sound ha h1 hw
  refine ⟨⟨S, hl ▸ hS, hSe⟩, ?_⟩
  have hWF : ∀ b ∈ (bitWires s.priv.length vs).map (fun b => b.rsubI 1), b.lc.WF := by
    intro b hb
    obtain ⟨b0, hb0, rfl⟩ := List.mem_map.mp hb
    exact LinComb.WF_rsubI 1 (bitWires_WF b0 hb0)
  rw [evFB_fromBits _ hWF, List.map_map]
  have e : (bitWires s.priv.length vs).map ((fun b => ev p w b.lc) ∘ fun b => b.rsubI 1)
      = ((bitWires s.priv.length vs).map (fun b => ev p w b.lc)).map (fun x => 1 - x) := by
    rw [List.map_map]
    apply List.map_congr_left
    intro b hb
    simp only [Function.comp]
    rw [ev_rsubI h1 1 (bitWires_WF b hb), Int.cast_one]
  rw [e, zsum_compl, toBitsCons_zsum ha hw]
  simp [hl]

/-- **`abs(a)`**: `a ∈ [0,2^n)` and the result is `a`, or `a ∈ [-2^n,-1]` and the result is `-a` -/
theorem absL_sound {a r : LinComb} (hp : s.p = p) (hg : s.guard = none)
    (ha : a.lc.WF) (h : absL a s = .ok (r, s')) (h1 : w .one = 1) (hw : NewSat s s' w) :
    (InRange p s.bitlength (ev p w a.lc) ∧ ev p w r.lc = ev p w a.lc) ∨
    (InNegRange p s.bitlength (ev p w a.lc) ∧ ev p w r.lc = - ev p w a.lc) := by
  obtain ⟨rv, hv, vs, hl, rfl, rfl⟩ := absL_ok hg h
  rw [NewSat_ext, hp] at hw
  have hcp := cpCons_sound (LinComb.WF_subI 0 ha) h1 (fun c hc => hw c (List.mem_append_left _ hc))
  have hm := (sat_iff _ _ _).mp (hw _ (List.mem_append_right _ (List.mem_singleton.mpr rfl)))
  rw [ev_sub ha (LinComb.WF_neg ha), ev_neg] at hm
  simp only [ev_wire] at hm
  rw [ev_subI h1 0 ha, hl] at hcp
  simp only [Int.cast_zero, sub_zero] at hcp
  rw [ev_add (LinComb.WF_neg ha) (WF_fw _ _), ev_neg, ev_fw, ← hm]
  rcases hcp with ⟨e, hr⟩ | ⟨e, hr⟩
  · left; refine ⟨hr, ?_⟩; rw [e]; ring
  · right; refine ⟨hr, ?_⟩; rw [e]; ring

end misc

/-! ## bitwise operations with a python int: NOT constrained -/

theorem eval_update_of_not_mem (w : Wire → Int) (k : Wire) (v : Int) :
    ∀ l : LC, k ∉ l.keys → LC.eval (Function.update w k v) l = LC.eval w l
  | [], _ => rfl
  | (k', c) :: t, h => by
    simp only [LC.keys, List.map_cons, List.mem_cons, not_or] at h
    simp only [LC.eval]
    rw [Function.update_of_ne (fun e => h.1 e.symm), eval_update_of_not_mem w k v t h.2]

/-- **`a & c` for a python int `c` is unconstrained**: no constraint is emitted, the result is a
fresh wire, and for ANY target value `v` any assignment can be changed on that wire alone (so the
operand, being scoped in `s`, keeps its value) to make the result equal `v` while all new
constraints (there are none) hold. -/
theorem andLI_unconstrained {a r : LinComb} {c : Int} {s s' : St}
    (h : andLI a c s = .ok (r, s')) (hs : Scoped s a.lc) :
    newCons s s' = [] ∧ r.lc = [(Wire.priv s.priv.length, 1)] ∧
    ∀ (w : Wire → Int) (v : Int), ∃ w' : Wire → Int,
      (∀ k, k ≠ Wire.priv s.priv.length → w' k = w k) ∧ NewSat s s' w' ∧
      LC.eval w' a.lc = LC.eval w a.lc ∧ LC.eval w' r.lc = v := by
  obtain ⟨rfl, rfl⟩ := andLI_ok h
  refine ⟨by simp, rfl, ?_⟩
  intro w v
  refine ⟨Function.update w (Wire.priv s.priv.length) v, ?_, ?_, ?_, ?_⟩
  · intro k hk; exact Function.update_of_ne hk _ _
  · intro c hc; simp at hc
  · apply eval_update_of_not_mem
    intro hk
    have := hs _ hk
    simp [Wire.allocated] at this
  · simp

theorem xorLI_unconstrained {a r : LinComb} {c : Int} {s s' : St}
    (h : xorLI a c s = .ok (r, s')) :
    newCons s s' = [] ∧ r.lc = [(Wire.priv s.priv.length, 1)] := by
  obtain ⟨rfl, rfl⟩ := xorLI_ok h
  exact ⟨by simp, rfl⟩

theorem orLI_unconstrained {a r : LinComb} {c : Int} {s s' : St}
    (h : orLI a c s = .ok (r, s')) :
    newCons s s' = [] ∧ r.lc = [(Wire.priv s.priv.length, 1)] := by
  obtain ⟨rfl, rfl⟩ := orLI_ok h
  exact ⟨by simp, rfl⟩


/-! ## what `divmod` does enforce -/
section divmodPartial
variable {p : ℕ} [Fact p.Prime] {s s' : St} {w : Wire → Int}

/-- naturals below `2^n ≤ p` have at most one representative: `InRange` pins the natural down -/
theorem inRange_unique {n : ℕ} (hn : 2 ^ n ≤ p) {x : ZMod p} {S T : ℕ} (hS : S < 2 ^ n)
    (hT : T < 2 ^ n) (e1 : x = (S : ZMod p)) (e2 : x = (T : ZMod p)) : S = T :=
  natCast_inj_lt (p := p) (by omega) (by omega) (by rw [← e1, ← e2])

/-- the constraints of `divmod(a, d)` force `quo·d = a - rem`, `0 ≤ rem` and `rem < d` (both as
`n`-bit range checks) and NOTHING about the size of `quo`: see `divmod_not_determined` -/
theorem divmodLL_partial {a d quo rem : LinComb} (hp : s.p = p) (hg : s.guard = none)
    (ha : a.lc.WF) (hd : d.lc.WF) (h : divmodLL a d s = .ok ((quo, rem), s'))
    (h1 : w .one = 1) (hw : NewSat s s' w) :
    ev p w quo.lc * ev p w d.lc = ev p w a.lc - ev p w rem.lc ∧
    InRange p s.bitlength (ev p w d.lc - ev p w rem.lc - 1) ∧
    InRange p s.bitlength (ev p w rem.lc) := by
  obtain ⟨qv, pv, rv, vs1, vs2, hl1, hl2, rfl, rfl, rfl⟩ := divmodLL_ok hg h
  rw [NewSat_ext, hp] at hw
  have c2 := (sat_iff _ _ _).mp (hw ([(Wire.priv s.priv.length, 1)], d.lc,
    (a.sub (fw (s.priv.length + 2) rv)).lc) (by simp [dmCons]))
  rw [ev_sub ha (WF_fw _ _)] at c2
  obtain ⟨S, hS, hSe, -⟩ := toBitsCons_sound (k := s.priv.length + 3) (vs := vs1)
    (LinComb.WF_subI 1 (LinComb.WF_sub hd (WF_fw (s.priv.length + 2) rv))) h1
    (fun c hc => hw c (by simp [dmCons, hc]))
  obtain ⟨T, hT, hTe, -⟩ := toBitsCons_sound (k := s.priv.length + 3 + s.bitlength) (vs := vs2)
    (WF_fw (s.priv.length + 2) rv) h1 (fun c hc => hw c (by simp [dmCons, hc]))
  rw [ev_subI h1 1 (LinComb.WF_sub hd (WF_fw _ _)), ev_sub hd (WF_fw _ _), Int.cast_one] at hSe
  simp only [ev_fw, ev_wire] at c2 hSe hTe ⊢
  exact ⟨c2, ⟨S, hl1 ▸ hS, hSe⟩, ⟨T, hl2 ▸ hT, hTe⟩⟩

end divmodPartial

/-! ## `divmod` is NOT sound: closed counterexample, checked by kernel evaluation

`divmod(a, d)` range-checks the remainder (`0 ≤ rem < d`) but not the quotient, so over the field
the prover may take `rem = 0` and `quo = a·d⁻¹`.  Instance: `p = 97`, bit length 4,
`a = PrivVal(7)`, `d = 2`. -/
section divmod

/-- Boolean mirror of `Sat` -/
def satB (p : Int) (w : Wire → Int) (c : Constraint) : Bool :=
  (LC.eval w c.1 * LC.eval w c.2.1 - LC.eval w c.2.2) % p == 0

theorem satB_iff {p : Int} {w : Wire → Int} {c : Constraint} : satB p w c = true ↔ Sat p w c := by
  simp [satB, Sat]

/-- assignment given by the list of private wire values (constant wire 1, no public wires) -/
def ofList (l : List Int) : Wire → Int
  | .one => 1
  | .pub _ => 0
  | .priv i => l.getD i 0

/-- the recorded witness: `a = 7, quo = 3, quo·d = 6, rem = 1`, bits of `d - rem - 1 = 0`,
bits of `rem = 1` -/
def dmW : Wire → Int := ofList [7, 3, 6, 1, 0, 0, 0, 0, 1, 0, 0, 0]
/-- the adversarial assignment: `a = 7, quo = 52 = 7·2⁻¹ mod 97, quo·d = 104 ≡ 7, rem = 0`,
bits of `d - rem - 1 = 1`, bits of `rem = 0` -/
def dmW' : Wire → Int := ofList [7, 52, 7, 0, 1, 0, 0, 0, 0, 0, 0, 0]

/-- run the model and check everything with Boolean functions -/
def dmCheck : Bool :=
  match privVal 7 (St.init 97 4 8) with
  | .error _ => false
  | .ok (a, s0) =>
    match divmodLL a (LinComb.const 2) s0 with
    | .error _ => false
    | .ok ((quo, rem), s1) =>
      s1.pub == [] && s1.priv == [7, 3, 6, 1, 0, 0, 0, 0, 1, 0, 0, 0] &&
      s0.cons.length == 0 && s1.cons.length == 12 &&
      s1.cons.all (satB 97 dmW) && s1.cons.all (satB 97 dmW') &&
      LC.eval dmW a.lc == LC.eval dmW' a.lc &&
      (LC.eval dmW quo.lc - LC.eval dmW' quo.lc) % 97 != 0 &&
      (LC.eval dmW rem.lc - LC.eval dmW' rem.lc) % 97 != 0

theorem dmCheck_true : dmCheck = true := by decide +kernel

/-- **`divmod` does not determine its results.**  On the run `a = PrivVal(7); divmod(a, 2)` over
`p = 97` with bit length 4, the twelve emitted constraints are satisfied both by the recorded
witness `w` (quotient 3, remainder 1) and by `w'` (quotient 52, remainder 0); the two assignments
agree on the operand `a` (the divisor is the constant 2) and differ modulo 97 on the quotient
and on the remainder. -/
theorem divmod_not_determined :
    ∃ (a quo rem : LinComb) (s0 s1 : St),
      privVal 7 (St.init 97 4 8) = .ok (a, s0) ∧
      divmodLL a (LinComb.const 2) s0 = .ok ((quo, rem), s1) ∧
      ∃ w w' : Wire → Int, w = s1.assign ∧ w .one = 1 ∧ w' .one = 1 ∧
        NewSat s0 s1 w ∧ NewSat s0 s1 w' ∧
        LC.eval w a.lc = LC.eval w' a.lc ∧
        ¬ EqMod 97 (LC.eval w quo.lc) (LC.eval w' quo.lc) ∧
        ¬ EqMod 97 (LC.eval w rem.lc) (LC.eval w' rem.lc) := by
  have h := dmCheck_true
  unfold dmCheck at h
  split at h
  · cases h
  · rename_i a s0 h0
    split at h
    · cases h
    · rename_i quo rem s1 hd
      simp only [Bool.and_eq_true, beq_iff_eq, bne_iff_ne, ne_eq, List.all_eq_true] at h
      obtain ⟨⟨⟨⟨⟨⟨⟨⟨hpub, hpriv⟩, hc0⟩, -⟩, hs⟩, hs'⟩, ha⟩, hq⟩, hr⟩ := h
      have hp0 : s0.p = 97 := by
        unfold privVal at h0
        simp only [Except.ok.injEq, Prod.mk.injEq] at h0
        rw [← h0.2]; rfl
      have hnil : s0.cons = [] := List.eq_nil_of_length_eq_zero hc0
      refine ⟨a, quo, rem, s0, s1, h0, hd, dmW, dmW', ?_, rfl, rfl, ?_, ?_, ha, hq, hr⟩
      · funext k
        cases k with
        | one => rfl
        | pub i => simp [St.assign, hpub, dmW, ofList]
        | priv i => simp [St.assign, hpriv, dmW, ofList]
      · intro c hc
        rw [hp0]
        exact satB_iff.mp (hs c (by simpa [newCons, hnil] using hc))
      · intro c hc
        rw [hp0]
        exact satB_iff.mp (hs' c (by simpa [newCons, hnil] using hc))

end divmod

end Pysnark
