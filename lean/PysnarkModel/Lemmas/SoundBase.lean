import PysnarkModel.Lemmas.Sound
import PysnarkModel.Lemmas.InvVal
import PysnarkModel.Spec.SoundProg
/-!
# Program-level soundness, layer 0: the determinacy relation and the gadgets

Fixed once and for all (`World`): the prime `p`, an adversarial assignment `w'`, and the FINAL state
`sf` of the run, whose recorded assignment `sf.assign` satisfies every constraint (the tracer
invariant) and whose constraints `w'` is assumed to satisfy.

`DL W s x` ("determined `LinComb`"): `x` is `Good` in the current state `s` and — provided `s`
is a prefix of the final state — its wire expression evaluates to the same field element under
`w'` and under `sf.assign`.  It has the same closure properties as `Good`, so the lifting through
`Val`-dispatch, `step` and `runAux` repeats the pattern of `Lemmas/Inv*.lean`.

Determinacy of each gadget is a consequence of the two-assignment form of the soundness lemmas of
`Lemmas/Sound.lean`: both `w'` and `sf.assign` satisfy the constraints the gadget appended.
-/
namespace Pysnark

/-- the data fixed throughout a determinacy proof -/
structure World where
  p : ℕ
  w' : Wire → Int
  sf : St

/-- hypotheses on the world: the final state satisfies the tracer invariant, and the adversarial
assignment satisfies every constraint of the final state -/
structure SCtx (W : World) : Prop where
  inv : Inv W.sf
  hp : W.sf.p = (W.p : Int)
  one' : W.w' .one = 1
  sat' : ∀ c ∈ W.sf.cons, Sat (W.p : Int) W.w' c

/-- what is known about the current state: invariant, field, no guard, size condition -/
structure Loc (W : World) (s : St) : Prop where
  inv : Inv s
  hp : s.p = (W.p : Int)
  guard : s.guard = none
  bl : 2 ^ (s.bitlength + 1) ≤ W.p

section
variable {W : World} {s s' : St}

theorem Loc.next (L : Loc W s) (le : s.le s') (f : Frame s s') (inv' : Inv s') : Loc W s' :=
  ⟨inv', le.p.trans L.hp, f.guard.trans L.guard, by rw [f.bl]; exact L.bl⟩

theorem Loc.one (L : Loc W s) : s.one = oneSafe := L.inv.oneNone L.guard
theorem Loc.ign (L : Loc W s) : s.ignoreErrors = false := L.inv.ign_false_of_none L.guard
theorem Loc.primeP [hp : Fact W.p.Prime] (L : Loc W s) : PrimeP s := ⟨W.p, hp.out, L.hp⟩
theorem Loc.bl0 (L : Loc W s) : 2 ^ s.bitlength ≤ W.p := by
  have := L.bl; rw [pow_succ] at this; omega

/-- repackaging of an invariant-level specification -/
theorem Loc.ret {G : Prop} (L : Loc W s) (h : s.le s' ∧ Frame s s' ∧ Inv s' ∧ G) :
    s.le s' ∧ Frame s s' ∧ Loc W s' ∧ G := ⟨h.1, h.2.1, L.next h.1 h.2.1 h.2.2.1, h.2.2.2⟩

theorem Loc.refl {G : Prop} (L : Loc W s) (h : G) : s.le s ∧ Frame s s ∧ Loc W s ∧ G :=
  ⟨St.le.refl _, Frame.refl _, L, h⟩

theorem SCtx.newSat (C : SCtx W) (h1 : s.le s') (h2 : s'.le W.sf) :
    s.p = (W.p : Int) ∧ NewSat s s' W.w' ∧ NewSat s s' W.sf.assign := by
  have hp : s.p = (W.p : Int) := by rw [← h1.p, ← h2.p]; exact C.hp
  have hmem : ∀ c ∈ newCons s s', c ∈ W.sf.cons := fun c hc =>
    h2.cons.subset (List.mem_of_mem_drop hc)
  refine ⟨hp, fun c hc => ?_, fun c hc => ?_⟩
  · rw [hp]; exact C.sat' c (hmem c hc)
  · rw [hp, ← C.hp]; exact C.inv.sat c (hmem c hc)

theorem assign_one (s : St) : s.assign .one = 1 := rfl

/-! ## agreement of the two assignments on a wire expression -/

/-- the wire expression evaluates equally under `w'` and under the final recorded assignment -/
def Agr (W : World) (l : LC) : Prop := ev W.p W.w' l = ev W.p W.sf.assign l
/-- the wire expression evaluates to 0 or 1 under `w'` -/
def BoolW (W : World) (l : LC) : Prop := ev W.p W.w' l = 0 ∨ ev W.p W.w' l = 1

/-- determined `LinComb` -/
def DL (W : World) (s : St) (x : LinComb) : Prop := Good s x ∧ (s.le W.sf → Agr W x.lc)
/-- determined `LinComb` typed boolean -/
def DB (W : World) (s : St) (x : LinComb) : Prop :=
  Good s x ∧ (s.le W.sf → Agr W x.lc ∧ BoolW W x.lc)

theorem DB.dl {x : LinComb} (h : DB W s x) : DL W s x := ⟨h.1, fun hle => (h.2 hle).1⟩
theorem DL.good {x : LinComb} (h : DL W s x) : Good s x := h.1
theorem DB.good {x : LinComb} (h : DB W s x) : Good s x := h.1

theorem DL.mono {x : LinComb} (le : s.le s') (h : DL W s x) : DL W s' x :=
  ⟨h.1.mono le, fun hle => h.2 (le.trans hle)⟩
theorem DB.mono {x : LinComb} (le : s.le s') (h : DB W s x) : DB W s' x :=
  ⟨h.1.mono le, fun hle => h.2 (le.trans hle)⟩

/-! ### closure under the linear arithmetic (the analogue of `Good.add` …) -/
theorem DL.add {a b : LinComb} (ha : DL W s a) (hb : DL W s b) : DL W s (a.add b) := by
  refine ⟨ha.1.add hb.1, fun hle => ?_⟩
  have h1 := ha.2 hle; have h2 := hb.2 hle
  unfold Agr at *
  rw [ev_add ha.1.1.1 hb.1.1.1, ev_add ha.1.1.1 hb.1.1.1, h1, h2]

theorem DL.neg {a : LinComb} (ha : DL W s a) : DL W s a.neg := by
  refine ⟨ha.1.neg, fun hle => ?_⟩
  have h1 := ha.2 hle
  unfold Agr at *
  rw [ev_neg, ev_neg, h1]

theorem DL.sub {a b : LinComb} (ha : DL W s a) (hb : DL W s b) : DL W s (a.sub b) := ha.add hb.neg

theorem DL.mulI {a : LinComb} (c : Int) (ha : DL W s a) : DL W s (a.mulI c) := by
  refine ⟨ha.1.mulI c, fun hle => ?_⟩
  have h1 := ha.2 hle
  unfold Agr at *
  rw [ev_mulI, ev_mulI, h1]

theorem DL.const (C : SCtx W) (s : St) (c : Int) : DL W s (LinComb.const c) := by
  refine ⟨Good.const s c, fun _ => ?_⟩
  unfold Agr
  rw [ev_const C.one', ev_const (assign_one _)]

theorem DL.zero (s : St) : DL W s LinComb.zero :=
  ⟨Good.zero s, fun _ => by unfold Agr; simp [LinComb.zero]⟩

theorem DL.oneSafe (C : SCtx W) (s : St) : DL W s oneSafe := by
  have := DL.const C s 1
  simpa [LinComb.const, Pysnark.oneSafe, LC.scale, LC.one] using this

theorem DL.addI (C : SCtx W) {a : LinComb} (c : Int) (ha : DL W s a) : DL W s (a.addI c) :=
  ha.add (DL.const C s c)
theorem DL.subI (C : SCtx W) {a : LinComb} (c : Int) (ha : DL W s a) : DL W s (a.subI c) :=
  DL.addI C (-c) ha
theorem DL.rsubI (C : SCtx W) {a : LinComb} (c : Int) (ha : DL W s a) : DL W s (a.rsubI c) :=
  DL.addI C c ha.neg

theorem DL.reduceValue {a : LinComb} (ha : DL W s a) : DL W s (reduceValue a s.p) :=
  ⟨ha.1.reduceValue, ha.2⟩

theorem Loc.oneDL (C : SCtx W) (L : Loc W s) : DL W s s.one := by rw [L.one]; exact DL.oneSafe C s

/-- the boolean constants -/
theorem DB.const01 (C : SCtx W) (s : St) {c : Int} (hc : c = 0 ∨ c = 1) : DB W s (LinComb.const c) := by
  refine ⟨Good.const s c, fun hle => ⟨(DL.const C s c).2 hle, ?_⟩⟩
  unfold BoolW
  rw [ev_const C.one']
  rcases hc with rfl | rfl <;> simp

/-- `1 - b` of a boolean is a boolean -/
theorem DB.not (C : SCtx W) {b : LinComb} (hb : DB W s b) : DB W s (b.rsubI 1) := by
  refine ⟨hb.1.rsubI 1, fun hle => ⟨(DL.rsubI C 1 hb.dl).2 hle, ?_⟩⟩
  obtain ⟨-, hbool⟩ := hb.2 hle
  unfold BoolW at *
  rw [ev_rsubI C.one' 1 hb.1.1.1]
  rcases hbool with h | h <;> rw [h] <;> simp

/-- the recorded value of a `Good` secret is what its wire expression evaluates to under the final
recorded assignment -/
theorem ev_final_of_good {x : LinComb} (hp : s.p = (W.p : Int)) (hx : Good s x) (hle : s.le W.sf) :
    ev W.p W.sf.assign x.lc = ((x.value : Int) : ZMod W.p) := by
  unfold ev
  rw [eval_ext hle hx.1.2]
  have hc := hx.2
  unfold Coh at hc
  rw [hp, ← Int.dvd_iff_emod_eq_zero, ← ZMod.intCast_zmod_eq_zero_iff_dvd] at hc
  push_cast at hc
  exact (sub_eq_zero.mp hc).symm

/-! ## the gadgets -/
variable [Fact W.p.Prime]

/-- a fresh private wire on which the two assignments are known to agree (an input) -/
theorem privVal_d {v : Int} {r : LinComb} (L : Loc W s) (h : privVal v s = .ok (r, s'))
    (hin : ((W.w' (.priv s.priv.length) : Int) : ZMod W.p) = (W.sf.assign (.priv s.priv.length) : Int)) :
    s.le s' ∧ Frame s s' ∧ Loc W s' ∧ DL W s' r := by
  obtain ⟨le1, f1, inv1, g1, -⟩ := privVal_spec L.inv h
  obtain ⟨rfl, -⟩ := privVal_ok h
  refine L.ret ⟨le1, f1, inv1, g1, fun _ => ?_⟩
  unfold Agr
  simpa using hin

theorem pubVal_d {v : Int} {r : LinComb} (L : Loc W s) (h : pubVal v s = .ok (r, s'))
    (hin : ((W.w' (.pub s.pub.length) : Int) : ZMod W.p) = (W.sf.assign (.pub s.pub.length) : Int)) :
    s.le s' ∧ Frame s s' ∧ Loc W s' ∧ DL W s' r := by
  obtain ⟨le1, f1, inv1, g1, -⟩ := pubVal_spec L.inv h
  obtain ⟨rfl, -, -⟩ := pubVal_ok h
  refine L.ret ⟨le1, f1, inv1, g1, fun _ => ?_⟩
  unfold Agr
  simpa using hin

/-- `x * y` -/
theorem mulLL_d {a b r : LinComb} (C : SCtx W) (L : Loc W s) (ha : DL W s a) (hb : DL W s b)
    (h : mulLL a b s = .ok (r, s')) : s.le s' ∧ Frame s s' ∧ Loc W s' ∧ DL W s' r := by
  obtain ⟨le1, f1, inv1, g1, -⟩ := mulLL_spec L.inv ha.1 hb.1 h
  refine L.ret ⟨le1, f1, inv1, g1, fun hle => ?_⟩
  obtain ⟨hp, hw', hw⟩ := C.newSat le1 hle
  have e1 := ha.2 (le1.trans hle); have e2 := hb.2 (le1.trans hle)
  unfold Agr at *
  rw [mulLL_sound hp h hw', mulLL_sound hp h hw, e1, e2]

/-- `LinCombBool(x, constrain)`: with the constraint, `x` becomes a determined boolean -/
theorem mkBool_d {x r : LinComb} {c : Bool} (C : SCtx W) (L : Loc W s) (hx : DL W s x)
    (h : mkBool x c s = .ok (r, s')) :
    s.le s' ∧ Frame s s' ∧ Loc W s' ∧ r = x ∧ DL W s' x ∧ (c = true → DB W s' x) := by
  obtain ⟨le1, f1, inv1, rfl, -⟩ := mkBool_spec L.inv hx.1 h
  refine L.ret ⟨le1, f1, inv1, rfl, hx.mono le1, ?_⟩
  rintro rfl
  refine ⟨hx.1.mono le1, fun hle => ⟨hx.2 (le1.trans hle), ?_⟩⟩
  obtain ⟨hp, hw', -⟩ := C.newSat le1 hle
  exact (mkBool_sound hp L.guard hx.1.1.1 h C.one' hw').2.2

/-- a boolean input: `PrivValBool(v)` -/
theorem privValBool_d {v : Int} {r : LinComb} (C : SCtx W) (L : Loc W s)
    (h : privValBool v s = .ok (r, s'))
    (hin : ((W.w' (.priv s.priv.length) : Int) : ZMod W.p) = (W.sf.assign (.priv s.priv.length) : Int)) :
    s.le s' ∧ Frame s s' ∧ Loc W s' ∧ DB W s' r := by
  unfold privValBool at h
  split at h
  · cases h
  · obtain ⟨x, s1, h1, h2⟩ := bind_ok.mp h
    obtain ⟨le1, f1, L1, d1⟩ := privVal_d L h1 hin
    obtain ⟨le2, f2, L2, rfl, -, d2⟩ := mkBool_d C L1 d1 h2
    exact ⟨le1.trans le2, f1.trans f2, L2, d2 rfl⟩

theorem pubValBool_d {v : Int} {r : LinComb} (C : SCtx W) (L : Loc W s)
    (h : pubValBool v s = .ok (r, s'))
    (hin : ((W.w' (.pub s.pub.length) : Int) : ZMod W.p) = (W.sf.assign (.pub s.pub.length) : Int)) :
    s.le s' ∧ Frame s s' ∧ Loc W s' ∧ DB W s' r := by
  unfold pubValBool at h
  split at h
  · cases h
  · obtain ⟨x, s1, h1, h2⟩ := bind_ok.mp h
    obtain ⟨le1, f1, L1, d1⟩ := pubVal_d L h1 hin
    obtain ⟨le2, f2, L2, rfl, -, d2⟩ := mkBool_d C L1 d1 h2
    exact ⟨le1.trans le2, f1.trans f2, L2, d2 rfl⟩

/-- `LinCombBool._ensurebool(int)` -/
theorem ensureboolI_d {v : Int} {r : LinComb} (C : SCtx W) (L : Loc W s)
    (h : ensureboolI v s = .ok (r, s')) : s.le s' ∧ Frame s s' ∧ Loc W s' ∧ DB W s' r := by
  unfold ensureboolI at h
  split at h
  · cases h
  · obtain ⟨le1, f1, L1, rfl, -, d1⟩ := mkBool_d C L (DL.const C s v) h
    exact ⟨le1, f1, L1, d1 rfl⟩

/-- the sign/range gadget: the outcome is a function of the operand (`2^(n+1) ≤ p`) -/
theorem checkPositive_d {x r : LinComb} {bits : Option Nat} (C : SCtx W) (L : Loc W s)
    (hn : 2 ^ (bits.getD s.bitlength + 1) ≤ W.p) (hx : DL W s x)
    (h : checkPositive x bits s = .ok (r, s')) : s.le s' ∧ Frame s s' ∧ Loc W s' ∧ DB W s' r := by
  obtain ⟨le1, f1, inv1, g1⟩ := checkPositive_spec L.inv hx.1 h
  refine L.ret ⟨le1, f1, inv1, g1, fun hle => ?_⟩
  obtain ⟨hp, hw', hw⟩ := C.newSat le1 hle
  have e1 := hx.2 (le1.trans hle)
  refine ⟨checkPositive_determined hp hn L.guard hx.1.1.1 h C.one' (assign_one _) hw' hw e1, ?_⟩
  rcases checkPositive_sound hp L.guard hx.1.1.1 h C.one' hw' with ⟨e, -⟩ | ⟨e, -⟩
  · exact Or.inr e
  · exact Or.inl e

/-- the zero test: the outcome is the indicator of `x = 0` under either assignment -/
theorem checkZero_d {x r : LinComb} (C : SCtx W) (L : Loc W s) (hx : DL W s x)
    (h : checkZero x s = .ok (r, s')) : s.le s' ∧ Frame s s' ∧ Loc W s' ∧ DB W s' r := by
  obtain ⟨le1, f1, inv1, g1⟩ := checkZero_spec L.inv L.primeP hx.1 h
  refine L.ret ⟨le1, f1, inv1, g1, fun hle => ?_⟩
  obtain ⟨hp, hw', hw⟩ := C.newSat le1 hle
  have e1 := hx.2 (le1.trans hle)
  have a1 := checkZero_sound hp h C.one' hw'
  have a2 := checkZero_sound hp h (assign_one _) hw
  unfold Agr BoolW at *
  refine ⟨by rw [a1, a2, e1], ?_⟩
  rw [a1]; split <;> simp

theorem boolNot_d {b r : LinComb} (C : SCtx W) (L : Loc W s) (hb : DB W s b)
    (h : boolNot b s = .ok (r, s')) : s.le s' ∧ Frame s s' ∧ Loc W s' ∧ DB W s' r := by
  obtain ⟨rfl, rfl⟩ := boolNot_ok h
  exact L.refl (DB.not C hb)

theorem checkNonzero_d {x r : LinComb} (C : SCtx W) (L : Loc W s) (hx : DL W s x)
    (h : checkNonzero x s = .ok (r, s')) : s.le s' ∧ Frame s s' ∧ Loc W s' ∧ DB W s' r := by
  unfold checkNonzero at h
  obtain ⟨z, s1, h1, h⟩ := bind_ok.mp h
  obtain ⟨le1, f1, L1, d1⟩ := checkZero_d C L hx h1
  obtain ⟨le2, f2, L2, d2⟩ := boolNot_d C L1 d1 h
  exact ⟨le1.trans le2, f1.trans f2, L2, d2⟩

/-- bit decomposition: every bit is a determined boolean (`2^n ≤ p`) -/
theorem toBits_d {x : LinComb} {bits : Option Nat} {rs : List LinComb} (C : SCtx W) (L : Loc W s)
    (hn : 2 ^ (bits.getD s.bitlength) ≤ W.p) (hx : DL W s x)
    (h : toBits x bits s = .ok (rs, s')) :
    s.le s' ∧ Frame s s' ∧ Loc W s' ∧ ∀ r ∈ rs, DB W s' r := by
  obtain ⟨le1, f1, inv1, g1⟩ := toBits_spec L.inv hx.1 h
  refine L.ret ⟨le1, f1, inv1, fun r hr => ⟨g1 r hr, fun hle => ?_⟩⟩
  obtain ⟨hp, hw', hw⟩ := C.newSat le1 hle
  have e1 := hx.2 (le1.trans hle)
  obtain ⟨i, hi, rfl⟩ := List.mem_iff_getElem.mp hr
  exact ⟨toBits_determined hp hn L.guard hx.1.1.1 h C.one' (assign_one _) hw' hw e1 i hi,
    toBits_bool hp L.guard hx.1.1.1 h C.one' hw' _ hr⟩

/-- exact division by a secret whose value is not a multiple of `p` -/
theorem truedivLL_d {a b r : LinComb} (C : SCtx W) (L : Loc W s) (ha : DL W s a) (hb : DL W s b)
    (hb0 : b.value % (W.p : Int) ≠ 0)
    (h : truedivLL a b s = .ok (r, s')) : s.le s' ∧ Frame s s' ∧ Loc W s' ∧ DL W s' r := by
  obtain ⟨le1, f1, inv1, g1⟩ := truedivLL_spec L.inv ha.1 hb.1 h
  refine L.ret ⟨le1, f1, inv1, g1, fun hle => ?_⟩
  obtain ⟨hp, hw', hw⟩ := C.newSat le1 hle
  have e1 := ha.2 (le1.trans hle); have e2 := hb.2 (le1.trans hle)
  have a1 := truedivLL_sound hp L.guard h hw'
  have a2 := truedivLL_sound hp L.guard h hw
  have hne : ev W.p W.sf.assign b.lc ≠ 0 := by
    rw [ev_final_of_good L.hp hb.1 (le1.trans hle)]
    intro h0
    rw [ZMod.intCast_zmod_eq_zero_iff_dvd] at h0
    exact hb0 (Int.emod_eq_zero_of_dvd h0)
  unfold Agr at *
  rw [e2, e1, ← a2] at a1
  exact mul_left_cancel₀ hne a1

/-- exact division by a public int: the wire expression is scaled by the inverse -/
theorem truedivLI_d {a r : LinComb} {c : Int} (L : Loc W s) (ha : DL W s a)
    (h : truedivLI a c s = .ok (r, s')) : s.le s' ∧ Frame s s' ∧ Loc W s' ∧ DL W s' r := by
  obtain ⟨le1, f1, inv1, g1⟩ := truedivLI_spec L.inv L.primeP L.guard ha.1 h
  have hlc : ∃ i : Int, r.lc = (a.mulI i).lc := by
    unfold truedivLI at h
    split at h
    · cases h
    · split at h
      · split at h
        · simp only [Except.ok.injEq, Prod.mk.injEq] at h
          obtain ⟨rfl, -⟩ := h; exact ⟨_, rfl⟩
        · cases h
      · split at h
        · split at h
          · simp only [Except.ok.injEq, Prod.mk.injEq] at h
            obtain ⟨rfl, -⟩ := h; exact ⟨_, rfl⟩
          · cases h
        · cases h
  obtain ⟨i, hi⟩ := hlc
  refine L.ret ⟨le1, f1, inv1, g1, fun hle => ?_⟩
  have := (ha.mulI i).2 (le1.trans hle)
  unfold Agr at *
  rw [hi]; exact this

/-- `if_then_else(c, t, f)` on `LinComb`s -/
theorem iteLLL_d {c t f r : LinComb} (C : SCtx W) (L : Loc W s) (hc : DL W s c) (ht : DL W s t)
    (hf : DL W s f) (h : iteLLL c t f s = .ok (r, s')) :
    s.le s' ∧ Frame s s' ∧ Loc W s' ∧ DL W s' r := by
  unfold iteLLL at h
  obtain ⟨prod, s1, h1, h⟩ := bind_ok.mp h
  obtain ⟨rfl, rfl⟩ := pure_ok' h
  obtain ⟨le1, f1, L1, d1⟩ := mulLL_d C L hc (ht.sub hf) h1
  exact ⟨le1, f1, L1, (hf.mono le1).add d1⟩

/-- `x ** n` for a python int -/
theorem powLN_d {a : LinComb} (C : SCtx W) : ∀ (n : Nat) {s s' : St} {r : LinComb}, Loc W s → DL W s a →
    powLN a n s = .ok (r, s') → s.le s' ∧ Frame s s' ∧ Loc W s' ∧ DL W s' r
  | 0, s, s', r, L, _, h => by
    unfold powLN at h
    simp only [Except.ok.injEq, Prod.mk.injEq] at h
    obtain ⟨rfl, rfl⟩ := h
    exact L.refl (L.oneDL C)
  | 1, s, s', r, L, ha, h => by
    unfold powLN at h
    obtain ⟨rfl, rfl⟩ := pure_ok' h
    exact L.refl ha
  | n+2, s, s', r, L, ha, h => by
    unfold powLN at h
    obtain ⟨r1, s1, h1, h⟩ := bind_ok.mp h
    obtain ⟨le1, f1, L1, d1⟩ := powLN_d C (n+1) L ha h1
    obtain ⟨le2, f2, L2, d2⟩ := mulLL_d C L1 (ha.mono le1) d1 h
    exact ⟨le1.trans le2, f1.trans f2, L2, d2⟩

/-! ### comparisons -/
section cmp
variable {a b r : LinComb} {c : Int}

theorem cpNone (L : Loc W s) : 2 ^ ((none : Option Nat).getD s.bitlength + 1) ≤ W.p := L.bl

theorem ltLL_d (C : SCtx W) (L : Loc W s) (ha : DL W s a) (hb : DL W s b) (h : ltLL a b s = .ok (r, s')) :
    s.le s' ∧ Frame s s' ∧ Loc W s' ∧ DB W s' r := by
  unfold ltLL at h; exact checkPositive_d C L (cpNone L) (DL.subI C 1 (hb.sub ha)) h
theorem leLL_d (C : SCtx W) (L : Loc W s) (ha : DL W s a) (hb : DL W s b) (h : leLL a b s = .ok (r, s')) :
    s.le s' ∧ Frame s s' ∧ Loc W s' ∧ DB W s' r := by
  unfold leLL at h; exact checkPositive_d C L (cpNone L) (hb.sub ha) h
theorem eqLL_d (C : SCtx W) (L : Loc W s) (ha : DL W s a) (hb : DL W s b) (h : eqLL a b s = .ok (r, s')) :
    s.le s' ∧ Frame s s' ∧ Loc W s' ∧ DB W s' r := by
  unfold eqLL at h; exact checkZero_d C L (ha.sub hb) h
theorem neLL_d (C : SCtx W) (L : Loc W s) (ha : DL W s a) (hb : DL W s b) (h : neLL a b s = .ok (r, s')) :
    s.le s' ∧ Frame s s' ∧ Loc W s' ∧ DB W s' r := by
  unfold neLL at h; exact checkNonzero_d C L (ha.sub hb) h
theorem gtLL_d (C : SCtx W) (L : Loc W s) (ha : DL W s a) (hb : DL W s b) (h : gtLL a b s = .ok (r, s')) :
    s.le s' ∧ Frame s s' ∧ Loc W s' ∧ DB W s' r := by
  unfold gtLL at h; exact checkPositive_d C L (cpNone L) (DL.subI C 1 (ha.sub hb)) h
theorem geLL_d (C : SCtx W) (L : Loc W s) (ha : DL W s a) (hb : DL W s b) (h : geLL a b s = .ok (r, s')) :
    s.le s' ∧ Frame s s' ∧ Loc W s' ∧ DB W s' r := by
  unfold geLL at h; exact checkPositive_d C L (cpNone L) (ha.sub hb) h

theorem eqLI_d (C : SCtx W) (L : Loc W s) (ha : DL W s a) (h : eqLI a c s = .ok (r, s')) :
    s.le s' ∧ Frame s s' ∧ Loc W s' ∧ DB W s' r := by
  unfold eqLI at h; exact checkZero_d C L (DL.subI C c ha) h
theorem neLI_d (C : SCtx W) (L : Loc W s) (ha : DL W s a) (h : neLI a c s = .ok (r, s')) :
    s.le s' ∧ Frame s s' ∧ Loc W s' ∧ DB W s' r := by
  unfold neLI at h; exact checkNonzero_d C L (DL.subI C c ha) h
theorem geLI_d (C : SCtx W) (L : Loc W s) (ha : DL W s a) (h : geLI a c s = .ok (r, s')) :
    s.le s' ∧ Frame s s' ∧ Loc W s' ∧ DB W s' r := by
  unfold geLI at h; exact checkPositive_d C L (cpNone L) (DL.subI C c ha) h
end cmp

/-- `abs(x)` -/
theorem absL_d {a r : LinComb} (C : SCtx W) (L : Loc W s) (ha : DL W s a)
    (h : absL a s = .ok (r, s')) : s.le s' ∧ Frame s s' ∧ Loc W s' ∧ DL W s' r := by
  unfold absL at h
  obtain ⟨c, s1, h1, h⟩ := bind_ok.mp h
  obtain ⟨le1, f1, L1, d1⟩ := geLI_d C L ha h1
  obtain ⟨le2, f2, L2, d2⟩ := iteLLL_d C L1 d1.dl (ha.mono le1) (ha.mono le1).neg h
  exact ⟨le1.trans le2, f1.trans f2, L2, d2⟩

/-! ### `from_bits` and what is built on bit decompositions -/

/-- determined optional `LinComb` (what `from_bits` returns) -/
def DO (W : World) (s : St) (o : Option LinComb) : Prop := ∀ r, o = some r → DL W s r

theorem fromBitsAux_dl : ∀ (bs : List LinComb) (i : Nat) (acc : LinComb),
    (∀ b ∈ bs, DL W s b) → DL W s acc → DL W s (fromBitsAux bs i acc)
  | [], _, _, _, hacc => hacc
  | b :: bs, i, acc, hbs, hacc => by
    unfold fromBitsAux
    exact fromBitsAux_dl bs (i+1) _ (fun b' hb' => hbs b' (List.mem_cons_of_mem _ hb'))
      (hacc.add ((hbs b (List.mem_cons_self ..)).mulI _))

theorem fromBits_dl (C : SCtx W) {bs : List LinComb} (hbs : ∀ b ∈ bs, DL W s b) : DO W s (fromBits bs) := by
  intro r hr
  cases bs with
  | nil => cases hr
  | cons b bs =>
    simp only [fromBits, Option.some.injEq] at hr
    subst hr
    exact fromBitsAux_dl bs 1 _ (fun b' hb' => hbs b' (List.mem_cons_of_mem _ hb'))
      (DL.addI C 0 ((hbs b (List.mem_cons_self ..)).mulI 1))

/-- `x >> n` for a python int: `from_bits(to_bits(x)[n:])` -/
theorem rshiftLI_d {a : LinComb} {n : Int} {o : Option LinComb} (C : SCtx W) (L : Loc W s)
    (ha : DL W s a) (h : rshiftLI a n s = .ok (o, s')) :
    s.le s' ∧ Frame s s' ∧ Loc W s' ∧ DO W s' o := by
  unfold rshiftLI at h
  by_cases hn' : n < 0
  · simp only [hn', if_true, reduceCtorEq] at h
  simp only [hn', if_false] at h
  obtain ⟨bits, s1, h1, h⟩ := bind_ok.mp h
  obtain ⟨rfl, rfl⟩ := pure_ok' h
  obtain ⟨le1, f1, L1, d1⟩ := toBits_d (bits := none) C L L.bl0 ha h1
  exact ⟨le1, f1, L1, fromBits_dl C (fun b hb => (d1 b (List.mem_of_mem_drop hb)).dl)⟩

/-- generic shape of a determinacy statement about an optional result given in `evFB` form -/
theorem DO_of_evFB {o : Option LinComb} (hg : ∀ r, o = some r → Good s r)
    (h : s.le W.sf → evFB W.p W.w' o = evFB W.p W.sf.assign o) : DO W s o := by
  intro r hr
  subst hr
  exact ⟨hg r rfl, fun hle => by simpa [evFB, Agr] using h hle⟩

theorem andLL_d {a b : LinComb} {o : Option LinComb} (C : SCtx W) (L : Loc W s) (ha : DL W s a)
    (hb : DL W s b) (h : andLL a b s = .ok (o, s')) : s.le s' ∧ Frame s s' ∧ Loc W s' ∧ DO W s' o := by
  obtain ⟨le1, f1, inv1, g1⟩ := andLL_spec L.inv ha.1 hb.1 h
  refine L.ret ⟨le1, f1, inv1, DO_of_evFB g1 (fun hle => ?_)⟩
  obtain ⟨hp, hw', hw⟩ := C.newSat le1 hle
  exact andLL_determined hp L.bl0 L.guard ha.1.1.1 hb.1.1.1 h C.one' (assign_one _) hw' hw
    (ha.2 (le1.trans hle)) (hb.2 (le1.trans hle))

theorem orLL_d {a b : LinComb} {o : Option LinComb} (C : SCtx W) (L : Loc W s) (ha : DL W s a)
    (hb : DL W s b) (h : orLL a b s = .ok (o, s')) : s.le s' ∧ Frame s s' ∧ Loc W s' ∧ DO W s' o := by
  obtain ⟨le1, f1, inv1, g1⟩ := orLL_spec L.inv ha.1 hb.1 h
  refine L.ret ⟨le1, f1, inv1, DO_of_evFB g1 (fun hle => ?_)⟩
  obtain ⟨hp, hw', hw⟩ := C.newSat le1 hle
  exact orLL_determined hp L.bl0 L.guard ha.1.1.1 hb.1.1.1 h C.one' (assign_one _) hw' hw
    (ha.2 (le1.trans hle)) (hb.2 (le1.trans hle))

theorem xorLL_d {a b : LinComb} {o : Option LinComb} (C : SCtx W) (L : Loc W s) (ha : DL W s a)
    (hb : DL W s b) (h : xorLL a b s = .ok (o, s')) : s.le s' ∧ Frame s s' ∧ Loc W s' ∧ DO W s' o := by
  obtain ⟨le1, f1, inv1, g1⟩ := xorLL_spec L.inv ha.1 hb.1 h
  refine L.ret ⟨le1, f1, inv1, DO_of_evFB g1 (fun hle => ?_)⟩
  obtain ⟨hp, hw', hw⟩ := C.newSat le1 hle
  exact xorLL_determined hp L.bl0 L.guard ha.1.1.1 hb.1.1.1 h C.one' (assign_one _) hw' hw
    (ha.2 (le1.trans hle)) (hb.2 (le1.trans hle))

/-- `~x` -/
theorem invertL_d {a : LinComb} {o : Option LinComb} (C : SCtx W) (L : Loc W s) (ha : DL W s a)
    (h : invertL a s = .ok (o, s')) : s.le s' ∧ Frame s s' ∧ Loc W s' ∧ DO W s' o := by
  obtain ⟨le1, f1, inv1, g1⟩ := invertL_spec L.inv ha.1 h
  refine L.ret ⟨le1, f1, inv1, DO_of_evFB g1 (fun hle => ?_)⟩
  obtain ⟨hp, hw', hw⟩ := C.newSat le1 hle
  have e1 := ha.2 (le1.trans hle)
  unfold Agr at e1
  rw [(invertL_sound hp L.guard ha.1.1.1 h C.one' hw').2,
    (invertL_sound hp L.guard ha.1.1.1 h (assign_one _) hw).2, e1]

/-! ### products with their defining equation, boolean algebra -/

/-- `x * y` together with the product equation under `w'` -/
theorem mulLL_d' {a b r : LinComb} (C : SCtx W) (L : Loc W s) (ha : DL W s a) (hb : DL W s b)
    (h : mulLL a b s = .ok (r, s')) :
    s.le s' ∧ Frame s s' ∧ Loc W s' ∧ DL W s' r ∧
      (s'.le W.sf → ev W.p W.w' r.lc = ev W.p W.w' a.lc * ev W.p W.w' b.lc) := by
  obtain ⟨le1, f1, L1, d1⟩ := mulLL_d C L ha hb h
  refine ⟨le1, f1, L1, d1, fun hle => ?_⟩
  obtain ⟨hp, hw', -⟩ := C.newSat le1 hle
  exact mulLL_sound hp h hw'

theorem bool01 {x : ZMod W.p} (h : x = 0 ∨ x = 1) : x * (1 - x) = 0 := by
  rcases h with rfl | rfl <;> simp

theorem bool_and {x y : ZMod W.p} (hx : x = 0 ∨ x = 1) (hy : y = 0 ∨ y = 1) :
    x * y = 0 ∨ x * y = 1 := by
  rcases hx with rfl | rfl <;> rcases hy with rfl | rfl <;> simp
theorem bool_or {x y : ZMod W.p} (hx : x = 0 ∨ x = 1) (hy : y = 0 ∨ y = 1) :
    x + y - x * y = 0 ∨ x + y - x * y = 1 := by
  rcases hx with rfl | rfl <;> rcases hy with rfl | rfl <;> simp
theorem bool_xor {x y : ZMod W.p} (hx : x = 0 ∨ x = 1) (hy : y = 0 ∨ y = 1) :
    x + y - 2 * x * y = 0 ∨ x + y - 2 * x * y = 1 := by
  rcases hx with rfl | rfl <;> rcases hy with rfl | rfl <;> norm_num

/-! ### `mapM'` -/
omit [Fact W.p.Prime] in
theorem mapM'_d {α β : Type} (f : α → M β) (A : St → α → Prop) (B : St → β → Prop)
    (Amono : ∀ s s' a, s.le s' → A s a → A s' a)
    (Bmono : ∀ s s' b, s.le s' → B s b → B s' b)
    (hf : ∀ s s' a r, Loc W s → A s a → f a s = .ok (r, s') → s.le s' ∧ Frame s s' ∧ Loc W s' ∧ B s' r) :
    ∀ (xs : List α) (s s' : St) (rs : List β), Loc W s → (∀ x ∈ xs, A s x) →
      mapM' f xs s = .ok (rs, s') →
      s.le s' ∧ Frame s s' ∧ Loc W s' ∧ (∀ r ∈ rs, B s' r)
  | [], s, s', rs, L, _, h => by
    unfold mapM' at h
    obtain ⟨rfl, rfl⟩ := pure_ok.mp h
    exact L.refl (by simp)
  | x :: xs, s, s', rs, L, hA, h => by
    unfold mapM' at h
    obtain ⟨y, s1, h1, h2⟩ := bind_ok.mp h
    obtain ⟨ys, s2, h3, h4⟩ := bind_ok.mp h2
    obtain ⟨rfl, rfl⟩ := pure_ok.mp h4
    obtain ⟨le1, f1, L1, b1⟩ := hf s s1 x y L (hA x (List.mem_cons_self ..)) h1
    obtain ⟨le2, f2, L2, b2⟩ := mapM'_d f A B Amono Bmono hf xs s1 _ ys L1
      (fun x' hx' => Amono _ _ _ le1 (hA x' (List.mem_cons_of_mem _ hx'))) h3
    refine ⟨le1.trans le2, f1.trans f2, L2, ?_⟩
    intro r hr
    rcases List.mem_cons.mp hr with rfl | hr
    · exact Bmono _ _ _ le2 b1
    · exact b2 r hr

/-! ### `x ** e` for a secret exponent: a composition of determined gadgets -/
theorem powersAux_d (C : SCtx W) : ∀ (n : Nat) {curr : LinComb} {q : Int} {s s' : St} {rs : List LinComb},
    Loc W s → DL W s curr → q = s.p → powersAux n curr q s = .ok (rs, s') →
    s.le s' ∧ Frame s s' ∧ Loc W s' ∧ (∀ r ∈ rs, DL W s' r)
  | 0, curr, q, s, s', rs, L, _, _, h => by
    unfold powersAux at h
    obtain ⟨rfl, rfl⟩ := pure_ok' h
    exact L.refl (by simp)
  | n+1, curr, q, s, s', rs, L, hc, hq, h => by
    unfold powersAux at h
    obtain ⟨c, s1, h1, h⟩ := bind_ok.mp h
    obtain ⟨rest, s2, h2, h⟩ := bind_ok.mp h
    obtain ⟨rfl, rfl⟩ := pure_ok' h
    obtain ⟨le1, f1, L1, d1⟩ := mulLL_d C L hc hc h1
    have hq1 : q = s1.p := hq.trans le1.p.symm
    have gc : DL W s1 (reduceValue c q) := hq1 ▸ d1.reduceValue
    obtain ⟨le2, f2, L2, d2⟩ := powersAux_d C n L1 gc hq1 h2
    refine ⟨le1.trans le2, f1.trans f2, L2, ?_⟩
    intro r hr
    rcases List.mem_cons.mp hr with rfl | hr
    · exact gc.mono le2
    · exact d2 r hr

theorem mulAll_d (C : SCtx W) {s0 : St} : ∀ (ms : List LinComb) {acc : LinComb} {s s' : St} {r : LinComb},
    Loc W s → s0.p = s.p → (∀ m ∈ ms, DL W s m) → DL W s acc →
    powLL.mulAll s0 ms acc s = .ok (r, s') → s.le s' ∧ Frame s s' ∧ Loc W s' ∧ DL W s' r
  | [], acc, s, s', r, L, _, _, hacc, h => by
    unfold powLL.mulAll at h
    obtain ⟨rfl, rfl⟩ := pure_ok' h
    exact L.refl hacc
  | m :: ms, acc, s, s', r, L, hp, hms, hacc, h => by
    unfold powLL.mulAll at h
    obtain ⟨r1, s1, h1, h⟩ := bind_ok.mp h
    obtain ⟨le1, f1, L1, d1⟩ := mulLL_d C L hacc (hms m (List.mem_cons_self ..)) h1
    have hp1 : s0.p = s1.p := hp.trans le1.p.symm
    have gc : DL W s1 (reduceValue r1 s0.p) := hp1 ▸ d1.reduceValue
    obtain ⟨le2, f2, L2, d2⟩ := mulAll_d C ms L1 hp1
      (fun m' hm' => (hms m' (List.mem_cons_of_mem _ hm')).mono le1) gc h
    exact ⟨le1.trans le2, f1.trans f2, L2, d2⟩

theorem powLL_d {a e r : LinComb} (C : SCtx W) (L : Loc W s) (ha : DL W s a) (he : DL W s e)
    (h : powLL a e s = .ok (r, s')) : s.le s' ∧ Frame s s' ∧ Loc W s' ∧ DL W s' r := by
  unfold powLL at h
  obtain ⟨ebits, s1, h1, h⟩ := bind_ok.mp h
  rw [getSt_bind] at h
  obtain ⟨tail, s2, h2, h⟩ := bind_ok.mp h
  obtain ⟨mults, s3, h3, h⟩ := bind_ok.mp h
  rw [getSt_bind] at h
  obtain ⟨le1, f1, L1, d1⟩ := toBits_d (bits := none) C L L.bl0 he h1
  obtain ⟨le2, f2, L2, d2⟩ := powersAux_d C _ L1 (ha.mono le1) rfl h2
  have hmap := mapM'_d (W := W) (fun (bp : LinComb × LinComb) => do
      let one ← ensureboolI 1
      let c ← eqLL bp.1 one
      let s' ← getSt
      iteLLL c bp.2 s'.one)
    (fun s bp => DL W s bp.1 ∧ DL W s bp.2) (fun s r => DL W s r)
    (fun s s' a hle ⟨x, y⟩ => ⟨x.mono hle, y.mono hle⟩)
    (fun s s' b hle x => x.mono hle)
    (by
      intro s s' bp r L ⟨hb1, hb2⟩ h
      obtain ⟨one, s1, h1, h⟩ := bind_ok.mp h
      obtain ⟨c, s2, h2, h⟩ := bind_ok.mp h
      rw [getSt_bind] at h
      obtain ⟨le1, f1, L1, d1⟩ := ensureboolI_d C L h1
      obtain ⟨le2, f2, L2, d2⟩ := eqLL_d C L1 (hb1.mono le1) d1.dl h2
      obtain ⟨le3, f3, L3, d3⟩ := iteLLL_d C L2 d2.dl (hb2.mono (le1.trans le2)) (L2.oneDL C) h
      exact ⟨(le1.trans le2).trans le3, (f1.trans f2).trans f3, L3, d3⟩)
    _ s2 s3 mults L2 (by
      intro ⟨b, pw⟩ hmem
      obtain ⟨hb, hpw⟩ := List.of_mem_zip hmem
      refine ⟨((d1 b hb).dl).mono le2, ?_⟩
      rcases List.mem_cons.mp hpw with rfl | hpw
      · exact ha.mono (le1.trans le2)
      · exact d2 _ hpw) h3
  obtain ⟨le3, f3, L3, d3⟩ := hmap
  obtain ⟨le4, f4, L4, d4⟩ := mulAll_d C mults L3 rfl d3 (L3.oneDL C) h
  exact ⟨((le1.trans le2).trans le3).trans le4, ((f1.trans f2).trans f3).trans f4, L4, d4⟩

omit [Fact W.p.Prime] in
/-- `x << n` for a python int -/
theorem lshiftLI_d {a r : LinComb} {n : Int} (L : Loc W s) (ha : DL W s a)
    (h : lshiftLI a n s = .ok (r, s')) : s.le s' ∧ Frame s s' ∧ Loc W s' ∧ DL W s' r := by
  unfold lshiftLI at h
  split at h
  · cases h
  · simp only [Except.ok.injEq, Prod.mk.injEq] at h
    obtain ⟨rfl, rfl⟩ := h
    exact L.refl (ha.mulI _)

end

end Pysnark
