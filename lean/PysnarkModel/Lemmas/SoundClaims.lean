import PysnarkModel.Lemmas.SoundRun
/-!
# Program-level statement for C03: every executed assertion holds of the values under ANY
satisfying assignment

`claimsOf s0 prog` lists, for every executed assertion / declaration instruction, the relation it
claims over the wire expressions of its operands.  `run_claims`: for a completing run in the
fragment and any assignment `w'` with `w' .one = 1` that satisfies every emitted constraint, every
claim holds under `w'` (no agreement on the inputs is needed for this).
-/
namespace Pysnark

/-! ## from the field statements of `Lemmas/Sound.lean` to `Claim.holds` -/
section
variable {p : ℕ} {w : Wire → Int}

theorem holds_zero {l : LC} (h : ev p w l = 0) : Claim.holds (p : Int) w (.zero l) := by
  unfold Claim.holds
  exact eqMod_of_cast (by simpa [ev] using h)

theorem holds_nonzero {l : LC} (h : ev p w l ≠ 0) : Claim.holds (p : Int) w (.nonzero l) := by
  unfold Claim.holds
  intro hE
  apply h
  simpa [ev] using cast_of_eqMod hE

theorem holds_eq {a b : LC} (h : ev p w a = ev p w b) : Claim.holds (p : Int) w (.eq a b) := by
  unfold Claim.holds
  exact eqMod_of_cast h

theorem holds_ne {a b : LC} (h : ev p w a ≠ ev p w b) : Claim.holds (p : Int) w (.ne a b) := by
  unfold Claim.holds
  intro hE
  exact h (cast_of_eqMod hE)

theorem holds_nonneg {n : ℕ} {l : LC} (h : InRange p n (ev p w l)) :
    Claim.holds (p : Int) w (.nonneg n l) := by
  obtain ⟨S, hS, e⟩ := h
  exact ⟨S, hS, eqMod_of_cast (by simpa [ev] using e)⟩

theorem holds_lt {n : ℕ} {a b : LC} (h : InRange p n (ev p w b - ev p w a - 1)) :
    Claim.holds (p : Int) w (.lt n a b) := by
  obtain ⟨S, hS, e⟩ := h
  refine ⟨S, hS, eqMod_of_cast ?_⟩
  unfold ev at e
  push_cast
  exact e

theorem holds_le {n : ℕ} {a b : LC} (h : InRange p n (ev p w b - ev p w a)) :
    Claim.holds (p : Int) w (.le n a b) := by
  obtain ⟨S, hS, e⟩ := h
  refine ⟨S, hS, eqMod_of_cast ?_⟩
  unfold ev at e
  push_cast
  exact e

theorem holds_bool [Fact p.Prime] {l : LC} (h : ev p w l = 0 ∨ ev p w l = 1) :
    Claim.holds (p : Int) w (.bool l) := by
  unfold Claim.holds
  exact emod_of_cast01 h

variable [Fact p.Prime] {s s' : St}

/-- the six comparison assertions -/
theorem assertCmp_claims {m : Meth} {a b : LinComb} {u : Unit} (hp : s.p = p) (hg : s.guard = none)
    (hone : s.one = oneSafe) (ha : a.lc.WF) (hb : b.lc.WF)
    (h : assertCmp m a b s = .ok (u, s')) (h1 : w .one = 1) (hw : NewSat s s' w) :
    ∀ c ∈ cmpClaim s.bitlength m a.lc b.lc, c.holds (p : Int) w := by
  unfold assertCmp at h
  split at h
  · simp only [cmpClaim, List.mem_singleton, forall_eq]
    exact holds_lt (assertLt_sound hp hg ha hb h h1 hw)
  · simp only [cmpClaim, List.mem_singleton, forall_eq]
    exact holds_le (assertLe_sound hp hg ha hb h h1 hw)
  · simp only [cmpClaim, List.mem_singleton, forall_eq]
    exact holds_eq (assertEq_sound hp hg ha hb h hw)
  · simp only [cmpClaim, List.mem_singleton, forall_eq]
    exact holds_ne (assertNe_sound hp hg hone ha hb h h1 hw)
  · simp only [cmpClaim, List.mem_singleton, forall_eq]
    exact holds_lt (assertGt_sound hp hg ha hb h h1 hw)
  · simp only [cmpClaim, List.mem_singleton, forall_eq]
    exact holds_le (assertGe_sound hp hg ha hb h h1 hw)
  · exact (raise_ok.mp h).elim

end

/-! ## method calls -/
section
variable {W : World} [Fact W.p.Prime] {s s' : St}

-- arm `do g x …; pure .none` whose single claim follows from a soundness lemma `t`
set_option hygiene false in
macro "kclaim_unit" sp:term "," t:term : tactic => `(tactic|
  (obtain ⟨r1, s1, h1, h⟩ := bind_ok.mp h
   obtain ⟨rfl, rfl⟩ := pure_ok' h
   obtain ⟨le1, -, -⟩ := $sp h1
   obtain ⟨hp, hw', -⟩ := C.newSat le1 hle
   simp only [methClaims, Val.secret?, List.mem_singleton, forall_eq]
   exact $t))

-- arm `do let y ← coerce o; assertCmp m x y; pure .none`
set_option hygiene false in
macro "kclaim_cmp" t:term : tactic => `(tactic|
  (split at h
   · obtain ⟨y, s1, h1, h⟩ := bind_ok.mp h
     obtain ⟨r2, s2, h2, h⟩ := bind_ok.mp h
     obtain ⟨rfl, rfl⟩ := pure_ok' h
     obtain ⟨le1, f1, inv1, g1⟩ := $t (hargs _ (by simp)) h1
     have L1 := L.next le1 f1 inv1
     obtain ⟨le2, -, -⟩ := assertCmp_spec inv1 L1.primeP (hx.mono le1) g1 h2
     obtain ⟨hp, hw', -⟩ := C.newSat le2 hle
     simp only [methClaims, Val.secret?, coerceArg, h1]
     rw [← f1.bl]
     exact assertCmp_claims hp L1.guard L1.one hx.1.1 g1.1.1 h2 C.one' hw'
   · exact (raise_ok.mp h).elim))

-- arm `do let l ← coerce lo; let h ← coerce hi; assertRange x l h; pure .none`
set_option hygiene false in
macro "kclaim_range" t:term : tactic => `(tactic|
  (split at h
   · obtain ⟨l, s1, h1, h⟩ := bind_ok.mp h
     obtain ⟨hh, s2, h2, h⟩ := bind_ok.mp h
     obtain ⟨r3, s3, h3, h⟩ := bind_ok.mp h
     obtain ⟨rfl, rfl⟩ := pure_ok' h
     obtain ⟨le1, f1, inv1, g1⟩ := $t L.inv (hargs _ (by simp)) h1
     obtain ⟨le2, f2, inv2, g2⟩ := $t inv1 ((hargs _ (by simp)).mono le1) h2
     have L2 := (L.next le1 f1 inv1).next le2 f2 inv2
     obtain ⟨le3, -, -⟩ := assertRange_spec inv2 (hx.mono (le1.trans le2)) (g1.mono le2) g2 h3
     obtain ⟨hp, hw', -⟩ := C.newSat le3 hle
     obtain ⟨c1, c2⟩ := assertRange_sound hp L2.guard hx.1.1 g1.1.1 g2.1.1 h3 C.one' hw'
     have hbl : s2.bitlength = s.bitlength := (f1.trans f2).bl
     rw [hbl] at c1 c2
     simp only [methClaims, Val.secret?, coerceArg, h1, h2, List.mem_cons, List.mem_singleton,
       List.not_mem_nil, or_false, forall_eq_or_imp, forall_eq]
     exact ⟨holds_le c1, holds_lt c2⟩
   · exact (raise_ok.mp h).elim))

theorem callMeth_lc_claims {m : Meth} {x : LinComb} {args : List Val} {r : Val} (C : SCtx W)
    (L : Loc W s) (hx : Good s x) (hargs : ∀ v ∈ args, GoodV s v)
    (h : callMeth m (.lc x) args s = .ok (r, s')) (hle : s'.le W.sf) :
    ∀ c ∈ methClaims s m (.lc x) args, c.holds (W.p : Int) W.w' := by
  unfold callMeth at h
  simp only at h
  split at h
  · simp [methClaims, Val.secret?]
  · obtain ⟨n, s0, h0, h⟩ := bind_ok.mp h
    obtain ⟨rfl, rfl⟩ := argNat?_width h0
    obtain ⟨bs, s1, h1, h⟩ := bind_ok.mp h
    obtain ⟨rfl, rfl⟩ := pure_ok' h
    obtain ⟨le1, -, -, -⟩ := toBits_spec L.inv hx h1
    obtain ⟨hp, hw', -⟩ := C.newSat le1 hle
    obtain ⟨-, S, hS, hSe, -⟩ := toBits_sound hp L.guard hx.1.1 h1 C.one' hw'
    simp only [methClaims, Val.secret?, List.mem_singleton, forall_eq]
    exact holds_nonneg ⟨S, hS, hSe⟩
  · simp [methClaims, Val.secret?]
  · obtain ⟨n, s0, h0, h⟩ := bind_ok.mp h
    obtain ⟨rfl, rfl⟩ := argNat?_width h0
    kclaim_unit (assertPositive_spec L.inv hx), (holds_nonneg (assertPositive_sound hp L.guard hx.1.1 h1 C.one' hw'))
  · simp [methClaims, Val.secret?]
  · simp [methClaims, Val.secret?]
  · kclaim_unit (assertZero_spec L.inv hx), (holds_zero (assertZero_sound hp L.guard h1 hw'))
  · kclaim_unit (assertNonzero_spec L.inv L.primeP hx),
      (holds_nonzero (assertNonzero_sound hp L.guard L.one h1 C.one' hw'))
  · kclaim_cmp (ensurelc_spec L.inv)
  · kclaim_cmp (ensurelc_spec L.inv)
  · kclaim_cmp (ensurelc_spec L.inv)
  · kclaim_cmp (ensurelc_spec L.inv)
  · kclaim_cmp (ensurelc_spec L.inv)
  · kclaim_cmp (ensurelc_spec L.inv)
  · kclaim_range ensurelc_spec
  · simp [methClaims, Val.secret?]
  · exact (raise_ok.mp h).elim

theorem callMeth_lcb_claims {m : Meth} {x : LinComb} {args : List Val} {r : Val} (C : SCtx W)
    (L : Loc W s) (hx : Good s x) (hargs : ∀ v ∈ args, GoodV s v)
    (h : callMeth m (.lcb x) args s = .ok (r, s')) (hle : s'.le W.sf) :
    ∀ c ∈ methClaims s m (.lcb x) args, c.holds (W.p : Int) W.w' := by
  unfold callMeth at h
  simp only at h
  split at h
  · simp [methClaims, Val.secret?]
  · simp [methClaims, Val.secret?]
  · split at h
    · rename_i hempty
      have hw0 : widthArg args = none := by
        cases args with
        | nil => rfl
        | cons a as => simp at hempty
      kclaim_unit (assertPositive_spec L.inv hx),
        (by rw [hw0]; exact holds_nonneg (assertPositive_sound hp L.guard hx.1.1 h1 C.one' hw'))
    · exact (raise_ok.mp h).elim
  · simp [methClaims, Val.secret?]
  · kclaim_unit (assertZero_spec L.inv hx), (holds_zero (assertZero_sound hp L.guard h1 hw'))
  · kclaim_unit (assertNonzero_spec L.inv L.primeP hx),
      (holds_nonzero (assertNonzero_sound hp L.guard L.one h1 C.one' hw'))
  · kclaim_cmp (ensurebool_spec L.inv)
  · kclaim_cmp (ensurebool_spec L.inv)
  · kclaim_cmp (ensurebool_spec L.inv)
  · kclaim_cmp (ensurebool_spec L.inv)
  · kclaim_cmp (ensurebool_spec L.inv)
  · kclaim_cmp (ensurebool_spec L.inv)
  · simp [methClaims, Val.secret?]
  all_goals exact (raise_ok.mp h).elim

theorem callMeth_fxp_claims {m : Meth} {x : LinComb} {args : List Val} {r : Val} (C : SCtx W)
    (L : Loc W s) (hx : Good s x) (hargs : ∀ v ∈ args, GoodV s v)
    (h : callMeth m (.fxp x) args s = .ok (r, s')) (hle : s'.le W.sf) :
    ∀ c ∈ methClaims s m (.fxp x) args, c.holds (W.p : Int) W.w' := by
  unfold callMeth at h
  simp only at h
  split at h
  · simp [methClaims, Val.secret?]
  · simp [methClaims, Val.secret?]
  · split at h
    · rename_i hempty
      have hw0 : widthArg args = none := by
        cases args with
        | nil => rfl
        | cons a as => simp at hempty
      kclaim_unit (assertPositive_spec L.inv hx),
        (by rw [hw0]; exact holds_nonneg (assertPositive_sound hp L.guard hx.1.1 h1 C.one' hw'))
    · exact (raise_ok.mp h).elim
  · simp [methClaims, Val.secret?]
  · simp [methClaims, Val.secret?]
  · kclaim_unit (assertZero_spec L.inv hx), (holds_zero (assertZero_sound hp L.guard h1 hw'))
  · kclaim_unit (assertNonzero_spec L.inv L.primeP hx),
      (holds_nonzero (assertNonzero_sound hp L.guard L.one h1 C.one' hw'))
  · kclaim_cmp (ensurefxp_spec L.inv)
  · kclaim_cmp (ensurefxp_spec L.inv)
  · kclaim_cmp (ensurefxp_spec L.inv)
  · kclaim_cmp (ensurefxp_spec L.inv)
  · kclaim_cmp (ensurefxp_spec L.inv)
  · kclaim_cmp (ensurefxp_spec L.inv)
  · kclaim_range ensurefxp_spec
  all_goals exact (raise_ok.mp h).elim

theorem callMeth_claims {m : Meth} {self : Val} {args : List Val} {r : Val} (C : SCtx W)
    (L : Loc W s) (hself : GoodV s self) (hargs : ∀ v ∈ args, GoodV s v)
    (h : callMeth m self args s = .ok (r, s')) (hle : s'.le W.sf) :
    ∀ c ∈ methClaims s m self args, c.holds (W.p : Int) W.w' := by
  cases self
  case lc x => exact callMeth_lc_claims C L (GoodV_lc.mp hself) hargs h hle
  case lcb x => exact callMeth_lcb_claims C L (GoodV_lcb.mp hself) hargs h hle
  case fxp x => exact callMeth_fxp_claims C L (GoodV_fxp.mp hself) hargs h hle
  all_goals simp [methClaims, Val.secret?]

/-! ## instructions and runs -/

/-- `Loc` only depends on the prime of the world -/
theorem Loc.cast {W0 : World} (L : Loc W0 s) (hp : W0.p = W.p) : Loc W s :=
  ⟨L.inv, by rw [← hp]; exact L.hp, L.guard, by rw [← hp]; exact L.bl⟩

theorem step_claims {W0 : World} {st st' : St} {regs regs' : List Val} {frames frames' : List GuardBak}
    {i : Instr} {v : Val} (C : SCtx W) (hW : W0.p = W.p) (hR : RD W0 st regs)
    (h : step regs frames i st = .ok ((v, regs', frames'), st')) (hle : st'.le W.sf)
    (hst : st.le st') :
    ∀ c ∈ i.claims st regs, c.holds (W.p : Int) W.w' := by
  have L : Loc W st := hR.loc.cast hW
  have hregs : ∀ v ∈ regs, GoodV st v := fun v hv => (hR.regs v hv).goodV
  cases i
  case call m self args =>
    unfold step at h; simp only at h
    obtain ⟨x, s1, h1, h⟩ := bind_ok.mp h
    obtain ⟨rfl, hx⟩ := getReg_ok h1
    obtain ⟨as, s1, h1', h⟩ := bind_ok.mp h
    obtain ⟨rfl, has⟩ := getRegs_ok h1'
    obtain ⟨r, s2, h2, h⟩ := bind_ok.mp h
    kstep_fin
    simp only [Instr.claims, h1, h1']
    exact callMeth_claims C L (hregs x hx) (fun w hw => hregs w (has w hw)) h2 hle
  case wrapb a =>
    unfold step at h; simp only at h
    obtain ⟨x, s1, h1, h⟩ := bind_ok.mp h
    obtain ⟨rfl, hx⟩ := getReg_ok h1
    obtain ⟨r, s2, h2, h⟩ := bind_ok.mp h
    kstep_fin
    simp only [Instr.claims, h1]
    cases x
    case lc y =>
      simp only [List.mem_singleton, forall_eq]
      unfold wrapBool at h2
      simp only at h2
      obtain ⟨r1, s1, h3, h2⟩ := bind_ok.mp h2
      obtain ⟨rfl, rfl⟩ := pure_ok' h2
      obtain ⟨hp, hw', -⟩ := C.newSat hst hle
      exact holds_bool (mkBool_sound hp L.guard (GoodV_lc.mp (hregs _ hx)).1.1 h3 C.one' hw').2.2
    all_goals simp
  case mk k a =>
    unfold step at h; simp only at h
    obtain ⟨x, s1, h1, h⟩ := bind_ok.mp h
    obtain ⟨rfl, hx⟩ := getReg_ok h1
    obtain ⟨r, s2, h2, h⟩ := bind_ok.mp h
    kstep_fin
    obtain ⟨hp, hw', -⟩ := C.newSat hst hle
    cases k
    case privb =>
      simp only [Instr.claims, List.mem_singleton, forall_eq]
      cases x
      case int c =>
        simp only [mkVal] at h2
        obtain ⟨r1, s1, h3, h2⟩ := bind_ok.mp h2
        obtain ⟨rfl, rfl⟩ := pure_ok' h2
        have hb := privValBool_sound hp L.guard h3 C.one' hw'
        obtain ⟨rfl, -⟩ := privValBool_ok L.guard h3
        exact holds_bool hb
      all_goals (simp only [mkVal] at h2; exact (raise_ok.mp h2).elim)
    case pubb =>
      simp only [Instr.claims, List.mem_singleton, forall_eq]
      cases x
      case int c =>
        simp only [mkVal] at h2
        obtain ⟨r1, s1, h3, h2⟩ := bind_ok.mp h2
        obtain ⟨rfl, rfl⟩ := pure_ok' h2
        unfold pubValBool at h3
        split at h3
        · cases h3
        · obtain ⟨y, s0, h4, h5⟩ := bind_ok.mp h3
          obtain ⟨rfl, rfl, hnc⟩ := pubVal_ok h4
          have hb := (mkBool_sound (s := { st with pub := st.pub ++ [c] }) hp L.guard
            (LC.WF_single _ _) h5 C.one'
            (fun c' hc' => hw' c' (by unfold newCons at hc' ⊢; simpa using hc'))).2.2
          exact holds_bool hb
      all_goals (simp only [mkVal] at h2; exact (raise_ok.mp h2).elim)
    all_goals simp [Instr.claims]
  all_goals simp [Instr.claims]

theorem runAux_claims {W0 : World} [Fact W0.p.Prime] (C0 : SCtx W0) (C : SCtx W) (hW : W0.p = W.p)
    (hin0 : ∀ wr, InputAgr W0 wr) :
    ∀ (is : List Instr) (k : Nat) (regs : List Val) (frames : List GuardBak)
    (st : St), RD W0 st regs → soundAux is regs frames st = true →
    ∀ out, runAux is k regs frames st = out → out.err = none → out.st.le W.sf →
    ∀ c ∈ claimsAux is regs frames st, c.holds (W.p : Int) W.w'
  | [], k, regs, frames, st, _, _, out, _, _, _ => by
    simp [claimsAux]
  | i :: is, k, regs, frames, st, hR, hs, out, hout, herr, hF => by
    unfold runAux at hout
    unfold soundAux at hs
    unfold claimsAux
    cases hstep : step regs frames i st with
    | error e =>
      rw [hstep] at hout
      subst hout
      simp at herr
    | ok r =>
      obtain ⟨⟨v, regs', frames'⟩, st'⟩ := r
      rw [hstep] at hout hs
      simp only [Bool.and_eq_true, Option.isNone_iff_eq_none] at hs
      simp only at hout ⊢
      obtain ⟨le1, hR'⟩ := step_d C0 hR hs.1 (fun wr _ => hin0 wr) hstep
      obtain ⟨le2, -⟩ := runAux_d C0 is (k+1) _ _ _ hR' hs.2 (fun wr _ => hin0 wr) out hout herr
      intro c hc
      rcases List.mem_append.mp hc with hc | hc
      · exact step_claims C hW hR hstep (le2.trans hF) le1 c hc
      · exact runAux_claims C0 C hW hin0 is (k+1) _ _ _ hR' hs.2 out hout herr hF c hc

end

/-- **Every executed assertion holds under every satisfying assignment.**  See `C03_program`. -/
theorem run_claims (p : ℕ) [hp : Fact p.Prime] (bl res : ℕ) (hbl : 2 ^ (bl + 1) ≤ p)
    (prog : List Instr) (hfrag : SoundFragment (St.init p bl res) prog)
    (out : Out) (hout : run (St.init p bl res) prog = out) (herr : out.err = none)
    (w' : Wire → Int) (h1 : w' .one = 1)
    (hsat : ∀ c ∈ out.st.cons, Sat (p : Int) w' c) :
    ∀ c ∈ claimsOf (St.init p bl res) prog, c.holds (p : Int) w' := by
  unfold run at hout
  unfold SoundFragment at hfrag
  unfold claimsOf
  let W0 : World := ⟨p, (St.init p bl res).assign, St.init p bl res⟩
  have C0 : SCtx W0 := ⟨Inv.init _ _ _, rfl, rfl, fun c hc => by simp [W0, St.init] at hc⟩
  have L0 : Loc W0 (St.init p bl res) := ⟨Inv.init _ _ _, rfl, rfl, hbl⟩
  have hW0 : Fact W0.p.Prime := hp
  obtain ⟨-, hR0⟩ := runAux_d C0 prog 0 [] [] _ ⟨L0, by simp⟩ hfrag (fun _ _ => rfl) out hout herr
  let W : World := ⟨p, w', out.st⟩
  have C : SCtx W := ⟨hR0.loc.inv, hR0.loc.hp, h1, hsat⟩
  have hW : Fact W.p.Prime := hp
  exact runAux_claims (W := W) C0 C rfl (fun _ => rfl) prog 0 [] [] _ ⟨L0, by simp⟩ hfrag out hout herr
    (St.le.refl _)

end Pysnark
