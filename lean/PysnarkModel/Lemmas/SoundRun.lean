import PysnarkModel.Lemmas.SoundVal
import PysnarkModel.Lemmas.InvRun
/-!
# Program-level soundness, layer 2: instructions and runs

`step_d`: one instruction of the fragment keeps every register determined.  `runAux_d`: induction
over the program.  `run_determined`: the statement over the recorded assignment, in two passes
through `runAux_d` — a first pass in a dummy world (adversarial assignment := the initial recorded
assignment, no constraint to satisfy) yields the invariant of the final state; the second pass is
in the real world whose final state is the one just obtained.
-/
namespace Pysnark

section
variable {W : World} [Fact W.p.Prime] {s s' : St}

theorem binopV_d {op : BinOp} {a b r : Val} (C : SCtx W) (L : Loc W s) (ha : DV W s a) (hb : DV W s b)
    (hex : exclBin s.p op a b = none)
    (h : binopV op a b s = .ok (r, s')) : s.le s' ∧ Frame s s' ∧ Loc W s' ∧ DV W s' r := by
  cases op
  case add => exact addV_d C L ha hb h
  case sub => exact subV_d C L ha hb h
  case mul => exact mulV_d C L ha hb hex h
  case truediv => exact truedivV_d C L ha hb hex h
  case floordiv => simp [exclBin] at hex
  case mod => simp [exclBin] at hex
  case divmod => simp [exclBin] at hex
  case pow => exact powV_d C L ha hb hex h
  case lshift => exact lshiftV_d C L ha hb h
  case rshift => exact rshiftV_d C L ha hex h
  case band => exact bwV_d C L ha hb (by simpa [exclBin] using hex) h
  case bxor => exact bwV_d C L ha hb (by simpa [exclBin] using hex) h
  case bor => exact bwV_d C L ha hb (by simpa [exclBin] using hex) h
  case lt => exact cmpV_d C L ha hb h
  case le => exact cmpV_d C L ha hb h
  case eq => exact cmpV_d C L ha hb h
  case ne => exact cmpV_d C L ha hb h
  case gt => exact cmpV_d C L ha hb h
  case ge => exact cmpV_d C L ha hb h

/-- what one instruction preserves -/
structure RD (W : World) (st : St) (regs : List Val) : Prop where
  loc : Loc W st
  regs : ∀ v ∈ regs, DV W st v

theorem RD.push {st st' : St} {regs : List Val} {v : Val} (hR : RD W st regs)
    (h : st.le st' ∧ Frame st st' ∧ Loc W st' ∧ DV W st' v) : st.le st' ∧ RD W st' (regs ++ [v]) := by
  obtain ⟨le1, -, L1, g1⟩ := h
  refine ⟨le1, L1, ?_⟩
  intro w hw
  rcases List.mem_append.mp hw with hw | hw
  · exact (hR.regs w hw).mono le1
  · simp only [List.mem_singleton] at hw; subst hw; exact g1

-- the final `pure (r, regs, frames)` of an arm of `step`
set_option hygiene false in
macro "kstep_fin" : tactic => `(tactic|
  (obtain ⟨e, rfl⟩ := pure_ok' h
   simp only [Prod.mk.injEq] at e
   obtain ⟨rfl, rfl, rfl⟩ := e))

theorem step_d {st st' : St} {regs regs' : List Val} {frames frames' : List GuardBak}
    {i : Instr} {v : Val} (C : SCtx W) (hR : RD W st regs)
    (hex : i.excl st regs = none)
    (hin : ∀ k, i.inputWire st = some k → InputAgr W k)
    (h : step regs frames i st = .ok ((v, regs', frames'), st')) :
    st.le st' ∧ RD W st' (regs' ++ [v]) := by
  have L := hR.loc
  have hregs := hR.regs
  cases i
  case lit w =>
    unfold step at h; simp only at h
    kstep_fin
    have hp : w.plain = true := by
      simp only [Instr.excl, ite_eq_left_iff, reduceCtorEq, imp_false, Bool.not_eq_true,
        Bool.not_eq_false] at hex
      exact hex
    exact hR.push (L.refl (DV_of_plain w hp))
  case mk k a =>
    unfold step at h; simp only at h
    obtain ⟨x, s1, h1, h⟩ := bind_ok.mp h
    obtain ⟨rfl, hx⟩ := getReg_ok h1
    obtain ⟨r, s2, h2, h⟩ := bind_ok.mp h
    kstep_fin
    exact hR.push (mkVal_d C L (fun wr hwr => hin wr (by simpa [Instr.inputWire] using hwr)) h2)
  case wrapb a =>
    unfold step at h; simp only at h
    obtain ⟨x, s1, h1, h⟩ := bind_ok.mp h
    obtain ⟨rfl, hx⟩ := getReg_ok h1
    obtain ⟨r, s2, h2, h⟩ := bind_ok.mp h
    kstep_fin
    exact hR.push (wrapBool_d C L (hregs x hx) h2)
  case wrapx a =>
    unfold step at h; simp only at h
    obtain ⟨x, s1, h1, h⟩ := bind_ok.mp h
    obtain ⟨rfl, hx⟩ := getReg_ok h1
    obtain ⟨r, s2, h2, h⟩ := bind_ok.mp h
    kstep_fin
    exact hR.push (wrapFxp_d C L (hregs x hx) h2)
  case bin op a b =>
    unfold step at h; simp only at h
    obtain ⟨x, s1, h1, h⟩ := bind_ok.mp h
    obtain ⟨rfl, hx⟩ := getReg_ok h1
    obtain ⟨y, s1, h1', h⟩ := bind_ok.mp h
    obtain ⟨rfl, hy⟩ := getReg_ok h1'
    obtain ⟨r, s2, h2, h⟩ := bind_ok.mp h
    kstep_fin
    simp only [Instr.excl, h1, h1'] at hex
    exact hR.push (binopV_d C L (hregs x hx) (hregs y hy) hex h2)
  case un op a =>
    unfold step at h; simp only at h
    obtain ⟨x, s1, h1, h⟩ := bind_ok.mp h
    obtain ⟨rfl, hx⟩ := getReg_ok h1
    obtain ⟨r, s2, h2, h⟩ := bind_ok.mp h
    kstep_fin
    exact hR.push (unV_d C L (hregs x hx) h2)
  case call m self args =>
    unfold step at h; simp only at h
    obtain ⟨x, s1, h1, h⟩ := bind_ok.mp h
    obtain ⟨rfl, hx⟩ := getReg_ok h1
    obtain ⟨as, s1, h1', h⟩ := bind_ok.mp h
    obtain ⟨rfl, has⟩ := getRegs_ok h1'
    obtain ⟨r, s2, h2, h⟩ := bind_ok.mp h
    kstep_fin
    simp only [Instr.excl, h1'] at hex
    exact hR.push (callMeth_d C L (hregs x hx) (fun w hw => hregs w (has w hw)) hex h2)
  case ite c t f =>
    unfold step at h; simp only at h
    obtain ⟨cv, s1, h1, h⟩ := bind_ok.mp h
    obtain ⟨rfl, hc⟩ := getReg_ok h1
    obtain ⟨tv, s1, h1', h⟩ := bind_ok.mp h
    obtain ⟨rfl, ht⟩ := getReg_ok h1'
    obtain ⟨fv, s1, h1'', h⟩ := bind_ok.mp h
    obtain ⟨rfl, hf⟩ := getReg_ok h1''
    obtain ⟨r, s2, h2, h⟩ := bind_ok.mp h
    kstep_fin
    exact hR.push (ifThenElse_d C L (hregs _ hc) (hregs _ ht) (hregs _ hf) h2)
  case list xs =>
    unfold step at h; simp only at h
    obtain ⟨vs, s1, h1, h⟩ := bind_ok.mp h
    obtain ⟨rfl, hvs⟩ := getRegs_ok h1
    kstep_fin
    exact hR.push (L.refl (DV_list.mpr (fun w hw => hregs w (hvs w hw))))
  case arr xs =>
    unfold step at h; simp only at h
    obtain ⟨vs, s1, h1, h⟩ := bind_ok.mp h
    obtain ⟨rfl, hvs⟩ := getRegs_ok h1
    kstep_fin
    exact hR.push (L.refl (DV_list.mpr (fun w hw => hregs w (hvs w hw))))
  case idx a k =>
    unfold step at h; simp only at h
    obtain ⟨x, s1, h1, h⟩ := bind_ok.mp h
    obtain ⟨rfl, hx⟩ := getReg_ok h1
    have hxg := hregs x hx
    have key : ∀ xs : List Val, (∀ w ∈ xs, DV W st w) →
        (match pyIndex xs.length k with
          | some j => match xs[j]? with
            | some y => pure (y, regs, frames)
            | Option.none => raise .index
          | Option.none => raise .index : M (Val × List Val × List GuardBak)) st
          = .ok ((v, regs', frames'), st') → st.le st' ∧ RD W st' (regs' ++ [v]) := by
      intro xs hxs h
      cases hk : pyIndex xs.length k with
      | none => simp only [hk] at h; exact (raise_ok.mp h).elim
      | some j =>
        simp only [hk] at h
        cases hv : xs[j]? with
        | none => simp only [hv] at h; exact (raise_ok.mp h).elim
        | some y =>
          simp only [hv] at h
          kstep_fin
          exact hR.push (L.refl (hxs _ (List.mem_of_getElem? hv)))
    cases x
    case list xs => exact key xs (DV_list.mp hxg) h
    case tuple xs => exact key xs (DV_tuple.mp hxg) h
    all_goals exact (raise_ok.mp h).elim
  case genter c => simp [Instr.excl] at hex
  case gleave => simp [Instr.excl] at hex
  case setBl n =>
    unfold step at h; simp only at h
    obtain ⟨u, s2, h2, h⟩ := bind_ok.mp h
    kstep_fin
    unfold modifySt at h2
    simp only [Except.ok.injEq, Prod.mk.injEq] at h2
    obtain ⟨-, rfl⟩ := h2
    have hle : st.le { st with bitlength := n } :=
      ⟨List.prefix_refl _, List.prefix_refl _, List.prefix_refl _, rfl⟩
    have hn : 2 ^ (n + 1) ≤ W.p := by
      have : (2 : Int) ^ (n + 1) ≤ st.p := by
        simp only [Instr.excl, ite_eq_left_iff, reduceCtorEq, imp_false, not_not] at hex
        exact hex
      rw [L.hp] at this
      exact_mod_cast this
    refine ⟨hle, ⟨L.inv.setBl n, L.hp, L.guard, hn⟩, ?_⟩
    intro w hw
    rcases List.mem_append.mp hw with hw | hw
    · exact (hregs w hw).mono hle
    · simp only [List.mem_singleton] at hw; subst hw; exact DV_none
  case setRes n =>
    unfold step at h; simp only at h
    obtain ⟨u, s2, h2, h⟩ := bind_ok.mp h
    kstep_fin
    unfold modifySt at h2
    simp only [Except.ok.injEq, Prod.mk.injEq] at h2
    obtain ⟨-, rfl⟩ := h2
    have hle : st.le { st with resolution := n } :=
      ⟨List.prefix_refl _, List.prefix_refl _, List.prefix_refl _, rfl⟩
    refine ⟨hle, ⟨L.inv.setRes n, L.hp, L.guard, L.bl⟩, ?_⟩
    intro w hw
    rcases List.mem_append.mp hw with hw | hw
    · exact (hregs w hw).mono hle
    · simp only [List.mem_singleton] at hw; subst hw; exact DV_none
  case setIgn b => simp [Instr.excl] at hex
  case aget a k =>
    unfold step at h; simp only at h
    obtain ⟨av, s1, h1, h⟩ := bind_ok.mp h
    obtain ⟨rfl, ha⟩ := getReg_ok h1
    obtain ⟨iv, s1, h1', h⟩ := bind_ok.mp h
    obtain ⟨rfl, hk⟩ := getReg_ok h1'
    have hag := hregs _ ha
    cases av
    case list xs =>
      simp only at h
      obtain ⟨r, s2, h2, h⟩ := bind_ok.mp h
      kstep_fin
      exact hR.push (arrayGet_d C L (DV_list.mp hag) (hregs _ hk) h2)
    all_goals exact (raise_ok.mp h).elim
  case aset a k w =>
    unfold step at h; simp only at h
    obtain ⟨av, s1, h1, h⟩ := bind_ok.mp h
    obtain ⟨rfl, ha⟩ := getReg_ok h1
    obtain ⟨iv, s1, h1', h⟩ := bind_ok.mp h
    obtain ⟨rfl, hk⟩ := getReg_ok h1'
    obtain ⟨vv, s1, h1'', h⟩ := bind_ok.mp h
    obtain ⟨rfl, hw⟩ := getReg_ok h1''
    have hag := hregs _ ha
    cases av
    case list xs =>
      simp only at h
      obtain ⟨xs', s2, h2, h⟩ := bind_ok.mp h
      kstep_fin
      obtain ⟨le1, f1, L1, g1⟩ := arraySet_d C L (DV_list.mp hag) (hregs _ hk) (hregs _ hw) h2
      refine ⟨le1, L1, ?_⟩
      intro z hz
      rcases List.mem_append.mp hz with hz | hz
      · rcases List.mem_or_eq_of_mem_set hz with hz | rfl
        · exact (hregs z hz).mono le1
        · exact DV_list.mpr g1
      · simp only [List.mem_singleton] at hz; subst hz; exact DV_none
    all_goals exact (raise_ok.mp h).elim

/-- induction over the program -/
theorem runAux_d (C : SCtx W) : ∀ (is : List Instr) (k : Nat) (regs : List Val) (frames : List GuardBak)
    (st : St), RD W st regs → soundAux is regs frames st = true →
    (∀ wr ∈ inputsAux is regs frames st, InputAgr W wr) →
    ∀ out, runAux is k regs frames st = out → out.err = none →
    st.le out.st ∧ RD W out.st out.regs
  | [], k, regs, frames, st, hR, _, _, out, hout, _ => by
    unfold runAux at hout
    subst hout
    exact ⟨St.le.refl _, hR⟩
  | i :: is, k, regs, frames, st, hR, hs, hin, out, hout, herr => by
    unfold runAux at hout
    unfold soundAux at hs
    unfold inputsAux at hin
    cases hstep : step regs frames i st with
    | error e =>
      rw [hstep] at hout
      subst hout
      simp at herr
    | ok r =>
      obtain ⟨⟨v, regs', frames'⟩, st'⟩ := r
      rw [hstep] at hout hs hin
      simp only [Bool.and_eq_true, Option.isNone_iff_eq_none] at hs
      simp only at hout hin
      obtain ⟨le1, hR'⟩ := step_d C hR hs.1
        (fun wr hwr => hin wr (List.mem_append_left _ (by simp [hwr]))) hstep
      obtain ⟨le2, hR''⟩ := runAux_d C is (k+1) _ _ _ hR' hs.2
        (fun wr hwr => hin wr (List.mem_append_right _ hwr)) out hout herr
      exact ⟨le1.trans le2, hR''⟩

end

/-! ## the statement over integers modulo `p` -/

theorem eqMod_of_cast {p : ℕ} {a b : Int} (h : ((a : Int) : ZMod p) = ((b : Int) : ZMod p)) :
    EqMod (p : Int) a b := by
  unfold EqMod
  have h0 : (((a - b : Int)) : ZMod p) = 0 := by push_cast; rw [h]; ring
  rw [ZMod.intCast_zmod_eq_zero_iff_dvd] at h0
  exact Int.emod_eq_zero_of_dvd h0

theorem cast_of_eqMod {p : ℕ} {a b : Int} (h : EqMod (p : Int) a b) :
    ((a : Int) : ZMod p) = ((b : Int) : ZMod p) := by
  unfold EqMod at h
  have h0 : (((a - b : Int)) : ZMod p) = 0 := by
    rw [ZMod.intCast_zmod_eq_zero_iff_dvd]; exact Int.dvd_of_emod_eq_zero h
  push_cast at h0
  exact sub_eq_zero.mp h0

theorem emod_of_cast01 {p : ℕ} [hp : Fact p.Prime] {a : Int}
    (h : ((a : Int) : ZMod p) = 0 ∨ ((a : Int) : ZMod p) = 1) : a % (p : Int) = 0 ∨ a % (p : Int) = 1 := by
  rcases h with h | h
  · left
    rw [ZMod.intCast_zmod_eq_zero_iff_dvd] at h
    exact Int.emod_eq_zero_of_dvd h
  · right
    have h1 : ((a : Int) : ZMod p) = ((1 : Int) : ZMod p) := by simpa using h
    have := eqMod_of_cast h1
    unfold EqMod at this
    have hp1 : (1 : Int) < p := by exact_mod_cast hp.out.one_lt
    have e := Int.emod_emod_of_dvd a (dvd_refl (p : Int))
    have : a % (p : Int) = 1 % (p : Int) := Int.emod_eq_emod_iff_emod_sub_eq_zero.mpr this
    rw [this, Int.emod_eq_of_lt (by omega) hp1]

/-- from the internal relation (at the final state) to the specification vocabulary -/
theorem DetV_of_DV {W : World} [Fact W.p.Prime] : ∀ (v : Val), DV W W.sf v →
    DetV (W.p : Int) W.w' W.sf.assign v
  | .none, _ => by simp [DetV]
  | .int _, _ => by simp [DetV]
  | .flt _ _, _ => by simp [DetV]
  | .lc x, h => by
    rw [DetV]; exact eqMod_of_cast ((DV_lc.mp h).2 (St.le.refl _))
  | .fxp x, h => by
    rw [DetV]; exact eqMod_of_cast ((DV_fxp.mp h).2 (St.le.refl _))
  | .lcb x, h => by
    rw [DetV]
    obtain ⟨a, b⟩ := (DV_lcb.mp h).2 (St.le.refl _)
    exact ⟨eqMod_of_cast a, emod_of_cast01 b⟩
  | .list xs, h => by
    rw [DetV]; exact fun v hm => DetV_of_DV v (DV_list.mp h v hm)
  | .tuple xs, h => by
    rw [DetV]; exact fun v hm => DetV_of_DV v (DV_tuple.mp h v hm)

/-- under `w'` every secret evaluates to its Python-level value -/
theorem ValV_of_DV {W : World} [Fact W.p.Prime] (hp : W.sf.p = (W.p : Int)) : ∀ (v : Val), DV W W.sf v →
    ValV (W.p : Int) W.w' v
  | .none, _ => by simp [ValV]
  | .int _, _ => by simp [ValV]
  | .flt _ _, _ => by simp [ValV]
  | .lc x, h => by
    rw [ValV]
    have d := DV_lc.mp h
    exact eqMod_of_cast ((d.2 (St.le.refl _)).trans (ev_final_of_good hp d.1 (St.le.refl _)))
  | .fxp x, h => by
    rw [ValV]
    have d := DV_fxp.mp h
    exact eqMod_of_cast ((d.2 (St.le.refl _)).trans (ev_final_of_good hp d.1 (St.le.refl _)))
  | .lcb x, h => by
    rw [ValV]
    have d := (DV_lcb.mp h).dl
    exact eqMod_of_cast ((d.2 (St.le.refl _)).trans (ev_final_of_good hp d.1 (St.le.refl _)))
  | .list xs, h => by
    rw [ValV]; exact fun v hm => ValV_of_DV hp v (DV_list.mp h v hm)
  | .tuple xs, h => by
    rw [ValV]; exact fun v hm => ValV_of_DV hp v (DV_tuple.mp h v hm)

/-- **Program-level determinacy.**  See `C02_determined` in `Props/C02.lean` for the reading. -/
theorem run_determined (p : ℕ) [hp : Fact p.Prime] (bl res : ℕ) (hbl : 2 ^ (bl + 1) ≤ p)
    (prog : List Instr) (hfrag : SoundFragment (St.init p bl res) prog)
    (out : Out) (hout : run (St.init p bl res) prog = out) (herr : out.err = none)
    (w' : Wire → Int) (h1 : w' .one = 1)
    (hin : ∀ k ∈ inputWires (St.init p bl res) prog, EqMod (p : Int) (w' k) (out.st.assign k))
    (hsat : ∀ c ∈ out.st.cons, Sat (p : Int) w' c) :
    Inv out.st ∧ out.st.p = (p : Int) ∧ ∀ v ∈ out.regs, DV ⟨p, w', out.st⟩ out.st v := by
  unfold run at hout
  unfold SoundFragment at hfrag
  -- first pass: dummy world, to obtain the invariant of the final state
  let W0 : World := ⟨p, (St.init p bl res).assign, St.init p bl res⟩
  have C0 : SCtx W0 := ⟨Inv.init _ _ _, rfl, rfl, fun c hc => by simp [W0, St.init] at hc⟩
  have L0 : Loc W0 (St.init p bl res) := ⟨Inv.init _ _ _, rfl, rfl, hbl⟩
  have hW0 : Fact W0.p.Prime := hp
  obtain ⟨-, hR0⟩ := runAux_d C0 prog 0 [] [] _ ⟨L0, by simp⟩ hfrag (fun _ _ => rfl) out hout herr
  have hinvF : Inv out.st := hR0.loc.inv
  have hpF : out.st.p = (p : Int) := hR0.loc.hp
  -- second pass: the real world
  let W : World := ⟨p, w', out.st⟩
  have C : SCtx W := ⟨hinvF, hpF, h1, hsat⟩
  have L : Loc W (St.init p bl res) := ⟨Inv.init _ _ _, rfl, rfl, hbl⟩
  have hW : Fact W.p.Prime := hp
  obtain ⟨-, hR⟩ := runAux_d C prog 0 [] [] _ ⟨L, by simp⟩ hfrag
    (fun wr hwr => cast_of_eqMod (hin wr hwr)) out hout herr
  exact ⟨hinvF, hpF, hR.regs⟩

end Pysnark
