import PysnarkModel.Lemmas.SoundBase
import PysnarkModel.Lemmas.IteTag
/-!
# Program-level soundness, layer 1: operator dispatch on dynamically typed values

`DV W s v`: every secret inside the value `v` is determined (`DL`), the ones typed boolean are
determined booleans (`DB`).  One lemma per function of `Model/Val.lean` / `Model/Methods.lean`, in
the shape of the invariant lemmas of `Lemmas/InvVal.lean` with `Good` replaced by `DL`; the arms
that reach an unsound gadget are cut off by the hypotheses that `Instr.excl` provides.
-/
namespace Pysnark

/-- determined value -/
def DV (W : World) (s : St) : Val → Prop
  | .lc x | .fxp x => DL W s x
  | .lcb x => DB W s x
  | .list xs | .tuple xs => ∀ v ∈ xs, DV W s v
  | _ => True

section
variable {W : World} {s s' : St}

@[simp] theorem DV_lc {x : LinComb} : DV W s (.lc x) ↔ DL W s x := by rw [DV]
@[simp] theorem DV_lcb {x : LinComb} : DV W s (.lcb x) ↔ DB W s x := by rw [DV]
@[simp] theorem DV_fxp {x : LinComb} : DV W s (.fxp x) ↔ DL W s x := by rw [DV]
@[simp] theorem DV_list {xs : List Val} : DV W s (.list xs) ↔ ∀ v ∈ xs, DV W s v := by rw [DV]
@[simp] theorem DV_tuple {xs : List Val} : DV W s (.tuple xs) ↔ ∀ v ∈ xs, DV W s v := by rw [DV]
@[simp] theorem DV_int {c : Int} : DV W s (.int c) := by simp [DV]
@[simp] theorem DV_flt {m : Int} {e : Nat} : DV W s (.flt m e) := by simp [DV]
@[simp] theorem DV_none : DV W s .none := by simp [DV]

theorem DV.mono (h : s.le s') : ∀ (v : Val), DV W s v → DV W s' v
  | .none, _ => DV_none
  | .int _, _ => DV_int
  | .flt _ _, _ => DV_flt
  | .lc x, hv => DV_lc.mpr ((DV_lc.mp hv).mono h)
  | .lcb x, hv => DV_lcb.mpr ((DV_lcb.mp hv).mono h)
  | .fxp x, hv => DV_fxp.mpr ((DV_fxp.mp hv).mono h)
  | .list xs, hv => DV_list.mpr (fun v hm => DV.mono h v (DV_list.mp hv v hm))
  | .tuple xs, hv => DV_tuple.mpr (fun v hm => DV.mono h v (DV_tuple.mp hv v hm))

theorem DV.goodV : ∀ (v : Val), DV W s v → GoodV s v
  | .none, _ => GoodV_none
  | .int _, _ => GoodV_int
  | .flt _ _, _ => GoodV_flt
  | .lc x, hv => GoodV_lc.mpr (DV_lc.mp hv).1
  | .lcb x, hv => GoodV_lcb.mpr (DV_lcb.mp hv).1
  | .fxp x, hv => GoodV_fxp.mpr (DV_fxp.mp hv).1
  | .list xs, hv => GoodV_list.mpr (fun v hm => DV.goodV v (DV_list.mp hv v hm))
  | .tuple xs, hv => GoodV_tuple.mpr (fun v hm => DV.goodV v (DV_tuple.mp hv v hm))

theorem DV_ofFB {o : Option LinComb} (h : DO W s o) : DV W s (ofFB o) := by
  cases o with
  | none => exact DV_int
  | some x => exact DV_lc.mpr (h x rfl)

theorem plainL_iff (xs : List Val) : Val.plainL xs = true ↔ ∀ v ∈ xs, v.plain = true := by
  induction xs with
  | nil => simp [Val.plainL]
  | cons x xs ih => simp [Val.plainL, ih]

/-- a plain literal is determined -/
theorem DV_of_plain : ∀ (v : Val), v.plain = true → DV W s v
  | .none, _ => DV_none
  | .int _, _ => DV_int
  | .flt _ _, _ => DV_flt
  | .lc x, h => by simp [Val.plain] at h
  | .lcb x, h => by simp [Val.plain] at h
  | .fxp x, h => by simp [Val.plain] at h
  | .list xs, h => by
    rw [Val.plain, plainL_iff] at h
    exact DV_list.mpr (fun v hm => DV_of_plain v (h v hm))
  | .tuple xs, h => by
    rw [Val.plain, plainL_iff] at h
    exact DV_tuple.mpr (fun v hm => DV_of_plain v (h v hm))

/-- the operand of a `LinComb` method: any secret kind, seen as a determined `LinComb` -/
theorem dlOf {x : LinComb} (h : DL W s x ∨ DB W s x) : DL W s x := h.elim id DB.dl

end

/-! ## tactics (unhygienic: they refer to `C`, `L`, `h` by name) -/

/-- normalise `DV` facts on constructors -/
macro "dv" : tactic => `(tactic| try simp only [DV_lc, DV_lcb, DV_fxp, DV_int, DV_flt, DV_none] at *)

set_option hygiene false in
/-- closes `DL W s e` for an arithmetic expression `e` over `DL`/`DB` hypotheses -/
macro "dl" : tactic => `(tactic| repeat' (first
  | assumption
  | exact DB.dl (by assumption)
  | exact DL.const C _ _ | exact DL.zero _ | exact DL.oneSafe C _
  | apply DL.subI C | apply DL.rsubI C | apply DL.addI C | apply DL.sub | apply DL.add
  | apply DL.neg | apply DL.mulI
  | exact Loc.oneDL C (by assumption)))

set_option hygiene false in
macro "kpure_arm" : tactic => `(tactic|
  (obtain ⟨rfl, rfl⟩ := pure_ok' h
   dv
   exact Loc.refl L (by first | trivial | dl)))

-- arm `do let r ← g …; pure (C r)`
set_option hygiene false in
macro "kcall_arm" t:term : tactic => `(tactic|
  (obtain ⟨r1, s1, h1, h⟩ := bind_ok.mp h
   obtain ⟨rfl, rfl⟩ := pure_ok' h
   dv
   obtain ⟨le1, f1, L1, g1⟩ := $t h1
   exact ⟨le1, f1, L1, by dv; first | exact g1 | exact DB.dl g1⟩))

-- arm `do let a ← g₁ …; let b ← g₂ …; pure (C b)`
set_option hygiene false in
macro "kcall2_arm" t1:term "," t2:term : tactic => `(tactic|
  (obtain ⟨r1, s1, h1, h⟩ := bind_ok.mp h
   obtain ⟨r2, s2, h2, h⟩ := bind_ok.mp h
   obtain ⟨rfl, rfl⟩ := pure_ok' h
   dv
   obtain ⟨le1, f1, L1, g1⟩ := $t1 h1
   obtain ⟨le2, f2, L2, g2⟩ := $t2 h2
   exact ⟨le1.trans le2, f1.trans f2, L2, by dv; first | exact g2 | exact DB.dl g2⟩))

-- arm `do let a ← g₁ …; g₂ …`
set_option hygiene false in
macro "ktail2_arm" t1:term "," t2:term : tactic => `(tactic|
  (obtain ⟨r1, s1, h1, h⟩ := bind_ok.mp h
   dv
   obtain ⟨le1, f1, L1, g1⟩ := $t1 h1
   obtain ⟨le2, f2, L2, g2⟩ := $t2 h
   exact ⟨le1.trans le2, f1.trans f2, L2, g2⟩))

-- arm `do let a ← g₁ …; let b ← g₂ …; g₃ …`
set_option hygiene false in
macro "ktail3_arm" t1:term "," t2:term "," t3:term : tactic => `(tactic|
  (obtain ⟨r1, s1, h1, h⟩ := bind_ok.mp h
   obtain ⟨r2, s2, h2, h⟩ := bind_ok.mp h
   dv
   obtain ⟨le1, f1, L1, g1⟩ := $t1 h1
   obtain ⟨le2, f2, L2, g2⟩ := $t2 h2
   obtain ⟨le3, f3, L3, g3⟩ := $t3 h
   exact ⟨(le1.trans le2).trans le3, (f1.trans f2).trans f3, L3, g3⟩))

-- arm `do let r ← g …; pure (ofFB r)`
set_option hygiene false in
macro "kofFB_arm" t:term : tactic => `(tactic|
  (obtain ⟨r1, s1, h1, h⟩ := bind_ok.mp h
   obtain ⟨rfl, rfl⟩ := pure_ok' h
   dv
   obtain ⟨le1, f1, L1, g1⟩ := $t h1
   exact ⟨le1, f1, L1, DV_ofFB g1⟩))

section
variable {W : World} [Fact W.p.Prime] {s s' : St}

/-! ## coercions -/
theorem ensurefxp_d {v : Val} {r : LinComb} (C : SCtx W) (L : Loc W s) (hv : DV W s v)
    (h : ensurefxp v s = .ok (r, s')) : s.le s' ∧ Frame s s' ∧ Loc W s' ∧ DL W s' r := by
  unfold ensurefxp at h
  rw [getRes_bind] at h
  split at h
  all_goals first
    | exact (raise_ok.mp h).elim
    | kpure_arm

theorem ensurebool_d {v : Val} {r : LinComb} (C : SCtx W) (L : Loc W s) (hv : DV W s v)
    (h : ensurebool v s = .ok (r, s')) : s.le s' ∧ Frame s s' ∧ Loc W s' ∧ DB W s' r := by
  unfold ensurebool at h
  split at h
  · obtain ⟨rfl, rfl⟩ := pure_ok' h
    dv
    exact L.refl hv
  · split at h
    · cases h
    · dv
      obtain ⟨le1, f1, L1, rfl, -, d1⟩ := mkBool_d C L hv h
      exact ⟨le1, f1, L1, d1 rfl⟩
  · exact ensureboolI_d C L h
  · exact (raise_ok.mp h).elim

theorem ensurelcI_d {c : Int} {r : LinComb} (C : SCtx W) (L : Loc W s)
    (h : ensurelcI c s = .ok (r, s')) : s.le s' ∧ Frame s s' ∧ Loc W s' ∧ DL W s' r := by
  unfold ensurelcI at h
  simp only [Except.ok.injEq, Prod.mk.injEq] at h
  obtain ⟨rfl, rfl⟩ := h
  exact L.refl ((L.oneDL C).mulI c)

theorem ensurelc_d {v : Val} {r : LinComb} (C : SCtx W) (L : Loc W s) (hv : DV W s v)
    (h : ensurelc v s = .ok (r, s')) : s.le s' ∧ Frame s s' ∧ Loc W s' ∧ DL W s' r := by
  unfold ensurelc at h
  split at h
  · kpure_arm
  · exact ensurelcI_d C L h
  · exact (raise_ok.mp h).elim

/-! ## negation, addition, subtraction -/
theorem negV_d {v r : Val} (C : SCtx W) (L : Loc W s) (hv : DV W s v)
    (h : negV v s = .ok (r, s')) : s.le s' ∧ Frame s s' ∧ Loc W s' ∧ DV W s' r := by
  unfold negV at h
  split at h
  all_goals first
    | exact (raise_ok.mp h).elim
    | kpure_arm

theorem addLV_d {x : LinComb} {o r : Val} (C : SCtx W) (L : Loc W s) (hx : DL W s x) (ho : DV W s o)
    (h : addLV x o s = .ok (r, s')) : s.le s' ∧ Frame s s' ∧ Loc W s' ∧ DV W s' r := by
  unfold addLV at h
  split at h
  all_goals try rw [getRes_bind] at h
  all_goals first
    | exact (raise_ok.mp h).elim
    | kpure_arm

theorem addXV_d {x : LinComb} {o r : Val} (C : SCtx W) (L : Loc W s) (hx : DL W s x) (ho : DV W s o)
    (h : addXV x o s = .ok (r, s')) : s.le s' ∧ Frame s s' ∧ Loc W s' ∧ DV W s' r := by
  unfold addXV at h
  rw [getRes_bind] at h
  split at h
  all_goals first
    | exact (raise_ok.mp h).elim
    | kpure_arm

theorem addV_d {a b r : Val} (C : SCtx W) (L : Loc W s) (ha : DV W s a) (hb : DV W s b)
    (h : addV a b s = .ok (r, s')) : s.le s' ∧ Frame s s' ∧ Loc W s' ∧ DV W s' r := by
  unfold addV at h
  split at h
  all_goals try split at h
  all_goals dv
  all_goals first
    | exact (raise_ok.mp h).elim
    | exact addLV_d C L (by dl) (by first | assumption | simp) h
    | exact addXV_d C L (by dl) (by first | assumption | simp) h
    | kpure_arm

theorem subV_d {a b r : Val} (C : SCtx W) (L : Loc W s) (ha : DV W s a) (hb : DV W s b)
    (h : subV a b s = .ok (r, s')) : s.le s' ∧ Frame s s' ∧ Loc W s' ∧ DV W s' r := by
  unfold subV at h
  split at h
  · kpure_arm
  · obtain ⟨nb, s1, h1, h⟩ := bind_ok.mp h
    obtain ⟨le1, f1, L1, g1⟩ := negV_d C L hb h1
    obtain ⟨le2, f2, L2, g2⟩ := addV_d C L1 (ha.mono le1) g1 h
    exact ⟨le1.trans le2, f1.trans f2, L2, g2⟩

/-! ## multiplication -/
theorem mulLV_d {x : LinComb} {o r : Val} (C : SCtx W) (L : Loc W s) (hx : DL W s x) (ho : DV W s o)
    (h : mulLV x o s = .ok (r, s')) : s.le s' ∧ Frame s s' ∧ Loc W s' ∧ DV W s' r := by
  unfold mulLV at h
  split at h
  · kpure_arm
  · kcall_arm (mulLL_d C L hx ho)
  · kcall_arm (mulLL_d C L ho.dl hx)
  · kcall_arm (mulLL_d C L ho hx)
  · exact (raise_ok.mp h).elim

/-- fixed-point `*`: the arms with a float or fixed-point right operand rescale through `//` -/
theorem mulXV_d {x : LinComb} {o r : Val} (C : SCtx W) (L : Loc W s) (hx : DL W s x) (ho : DV W s o)
    (hflt : o.isFlt = false) (hfxp : o.isFxp = false)
    (h : mulXV x o s = .ok (r, s')) : s.le s' ∧ Frame s s' ∧ Loc W s' ∧ DV W s' r := by
  unfold mulXV at h
  rw [getRes_bind] at h
  split at h
  · kpure_arm
  · simp [Val.isFlt] at hflt
  · kcall_arm (mulLL_d C L hx ho)
  · simp [Val.isFxp] at hfxp
  · kcall_arm (mulLL_d C L hx ho.dl)
  · exact (raise_ok.mp h).elim

theorem mulV_d {a b r : Val} (C : SCtx W) (L : Loc W s) (ha : DV W s a) (hb : DV W s b)
    (hex : exclBin s.p .mul a b = none)
    (h : mulV a b s = .ok (r, s')) : s.le s' ∧ Frame s s' ∧ Loc W s' ∧ DV W s' r := by
  unfold mulV at h
  simp only [exclBin] at hex
  split at h
  · dv; exact mulLV_d C L ha hb h
  · dv; exact mulLV_d C L ha.dl hb h
  · dv
    simp only [Val.isFxp, Val.isFlt, Bool.true_and, Bool.false_and, Bool.or_false, ite_eq_right_iff,
      reduceCtorEq, imp_false, Bool.or_eq_true, not_or, Bool.not_eq_true] at hex
    exact mulXV_d C L ha hb hex.2 hex.1 h
  · split at h
    · dv; exact mulLV_d C L hb DV_int h
    · dv; exact mulLV_d C L hb.dl DV_int h
    · dv; exact mulXV_d C L hb DV_int rfl rfl h
    · kpure_arm
    · exact (raise_ok.mp h).elim
  · split at h
    · exact (raise_ok.mp h).elim
    · exact (raise_ok.mp h).elim
    · simp [Val.isFxp, Val.isFlt] at hex
    · exact (raise_ok.mp h).elim
  · split at h <;> exact (raise_ok.mp h).elim

/-! ## true division -/
theorem zeroDivisor_false {q : Int} {y : LinComb} (h : zeroDivisor q (.lc y) = false) : y.value % q ≠ 0 := by
  simpa [zeroDivisor] using h

theorem truedivV_d {a b r : Val} (C : SCtx W) (L : Loc W s) (ha : DV W s a) (hb : DV W s b)
    (hex : exclBin s.p .truediv a b = none)
    (h : truedivV a b s = .ok (r, s')) : s.le s' ∧ Frame s s' ∧ Loc W s' ∧ DV W s' r := by
  unfold truedivV at h
  simp only [exclBin] at hex
  split at h
  · split at h
    · kcall_arm (truedivLI_d L ha)
    · simp only [Val.isFxp, Bool.or_self, Bool.false_eq_true, if_false, ite_eq_right_iff,
        reduceCtorEq, imp_false, Bool.not_eq_true] at hex
      have hb0 := zeroDivisor_false hex
      rw [L.hp] at hb0
      kcall_arm (truedivLL_d C L ha hb hb0)
    · simp [Val.isFxp] at hex
    · exact (raise_ok.mp h).elim
  · split at h
    · exact (raise_ok.mp h).elim
    · simp [Val.isFxp] at hex
    · exact (raise_ok.mp h).elim
  · simp [Val.isFxp] at hex
  · split at h
    · simp only [Val.isFxp, Bool.or_self, Bool.false_eq_true, if_false, ite_eq_right_iff,
        reduceCtorEq, imp_false, Bool.not_eq_true] at hex
      have hb0 := zeroDivisor_false hex
      rw [L.hp] at hb0
      kcall_arm (truedivLL_d C L (DL.const C _ _) hb hb0)
    · simp [Val.isFxp] at hex
    · exact (raise_ok.mp h).elim
    · exact (raise_ok.mp h).elim
  · split at h
    · exact (raise_ok.mp h).elim
    · simp [Val.isFxp] at hex
    · exact (raise_ok.mp h).elim
    · exact (raise_ok.mp h).elim
  · split at h <;> exact (raise_ok.mp h).elim

/-! ## power -/
/-- fixed-point power with exponent 0 or 1: no rescaling -/
theorem powXN_small_d {x r : LinComb} {n : Nat} (C : SCtx W) (L : Loc W s) (hx : DL W s x) (hn : n ≤ 1)
    (h : powXN x n s = .ok (r, s')) : s.le s' ∧ Frame s s' ∧ Loc W s' ∧ DL W s' r := by
  match n, hn with
  | 0, _ =>
    unfold powXN at h
    rw [getOne_bind, getRes_bind] at h
    obtain ⟨rfl, rfl⟩ := pure_ok' h
    exact L.refl ((L.oneDL C).mulI _)
  | 1, _ =>
    unfold powXN at h
    obtain ⟨rfl, rfl⟩ := pure_ok' h
    exact L.refl hx

theorem powV_d {a b r : Val} (C : SCtx W) (L : Loc W s) (ha : DV W s a) (hb : DV W s b)
    (hex : exclBin s.p .pow a b = none)
    (h : powV a b s = .ok (r, s')) : s.le s' ∧ Frame s s' ∧ Loc W s' ∧ DV W s' r := by
  unfold powV at h
  simp only [exclBin] at hex
  split at h
  · split at h
    · split at h
      · exact (raise_ok.mp h).elim
      · split at h
        · exact (raise_ok.mp h).elim
        · kcall_arm (powLN_d C _ L ha)
    · kcall_arm (powLL_d C L ha hb)
    · exact (raise_ok.mp h).elim
  · kcall_arm (neLI_d C L ha.dl)
  · split at h
    · rename_i n
      split at h
      · exact (raise_ok.mp h).elim
      · split at h
        · exact (raise_ok.mp h).elim
        · have hn : n ≤ 1 := by simpa [Val.isFxp, smallExp] using hex
          kcall_arm (powXN_small_d C L ha (by omega))
    · exact (raise_ok.mp h).elim
    · exact (raise_ok.mp h).elim
  · split at h
    · kcall_arm (powLL_d C L (DL.const C _ _) hb)
    · exact (raise_ok.mp h).elim
    · exact (raise_ok.mp h).elim
    · exact (raise_ok.mp h).elim
  · split at h <;> exact (raise_ok.mp h).elim

/-! ## shifts -/
theorem lshiftLV_d {x : LinComb} {b r : Val} (C : SCtx W) (L : Loc W s) (hx : DL W s x)
    (hb : DV W s b) (h : lshiftLV x b s = .ok (r, s')) : s.le s' ∧ Frame s s' ∧ Loc W s' ∧ DV W s' r := by
  unfold lshiftLV at h
  split at h
  · split at h
    · exact (raise_ok.mp h).elim
    · kcall_arm (lshiftLI_d L hx)
  · kcall2_arm (powLL_d C L (DL.const C _ _) hb), (mulLL_d C L1 (hx.mono le1) g1)
  · exact (raise_ok.mp h).elim

/-- `x >> b`: by a python int only (`>>` by a secret is `//`) -/
theorem rshiftLV_d {x : LinComb} {b r : Val} (C : SCtx W) (L : Loc W s) (hx : DL W s x)
    (hb : b.isLc = false) (h : rshiftLV x b s = .ok (r, s')) :
    s.le s' ∧ Frame s s' ∧ Loc W s' ∧ DV W s' r := by
  unfold rshiftLV at h
  split at h
  · kofFB_arm (rshiftLI_d C L hx)
  · simp [Val.isLc] at hb
  · exact (raise_ok.mp h).elim

theorem mkFxpNoScale_d {v r : Val} (C : SCtx W) (L : Loc W s) (hv : DV W s v)
    (h : mkFxpNoScale v s = .ok (r, s')) : s.le s' ∧ Frame s s' ∧ Loc W s' ∧ DV W s' r := by
  unfold mkFxpNoScale at h
  split at h
  · kpure_arm
  · exact (raise_ok.mp h).elim

theorem lshiftV_d {a b r : Val} (C : SCtx W) (L : Loc W s) (ha : DV W s a)
    (hb : DV W s b) (h : lshiftV a b s = .ok (r, s')) : s.le s' ∧ Frame s s' ∧ Loc W s' ∧ DV W s' r := by
  unfold lshiftV at h
  split at h
  · dv; exact lshiftLV_d C L ha hb h
  · ktail2_arm (lshiftLV_d C L ha hb), (mkFxpNoScale_d C L1 g1)
  · split at h <;> exact (raise_ok.mp h).elim
  · split at h
    · dv; exact lshiftLV_d C L (DL.const C _ _) (DV_lc.mpr hb) h
    · exact (raise_ok.mp h).elim
    · exact (raise_ok.mp h).elim
    · exact (raise_ok.mp h).elim
  · split at h <;> exact (raise_ok.mp h).elim

theorem rshiftV_d {a b r : Val} (C : SCtx W) (L : Loc W s) (ha : DV W s a)
    (hex : exclBin s.p .rshift a b = none)
    (h : rshiftV a b s = .ok (r, s')) : s.le s' ∧ Frame s s' ∧ Loc W s' ∧ DV W s' r := by
  unfold rshiftV at h
  have hb : b.isLc = false := by
    simp only [exclBin, ite_eq_right_iff, reduceCtorEq, imp_false, Bool.not_eq_true] at hex
    exact hex
  split at h
  · dv; exact rshiftLV_d C L ha hb h
  · ktail2_arm (rshiftLV_d C L ha hb), (mkFxpNoScale_d C L1 g1)
  · split at h <;> exact (raise_ok.mp h).elim
  · split at h
    · simp [Val.isLc] at hb
    · exact (raise_ok.mp h).elim
    · exact (raise_ok.mp h).elim
    · exact (raise_ok.mp h).elim
  · split at h <;> exact (raise_ok.mp h).elim

/-! ## bitwise / logical -/
theorem dspec_trans {s s0 s' : St} {Q : Prop} (le0 : s.le s0) (f0 : Frame s s0)
    (h : s0.le s' ∧ Frame s0 s' ∧ Loc W s' ∧ Q) : s.le s' ∧ Frame s s' ∧ Loc W s' ∧ Q :=
  ⟨le0.trans h.1, f0.trans h.2.1, h.2.2.1, h.2.2.2⟩

theorem truthy_bool {v : Val} {c : Int} (h : truthy v s = .ok (c, s')) : s = s' ∧ (c = 0 ∨ c = 1) := by
  unfold truthy at h
  split at h
  all_goals first
    | exact (raise_ok.mp h).elim
    | (obtain ⟨rfl, rfl⟩ := pure_ok' h
       refine ⟨rfl, ?_⟩
       first | exact Or.inl rfl | (split <;> simp))

/-- the three boolean connectives on two determined booleans -/
theorem bwBV_key_d {s0 : St} {op : BW} {x y : LinComb} {r : Val} (C : SCtx W) (L : Loc W s0)
    (hx : DB W s0 x) (hy : DB W s0 y)
    (h : (match op with
        | .and => do let p ← mulLL x y; let r ← mkBool p false; pure (Val.lcb r)
        | .xor => do let p ← mulLL (x.mulI 2) y; let r ← mkBool ((x.add y).sub p) false; pure (Val.lcb r)
        | .or => do let p ← mulLL x y; let r ← mkBool ((x.add y).sub p) false; pure (Val.lcb r) : M Val) s0
        = .ok (r, s')) : s0.le s' ∧ Frame s0 s' ∧ Loc W s' ∧ DV W s' r := by
  split at h
  · obtain ⟨pr, s1, h1, h⟩ := bind_ok.mp h
    obtain ⟨r2, s2, h2, h⟩ := bind_ok.mp h
    obtain ⟨rfl, rfl⟩ := pure_ok' h
    obtain ⟨le1, f1, L1, d1, e1⟩ := mulLL_d' C L hx.dl hy.dl h1
    obtain ⟨rfl, rfl⟩ := mkBool_false_ok h2
    refine ⟨le1, f1, L1, DV_lcb.mpr ⟨d1.1, fun hle => ⟨d1.2 hle, ?_⟩⟩⟩
    unfold BoolW
    rw [e1 hle]
    exact bool_and (hx.2 (le1.trans hle)).2 (hy.2 (le1.trans hle)).2
  · obtain ⟨pr, s1, h1, h⟩ := bind_ok.mp h
    obtain ⟨r2, s2, h2, h⟩ := bind_ok.mp h
    obtain ⟨rfl, rfl⟩ := pure_ok' h
    obtain ⟨le1, f1, L1, d1, e1⟩ := mulLL_d' C L (hx.dl.mulI 2) hy.dl h1
    have dr : DL W s1 ((x.add y).sub pr) := ((hx.dl.add hy.dl).mono le1).sub d1
    obtain ⟨rfl, rfl⟩ := mkBool_false_ok h2
    refine ⟨le1, f1, L1, DV_lcb.mpr ⟨dr.1, fun hle => ⟨dr.2 hle, ?_⟩⟩⟩
    unfold BoolW
    rw [ev_sub (LinComb.WF_add hx.1.1.1 hy.1.1.1) d1.1.1.1, ev_add hx.1.1.1 hy.1.1.1, e1 hle, ev_mulI]
    have := bool_xor (hx.2 (le1.trans hle)).2 (hy.2 (le1.trans hle)).2
    push_cast
    simpa [mul_assoc] using this
  · obtain ⟨pr, s1, h1, h⟩ := bind_ok.mp h
    obtain ⟨r2, s2, h2, h⟩ := bind_ok.mp h
    obtain ⟨rfl, rfl⟩ := pure_ok' h
    obtain ⟨le1, f1, L1, d1, e1⟩ := mulLL_d' C L hx.dl hy.dl h1
    have dr : DL W s1 ((x.add y).sub pr) := ((hx.dl.add hy.dl).mono le1).sub d1
    obtain ⟨rfl, rfl⟩ := mkBool_false_ok h2
    refine ⟨le1, f1, L1, DV_lcb.mpr ⟨dr.1, fun hle => ⟨dr.2 hle, ?_⟩⟩⟩
    unfold BoolW
    rw [ev_sub (LinComb.WF_add hx.1.1.1 hy.1.1.1) d1.1.1.1, ev_add hx.1.1.1 hy.1.1.1, e1 hle]
    exact bool_or (hx.2 (le1.trans hle)).2 (hy.2 (le1.trans hle)).2

/-- a boolean combined with a public truth value -/
theorem bwBV_const_d {op : BW} {x : LinComb} {c : Int} {r : Val} (C : SCtx W) (L : Loc W s)
    (hx : DB W s x) (hc : c = 0 ∨ c = 1)
    (h : (match op with
        | .and => do let r ← mkBool (x.mulI c) false; pure (Val.lcb r)
        | .xor => do let r ← mkBool ((x.addI c).sub ((x.mulI 2).mulI c)) false; pure (Val.lcb r)
        | .or => do let r ← mkBool ((x.addI c).sub (x.mulI c)) false; pure (Val.lcb r) : M Val) s
        = .ok (r, s')) : s.le s' ∧ Frame s s' ∧ Loc W s' ∧ DV W s' r := by
  have hcz : ((c : Int) : ZMod W.p) = 0 ∨ ((c : Int) : ZMod W.p) = 1 := by
    rcases hc with rfl | rfl <;> simp
  have hxw := hx.1.1.1
  split at h
  · obtain ⟨r2, s2, h2, h⟩ := bind_ok.mp h
    obtain ⟨rfl, rfl⟩ := pure_ok' h
    have dr : DL W s (x.mulI c) := hx.dl.mulI c
    obtain ⟨rfl, rfl⟩ := mkBool_false_ok h2
    refine L.refl (DV_lcb.mpr ⟨dr.1, fun hle => ⟨dr.2 hle, ?_⟩⟩)
    unfold BoolW
    rw [ev_mulI]
    exact bool_and hcz (hx.2 hle).2
  · obtain ⟨r2, s2, h2, h⟩ := bind_ok.mp h
    obtain ⟨rfl, rfl⟩ := pure_ok' h
    have dr : DL W s ((x.addI c).sub ((x.mulI 2).mulI c)) :=
      (DL.addI C c hx.dl).sub ((hx.dl.mulI 2).mulI c)
    obtain ⟨rfl, rfl⟩ := mkBool_false_ok h2
    refine L.refl (DV_lcb.mpr ⟨dr.1, fun hle => ⟨dr.2 hle, ?_⟩⟩)
    unfold BoolW
    rw [ev_sub (LinComb.WF_addI c hxw) (LinComb.WF_mulI c (LinComb.WF_mulI 2 hxw)),
      ev_addI C.one' c hxw, ev_mulI, ev_mulI]
    have := bool_xor (hx.2 hle).2 hcz
    push_cast
    rcases this with e | e
    · left; rw [← e]; ring
    · right; rw [← e]; ring
  · obtain ⟨r2, s2, h2, h⟩ := bind_ok.mp h
    obtain ⟨rfl, rfl⟩ := pure_ok' h
    have dr : DL W s ((x.addI c).sub (x.mulI c)) := (DL.addI C c hx.dl).sub (hx.dl.mulI c)
    obtain ⟨rfl, rfl⟩ := mkBool_false_ok h2
    refine L.refl (DV_lcb.mpr ⟨dr.1, fun hle => ⟨dr.2 hle, ?_⟩⟩)
    unfold BoolW
    rw [ev_sub (LinComb.WF_addI c hxw) (LinComb.WF_mulI c hxw), ev_addI C.one' c hxw, ev_mulI]
    have := bool_or (hx.2 hle).2 hcz
    rcases this with e | e
    · left; rw [← e]; ring
    · right; rw [← e]; ring

theorem bwBV_d {op : BW} {x : LinComb} {o r : Val} (C : SCtx W) (L : Loc W s) (hx : DB W s x)
    (ho : DV W s o) (h : bwBV op x o s = .ok (r, s')) : s.le s' ∧ Frame s s' ∧ Loc W s' ∧ DV W s' r := by
  unfold bwBV at h
  split at h
  · obtain ⟨y, s0, h0, h⟩ := bind_ok.mp h
    obtain ⟨le0, f0, L0, g0⟩ := ensurebool_d C L ho h0
    exact dspec_trans le0 f0 (bwBV_key_d C L0 (hx.mono le0) g0 h)
  · obtain ⟨y, s0, h0, h⟩ := bind_ok.mp h
    obtain ⟨le0, f0, L0, g0⟩ := ensurebool_d C L ho h0
    exact dspec_trans le0 f0 (bwBV_key_d C L0 (hx.mono le0) g0 h)
  · obtain ⟨c, s0, h0, h⟩ := bind_ok.mp h
    obtain ⟨rfl, hc⟩ := truthy_bool h0
    exact bwBV_const_d C L hx hc h

theorem bwLV_d {op : BW} {x : LinComb} {o r : Val} (C : SCtx W) (L : Loc W s) (hx : DL W s x)
    (ho : DV W s o) (hint : o.isInt = false)
    (h : bwLV op x o s = .ok (r, s')) : s.le s' ∧ Frame s s' ∧ Loc W s' ∧ DV W s' r := by
  unfold bwLV at h
  split at h
  · simp [Val.isInt] at hint
  · dv
    split at h
    · kofFB_arm (andLL_d C L hx ho)
    · kofFB_arm (xorLL_d C L hx ho)
    · kofFB_arm (orLL_d C L hx ho)
  · dv
    split at h
    · exact bwBV_d C L ho (DV_lc.mpr hx) h
    · exact (raise_ok.mp h).elim
  · exact (raise_ok.mp h).elim

theorem bwV_d {op : BW} {a b r : Val} (C : SCtx W) (L : Loc W s) (ha : DV W s a) (hb : DV W s b)
    (hex : (a.isLc && b.isInt || a.isInt && b.isLc) = false)
    (h : bwV op a b s = .ok (r, s')) : s.le s' ∧ Frame s s' ∧ Loc W s' ∧ DV W s' r := by
  unfold bwV at h
  split at h
  · dv; exact bwLV_d C L ha hb (by simpa [Val.isLc, Val.isInt] using hex) h
  · dv; exact bwBV_d C L ha hb h
  · split at h
    · exact (raise_ok.mp h).elim
    · split at h
      · exact bwBV_d C L (DV_lcb.mp hb) ha h
      · exact (raise_ok.mp h).elim
    · exact (raise_ok.mp h).elim
  · split at h
    · simp [Val.isLc, Val.isInt] at hex
    · split at h
      · exact bwBV_d C L (DV_lcb.mp hb) DV_int h
      · exact (raise_ok.mp h).elim
    · exact (raise_ok.mp h).elim
    · exact (raise_ok.mp h).elim
  · split at h
    · exact (raise_ok.mp h).elim
    · split at h
      · exact bwBV_d C L (DV_lcb.mp hb) ha h
      · exact (raise_ok.mp h).elim
    · exact (raise_ok.mp h).elim
    · exact (raise_ok.mp h).elim

/-! ## comparisons -/
theorem checkPositiveV_d {v r : Val} (C : SCtx W) (L : Loc W s) (hv : DV W s v)
    (h : checkPositiveV v s = .ok (r, s')) : s.le s' ∧ Frame s s' ∧ Loc W s' ∧ DV W s' r := by
  unfold checkPositiveV at h
  split at h
  · kcall_arm (checkPositive_d C L (cpNone L) hv)
  · kcall_arm (checkPositive_d C L (cpNone L) hv)
  · kcall_arm (checkPositive_d C L (cpNone L) hv.dl)
  · exact (raise_ok.mp h).elim

theorem checkZeroV_d {v r : Val} (C : SCtx W) (L : Loc W s) (hv : DV W s v)
    (h : checkZeroV v s = .ok (r, s')) : s.le s' ∧ Frame s s' ∧ Loc W s' ∧ DV W s' r := by
  unfold checkZeroV at h
  split at h
  · kcall_arm (checkZero_d C L hv)
  · kcall_arm (checkZero_d C L hv)
  · kcall_arm (checkZero_d C L hv.dl)
  · exact (raise_ok.mp h).elim

theorem checkNonzeroV_d {v r : Val} (C : SCtx W) (L : Loc W s) (hv : DV W s v)
    (h : checkNonzeroV v s = .ok (r, s')) : s.le s' ∧ Frame s s' ∧ Loc W s' ∧ DV W s' r := by
  unfold checkNonzeroV at h
  split at h
  · kcall_arm (checkNonzero_d C L hv)
  · kcall_arm (checkNonzero_d C L hv)
  · exact (raise_ok.mp h).elim

theorem cmpLV_d {op : Cmp} {x : LinComb} {o r : Val} (C : SCtx W) (L : Loc W s)
    (hx : DL W s x) (ho : DV W s o) (h : cmpLV op x o s = .ok (r, s')) :
    s.le s' ∧ Frame s s' ∧ Loc W s' ∧ DV W s' r := by
  unfold cmpLV at h
  split at h
  · ktail3_arm (subV_d C L ho (DV_lc.mpr hx)), (subV_d C L1 g1 DV_int), (checkPositiveV_d C L2 g2)
  · ktail2_arm (subV_d C L ho (DV_lc.mpr hx)), (checkPositiveV_d C L1 g1)
  · ktail2_arm (subV_d C L (DV_lc.mpr hx) ho), (checkZeroV_d C L1 g1)
  · ktail2_arm (subV_d C L (DV_lc.mpr hx) ho), (checkNonzeroV_d C L1 g1)
  · ktail3_arm (subV_d C L (DV_lc.mpr hx) ho), (subV_d C L1 g1 DV_int), (checkPositiveV_d C L2 g2)
  · ktail2_arm (subV_d C L (DV_lc.mpr hx) ho), (checkPositiveV_d C L1 g1)

theorem cmpLL_d {op : Cmp} {x y r : LinComb} (C : SCtx W) (L : Loc W s)
    (hx : DL W s x) (hy : DL W s y) (h : cmpLL op x y s = .ok (r, s')) :
    s.le s' ∧ Frame s s' ∧ Loc W s' ∧ DB W s' r := by
  unfold cmpLL at h
  split at h
  · exact ltLL_d C L hx hy h
  · exact leLL_d C L hx hy h
  · exact eqLL_d C L hx hy h
  · exact neLL_d C L hx hy h
  · exact gtLL_d C L hx hy h
  · exact geLL_d C L hx hy h

theorem cmpV_d {op : Cmp} {a b r : Val} (C : SCtx W) (L : Loc W s)
    (ha : DV W s a) (hb : DV W s b) (h : cmpV op a b s = .ok (r, s')) :
    s.le s' ∧ Frame s s' ∧ Loc W s' ∧ DV W s' r := by
  unfold cmpV at h
  split at h
  · split at h
    · split at h
      · kcall2_arm (ensurefxp_d C L (DV_lc.mpr ha)), (cmpLL_d C L1 (hb.mono le1) g1)
      · exact cmpLV_d C L (DV_lc.mp ha) hb h
    · dv; exact cmpLV_d C L ha hb h
  · kcall2_arm (ensurebool_d C L hb), (cmpLL_d C L1 (ha.dl.mono le1) g1.dl)
  · kcall2_arm (ensurefxp_d C L hb), (cmpLL_d C L1 (ha.mono le1) g1)
  all_goals
    split at h
    · exact cmpLV_d C L (DV_lc.mp hb) ha h
    · kcall2_arm (ensurebool_d C L (by first | assumption | simp)), (cmpLL_d C L1 (hb.dl.mono le1) g1.dl)
    · kcall2_arm (ensurefxp_d C L (by first | assumption | simp)), (cmpLL_d C L1 (hb.mono le1) g1)
    · exact (raise_ok.mp h).elim

/-! ## `if_then_else` -/
theorem bool_sel_z {c t f : ZMod W.p} (hc : c = 0 ∨ c = 1) (ht : t = 0 ∨ t = 1) (hf : f = 0 ∨ f = 1) :
    f + c * (t + -f) = 0 ∨ f + c * (t + -f) = 1 := by
  rcases hc with rfl | rfl <;> rcases ht with rfl | rfl <;> rcases hf with rfl | rfl <;> simp

/-- a selection between two determined booleans by a determined boolean is a determined boolean:
on every satisfying assignment the product wire is `cond·(truev − falsev)`, so the new `LinCombBool`
(built without a constraint of its own) is 0 or 1 there -/
theorem iteBB_d {cond x y : LinComb} {r : Val} (C : SCtx W) (L : Loc W s) (hc : DB W s cond)
    (hx : DB W s x) (hy : DB W s y) (h : iteBB cond x y s = .ok (r, s')) :
    s.le s' ∧ Frame s s' ∧ Loc W s' ∧ DV W s' r := by
  obtain ⟨pr, s1, h1, h2, rfl, -⟩ := iteBB_ok h
  obtain ⟨le1, f1, L1, d1, e1⟩ := mulLL_d' C L hc.dl (hx.dl.add hy.dl.neg) h1
  obtain ⟨-, rfl⟩ := mkBool_false_ok h2
  have dr : DL W s' (y.add pr) := (hy.dl.mono le1).add d1
  refine ⟨le1, f1, L1, DV_lcb.mpr ⟨dr.1, fun hle => ⟨dr.2 hle, ?_⟩⟩⟩
  unfold BoolW
  rw [ev_add hy.1.1.1 d1.1.1.1, e1 hle, ev_add hx.1.1.1 hy.1.neg.1.1, ev_neg]
  exact bool_sel_z (hc.2 (le1.trans hle)).2 (hx.2 (le1.trans hle)).2 (hy.2 (le1.trans hle)).2

theorem iteAux_d {cond : LinComb} (C : SCtx W) : ∀ (fuel : Nat) {t f r : Val} {s s' : St}, Loc W s →
    DB W s cond → DV W s t → DV W s f → iteAux cond fuel t f s = .ok (r, s') →
    s.le s' ∧ Frame s s' ∧ Loc W s' ∧ DV W s' r
  | 0, t, f, r, s, s', _, _, _, _, h => by
    unfold iteAux at h
    exact (raise_ok.mp h).elim
  | fuel+1, t, f, r, s, s', L, hc, ht, hf, h => by
    by_cases hbb : bothLcb t f = true
    · cases t <;> cases f <;> simp only [bothLcb, reduceCtorEq] at hbb
      rw [iteAux_bb] at h
      exact iteBB_d C L hc (DV_lcb.mp ht) (DV_lcb.mp hf) h
    unfold iteAux at h
    have hz : ∀ (ts fs : List Val) (s0 s0' : St) (rs : List Val), Loc W s0 → DB W s0 cond →
        (∀ t ∈ ts, DV W s0 t) → (∀ g ∈ fs, DV W s0 g) →
        zipWithM' (iteAux cond fuel) ts fs s0 = .ok (rs, s0') →
        s0.le s0' ∧ Frame s0 s0' ∧ Loc W s0' ∧ ∀ r ∈ rs, DV W s0' r := by
      intro ts
      induction ts with
      | nil =>
        intro fs s0 s0' rs L _ _ _ h
        unfold zipWithM' at h
        obtain ⟨rfl, rfl⟩ := pure_ok' h
        exact L.refl (by simp)
      | cons t ts ih =>
        intro fs s0 s0' rs L hc hts hgs h
        cases fs with
        | nil =>
          unfold zipWithM' at h
          obtain ⟨rfl, rfl⟩ := pure_ok' h
          exact L.refl (by simp)
        | cons g gs =>
          unfold zipWithM' at h
          obtain ⟨r1, s1, h1, h⟩ := bind_ok.mp h
          obtain ⟨r2, s2, h2, h⟩ := bind_ok.mp h
          obtain ⟨rfl, rfl⟩ := pure_ok' h
          obtain ⟨le1, f1, L1, g1⟩ := iteAux_d C fuel L hc (hts t (List.mem_cons_self ..))
            (hgs g (List.mem_cons_self ..)) h1
          obtain ⟨le2, f2, L2, g2⟩ := ih gs s1 _ r2 L1 (hc.mono le1)
            (fun t' ht' => (hts t' (List.mem_cons_of_mem _ ht')).mono le1)
            (fun g' hg' => (hgs g' (List.mem_cons_of_mem _ hg')).mono le1) h2
          refine ⟨le1.trans le2, f1.trans f2, L2, ?_⟩
          intro r hr
          rcases List.mem_cons.mp hr with rfl | hr
          · exact g1.mono le2
          · exact g2 r hr
    split at h
    · obtain ⟨rfl, rfl⟩ := pure_ok' h
      exact L.refl ht
    · split at h
      · split at h
        · obtain ⟨_, h⟩ := ite_else_raise_ok h          -- `len(truev) == len(falsev)`
          obtain ⟨rs, s1, h1, h⟩ := bind_ok.mp h
          obtain ⟨rfl, rfl⟩ := pure_ok' h
          obtain ⟨le1, f1, L1, g1⟩ := hz _ _ _ _ _ L hc (DV_list.mp ht) (DV_list.mp hf) h1
          exact ⟨le1, f1, L1, DV_list.mpr g1⟩
        · obtain ⟨_, h⟩ := ite_else_raise_ok h
          obtain ⟨rs, s1, h1, h⟩ := bind_ok.mp h
          obtain ⟨rfl, rfl⟩ := pure_ok' h
          obtain ⟨le1, f1, L1, g1⟩ := hz _ _ _ _ _ L hc (DV_list.mp ht) (DV_tuple.mp hf) h1
          exact ⟨le1, f1, L1, DV_list.mpr g1⟩
        · exact (raise_ok.mp h).elim
      · obtain ⟨f', s1, h1, h⟩ := bind_ok.mp h
        obtain ⟨d, s2, h2, h⟩ := bind_ok.mp h
        obtain ⟨prod, s3, h3, h⟩ := bind_ok.mp h
        obtain ⟨ret, s4, h4, h⟩ := bind_ok.mp h
        have hf' : (s.le s1 ∧ Frame s s1 ∧ Loc W s1 ∧ DV W s1 f') ∧ bothLcb t f' = false := by
          split at h1
          · obtain ⟨y, s0, h0, h1⟩ := bind_ok.mp h1
            obtain ⟨rfl, rfl⟩ := pure_ok' h1
            obtain ⟨le0, f0, L0, g0⟩ := ensurefxp_d C L hf h0
            exact ⟨⟨le0, f0, L0, DV_fxp.mpr g0⟩, rfl⟩
          · obtain ⟨rfl, rfl⟩ := pure_ok' h1
            exact ⟨L.refl hf, by simpa using hbb⟩
        obtain ⟨⟨le1, f1, L1, g1⟩, hnb⟩ := hf'
        obtain ⟨le2, f2, L2, g2⟩ := subV_d C L1 (ht.mono le1) g1 h2
        obtain ⟨le3, f3, L3, g3⟩ := mulLV_d C L2 (hc.mono (le1.trans le2)).dl g2 h3
        obtain ⟨le4, f4, L4, g4⟩ := addV_d C L3 (g1.mono (le2.trans le3)) g3 h4
        -- not two booleans: the value is returned as it is
        rw [iteTag_other _ hnb] at h
        obtain ⟨rfl, rfl⟩ := pure_ok' h
        exact ⟨((le1.trans le2).trans le3).trans le4, ((f1.trans f2).trans f3).trans f4, L4, g4⟩

theorem ifThenElse_d {cond t f r : Val} {same : Bool} (C : SCtx W) (L : Loc W s) (hc : DV W s cond)
    (ht : DV W s t) (hf : DV W s f) (h : ifThenElse cond same t f s = .ok (r, s')) :
    s.le s' ∧ Frame s s' ∧ Loc W s' ∧ DV W s' r := by
  unfold ifThenElse at h
  split at h
  · obtain ⟨rfl, rfl⟩ := pure_ok' h
    exact L.refl ht
  · split at h
    · split at h
      · exact (raise_ok.mp h).elim
      · obtain ⟨rfl, rfl⟩ := pure_ok' h
        refine L.refl ?_
        split <;> assumption
    · exact iteAux_d C _ L (DV_lcb.mp hc) ht hf h
    · exact (raise_ok.mp h).elim

/-! ## unary operators -/
theorem unV_d {op : Un} {a r : Val} (C : SCtx W) (L : Loc W s) (ha : DV W s a)
    (h : unV op a s = .ok (r, s')) : s.le s' ∧ Frame s s' ∧ Loc W s' ∧ DV W s' r := by
  unfold unV at h
  split at h
  · exact negV_d C L ha h
  · obtain ⟨rfl, rfl⟩ := pure_ok' h; exact L.refl ha
  · obtain ⟨rfl, rfl⟩ := pure_ok' h; exact L.refl ha
  · obtain ⟨rfl, rfl⟩ := pure_ok' h; exact L.refl ha
  · kcall_arm (absL_d C L ha)
  · kcall_arm (absL_d C L ha.dl)
  · obtain ⟨z, s1, h1, h⟩ := bind_ok.mp h
    obtain ⟨c, s2, h2, h⟩ := bind_ok.mp h
    obtain ⟨prod, s3, h3, h⟩ := bind_ok.mp h
    obtain ⟨rfl, rfl⟩ := pure_ok' h
    dv
    obtain ⟨le1, f1, L1, g1⟩ := ensurefxp_d C L DV_int h1
    have ha1 := ha.mono le1
    obtain ⟨le2, f2, L2, g2⟩ := geLL_d C L1 ha1 g1 h2
    have ha2 := ha1.mono le2
    obtain ⟨le3, f3, L3, g3⟩ := mulLL_d C L2 (ha2.sub ha2.neg) g2.dl h3
    exact ⟨(le1.trans le2).trans le3, (f1.trans f2).trans f3, L3, (ha2.mono le3).neg.add g3⟩
  · kofFB_arm (invertL_d C L ha)
  · kcall_arm (boolNot_d C L ha)
  · exact (raise_ok.mp h).elim
  · exact (raise_ok.mp h).elim

/-! ## constructors -/
/-- the two assignments agree on the wire a constructor allocates (an input wire) -/
def InputAgr (W : World) (k : Wire) : Prop :=
  ((W.w' k : Int) : ZMod W.p) = ((W.sf.assign k : Int) : ZMod W.p)

theorem mkVal_d {k : Kind} {v r : Val} (C : SCtx W) (L : Loc W s)
    (hin : ∀ wr, mkWire s k = some wr → InputAgr W wr)
    (h : mkVal k v s = .ok (r, s')) : s.le s' ∧ Frame s s' ∧ Loc W s' ∧ DV W s' r := by
  unfold mkVal at h
  split at h
  · kcall_arm (privVal_d L (hin := hin _ rfl))
  · kcall_arm (pubVal_d L (hin := hin _ rfl))
  · kpure_arm
  · exact (raise_ok.mp h).elim
  · exact (raise_ok.mp h).elim
  · exact (raise_ok.mp h).elim
  · kcall_arm (privValBool_d C L (hin := hin _ rfl))
  · kcall_arm (pubValBool_d C L (hin := hin _ rfl))
  · exact (raise_ok.mp h).elim
  · exact (raise_ok.mp h).elim
  · rw [getRes_bind] at h; kcall_arm (privVal_d L (hin := hin _ rfl))
  · rw [getRes_bind] at h; kcall_arm (privVal_d L (hin := hin _ rfl))
  · rw [getRes_bind] at h; kcall_arm (pubVal_d L (hin := hin _ rfl))
  · rw [getRes_bind] at h; kcall_arm (pubVal_d L (hin := hin _ rfl))
  · exact (raise_ok.mp h).elim
  · exact (raise_ok.mp h).elim

theorem wrapBool_d {v r : Val} (C : SCtx W) (L : Loc W s) (hv : DV W s v)
    (h : wrapBool v s = .ok (r, s')) : s.le s' ∧ Frame s s' ∧ Loc W s' ∧ DV W s' r := by
  unfold wrapBool at h
  split at h
  · obtain ⟨r1, s1, h1, h⟩ := bind_ok.mp h
    obtain ⟨rfl, rfl⟩ := pure_ok' h
    dv
    obtain ⟨le1, f1, L1, rfl, -, d1⟩ := mkBool_d C L hv h1
    exact ⟨le1, f1, L1, d1 rfl⟩
  · exact (raise_ok.mp h).elim

theorem wrapFxp_d {v r : Val} (C : SCtx W) (L : Loc W s) (hv : DV W s v)
    (h : wrapFxp v s = .ok (r, s')) : s.le s' ∧ Frame s s' ∧ Loc W s' ∧ DV W s' r := by
  unfold wrapFxp at h
  split at h
  · rw [getRes_bind] at h; kpure_arm
  · exact (raise_ok.mp h).elim

/-! ## method calls -/
theorem argNat?_width {args : List Val} {n : Option Nat} (h : argNat? args s = .ok (n, s')) :
    s = s' ∧ n = widthArg args := by
  unfold argNat? at h
  split at h
  · obtain ⟨rfl, rfl⟩ := pure_ok' h; exact ⟨rfl, rfl⟩
  · split at h
    · exact (raise_ok.mp h).elim
    · obtain ⟨rfl, rfl⟩ := pure_ok' h; exact ⟨rfl, rfl⟩
  · obtain ⟨rfl, rfl⟩ := pure_ok' h; exact ⟨rfl, rfl⟩
  · exact (raise_ok.mp h).elim

/-- the size condition for an explicit or default width, from the exclusion table -/
theorem width_ok {m : Meth} {args : List Val} (L : Loc W s) (hm : m = .toBits ∨ m = .checkPositive)
    (hex : exclCall s.p m args = none) : 2 ^ ((widthArg args).getD s.bitlength + 1) ≤ W.p := by
  cases hw : widthArg args with
  | none => exact L.bl
  | some n =>
    have : (2 : Int) ^ (n + 1) ≤ s.p := by
      rcases hm with rfl | rfl <;>
      · simp only [exclCall, hw, ite_eq_left_iff, reduceCtorEq, imp_false, not_not] at hex
        exact hex
    rw [L.hp] at this
    simp only [Option.getD_some]
    exact_mod_cast this

-- arm `do g …; pure .none` for a gadget without a result: only the invariant-level specification
set_option hygiene false in
macro "kunit_arm" t:term : tactic => `(tactic|
  (obtain ⟨r1, s1, h1, h⟩ := bind_ok.mp h
   obtain ⟨rfl, rfl⟩ := pure_ok' h
   obtain ⟨le1, f1, inv1⟩ := $t h1
   exact L.ret ⟨le1, f1, inv1, by simp⟩))

-- arm `do let y ← coerce o; assertCmp m x y; pure .none`
set_option hygiene false in
macro "kcmp_arm" t:term : tactic => `(tactic|
  (split at h
   · obtain ⟨r1, s1, h1, h⟩ := bind_ok.mp h
     obtain ⟨r2, s2, h2, h⟩ := bind_ok.mp h
     obtain ⟨rfl, rfl⟩ := pure_ok' h
     obtain ⟨le1, f1, L1, g1⟩ := $t (hargs _ (by simp)) h1
     obtain ⟨le2, f2, inv2⟩ := assertCmp_spec L1.inv L1.primeP (hx.1.mono le1) g1.1 h2
     exact ⟨le1.trans le2, f1.trans f2, L1.next le2 f2 inv2, DV_none⟩
   · exact (raise_ok.mp h).elim))

-- arm `do let l ← coerce lo; let h ← coerce hi; assertRange x l h; pure .none`
set_option hygiene false in
macro "krange_arm" t:term : tactic => `(tactic|
  (split at h
   · obtain ⟨r1, s1, h1, h⟩ := bind_ok.mp h
     obtain ⟨r2, s2, h2, h⟩ := bind_ok.mp h
     obtain ⟨r3, s3, h3, h⟩ := bind_ok.mp h
     obtain ⟨rfl, rfl⟩ := pure_ok' h
     obtain ⟨le1, f1, L1, g1⟩ := $t C L (hargs _ (by simp)) h1
     obtain ⟨le2, f2, L2, g2⟩ := $t C L1 ((hargs _ (by simp)).mono le1) h2
     obtain ⟨le3, f3, inv3⟩ := assertRange_spec L2.inv (hx.1.mono (le1.trans le2)) (g1.1.mono le2) g2.1 h3
     exact ⟨(le1.trans le2).trans le3, (f1.trans f2).trans f3, L2.next le3 f3 inv3, DV_none⟩
   · exact (raise_ok.mp h).elim))

-- arm `self.if_else(t, f)`
set_option hygiene false in
macro "kifelse_arm" : tactic => `(tactic|
  (split at h
   · obtain ⟨r1, s1, h1, h⟩ := bind_ok.mp h
     obtain ⟨r2, s2, h2, h⟩ := bind_ok.mp h
     obtain ⟨le1, f1, L1, g1⟩ := subV_d C L (hargs _ (by simp)) (hargs _ (by simp)) h1
     obtain ⟨le2, f2, L2, g2⟩ := mulLV_d C L1 (hx.mono le1) g1 h2
     obtain ⟨le3, f3, L3, g3⟩ := addV_d C L2 ((hargs _ (by simp)).mono (le1.trans le2)) g2 h
     exact ⟨(le1.trans le2).trans le3, (f1.trans f2).trans f3, L3, g3⟩
   · exact (raise_ok.mp h).elim))

theorem callMeth_lc_d {m : Meth} {x : LinComb} {args : List Val} {r : Val} (C : SCtx W) (L : Loc W s)
    (hx : DL W s x) (hargs : ∀ v ∈ args, DV W s v) (hex : exclCall s.p m args = none)
    (h : callMeth m (.lc x) args s = .ok (r, s')) : s.le s' ∧ Frame s s' ∧ Loc W s' ∧ DV W s' r := by
  unfold callMeth at h
  simp only at h
  split at h
  · kunit_arm (valL_spec L.inv hx.1)
  · obtain ⟨n, s0, h0, h⟩ := bind_ok.mp h
    obtain ⟨rfl, rfl⟩ := argNat?_width h0
    obtain ⟨bs, s1, h1, h⟩ := bind_ok.mp h
    obtain ⟨rfl, rfl⟩ := pure_ok' h
    have hw := width_ok L (Or.inl rfl) hex
    obtain ⟨le1, f1, L1, g1⟩ := toBits_d C L (by rw [pow_succ] at hw; omega) hx h1
    refine ⟨le1, f1, L1, DV_list.mpr ?_⟩
    intro v hv
    obtain ⟨b, hb, rfl⟩ := List.mem_map.mp hv
    exact DV_lcb.mpr (g1 b hb)
  · obtain ⟨n, s0, h0, h⟩ := bind_ok.mp h
    obtain ⟨rfl, rfl⟩ := argNat?_width h0
    kcall_arm (checkPositive_d C L (width_ok L (Or.inr rfl) hex) hx)
  · obtain ⟨n, s0, h0, h⟩ := bind_ok.mp h
    obtain ⟨rfl, -⟩ := argNat?_width h0
    kunit_arm (assertPositive_spec L.inv hx.1)
  · kcall_arm (checkZero_d C L hx)
  · kcall_arm (checkNonzero_d C L hx)
  · kunit_arm (assertZero_spec L.inv hx.1)
  · kunit_arm (assertNonzero_spec L.inv L.primeP hx.1)
  · kcmp_arm (ensurelc_d C L)
  · kcmp_arm (ensurelc_d C L)
  · kcmp_arm (ensurelc_d C L)
  · kcmp_arm (ensurelc_d C L)
  · kcmp_arm (ensurelc_d C L)
  · kcmp_arm (ensurelc_d C L)
  · krange_arm ensurelc_d
  · kifelse_arm
  · exact (raise_ok.mp h).elim

theorem callMeth_lcb_d {m : Meth} {x : LinComb} {args : List Val} {r : Val} (C : SCtx W) (L : Loc W s)
    (hxb : DB W s x) (hargs : ∀ v ∈ args, DV W s v)
    (h : callMeth m (.lcb x) args s = .ok (r, s')) : s.le s' ∧ Frame s s' ∧ Loc W s' ∧ DV W s' r := by
  have hx := hxb.dl
  unfold callMeth at h
  simp only at h
  split at h
  · kunit_arm (valL_spec L.inv hx.1)
  · split at h
    · kcall_arm (checkPositive_d C L (cpNone L) hx)
    · exact (raise_ok.mp h).elim
  · split at h
    · kunit_arm (assertPositive_spec L.inv hx.1)
    · exact (raise_ok.mp h).elim
  · kcall_arm (checkZero_d C L hx)
  · kunit_arm (assertZero_spec L.inv hx.1)
  · kunit_arm (assertNonzero_spec L.inv L.primeP hx.1)
  · kcmp_arm (ensurebool_d C L)
  · kcmp_arm (ensurebool_d C L)
  · kcmp_arm (ensurebool_d C L)
  · kcmp_arm (ensurebool_d C L)
  · kcmp_arm (ensurebool_d C L)
  · kcmp_arm (ensurebool_d C L)
  · kifelse_arm
  all_goals exact (raise_ok.mp h).elim

theorem callMeth_fxp_d {m : Meth} {x : LinComb} {args : List Val} {r : Val} (C : SCtx W) (L : Loc W s)
    (hx : DL W s x) (hargs : ∀ v ∈ args, DV W s v)
    (h : callMeth m (.fxp x) args s = .ok (r, s')) : s.le s' ∧ Frame s s' ∧ Loc W s' ∧ DV W s' r := by
  unfold callMeth at h
  simp only at h
  split at h
  · obtain ⟨v, s1, h1, h⟩ := bind_ok.mp h
    rw [getRes_bind] at h
    obtain ⟨le1, f1, inv1⟩ := valL_spec L.inv hx.1 h1
    split at h
    · exact (raise_ok.mp h).elim
    · obtain ⟨rfl, rfl⟩ := pure_ok' h
      exact L.ret ⟨le1, f1, inv1, DV_flt⟩
  · split at h
    · kcall_arm (checkPositive_d C L (cpNone L) hx)
    · exact (raise_ok.mp h).elim
  · split at h
    · kunit_arm (assertPositive_spec L.inv hx.1)
    · exact (raise_ok.mp h).elim
  · kcall_arm (checkZero_d C L hx)
  · kcall_arm (checkNonzero_d C L hx)
  · kunit_arm (assertZero_spec L.inv hx.1)
  · kunit_arm (assertNonzero_spec L.inv L.primeP hx.1)
  · kcmp_arm (ensurefxp_d C L)
  · kcmp_arm (ensurefxp_d C L)
  · kcmp_arm (ensurefxp_d C L)
  · kcmp_arm (ensurefxp_d C L)
  · kcmp_arm (ensurefxp_d C L)
  · kcmp_arm (ensurefxp_d C L)
  · krange_arm ensurefxp_d
  all_goals exact (raise_ok.mp h).elim

theorem unwrapBits_d : ∀ {xs : List Val} {s s' : St} {bs : List LinComb}, (∀ v ∈ xs, DV W s v) →
    unwrapBits xs s = .ok (bs, s') → s = s' ∧ ∀ b ∈ bs, DL W s b
  | [], s, s', bs, _, h => by
    unfold unwrapBits at h
    obtain ⟨rfl, rfl⟩ := pure_ok' h
    exact ⟨rfl, by simp⟩
  | v :: xs, s, s', bs, hxs, h => by
    have hv := hxs v (List.mem_cons_self ..)
    have hrest : ∀ v ∈ xs, DV W s v := fun v hv => hxs v (List.mem_cons_of_mem _ hv)
    cases v
    case lcb x =>
      simp only [unwrapBits] at h
      obtain ⟨r, s1, h1, h⟩ := bind_ok.mp h
      obtain ⟨rfl, rfl⟩ := pure_ok' h
      obtain ⟨rfl, g⟩ := unwrapBits_d hrest h1
      refine ⟨rfl, ?_⟩
      intro b hb
      rcases List.mem_cons.mp hb with rfl | hb
      · exact (DV_lcb.mp hv).dl
      · exact g b hb
    case lc x =>
      simp only [unwrapBits] at h
      obtain ⟨r, s1, h1, h⟩ := bind_ok.mp h
      obtain ⟨rfl, rfl⟩ := pure_ok' h
      obtain ⟨rfl, g⟩ := unwrapBits_d hrest h1
      refine ⟨rfl, ?_⟩
      intro b hb
      rcases List.mem_cons.mp hb with rfl | hb
      · exact DV_lc.mp hv
      · exact g b hb
    all_goals
      simp only [unwrapBits] at h
      exact (raise_ok.mp h).elim

theorem callMeth_d {m : Meth} {self : Val} {args : List Val} {r : Val} (C : SCtx W) (L : Loc W s)
    (hself : DV W s self) (hargs : ∀ v ∈ args, DV W s v) (hex : exclCall s.p m args = none)
    (h : callMeth m self args s = .ok (r, s')) : s.le s' ∧ Frame s s' ∧ Loc W s' ∧ DV W s' r := by
  cases self
  case lc x => exact callMeth_lc_d C L (DV_lc.mp hself) hargs hex h
  case lcb x => exact callMeth_lcb_d C L (DV_lcb.mp hself) hargs h
  case fxp x => exact callMeth_fxp_d C L (DV_fxp.mp hself) hargs h
  case list xs =>
    unfold callMeth at h
    simp only at h
    split at h
    · obtain ⟨bs, s1, h1, h⟩ := bind_ok.mp h
      obtain ⟨rfl, rfl⟩ := pure_ok' h
      obtain ⟨rfl, g⟩ := unwrapBits_d (DV_list.mp hself) h1
      exact L.refl (DV_ofFB (fromBits_dl C g))
    · exact (raise_ok.mp h).elim
  all_goals
    unfold callMeth at h
    exact (raise_ok.mp h).elim

/-! ## arrays: a composition of determined gadgets (no one-hot reasoning is needed for
determinacy: every selector and every product is a function of determined operands) -/
theorem foldl_add_dl : ∀ (bs : List LinComb) (acc : LinComb), DL W s acc →
    (∀ b ∈ bs, DL W s b) → DL W s (bs.foldl (fun acc x => x.add acc) acc)
  | [], _, hacc, _ => hacc
  | b :: bs, acc, hacc, hbs => by
    simp only [List.foldl_cons]
    exact foldl_add_dl bs _ ((hbs b (List.mem_cons_self ..)).add hacc)
      (fun b' hb' => hbs b' (List.mem_cons_of_mem _ hb'))

theorem sumBools_dl (C : SCtx W) {bs : List LinComb} (hbs : ∀ b ∈ bs, DL W s b) :
    ∀ r, sumBools bs = some r → DL W s r := by
  intro r hr
  cases bs with
  | nil => cases hr
  | cons b bs =>
    simp only [sumBools, Option.some.injEq] at hr
    subst hr
    exact foldl_add_dl bs _ (DL.addI C 0 (hbs b (List.mem_cons_self ..)))
      (fun b' hb' => hbs b' (List.mem_cons_of_mem _ hb'))

theorem oneHot_d {item : LinComb} (C : SCtx W) : ∀ (n i : Nat) {s s' : St} {rs : List LinComb}, Loc W s →
    DL W s item → oneHot item i n s = .ok (rs, s') →
    s.le s' ∧ Frame s s' ∧ Loc W s' ∧ ∀ r ∈ rs, DB W s' r
  | 0, i, s, s', rs, L, _, h => by
    unfold oneHot at h
    obtain ⟨rfl, rfl⟩ := pure_ok' h
    exact L.refl (by simp)
  | n+1, i, s, s', rs, L, hit, h => by
    unfold oneHot at h
    obtain ⟨c, s1, h1, h⟩ := bind_ok.mp h
    obtain ⟨rest, s2, h2, h⟩ := bind_ok.mp h
    obtain ⟨rfl, rfl⟩ := pure_ok' h
    obtain ⟨le1, f1, L1, g1⟩ := eqLI_d C L hit h1
    obtain ⟨le2, f2, L2, g2⟩ := oneHot_d C n (i+1) L1 (hit.mono le1) h2
    refine ⟨le1.trans le2, f1.trans f2, L2, ?_⟩
    intro r hr
    rcases List.mem_cons.mp hr with rfl | hr
    · exact g1.mono le2
    · exact g2 r hr

theorem foldlM_addV_d (C : SCtx W) : ∀ (ps : List Val) {acc r : Val} {s s' : St}, Loc W s → DV W s acc →
    (∀ p ∈ ps, DV W s p) → ps.foldlM (fun acc x => addV acc x) acc s = .ok (r, s') →
    s.le s' ∧ Frame s s' ∧ Loc W s' ∧ DV W s' r
  | [], acc, r, s, s', L, hacc, _, h => by
    rw [List.foldlM_nil] at h
    obtain ⟨rfl, rfl⟩ := pure_ok' h
    exact L.refl hacc
  | p :: ps, acc, r, s, s', L, hacc, hps, h => by
    rw [List.foldlM_cons] at h
    obtain ⟨a1, s1, h1, h⟩ := bind_ok.mp h
    obtain ⟨le1, f1, L1, g1⟩ := addV_d C L hacc (hps p (List.mem_cons_self ..)) h1
    obtain ⟨le2, f2, L2, g2⟩ := foldlM_addV_d C ps L1 g1
      (fun p' hp' => (hps p' (List.mem_cons_of_mem _ hp')).mono le1) h
    exact ⟨le1.trans le2, f1.trans f2, L2, g2⟩

theorem linComb_d {ixs : List LinComb} {arr : List Val} {r : Val} (C : SCtx W) (L : Loc W s)
    (hixs : ∀ c ∈ ixs, DL W s c) (harr : ∀ v ∈ arr, DV W s v) (h : linComb ixs arr s = .ok (r, s')) :
    s.le s' ∧ Frame s s' ∧ Loc W s' ∧ DV W s' r := by
  unfold linComb at h
  obtain ⟨prods, s1, h1, h⟩ := bind_ok.mp h
  obtain ⟨le1, f1, L1, g1⟩ := mapM'_d (W := W) (fun (cv : LinComb × Val) => mulLV cv.1 cv.2)
    (fun s cv => DL W s cv.1 ∧ DV W s cv.2) (fun s r => DV W s r)
    (fun s s' a hle ⟨x, y⟩ => ⟨x.mono hle, y.mono hle⟩) (fun s s' b hle x => x.mono hle)
    (fun s s' cv r L ⟨hc, hv⟩ h => mulLV_d C L hc hv h)
    _ s s1 prods L (by
      intro ⟨c, v⟩ hmem
      obtain ⟨hc, hv⟩ := List.of_mem_zip hmem
      exact ⟨hixs c hc, harr v hv⟩) h1
  split at h
  · obtain ⟨rfl, rfl⟩ := pure_ok' h
    exact ⟨le1, f1, L1, DV_int⟩
  · rename_i p ps
    obtain ⟨first, s2, h2, h⟩ := bind_ok.mp h
    obtain ⟨le2, f2, L2, g2⟩ := addV_d C L1 DV_int (g1 p (List.mem_cons_self ..)) h2
    obtain ⟨le3, f3, L3, g3⟩ := foldlM_addV_d C ps L2 g2
      (fun p' hp' => (g1 p' (List.mem_cons_of_mem _ hp')).mono le2) h
    exact ⟨(le1.trans le2).trans le3, (f1.trans f2).trans f3, L3, g3⟩

theorem arrayIxs_d {item : LinComb} {n : Nat} {rs : List LinComb} (C : SCtx W) (L : Loc W s)
    (hit : DL W s item) (h : arrayIxs item n s = .ok (rs, s')) :
    s.le s' ∧ Frame s s' ∧ Loc W s' ∧ ∀ r ∈ rs, DB W s' r := by
  unfold arrayIxs at h
  obtain ⟨u, s0, h0, h⟩ := bind_ok.mp h
  obtain rfl := arrayCheck_ok h0
  obtain ⟨ixs, s1, h1, h⟩ := bind_ok.mp h
  obtain ⟨le1, f1, L1, g1⟩ := oneHot_d C _ _ L hit h1
  cases hsm : sumBools ixs with
  | none => simp only [hsm] at h; exact (raise_ok.mp h).elim
  | some sm =>
    simp only [hsm] at h
    obtain ⟨one, s2, h2, h⟩ := bind_ok.mp h
    obtain ⟨u3, s3, h3, h⟩ := bind_ok.mp h
    obtain ⟨rfl, rfl⟩ := pure_ok' h
    obtain ⟨le2, f2, L2, g2⟩ := ensurelcI_d C L1 h2
    obtain ⟨le3, f3, inv3⟩ := assertEq_spec L2.inv
      ((sumBools_dl C (fun b hb => (g1 b hb).dl) sm hsm).1.mono le2) g2.1 h3
    exact ⟨(le1.trans le2).trans le3, (f1.trans f2).trans f3, L2.next le3 f3 inv3,
      fun r hr => (g1 r hr).mono (le2.trans le3)⟩

theorem arrayGet_d {arr : List Val} {item r : Val} (C : SCtx W) (L : Loc W s)
    (harr : ∀ v ∈ arr, DV W s v) (hit : DV W s item) (h : arrayGet arr item s = .ok (r, s')) :
    s.le s' ∧ Frame s s' ∧ Loc W s' ∧ DV W s' r := by
  unfold arrayGet at h
  split at h
  · rename_i i
    cases hk : pyIndex arr.length i with
    | none => simp only [hk] at h; exact (raise_ok.mp h).elim
    | some k =>
      simp only [hk] at h
      cases hv : arr[k]? with
      | none => simp only [hv] at h; exact (raise_ok.mp h).elim
      | some v =>
        simp only [hv] at h
        obtain ⟨rfl, rfl⟩ := pure_ok' h
        exact L.refl (harr _ (List.mem_of_getElem? hv))
  · obtain ⟨ixs, s1, h1, h⟩ := bind_ok.mp h
    obtain ⟨le1, f1, L1, g1⟩ := arrayIxs_d C L (DV_lc.mp hit) h1
    obtain ⟨le2, f2, L2, g2⟩ := linComb_d C L1 (fun c hc => (g1 c hc).dl) (fun v hv => (harr v hv).mono le1) h
    exact ⟨le1.trans le2, f1.trans f2, L2, g2⟩
  · exact (raise_ok.mp h).elim

theorem arraySet_d {arr rs : List Val} {item v : Val} (C : SCtx W) (L : Loc W s)
    (harr : ∀ v ∈ arr, DV W s v) (hit : DV W s item) (hv : DV W s v)
    (h : arraySet arr item v s = .ok (rs, s')) :
    s.le s' ∧ Frame s s' ∧ Loc W s' ∧ ∀ r ∈ rs, DV W s' r := by
  unfold arraySet at h
  split at h
  · rename_i i
    cases hk : pyIndex arr.length i with
    | none => simp only [hk] at h; exact (raise_ok.mp h).elim
    | some k =>
      simp only [hk] at h
      obtain ⟨rfl, rfl⟩ := pure_ok' h
      refine L.refl ?_
      intro r hr
      rcases List.mem_or_eq_of_mem_set hr with hr | rfl
      · exact harr r hr
      · exact hv
  · obtain ⟨ixs, s1, h1, h⟩ := bind_ok.mp h
    obtain ⟨le1, f1, L1, g1⟩ := arrayIxs_d C L (DV_lc.mp hit) h1
    obtain ⟨le2, f2, L2, g2⟩ := mapM'_d (W := W)
      (fun (cv : LinComb × Val) => ifThenElse (.lcb cv.1) false v cv.2)
      (fun s cv => DB W s cv.1 ∧ DV W s cv.2 ∧ DV W s v) (fun s r => DV W s r)
      (fun s s' a hle ⟨x, y, z⟩ => ⟨x.mono hle, y.mono hle, z.mono hle⟩)
      (fun s s' b hle x => x.mono hle)
      (fun s s' cv r L ⟨hc, hcv, hv⟩ h => ifThenElse_d C L (DV_lcb.mpr hc) hv hcv h)
      _ s1 s' rs L1 (by
        intro ⟨c, a⟩ hmem
        obtain ⟨hc, ha⟩ := List.of_mem_zip hmem
        exact ⟨g1 c hc, (harr a ha).mono le1, hv.mono le1⟩) h
    exact ⟨le1.trans le2, f1.trans f2, L2, g2⟩
  · exact (raise_ok.mp h).elim

end

end Pysnark
