import PysnarkModel.Model.Guard
import PysnarkModel.Lemmas.Monad
/-!
# Traced operations never touch the guard triple; `guarded()` restores it on both exits
-/
namespace Pysnark

/-- the computation leaves guard, error-suppression flag and `LinComb.ONE` alone -/
def TriplePres {α} (m : M α) : Prop := ∀ s a s', m s = .ok (a, s') → s'.triple = s.triple

theorem TriplePres.bind {α β} {m : M α} {f : α → M β} (hm : TriplePres m) (hf : ∀ a, TriplePres (f a)) :
    TriplePres (m >>= f) := by
  intro s b s'' h
  obtain ⟨a, s', h1, h2⟩ := bind_ok.mp h
  rw [hf a s' b s'' h2, hm s a s' h1]

theorem TriplePres.pure {α} (a : α) : TriplePres (pure a : M α) := by
  intro s b s' h; obtain ⟨_, rfl⟩ := pure_ok.mp h; rfl

theorem TriplePres.raise {α} (e : Err) : TriplePres (raise e : M α) := by
  intro s b s' h; exact (raise_ok.mp h).elim

theorem TriplePres.getSt : TriplePres getSt := by
  intro s b s' h; obtain ⟨_, rfl⟩ := getSt_ok.mp h; rfl

theorem TriplePres.liftE {α} (e : Except Err α) : TriplePres (liftE e) := by
  intro s b s' h; obtain ⟨_, rfl⟩ := liftE_ok.mp h; rfl

/-- a computation given as `fun s => if c s then .error e else m s` -/
theorem TriplePres.guardIf {α} {c : St → Bool} {e : Err} {m : M α} (hm : TriplePres m) :
    TriplePres (fun s => if c s then .error e else m s) := by
  intro s a s' h
  by_cases hc : c s = true
  · simp [hc] at h
  · simp [hc] at h; exact hm s a s' h

theorem privVal_triple (v : Int) : TriplePres (privVal v) := by
  intro s a s' h; unfold privVal at h; simp only [Except.ok.injEq, Prod.mk.injEq] at h; obtain ⟨_, rfl⟩ := h; rfl

theorem pubVal_triple (v : Int) : TriplePres (pubVal v) := by
  intro s a s' h; unfold pubVal at h; simp only [Except.ok.injEq, Prod.mk.injEq] at h; obtain ⟨_, rfl⟩ := h; rfl

theorem addConstraintUnsafe_triple (v w y : LinComb) : TriplePres (addConstraintUnsafe v w y) := by
  intro s a s' h; unfold addConstraintUnsafe at h
  simp only [Except.ok.injEq, Prod.mk.injEq] at h; obtain ⟨_, rfl⟩ := h; rfl

theorem addConstraint_triple (v w y : LinComb) (check : Bool) : TriplePres (addConstraint v w y check) := by
  intro s a s' h
  unfold addConstraint at h
  cases hg : s.guard with
  | none =>
    simp only [hg] at h
    split at h
    · cases h
    · exact addConstraintUnsafe_triple v w y s a s' h
  | some g =>
    simp only [hg] at h
    exact (TriplePres.bind (privVal_triple _) (fun d => TriplePres.bind (addConstraintUnsafe_triple _ _ _)
      (fun _ => addConstraintUnsafe_triple _ _ _))) s a s' h

theorem mkBool_triple (x : LinComb) (c : Bool) : TriplePres (mkBool x c) := by
  intro s a s' h
  unfold mkBool at h
  split at h
  · cases h
  · split at h
    · exact (TriplePres.bind (addConstraint_triple _ _ _ _) (fun _ => TriplePres.pure _)) s a s' h
    · simp only [Except.ok.injEq, Prod.mk.injEq] at h; obtain ⟨_, rfl⟩ := h; rfl

theorem privValBool_triple (v : Int) : TriplePres (privValBool v) := by
  intro s a s' h
  unfold privValBool at h
  split at h
  · cases h
  · exact (TriplePres.bind (privVal_triple _) (fun x => mkBool_triple x true)) s a s' h

theorem pubValBool_triple (v : Int) : TriplePres (pubValBool v) := by
  intro s a s' h
  unfold pubValBool at h
  split at h
  · cases h
  · exact (TriplePres.bind (pubVal_triple _) (fun x => mkBool_triple x true)) s a s' h

theorem mapM'_triple {α β} (f : α → M β) (hf : ∀ a, TriplePres (f a)) : ∀ xs : List α, TriplePres (mapM' f xs)
  | [] => by unfold mapM'; exact TriplePres.pure _
  | x :: xs => by
    unfold mapM'
    exact TriplePres.bind (hf x) (fun _ => TriplePres.bind (mapM'_triple f hf xs) (fun _ => TriplePres.pure _))

theorem assertZero_triple (x : LinComb) : TriplePres (assertZero x) := by
  intro s a s' h
  unfold assertZero at h
  split at h
  · cases h
  · exact addConstraint_triple _ _ _ _ s a s' h

theorem checkPositive_triple (x : LinComb) (bits : Option Nat) : TriplePres (checkPositive x bits) := by
  unfold checkPositive
  refine TriplePres.bind TriplePres.getSt (fun s0 => ?_)
  refine TriplePres.bind (TriplePres.liftE _) (fun rb => ?_)
  obtain ⟨retv, bitvs⟩ := rb
  exact TriplePres.bind (privValBool_triple _) (fun ret =>
    TriplePres.bind (mapM'_triple _ privValBool_triple _) (fun bs =>
      TriplePres.bind (addConstraint_triple _ _ _ _) (fun _ => TriplePres.pure _)))

theorem ltLL_triple (a b : LinComb) : TriplePres (ltLL a b) := checkPositive_triple _ _

theorem mkVal_triple (k : Kind) (v : Val) : TriplePres (mkVal k v) := by
  unfold mkVal
  split <;> first
    | exact TriplePres.raise _
    | exact TriplePres.pure _
    | exact TriplePres.bind (privVal_triple _) (fun _ => TriplePres.pure _)
    | exact TriplePres.bind (pubVal_triple _) (fun _ => TriplePres.pure _)
    | exact TriplePres.bind (privValBool_triple _) (fun _ => TriplePres.pure _)
    | exact TriplePres.bind (pubValBool_triple _) (fun _ => TriplePres.pure _)
    | exact TriplePres.bind (fun s a s' h => by unfold getRes at h; simp only [Except.ok.injEq, Prod.mk.injEq] at h; obtain ⟨_, rfl⟩ := h; rfl)
        (fun _ => TriplePres.bind (privVal_triple _) (fun _ => TriplePres.pure _))
    | exact TriplePres.bind (fun s a s' h => by unfold getRes at h; simp only [Except.ok.injEq, Prod.mk.injEq] at h; obtain ⟨_, rfl⟩ := h; rfl)
        (fun _ => TriplePres.bind (pubVal_triple _) (fun _ => TriplePres.pure _))

theorem mkCond_triple (k : Kind) (c : Int) : TriplePres (mkCond k c) := by
  unfold mkCond
  split
  · exact TriplePres.pure _
  · exact mkVal_triple _ _

/-- `add_guard` hands back exactly the triple it found -/
theorem addGuardCore_bak {cv : Val} {s s' : St} {bak : GuardBak} (h : addGuardCore cv s = .ok (bak, s')) :
    (⟨bak.guard, bak.ignoreErrors, bak.one⟩ : Triple) = s.triple := by
  unfold addGuardCore at h
  split at h
  · split at h
    · cases h
    · split at h
      · simp only [Except.ok.injEq, Prod.mk.injEq] at h; obtain ⟨rfl, _⟩ := h; rfl
      · split at h
        · cases h
        · simp only [Except.ok.injEq, Prod.mk.injEq] at h; obtain ⟨rfl, _⟩ := h; rfl
        · cases h
  · split at h
    · cases h
    · split at h
      · cases h
      · simp only [Except.ok.injEq, Prod.mk.injEq] at h; obtain ⟨rfl, _⟩ := h; rfl
  · cases h

theorem addGuard_bak {cv : Val} {s s' : St} {bak : GuardBak} (h : addGuard cv s = .ok (bak, s')) :
    (⟨bak.guard, bak.ignoreErrors, bak.one⟩ : Triple) = s.triple := addGuardCore_bak h

/-- error suppression after `add_guard(cond)` on a secret condition: on iff it was on or the
condition is false -/
theorem addGuard_ignore {c : LinComb} {s s' : St} {bak : GuardBak} (h : addGuardCore (.lc c) s = .ok (bak, s'))
    (hb : TriplePres (bwLV .and (s.guard.getD c) (.lc c))) :
    s'.ignoreErrors = (s.ignoreErrors || c.value == 0) := by
  unfold addGuardCore at h
  simp only at h
  split at h
  · cases h
  · cases hg : s.guard with
    | none =>
      simp only [hg] at h
      simp only [Except.ok.injEq, Prod.mk.injEq] at h; obtain ⟨_, rfl⟩ := h; rfl
    | some g =>
      simp only [hg] at h
      split at h
      · cases h
      · rename_i g' s1 hand
        simp only [Except.ok.injEq, Prod.mk.injEq] at h; obtain ⟨_, rfl⟩ := h
        have := hb s (.lc g') s1 (by simpa [hg] using hand)
        simp only [St.triple, Triple.mk.injEq] at this
        simp [this.2.1]
      · cases h

end Pysnark
