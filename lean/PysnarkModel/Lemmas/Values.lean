import PysnarkModel.Lemmas.InvGadgets
import Mathlib.Tactic.Ring
import Mathlib.Tactic.Linarith
/-!
# Value lemmas: what Python-level integer each typed gadget returns

No invariant hypothesis: these are facts about the hint computations only.  `Same s s'` records the
part of the state that no gadget changes (guard, error suppression, `LinComb.ONE`, bit length,
resolution, modulus), which is what is needed to chain the lemmas.
-/
namespace Pysnark

/-- the configuration part of the tracer state is unchanged -/
structure Same (s s' : St) : Prop where
  guard : s'.guard = s.guard
  ign : s'.ignoreErrors = s.ignoreErrors
  one : s'.one = s.one
  bl : s'.bitlength = s.bitlength
  res : s'.resolution = s.resolution
  p : s'.p = s.p

theorem Same.refl (s : St) : Same s s := ⟨rfl, rfl, rfl, rfl, rfl, rfl⟩
theorem Same.trans {a b c : St} (h1 : Same a b) (h2 : Same b c) : Same a c :=
  ⟨h2.guard.trans h1.guard, h2.ign.trans h1.ign, h2.one.trans h1.one, h2.bl.trans h1.bl,
   h2.res.trans h1.res, h2.p.trans h1.p⟩

theorem Same.ign_false {s s' : St} (h : Same s s') (hi : s.ignoreErrors = false) :
    s'.ignoreErrors = false := h.ign.trans hi
theorem Same.guard_none {s s' : St} (h : Same s s') (hg : s.guard = none) : s'.guard = none :=
  h.guard.trans hg

/-- the mode in which the agreement statements are made: no guard, errors not suppressed -/
structure Plain (s : St) : Prop where
  guard : s.guard = none
  ign : s.ignoreErrors = false

theorem Plain.same {s s' : St} (h : Plain s) (sm : Same s s') : Plain s' :=
  ⟨sm.guard_none h.guard, sm.ign_false h.ign⟩

theorem isGuard_of_none {s : St} (hg : s.guard = none) : s.isGuard = true := by
  unfold St.isGuard; rw [hg]

theorem liftE_ok_bind {α β} (a : α) (f : α → M β) (s : St) : (liftE (.ok a) >>= f) s = f a s := rfl
theorem privVal_bind {β} (v : Int) (f : LinComb → M β) (s : St) :
    (privVal v >>= f) s = f ⟨v, [(Wire.priv s.priv.length, 1)]⟩ { s with priv := s.priv ++ [v] } := rfl
theorem addConstraintUnsafe_bind {β} (v w y : LinComb) (f : Unit → M β) (s : St) :
    (addConstraintUnsafe v w y >>= f) s = f () { s with cons := s.cons ++ [(v.lc, w.lc, y.lc)] } := rfl
theorem fieldInverse_bind_some {β} {x w : Int} {f : Int → M β} {s : St} (h : Py.invert x s.p = some w) :
    (fieldInverse x >>= f) s = f w s := by
  change M.bind (fieldInverse x) f s = _
  unfold M.bind fieldInverse
  rw [h]

/-- value of what `from_bits` returned (`none` is the plain int 0) -/
def valFB : Option LinComb → Int
  | none => 0
  | some r => r.value

/-! ## pure linear operations -/
section lin
variable (a b : LinComb) (c : Int)
@[simp] theorem add_value : (a.add b).value = a.value + b.value := rfl
@[simp] theorem neg_value : a.neg.value = -a.value := rfl
@[simp] theorem sub_value : (a.sub b).value = a.value - b.value := by
  simp only [LinComb.sub, LinComb.add, LinComb.neg]; ring
@[simp] theorem mulI_value : (a.mulI c).value = a.value * c := rfl
@[simp] theorem const_value : (LinComb.const c).value = c := rfl
@[simp] theorem addI_value : (a.addI c).value = a.value + c := rfl
@[simp] theorem subI_value : (a.subI c).value = a.value - c := by
  simp only [LinComb.subI, LinComb.addI, LinComb.add, LinComb.const]; ring
@[simp] theorem rsubI_value : (a.rsubI c).value = c - a.value := by
  simp only [LinComb.rsubI, LinComb.addI, LinComb.add, LinComb.const, LinComb.neg]; ring
@[simp] theorem reduceValue_value (p : Int) : (reduceValue a p).value = a.value % p := rfl
end lin

/-! ## primitives -/
theorem privVal_val {s s' : St} {v : Int} {r : LinComb} (h : privVal v s = .ok (r, s')) :
    Same s s' ∧ r.value = v := by
  unfold privVal at h
  simp only [Except.ok.injEq, Prod.mk.injEq] at h
  obtain ⟨rfl, rfl⟩ := h
  exact ⟨⟨rfl, rfl, rfl, rfl, rfl, rfl⟩, rfl⟩

theorem pubVal_val {s s' : St} {v : Int} {r : LinComb} (h : pubVal v s = .ok (r, s')) :
    Same s s' ∧ r.value = v := by
  unfold pubVal at h
  simp only [Except.ok.injEq, Prod.mk.injEq] at h
  obtain ⟨rfl, rfl⟩ := h
  exact ⟨⟨rfl, rfl, rfl, rfl, rfl, rfl⟩, rfl⟩

theorem addConstraintUnsafe_same {s s' : St} {v w y : LinComb} {u : Unit}
    (h : addConstraintUnsafe v w y s = .ok (u, s')) : Same s s' := by
  unfold addConstraintUnsafe at h
  simp only [Except.ok.injEq, Prod.mk.injEq] at h
  obtain ⟨-, rfl⟩ := h
  exact ⟨rfl, rfl, rfl, rfl, rfl, rfl⟩

theorem addConstraint_same {s s' : St} {v w y : LinComb} {check : Bool} {u : Unit}
    (h : addConstraint v w y check s = .ok (u, s')) : Same s s' := by
  unfold addConstraint at h
  split at h
  · obtain ⟨d, s1, h1, h⟩ := bind_ok.mp h
    obtain ⟨u1, s2, h2, h⟩ := bind_ok.mp h
    exact ((privVal_val h1).1.trans (addConstraintUnsafe_same h2)).trans (addConstraintUnsafe_same h)
  · split at h
    · cases h
    · exact addConstraintUnsafe_same h

/-- outside guards, with error checking on, `add_constraint` succeeds iff the integer check does -/
theorem addConstraint_total {s : St} {v w y : LinComb} {check : Bool} (hg : s.guard = none)
    (hc : v.value * w.value = y.value ∨ check = false) :
    ∃ s', addConstraint v w y check s = .ok ((), s') ∧ Same s s' := by
  unfold addConstraint
  simp only [hg]
  have : (v.value * w.value != y.value && check && !s.ignoreErrors) = false := by
    rcases hc with hc | hc
    · simp [hc]
    · simp [hc]
  rw [this]
  exact ⟨_, rfl, ⟨rfl, rfl, rfl, rfl, rfl, rfl⟩⟩

theorem isBooleanValue_iff {v : Int} : isBooleanValue v = true ↔ v = 0 ∨ v = 1 := by
  simp [isBooleanValue]

theorem mkBool_val {s s' : St} {x r : LinComb} {c : Bool} (h : mkBool x c s = .ok (r, s')) :
    Same s s' ∧ r = x ∧ (x.value = 0 ∨ x.value = 1) := by
  unfold mkBool at h
  split at h
  · cases h
  · rename_i hb
    have hbv : x.value = 0 ∨ x.value = 1 := by
      rw [← isBooleanValue_iff]; simpa using hb
    split at h
    · obtain ⟨u, s1, h1, h2⟩ := bind_ok.mp h
      obtain ⟨rfl, rfl⟩ := pure_ok' h2
      exact ⟨addConstraint_same h1, rfl, hbv⟩
    · simp only [Except.ok.injEq, Prod.mk.injEq] at h
      obtain ⟨rfl, rfl⟩ := h
      exact ⟨Same.refl _, rfl, hbv⟩

theorem mkBool_total {s : St} {x : LinComb} {c : Bool} (hg : s.guard = none)
    (hb : x.value = 0 ∨ x.value = 1) : ∃ s', mkBool x c s = .ok (x, s') ∧ Same s s' := by
  unfold mkBool
  have : isBooleanValue x.value = true := isBooleanValue_iff.mpr hb
  simp only [this, Bool.not_true, Bool.false_eq_true, if_false]
  cases c with
  | false => exact ⟨s, rfl, Same.refl _⟩
  | true =>
    simp only [if_true]
    obtain ⟨s1, h1, sm⟩ := addConstraint_total (s := s) (v := x) (w := x.rsubI 1) (y := LinComb.zero)
      (check := true) hg (Or.inl (by
        rw [rsubI_value]; simp only [LinComb.zero]
        rcases hb with h | h <;> rw [h] <;> ring))
    exact ⟨s1, bind_ok.mpr ⟨(), s1, h1, rfl⟩, sm⟩

theorem privValBool_val {s s' : St} {v : Int} {r : LinComb} (h : privValBool v s = .ok (r, s')) :
    Same s s' ∧ r.value = v ∧ (v = 0 ∨ v = 1) := by
  unfold privValBool at h
  split at h
  · cases h
  · obtain ⟨x, s1, h1, h2⟩ := bind_ok.mp h
    obtain ⟨sm1, v1⟩ := privVal_val h1
    obtain ⟨sm2, rfl, hb⟩ := mkBool_val h2
    exact ⟨sm1.trans sm2, v1, v1 ▸ hb⟩

theorem privValBool_total {s : St} {v : Int} (hg : s.guard = none) (hb : v = 0 ∨ v = 1) :
    ∃ r s', privValBool v s = .ok (r, s') ∧ Same s s' ∧ r.value = v := by
  unfold privValBool
  have : isBooleanValue v = true := isBooleanValue_iff.mpr hb
  simp only [this, Bool.not_true, Bool.false_eq_true, if_false]
  obtain ⟨s2, h2, sm2⟩ := mkBool_total (s := { s with priv := s.priv ++ [v] })
    (x := ⟨v, [(Wire.priv s.priv.length, 1)]⟩) (c := true) hg hb
  have sm0 : Same s { s with priv := s.priv ++ [v] } := ⟨rfl, rfl, rfl, rfl, rfl, rfl⟩
  exact ⟨_, s2, bind_ok.mpr ⟨_, _, rfl, h2⟩, sm0.trans sm2, rfl⟩

theorem mapM'_privValBool_val : ∀ (vs : List Int) {s s' : St} {rs : List LinComb},
    mapM' privValBool vs s = .ok (rs, s') →
    Same s s' ∧ rs.map (·.value) = vs ∧ ∀ v ∈ vs, v = 0 ∨ v = 1
  | [], s, s', rs, h => by
    unfold mapM' at h
    obtain ⟨rfl, rfl⟩ := pure_ok.mp h
    exact ⟨Same.refl _, rfl, by simp⟩
  | x :: xs, s, s', rs, h => by
    unfold mapM' at h
    obtain ⟨y, s1, h1, h2⟩ := bind_ok.mp h
    obtain ⟨ys, s2, h3, h4⟩ := bind_ok.mp h2
    obtain ⟨rfl, rfl⟩ := pure_ok.mp h4
    obtain ⟨sm1, v1, b1⟩ := privValBool_val h1
    obtain ⟨sm2, v2, b2⟩ := mapM'_privValBool_val xs h3
    refine ⟨sm1.trans sm2, by simp [v1, v2], ?_⟩
    intro v hv
    rcases List.mem_cons.mp hv with rfl | hv
    · exact b1
    · exact b2 v hv

theorem mapM'_privValBool_total : ∀ (vs : List Int) {s : St}, s.guard = none →
    (∀ v ∈ vs, v = 0 ∨ v = 1) →
    ∃ rs s', mapM' privValBool vs s = .ok (rs, s') ∧ Same s s' ∧ rs.map (·.value) = vs
  | [], s, _, _ => ⟨[], s, rfl, Same.refl _, rfl⟩
  | x :: xs, s, hg, hb => by
    obtain ⟨r, s1, h1, sm1, v1⟩ := privValBool_total (s := s) hg (hb x (List.mem_cons_self ..))
    obtain ⟨rs, s2, h2, sm2, v2⟩ := mapM'_privValBool_total xs (sm1.guard_none hg)
      (fun v hv => hb v (List.mem_cons_of_mem _ hv))
    refine ⟨r :: rs, s2, ?_, sm1.trans sm2, by simp [v1, v2]⟩
    unfold mapM'
    exact bind_ok.mpr ⟨r, s1, h1, bind_ok.mpr ⟨rs, s2, h2, rfl⟩⟩

/-! ## `from_bits` -/
theorem valFB_fromBits (bs : List LinComb) : valFB (fromBits bs) = bitsVal (bs.map (·.value)) 0 := by
  cases bs with
  | nil => rfl
  | cons b bs =>
    simp only [fromBits, valFB, fromBitsAux_value, addI_value, mulI_value, List.map_cons, bitsVal]
    ring

theorem subFB_value (x : LinComb) (o : Option LinComb) : (x.subFB o).value = x.value - valFB o := by
  cases o with
  | none => simp [LinComb.subFB, valFB]
  | some y => simp [LinComb.subFB, valFB]

theorem addFB_value (x : LinComb) (o : Option LinComb) : (x.addFB o).value = x.value + valFB o := by
  cases o with
  | none => simp [LinComb.addFB, valFB]
  | some y => simp [LinComb.addFB, valFB]

theorem bit_01 (v : Int) (i : Nat) : Py.bit v i = 0 ∨ Py.bit v i = 1 := by
  unfold Py.bit; omega

theorem bitsOf_01 (v : Int) (n : Nat) : ∀ b ∈ Py.bitsOf v n, b = 0 ∨ b = 1 := by
  intro b hb
  unfold Py.bitsOf at hb
  obtain ⟨i, -, rfl⟩ := List.mem_map.mp hb
  exact bit_01 v i

theorem fitsNonneg_iff {v : Int} {n : Nat} : fitsNonneg v n = true ↔ 0 ≤ v ∧ Py.bitLength v ≤ n := by
  unfold fitsNonneg
  simp only [Bool.not_eq_true', Bool.or_eq_false_iff, decide_eq_false_iff_not, not_lt]

theorem lt_pow_of_fits {v : Int} {n : Nat} (_h0 : 0 ≤ v) (h : Py.bitLength v ≤ n) : v < 2 ^ n :=
  (natAbs_lt_pow ((bitLength_le_iff v n).mp h)).2

theorem bitLength_le_of_lt {v : Int} {n : Nat} (h0 : 0 ≤ v) (h : v < 2 ^ n) : Py.bitLength v ≤ n := by
  rw [bitLength_le_iff]
  have e : (v.natAbs : Int) = v := Int.natAbs_of_nonneg h0
  have : ((v.natAbs : Nat) : Int) < ((2 ^ n : Nat) : Int) := by rw [e]; push_cast; exact h
  exact_mod_cast this

/-! ## `assert_zero`, `to_bits`, `assert_positive` -/
theorem assertZero_val {s s' : St} {x : LinComb} {u : Unit} (h : assertZero x s = .ok (u, s')) :
    Same s s' ∧ (s.ignoreErrors = false → x.value = 0) := by
  unfold assertZero at h
  split at h
  · cases h
  · rename_i hc
    refine ⟨addConstraint_same h, ?_⟩
    intro hi
    simpa [hi] using hc

theorem assertZero_total {s : St} {x : LinComb} (hg : s.guard = none) (hx : x.value = 0) :
    ∃ s', assertZero x s = .ok ((), s') ∧ Same s s' := by
  unfold assertZero
  have : (!s.ignoreErrors && x.value != 0) = false := by simp [hx]
  simp only [this, Bool.false_eq_true, if_false]
  exact addConstraint_total hg (Or.inl (by simp [LinComb.zero, hx]))

theorem toBits_val {s s' : St} {x : LinComb} {bits : Option Nat} {rs : List LinComb}
    (h : toBits x bits s = .ok (rs, s')) :
    Same s s' ∧ rs.map (·.value) = Py.bitsOf x.value (bits.getD s.bitlength) ∧
    (s.ignoreErrors = false → 0 ≤ x.value ∧ Py.bitLength x.value ≤ bits.getD s.bitlength) := by
  unfold toBits at h
  dsimp only at h
  split at h
  · cases h
  · rename_i hc
    obtain ⟨bs, s1, h1, h2⟩ := bind_ok.mp h
    obtain ⟨u, s2, h3, h4⟩ := bind_ok.mp h2
    obtain ⟨rfl, rfl⟩ := pure_ok.mp h4
    obtain ⟨sm1, v1, -⟩ := mapM'_privValBool_val _ h1
    obtain ⟨sm2, -⟩ := assertZero_val h3
    refine ⟨sm1.trans sm2, v1, ?_⟩
    intro hi
    rw [← fitsNonneg_iff]
    simpa [hi] using hc

theorem toBits_length {s s' : St} {x : LinComb} {bits : Option Nat} {rs : List LinComb}
    (h : toBits x bits s = .ok (rs, s')) : rs.length = bits.getD s.bitlength := by
  have := congrArg List.length (toBits_val h).2.1
  simpa [Py.bitsOf] using this

/-- `to_bits` followed by `from_bits` is the identity on values -/
theorem toBits_fromBits {s s' : St} {x : LinComb} {bits : Option Nat} {rs : List LinComb}
    (hi : s.ignoreErrors = false) (h : toBits x bits s = .ok (rs, s')) :
    valFB (fromBits rs) = x.value := by
  obtain ⟨-, v, hr⟩ := toBits_val h
  obtain ⟨h0, hb⟩ := hr hi
  rw [valFB_fromBits, v, bitsVal_bitsOf _ _ _ h0 (lt_pow_of_fits h0 hb)]
  simp

theorem toBits_total {s : St} {x : LinComb} {bits : Option Nat} (hg : s.guard = none)
    (h0 : 0 ≤ x.value) (hb : Py.bitLength x.value ≤ bits.getD s.bitlength) :
    ∃ rs s', toBits x bits s = .ok (rs, s') ∧ Same s s' := by
  unfold toBits
  dsimp only
  have hf : fitsNonneg x.value (bits.getD s.bitlength) = true := fitsNonneg_iff.mpr ⟨h0, hb⟩
  simp only [hf, Bool.not_true, Bool.and_false, Bool.false_eq_true, if_false]
  obtain ⟨rs, s1, h1, sm1, v1⟩ := mapM'_privValBool_total (Py.bitsOf x.value (bits.getD s.bitlength))
    (s := s) hg (bitsOf_01 _ _)
  obtain ⟨s2, h2, sm2⟩ := assertZero_total (s := s1) (x := x.subFB (fromBits rs)) (sm1.guard_none hg) (by
    rw [subFB_value, valFB_fromBits, v1, bitsVal_bitsOf _ _ _ h0 (lt_pow_of_fits h0 hb)]; ring)
  exact ⟨rs, s2, bind_ok.mpr ⟨rs, s1, h1, bind_ok.mpr ⟨(), s2, h2, rfl⟩⟩, sm1.trans sm2⟩

theorem assertPositive_val {s s' : St} {x : LinComb} {bits : Option Nat} {u : Unit}
    (h : assertPositive x bits s = .ok (u, s')) :
    Same s s' ∧ (s.ignoreErrors = false → 0 ≤ x.value ∧ Py.bitLength x.value ≤ bits.getD s.bitlength) := by
  unfold assertPositive at h
  dsimp only at h
  split at h
  · cases h
  · obtain ⟨bs, s1, h1, h⟩ := bind_ok.mp h
    obtain ⟨-, rfl⟩ := pure_ok' h
    obtain ⟨sm, -, hr⟩ := toBits_val h1
    exact ⟨sm, hr⟩

/-! ## `check_positive` and the order comparisons -/
theorem checkPositive_val {s s' : St} {x r : LinComb} {bits : Option Nat} (hg : s.guard = none)
    (hi : s.ignoreErrors = false) (h : checkPositive x bits s = .ok (r, s')) :
    Same s s' ∧ r.value = (if x.value ≥ 0 then 1 else 0) ∧
      Py.bitLength x.value ≤ bits.getD s.bitlength := by
  unfold checkPositive at h
  rw [getSt_bind] at h
  obtain ⟨⟨retv, bitvs⟩, s1, h1, h⟩ := bind_ok.mp h
  obtain ⟨hhint, rfl⟩ := liftE_ok' h1
  dsimp only at h
  obtain ⟨ret, s2, h2, h⟩ := bind_ok.mp h
  obtain ⟨bs, s3, h3, h⟩ := bind_ok.mp h
  obtain ⟨u, s4, h4, h⟩ := bind_ok.mp h
  obtain ⟨rfl, rfl⟩ := pure_ok' h
  obtain ⟨sm2, v2, -⟩ := privValBool_val h2
  obtain ⟨sm3, -, -⟩ := mapM'_privValBool_val _ h3
  have sm4 := addConstraint_same h4
  unfold checkPositiveHint at hhint
  simp only [isGuard_of_none hg, hi, Bool.true_and, decide_eq_true_eq] at hhint
  split at hhint
  · rename_i hbl
    simp only [Except.ok.injEq, Prod.mk.injEq] at hhint
    obtain ⟨hr, -⟩ := hhint
    exact ⟨(sm2.trans sm3).trans sm4, by rw [v2, ← hr], hbl⟩
  · simp at hhint

theorem checkPositive_total {s : St} {x : LinComb} {bits : Option Nat} (hg : s.guard = none)
    (hb : Py.bitLength x.value ≤ bits.getD s.bitlength) :
    ∃ r s', checkPositive x bits s = .ok (r, s') := by
  unfold checkPositive
  rw [getSt_bind]
  have hlt := natAbs_lt_pow ((bitLength_le_iff _ _).mp hb)
  have hhint : checkPositiveHint s x.value (bits.getD s.bitlength) =
      .ok (if x.value ≥ 0 then 1 else 0,
        Py.bitsOf (if x.value ≥ 0 then x.value else -x.value - 1) (bits.getD s.bitlength)) := by
    unfold checkPositiveHint
    simp [isGuard_of_none hg, hb]
  obtain ⟨ret, s2, h2, sm2, v2⟩ := privValBool_total (s := s) (v := if x.value ≥ 0 then 1 else 0) hg
    (by split <;> simp)
  obtain ⟨bs, s3, h3, sm3, v3⟩ := mapM'_privValBool_total
    (Py.bitsOf (if x.value ≥ 0 then x.value else -x.value - 1) (bits.getD s.bitlength)) (s := s2)
    (sm2.guard_none hg) (bitsOf_01 _ _)
  obtain ⟨s4, h4, -⟩ := addConstraint_total (s := s3) (v := ret.mulI 2) (w := x)
    (y := (x.addFB (fromBits bs)).add (ret.rsubI 1)) (check := true) ((sm2.trans sm3).guard_none hg)
    (Or.inl (by
      simp only [add_value, addFB_value, valFB_fromBits, rsubI_value, mulI_value, v2, v3]
      by_cases hv : x.value ≥ 0
      · simp only [hv, if_true]
        rw [bitsVal_bitsOf _ _ _ hv hlt.2]; ring
      · simp only [hv, if_false]
        rw [bitsVal_bitsOf _ _ _ (by omega) (by omega)]; ring))
  rw [hhint, liftE_ok_bind]
  exact ⟨ret, s4, bind_ok.mpr ⟨ret, s2, h2, bind_ok.mpr ⟨bs, s3, h3, bind_ok.mpr ⟨(), s4, h4, rfl⟩⟩⟩⟩

/-- with no guard and error checking on, `check_positive` succeeds iff the operand fits -/
theorem checkPositive_ok_iff {s : St} {x : LinComb} {bits : Option Nat} (hg : s.guard = none)
    (hi : s.ignoreErrors = false) :
    (∃ r s', checkPositive x bits s = .ok (r, s')) ↔ Py.bitLength x.value ≤ bits.getD s.bitlength :=
  ⟨fun ⟨_, _, h⟩ => (checkPositive_val hg hi h).2.2, checkPositive_total hg⟩

section cmpv
variable {s s' : St} {a b r : LinComb} {c : Int}

theorem ltLL_val (hg : s.guard = none) (hi : s.ignoreErrors = false) (h : ltLL a b s = .ok (r, s')) :
    Same s s' ∧ r.value = (if a.value < b.value then 1 else 0) := by
  obtain ⟨sm, v, -⟩ := checkPositive_val hg hi h
  refine ⟨sm, ?_⟩
  rw [v]; simp only [subI_value, sub_value]
  split <;> split <;> first | rfl | omega
theorem leLL_val (hg : s.guard = none) (hi : s.ignoreErrors = false) (h : leLL a b s = .ok (r, s')) :
    Same s s' ∧ r.value = (if a.value ≤ b.value then 1 else 0) := by
  obtain ⟨sm, v, -⟩ := checkPositive_val hg hi h
  refine ⟨sm, ?_⟩
  rw [v]; simp only [sub_value]
  split <;> split <;> first | rfl | omega
theorem gtLL_val (hg : s.guard = none) (hi : s.ignoreErrors = false) (h : gtLL a b s = .ok (r, s')) :
    Same s s' ∧ r.value = (if a.value > b.value then 1 else 0) := by
  obtain ⟨sm, v, -⟩ := checkPositive_val hg hi h
  refine ⟨sm, ?_⟩
  rw [v]; simp only [subI_value, sub_value]
  split <;> split <;> first | rfl | omega
theorem geLL_val (hg : s.guard = none) (hi : s.ignoreErrors = false) (h : geLL a b s = .ok (r, s')) :
    Same s s' ∧ r.value = (if a.value ≥ b.value then 1 else 0) := by
  obtain ⟨sm, v, -⟩ := checkPositive_val hg hi h
  refine ⟨sm, ?_⟩
  rw [v]; simp only [sub_value]
  split <;> split <;> first | rfl | omega

theorem ltLI_val (hg : s.guard = none) (hi : s.ignoreErrors = false) (h : ltLI a c s = .ok (r, s')) :
    Same s s' ∧ r.value = (if a.value < c then 1 else 0) := by
  obtain ⟨sm, v, -⟩ := checkPositive_val hg hi h
  refine ⟨sm, ?_⟩
  rw [v]; simp only [subI_value, rsubI_value]
  split <;> split <;> first | rfl | omega
theorem leLI_val (hg : s.guard = none) (hi : s.ignoreErrors = false) (h : leLI a c s = .ok (r, s')) :
    Same s s' ∧ r.value = (if a.value ≤ c then 1 else 0) := by
  obtain ⟨sm, v, -⟩ := checkPositive_val hg hi h
  refine ⟨sm, ?_⟩
  rw [v]; simp only [rsubI_value]
  split <;> split <;> first | rfl | omega
theorem gtLI_val (hg : s.guard = none) (hi : s.ignoreErrors = false) (h : gtLI a c s = .ok (r, s')) :
    Same s s' ∧ r.value = (if a.value > c then 1 else 0) := by
  obtain ⟨sm, v, -⟩ := checkPositive_val hg hi h
  refine ⟨sm, ?_⟩
  rw [v]; simp only [subI_value]
  split <;> split <;> first | rfl | omega
theorem geLI_val (hg : s.guard = none) (hi : s.ignoreErrors = false) (h : geLI a c s = .ok (r, s')) :
    Same s s' ∧ r.value = (if a.value ≥ c then 1 else 0) := by
  obtain ⟨sm, v, -⟩ := checkPositive_val hg hi h
  refine ⟨sm, ?_⟩
  rw [v]; simp only [subI_value]
  split <;> split <;> first | rfl | omega

theorem ltLL_total (hg : s.guard = none) (hb : Py.bitLength (b.value - a.value - 1) ≤ s.bitlength) :
    ∃ r s', ltLL a b s = .ok (r, s') := by
  unfold ltLL
  exact checkPositive_total hg (by simpa using hb)
end cmpv

/-! ## `check_zero` and the equality comparisons -/
theorem checkZero_val {s s' : St} {x r : LinComb} (h : checkZero x s = .ok (r, s')) :
    Same s s' ∧ r.value = (if x.value = 0 then 1 else 0) := by
  unfold checkZero at h
  obtain ⟨ret, s1, h1, h⟩ := bind_ok.mp h
  obtain ⟨w, s2, h2, h⟩ := bind_ok.mp h
  obtain ⟨-, rfl⟩ := fieldInverse_ok h2
  obtain ⟨wit, s3, h3, h⟩ := bind_ok.mp h
  obtain ⟨u1, s4, h4, h⟩ := bind_ok.mp h
  obtain ⟨u2, s5, h5, h⟩ := bind_ok.mp h
  obtain ⟨sm1, v1⟩ := privVal_val h1
  obtain ⟨sm3, -⟩ := privVal_val h3
  obtain ⟨sm6, rfl, -⟩ := mkBool_val h
  refine ⟨(((sm1.trans sm3).trans (addConstraintUnsafe_same h4)).trans
    (addConstraintUnsafe_same h5)).trans sm6, ?_⟩
  rw [v1]; simp

/-- `check_zero` raises exactly when the field inverse does -/
theorem checkZero_ok_iff {s : St} {x : LinComb} :
    (∃ r s', checkZero x s = .ok (r, s')) ↔
      (Py.invert (x.value + (if x.value == 0 then 1 else 0)) s.p).isSome := by
  constructor
  · rintro ⟨r, s', h⟩
    unfold checkZero at h
    obtain ⟨ret, s1, h1, h⟩ := bind_ok.mp h
    obtain ⟨w, s2, h2, h⟩ := bind_ok.mp h
    obtain ⟨hinv, rfl⟩ := fieldInverse_ok h2
    rw [(privVal_val h1).1.p] at hinv
    rw [hinv]; rfl
  · intro hs
    obtain ⟨w, hw⟩ := Option.isSome_iff_exists.mp hs
    unfold checkZero
    rw [privVal_bind, fieldInverse_bind_some (by exact hw), privVal_bind, addConstraintUnsafe_bind,
      addConstraintUnsafe_bind]
    unfold mkBool
    have : isBooleanValue (if x.value == 0 then (1:Int) else 0) = true := by
      split <;> rfl
    simp only [this]
    exact ⟨_, _, rfl⟩

theorem boolNot_val {s s' : St} {b r : LinComb} (h : boolNot b s = .ok (r, s')) :
    Same s s' ∧ r.value = 1 - b.value ∧ (b.value = 0 ∨ b.value = 1) := by
  unfold boolNot at h
  obtain ⟨sm, rfl, hb⟩ := mkBool_val h
  rw [rsubI_value] at hb ⊢
  exact ⟨sm, rfl, by omega⟩

theorem checkNonzero_val {s s' : St} {x r : LinComb} (h : checkNonzero x s = .ok (r, s')) :
    Same s s' ∧ r.value = (if x.value = 0 then 0 else 1) := by
  unfold checkNonzero at h
  obtain ⟨z, s1, h1, h⟩ := bind_ok.mp h
  obtain ⟨sm1, v1⟩ := checkZero_val h1
  obtain ⟨sm2, v2, -⟩ := boolNot_val h
  refine ⟨sm1.trans sm2, ?_⟩
  rw [v2, v1]; split <;> rfl

section eqv
variable {s s' : St} {a b r : LinComb} {c : Int}
theorem eqLL_val (h : eqLL a b s = .ok (r, s')) :
    Same s s' ∧ r.value = (if a.value = b.value then 1 else 0) := by
  obtain ⟨sm, v⟩ := checkZero_val h
  refine ⟨sm, ?_⟩
  rw [v, sub_value]; simp only [sub_eq_zero]
theorem neLL_val (h : neLL a b s = .ok (r, s')) :
    Same s s' ∧ r.value = (if a.value = b.value then 0 else 1) := by
  obtain ⟨sm, v⟩ := checkNonzero_val h
  refine ⟨sm, ?_⟩
  rw [v, sub_value]; simp only [sub_eq_zero]
theorem eqLI_val (h : eqLI a c s = .ok (r, s')) :
    Same s s' ∧ r.value = (if a.value = c then 1 else 0) := by
  obtain ⟨sm, v⟩ := checkZero_val h
  refine ⟨sm, ?_⟩
  rw [v, subI_value]; simp only [sub_eq_zero]
theorem neLI_val (h : neLI a c s = .ok (r, s')) :
    Same s s' ∧ r.value = (if a.value = c then 0 else 1) := by
  obtain ⟨sm, v⟩ := checkNonzero_val h
  refine ⟨sm, ?_⟩
  rw [v, subI_value]; simp only [sub_eq_zero]
end eqv

/-! ## multiplication, conditional, absolute value, powers -/
theorem mulLL_val {s s' : St} {a b r : LinComb} (h : mulLL a b s = .ok (r, s')) :
    Same s s' ∧ r.value = a.value * b.value := by
  unfold mulLL at h
  obtain ⟨r1, s1, h1, h⟩ := bind_ok.mp h
  obtain ⟨u, s2, h2, h⟩ := bind_ok.mp h
  obtain ⟨rfl, rfl⟩ := pure_ok' h
  obtain ⟨sm1, v1⟩ := privVal_val h1
  exact ⟨sm1.trans (addConstraintUnsafe_same h2), v1⟩

theorem mulLL_total (a b : LinComb) (s : St) : ∃ r s', mulLL a b s = .ok (r, s') :=
  ⟨_, _, rfl⟩

theorem iteLLL_val {s s' : St} {c t f r : LinComb} (h : iteLLL c t f s = .ok (r, s')) :
    Same s s' ∧ r.value = f.value + c.value * (t.value - f.value) := by
  unfold iteLLL at h
  obtain ⟨prod, s1, h1, h⟩ := bind_ok.mp h
  obtain ⟨rfl, rfl⟩ := pure_ok' h
  obtain ⟨sm1, v1⟩ := mulLL_val h1
  exact ⟨sm1, by rw [add_value, v1, sub_value]⟩

theorem iteLLL_val_bool {s s' : St} {c t f r : LinComb} (hc : c.value = 0 ∨ c.value = 1)
    (h : iteLLL c t f s = .ok (r, s')) :
    r.value = (if c.value = 1 then t.value else f.value) := by
  rw [(iteLLL_val h).2]
  rcases hc with h0 | h1
  · simp [h0]
  · simp [h1]

theorem iteLLL_total (c t f : LinComb) (s : St) : ∃ r s', iteLLL c t f s = .ok (r, s') :=
  ⟨_, _, rfl⟩

theorem absL_val {s s' : St} {a r : LinComb} (hg : s.guard = none) (hi : s.ignoreErrors = false)
    (h : absL a s = .ok (r, s')) : Same s s' ∧ r.value = (a.value.natAbs : Int) := by
  unfold absL at h
  obtain ⟨c, s1, h1, h⟩ := bind_ok.mp h
  obtain ⟨sm1, v1⟩ := geLI_val hg hi h1
  obtain ⟨sm2, v2⟩ := iteLLL_val h
  refine ⟨sm1.trans sm2, ?_⟩
  rw [v2, v1, neg_value]
  split <;> omega

theorem powLN_val {a : LinComb} : ∀ (n : Nat) {s s' : St} {r : LinComb},
    powLN a (n+1) s = .ok (r, s') → Same s s' ∧ r.value = a.value ^ (n+1)
  | 0, s, s', r, h => by
    unfold powLN at h
    obtain ⟨rfl, rfl⟩ := pure_ok' h
    exact ⟨Same.refl _, by simp⟩
  | n+1, s, s', r, h => by
    unfold powLN at h
    obtain ⟨r1, s1, h1, h⟩ := bind_ok.mp h
    obtain ⟨sm1, v1⟩ := powLN_val n h1
    obtain ⟨sm2, v2⟩ := mulLL_val h
    exact ⟨sm1.trans sm2, by rw [v2, v1]; ring⟩

theorem powLN_zero_val {a : LinComb} {s s' : St} {r : LinComb} (h : powLN a 0 s = .ok (r, s')) :
    s' = s ∧ r = s.one := by
  unfold powLN at h
  simp only [Except.ok.injEq, Prod.mk.injEq] at h
  exact ⟨h.2.symm, h.1.symm⟩

theorem powLN_total (a : LinComb) : ∀ (n : Nat) (s : St), ∃ r s', powLN a n s = .ok (r, s')
  | 0, s => ⟨_, _, rfl⟩
  | 1, s => ⟨_, _, rfl⟩
  | n+2, s => by
    obtain ⟨r1, s1, h1⟩ := powLN_total a (n+1) s
    unfold powLN
    exact ⟨_, _, bind_ok.mpr ⟨r1, s1, h1, rfl⟩⟩

/-! ## exact division -/
theorem truedivLL_val {s s' : St} {a b r : LinComb} (hg : s.guard = none) (hi : s.ignoreErrors = false)
    (h : truedivLL a b s = .ok (r, s')) :
    Same s s' ∧ b.value ≠ 0 ∧ Int.fmod a.value b.value = 0 ∧ r.value = Int.fdiv a.value b.value ∧
      r.value * b.value = a.value := by
  unfold truedivLL at h
  rw [getSt_bind] at h
  obtain ⟨q, s1, h1, h⟩ := bind_ok.mp h
  obtain ⟨hhint, rfl⟩ := liftE_ok' h1
  obtain ⟨res, s2, h2, h⟩ := bind_ok.mp h
  obtain ⟨u, s3, h3, h⟩ := bind_ok.mp h
  obtain ⟨rfl, rfl⟩ := pure_ok' h
  obtain ⟨sm2, v2⟩ := privVal_val h2
  have sm3 := addConstraint_same h3
  unfold truedivHint at hhint
  simp only [isGuard_of_none hg, hi, Bool.true_and] at hhint
  split at hhint
  · cases hhint
  · rename_i hb0
    split at hhint
    · rename_i hm
      simp only [Except.ok.injEq] at hhint
      subst hhint
      have hm' : Int.fmod a.value b.value = 0 := by simpa [Py.mod] using hm
      have e3 := Int.mul_fdiv_cancel_of_fmod_eq_zero hm'
      refine ⟨sm2.trans sm3, by simpa using hb0, hm', v2, ?_⟩
      rw [v2]; unfold Py.floordiv; rw [mul_comm]; exact e3
    · simp at hhint

theorem truedivLI_val {s s' : St} {a r : LinComb} {c : Int} (hg : s.guard = none)
    (hi : s.ignoreErrors = false) (h : truedivLI a c s = .ok (r, s')) :
    s' = s ∧ c ≠ 0 ∧ Int.fmod a.value c = 0 ∧ r.value = Int.fdiv a.value c ∧ r.value * c = a.value := by
  unfold truedivLI at h
  simp only [isGuard_of_none hg, hi, Bool.true_and] at h
  split at h
  · cases h
  · rename_i hc0
    split at h
    · rename_i hm
      split at h
      · simp only [Except.ok.injEq, Prod.mk.injEq] at h
        obtain ⟨rfl, rfl⟩ := h
        have hm' : Int.fmod a.value c = 0 := by simpa [Py.mod] using hm
        have e3 := Int.mul_fdiv_cancel_of_fmod_eq_zero hm'
        refine ⟨rfl, by simpa using hc0, hm', rfl, ?_⟩
        show Py.floordiv a.value c * c = a.value
        unfold Py.floordiv; rw [mul_comm]; exact e3
      · cases h
    · simp at h

/-! ## assertions on the order -/
theorem assertLt_val {s s' : St} {a b : LinComb} {u : Unit} (h : assertLt a b s = .ok (u, s')) :
    Same s s' ∧ (s.ignoreErrors = false → a.value < b.value) := by
  unfold assertLt at h
  split at h
  · cases h
  · rename_i hc
    refine ⟨(assertPositive_val h).1, ?_⟩
    intro hi
    simpa [hi] using hc

/-! ## floor division and modulo -/
theorem divmodLL_val {s s' : St} {a d : LinComb} {qr : LinComb × LinComb}
    (h : divmodLL a d s = .ok (qr, s')) :
    Same s s' ∧ d.value ≠ 0 ∧ qr.1.value = Int.fdiv a.value d.value ∧
      qr.2.value = Int.fmod a.value d.value ∧
      (s.ignoreErrors = false → 0 ≤ qr.2.value ∧ qr.2.value < d.value) := by
  unfold divmodLL at h
  split at h
  · cases h
  · rename_i hd0
    obtain ⟨quo, s1, h1, h⟩ := bind_ok.mp h
    obtain ⟨res, s2, h2, h⟩ := bind_ok.mp h
    obtain ⟨rem, s3, h3, h⟩ := bind_ok.mp h
    obtain ⟨u4, s4, h4, h⟩ := bind_ok.mp h
    obtain ⟨u5, s5, h5, h⟩ := bind_ok.mp h
    obtain ⟨u6, s6, h6, h⟩ := bind_ok.mp h
    obtain ⟨rfl, rfl⟩ := pure_ok' h
    obtain ⟨sm1, v1⟩ := privVal_val h1
    obtain ⟨sm2, v2⟩ := mulLL_val h2
    obtain ⟨sm3, v3⟩ := privVal_val h3
    have sm4 := addConstraint_same h4
    obtain ⟨sm5, lt5⟩ := assertLt_val h5
    obtain ⟨sm6, pos6⟩ := assertPositive_val h6
    have sm14 := ((sm1.trans sm2).trans sm3).trans sm4
    refine ⟨(sm14.trans sm5).trans sm6, by simpa using hd0, v1, ?_, ?_⟩
    · show rem.value = _
      rw [v3, v2, v1, Int.fmod_def]; unfold Py.floordiv; ring
    · intro hi
      exact ⟨(pos6 ((sm14.trans sm5).ign_false hi)).1, lt5 (sm14.ign_false hi)⟩

/-- the relation between the two results and the operands (Python's `divmod` contract) -/
theorem divmodLL_recompose {s s' : St} {a d : LinComb} {qr : LinComb × LinComb}
    (h : divmodLL a d s = .ok (qr, s')) : qr.1.value * d.value + qr.2.value = a.value := by
  obtain ⟨-, -, v1, v2, -⟩ := divmodLL_val h
  rw [v1, v2, mul_comm]; exact Int.mul_fdiv_add_fmod a.value d.value

/-- RECORDED DEVIATION: a negative divisor always raises (Python: `7 // -2 == -4`), because the
remainder is asserted to lie in `[0, d)` -/
theorem divmodLL_neg_divisor_raises {s : St} {a d : LinComb} (hd : d.value < 0)
    (hi : s.ignoreErrors = false) : ∃ e, divmodLL a d s = .error e := by
  cases h : divmodLL a d s with
  | error e => exact ⟨e, rfl⟩
  | ok r =>
    obtain ⟨qr, s'⟩ := r
    obtain ⟨-, -, -, -, hr⟩ := divmodLL_val h
    have := hr hi
    omega

/-! ## shifts -/
theorem lshiftLI_val {s s' : St} {a r : LinComb} {n : Int} (h : lshiftLI a n s = .ok (r, s')) :
    s' = s ∧ 0 ≤ n ∧ r.value = a.value * 2 ^ n.toNat := by
  unfold lshiftLI at h
  split at h
  · cases h
  · rename_i hn
    simp only [Except.ok.injEq, Prod.mk.injEq] at h
    obtain ⟨rfl, rfl⟩ := h
    exact ⟨rfl, by omega, rfl⟩

theorem bitsOf_drop : ∀ (k n : Nat) (v : Int), (Py.bitsOf v n).drop k = Py.bitsOf (v / 2 ^ k) (n - k)
  | 0, n, v => by simp
  | k+1, 0, v => by simp [Py.bitsOf]
  | k+1, n+1, v => by
    rw [bitsOf_succ, List.drop_succ_cons, bitsOf_drop k n (v / 2), Nat.add_sub_add_right,
      Int.ediv_ediv_of_nonneg (by norm_num), pow_succ, mul_comm]

/-- `x >> n` with a negative public count raises `ValueError`, in every state (nothing is traced) -/
theorem rshiftLI_neg {a : LinComb} {n : Int} (hn : n < 0) (s : St) : rshiftLI a n s = .error .value := by
  unfold rshiftLI
  simp only [hn, if_true]

/-- … so a completed `x >> n` had a non-negative count -/
theorem rshiftLI_ok_nonneg {s s' : St} {a : LinComb} {n : Int} {o : Option LinComb}
    (h : rshiftLI a n s = .ok (o, s')) : 0 ≤ n := by
  by_contra hn
  rw [rshiftLI_neg (not_le.mp hn)] at h
  cases h

/-- `x >> n` for `n ≥ 0` is floor division by `2^n` (on the non-negative values `to_bits` accepts) -/
theorem rshiftLI_val {s s' : St} {a : LinComb} {n : Int} {o : Option LinComb} (hn : 0 ≤ n)
    (hi : s.ignoreErrors = false) (h : rshiftLI a n s = .ok (o, s')) :
    Same s s' ∧ valFB o = a.value / 2 ^ n.toNat ∧ valFB o = a.value >>> n.toNat := by
  unfold rshiftLI at h
  by_cases hn' : n < 0
  · simp only [hn', if_true, reduceCtorEq] at h
  simp only [hn', if_false] at h
  obtain ⟨bits, s1, h1, h⟩ := bind_ok.mp h
  obtain ⟨rfl, rfl⟩ := pure_ok' h
  obtain ⟨sm, v, hr⟩ := toBits_val h1
  obtain ⟨h0, hb⟩ := hr hi
  have hlt := lt_pow_of_fits h0 hb
  have key : valFB (fromBits (List.drop n.toNat bits)) = a.value / 2 ^ n.toNat := by
    rw [valFB_fromBits, List.map_drop, v, bitsOf_drop]
    have hq0 : 0 ≤ a.value / 2 ^ n.toNat := Int.ediv_nonneg h0 (by positivity)
    simp only [Option.getD_none] at hlt ⊢
    by_cases hk : n.toNat ≤ s.bitlength
    · rw [bitsVal_bitsOf _ _ _ hq0]
      · simp
      · rw [Int.ediv_lt_iff_lt_mul (by positivity), ← pow_add, Nat.sub_add_cancel hk]; exact hlt
    · have hz : a.value / 2 ^ n.toNat = 0 := by
        apply Int.ediv_eq_zero_of_lt h0
        calc a.value < 2 ^ s.bitlength := hlt
          _ ≤ 2 ^ n.toNat := by
            exact_mod_cast Nat.pow_le_pow_right (by norm_num) (by omega : s.bitlength ≤ n.toNat)
      rw [hz, show s.bitlength - n.toNat = 0 by omega]
      simp [Py.bitsOf, bitsVal]
  exact ⟨sm, key, by rw [key, Int.shiftRight_eq_div_pow]; push_cast; rfl⟩

/-! ## a generic value lemma for `mapM'` -/
theorem mapM'_val {α : Type} (f : α → M LinComb) (g : α → Int) (P : St → Prop)
    (hP : ∀ s s', Same s s' → P s → P s')
    (hf : ∀ x s s' r, P s → f x s = .ok (r, s') → Same s s' ∧ r.value = g x) :
    ∀ (xs : List α) {s s' : St} {rs : List LinComb}, P s → mapM' f xs s = .ok (rs, s') →
      Same s s' ∧ rs.map (·.value) = xs.map g
  | [], s, s', rs, _, h => by
    unfold mapM' at h
    obtain ⟨rfl, rfl⟩ := pure_ok.mp h
    exact ⟨Same.refl _, rfl⟩
  | x :: xs, s, s', rs, hs, h => by
    unfold mapM' at h
    obtain ⟨y, s1, h1, h2⟩ := bind_ok.mp h
    obtain ⟨ys, s2, h3, h4⟩ := bind_ok.mp h2
    obtain ⟨rfl, rfl⟩ := pure_ok.mp h4
    obtain ⟨sm1, v1⟩ := hf x s s1 y hs h1
    obtain ⟨sm2, v2⟩ := mapM'_val f g P hP hf xs (hP _ _ sm1 hs) h3
    exact ⟨sm1.trans sm2, by simp [v1, v2]⟩

theorem map_zip_values (op : Int → Int → Int) : ∀ (as bs : List LinComb),
    (as.zip bs).map (fun xy => op xy.1.value xy.2.value) =
      List.zipWith op (as.map (·.value)) (bs.map (·.value))
  | [], _ => by simp
  | _ :: _, [] => by simp
  | a :: as, b :: bs => by simp [map_zip_values op as bs]

/-! ## bitwise operations on bit lists -/
theorem bitsOf_natCast_succ (a n : Nat) :
    Py.bitsOf (a : Int) (n+1) = ((a % 2 : Nat) : Int) :: Py.bitsOf ((a / 2 : Nat) : Int) n := by
  rw [bitsOf_succ, Int.natCast_mod, Int.natCast_div]; rfl

theorem nat_mod_pow_succ (x n : Nat) : x % 2 ^ (n+1) = x % 2 + 2 * (x / 2 % 2 ^ n) := by
  rw [pow_succ', Nat.mod_mul]

/-- bit-by-bit application of `op` computes the binary operation `OP` -/
theorem bitsVal_zipWith_op (op : Int → Int → Int) (OP : Nat → Nat → Nat)
    (hdiv : ∀ a b, OP a b / 2 = OP (a / 2) (b / 2))
    (hmod : ∀ a b, ((OP a b % 2 : Nat) : Int) = op ((a % 2 : Nat) : Int) ((b % 2 : Nat) : Int)) :
    ∀ (n a b i : Nat),
      bitsVal (List.zipWith op (Py.bitsOf (a : Int) n) (Py.bitsOf (b : Int) n)) i =
        2 ^ i * ((OP a b % 2 ^ n : Nat) : Int)
  | 0, a, b, i => by simp [Py.bitsOf, bitsVal, Nat.mod_one]
  | n+1, a, b, i => by
    rw [bitsOf_natCast_succ, bitsOf_natCast_succ, List.zipWith_cons_cons, bitsVal,
      bitsVal_zipWith_op op OP hdiv hmod n (a / 2) (b / 2) (i+1), ← hmod, ← hdiv, nat_mod_pow_succ]
    push_cast
    ring

theorem and_mod_two (a b : Nat) : (((a &&& b) % 2 : Nat) : Int) = ((a % 2 : Nat) : Int) * ((b % 2 : Nat) : Int) := by
  have h := @Nat.and_mod_two_pow a b 1
  rw [pow_one] at h
  rw [h]
  rcases Nat.mod_two_eq_zero_or_one a with ha | ha <;> rcases Nat.mod_two_eq_zero_or_one b with hb | hb <;>
    simp [ha, hb]

theorem or_mod_two (a b : Nat) : (((a ||| b) % 2 : Nat) : Int) =
    ((b % 2 : Nat) : Int) + ((a % 2 : Nat) : Int) - ((b % 2 : Nat) : Int) * ((a % 2 : Nat) : Int) := by
  have h := @Nat.or_mod_two_pow a b 1
  rw [pow_one] at h
  rw [h]
  rcases Nat.mod_two_eq_zero_or_one a with ha | ha <;> rcases Nat.mod_two_eq_zero_or_one b with hb | hb <;>
    simp [ha, hb]

theorem xor_mod_two (a b : Nat) : (((a ^^^ b) % 2 : Nat) : Int) =
    ((b % 2 : Nat) : Int) + ((a % 2 : Nat) : Int) - ((b % 2 : Nat) : Int) * (((a % 2 : Nat) : Int) * 2) := by
  have h := @Nat.xor_mod_two_pow a b 1
  rw [pow_one] at h
  rw [h]
  rcases Nat.mod_two_eq_zero_or_one a with ha | ha <;> rcases Nat.mod_two_eq_zero_or_one b with hb | hb <;>
    simp [ha, hb]

/-- common skeleton of `&`, `|`, `^` on two secret integers: both operands are decomposed
(which checks `0 ≤ v < 2^bitlength`), `f` is applied bit by bit, the result is recomposed -/
theorem bitwiseLL_val {s s' : St} {a b : LinComb} {o : Option LinComb}
    (f : LinComb × LinComb → M LinComb) (op : Int → Int → Int) (OP : Nat → Nat → Nat)
    (hf : ∀ xy s s' r, f xy s = .ok (r, s') → Same s s' ∧ r.value = op xy.1.value xy.2.value)
    (hdiv : ∀ a b, OP a b / 2 = OP (a / 2) (b / 2))
    (hmod : ∀ a b, ((OP a b % 2 : Nat) : Int) = op ((a % 2 : Nat) : Int) ((b % 2 : Nat) : Int))
    (hlt : ∀ a b n, a < 2 ^ n → b < 2 ^ n → OP a b < 2 ^ n)
    (hi : s.ignoreErrors = false)
    (h : (do let ab ← toBits a none
             let bb ← toBits b none
             let res ← mapM' f (ab.zip bb)
             pure (fromBits res) : M (Option LinComb)) s = .ok (o, s')) :
    Same s s' ∧ 0 ≤ a.value ∧ 0 ≤ b.value ∧ Py.bitLength a.value ≤ s.bitlength ∧
      Py.bitLength b.value ≤ s.bitlength ∧ valFB o = ((OP a.value.toNat b.value.toNat : Nat) : Int) := by
  obtain ⟨ab, s1, h1, h⟩ := bind_ok.mp h
  obtain ⟨bb, s2, h2, h⟩ := bind_ok.mp h
  obtain ⟨res, s3, h3, h⟩ := bind_ok.mp h
  obtain ⟨rfl, rfl⟩ := pure_ok' h
  obtain ⟨sm1, va, ra⟩ := toBits_val h1
  obtain ⟨sm2, vb, rb⟩ := toBits_val h2
  obtain ⟨a0, abl⟩ := ra hi
  obtain ⟨b0, bbl⟩ := rb (sm1.ign_false hi)
  simp only [Option.getD_none] at va vb abl bbl
  rw [sm1.bl] at vb bbl
  obtain ⟨sm3, vr⟩ := mapM'_val f (fun xy => op xy.1.value xy.2.value) (fun _ => True)
    (fun _ _ _ _ => trivial) (fun xy s s' r _ h => hf xy s s' r h) _ trivial h3
  refine ⟨(sm1.trans sm2).trans sm3, a0, b0, abl, bbl, ?_⟩
  obtain ⟨A, hA⟩ := Int.eq_ofNat_of_zero_le a0
  obtain ⟨B, hB⟩ := Int.eq_ofNat_of_zero_le b0
  have la : A < 2 ^ s.bitlength := by
    have := lt_pow_of_fits a0 abl
    rw [hA] at this; exact_mod_cast this
  have lb : B < 2 ^ s.bitlength := by
    have := lt_pow_of_fits b0 bbl
    rw [hB] at this; exact_mod_cast this
  rw [valFB_fromBits, vr, map_zip_values, va, vb, hA, hB,
    bitsVal_zipWith_op op OP hdiv hmod, Nat.mod_eq_of_lt (hlt _ _ _ la lb)]
  simp

theorem mulBB_val {s s' : St} {x y r : LinComb} (h : mulBB x y s = .ok (r, s')) :
    Same s s' ∧ r.value = x.value * y.value := by
  unfold mulBB at h
  obtain ⟨sm, v⟩ := mulLL_val h
  exact ⟨sm, by rw [v, mul_comm]⟩

section bwv
variable {s s' : St} {a b : LinComb} {o : Option LinComb}

/-- `a & b` on two secret integers is Python's `&` of the two (non-negative) values -/
theorem andLL_val (hi : s.ignoreErrors = false) (h : andLL a b s = .ok (o, s')) :
    Same s s' ∧ 0 ≤ a.value ∧ 0 ≤ b.value ∧ Py.bitLength a.value ≤ s.bitlength ∧
      Py.bitLength b.value ≤ s.bitlength ∧ valFB o = ((a.value.toNat &&& b.value.toNat : Nat) : Int) := by
  unfold andLL at h
  exact bitwiseLL_val _ (· * ·) (· &&& ·) (fun xy s s' r h => mulBB_val h)
    (fun a b => Nat.and_div_two) and_mod_two (fun a b n _ hb => Nat.and_lt_two_pow a hb) hi h

theorem orLL_val (hi : s.ignoreErrors = false) (h : orLL a b s = .ok (o, s')) :
    Same s s' ∧ 0 ≤ a.value ∧ 0 ≤ b.value ∧ Py.bitLength a.value ≤ s.bitlength ∧
      Py.bitLength b.value ≤ s.bitlength ∧ valFB o = ((a.value.toNat ||| b.value.toNat : Nat) : Int) := by
  unfold orLL at h
  refine bitwiseLL_val _ (fun x y => y + x - y * x) (· ||| ·) ?_
    (fun a b => Nat.or_div_two) or_mod_two (fun a b n ha hb => Nat.or_lt_two_pow ha hb) hi h
  intro xy s s' r h
  obtain ⟨p, s1, h1, h⟩ := bind_ok.mp h
  obtain ⟨rfl, rfl⟩ := pure_ok' h
  obtain ⟨sm, v⟩ := mulBB_val h1
  exact ⟨sm, by rw [sub_value, add_value, v]; ring⟩

theorem xorLL_val (hi : s.ignoreErrors = false) (h : xorLL a b s = .ok (o, s')) :
    Same s s' ∧ 0 ≤ a.value ∧ 0 ≤ b.value ∧ Py.bitLength a.value ≤ s.bitlength ∧
      Py.bitLength b.value ≤ s.bitlength ∧ valFB o = ((a.value.toNat ^^^ b.value.toNat : Nat) : Int) := by
  unfold xorLL at h
  refine bitwiseLL_val _ (fun x y => y + x - y * (x * 2)) (· ^^^ ·) ?_
    (fun a b => Nat.xor_div_two) xor_mod_two (fun a b n ha hb => Nat.xor_lt_two_pow ha hb) hi h
  intro xy s s' r h
  obtain ⟨p, s1, h1, h⟩ := bind_ok.mp h
  obtain ⟨rfl, rfl⟩ := pure_ok' h
  obtain ⟨sm, v⟩ := mulLL_val h1
  exact ⟨sm, by rw [sub_value, add_value, v, mulI_value]⟩
end bwv

/-! ## `~x`: the fixed-width complement (RECORDED DEVIATION from Python's `-x-1`) -/
theorem bitsVal_not_bitsOf : ∀ (n : Nat) (v : Int) (i : Nat), 0 ≤ v → v < 2 ^ n →
    bitsVal ((Py.bitsOf v n).map (fun b => 1 - b)) i = 2 ^ i * (2 ^ n - 1 - v)
  | 0, v, i, h0, h1 => by
    have : v = 0 := by simp at h1; omega
    simp [Py.bitsOf, bitsVal, this]
  | n+1, v, i, h0, h1 => by
    rw [bitsOf_succ, List.map_cons, bitsVal,
      bitsVal_not_bitsOf n (v / 2) (i+1) (by omega) (by rw [pow_succ] at h1; omega)]
    have := Int.emod_add_mul_ediv v 2
    rw [pow_succ, pow_succ]
    linear_combination (-(2:Int) ^ i) * this

theorem invertL_val {s s' : St} {a : LinComb} {o : Option LinComb} (hi : s.ignoreErrors = false)
    (h : invertL a s = .ok (o, s')) :
    Same s s' ∧ 0 ≤ a.value ∧ Py.bitLength a.value ≤ s.bitlength ∧
      valFB o = 2 ^ s.bitlength - 1 - a.value := by
  unfold invertL at h
  obtain ⟨bits, s1, h1, h⟩ := bind_ok.mp h
  obtain ⟨inv, s2, h2, h⟩ := bind_ok.mp h
  obtain ⟨rfl, rfl⟩ := pure_ok' h
  obtain ⟨sm1, va, ra⟩ := toBits_val h1
  obtain ⟨a0, abl⟩ := ra hi
  simp only [Option.getD_none] at va abl
  obtain ⟨sm2, vr⟩ := mapM'_val boolNot (fun b => 1 - b.value) (fun _ => True)
    (fun _ _ _ _ => trivial) (fun b s s' r _ h => ⟨(boolNot_val h).1, (boolNot_val h).2.1⟩) _ trivial h2
  refine ⟨sm1.trans sm2, a0, abl, ?_⟩
  have : bits.map (fun b => 1 - b.value) = (bits.map (·.value)).map (fun b => 1 - b) := by
    rw [List.map_map]; rfl
  rw [valFB_fromBits, vr, this, va, bitsVal_not_bitsOf _ _ _ a0 (lt_pow_of_fits a0 abl)]
  simp

/-! ## `x ** e` with a secret exponent (values are reduced modulo `p` along the way) -/
/-- the squaring chain `powers[1:]` -/
def powList (p : Int) : Nat → Int → List Int
  | 0, _ => []
  | n+1, c => (c * c % p) :: powList p n (c * c % p)

/-- `if bit == 1 then power else 1` -/
def sel (b pw : Int) : Int := if b = 1 then pw else 1

/-- the natural number with the given little-endian bits -/
def natVal : List Int → Nat
  | [] => 0
  | b :: bs => b.toNat + 2 * natVal bs

theorem natVal_bitsOf : ∀ (n : Nat) (e : Int), 0 ≤ e → e < 2 ^ n → natVal (Py.bitsOf e n) = e.toNat
  | 0, e, h0, h1 => by
    have : e = 0 := by simp at h1; omega
    simp [Py.bitsOf, natVal, this]
  | n+1, e, h0, h1 => by
    rw [bitsOf_succ, natVal, natVal_bitsOf n (e / 2) (by omega) (by rw [pow_succ] at h1; omega)]
    omega

theorem powersAux_val : ∀ (n : Nat) {curr : LinComb} {p : Int} {s s' : St} {rs : List LinComb},
    powersAux n curr p s = .ok (rs, s') → Same s s' ∧ rs.map (·.value) = powList p n curr.value
  | 0, curr, p, s, s', rs, h => by
    unfold powersAux at h
    obtain ⟨rfl, rfl⟩ := pure_ok' h
    exact ⟨Same.refl _, rfl⟩
  | n+1, curr, p, s, s', rs, h => by
    unfold powersAux at h
    obtain ⟨c, s1, h1, h⟩ := bind_ok.mp h
    obtain ⟨rest, s2, h2, h⟩ := bind_ok.mp h
    obtain ⟨rfl, rfl⟩ := pure_ok' h
    obtain ⟨sm1, v1⟩ := mulLL_val h1
    obtain ⟨sm2, v2⟩ := powersAux_val n h2
    refine ⟨sm1.trans sm2, ?_⟩
    rw [List.map_cons, v2, reduceValue_value, v1]
    rfl

theorem prod_sel_powList (p : Int) : ∀ (bs : List Int) (c : Int), (∀ b ∈ bs, b = 0 ∨ b = 1) →
    ((bs.zip (c :: powList p bs.length c)).map (fun bp => sel bp.1 bp.2)).prod ≡ c ^ natVal bs [ZMOD p]
  | [], c, _ => by simp [natVal]
  | b :: bs, c, hb => by
    have ih := prod_sel_powList p bs (c * c % p) (fun b' hb' => hb b' (List.mem_cons_of_mem _ hb'))
    have e : (b :: bs).zip (c :: powList p (b :: bs).length c) =
        (b, c) :: bs.zip ((c * c % p) :: powList p bs.length (c * c % p)) := rfl
    rw [e, List.map_cons, List.prod_cons, natVal, pow_add, pow_mul]
    have h1 : sel b c = c ^ b.toNat := by
      rcases hb b (List.mem_cons_self ..) with h | h <;> simp [sel, h]
    rw [h1]
    refine Int.ModEq.mul (Int.ModEq.refl _) (ih.trans ?_)
    rw [sq]
    exact Int.ModEq.pow _ (Int.mod_modEq _ _)

theorem mulAll_val {s0 : St} : ∀ (ms : List LinComb) {acc : LinComb} {s s' : St} {r : LinComb},
    powLL.mulAll s0 ms acc s = .ok (r, s') →
      Same s s' ∧ r.value ≡ acc.value * (ms.map (·.value)).prod [ZMOD s0.p]
  | [], acc, s, s', r, h => by
    unfold powLL.mulAll at h
    obtain ⟨rfl, rfl⟩ := pure_ok' h
    exact ⟨Same.refl _, by simp⟩
  | m :: ms, acc, s, s', r, h => by
    unfold powLL.mulAll at h
    obtain ⟨r1, s1, h1, h⟩ := bind_ok.mp h
    obtain ⟨sm1, v1⟩ := mulLL_val h1
    obtain ⟨sm2, v2⟩ := mulAll_val ms h
    refine ⟨sm1.trans sm2, v2.trans ?_⟩
    rw [reduceValue_value, v1, List.map_cons, List.prod_cons, ← mul_assoc]
    exact Int.ModEq.mul (Int.mod_modEq _ _) (Int.ModEq.refl _)

theorem ensureboolI_val {s s' : St} {v : Int} {r : LinComb} (h : ensureboolI v s = .ok (r, s')) :
    Same s s' ∧ r.value = v := by
  unfold ensureboolI at h
  split at h
  · cases h
  · obtain ⟨sm, rfl, -⟩ := mkBool_val h
    exact ⟨sm, rfl⟩

/-- RECORDED DEVIATION: the result is only congruent to the Python value modulo the field prime
(it is reduced at every step), so e.g. a negative base gives `p − |x|` instead of a negative number.
`s.one.value = 1` holds outside guards and under a true guard. -/
theorem powLL_val {s s' : St} {a e r : LinComb} (hi : s.ignoreErrors = false) (hone : s.one.value = 1)
    (h : powLL a e s = .ok (r, s')) :
    Same s s' ∧ 0 ≤ e.value ∧ Py.bitLength e.value ≤ s.bitlength ∧
      r.value ≡ a.value ^ e.value.toNat [ZMOD s.p] := by
  unfold powLL at h
  obtain ⟨ebits, s1, h1, h⟩ := bind_ok.mp h
  rw [getSt_bind] at h
  obtain ⟨tail, s2, h2, h⟩ := bind_ok.mp h
  obtain ⟨mults, s3, h3, h⟩ := bind_ok.mp h
  rw [getSt_bind] at h
  obtain ⟨sm1, ve, re⟩ := toBits_val h1
  obtain ⟨e0, ebl⟩ := re hi
  simp only [Option.getD_none] at ve ebl
  obtain ⟨sm2, vt⟩ := powersAux_val _ h2
  have hmap := mapM'_val (fun (bp : LinComb × LinComb) => do
      let one ← ensureboolI 1
      let c ← eqLL bp.1 one
      let s' ← getSt
      iteLLL c bp.2 s'.one)
    (fun bp => sel bp.1.value bp.2.value) (fun s => s.one.value = 1)
    (fun s s' sm hs => by rw [sm.one]; exact hs)
    (by
      intro bp s s' r hs h
      obtain ⟨one, s1, h1, h⟩ := bind_ok.mp h
      obtain ⟨c, s2, h2, h⟩ := bind_ok.mp h
      rw [getSt_bind] at h
      obtain ⟨sm1, v1⟩ := ensureboolI_val h1
      obtain ⟨sm2, v2⟩ := eqLL_val h2
      obtain ⟨sm3, v3⟩ := iteLLL_val h
      refine ⟨(sm1.trans sm2).trans sm3, ?_⟩
      rw [v3, v2, v1, (sm1.trans sm2).one, hs]
      unfold sel
      split <;> ring)
    _ (s := s2) (by rw [(sm1.trans sm2).one]; exact hone) h3
  obtain ⟨sm3, vm⟩ := hmap
  obtain ⟨sm4, vr⟩ := mulAll_val mults h
  have sm13 := (sm1.trans sm2).trans sm3
  refine ⟨sm13.trans sm4, e0, ebl, ?_⟩
  rw [sm13.p] at vr
  rw [sm13.one, hone, one_mul, vm] at vr
  have hz : (ebits.zip (a :: tail)).map (fun bp => sel bp.1.value bp.2.value) =
      ((ebits.map (·.value)).zip ((a :: tail).map (·.value))).map (fun bp => sel bp.1 bp.2) := by
    rw [List.zip_map, List.map_map]; rfl
  have hl : ebits.length = (ebits.map (·.value)).length := by simp
  rw [hz, List.map_cons, vt, hl, ve] at vr
  refine vr.trans ?_
  rw [sm1.p]
  have := prod_sel_powList s.p (Py.bitsOf e.value s.bitlength) a.value (bitsOf_01 _ _)
  rw [natVal_bitsOf _ _ e0 (lt_pow_of_fits e0 ebl)] at this
  exact this

/-! ## `check_zero` over a prime field: raises exactly on non-zero multiples of the modulus -/
theorem checkZero_ok_iff_prime {s : St} {x : LinComb} (hP : PrimeP s) :
    (∃ r s', checkZero x s = .ok (r, s')) ↔ ¬ (x.value ≠ 0 ∧ x.value % s.p = 0) := by
  rw [checkZero_ok_iff]
  obtain ⟨q, hq, e⟩ := hP
  rw [e]
  by_cases hz : x.value = 0
  · simp only [hz, beq_self_eq_true, if_true, zero_add, ne_eq, not_true_eq_false, false_and,
      not_false_eq_true, iff_true]
    have h1 : (1 : Int) % (q : Int) ≠ 0 := by
      have : (1 : Int) < q := by exact_mod_cast hq.one_lt
      rw [Int.emod_eq_of_lt (by norm_num) this]; norm_num
    obtain ⟨y, hy, -⟩ := Py.invert_correct hq 1 h1
    rw [hy]; rfl
  · have hb : (x.value == 0) = false := by simpa using hz
    simp only [hb, Bool.false_eq_true, if_false, add_zero, ne_eq, hz, not_false_eq_true, true_and]
    by_cases hm : x.value % (q : Int) = 0
    · rw [Py.invert_none hq _ hm]; simp [hm]
    · obtain ⟨y, hy, -⟩ := Py.invert_correct hq _ hm
      rw [hy]; simp [hm]

/-! ## comparison dispatch on two `LinComb`s -/
/-- Python's comparison as 0/1 -/
def cmpSem : Cmp → Int → Int → Int
  | .lt, a, b => if a < b then 1 else 0
  | .le, a, b => if a ≤ b then 1 else 0
  | .eq, a, b => if a = b then 1 else 0
  | .ne, a, b => if a ≠ b then 1 else 0
  | .gt, a, b => if a > b then 1 else 0
  | .ge, a, b => if a ≥ b then 1 else 0

theorem cmpLL_val {s s' : St} {op : Cmp} {x y r : LinComb} (hg : s.guard = none)
    (hi : s.ignoreErrors = false) (h : cmpLL op x y s = .ok (r, s')) :
    Same s s' ∧ r.value = cmpSem op x.value y.value := by
  cases op <;> simp only [cmpLL, cmpSem] at h ⊢
  · exact ltLL_val hg hi h
  · exact leLL_val hg hi h
  · exact eqLL_val h
  · obtain ⟨sm, v⟩ := neLL_val h
    exact ⟨sm, by rw [v]; split <;> simp_all⟩
  · exact gtLL_val hg hi h
  · exact geLL_val hg hi h

end Pysnark
