import PysnarkModel.Lemmas.Values
import PysnarkModel.Lemmas.InvVal
/-!
# Value lemmas at the level of the operator dispatch (`Model/Val.lean`), integer operands

What `x op y` returns when `x` is a secret integer (`Val.lc`) and `y` is a secret integer or a plain
`int` (and the reflected case): the dispatch ends in the typed gadgets of `Lemmas/Values.lean`.
-/
namespace Pysnark

/-- a secret integer or a plain `int` -/
def IsIntV : Val → Prop
  | .lc _ => True
  | .int _ => True
  | _ => False

/-- its Python value -/
def ival : Val → Int
  | .lc y => y.value
  | .int c => c
  | _ => 0

/-- the value carried by a result (of any secret class) -/
def Val.num : Val → Int
  | .lc y => y.value
  | .lcb y => y.value
  | .fxp y => y.value
  | .int c => c
  | _ => 0

theorem num_ofFB (o : Option LinComb) : (ofFB o).num = valFB o := by cases o <;> rfl

section
variable {s s' : St} {a : LinComb} {o v : Val}

/-! ### `+`, `-`, `*` -/
theorem addLV_int_val (ho : IsIntV o) (h : addLV a o s = .ok (v, s')) :
    s' = s ∧ ∃ z, v = .lc z ∧ z.value = a.value + ival o := by
  unfold addLV at h
  cases o <;> simp only [IsIntV] at ho <;> simp only at h
  all_goals (obtain ⟨rfl, rfl⟩ := pure_ok' h; exact ⟨rfl, _, rfl, rfl⟩)

theorem subLV_val (ho : IsIntV o) (h : subV (.lc a) o s = .ok (v, s')) :
    s' = s ∧ ∃ z, v = .lc z ∧ z.value = a.value - ival o := by
  unfold subV at h
  cases o <;> simp only [IsIntV] at ho <;> simp only at h
  all_goals
    obtain ⟨nb, s1, h1, h2⟩ := bind_ok.mp h
    unfold negV at h1
    obtain ⟨rfl, rfl⟩ := pure_ok' h1
    unfold addV addLV at h2
    obtain ⟨rfl, rfl⟩ := pure_ok' h2
    exact ⟨rfl, _, rfl, by simp [ival]; ring⟩

theorem rsubLV_val (ho : IsIntV o) (h : subV o (.lc a) s = .ok (v, s')) :
    s' = s ∧ ∃ z, v = .lc z ∧ z.value = ival o - a.value := by
  unfold subV at h
  cases o <;> simp only [IsIntV] at ho <;> simp only at h
  all_goals
    obtain ⟨nb, s1, h1, h2⟩ := bind_ok.mp h
    unfold negV at h1
    obtain ⟨rfl, rfl⟩ := pure_ok' h1
    unfold addV addLV at h2
    obtain ⟨rfl, rfl⟩ := pure_ok' h2
    exact ⟨rfl, _, rfl, by simp [ival]; ring⟩

theorem mulLV_int_val (ho : IsIntV o) (h : mulLV a o s = .ok (v, s')) :
    Same s s' ∧ ∃ z, v = .lc z ∧ z.value = a.value * ival o := by
  unfold mulLV at h
  cases o <;> simp only [IsIntV] at ho <;> simp only at h
  · obtain ⟨rfl, rfl⟩ := pure_ok' h; exact ⟨Same.refl _, _, rfl, rfl⟩
  · obtain ⟨r, s1, h1, h⟩ := bind_ok.mp h
    obtain ⟨rfl, rfl⟩ := pure_ok' h
    obtain ⟨sm, v1⟩ := mulLL_val h1
    exact ⟨sm, _, rfl, v1⟩

/-! ### comparisons -/
theorem checkPositiveV_lc_val {d : LinComb} (hp : Plain s) (h : checkPositiveV (.lc d) s = .ok (v, s')) :
    Same s s' ∧ ∃ r, v = .lcb r ∧ r.value = if d.value ≥ 0 then 1 else 0 := by
  unfold checkPositiveV at h
  obtain ⟨r, s1, h1, h⟩ := bind_ok.mp h
  obtain ⟨rfl, rfl⟩ := pure_ok' h
  obtain ⟨sm, vr, -⟩ := checkPositive_val hp.guard hp.ign h1
  exact ⟨sm, r, rfl, vr⟩

theorem checkZeroV_lc_val {d : LinComb} (h : checkZeroV (.lc d) s = .ok (v, s')) :
    Same s s' ∧ ∃ r, v = .lcb r ∧ r.value = if d.value = 0 then 1 else 0 := by
  unfold checkZeroV at h
  obtain ⟨r, s1, h1, h⟩ := bind_ok.mp h
  obtain ⟨rfl, rfl⟩ := pure_ok' h
  obtain ⟨sm, vr⟩ := checkZero_val h1
  exact ⟨sm, r, rfl, vr⟩

theorem checkNonzeroV_lc_val {d : LinComb} (h : checkNonzeroV (.lc d) s = .ok (v, s')) :
    Same s s' ∧ ∃ r, v = .lcb r ∧ r.value = if d.value = 0 then 0 else 1 := by
  unfold checkNonzeroV at h
  obtain ⟨r, s1, h1, h⟩ := bind_ok.mp h
  obtain ⟨rfl, rfl⟩ := pure_ok' h
  obtain ⟨sm, vr⟩ := checkNonzero_val h1
  exact ⟨sm, r, rfl, vr⟩

/-- `x < y`, `x <= y`, … with `x` a secret integer and `y` a secret integer or an int -/
theorem cmpLV_int_val {op : Cmp} (hp : Plain s) (ho : IsIntV o) (h : cmpLV op a o s = .ok (v, s')) :
    Same s s' ∧ ∃ r, v = .lcb r ∧ r.value = cmpSem op a.value (ival o) := by
  unfold cmpLV at h
  cases op <;> simp only at h
  · obtain ⟨d, s1, h1, h⟩ := bind_ok.mp h
    obtain ⟨rfl, d1, rfl, vd1⟩ := rsubLV_val ho h1
    obtain ⟨d', s2, h2, h⟩ := bind_ok.mp h
    obtain ⟨rfl, d2, rfl, vd2⟩ := subLV_val (o := .int 1) trivial h2
    obtain ⟨sm, r, rfl, vr⟩ := checkPositiveV_lc_val hp h
    refine ⟨sm, r, rfl, ?_⟩
    rw [vr, vd2, vd1, show ival (Val.int 1) = 1 from rfl]; simp only [cmpSem]
    split <;> split <;> first | rfl | omega
  · obtain ⟨d, s1, h1, h⟩ := bind_ok.mp h
    obtain ⟨rfl, d1, rfl, vd1⟩ := rsubLV_val ho h1
    obtain ⟨sm, r, rfl, vr⟩ := checkPositiveV_lc_val hp h
    refine ⟨sm, r, rfl, ?_⟩
    rw [vr, vd1]; simp only [cmpSem]
    split <;> split <;> first | rfl | omega
  · obtain ⟨d, s1, h1, h⟩ := bind_ok.mp h
    obtain ⟨rfl, d1, rfl, vd1⟩ := subLV_val ho h1
    obtain ⟨sm, r, rfl, vr⟩ := checkZeroV_lc_val h
    refine ⟨sm, r, rfl, ?_⟩
    rw [vr, vd1]; simp only [cmpSem]
    split <;> split <;> first | rfl | omega
  · obtain ⟨d, s1, h1, h⟩ := bind_ok.mp h
    obtain ⟨rfl, d1, rfl, vd1⟩ := subLV_val ho h1
    obtain ⟨sm, r, rfl, vr⟩ := checkNonzeroV_lc_val h
    refine ⟨sm, r, rfl, ?_⟩
    rw [vr, vd1]; simp only [cmpSem]
    split <;> split <;> first | rfl | omega
  · obtain ⟨d, s1, h1, h⟩ := bind_ok.mp h
    obtain ⟨rfl, d1, rfl, vd1⟩ := subLV_val ho h1
    obtain ⟨d', s2, h2, h⟩ := bind_ok.mp h
    obtain ⟨rfl, d2, rfl, vd2⟩ := subLV_val (o := .int 1) trivial h2
    obtain ⟨sm, r, rfl, vr⟩ := checkPositiveV_lc_val hp h
    refine ⟨sm, r, rfl, ?_⟩
    rw [vr, vd2, vd1, show ival (Val.int 1) = 1 from rfl]; simp only [cmpSem]
    split <;> split <;> first | rfl | omega
  · obtain ⟨d, s1, h1, h⟩ := bind_ok.mp h
    obtain ⟨rfl, d1, rfl, vd1⟩ := subLV_val ho h1
    obtain ⟨sm, r, rfl, vr⟩ := checkPositiveV_lc_val hp h
    refine ⟨sm, r, rfl, ?_⟩
    rw [vr, vd1]; simp only [cmpSem]
    split <;> split <;> first | rfl | omega

theorem cmpSem_mirror (op : Cmp) (x y : Int) : cmpSem op.mirror x y = cmpSem op y x := by
  cases op <;> simp only [Cmp.mirror, cmpSem] <;> split <;> split <;> first | rfl | omega

/-- `cmpV` on a secret integer and a secret integer / an int, in either order -/
theorem cmpV_int_val {op : Cmp} {x y : Val} (hp : Plain s) (hx : IsIntV x) (hy : IsIntV y)
    (hs : (∃ a, x = .lc a) ∨ ∃ b, y = .lc b) (h : cmpV op x y s = .ok (v, s')) :
    Same s s' ∧ ∃ r, v = .lcb r ∧ r.value = cmpSem op (ival x) (ival y) := by
  unfold cmpV at h
  cases x <;> simp only [IsIntV] at hx <;> simp only at h
  · -- x an int: y must be the secret
    rcases hs with ⟨a, ha⟩ | ⟨b, rfl⟩
    · cases ha
    · simp only at h
      obtain ⟨sm, r, rfl, vr⟩ := cmpLV_int_val hp (o := .int _) trivial h
      exact ⟨sm, r, rfl, by rw [vr, cmpSem_mirror]; rfl⟩
  · cases y <;> simp only [IsIntV] at hy <;> simp only at h <;> exact cmpLV_int_val hp trivial h

/-! ### `//`, `%`, `divmod`, `/` -/
theorem divmodV_int_val {w : DM} (ho : IsIntV o) (h : divmodV w (.lc a) o s = .ok (v, s')) :
    Same s s' ∧ ∃ qr : LinComb × LinComb, v = pickL w qr ∧
      qr.1.value = Py.floordiv a.value (ival o) ∧ qr.2.value = Py.mod a.value (ival o) := by
  unfold divmodV at h
  simp only at h
  obtain ⟨oqr, s1, h1, h⟩ := bind_ok.mp h
  unfold divmodLV at h1
  cases o <;> simp only [IsIntV] at ho <;> simp only at h1
  all_goals
    obtain ⟨qr, s2, h2, h1⟩ := bind_ok.mp h1
    obtain ⟨rfl, rfl⟩ := pure_ok' h1
    simp only at h
    obtain ⟨rfl, rfl⟩ := pure_ok' h
    obtain ⟨sm, -, v1, v2, -⟩ := divmodLL_val h2
    exact ⟨sm, qr, rfl, v1, v2⟩

theorem truedivV_int_val (hp : Plain s) (ho : IsIntV o) (h : truedivV (.lc a) o s = .ok (v, s')) :
    Same s s' ∧ ∃ z, v = .lc z ∧ ival o ≠ 0 ∧ Py.mod a.value (ival o) = 0 ∧
      z.value = Py.floordiv a.value (ival o) ∧ z.value * ival o = a.value := by
  unfold truedivV at h
  cases o <;> simp only [IsIntV] at ho <;> simp only at h
  · obtain ⟨r, s1, h1, h⟩ := bind_ok.mp h
    obtain ⟨rfl, rfl⟩ := pure_ok' h
    obtain ⟨rfl, hr⟩ := truedivLI_val hp.guard hp.ign h1
    exact ⟨Same.refl _, r, rfl, hr⟩
  · obtain ⟨r, s1, h1, h⟩ := bind_ok.mp h
    obtain ⟨rfl, rfl⟩ := pure_ok' h
    obtain ⟨sm, hr⟩ := truedivLL_val hp.guard hp.ign h1
    exact ⟨sm, r, rfl, hr⟩

/-! ### `**`, shifts, bitwise, unary -/
theorem powV_int_val {n : Int} (hn : 1 ≤ n) (h : powV (.lc a) (.int n) s = .ok (v, s')) :
    Same s s' ∧ ∃ z, v = .lc z ∧ z.value = a.value ^ n.toNat := by
  unfold powV at h
  simp only at h
  split at h
  · exact (raise_ok.mp h).elim
  · split at h
    · exact (raise_ok.mp h).elim
    · obtain ⟨r, s1, h1, h⟩ := bind_ok.mp h
      obtain ⟨rfl, rfl⟩ := pure_ok' h
      obtain ⟨m, hm⟩ : ∃ m, n.toNat = m + 1 := ⟨n.toNat - 1, by omega⟩
      rw [hm] at h1 ⊢
      obtain ⟨sm, vr⟩ := powLN_val m h1
      exact ⟨sm, r, rfl, vr⟩

theorem lshiftLV_int_val {n : Int} (h : lshiftLV a (.int n) s = .ok (v, s')) :
    s' = s ∧ 0 ≤ n ∧ ∃ z, v = .lc z ∧ z.value = a.value * 2 ^ n.toNat := by
  unfold lshiftLV at h
  simp only at h
  split at h
  · exact (raise_ok.mp h).elim
  · obtain ⟨r, s1, h1, h⟩ := bind_ok.mp h
    obtain ⟨rfl, rfl⟩ := pure_ok' h
    obtain ⟨rfl, hn, vr⟩ := lshiftLI_val h1
    exact ⟨rfl, hn, r, rfl, vr⟩

theorem rshiftLV_int_val {n : Int} (hn : 0 ≤ n) (hi : s.ignoreErrors = false)
    (h : rshiftLV a (.int n) s = .ok (v, s')) : Same s s' ∧ v.num = a.value >>> n.toNat := by
  unfold rshiftLV at h
  simp only at h
  obtain ⟨r, s1, h1, h⟩ := bind_ok.mp h
  obtain ⟨rfl, rfl⟩ := pure_ok' h
  obtain ⟨sm, -, vr⟩ := rshiftLI_val hn hi h1
  exact ⟨sm, by rw [num_ofFB, vr]⟩

/-- a completed `x >> n` with a public count had `n ≥ 0` (a negative count raises `ValueError`) -/
theorem rshiftLV_int_nonneg {n : Int} (h : rshiftLV a (.int n) s = .ok (v, s')) : 0 ≤ n := by
  unfold rshiftLV at h
  simp only at h
  obtain ⟨r, s1, h1, -⟩ := bind_ok.mp h
  exact rshiftLI_ok_nonneg h1

/-- Python's `&`, `|`, `^` on non-negative integers -/
def bwSem : BW → Nat → Nat → Nat
  | .and, x, y => x &&& y
  | .or, x, y => x ||| y
  | .xor, x, y => x ^^^ y

theorem bwLV_lc_val {op : BW} {b : LinComb} (hi : s.ignoreErrors = false)
    (h : bwLV op a (.lc b) s = .ok (v, s')) :
    Same s s' ∧ 0 ≤ a.value ∧ 0 ≤ b.value ∧ v.num = ((bwSem op a.value.toNat b.value.toNat : Nat) : Int) := by
  unfold bwLV at h
  cases op <;> simp only at h
  · obtain ⟨r, s1, h1, h⟩ := bind_ok.mp h
    obtain ⟨rfl, rfl⟩ := pure_ok' h
    obtain ⟨sm, a0, b0, -, -, vr⟩ := andLL_val hi h1
    exact ⟨sm, a0, b0, by rw [num_ofFB, vr]; rfl⟩
  · obtain ⟨r, s1, h1, h⟩ := bind_ok.mp h
    obtain ⟨rfl, rfl⟩ := pure_ok' h
    obtain ⟨sm, a0, b0, -, -, vr⟩ := xorLL_val hi h1
    exact ⟨sm, a0, b0, by rw [num_ofFB, vr]; rfl⟩
  · obtain ⟨r, s1, h1, h⟩ := bind_ok.mp h
    obtain ⟨rfl, rfl⟩ := pure_ok' h
    obtain ⟨sm, a0, b0, -, -, vr⟩ := orLL_val hi h1
    exact ⟨sm, a0, b0, by rw [num_ofFB, vr]; rfl⟩

theorem absV_val (hp : Plain s) (h : unV .abs (.lc a) s = .ok (v, s')) :
    Same s s' ∧ ∃ z, v = .lc z ∧ z.value = |a.value| := by
  unfold unV at h
  simp only at h
  obtain ⟨r, s1, h1, h⟩ := bind_ok.mp h
  obtain ⟨rfl, rfl⟩ := pure_ok' h
  obtain ⟨sm, vr⟩ := absL_val hp.guard hp.ign h1
  exact ⟨sm, r, rfl, by rw [vr, Int.abs_eq_natAbs]⟩

theorem negV_lc_val (h : unV .neg (.lc a) s = .ok (v, s')) :
    s' = s ∧ ∃ z, v = .lc z ∧ z.value = -a.value := by
  unfold unV at h
  simp only at h
  unfold negV at h
  obtain ⟨rfl, rfl⟩ := pure_ok' h
  exact ⟨rfl, _, rfl, rfl⟩

/-- `if_then_else(c, t, f)` on a secret boolean and two secret integers -/
theorem ifThenElse_lc_val {c t f : LinComb} (hc : c.value = 0 ∨ c.value = 1)
    (h : ifThenElse (.lcb c) false (.lc t) (.lc f) s = .ok (v, s')) :
    Same s s' ∧ ∃ z, v = .lc z ∧ z.value = if c.value = 1 then t.value else f.value := by
  unfold ifThenElse at h
  simp only [smallIntSame, Bool.false_or, Bool.false_eq_true, if_false] at h
  simp only [Val.depth] at h
  unfold iteAux at h
  simp only [smallIntSame, Bool.false_eq_true] at h
  obtain ⟨f', s0, h0, h⟩ := bind_ok.mp h
  obtain ⟨rfl, rfl⟩ := pure_ok' h0
  obtain ⟨d, s1, h1, h⟩ := bind_ok.mp h
  obtain ⟨rfl, d1, rfl, vd1⟩ := subLV_val (o := .lc f) trivial h1
  obtain ⟨pr, s2, h2, h⟩ := bind_ok.mp h
  obtain ⟨sm, z, rfl, vz⟩ := mulLV_int_val (o := .lc d1) trivial h2
  unfold addV at h
  obtain ⟨rfl, w, rfl, vw⟩ := addLV_int_val (o := .lc z) trivial h
  refine ⟨sm, w, rfl, ?_⟩
  rw [vw]; simp only [ival]; rw [vz]; simp only [ival]; rw [vd1]; simp only [ival]
  rcases hc with h0 | h1
  · simp [h0]
  · simp [h1]
end

end Pysnark
