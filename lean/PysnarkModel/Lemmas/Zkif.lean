import PysnarkModel.Model.Zkif
import Mathlib.Tactic.Ring
import Mathlib.Tactic.Linarith
import Mathlib.Tactic.NormNum
import Mathlib.Data.Int.ModEq
import Mathlib.Data.List.GetD
import Mathlib.Data.List.Forall2
/-!
# Lemmas about the zkinterface message-tree model
-/
namespace Pysnark.Zkif
open Pysnark.Snarkjs

/-! ## the element width `BL` -/

theorem natAbs_lt_two_pow_bitLength (p : Int) : p.natAbs < 2 ^ Py.bitLength p := by
  unfold Py.bitLength
  split
  · rename_i h; rw [h]; norm_num
  · exact Nat.lt_log2_self

theorem le_pow_BL (p : Int) : p.natAbs < 256 ^ BL p := by
  have h1 := natAbs_lt_two_pow_bitLength p
  have h2 : Py.bitLength p ≤ 8 * BL p := by unfold BL; omega
  have h3 : (256 : Nat) ^ BL p = 2 ^ (8 * BL p) := by
    rw [pow_mul]; norm_num
  rw [h3]
  exact lt_of_lt_of_le h1 (Nat.pow_le_pow_right (by norm_num) h2)

/-- `BL` is the least byte count: one byte fewer does not hold `p` (for `p > 0`) -/
theorem BL_minimal (p : Int) (h0 : 0 < p) : 256 ^ (BL p - 1) ≤ p.natAbs := by
  have hne : p.natAbs ≠ 0 := by omega
  have hb : Py.bitLength p = p.natAbs.log2 + 1 := by unfold Py.bitLength; rw [if_neg hne]
  have h1 : 2 ^ p.natAbs.log2 ≤ p.natAbs := Nat.log2_self_le hne
  have h3 : (256 : Nat) ^ (BL p - 1) = 2 ^ (8 * (BL p - 1)) := by
    rw [pow_mul]; norm_num
  rw [h3]
  refine le_trans (Nat.pow_le_pow_right (by norm_num) ?_) h1
  unfold BL; omega

theorem emod_fits (p : Int) (h0 : 0 < p) (v : Int) : (v % p).toNat < 256 ^ BL p := by
  have h1 := Int.emod_lt_of_pos v h0
  have h2 := Int.emod_nonneg v (show p ≠ 0 by omega)
  have h3 := le_pow_BL p
  omega

theorem max_fits (p : Int) (_h0 : 0 < p) : (p - 1).toNat < 256 ^ BL p := by
  have h3 := le_pow_BL p
  omega

/-! ## well-formed keys -/

/-- every key of the LC names the constant one, an existing public or an existing private value -/
def keysOK (t : Trace) (l : KLC) : Prop :=
  ∀ kc ∈ l, -(t.privs.length : Int) ≤ kc.1 ∧ kc.1 ≤ (t.pubs.length : Int)

instance (t : Trace) (l : KLC) : Decidable (keysOK t l) := by unfold keysOK; infer_instance

def conOK (t : Trace) (c : KLC × KLC × KLC) : Prop := keysOK t c.1 ∧ keysOK t c.2.1 ∧ keysOK t c.2.2

instance (t : Trace) (c : KLC × KLC × KLC) : Decidable (conOK t c) := by unfold conOK; infer_instance

/-! ## `write_varlist` -/

theorem writeVarlist_ids (p : Int) (vals : List Int) (off : Nat) :
    (writeVarlist p vals off).ids = List.range' off vals.length := by
  simp only [writeVarlist, List.range'_eq_map_range]
  apply List.map_congr_left
  intro i _; omega

theorem writeVarlist_values (p : Int) (h0 : 0 < p) (vals : List Int) (off : Nat) :
    (writeVarlist p vals off).values.map Int.ofNat = vals.map (· % p) := by
  simp only [writeVarlist, List.map_map]
  apply List.map_congr_left
  intro v _
  simp only [Function.comp]
  exact Int.toNat_of_nonneg (Int.emod_nonneg _ (by omega))

theorem zip_range'_lookup (vals : List Nat) : ∀ (off i : Nat) (h : i < vals.length),
    ((List.range' off vals.length).zip vals).lookup (off + i) = some vals[i] := by
  induction vals with
  | nil => intro off i h; simp at h
  | cons v vs ih =>
    intro off i h
    rw [List.length_cons, List.range'_succ, List.zip_cons_cons, List.lookup_cons]
    cases i with
    | zero => simp
    | succ i =>
      have hne : (off + (i + 1) == off) = false := by simp
      rw [hne]
      have := ih (off + 1) i (by simpa using h)
      rw [show off + (i + 1) = off + 1 + i by omega]
      simpa using this

theorem zip_range'_lookup_none (vals : List Nat) : ∀ (off id : Nat),
    (id < off ∨ off + vals.length ≤ id) →
    ((List.range' off vals.length).zip vals).lookup id = none := by
  induction vals with
  | nil => intro off id _; simp
  | cons v vs ih =>
    intro off id h
    rw [List.length_cons, List.range'_succ, List.zip_cons_cons, List.lookup_cons]
    have hne : (id == off) = false := by
      simp only [beq_eq_false_iff_ne, ne_eq]; simp only [List.length_cons] at h; omega
    rw [hne]
    exact ih (off + 1) id (by simp only [List.length_cons] at h; omega)

theorem writeVarlist_lookup (p : Int) (vals : List Int) (off i : Nat) (h : i < vals.length) :
    (writeVarlist p vals off).lookup (off + i) = some (vals[i] % p).toNat := by
  unfold Vars.lookup
  rw [writeVarlist_ids]
  have hl : vals.length = (writeVarlist p vals off).values.length := by simp [writeVarlist]
  have h' : i < (writeVarlist p vals off).values.length := hl ▸ h
  rw [hl, zip_range'_lookup _ off i h']
  simp [writeVarlist]

theorem writeVarlist_lookup_none (p : Int) (vals : List Int) (off id : Nat)
    (h : id < off ∨ off + vals.length ≤ id) : (writeVarlist p vals off).lookup id = none := by
  unfold Vars.lookup
  rw [writeVarlist_ids]
  have hl : vals.length = (writeVarlist p vals off).values.length := by simp [writeVarlist]
  rw [hl]
  exact zip_range'_lookup_none _ off id (hl ▸ h)

/-! ## the assignment read from `computation.zkif` -/

theorem fileAssign_zero (msgs : List Msg) : fileAssign msgs 0 = 1 := by simp [fileAssign]

theorem fileAssign_pub (t : Trace) (i : Nat) (h : i < t.pubs.length) :
    fileAssign (computationFile t) (i + 1) = (t.pubs[i] % t.p).toNat := by
  unfold fileAssign computationFile writeCircuit
  rw [if_neg (by omega), List.findSome?_cons]
  simp only
  rw [show i + 1 = 1 + i by omega, writeVarlist_lookup t.p t.pubs 1 i h]
  rfl

theorem fileAssign_priv (t : Trace) (j : Nat) (h : j < t.privs.length) :
    fileAssign (computationFile t) (t.pubs.length + j + 1) = (t.privs[j] % t.p).toNat := by
  unfold fileAssign computationFile writeCircuit writeWitness
  rw [if_neg (by omega), List.findSome?_cons]
  simp only
  rw [writeVarlist_lookup_none t.p t.pubs 1 _ (by omega), List.findSome?_cons]
  simp only
  rw [show t.pubs.length + j + 1 = t.pubs.length + 1 + j by omega,
    writeVarlist_lookup t.p t.privs _ j h]
  rfl

/-- the value read from the file at the id of key `k` is the recorded value of `k`, modulo `p` -/
theorem fileAssign_key (t : Trace) (h0 : 0 < t.p) (k : Int)
    (hk : -(t.privs.length : Int) ≤ k ∧ k ≤ (t.pubs.length : Int)) :
    ((fileAssign (computationFile t) (varIx t.pubs.length k) : Nat) : Int)
      ≡ assign t k [ZMOD t.p] := by
  have hp : t.p ≠ 0 := by omega
  rcases lt_trichotomy k 0 with hneg | rfl | hpos
  · obtain ⟨j, rfl⟩ : ∃ j : Nat, k = -((j : Int) + 1) := ⟨(-k - 1).toNat, by omega⟩
    have hj : j < t.privs.length := by omega
    have hw : varIx t.pubs.length (-((j : Int) + 1)) = t.pubs.length + j + 1 := by
      unfold varIx wireIndex; split <;> omega
    have ha : assign t (-((j : Int) + 1)) = t.privs[j] := by
      unfold assign
      rw [if_neg (by omega), if_neg (by omega)]
      have : (-(-((j : Int) + 1))).toNat - 1 = j := by omega
      rw [this, List.getD_eq_getElem (l := t.privs) (d := 0) hj]
    rw [hw, ha, fileAssign_priv t j hj, Int.toNat_of_nonneg (Int.emod_nonneg _ hp)]
    exact Int.mod_modEq _ _
  · simp [varIx, wireIndex, fileAssign_zero, assign]
  · obtain ⟨i, rfl⟩ : ∃ i : Nat, k = (i : Int) + 1 := ⟨(k - 1).toNat, by omega⟩
    have hi : i < t.pubs.length := by omega
    have hw : varIx t.pubs.length ((i : Int) + 1) = i + 1 := by
      unfold varIx wireIndex; split <;> omega
    have ha : assign t ((i : Int) + 1) = t.pubs[i] := by
      unfold assign
      rw [if_neg (by omega), if_pos (by omega)]
      have : ((i : Int) + 1).toNat - 1 = i := by omega
      rw [this, List.getD_eq_getElem (l := t.pubs) (d := 0) hi]
    rw [hw, ha, fileAssign_pub t i hi, Int.toNat_of_nonneg (Int.emod_nonneg _ hp)]
    exact Int.mod_modEq _ _

/-! ## `write_lc` -/

/-- `varls[i] if varls[i]>=0 else len(pubvals)-varls[i]` is never negative -/
theorem varIx_cast (npub : Nat) (k : Int) :
    ((varIx npub k : Nat) : Int) = if k < 0 then (npub : Int) - k else k := by
  unfold varIx wireIndex
  split <;> split <;> omega

theorem writeLC_ids (t : Trace) (l : KLC) :
    (writeLC t l).ids.map Int.ofNat =
      l.map (fun kc => if kc.1 < 0 then (t.pubs.length : Int) - kc.1 else kc.1) := by
  simp only [writeLC, List.map_map]
  apply List.map_congr_left
  intro kc _
  exact varIx_cast _ _

theorem writeLC_values (t : Trace) (h0 : 0 < t.p) (l : KLC) :
    (writeLC t l).values.map Int.ofNat = l.map (fun kc => kc.2 % t.p) := by
  simp only [writeLC, List.map_map]
  apply List.map_congr_left
  intro kc _
  exact Int.toNat_of_nonneg (Int.emod_nonneg _ (by omega))

theorem writeLC_canonical (t : Trace) (h0 : 0 < t.p) (l : KLC) :
    ∀ c ∈ (writeLC t l).values, (c : Int) < t.p := by
  intro c hc
  simp only [writeLC, List.mem_map] at hc
  obtain ⟨kc, _, rfl⟩ := hc
  rw [Int.toNat_of_nonneg (Int.emod_nonneg _ (by omega))]
  exact Int.emod_lt_of_pos _ h0

theorem evalVars_writeLC (t : Trace) (h0 : 0 < t.p) (l : KLC) (hl : keysOK t l) :
    evalVars (fileAssign (computationFile t)) (writeLC t l) ≡ evalKLC t l [ZMOD t.p] := by
  unfold evalVars writeLC
  simp only [List.zip_map', List.map_map]
  induction l with
  | nil => exact Int.ModEq.refl _
  | cons kc l ih =>
    simp only [evalKLC, List.map_cons, List.sum_cons, Function.comp] at ih ⊢
    apply Int.ModEq.add
    · apply Int.ModEq.mul
      · rw [Int.toNat_of_nonneg (Int.emod_nonneg _ (by omega))]
        exact Int.mod_modEq _ _
      · exact fileAssign_key t h0 kc.1 (hl kc (List.mem_cons_self ..))
    · exact ih (fun b hb => hl b (List.mem_cons_of_mem _ hb))

/-- per constraint: the assignment read from `computation.zkif` satisfies the written constraint
modulo `p` iff the recorded assignment satisfies the recorded constraint -/
theorem sat_transfer (t : Trace) (h0 : 0 < t.p) (c : KLC × KLC × KLC) (hc : conOK t c) :
    satVars t.p (fileAssign (computationFile t)) (writeConstraint t c) ↔ satRecorded t c := by
  obtain ⟨ha, hb, hcc⟩ := hc
  have ea := evalVars_writeLC t h0 c.1 ha
  have eb := evalVars_writeLC t h0 c.2.1 hb
  have ec := evalVars_writeLC t h0 c.2.2 hcc
  unfold satVars satRecorded writeConstraint
  change (_ ≡ _ [ZMOD t.p]) ↔ (_ ≡ _ [ZMOD t.p])
  constructor
  · intro hs; exact ((ea.mul eb).symm.trans hs).trans ec
  · intro hs; exact ((ea.mul eb).trans hs).trans ec.symm

end Pysnark.Zkif
