import PysnarkModel.Model.Branching
/-!
# `pysnark.array.Array` of `Array`s: two-dimensional access (`pysnark/array.py`)

Two layers, both core Lean only and executable.

**Values** (`rowRead`, `iteRow`, `rowsIte`, `matGet`, `matSet`): a matrix is a `List (List Val)`; these functions
transcribe what `Array.__getitem__/__setitem__` compute and emit when the elements of the outer array are `Array`s:
`lin_comb(ixs, self.arr)` is `sum([c*row ...])` with `Array.__rmul__`, `Array.__radd__(0)`, `Array.__add__`
(element-wise over `zip`), the per-row `if_then_else(ixs[k], value, self.arr[k])` is
`falsev + cond * (truev - falsev)` with `Array.__sub__`, `Array.__rmul__`, `Array.__add__`.  Each dimension reuses
`arrayIxs` / `arrayGet` / `arraySet` of `Model/Methods.lean`.

**Objects** (`Mat`, `Ev`, `step`): the rows of a Python `Array` of `Array`s are OBJECTS.  A row read at a plain index is
the inner object itself (writes through it reach the matrix, and the other way round), a row read at a secret index is a
fresh read-only `ArrayRow`, `Array(x)` copies, a write at a secret ROW index replaces every row object by a fresh `Array`
(`if_then_else` per row) except a row that IS the value being stored (`truev is falsev`).  The model keeps a heap of
row objects addressed by number; a history is a list of events in the vocabulary of `harness/props/c15.py gen_2d` /
`harness/worker_array2d.py` (index objects created once and reused, row handles, copies, element reads and writes
through the matrix, through handles and through a plain-index inner row, row stores, gathers, reads inside an
`if_then_else` branch).  Objects that can never be reached again (the `ArrayRow` and its private copy inside a tuple
write) are not put on the heap.
-/
namespace Pysnark
namespace A2

/-! ## values -/

/-- `other * row` (`Array.__rmul__`): `[other*sv for sv in self.arr]`; `other` is the wrapped `LinComb` of a selector or
condition (`LinCombBool.__mul__` is `self.lc * other`, whose `LinComb.__mul__` returns `NotImplemented` for an `Array`) -/
def scaleRow (c : LinComb) (row : List Val) : M (List Val) := mapM' (fun v => mulLV c v) row

/-- `0 + row` (`Array.__radd__` = `__add__` with a base value): `[sv+0 for sv in self.arr]` -/
def addZeroRow (row : List Val) : M (List Val) := mapM' (fun v => addV v (.int 0)) row

/-- `a + b` (`Array.__add__`): `[sv+ov for (sv,ov) in zip(self.arr, other.arr)]`; operands of different lengths are
refused (`ValueError("arrays not of the same length: ...")`), never zipped to the shorter one -/
def addRows (a b : List Val) : M (List Val) :=
  if a.length = b.length then zipWithM' addV a b else raise .value

/-- `a - b` (`Array.__sub__`); operands of different lengths are refused (`ValueError`) -/
def subRows (a b : List Val) : M (List Val) :=
  if a.length = b.length then zipWithM' subV a b else raise .value

/-- `lin_comb(ixs, rows)` = `sum([c*row for (c,row) in zip(ixs, rows)])` for rows that are `Array`s: all products first
(row by row), then `0 + p₀ + p₁ + …`.  (`sum([])` is the int `0`; `arrayIxs` has raised before for an empty array.) -/
def linCombRows (ixs : List LinComb) (rows : List (List Val)) : M (List Val) := do
  let prods ← mapM' (fun (cr : LinComb × List Val) => scaleRow cr.1 cr.2) (ixs.zip rows)
  match prods with
  | [] => raise .unmodelled
  | p :: ps => do
    let first ← addZeroRow p
    ps.foldlM (fun acc x => addRows acc x) first

/-- `self[item]` for a secret `item` on an array of rows: the contents of the `ArrayRow` returned -/
def rowRead (rows : List (List Val)) (it : LinComb) : M (List Val) := do
  let ixs ← arrayIxs it rows.length
  linCombRows ixs rows

/-- `if_then_else(cond, t, f)` for two distinct `Array` objects: `f + cond * (t - f)` -/
def iteRow (c : LinComb) (t f : List Val) : M (List Val) := do
  let d ← subRows t f
  let pr ← scaleRow c d
  addRows f pr

/-- the loop of `Array.__setitem__` for a secret index, `value` an `Array`:
`self.arr[k] = if_then_else(ixs[k], value, self.arr[k])`; the flag says `value is self.arr[k]` (the row is returned
as it is, nothing is emitted) -/
def rowsIte (vals : List Val) : List (LinComb × Bool × List Val) → M (List (List Val))
  | [] => pure []
  | (c, same, row) :: rest => do
    let r ← (if same then pure row else iteRow c vals row)
    let rs ← rowsIte vals rest
    pure (r :: rs)

/-- `self[item] = value` for a secret `item` and an `Array` value: the new contents of every row -/
def rowsWrite (rows : List (Bool × List Val)) (it : LinComb) (vals : List Val) : M (List (List Val)) := do
  let ixs ← arrayIxs it rows.length
  rowsIte vals (ixs.zip rows)

/-- the row part of `a[i, j]`: `self[item[0]]` -/
def rowGet (rows : List (List Val)) (i : Val) : M (List Val) :=
  match i with
  | .int k =>
    match pyIndex rows.length k with
    | some n => match rows[n]? with | some r => pure r | Option.none => raise .index
    | Option.none => raise .index
  | .lc it => rowRead rows it
  | _ => tyErr

/-- `a[i, j]` = `self[item[0]][item[1:]]` on matrix contents -/
def matGet (rows : List (List Val)) (i j : Val) : M Val := do
  let r ← rowGet rows i
  arrayGet r j

/-- `a[i, j] = v` on matrix contents (rows pairwise distinct objects, none of them an `ArrayRow`):
`it = self[item[0]]; if isinstance(it, ArrayRow): it = Array(it); it[item[1:]] = value; self[item[0]] = it` -/
def matSet (rows : List (List Val)) (i j v : Val) : M (List (List Val)) :=
  match i with
  | .int k =>
    match pyIndex rows.length k with
    | some n =>
      match rows[n]? with
      | some r => do let r' ← arraySet r j v; pure (rows.set n r')
      | Option.none => raise .index
    | Option.none => raise .index
  | .lc it => do
    let r ← rowRead rows it
    let r' ← arraySet r j v
    rowsWrite (rows.map fun x => (false, x)) it r'
  | _ => tyErr

/-! ## objects -/

/-- a row object: `Array` (`ro = false`) or `ArrayRow` (`ro = true`: `__setitem__` raises) -/
structure Row where
  arr : List Val
  ro : Bool
deriving Repr

/-- what a variable of the history holds -/
inductive Slot
  | scalar (v : Val)
  | row (id : Nat)
deriving Repr

/-- index specification: a plain int, a FRESH `PrivVal(i)`, or the index object created earlier under that name -/
inductive Ix
  | p (i : Int)
  | s (i : Int)
  | n (name : Nat)
deriving Repr, DecidableEq

/-- events (`harness/worker_array2d.py`, class `Real`) -/
inductive Ev
  /-- `idx[name] = PrivVal(i) if sec else i` -/
  | idx (name : Nat) (sec : Bool) (i : Int)
  /-- `v = m[r]` -/
  | row (v : Nat) (r : Ix)
  /-- `v = Array(src)` -/
  | copy (v src : Nat)
  /-- `v = src[c]` -/
  | rowget (v src : Nat) (c : Ix)
  /-- `v = m[r, c]` -/
  | get2 (v : Nat) (r c : Ix)
  /-- `v = m[r][c]` -/
  | getrc (v : Nat) (r c : Ix)
  /-- `r, c = …; v = if_then_else(PrivValBool(cond), lambda: m[r, c], lambda: 0)` -/
  | bget (v : Nat) (cond : Int) (r c : Ix)
  /-- `v[c] = x` -/
  | set1 (v : Nat) (c : Ix) (x : Int)
  /-- `m[k][c] = x` -/
  | setchain (k : Int) (c : Ix) (x : Int)
  /-- `m[r, c] = x` -/
  | set2 (r c : Ix) (x : Int)
  /-- `m[r] = v` -/
  | setrow (r : Ix) (v : Nat)
  /-- `m = Array([m[r] for r in rs])` -/
  | gather (rs : List Ix)
  /-- `v = Array([x, …])`: a row built outside the matrix (of any length) -/
  | newrow (v : Nat) (vals : List Int)
deriving Repr

def lookup {α : Type} : List (Nat × α) → Nat → Option α
  | [], _ => Option.none
  | (k, v) :: t, x => if k = x then some v else lookup t x

/-- the matrix `m` (an `Array` whose elements are row objects), the row objects, index objects and variables -/
structure Mat where
  heap : List Row
  mat : List Nat
  idx : List (Nat × Val) := []
  vars : List (Nat × Slot) := []
deriving Repr

def Mat.row (a : Mat) (id : Nat) : Row := a.heap.getD id ⟨[], false⟩
def Mat.rows (a : Mat) : List Row := a.mat.map a.row
/-- the contents of the matrix -/
def Mat.contents (a : Mat) : List (List Val) := a.rows.map (·.arr)

def Mat.alloc (a : Mat) (r : Row) : Nat × Mat := (a.heap.length, { a with heap := a.heap ++ [r] })
def Mat.setArr (a : Mat) (id : Nat) (arr : List Val) : Mat :=
  { a with heap := a.heap.set id ⟨arr, (a.row id).ro⟩ }
def Mat.setVar (a : Mat) (v : Nat) (x : Slot) : Mat := { a with vars := (v, x) :: a.vars }

/-- what `self[item]` returns on the outer array: an existing row object, or a fresh `ArrayRow` (its contents) -/
inductive RowRef
  | obj (id : Nat)
  | view (arr : List Val)

def Mat.deref (a : Mat) : RowRef → List Val
  | .obj id => (a.row id).arr
  | .view arr => arr

def evalIx (a : Mat) : Ix → M Val
  | .p i => pure (.int i)
  | .s i => do let x ← privVal i; pure (.lc x)
  | .n k => match lookup a.idx k with | some v => pure v | Option.none => raise .key

/-- `m[item]` -/
def outerGet (a : Mat) (i : Val) : M RowRef :=
  match i with
  | .int k =>
    match pyIndex a.mat.length k with
    | some n => match a.mat[n]? with | some id => pure (.obj id) | Option.none => raise .index
    | Option.none => raise .index
  | .lc it => do let r ← rowRead a.contents it; pure (.view r)
  | _ => tyErr

/-- a row reference becomes a held object: a view is an `ArrayRow` on the heap from now on -/
def Mat.hold (a : Mat) : RowRef → Nat × Mat
  | .obj id => (id, a)
  | .view arr => a.alloc ⟨arr, true⟩

/-- after a secret-index row store: a row that IS the stored value keeps its identity, every other row is a fresh `Array` -/
def rebuild (a : Mat) : List (Nat × Bool × List Val) → List Nat × Mat
  | [] => ([], a)
  | (id, same, c) :: t =>
    if same then
      let (ids, a') := rebuild a t
      (id :: ids, a')
    else
      let (nid, a1) := a.alloc ⟨c, false⟩
      let (ids, a2) := rebuild a1 t
      (nid :: ids, a2)

/-- `m[item] = value`; `oid` is the object number of `value` when it is a held object, `none` for a fresh `Array` -/
def outerSet (a : Mat) (i : Val) (vals : List Val) (oid : Option Nat) : M Mat :=
  match i with
  | .int k =>
    match pyIndex a.mat.length k with
    | some n =>
      match oid with
      | some id => pure { a with mat := a.mat.set n id }
      | Option.none => let (id, a1) := a.alloc ⟨vals, false⟩; pure { a1 with mat := a1.mat.set n id }
    | Option.none => raise .index
  | .lc it => do
    let flags := a.mat.map fun id => (oid == some id, (a.row id).arr)
    let news ← rowsWrite flags it vals
    let (ids, a1) := rebuild a (a.mat.zip (flags.zip news |>.map fun fn => (fn.1.1, fn.2)))
    pure { a1 with mat := ids }
  | _ => tyErr

def slotRow (a : Mat) (v : Nat) : M Nat :=
  match lookup a.vars v with
  | some (.row id) => pure id
  | _ => raise .unmodelled

/-- `it[c] = x` on the row object `id` -/
def writeRow (a : Mat) (id : Nat) (j : Val) (x : Int) : M Mat := do
  if (a.row id).ro then raise .type else
  let arr' ← arraySet (a.row id).arr j (.int x)
  pure (a.setArr id arr')

/-- the body of `m[r, c]` once the index objects exist -/
def get2Core (a : Mat) (i j : Val) : M Val := do
  let ref ← outerGet a i
  arrayGet (a.deref ref) j

/-- `[m[r] for r in rs]`: the rows held so far only extend the heap, `m` itself is not touched -/
def gatherRows : List Ix → Mat → M (List Nat × Mat)
  | [], a => pure ([], a)
  | sp :: t, a => do
    let i ← evalIx a sp
    let ref ← outerGet a i
    let (id, a1) := a.hold ref
    let (ids, a2) ← gatherRows t a1
    pure (id :: ids, a2)

def step (a : Mat) : Ev → M Mat
  | .idx name sec i => do
    let v ← (if sec then (do let x ← privVal i; pure (Val.lc x)) else pure (Val.int i))
    pure { a with idx := (name, v) :: a.idx }
  | .row v r => do
    let i ← evalIx a r
    let ref ← outerGet a i
    let (id, a1) := a.hold ref
    pure (a1.setVar v (.row id))
  | .copy v src => do
    let id ← slotRow a src
    let (nid, a1) := a.alloc ⟨(a.row id).arr, false⟩
    pure (a1.setVar v (.row nid))
  | .rowget v src c => do
    let id ← slotRow a src
    let j ← evalIx a c
    let x ← arrayGet (a.row id).arr j
    pure (a.setVar v (.scalar x))
  | .get2 v r c => do
    let i ← evalIx a r
    let j ← evalIx a c
    let x ← get2Core a i j
    pure (a.setVar v (.scalar x))
  | .getrc v r c => do
    let i ← evalIx a r
    let ref ← outerGet a i
    let j ← evalIx a c
    let x ← arrayGet (a.deref ref) j
    pure (a.setVar v (.scalar x))
  | .bget v cnd r c => do
    let i ← evalIx a r
    let j ← evalIx a c
    let cb ← privValBool cnd
    let tv ← guardedM cb (get2Core a i j)
    let nc ← boolNot cb
    let fv ← guardedM nc (pure (Val.int 0))
    let x ← iteScalar cb tv fv
    pure (a.setVar v (.scalar x))
  | .set1 v c x => do
    let id ← slotRow a v
    let j ← evalIx a c
    writeRow a id j x
  | .setchain k c x => do
    let ref ← outerGet a (.int k)
    let j ← evalIx a c
    match ref with
    | .obj id => writeRow a id j x
    | .view _ => raise .unmodelled
  | .set2 r c x => do
    let i ← evalIx a r
    let j ← evalIx a c
    let ref ← outerGet a i
    match ref with
    | .obj id =>
      if (a.row id).ro then do
        -- a stored `ArrayRow`: `it = Array(it)`, written, stored back in place of the snapshot
        let arr' ← arraySet (a.row id).arr j (.int x)
        outerSet a i arr' Option.none
      else do
        let arr' ← arraySet (a.row id).arr j (.int x)
        let a1 := a.setArr id arr'
        outerSet a1 i arr' (some id)
    | .view r0 => do
      let arr' ← arraySet r0 j (.int x)
      outerSet a i arr' Option.none
  | .setrow r v => do
    let id ← slotRow a v
    let i ← evalIx a r
    outerSet a i (a.row id).arr (some id)
  | .gather rs => do
    let (ids, a1) ← gatherRows rs a
    pure { a1 with mat := ids }
  | .newrow v vals =>
    let (id, a1) := a.alloc ⟨vals.map Val.int, false⟩
    pure (a1.setVar v (.row id))

def run : List Ev → Mat → M Mat
  | [], a => pure a
  | e :: es, a => do let a1 ← step a e; run es a1

/-- `Array([Array([PrivVal(v) if secret else v for v in r]) for r in init])` -/
def initRow (secret : Bool) (r : List Int) : M (List Val) :=
  mapM' (fun v => if secret then (do let x ← privVal v; pure (Val.lc x)) else pure (Val.int v)) r

def initRows (secret : Bool) : List (List Int) → M (List Row)
  | [] => pure []
  | r :: t => do
    let x ← initRow secret r
    let xs ← initRows secret t
    pure (⟨x, false⟩ :: xs)

def init (secret : Bool) (m : List (List Int)) : M Mat := do
  let rows ← initRows secret m
  pure { heap := rows, mat := List.range rows.length }

end A2
end Pysnark
