/-!
# Exit hook model (C18): `pysnark/atexitmaybe.py` + `runtime.final()` + CPython's exit rules

A script is abstracted as `n` traced operations, a list of earlier *caught* `sys.exit(a)` calls
(`try: sys.exit(a) except SystemExit: pass` — recorded by the interposer but not terminating) and
ONE termination event after `k ≤ n` operations.

Transcribed objects
* `ExitOverrider` (`atexitmaybe.py`): state `(exitcode, exception)`, both initially `None`;
  `exit(self, exitcode=0)` stores its argument (default **0**, not `None`) and passes it on to the
  real `sys.exit`; `excepthook` stores the exception and chains.
* `maybe_`: `if (exitcode is None or exitcode == 0) and exception is None: fn() else: print(skipping)`.
* `runtime.final()`: `if autoprove: backend.prove() else: if backend.process_snark: …` — the
  attribute access raises `AttributeError` for every backend but libsnark; `atexit` prints the
  traceback and carries on, the exit status is unchanged.
* CPython (`handle_system_exit`, observed on 3.12): `SystemExit(None)` → 0; int `n` → low 8 bits of
  `(int)PyLong_AsLong(n)`, i.e. `n mod 256` when `n` fits a C `long` and **255** otherwise
  (`PyLong_AsLong` fails with -1); `bool` is an `int` subclass (True → 1, False → 0); any other
  object is printed to stderr and the status is 1 (also `""`, `0.0`, `[]`).  An uncaught exception →
  `sys.excepthook`, status 1.  An uncaught `KeyboardInterrupt` → `sys.excepthook`, exit hooks run,
  then the interpreter re-raises SIGINT against itself with the default handler: the process *dies
  by signal 2*; a POSIX shell reports `$? = 130`, `subprocess` reports `-2`.  The model records 130.
  `os._exit(n)`: no hooks, status `n mod 256`, `n` must fit a C `int`; otherwise `OverflowError` is
  raised *in the script*, which is an ordinary uncaught exception.
-/
namespace Pysnark.AtExit

/-- argument objects of `sys.exit` / `SystemExit`: `None`, ints, strings (`''` is falsy),
`True`/`False`, floats (`0.0` vs. non-zero — needed because `0.0 == 0`), other objects
(`[]` falsy, `[1]` truthy; never equal to 0) -/
inductive ExitArg
  | none
  | int (n : Int)
  | str (nonempty : Bool)
  | bool (b : Bool)
  | flt (nonzero : Bool)
  | other (truthy : Bool)
  deriving DecidableEq, Repr, Inhabited

inductive Term
  | fallOff                        -- script runs to the end
  | sysExit (a : Option ExitArg)   -- `sys.exit(a)`; `none` = called with NO argument
  | raiseSystemExit (a : ExitArg)  -- `raise SystemExit(a)`: does not go through `sys.exit`
  | builtinExit (a : ExitArg)      -- `exit(a)` / `quit(a)`: `site.Quitter` raises `SystemExit(a)` itself
  | uncaught                       -- uncaught ordinary exception
  | keyboardInterrupt              -- uncaught KeyboardInterrupt
  | osExit (n : Int)               -- `os._exit(n)`
  deriving DecidableEq, Repr, Inhabited

structure Script where
  n : Nat
  k : Nat
  caught : List ExitArg
  term : Term
  autoprove : Bool
  /-- does the backend module define `process_snark` (only `pysnark.libsnark.backend` does) -/
  hasProcessSnark : Bool
  deriving Repr

/-- `k ≤ n`, and a script that runs to the end has executed all of its operations -/
def Script.WF (s : Script) : Prop := s.k ≤ s.n ∧ (s.term = .fallOff → s.k = s.n)
instance (s : Script) : Decidable s.WF := by unfold Script.WF; exact inferInstance

structure Outcome where
  status : Int
  proveCalls : Nat
  provedOps : Nat
  hookFailed : Bool
  skippedMsg : Bool
  deriving DecidableEq, Repr

/-! ## Python / CPython primitives -/

/-- Python `a is None` -/
def ExitArg.isNone : ExitArg → Bool
  | .none => true
  | _ => false

/-- Python `a == 0` -/
def ExitArg.eqZero : ExitArg → Bool
  | .int n => n == 0
  | .bool b => !b
  | .flt nonzero => !nonzero
  | _ => false

/-- does `n` fit a C `long` (64 bit) -/
def fitsLong (n : Int) : Bool := decide (-9223372036854775808 ≤ n) && decide (n < 9223372036854775808)
/-- does `n` fit a C `int` (32 bit) -/
def fitsInt (n : Int) : Bool := decide (-2147483648 ≤ n) && decide (n < 2147483648)

/-- process exit status of an uncaught `SystemExit(a)` -/
def ExitArg.status : ExitArg → Int
  | .none => 0
  | .int n => if fitsLong n then n % 256 else 255
  | .bool b => if b then 1 else 0
  | .str _ => 1
  | .flt _ => 1
  | .other _ => 1

/-! ## The interposer -/

/-- `ExitOverrider` state; `exitcode = .none` is Python's `None` -/
structure Hook where
  exitcode : ExitArg := .none
  exception : Bool := false
  deriving DecidableEq, Repr

/-- `ExitOverrider.exit(self, exitcode=0)`: records, returns the object handed to the real `sys.exit` -/
def Hook.exit (h : Hook) (a : Option ExitArg) : Hook × ExitArg :=
  let c := a.getD (.int 0)
  ({ h with exitcode := c }, c)

/-- `ExitOverrider.excepthook` -/
def Hook.excepthook (h : Hook) : Hook := { h with exception := true }

/-- the test in `maybe_` -/
def Hook.runsFinal (h : Hook) : Bool :=
  (h.exitcode.isNone || h.exitcode.eqZero) && !h.exception

/-- the caught `sys.exit(a)` calls, in order -/
def afterCaught (cs : List ExitArg) : Hook :=
  cs.foldl (fun h a => (h.exit (some a)).1) {}

/-! ## How the interpreter ends -/

inductive End
  | normal
  | systemExit (a : ExitArg)
  | exception (keyboardInterrupt : Bool)
  | hard (n : Int)                 -- `os._exit`: no exit hooks
  deriving DecidableEq, Repr

def terminate (h : Hook) : Term → Hook × End
  | .fallOff => (h, .normal)
  | .sysExit a => let (h', c) := h.exit a; (h', .systemExit c)
  | .raiseSystemExit a => (h, .systemExit a)
  | .builtinExit a => (h, .systemExit a)
  | .uncaught => (h.excepthook, .exception false)
  | .keyboardInterrupt => (h.excepthook, .exception true)
  | .osExit n => if fitsInt n then (h, .hard n) else (h.excepthook, .exception false)

def End.status : End → Int
  | .normal => 0
  | .systemExit a => a.status
  | .exception false => 1
  | .exception true => 130
  | .hard n => n % 256

/-- do registered `atexit` callbacks run -/
def End.hooksRun : End → Bool
  | .hard _ => false
  | _ => true

/-- is `runtime.final()` entered at interpreter exit -/
def finalReached (s : Script) : Bool :=
  let (h, e) := terminate (afterCaught s.caught) s.term
  e.hooksRun && h.runsFinal

def runScript (s : Script) : Outcome :=
  let (h, e) := terminate (afterCaught s.caught) s.term
  let quiet : Outcome :=
    { status := e.status, proveCalls := 0, provedOps := 0, hookFailed := false, skippedMsg := false }
  if !e.hooksRun then quiet
  else if h.runsFinal then
    -- `final()`
    if s.autoprove then { quiet with proveCalls := 1, provedOps := s.k }
    -- `process_snark = getattr(backend, "process_snark", None); if process_snark: …` (repaired: the pinned code
    -- read `backend.process_snark` unconditionally and raised AttributeError on backends without it)
    else quiet
  else { quiet with skippedMsg := true }

end Pysnark.AtExit
