/-!
# Model of pysnark: wires, dict-based linear combinations, tracer state and monad

Core Lean only (no Mathlib import): everything here is executable and can be run by
`decide +kernel` and by the line-protocol driver.

Mirrors `pysnark/snarkjsbackend.py` / `pysnark/zkinterface/backend.py` (class
`LinearCombination`, `privval`, `pubval`, `zero`, `one`, `add_constraint`) and the module
state of `pysnark/runtime.py` (`guard`, `_ignore_errors`, `LinComb.ONE`, `bitlength`) and
`pysnark/fixedpoint.py` (`resolution`).
-/
namespace Pysnark

/-- A variable of the constraint system.  The code uses signed integer keys
(`0` constant one, `k>0` the k-th public value, `k<0` the (-k)-th private value);
the model uses the i-th (0-based) value in creation order.  The integer convention
appears only in the canonicaliser and in the serialiser models. -/
inductive Wire
  | one
  | pub (i : Nat)
  | priv (i : Nat)
deriving DecidableEq, Repr

/-- Python's signed integer key of a wire (`snarkjsbackend.pubval/privval`). -/
def Wire.key : Wire → Int
  | .one => 0
  | .pub i => (i : Int) + 1
  | .priv i => -((i : Int) + 1)

/-- `LinearCombination.lc`: a Python dict (insertion ordered, no duplicate keys). -/
abbrev LC := List (Wire × Int)

namespace LC

/-- `a in other.lc` / `other.lc[a]` : first match (dicts have no duplicates). -/
def get? (l : LC) (k : Wire) : Option Int :=
  match l with
  | [] => none
  | (k', v) :: t => if k' = k then some v else get? t k

def keys (l : LC) : List Wire := l.map (·.1)

/-- `LinearCombination.__add__`: first the keys of `self` in order (adding the other's
coefficient when present), then the keys of `other` not in `self`. Zero coefficients are kept. -/
def add (a b : LC) : LC :=
  a.map (fun kv => match b.get? kv.1 with | some w => (kv.1, kv.2 + w) | none => kv)
  ++ b.filter (fun kv => (a.get? kv.1).isNone)

/-- `LinearCombination.__mul__` (by an integer scalar). -/
def scale (a : LC) (c : Int) : LC := a.map (fun kv => (kv.1, kv.2 * c))

/-- `LinearCombination.__neg__` = `self * -1`. -/
def neg (a : LC) : LC := a.scale (-1)

/-- `LinearCombination.__sub__` = `self + (-other)`. -/
def sub (a b : LC) : LC := a.add b.neg

/-- `zero()` -/
def zero : LC := []
/-- `one()` -/
def one : LC := [(Wire.one, 1)]

/-- Evaluation on an assignment. -/
def eval (w : Wire → Int) (a : LC) : Int :=
  match a with
  | [] => 0
  | (k, c) :: t => c * w k + eval w t

/-- The Python-dict invariant: no duplicate keys. -/
def WF (a : LC) : Prop := a.keys.Nodup

instance (a : LC) : Decidable a.WF := inferInstanceAs (Decidable (List.Nodup _))

end LC

/-- `runtime.LinComb`: a Python integer value plus the backend linear combination. -/
structure LinComb where
  value : Int
  lc : LC
deriving Repr, BEq, DecidableEq

/-- Exception classes that the modelled code can raise. -/
inductive Err
  | assertion      -- AssertionError
  | value          -- ValueError
  | zerodiv        -- ZeroDivisionError
  | type           -- TypeError
  | runtime        -- RuntimeError
  | notimpl        -- NotImplementedError
  | index          -- IndexError
  | attribute      -- AttributeError
  | key            -- KeyError
  | overflow       -- OverflowError (float conversion)
  | unmodelled     -- the model does not cover this call (never compared; counted)
deriving Repr, DecidableEq, BEq

def Err.name : Err → String
  | .assertion => "AssertionError" | .value => "ValueError" | .zerodiv => "ZeroDivisionError"
  | .type => "TypeError" | .runtime => "RuntimeError" | .notimpl => "NotImplementedError"
  | .index => "IndexError" | .attribute => "AttributeError" | .key => "KeyError"
  | .overflow => "OverflowError" | .unmodelled => "UNMODELLED"

abbrev Constraint := LC × LC × LC

/-- Tracer state: the backend's lists plus `runtime`'s module globals. -/
structure St where
  pub : List Int := []
  priv : List Int := []
  cons : List Constraint := []
  guard : Option LinComb := none
  ignoreErrors : Bool := false
  /-- `LinComb.ONE` (replaced by the guard inside guarded regions) -/
  one : LinComb := ⟨1, LC.one⟩
  bitlength : Nat := 16
  resolution : Nat := 8
  /-- the backend's modulus (`get_modulus()`) -/
  p : Int
deriving Repr

/-- `LinComb.ONE_SAFE` -/
def oneSafe : LinComb := ⟨1, LC.one⟩
/-- `LinComb.ZERO` -/
def LinComb.zero : LinComb := ⟨0, LC.zero⟩

/-- The recorded assignment. Unallocated wires read as 0. -/
def St.assign (s : St) : Wire → Int
  | .one => 1
  | .pub i => s.pub.getD i 0
  | .priv i => s.priv.getD i 0

abbrev M (α : Type) := St → Except Err (α × St)

namespace M
@[inline] def pure (a : α) : M α := fun s => .ok (a, s)
@[inline] def bind (m : M α) (f : α → M β) : M β := fun s =>
  match m s with
  | .ok (a, s') => f a s'
  | .error e => .error e
end M

instance : Monad M where
  pure := M.pure
  bind := M.bind

def raise (e : Err) : M α := fun _ => .error e
def getSt : M St := fun s => .ok (s, s)
def modifySt (f : St → St) : M Unit := fun s => .ok ((), f s)
def liftE (e : Except Err α) : M α := fun s =>
  match e with
  | .ok a => .ok (a, s)
  | .error x => .error x

/-- `for x in xs: f(x)` collecting results (Python list comprehension order). -/
def mapM' (f : α → M β) : List α → M (List β)
  | [] => pure []
  | x :: xs => do
    let y ← f x
    let ys ← mapM' f xs
    pure (y :: ys)

end Pysnark
