import PysnarkModel.Model.Prog
/-!
# Block branching (`pysnark/branching.py`): `BranchingValues`, `IfContext`, `WhileContext`,
`ObliviousIterator`/`_range`, `_breakif`, `if_then_else` on evaluated and on thunked branches

Two layers.

* The *library layer* mirrors `branching.py` class by class: `BranchContext.enter/exit`, the
  `IfContext` methods (`__init__`, `_elif`, `_else`, `end`), the `WhileContext` methods (`exit`,
  `_while`, `end`), and the module functions `_if/_elif/_else/_endif/_while/_endwhile/_breakif`,
  `ObliviousIterator.__next__`, `_endfor` acting on the `BranchingValues` object (an insertion
  ordered dict of tracked variables plus the stack of open contexts).
* The *program layer* is a small structured statement language (the AST that
  `harness/props/c09.py` / `c09_typed.py` generate and `harness/worker_block.py` renders as Python
  source) and its interpreter `execBlock`, which calls the library layer in exactly the order in
  which the rendered source calls the real functions.

Tracked variables hold values of every kind the library merges: secret integers (`LinComb`),
booleans (`LinCombBool`), fixed-point numbers (`LinCombFxp`) and (nested) lists of these.

Modelling decisions (validated by the correspondence run, stated in the evidence):

* `getcontext`'s frame inspection is replaced by the explicit context (the harness passes `ctx=`).
* `_while` decides "first call of this loop or next iteration" by the caller's line number; the
  structured interpreter knows statically which call is the first one (the harness renders every
  `while` on a line of its own), so the line number is not modelled.
* Object identity.  `if_then_else` starts with `if truev is falsev: return truev`, which is how a
  variable that a branch did not rebind costs no constraint.  Scalars therefore carry an identity
  stamp.  Operators create fresh objects; bare names (`_.y`, `inp[i]`, `_.l[i]`) denote the
  existing object.  `BranchingValues.backup()` deep-copies: `LinComb.__deepcopy__` returns `self`
  (same stamp), while `LinCombBool` / `LinCombFxp` have no such method and are re-created around the
  same `LinComb`: a copy is a new object that is never identical to anything it is compared with
  (stamp `none`).  Equal stamps imply equal objects in every real run; the model checks this when it
  takes the shortcut and stops with `unmodelled` otherwise (never observed; counted by the harness),
  so that no freshness invariant is needed in the proofs.
* Lists have value semantics: `_.l[i] = e` replaces the element of the tracked variable.  Python
  lists are objects; the two agree as long as no list object reachable under two names is updated in
  place (the generator's side condition; the known finding C09-list-inplace-through-reference is
  exactly such a program).  Identity of *list* objects is therefore not modelled (the shortcut
  `truev is falsev` on two lists returns a list with the same elements as the element-wise merge).
* Operand kinds for which the library computes something else than Python (`LinComb < LinCombFxp`,
  `~LinComb`, fixed point times fixed point, which truncates) and list arithmetic stop with
  `unmodelled`.
* A selection between two lists of different lengths is REFUSED: `if_then_else` compares the two
  lengths before it merges anything and raises `ValueError` (`Err.value`).  This is also what the
  merge at a block exit does when an arm (a loop round) rebinds a tracked list to a list of another
  length: native Python would simply rebind, which no element-wise merge can express.  (Before the
  repair of finding C09-list-length-truncated the merge went through `zip`, which silently kept the
  first `min` elements.)
-/
namespace Pysnark

/-! ## trees (nested lists) -/

/-- a value that is a scalar or a (nested) Python list -/
inductive PTree (α : Type) where
  | leaf (a : α)
  | node (ts : List (PTree α))
deriving Repr

namespace PTree
variable {α β : Type}

mutual
def map (f : α → β) : PTree α → PTree β
  | .leaf a => .leaf (f a)
  | .node ts => .node (mapL f ts)
def mapL (f : α → β) : List (PTree α) → List (PTree β)
  | [] => []
  | t :: ts => map f t :: mapL f ts
end

mutual
/-- every leaf satisfies `p` -/
def all (p : α → Bool) : PTree α → Bool
  | .leaf a => p a
  | .node ts => allL p ts
def allL (p : α → Bool) : List (PTree α) → Bool
  | [] => true
  | t :: ts => all p t && allL p ts
end

/-- `t[i0][i1]…` -/
def get? : PTree α → List Nat → Option (PTree α)
  | t, [] => some t
  | .node ts, i :: p =>
    match ts[i]? with
    | some t => get? t p
    | none => none
  | .leaf _, _ :: _ => none

/-- `t[i0][i1]… = v` (value semantics) -/
def set : PTree α → List Nat → PTree α → Option (PTree α)
  | _, [], v => some v
  | .node ts, i :: p, v =>
    match ts[i]? with
    | some t => (set t p v).map (fun t' => .node (ts.set i t'))
    | none => none
  | .leaf _, _ :: _, _ => none
end PTree

/-! ## scalars -/

inductive TKind | int | bool | fxp
deriving DecidableEq, Repr

/-- a scalar Python object: a plain `int`, or a `LinComb` / `LinCombBool` / `LinCombFxp` (kind, the
wrapped `LinComb`) with its identity stamp (`none`: a deep copy, identical to nothing else) -/
inductive SVal
  | pub (c : Int)
  | sc (k : TKind) (l : LinComb) (id : Option Nat)
deriving DecidableEq, Repr

/-- what a tracked variable / an expression holds -/
abbrev TVal := PTree SVal

namespace SVal
def toVal : SVal → Val
  | .pub c => .int c
  | .sc .int l _ => .lc l
  | .sc .bool l _ => .lcb l
  | .sc .fxp l _ => .fxp l

/-- a freshly created object -/
def ofVal (v : Val) (id : Nat) : Option SVal :=
  match v with
  | .int c => some (.pub c)
  | .lc l => some (.sc .int l (some id))
  | .lcb l => some (.sc .bool l (some id))
  | .fxp l => some (.sc .fxp l (some id))
  | _ => none

/-- `truev is falsev` (for two separately created plain ints: CPython caches −5…256) -/
def sameObj : SVal → SVal → Bool
  | .sc _ _ (some i), .sc _ _ (some j) => i == j
  | .pub a, .pub b => a == b && decide (-5 ≤ a) && decide (a ≤ 256)
  | _, _ => false

def isSecret : SVal → Bool
  | .sc _ _ _ => true
  | .pub _ => false

/-- `copy.deepcopy` -/
def dcopy : SVal → SVal
  | .sc .int l id => .sc .int l id          -- `LinComb.__deepcopy__` returns `self`
  | .sc k l _ => .sc k l none               -- a new wrapper around the same `LinComb`
  | .pub c => .pub c
end SVal

/-- tracked variables hold secrets (at every leaf) -/
def TVal.isSecret (t : TVal) : Bool := t.all SVal.isSecret

def TVal.dcopy (t : TVal) : TVal := t.map SVal.dcopy

/-! ## the statement language -/

mutual
inductive BExpr
  | var (x : Nat)
  /-- `inp[i]`: a secret integer input -/
  | inp (i : Nat)
  /-- `finp[i]`: a secret fixed-point input -/
  | finp (i : Nat)
  | const (c : Int)
  | loopvar (v : Nat)
  | add (a b : BExpr)
  | sub (a b : BExpr)
  | mul (a b : BExpr)
  /-- a comparison: a boolean -/
  | cmp (op : Cmp) (a b : BExpr)
  /-- `~a`, `a & b`, `a | b` on booleans -/
  | not (a : BExpr)
  | and (a b : BExpr)
  | or (a b : BExpr)
  /-- `[e0, e1, …]` -/
  | list (es : BExprs)
  /-- `e[i]` with a public index -/
  | item (e : BExpr) (i : Nat)
inductive BExprs
  | nil
  | cons (e : BExpr) (es : BExprs)
end

/-- a condition is an expression that evaluates to a boolean -/
abbrev BCond := BExpr

mutual
inductive BStmt
  /-- `_.x = e` -/
  | assign (x : Nat) (e : BExpr)
  /-- `_.x[i0][i1]… = e` -/
  | setitem (x : Nat) (path : List Nat) (e : BExpr)
  /-- `_.x = if_then_else(c, t, f)` on evaluated branches -/
  | sel (x : Nat) (c : BCond) (t f : BExpr)
  /-- `_.x = if_then_else(c, lambda: t, lambda: f)` -/
  | ite (x : Nat) (c : BCond) (t f : BExpr)
  /-- `if _if(c): body` followed by `_elif`/`_else` arms and `_endif()` -/
  | ifs (c : BCond) (body : BBlock) (rest : BIfRest)
  /-- `for lv in _range(bound, max=mx): body` / `_endfor()` -/
  | forr (lv : Nat) (bound : BExpr) (mx : Nat) (body : BBlock)
  /-- `k = 0` / `while _while(c) and k < mx: body; k += 1; _breakif(brk)` / `_endwhile()` -/
  | whil (c : BCond) (mx : Nat) (body : BBlock) (brk : Option BCond)
inductive BBlock
  | nil
  | cons (s : BStmt) (rest : BBlock)
inductive BIfRest
  | endif
  | els (b : BBlock)
  | elif (c : BCond) (b : BBlock) (rest : BIfRest)
end

/-! ## `BranchingValues` -/

/-- `BranchingValues.vals`: insertion ordered dict from variable names to values -/
abbrev Vals := List (Nat × TVal)

namespace Vals
def get? : Vals → Nat → Option TVal
  | [], _ => none
  | (y, o) :: t, x => if y = x then some o else get? t x

def has (vs : Vals) (x : Nat) : Bool := (vs.get? x).isSome

/-- `d[x] = o`: in place when the key exists, appended otherwise -/
def set : Vals → Nat → TVal → Vals
  | [], x, o => [(x, o)]
  | (y, p) :: t, x, o => if y = x then (y, o) :: t else (y, p) :: set t x o

/-- `for nm in other: del d[nm]` -/
def removeAll (vs other : Vals) : Vals := vs.filter (fun kv => !other.has kv.1)

/-- `for nm in other: d[nm] = other[nm]` (the value is looked up by name, as in the source) -/
def setFrom (other acc : Vals) (kv : Nat × TVal) : Vals :=
  match other.get? kv.1 with
  | some o => acc.set kv.1 o
  | none => acc
def setAll (vs other : Vals) : Vals := other.foldl (setFrom other) vs

/-- `BranchingValues.backup()`: `copy.deepcopy` of every value -/
def backup : Vals → Vals
  | [] => []
  | (y, o) :: t => (y, o.dcopy) :: backup t
end Vals

/-- an open `IfContext` / `WhileContext` -/
structure BCtx where
  isIf : Bool
  bak : Vals
  /-- `self.cond` (the `LinCombBool`'s wrapped `LinComb`) -/
  cond : LinComb
  /-- `self.icond` (`IfContext` only; `None` after `_else`) -/
  icond : Option LinComb
  nodefvals : Option Vals
  origguard : GuardBak
deriving Repr

/-- the `BranchingValues` object without its stack, plus the allocator of identity stamps -/
structure BV where
  vals : Vals := []
  next : Nat := 0
deriving Repr

structure BSt where
  bv : BV := {}
  stack : List BCtx := []
deriving Repr

/-! ## `if_then_else` on evaluated values and the merges of `BranchContext.exit` -/

/-- `if isinstance(truev, LinCombFxp): falsev = LinCombFxp._ensurefxp(falsev)` -/
def coerceF (t f : Val) : M Val :=
  match t with
  | .fxp _ => do let y ← ensurefxp f; pure (Val.fxp y)
  | _ => pure f

/-- the scalar arm of `if_then_else`: `falsev = _ensurefxp(falsev)` when `truev` is fixed point,
then `ret = falsev + cond * (truev - falsev)` (`LinCombBool.__mul__`: `self.lc * other`), returned as
`LinCombBool(ret, False)` when both branches are `LinCombBool`s (`iteTag`) -/
def iteScalar (cond : LinComb) (t f : Val) : M Val := do
  let f' ← coerceF t f
  let d ← subV t f'
  let prod ← mulLV cond d
  let ret ← addV f' prod
  iteTag t f' ret

/-- the result of an operator: a new object -/
def freshS (v : Val) (n : Nat) : M (SVal × Nat) :=
  match SVal.ofVal v n with
  | some o => pure (o, n + 1)
  | none => raise .unmodelled

/-- `if_then_else(cond, truev, falsev)` for a `LinCombBool` condition and two scalars -/
def mergeS (cond : LinComb) (t f : SVal) (n : Nat) : M (SVal × Nat) :=
  if SVal.sameObj t f then
    (if t = f then pure (t, n) else raise .unmodelled)     -- `truev is falsev`
  else do
    let r ← iteScalar cond t.toVal f.toVal
    freshS r n

mutual
/-- `if_then_else(cond, truev, falsev)` on evaluated values: scalars, or lists of one length merged
element-wise; `if len(truev) != len(falsev): raise ValueError(…)` comes before any element is merged -/
def mergeT (cond : LinComb) : TVal → TVal → Nat → M (TVal × Nat)
  | .leaf a, .leaf b, n => do
    let (r, n) ← mergeS cond a b n
    pure (.leaf r, n)
  | .node ts, .node fs, n =>
    if ts.length = fs.length then do
      let (rs, n) ← mergeTL cond ts fs n
      pure (.node rs, n)
    else raise .value                             -- lists of different lengths: refused, not zipped
  | .node _, .leaf _, _ => raise .type            -- `len(falsev)`: a scalar has no length
  | .leaf _, .node _, _ => raise .type            -- `truev - falsev` with a list
def mergeTL (cond : LinComb) : List TVal → List TVal → Nat → M (List TVal × Nat)
  | t :: ts, f :: fs, n => do
    let (r, n) ← mergeT cond t f n
    let (rs, n) ← mergeTL cond ts fs n
    pure (r :: rs, n)
  | [], [], n => pure ([], n)
  | _, _, _ => raise .value                       -- not reached: `mergeT` compared the lengths
end

/-- `for nm in self.nodefvals: … self.nodefvals[nm] = if_then_else(self.cond, self.ctx.vals[nm], self.nodefvals[nm])` -/
def mergeNodef (cond : LinComb) (vals : Vals) : Vals → Nat → M (Vals × Nat)
  | [], n => pure ([], n)
  | (x, o) :: rest, n =>
    match vals.get? x with
    | none => raise .runtime                 -- "branch did not set value for x"
    | some t => do
      let (r, n) ← mergeT cond t o n
      let (rs, n) ← mergeNodef cond vals rest n
      pure ((x, r) :: rs, n)

/-- `for nm in self.ctx.vals: … self.ctx.vals[nm] = if_then_else(self.cond, self.ctx.vals[nm], self.bak[nm])` -/
def mergeBak (cond : LinComb) (bak : Vals) : Vals → Nat → M (Vals × Nat)
  | [], n => pure ([], n)
  | (x, t) :: rest, n =>
    match bak.get? x with
    | none => raise .runtime                 -- "branch set spurious value: x"
    | some f => do
      let (r, n) ← mergeT cond t f n
      let (rs, n) ← mergeBak cond bak rest n
      pure ((x, r) :: rs, n)

/-! ## `BranchContext` -/

/-- `BranchContext.enter(nwcond)`: snapshot, remember the condition, install the guard -/
def BCtx.enter (ctx : BCtx) (nwcond : LinComb) (bv : BV) : M BCtx := do
  let og ← addGuard (.lcb nwcond)
  pure { ctx with bak := bv.vals.backup, cond := nwcond, origguard := og }

/-- `BranchContext.exit()` -/
def BCtx.exit (ctx : BCtx) (bv : BV) : M (BCtx × BV) := do
  restoreGuard ctx.origguard
  let (nd, n) ← (match ctx.nodefvals with
    | none => pure (bv.vals.filter (fun kv => !ctx.bak.has kv.1), bv.next)
    | some nd => mergeNodef ctx.cond bv.vals nd bv.next)
  let (vals, n) ← mergeBak ctx.cond ctx.bak (bv.vals.removeAll nd) n
  pure ({ ctx with nodefvals := some nd }, { vals := vals, next := n })

/-- `LinCombBool.__and__` on two `LinCombBool`s: `LinCombBool(self.lc * other.lc, False)` -/
def andBB (x y : LinComb) : M LinComb := do
  let p ← mulLL x y
  mkBool p false

/-! ## `IfContext` -/

/-- `IfContext(cond, ctx)`: `self.icond = ~cond` first, then `BranchContext.__init__` → `enter(cond)` -/
def ifNew (cond : LinComb) (bv : BV) : M BCtx := do
  let ic ← boolNot cond
  let ctx : BCtx := { isIf := true, bak := [], cond := cond, icond := some ic, nodefvals := none,
                      origguard := ⟨none, false, oneSafe⟩ }
  ctx.enter cond bv

/-- a condition must be a `LinCombBool` -/
def condLC : Val → M LinComb
  | .lcb c => pure c
  | _ => raise .unmodelled

/-- `IfContext._elif(nwcond)` with `nwcond` a thunk evaluated after the previous arm was closed -/
def ifElif (ctx : BCtx) (thunk : BV → M Val) (bv : BV) : M (BCtx × BV) := do
  let (ctx, bv) ← ctx.exit bv
  let nwv ← thunk bv
  let nw ← condLC nwv
  match ctx.icond with
  | none => raise .unmodelled                 -- `_elif` after `_else`
  | some ic => do
    let nn ← boolNot nw
    let nwicond ← andBB ic nn                 -- `self.icond & (~nwcond)`, before entering the guard
    let c ← andBB ic nw
    let ctx ← ctx.enter c bv
    pure ({ ctx with icond := some nwicond }, bv)

/-- `IfContext._else()` -/
def ifElse (ctx : BCtx) (bv : BV) : M (BCtx × BV) := do
  let (ctx, bv) ← ctx.exit bv
  match ctx.icond with
  | none => raise .type                       -- `add_guard(None)`
  | some ic => do
    let ctx ← ctx.enter ic bv
    pure ({ ctx with icond := none }, bv)

/-- `IfContext.end()` -/
def ifEnd (ctx : BCtx) (bv : BV) : M BV := do
  let (ctx, bv) ← ctx.exit bv
  let nd := ctx.nodefvals.getD []
  if !nd.isEmpty && ctx.icond.isSome then raise .runtime     -- "if branch set … and no else branch"
  else pure { bv with vals := bv.vals.setAll nd }

/-! ## `WhileContext` -/

/-- `WhileContext.exit()` -/
def whileExit (ctx : BCtx) (bv : BV) : M (BCtx × BV) := do
  let (ctx, bv) ← ctx.exit bv
  if !(ctx.nodefvals.getD []).isEmpty then raise .runtime    -- "conditional write to undefined variables"
  else pure (ctx, bv)

/-- `WhileContext(cond, ctx)` -/
def whileNew (cond : LinComb) (bv : BV) : M BCtx :=
  let ctx : BCtx := { isIf := false, bak := [], cond := cond, icond := none, nodefvals := none,
                      origguard := ⟨none, false, oneSafe⟩ }
  ctx.enter cond bv

/-- `WhileContext._while(nwcond)`: `self.exit(); self.enter(self.cond & nwcond)` -/
def whileNext (ctx : BCtx) (nwcond : LinComb) (bv : BV) : M (BCtx × BV) := do
  let (ctx, bv) ← whileExit ctx bv
  let c ← andBB ctx.cond nwcond
  let ctx ← ctx.enter c bv
  pure (ctx, bv)

/-! ## module functions on the stack -/

/-- `_if(cond, ctx)` -/
def bIf (cond : Val) (bs : BSt) : M BSt := do
  let c ← condLC cond
  let ctx ← ifNew c bs.bv
  pure { bs with stack := ctx :: bs.stack }

/-- `_elif(nwcond, ctx)`: `stack[-1]._elif(nwcond)` -/
def bElif (thunk : BV → M Val) (bs : BSt) : M BSt :=
  match bs.stack with
  | [] => raise .index
  | ctx :: rest =>
    if !ctx.isIf then raise .attribute else do
    let (ctx, bv) ← ifElif ctx thunk bs.bv
    pure ⟨bv, ctx :: rest⟩

/-- `_else(ctx)` -/
def bElse (bs : BSt) : M BSt :=
  match bs.stack with
  | [] => raise .index
  | ctx :: rest =>
    if !ctx.isIf then raise .attribute else do
    let (ctx, bv) ← ifElse ctx bs.bv
    pure ⟨bv, ctx :: rest⟩

/-- `_endif(ctx)`: `stack.pop().end()` -/
def bEndif (bs : BSt) : M BSt :=
  match bs.stack with
  | [] => raise .index
  | ctx :: rest =>
    if ctx.isIf then do
      let bv ← ifEnd ctx bs.bv
      pure ⟨bv, rest⟩
    else do
      let (_, bv) ← whileExit ctx bs.bv      -- `WhileContext.end()`
      pure ⟨bv, rest⟩

/-- first `_while(cond, ctx)` of a loop, and `ObliviousIterator.__next__` on its first call:
`stack.append(WhileContext(cond, ctx))` -/
def bWhilePush (cond : Val) (bs : BSt) : M BSt := do
  let c ← condLC cond
  let ctx ← whileNew c bs.bv
  pure { bs with stack := ctx :: bs.stack }

/-- later `_while(cond, ctx)` calls of the same loop, later `__next__` calls:
`stack[-1]._while(cond)` -/
def bWhileNext (cond : Val) (bs : BSt) : M BSt :=
  match bs.stack with
  | [] => raise .index
  | ctx :: rest =>
    if ctx.isIf then raise .attribute else do
    let c ← condLC cond
    let (ctx, bv) ← whileNext ctx c bs.bv
    pure ⟨bv, ctx :: rest⟩

/-- `_breakif(cond, ctx)`: `stack[-1]._while(~cond)` -/
def bBreakif (cond : Val) (bs : BSt) : M BSt := do
  let c ← condLC cond
  let nc ← boolNot c
  bWhileNext (.lcb nc) bs

/-- `_endwhile(ctx)` / `_endfor(ctx)`: `stack.pop().end()` -/
def bEndwhile (bs : BSt) : M BSt :=
  match bs.stack with
  | [] => raise .index
  | ctx :: rest =>
    if ctx.isIf then do
      let bv ← ifEnd ctx bs.bv
      pure ⟨bv, rest⟩
    else do
      let (_, bv) ← whileExit ctx bs.bv
      pure ⟨bv, rest⟩

/-! ## expressions -/

/-- what the rendered source can read besides the tracked variables -/
structure BEnv where
  /-- `inp[i]`: the `PrivVal` objects of the secret integer inputs -/
  inputs : List SVal
  /-- `finp[i]`: the `PrivValFxp` objects of the secret fixed-point inputs -/
  finputs : List SVal := []
  /-- loop variables in scope (plain Python ints) -/
  lvs : List (Nat × Int) := []

def lookupLv : List (Nat × Int) → Nat → Option Int
  | [], _ => none
  | (y, k) :: t, x => if y = x then some k else lookupLv t x

/-- operand kinds of a comparison for which the library's answer is Python's: two integers (not both
plain), or a fixed-point number on the left (the other side is converted), or a plain int on the
left of a fixed-point number (the reflected method).  `LinComb < LinCombFxp` is off by the scaling
factor (recorded under C14); booleans compare through `_ensurebool` and are not used. -/
def cmpOK : Val → Val → Bool
  | .lc _, .lc _ | .lc _, .int _ | .int _, .lc _ => true
  | .fxp _, .lc _ | .fxp _, .int _ | .fxp _, .fxp _ | .fxp _, .lcb _ => true
  | .int _, .fxp _ => true
  | _, _ => false

/-- fixed point times fixed point truncates -/
def mulOK : Val → Val → Bool
  | .fxp _, .fxp _ => false
  | _, _ => true

def bothBool : Val → Val → Bool
  | .lcb _, .lcb _ => true
  | _, _ => false

/-- a binary operator on two evaluated operands: scalars only (`list + list` concatenates) -/
def binS (op : Val → Val → M Val) (ok : Val → Val → Bool) (x y : TVal) (n : Nat) : M (TVal × Nat) :=
  match x, y with
  | .leaf a, .leaf b =>
    if ok a.toVal b.toVal then do
      let r ← op a.toVal b.toVal
      let (o, n) ← freshS r n
      pure (.leaf o, n)
    else raise .unmodelled
  | _, _ => raise .unmodelled

/-- `~a` on a boolean -/
def notS (x : TVal) (n : Nat) : M (TVal × Nat) :=
  match x with
  | .leaf (.sc .bool l _) => do
    let r ← boolNot l
    pure (.leaf (.sc .bool r (some n)), n + 1)
  | _ => raise .unmodelled

mutual
/-- value of an expression and the next free identity stamp: bare names denote the existing
objects, every operator result is a new object -/
def evalE (env : BEnv) (vals : Vals) : BExpr → Nat → M (TVal × Nat)
  | .var x, n => match vals.get? x with
    | some t => pure (t, n)
    | none => raise .key                       -- `BranchingValues.__getattr__`: `self.vals[nm]`
  | .inp i, n => match env.inputs[i]? with
    | some o => pure (.leaf o, n)
    | none => raise .index
  | .finp i, n => match env.finputs[i]? with
    | some o => pure (.leaf o, n)
    | none => raise .index
  | .const c, n => pure (.leaf (.pub c), n)
  | .loopvar v, n => match lookupLv env.lvs v with
    | some k => pure (.leaf (.pub k), n)
    | none => raise .unmodelled                -- NameError
  | .add a b, n => do
    let (x, n) ← evalE env vals a n
    let (y, n) ← evalE env vals b n
    binS addV (fun _ _ => true) x y n
  | .sub a b, n => do
    let (x, n) ← evalE env vals a n
    let (y, n) ← evalE env vals b n
    binS subV (fun _ _ => true) x y n
  | .mul a b, n => do
    let (x, n) ← evalE env vals a n
    let (y, n) ← evalE env vals b n
    binS mulV mulOK x y n
  | .cmp op a b, n => do
    let (x, n) ← evalE env vals a n
    let (y, n) ← evalE env vals b n
    binS (cmpV op) cmpOK x y n
  | .not a, n => do
    let (x, n) ← evalE env vals a n
    notS x n
  | .and a b, n => do
    let (x, n) ← evalE env vals a n
    let (y, n) ← evalE env vals b n
    binS (bwV .and) bothBool x y n
  | .or a b, n => do
    let (x, n) ← evalE env vals a n
    let (y, n) ← evalE env vals b n
    binS (bwV .or) bothBool x y n
  | .list es, n => do
    let (ts, n) ← evalEs env vals es n
    pure (.node ts, n)
  | .item e i, n => do
    let (t, n) ← evalE env vals e n
    match t with
    | .node ts => match ts[i]? with
      | some u => pure (u, n)
      | none => raise .index
    | .leaf _ => raise .type
def evalEs (env : BEnv) (vals : Vals) : BExprs → Nat → M (List TVal × Nat)
  | .nil, n => pure ([], n)
  | .cons e es, n => do
    let (t, n) ← evalE env vals e n
    let (ts, n) ← evalEs env vals es n
    pure (t :: ts, n)
end

/-- a condition: the value must be a scalar (the objects created while evaluating it are not
stored anywhere, their stamps are released) -/
def evalC (env : BEnv) (bv : BV) (c : BCond) : M Val := do
  let (t, _) ← evalE env bv.vals c bv.next
  match t with
  | .leaf o => pure o.toVal
  | .node _ => raise .unmodelled

/-- `_.x = <value>`: tracked variables hold secrets -/
def bindT (x : Nat) (t : TVal) (n : Nat) (bs : BSt) : M BSt :=
  if t.isSecret then pure { bs with bv := { vals := bs.bv.vals.set x t, next := n } }
  else raise .unmodelled                       -- a tracked variable holding a plain int

/-- `guarded(cond)(thunk)()`: `add_guard`, run, `restore_guard` (an exception ends the run) -/
def guardedM {α} (cond : LinComb) (m : M α) : M α := do
  let bak ← addGuard (.lcb cond)
  let a ← m
  restoreGuard bak
  pure a

/-- `if_then_else` after the branch values exist, without the identity test on the two arguments
(used for thunked branches: the test was made on the two lambdas): lists element-wise (with the
test on every pair of elements), scalars by `iteScalar` -/
def iteVals (cond : LinComb) (tv fv : TVal) (n : Nat) : M (TVal × Nat) :=
  match tv, fv with
  | .leaf a, .leaf b => do
    let r ← iteScalar cond a.toVal b.toVal
    let (o, n) ← freshS r n
    pure (.leaf o, n)
  | _, _ => mergeT cond tv fv n

/-- `if_then_else(cond, lambda: t, lambda: f)` -/
def iteThunks (cond : LinComb) (t f : Nat → M (TVal × Nat)) (n : Nat) : M (TVal × Nat) := do
  let (tv, n) ← guardedM cond (t n)
  let nc ← boolNot cond                        -- `~cond` is computed after the first thunk ran
  let (fv, n) ← guardedM nc (f n)
  iteVals cond tv fv n

/-- `for` loops over a counter: `f i` for `i = start, start+1, …` (`n` times) -/
def iterM {β} : Nat → (Nat → β → M β) → Nat → β → M β
  | 0, _, _, b => pure b
  | n+1, f, i, b => do
    let b ← f i b
    iterM n f (i+1) b

/-- one round of `for lv in _range(stop, max=…)` after the first: `__next__` (`ix += 1`,
`stack[-1]._while(ix != stop)`), then the body with `lv = ix` -/
def forRound (env : BEnv) (lv : Nat) (stop : Val) (body : BEnv → BSt → M BSt) (ix : Nat) (bs : BSt) : M BSt := do
  let c ← cmpV .ne (.int ix) stop
  let bs ← bWhileNext c bs
  body { env with lvs := (lv, ix) :: env.lvs } bs

/-- `_breakif(brk)` when the loop has a break condition -/
def breakStep (env : BEnv) (brk : Option BCond) (bs : BSt) : M BSt :=
  match brk with
  | none => pure bs
  | some b => do
    let bc ← evalC env bs.bv b
    bBreakif bc bs

/-- one round of `while _while(c) and k < mx:`: the body, `k += 1`, `_breakif(brk)`, then the loop
test of the next round, `_while(c)`, evaluated inside the guard of this round -/
def whileRound (env : BEnv) (body : BSt → M BSt) (c : BCond) (brk : Option BCond) (bs : BSt) : M BSt := do
  let bs ← body bs
  let bs ← breakStep env brk bs
  let cn ← evalC env bs.bv c
  bWhileNext cn bs

/-! ## the interpreter -/

mutual
def execStmt (env : BEnv) : BStmt → BSt → M BSt
  | .assign x e, bs => do
    let (t, n) ← evalE env bs.bv.vals e bs.bv.next
    bindT x t n bs
  | .setitem x path e, bs => do
    -- the right-hand side first, then `_.x` (`__getattr__`), `[i0]…` and `list.__setitem__`
    let (t, n) ← evalE env bs.bv.vals e bs.bv.next
    match bs.bv.vals.get? x with
    | none => raise .key
    | some old =>
      match old.set path t with
      | some new => bindT x new n bs
      | none => raise .index
  | .sel x c t f, bs => do
    let cv ← evalC env bs.bv c
    let (tv, n) ← evalE env bs.bv.vals t bs.bv.next
    let (fv, n) ← evalE env bs.bv.vals f n
    let cl ← condLC cv
    let (r, n) ← mergeT cl tv fv n
    bindT x r n bs
  | .ite x c t f, bs => do
    let cv ← evalC env bs.bv c
    let cl ← condLC cv
    let (r, n) ← iteThunks cl (evalE env bs.bv.vals t) (evalE env bs.bv.vals f) bs.bv.next
    bindT x r n bs
  | .ifs c body rest, bs => do
    let cv ← evalC env bs.bv c
    let bs ← bIf cv bs
    let bs ← execBlock env body bs
    execIfRest env rest bs
  | .forr lv bound mx body, bs => do
    -- `_range(bound, max=mx)`; `__next__` #1: `ix = 0`, push `WhileContext(0 != stop)`
    let stop ← evalC env bs.bv bound
    match stop with
    | .lc _ => do
      let c0 ← cmpV .ne (.int 0) stop
      let bs ← bWhilePush c0 bs
      let bs ← execBlock { env with lvs := (lv, 0) :: env.lvs } body bs
      -- `__next__` #k: `ix += 1`; while `ix < max`: `stack[-1]._while(ix != stop)`, body
      let bs ← iterM (mx - 1) (forRound env lv stop (fun env' bs => execBlock env' body bs)) 1 bs
      bEndwhile bs
    | _ => raise .unmodelled                   -- a public bound, a bound that is not an integer
  | .whil c mx body brk, bs => do
    let c0 ← evalC env bs.bv c
    let bs ← bWhilePush c0 bs
    let bs ← iterM mx (fun _ bs => whileRound env (fun bs => execBlock env body bs) c brk bs) 0 bs
    bEndwhile bs

def execBlock (env : BEnv) : BBlock → BSt → M BSt
  | .nil, bs => pure bs
  | .cons s rest, bs => do
    let bs ← execStmt env s bs
    execBlock env rest bs

def execIfRest (env : BEnv) : BIfRest → BSt → M BSt
  | .endif, bs => bEndif bs
  | .els b, bs => do
    let bs ← bElse bs
    let bs ← execBlock env b bs
    bEndif bs
  | .elif c b rest, bs => do
    let bs ← bElif (fun bv => evalC env bv c) bs
    let bs ← execBlock env b bs
    execIfRest env rest bs
end

/-! ## a complete run -/

/-- initial value of a scalar: `PrivVal(v)`, `PrivVal(v) == 1`, `PrivValFxp(m / 2^e)` -/
inductive ILeaf
  | int (v : Int)
  | bool (v : Int)
  | fxp (m : Int) (e : Nat)
deriving Repr, DecidableEq

/-- initial value of a tracked variable -/
abbrev IVal := PTree ILeaf

def setupLeaf : ILeaf → Nat → M (SVal × Nat)
  | .int v, n => do
    let l ← privVal v
    pure (.sc .int l (some n), n + 1)
  | .bool v, n => do
    let l ← privVal v
    let b ← cmpV .eq (.lc l) (.int 1)
    match b with
    | .lcb c => pure (.sc .bool c (some n), n + 1)
    | _ => raise .unmodelled
  | .fxp m e, n => do
    let r ← mkVal .privx (.flt m e)
    match r with
    | .fxp l => pure (.sc .fxp l (some n), n + 1)
    | _ => raise .unmodelled

mutual
def setupT : IVal → Nat → M (TVal × Nat)
  | .leaf a, n => do
    let (o, n) ← setupLeaf a n
    pure (.leaf o, n)
  | .node ts, n => do
    let (rs, n) ← setupTL ts n
    pure (.node rs, n)
def setupTL : List IVal → Nat → M (List TVal × Nat)
  | [], n => pure ([], n)
  | t :: ts, n => do
    let (r, n) ← setupT t n
    let (rs, n) ← setupTL ts n
    pure (r :: rs, n)
end

/-- `ctx = BranchingValues(); ctx.x = …` for every initial variable -/
def setupVars : List (Nat × IVal) → BV → M BV
  | [], bv => pure bv
  | (x, v) :: rest, bv => do
    let (t, n) ← setupT v bv.next
    setupVars rest { vals := bv.vals.set x t, next := n }

/-- `inp = [PrivVal(x) …]`, `finp = [PrivValFxp(x) …]` -/
def setupInputs : List ILeaf → Nat → M (List SVal × Nat)
  | [], n => pure ([], n)
  | v :: rest, n => do
    let (o, n) ← setupLeaf v n
    let (os, n) ← setupInputs rest n
    pure (o :: os, n)

/-- the whole case: tracked variables, integer inputs, fixed-point inputs, program -/
def runBlockT (init : List (Nat × IVal)) (inputs : List Int) (finputs : List (Int × Nat)) (prog : BBlock) : M BSt := do
  let bv ← setupVars init {}
  let (inp, n) ← setupInputs (inputs.map ILeaf.int) bv.next
  let (finp, n) ← setupInputs (finputs.map (fun me => ILeaf.fxp me.1 me.2)) n
  execBlock { inputs := inp, finputs := finp } prog { bv := { bv with next := n }, stack := [] }

/-- integer variables and inputs only -/
def runBlock (init : List (Nat × Int)) (inputs : List Int) (prog : BBlock) : M BSt :=
  runBlockT (init.map (fun kv => (kv.1, PTree.leaf (ILeaf.int kv.2)))) inputs [] prog

end Pysnark
