import PysnarkModel.Model.Prog
/-!
# Block branching (`pysnark/branching.py`): `BranchingValues`, `IfContext`, `WhileContext`,
`ObliviousIterator`/`_range`, `_breakif`, thunked `if_then_else`

Two layers.

* The *library layer* mirrors `branching.py` class by class: `BranchContext.enter/exit`, the
  `IfContext` methods (`__init__`, `_elif`, `_else`, `end`), the `WhileContext` methods (`exit`,
  `_while`, `end`), and the module functions `_if/_elif/_else/_endif/_while/_endwhile/_breakif`,
  `ObliviousIterator.__next__`, `_endfor` acting on the `BranchingValues` object (an insertion
  ordered dict of tracked variables plus the stack of open contexts).
* The *program layer* is a small structured statement language (the AST that
  `harness/props/c09.py` generates and `harness/worker_block.py` renders as Python source) and
  its interpreter `execBlock`, which calls the library layer in exactly the order in which the
  rendered source calls the real functions.

Modelling decisions (validated by the correspondence run, stated in the evidence):

* `getcontext`'s frame inspection is replaced by the explicit context (the harness passes `ctx=`).
* `_while` decides "first call of this loop or next iteration" by the caller's line number; the
  structured interpreter knows statically which call is the first one (the harness renders every
  `while` on a line of its own), so the line number is not modelled.
* Object identity.  `if_then_else` starts with `if truev is falsev: return truev`, which is how a
  variable that a branch did not rebind costs no constraint (`backup()` deep-copies, and
  `LinComb.__deepcopy__` returns `self`).  Tracked variables therefore hold *objects*: a `LinComb`
  plus an identity stamp.  Operators create fresh objects, `_.x = _.y` and `_.x = inp[i]` alias.
  Equal stamps imply equal `LinComb`s in every real run; the model checks this when it takes the
  shortcut and stops with `unmodelled` otherwise (never observed; counted by the harness), so that
  no freshness invariant is needed in the proofs.
* Tracked variables hold `LinComb`s (secret integers); conditions are `LinCombBool`s (what the
  comparison operators return).  Other kinds stop with `unmodelled`.
-/
namespace Pysnark

/-! ## the statement language -/

inductive BExpr
  | var (x : Nat)
  | inp (i : Nat)
  | const (c : Int)
  | loopvar (v : Nat)
  | add (a b : BExpr)
  | sub (a b : BExpr)
  | mul (a b : BExpr)
deriving Repr, DecidableEq

/-- a comparison of two expressions -/
structure BCond where
  op : Cmp
  lhs : BExpr
  rhs : BExpr
deriving Repr, DecidableEq

mutual
inductive BStmt
  /-- `_.x = e` -/
  | assign (x : Nat) (e : BExpr)
  /-- `_.x = if_then_else(c, lambda: t, lambda: f)` -/
  | ite (x : Nat) (c : BCond) (t f : BExpr)
  /-- `if _if(c): body` followed by `_elif`/`_else` arms and `_endif()` -/
  | ifs (c : BCond) (body : BBlock) (rest : BIfRest)
  /-- `for lv in _range(bound, max=mx): body` / `_endfor()` -/
  | forr (lv : Nat) (bound : BExpr) (mx : Nat) (body : BBlock)
  /-- `k = 0` / `while _while(c) and k < mx: body; k += 1; _breakif(brk)` / `_endwhile()` -/
  | whil (c : BCond) (mx : Nat) (body : BBlock) (brk : Option BCond)
inductive BBlock
  | nil
  | cons (s : BStmt) (rest : BBlock)
inductive BIfRest
  | endif
  | els (b : BBlock)
  | elif (c : BCond) (b : BBlock) (rest : BIfRest)
end

/-! ## `BranchingValues` -/

/-- a Python object holding a `LinComb`: the value and its identity -/
structure Obj where
  v : LinComb
  id : Nat
deriving Repr, DecidableEq

/-- `BranchingValues.vals`: insertion ordered dict from variable names to objects -/
abbrev Vals := List (Nat × Obj)

namespace Vals
def get? : Vals → Nat → Option Obj
  | [], _ => none
  | (y, o) :: t, x => if y = x then some o else get? t x

def has (vs : Vals) (x : Nat) : Bool := (vs.get? x).isSome

/-- `d[x] = o`: in place when the key exists, appended otherwise -/
def set : Vals → Nat → Obj → Vals
  | [], x, o => [(x, o)]
  | (y, p) :: t, x, o => if y = x then (y, o) :: t else (y, p) :: set t x o

/-- `for nm in other: del d[nm]` -/
def removeAll (vs other : Vals) : Vals := vs.filter (fun kv => !other.has kv.1)

/-- `for nm in other: d[nm] = other[nm]` (the value is looked up by name, as in the source) -/
def setFrom (other acc : Vals) (kv : Nat × Obj) : Vals :=
  match other.get? kv.1 with
  | some o => acc.set kv.1 o
  | none => acc
def setAll (vs other : Vals) : Vals := other.foldl (setFrom other) vs
end Vals

/-- an open `IfContext` / `WhileContext` -/
structure BCtx where
  isIf : Bool
  bak : Vals
  /-- `self.cond` (the `LinCombBool`'s wrapped `LinComb`) -/
  cond : LinComb
  /-- `self.icond` (`IfContext` only; `None` after `_else`) -/
  icond : Option LinComb
  nodefvals : Option Vals
  origguard : GuardBak
deriving Repr

/-- the `BranchingValues` object without its stack, plus the allocator of identity stamps -/
structure BV where
  vals : Vals := []
  next : Nat := 0
deriving Repr

structure BSt where
  bv : BV := {}
  stack : List BCtx := []
deriving Repr

/-! ## `if_then_else` on two objects and the merges of `BranchContext.exit` -/

/-- `if_then_else(cond, truev, falsev)` for a `LinCombBool` condition and two `LinComb` objects -/
def mergeObj (cond : LinComb) (t f : Obj) (next : Nat) : M (Obj × Nat) :=
  if t.id = f.id then
    (if t.v = f.v then pure (t, next) else raise .unmodelled)     -- `truev is falsev`
  else do
    let r ← iteLLL cond t.v f.v
    pure (⟨r, next⟩, next + 1)

/-- `for nm in self.nodefvals: … self.nodefvals[nm] = if_then_else(self.cond, self.ctx.vals[nm], self.nodefvals[nm])` -/
def mergeNodef (cond : LinComb) (vals : Vals) : Vals → Nat → M (Vals × Nat)
  | [], n => pure ([], n)
  | (x, o) :: rest, n =>
    match vals.get? x with
    | none => raise .runtime                 -- "branch did not set value for x"
    | some t => do
      let (r, n) ← mergeObj cond t o n
      let (rs, n) ← mergeNodef cond vals rest n
      pure ((x, r) :: rs, n)

/-- `for nm in self.ctx.vals: … self.ctx.vals[nm] = if_then_else(self.cond, self.ctx.vals[nm], self.bak[nm])` -/
def mergeBak (cond : LinComb) (bak : Vals) : Vals → Nat → M (Vals × Nat)
  | [], n => pure ([], n)
  | (x, t) :: rest, n =>
    match bak.get? x with
    | none => raise .runtime                 -- "branch set spurious value: x"
    | some f => do
      let (r, n) ← mergeObj cond t f n
      let (rs, n) ← mergeBak cond bak rest n
      pure ((x, r) :: rs, n)

/-! ## `BranchContext` -/

/-- `BranchContext.enter(nwcond)`: snapshot, remember the condition, install the guard -/
def BCtx.enter (ctx : BCtx) (nwcond : LinComb) (bv : BV) : M BCtx := do
  let og ← addGuard (.lcb nwcond)
  pure { ctx with bak := bv.vals, cond := nwcond, origguard := og }

/-- `BranchContext.exit()` -/
def BCtx.exit (ctx : BCtx) (bv : BV) : M (BCtx × BV) := do
  restoreGuard ctx.origguard
  let (nd, n) ← (match ctx.nodefvals with
    | none => pure (bv.vals.filter (fun kv => !ctx.bak.has kv.1), bv.next)
    | some nd => mergeNodef ctx.cond bv.vals nd bv.next)
  let (vals, n) ← mergeBak ctx.cond ctx.bak (bv.vals.removeAll nd) n
  pure ({ ctx with nodefvals := some nd }, { vals := vals, next := n })

/-- `LinCombBool.__and__` on two `LinCombBool`s: `LinCombBool(self.lc * other.lc, False)` -/
def andBB (x y : LinComb) : M LinComb := do
  let p ← mulLL x y
  mkBool p false

/-! ## `IfContext` -/

/-- `IfContext(cond, ctx)`: `self.icond = ~cond` first, then `BranchContext.__init__` → `enter(cond)` -/
def ifNew (cond : LinComb) (bv : BV) : M BCtx := do
  let ic ← boolNot cond
  let ctx : BCtx := { isIf := true, bak := [], cond := cond, icond := some ic, nodefvals := none,
                      origguard := ⟨none, false, oneSafe⟩ }
  ctx.enter cond bv

/-- a condition must be a `LinCombBool` -/
def condLC : Val → M LinComb
  | .lcb c => pure c
  | _ => raise .unmodelled

/-- `IfContext._elif(nwcond)` with `nwcond` a thunk evaluated after the previous arm was closed -/
def ifElif (ctx : BCtx) (thunk : BV → M Val) (bv : BV) : M (BCtx × BV) := do
  let (ctx, bv) ← ctx.exit bv
  let nwv ← thunk bv
  let nw ← condLC nwv
  match ctx.icond with
  | none => raise .unmodelled                 -- `_elif` after `_else`
  | some ic => do
    let nn ← boolNot nw
    let nwicond ← andBB ic nn                 -- `self.icond & (~nwcond)`, before entering the guard
    let c ← andBB ic nw
    let ctx ← ctx.enter c bv
    pure ({ ctx with icond := some nwicond }, bv)

/-- `IfContext._else()` -/
def ifElse (ctx : BCtx) (bv : BV) : M (BCtx × BV) := do
  let (ctx, bv) ← ctx.exit bv
  match ctx.icond with
  | none => raise .type                       -- `add_guard(None)`
  | some ic => do
    let ctx ← ctx.enter ic bv
    pure ({ ctx with icond := none }, bv)

/-- `IfContext.end()` -/
def ifEnd (ctx : BCtx) (bv : BV) : M BV := do
  let (ctx, bv) ← ctx.exit bv
  let nd := ctx.nodefvals.getD []
  if !nd.isEmpty && ctx.icond.isSome then raise .runtime     -- "if branch set … and no else branch"
  else pure { bv with vals := bv.vals.setAll nd }

/-! ## `WhileContext` -/

/-- `WhileContext.exit()` -/
def whileExit (ctx : BCtx) (bv : BV) : M (BCtx × BV) := do
  let (ctx, bv) ← ctx.exit bv
  if !(ctx.nodefvals.getD []).isEmpty then raise .runtime    -- "conditional write to undefined variables"
  else pure (ctx, bv)

/-- `WhileContext(cond, ctx)` -/
def whileNew (cond : LinComb) (bv : BV) : M BCtx :=
  let ctx : BCtx := { isIf := false, bak := [], cond := cond, icond := none, nodefvals := none,
                      origguard := ⟨none, false, oneSafe⟩ }
  ctx.enter cond bv

/-- `WhileContext._while(nwcond)`: `self.exit(); self.enter(self.cond & nwcond)` -/
def whileNext (ctx : BCtx) (nwcond : LinComb) (bv : BV) : M (BCtx × BV) := do
  let (ctx, bv) ← whileExit ctx bv
  let c ← andBB ctx.cond nwcond
  let ctx ← ctx.enter c bv
  pure (ctx, bv)

/-! ## module functions on the stack -/

/-- `_if(cond, ctx)` -/
def bIf (cond : Val) (bs : BSt) : M BSt := do
  let c ← condLC cond
  let ctx ← ifNew c bs.bv
  pure { bs with stack := ctx :: bs.stack }

/-- `_elif(nwcond, ctx)`: `stack[-1]._elif(nwcond)` -/
def bElif (thunk : BV → M Val) (bs : BSt) : M BSt :=
  match bs.stack with
  | [] => raise .index
  | ctx :: rest =>
    if !ctx.isIf then raise .attribute else do
    let (ctx, bv) ← ifElif ctx thunk bs.bv
    pure ⟨bv, ctx :: rest⟩

/-- `_else(ctx)` -/
def bElse (bs : BSt) : M BSt :=
  match bs.stack with
  | [] => raise .index
  | ctx :: rest =>
    if !ctx.isIf then raise .attribute else do
    let (ctx, bv) ← ifElse ctx bs.bv
    pure ⟨bv, ctx :: rest⟩

/-- `_endif(ctx)`: `stack.pop().end()` -/
def bEndif (bs : BSt) : M BSt :=
  match bs.stack with
  | [] => raise .index
  | ctx :: rest =>
    if ctx.isIf then do
      let bv ← ifEnd ctx bs.bv
      pure ⟨bv, rest⟩
    else do
      let (_, bv) ← whileExit ctx bs.bv      -- `WhileContext.end()`
      pure ⟨bv, rest⟩

/-- first `_while(cond, ctx)` of a loop, and `ObliviousIterator.__next__` on its first call:
`stack.append(WhileContext(cond, ctx))` -/
def bWhilePush (cond : Val) (bs : BSt) : M BSt := do
  let c ← condLC cond
  let ctx ← whileNew c bs.bv
  pure { bs with stack := ctx :: bs.stack }

/-- later `_while(cond, ctx)` calls of the same loop, later `__next__` calls:
`stack[-1]._while(cond)` -/
def bWhileNext (cond : Val) (bs : BSt) : M BSt :=
  match bs.stack with
  | [] => raise .index
  | ctx :: rest =>
    if ctx.isIf then raise .attribute else do
    let c ← condLC cond
    let (ctx, bv) ← whileNext ctx c bs.bv
    pure ⟨bv, ctx :: rest⟩

/-- `_breakif(cond, ctx)`: `stack[-1]._while(~cond)` -/
def bBreakif (cond : Val) (bs : BSt) : M BSt := do
  let c ← condLC cond
  let nc ← boolNot c
  bWhileNext (.lcb nc) bs

/-- `_endwhile(ctx)` / `_endfor(ctx)`: `stack.pop().end()` -/
def bEndwhile (bs : BSt) : M BSt :=
  match bs.stack with
  | [] => raise .index
  | ctx :: rest =>
    if ctx.isIf then do
      let bv ← ifEnd ctx bs.bv
      pure ⟨bv, rest⟩
    else do
      let (_, bv) ← whileExit ctx bs.bv
      pure ⟨bv, rest⟩

/-! ## expressions -/

/-- what the rendered source can read besides the tracked variables -/
structure BEnv where
  /-- `inp[i]`: the `PrivVal` objects of the secret inputs -/
  inputs : List Obj
  /-- loop variables in scope (plain Python ints) -/
  lvs : List (Nat × Int) := []

def lookupLv : List (Nat × Int) → Nat → Option Int
  | [], _ => none
  | (y, k) :: t, x => if y = x then some k else lookupLv t x

def evalE (env : BEnv) (bv : BV) : BExpr → M Val
  | .var x => match bv.vals.get? x with
    | some o => pure (.lc o.v)
    | none => raise .key                       -- `BranchingValues.__getattr__`: `self.vals[nm]`
  | .inp i => match env.inputs[i]? with
    | some o => pure (.lc o.v)
    | none => raise .index
  | .const c => pure (.int c)
  | .loopvar v => match lookupLv env.lvs v with
    | some k => pure (.int k)
    | none => raise .unmodelled                -- NameError
  | .add a b => do let x ← evalE env bv a; let y ← evalE env bv b; addV x y
  | .sub a b => do let x ← evalE env bv a; let y ← evalE env bv b; subV x y
  | .mul a b => do let x ← evalE env bv a; let y ← evalE env bv b; mulV x y

/-- a comparison (`LinComb.__lt__` … or the reflected method when the left operand is an int) -/
def evalC (env : BEnv) (bv : BV) (c : BCond) : M Val := do
  let x ← evalE env bv c.lhs
  let y ← evalE env bv c.rhs
  cmpV c.op x y

/-- the existing object an expression denotes when it is a bare name (`_.y`, `inp[i]`) -/
def leafObj (env : BEnv) (bv : BV) : BExpr → Option Obj
  | .var x => bv.vals.get? x
  | .inp i => env.inputs[i]?
  | _ => none

/-- `_.x = <a new object>` -/
def bindNew (x : Nat) (v : Val) (bs : BSt) : M BSt :=
  match v with
  | .lc l => pure { bs with bv := { vals := bs.bv.vals.set x ⟨l, bs.bv.next⟩, next := bs.bv.next + 1 } }
  | _ => raise .unmodelled                     -- a tracked variable holding a plain int

/-- `_.x = <value of e>`: a bare name aliases the object, anything else is a new object -/
def bindVar (env : BEnv) (x : Nat) (e : BExpr) (v : Val) (bs : BSt) : M BSt :=
  match leafObj env bs.bv e with
  | some o => pure { bs with bv := { bs.bv with vals := bs.bv.vals.set x o } }
  | none => bindNew x v bs

/-- `guarded(cond)(thunk)()`: `add_guard`, run, `restore_guard` (an exception ends the run) -/
def guardedM {α} (cond : LinComb) (m : M α) : M α := do
  let bak ← addGuard (.lcb cond)
  let a ← m
  restoreGuard bak
  pure a

/-- `if_then_else(cond, lambda: t, lambda: f)` -/
def iteThunks (cond : LinComb) (t f : M Val) : M Val := do
  let tv ← guardedM cond t
  let nc ← boolNot cond                        -- `~cond` is computed after the first thunk ran
  let fv ← guardedM nc f
  let d ← subV tv fv
  let pr ← mulLV cond d                        -- `LinCombBool.__mul__`: `self.lc * other`
  addV fv pr

/-- `for` loops over a counter: `f i` for `i = start, start+1, …` (`n` times) -/
def iterM {β} : Nat → (Nat → β → M β) → Nat → β → M β
  | 0, _, _, b => pure b
  | n+1, f, i, b => do
    let b ← f i b
    iterM n f (i+1) b

/-- one round of `for lv in _range(stop, max=…)` after the first: `__next__` (`ix += 1`,
`stack[-1]._while(ix != stop)`), then the body with `lv = ix` -/
def forRound (env : BEnv) (lv : Nat) (stop : Val) (body : BEnv → BSt → M BSt) (ix : Nat) (bs : BSt) : M BSt := do
  let c ← cmpV .ne (.int ix) stop
  let bs ← bWhileNext c bs
  body { env with lvs := (lv, ix) :: env.lvs } bs

/-- `_breakif(brk)` when the loop has a break condition -/
def breakStep (env : BEnv) (brk : Option BCond) (bs : BSt) : M BSt :=
  match brk with
  | none => pure bs
  | some b => do
    let bc ← evalC env bs.bv b
    bBreakif bc bs

/-- one round of `while _while(c) and k < mx:`: the body, `k += 1`, `_breakif(brk)`, then the loop
test of the next round, `_while(c)`, evaluated inside the guard of this round -/
def whileRound (env : BEnv) (body : BSt → M BSt) (c : BCond) (brk : Option BCond) (bs : BSt) : M BSt := do
  let bs ← body bs
  let bs ← breakStep env brk bs
  let cn ← evalC env bs.bv c
  bWhileNext cn bs

/-! ## the interpreter -/

mutual
def execStmt (env : BEnv) : BStmt → BSt → M BSt
  | .assign x e, bs => do
    let v ← evalE env bs.bv e
    bindVar env x e v bs
  | .ite x c t f, bs => do
    let cv ← evalC env bs.bv c
    let cl ← condLC cv
    let r ← iteThunks cl (evalE env bs.bv t) (evalE env bs.bv f)
    bindNew x r bs
  | .ifs c body rest, bs => do
    let cv ← evalC env bs.bv c
    let bs ← bIf cv bs
    let bs ← execBlock env body bs
    execIfRest env rest bs
  | .forr lv bound mx body, bs => do
    -- `_range(bound, max=mx)`; `__next__` #1: `ix = 0`, push `WhileContext(0 != stop)`
    let stop ← evalE env bs.bv bound
    match stop with
    | .lc _ => do
      let c0 ← cmpV .ne (.int 0) stop
      let bs ← bWhilePush c0 bs
      let bs ← execBlock { env with lvs := (lv, 0) :: env.lvs } body bs
      -- `__next__` #k: `ix += 1`; while `ix < max`: `stack[-1]._while(ix != stop)`, body
      let bs ← iterM (mx - 1) (forRound env lv stop (fun env' bs => execBlock env' body bs)) 1 bs
      bEndwhile bs
    | _ => raise .unmodelled                   -- a public bound
  | .whil c mx body brk, bs => do
    let c0 ← evalC env bs.bv c
    let bs ← bWhilePush c0 bs
    let bs ← iterM mx (fun _ bs => whileRound env (fun bs => execBlock env body bs) c brk bs) 0 bs
    bEndwhile bs

def execBlock (env : BEnv) : BBlock → BSt → M BSt
  | .nil, bs => pure bs
  | .cons s rest, bs => do
    let bs ← execStmt env s bs
    execBlock env rest bs

def execIfRest (env : BEnv) : BIfRest → BSt → M BSt
  | .endif, bs => bEndif bs
  | .els b, bs => do
    let bs ← bElse bs
    let bs ← execBlock env b bs
    bEndif bs
  | .elif c b rest, bs => do
    let bs ← bElif (fun bv => evalC env bv c) bs
    let bs ← execBlock env b bs
    execIfRest env rest bs
end

/-! ## a complete run -/

/-- `ctx = BranchingValues(); ctx.x = PrivVal(v) …; inp = [PrivVal(x) …]` -/
def setupVars : List (Nat × Int) → BV → M BV
  | [], bv => pure bv
  | (x, v) :: rest, bv => do
    let l ← privVal v
    setupVars rest { vals := bv.vals.set x ⟨l, bv.next⟩, next := bv.next + 1 }

def setupInputs : List Int → Nat → M (List Obj)
  | [], _ => pure []
  | v :: rest, n => do
    let l ← privVal v
    let os ← setupInputs rest (n + 1)
    pure (⟨l, n⟩ :: os)

/-- the whole case: tracked variables, inputs, program -/
def runBlock (init : List (Nat × Int)) (inputs : List Int) (prog : BBlock) : M BSt := do
  let bv ← setupVars init {}
  let inp ← setupInputs inputs bv.next
  execBlock { inputs := inp } prog { bv := { bv with next := bv.next + inp.length }, stack := [] }

end Pysnark
