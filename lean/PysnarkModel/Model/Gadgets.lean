import PysnarkModel.Model.Prim
/-!
# `LinComb` gadgets on typed operands (`runtime.py` class `LinComb`, l.176-709)

One function per method, same branch order, same order of witness allocation, same use of
`add_constraint` vs `add_constraint_unsafe`, same `LinComb.ONE` vs `ONE_SAFE`.

Style rule (DESIGN §4): value-dependent branching and raising live in separate pure `…Hint`
functions; the monadic skeleton around them is straight-line.
A `LinCombBool` is represented here by its wrapped `LinComb`.
-/
namespace Pysnark

/-- `LinCombBool.is_boolean_value` -/
def isBooleanValue (v : Int) : Bool := v == 0 || v == 1

/-- `LinCombBool(lc, constrain)` returning the wrapped `LinComb`. -/
def mkBool (x : LinComb) (constrain : Bool := true) : M LinComb := fun s =>
  if !isBooleanValue x.value then .error .value
  else if constrain then
    -- add_constraint(lc, 1 - lc, LinComb.ZERO);  `1 - lc` is `LinComb.__rsub__`
    (do addConstraint x (x.rsubI 1) LinComb.zero; pure x) s
  else .ok (x, s)

/-- `PrivValBool(v)` for an int `v` -/
def privValBool (v : Int) : M LinComb := fun s =>
  if !isBooleanValue v then .error .value   -- parse_boolean
  else (do let x ← privVal v; mkBool x) s

/-- `PubValBool(v)` for an int `v` -/
def pubValBool (v : Int) : M LinComb := fun s =>
  if !isBooleanValue v then .error .value
  else (do let x ← pubVal v; mkBool x) s

/-- `LinComb.from_bits(bits)`: `sum([biti * (1 << i) ...])`; `none` is the plain int `0` that
Python's `sum` returns for an empty list.  The first addend is `0 + t₀` (= `t₀ + ConstVal(0)`). -/
def fromBitsAux : List LinComb → Nat → LinComb → LinComb
  | [], _, acc => acc
  | b :: bs, i, acc => fromBitsAux bs (i+1) (acc.add (b.mulI (2 ^ i)))

def fromBits : List LinComb → Option LinComb
  | [] => none
  | b :: bs => some (fromBitsAux bs 1 ((b.mulI 1).addI 0))

/-- `self - v` / `self + v` where `v` is what `from_bits` returned -/
def LinComb.subFB (x : LinComb) : Option LinComb → LinComb
  | none => x.subI 0
  | some y => x.sub y
def LinComb.addFB (x : LinComb) : Option LinComb → LinComb
  | none => x.addI 0
  | some y => x.add y

/-- `assert_zero` -/
def assertZero (x : LinComb) : M Unit := fun s =>
  if !s.ignoreErrors && x.value != 0 then .error .assertion
  else addConstraint LinComb.zero LinComb.zero x true s

/-- Python-level check of `to_bits` / `assert_positive` -/
def fitsNonneg (v : Int) (n : Nat) : Bool := !(v < 0 || Py.bitLength v > n)

/-- `to_bits(bits)` -/
def toBits (x : LinComb) (bits : Option Nat := none) : M (List LinComb) := fun s =>
  let n := bits.getD s.bitlength
  if !s.ignoreErrors && !fitsNonneg x.value n then .error .assertion
  else
    (do let bs ← mapM' privValBool (Py.bitsOf x.value n)
        assertZero (x.subFB (fromBits bs))
        pure bs) s

/-- hints of `check_positive`: `(ret, bits)` or the raise -/
def checkPositiveHint (s : St) (v : Int) (n : Nat) : Except Err (Int × List Int) :=
  if s.isGuard && Py.bitLength v ≤ n then
    .ok (if v ≥ 0 then 1 else 0, Py.bitsOf (if v ≥ 0 then v else -v - 1) n)
  else if s.ignoreErrors then .ok (0, List.replicate n 0)
  else .error .value

/-- `check_positive(bits)`; returns the `LinCombBool`'s wrapped value -/
def checkPositive (x : LinComb) (bits : Option Nat := none) : M LinComb := do
  let s ← getSt
  let n := bits.getD s.bitlength
  let (retv, bitvs) ← liftE (checkPositiveHint s x.value n)
  let ret ← privValBool retv
  let bs ← mapM' privValBool bitvs
  addConstraint (ret.mulI 2) x ((x.addFB (fromBits bs)).add (ret.rsubI 1))
  pure ret

/-- `assert_positive(bits)` -/
def assertPositive (x : LinComb) (bits : Option Nat := none) : M Unit := fun s =>
  let n := bits.getD s.bitlength
  if !s.ignoreErrors && !fitsNonneg x.value n then .error .assertion
  else (do let _ ← toBits x bits; pure ()) s

/-- `check_zero` -/
def checkZero (x : LinComb) : M LinComb := do
  let ret ← privVal (if x.value == 0 then 1 else 0)
  let w ← fieldInverse (x.value + (if x.value == 0 then 1 else 0))
  let wit ← privVal w
  addConstraintUnsafe x wit (oneSafe.sub ret)
  addConstraintUnsafe x ret LinComb.zero
  mkBool ret false

/-- `LinCombBool.__invert__`: `LinCombBool(1 - self.lc, False)` -/
def boolNot (b : LinComb) : M LinComb := mkBool (b.rsubI 1) false

/-- `check_nonzero` -/
def checkNonzero (x : LinComb) : M LinComb := do
  let z ← checkZero x
  boolNot z

/-- hint of `assert_nonzero` -/
def assertNonzeroHint (s : St) (v : Int) : Except Err Int :=
  if s.isGuard && v != 0 then
    match Py.invert v s.p with
    | some y => .ok y
    | none => .error .zerodiv
  else if s.ignoreErrors then .ok 0
  else .error .assertion

/-- `assert_nonzero` -/
def assertNonzero (x : LinComb) : M Unit := do
  let s ← getSt
  let w ← liftE (assertNonzeroHint s x.value)
  let wit ← privVal w
  addConstraint x wit s.one false

/-! ### comparisons, typed `LinComb × LinComb` -/
def ltLL (a b : LinComb) : M LinComb := checkPositive ((b.sub a).subI 1)
def leLL (a b : LinComb) : M LinComb := checkPositive (b.sub a)
def eqLL (a b : LinComb) : M LinComb := checkZero (a.sub b)
def neLL (a b : LinComb) : M LinComb := checkNonzero (a.sub b)
def gtLL (a b : LinComb) : M LinComb := checkPositive ((a.sub b).subI 1)
def geLL (a b : LinComb) : M LinComb := checkPositive (a.sub b)

/-! ### comparisons with an `int` right operand (`other - self` is `__rsub__`) -/
def ltLI (a : LinComb) (c : Int) : M LinComb := checkPositive ((a.rsubI c).subI 1)
def leLI (a : LinComb) (c : Int) : M LinComb := checkPositive (a.rsubI c)
def eqLI (a : LinComb) (c : Int) : M LinComb := checkZero (a.subI c)
def neLI (a : LinComb) (c : Int) : M LinComb := checkNonzero (a.subI c)
def gtLI (a : LinComb) (c : Int) : M LinComb := checkPositive ((a.subI c).subI 1)
def geLI (a : LinComb) (c : Int) : M LinComb := checkPositive (a.subI c)

/-! ### assertions (`other` already passed through `_ensurelc`) -/
def assertLt (a b : LinComb) : M Unit := fun s =>
  if !s.ignoreErrors && a.value ≥ b.value then .error .assertion
  else assertPositive ((b.sub a).subI 1) none s
def assertLe (a b : LinComb) : M Unit := fun s =>
  if !s.ignoreErrors && a.value > b.value then .error .assertion
  else assertPositive (b.sub a) none s
def assertEq (a b : LinComb) : M Unit := fun s =>
  if !s.ignoreErrors && a.value != b.value then .error .assertion
  else assertZero (a.sub b) s
def assertNe (a b : LinComb) : M Unit := fun s =>
  if !s.ignoreErrors && a.value == b.value then .error .assertion
  else assertNonzero (a.sub b) s
def assertGt (a b : LinComb) : M Unit := fun s =>
  if !s.ignoreErrors && a.value ≤ b.value then .error .assertion
  else assertPositive ((a.sub b).subI 1) none s
def assertGe (a b : LinComb) : M Unit := fun s =>
  if !s.ignoreErrors && a.value < b.value then .error .assertion
  else assertPositive (a.sub b) none s

/-- `assert_range(lo, hi)` (bounds already `_ensurelc`'d) -/
def assertRange (x lo hi : LinComb) : M Unit := fun s =>
  if !s.ignoreErrors && (x.value < lo.value || x.value ≥ hi.value) then .error .assertion
  else (do assertPositive (x.sub lo) none; assertPositive ((hi.sub x).subI 1) none) s

/-- `val()`: `(self - PubVal(self.value)).assert_zero(); return self.value` -/
def valL (x : LinComb) : M Int := do
  let o ← pubVal x.value
  assertZero (x.sub o)
  pure x.value

/-! ### arithmetic -/
/-- `__mul__` for a `LinComb` operand -/
def mulLL (a b : LinComb) : M LinComb := do
  let r ← privVal (a.value * b.value)
  addConstraintUnsafe a b r
  pure r

/-- `__truediv__` by an int -/
def truedivLI (a : LinComb) (c : Int) : M LinComb := fun s =>
  if c == 0 then .error .value
  else if s.isGuard && Py.mod a.value c == 0 then
    match Py.invert c s.p with
    | some i => .ok (⟨Py.floordiv a.value c, a.lc.scale i⟩, s)
    | none => .error .zerodiv
  else if s.ignoreErrors then
    match Py.invert c s.p with
    | some i => .ok (⟨a.value * i % s.p, a.lc.scale i⟩, s)
    | none => .error .zerodiv
  else .error .value

def truedivHint (s : St) (a b : Int) : Except Err Int :=
  if b == 0 then .error .value
  else if s.isGuard && Py.mod a b == 0 then .ok (Py.floordiv a b)
  else if s.ignoreErrors then .ok 0
  else .error .value

/-- `__truediv__` by a `LinComb` -/
def truedivLL (a b : LinComb) : M LinComb := do
  let s ← getSt
  let q ← liftE (truedivHint s a.value b.value)
  let res ← privVal q
  addConstraint b res a
  pure res

/-- `__divmod__` with the divisor already a `LinComb` (`ConstVal(int)` for ints) -/
def divmodLL (a d : LinComb) : M (LinComb × LinComb) := fun s =>
  if d.value == 0 then .error .value
  else
    (do let quo ← privVal (Py.floordiv a.value d.value)
        let res ← mulLL quo d
        let rem ← privVal (a.value - res.value)
        addConstraint quo d (a.sub rem)
        assertLt rem d        -- `_ensurelc(divisor)` is the identity on a LinComb
        assertPositive rem none
        pure (quo, rem)) s

/-- `self ** n` for a python int `n ≥ 0` -/
def powLN (a : LinComb) : Nat → M LinComb
  | 0 => fun s => .ok (s.one, s)
  | 1 => pure a
  | n+1 => do
    let r ← powLN a n
    mulLL a r

/-- typed `if_then_else(cond, truev, falsev)` on `LinComb`s:
`falsev + cond * (truev - falsev)` with `cond` a `LinCombBool` (`cond.lc * other`). -/
def iteLLL (c t f : LinComb) : M LinComb := do
  let prod ← mulLL c (t.sub f)
  pure (f.add prod)

/-- `LinCombBool._ensurebool(int)` → `LinCombBool(ConstVal(v))` -/
def ensureboolI (v : Int) : M LinComb := fun s =>
  if !isBooleanValue v then .error .value else mkBool (LinComb.const v) true s

def reduceValue (x : LinComb) (p : Int) : LinComb := ⟨x.value % p, x.lc⟩

/-- squaring chain of `__pow__` with a secret exponent: `powers` -/
def powersAux : Nat → LinComb → Int → M (List LinComb)
  | 0, _, _ => pure []
  | n+1, curr, p => do
    let c ← mulLL curr curr            -- curr ** 2 = curr * curr ** 1
    let c := reduceValue c p
    let rest ← powersAux n c p
    pure (c :: rest)

/-- `self ** other` for a `LinComb` exponent -/
def powLL (a e : LinComb) : M LinComb := do
  let ebits ← toBits e none
  let s ← getSt
  let tail ← powersAux ebits.length a s.p
  let powers := a :: tail
  let multiplicands ← mapM' (fun (bp : LinComb × LinComb) => do
      let one ← ensureboolI 1
      let c ← eqLL bp.1 one
      let s' ← getSt
      iteLLL c bp.2 s'.one) (ebits.zip powers)
  let s ← getSt
  let rec mulAll : List LinComb → LinComb → M LinComb
    | [], acc => pure acc
    | m :: ms, acc => do
      let r ← mulLL acc m
      mulAll ms (reduceValue r s.p)
  mulAll multiplicands s.one

/-- `self << n` for a python int (negative count: Python's `1 << n` raises ValueError) -/
def lshiftLI (a : LinComb) (n : Int) : M LinComb := fun s =>
  if n < 0 then .error .value else .ok (a.mulI (2 ^ n.toNat), s)

/-- `self >> n` for a python int: a negative count raises `ValueError("negative shift count")`
before anything is traced (as `1 << n` does for `<<`); otherwise `from_bits(self.to_bits()[n:])` -/
def rshiftLI (a : LinComb) (n : Int) : M (Option LinComb) := fun s =>
  if n < 0 then .error .value else
    (do let bits ← toBits a none
        pure (fromBits (bits.drop n.toNat))) s

/-- bitwise ops with a python int: an unconstrained fresh private value -/
def andLI (a : LinComb) (c : Int) : M LinComb := privVal (Py.land a.value c)
def xorLI (a : LinComb) (c : Int) : M LinComb := privVal (Py.lxor a.value c)
def orLI (a : LinComb) (c : Int) : M LinComb := privVal (Py.lor a.value c)

/-- `x * y` for two `LinCombBool`s: `B.__mul__` → `self.lc * other` → `NotImplemented` →
`other.__rmul__(self.lc)` → `other.lc * self.lc` (operands swapped). -/
def mulBB (x y : LinComb) : M LinComb := mulLL y x

def andLL (a b : LinComb) : M (Option LinComb) := do
  let ab ← toBits a none
  let bb ← toBits b none
  let res ← mapM' (fun (xy : LinComb × LinComb) => mulBB xy.1 xy.2) (ab.zip bb)
  pure (fromBits res)

/-- `x + y - 2 * x * y` on two `LinCombBool`s -/
def xorLL (a b : LinComb) : M (Option LinComb) := do
  let ab ← toBits a none
  let bb ← toBits b none
  let res ← mapM' (fun (xy : LinComb × LinComb) => do
      -- x + y → y.lc + x.lc ;  2 * x → x.lc * 2 ; (2x) * y → y.lc * (2x)
      let p ← mulLL xy.2 (xy.1.mulI 2)
      pure ((xy.2.add xy.1).sub p)) (ab.zip bb)
  pure (fromBits res)

/-- `x + y - x * y` on two `LinCombBool`s -/
def orLL (a b : LinComb) : M (Option LinComb) := do
  let ab ← toBits a none
  let bb ← toBits b none
  let res ← mapM' (fun (xy : LinComb × LinComb) => do
      let p ← mulBB xy.1 xy.2
      pure ((xy.2.add xy.1).sub p)) (ab.zip bb)
  pure (fromBits res)

/-- `~self` -/
def invertL (a : LinComb) : M (Option LinComb) := do
  let bits ← toBits a none
  let inv ← mapM' boolNot bits
  pure (fromBits inv)

/-- `abs(self)`: `if_then_else(self >= 0, self, -self)` -/
def absL (a : LinComb) : M LinComb := do
  let c ← geLI a 0
  iteLLL c a a.neg

end Pysnark
