import PysnarkModel.Model.Prog
/-!
# Guarded regions as histories (`runtime.guarded`, `add_guard`, `restore_guard`)

A history is a tree of events: entering a region through the `guarded()` wrapper (which restores
on both exits), entering through a bare `add_guard`/`restore_guard` pair (what the statement-based
block API does: no unwinding), a `try/except` that catches whatever propagates, raising, and
traced operations.  `exec` returns the final state and whether an exception is propagating.
-/
namespace Pysnark

inductive Ev
  /-- `guarded(cond)(body)()` with `cond = PrivVal(c)` (kind `L`), `PrivValBool(c)` (`B`) or the int `c` (`I`) -/
  | guarded (kind : Kind) (c : Int) (body : List Ev)
  /-- `bak = add_guard(cond); body; restore_guard(bak)` without try/finally -/
  | raw (kind : Kind) (c : Int) (body : List Ev)
  /-- `try: body  except BaseException: pass` -/
  | tryCatch (body : List Ev)
  /-- `raise SomeException` -/
  | raise
  /-- a traced operation: `PrivVal(a) < PrivVal(b)` (may raise by itself) -/
  | opLt (a b : Int)
  /-- `PrivVal(a).assert_zero()` -/
  | opAssertZero (a : Int)

/-- the guard triple C08 speaks about: active guard, error-suppression mode, meaning of constants -/
structure Triple where
  guard : Option LinComb
  ign : Bool
  one : LinComb
deriving BEq, Repr, DecidableEq

def St.triple (s : St) : Triple := ⟨s.guard, s.ignoreErrors, s.one⟩

/-- the condition object of a region -/
def mkCond (kind : Kind) (c : Int) : M Val :=
  match kind with
  | .const => pure (.int c)              -- a plain int condition
  | k => mkVal k (.int c)

/-- what a FAILING construction of the condition object leaves behind: `PrivValBool(c)` is
`LinCombBool(PrivVal(c))`, so the private value is recorded before the boolean check raises -/
def condFailSt (kind : Kind) (c : Int) (s : St) : St :=
  match kind with
  | .privb => { s with priv := s.priv ++ [c] }
  | .pubb => { s with pub := s.pub ++ [c] }
  | _ => s

mutual
/-- returns (state, exception propagating?) -/
def execEv : Ev → St → St × Bool
  | .guarded kind c body, s =>
    match mkCond kind c s with
    | .error _ => (condFailSt kind c s, true)
    | .ok (cv, s1) =>
      match addGuard cv s1 with
      | .error _ => (s1, true)                      -- add_guard raised before anything was installed
      | .ok (bak, s2) =>
        let (s3, exc) := execList body s2
        -- `try: ret = fn(); restore_guard(bak)  except: restore_guard(bak); raise`
        ({ s3 with guard := bak.guard, ignoreErrors := bak.ignoreErrors, one := bak.one }, exc)
  | .raw kind c body, s =>
    match mkCond kind c s with
    | .error _ => (condFailSt kind c s, true)
    | .ok (cv, s1) =>
      match addGuard cv s1 with
      | .error _ => (s1, true)
      | .ok (bak, s2) =>
        let (s3, exc) := execList body s2
        if exc then (s3, true)                      -- no unwinding: the guard stays installed
        else ({ s3 with guard := bak.guard, ignoreErrors := bak.ignoreErrors, one := bak.one }, false)
  | .tryCatch body, s => ((execList body s).1, false)
  | .raise, s => (s, true)
  | .opLt a b, s =>
    -- the two operands are recorded before the comparison can raise (it raises in its hint, before allocating)
    let s1 : St := { s with priv := s.priv ++ [a] }
    let s2 : St := { s1 with priv := s1.priv ++ [b] }
    match ltLL ⟨a, [(Wire.priv s.priv.length, 1)]⟩ ⟨b, [(Wire.priv s1.priv.length, 1)]⟩ s2 with
    | .ok (_, s') => (s', false)
    | .error _ => (s2, true)
  | .opAssertZero a, s =>
    let s1 : St := { s with priv := s.priv ++ [a] }
    match assertZero ⟨a, [(Wire.priv s.priv.length, 1)]⟩ s1 with
    | .ok (_, s') => (s', false)
    | .error _ => (s1, true)

def execList : List Ev → St → St × Bool
  | [], s => (s, false)
  | e :: es, s =>
    let (s1, exc) := execEv e s
    if exc then (s1, true) else execList es s1
end

-- histories in which every region is entered through the `guarded()` wrapper
mutual
def Ev.wrapped : Ev → Bool
  | .guarded _ _ body => wrappedList body
  | .raw _ _ _ => false
  | .tryCatch body => wrappedList body
  | _ => true
def wrappedList : List Ev → Bool
  | [] => true
  | e :: es => e.wrapped && wrappedList es
end

end Pysnark
