import PysnarkModel.Model.Prog
/-!
# Guarded regions as histories (`runtime.guarded`, `add_guard`, `restore_guard`)

A history is a tree of events: entering a region through the `guarded()` wrapper (which restores
on both exits), entering through a bare `add_guard`/`restore_guard` pair (what the statement-based
block API does: no unwinding), RE-ENTERING the decorator object of the innermost enclosing
`guarded()` region while it is active (recursion of a decorated function, or one decorator object
shared by caller and callee), a `try/except` that catches whatever propagates, raising, and
traced operations.  `exec` returns the final state and whether an exception is propagating.

`execEv`/`execList` carry the stack of the condition OBJECTS (as model values) of the enclosing
`guarded()` regions, innermost first: a re-entry runs `add_guard` on the very same condition object
(no new witness is allocated for it), takes its own backup and restores it on both exits.
-/
namespace Pysnark

inductive Ev
  /-- `guarded(cond)(body)()` with `cond = PrivVal(c)` (kind `L`), `PrivValBool(c)` (`B`) or the int `c` (`I`) -/
  | guarded (kind : Kind) (c : Int) (body : List Ev)
  /-- `bak = add_guard(cond); body; restore_guard(bak)` without try/finally -/
  | raw (kind : Kind) (c : Int) (body : List Ev)
  /-- the decorator object of the innermost enclosing `guarded(cond)` region is activated again while
  it is active: `f = guarded(cond)(fn)` where `fn` calls `f` (recursion), or `dec = guarded(cond)`
  decorating both a caller and its callee.  Same condition object; `add_guard(cond)` runs again.
  Outside every `guarded()` region there is no such decorator: the body just runs. -/
  | reenter (body : List Ev)
  /-- `try: body  except BaseException: pass` -/
  | tryCatch (body : List Ev)
  /-- `raise SomeException` -/
  | raise
  /-- a traced operation: `PrivVal(a) < PrivVal(b)` (may raise by itself) -/
  | opLt (a b : Int)
  /-- `PrivVal(a).assert_zero()` -/
  | opAssertZero (a : Int)

/-- the guard triple C08 speaks about: active guard, error-suppression mode, meaning of constants -/
structure Triple where
  guard : Option LinComb
  ign : Bool
  one : LinComb
deriving BEq, Repr, DecidableEq

def St.triple (s : St) : Triple := ⟨s.guard, s.ignoreErrors, s.one⟩

/-- the condition object of a region -/
def mkCond (kind : Kind) (c : Int) : M Val :=
  match kind with
  | .const => pure (.int c)              -- a plain int condition
  | k => mkVal k (.int c)

/-- what a FAILING construction of the condition object leaves behind: `PrivValBool(c)` is
`LinCombBool(PrivVal(c))`, so the private value is recorded before the boolean check raises -/
def condFailSt (kind : Kind) (c : Int) (s : St) : St :=
  match kind with
  | .privb => { s with priv := s.priv ++ [c] }
  | .pubb => { s with pub := s.pub ++ [c] }
  | _ => s

mutual
/-- returns (state, exception propagating?); `stk` = condition objects of the enclosing `guarded()`
regions, innermost first -/
def execEv : Ev → List Val → St → St × Bool
  | .guarded kind c body, stk, s =>
    match mkCond kind c s with
    | .error _ => (condFailSt kind c s, true)
    | .ok (cv, s1) =>
      match addGuard cv s1 with
      | .error _ => (s1, true)                      -- add_guard raised before anything was installed
      | .ok (bak, s2) =>
        let (s3, exc) := execList body (cv :: stk) s2
        -- `try: ret = fn(); restore_guard(bak)  except: restore_guard(bak); raise`
        ({ s3 with guard := bak.guard, ignoreErrors := bak.ignoreErrors, one := bak.one }, exc)
  | .raw kind c body, stk, s =>
    match mkCond kind c s with
    | .error _ => (condFailSt kind c s, true)
    | .ok (cv, s1) =>
      match addGuard cv s1 with
      | .error _ => (s1, true)
      | .ok (bak, s2) =>
        let (s3, exc) := execList body stk s2       -- not a decorator: the innermost one stays the same
        if exc then (s3, true)                      -- no unwinding: the guard stays installed
        else ({ s3 with guard := bak.guard, ignoreErrors := bak.ignoreErrors, one := bak.one }, false)
  | .reenter body, stk, s =>
    match stk with
    | [] => execList body [] s
    | cv :: rest =>
      -- the same `__guarded` wrapper runs again: `bak = add_guard(cond)` with the SAME cond object,
      -- a backup local to this activation, restored on both exits
      match addGuard cv s with
      | .error _ => (s, true)
      | .ok (bak, s2) =>
        let (s3, exc) := execList body (cv :: rest) s2
        ({ s3 with guard := bak.guard, ignoreErrors := bak.ignoreErrors, one := bak.one }, exc)
  | .tryCatch body, stk, s => ((execList body stk s).1, false)
  | .raise, _, s => (s, true)
  | .opLt a b, _, s =>
    -- the two operands are recorded before the comparison can raise (it raises in its hint, before allocating)
    let s1 : St := { s with priv := s.priv ++ [a] }
    let s2 : St := { s1 with priv := s1.priv ++ [b] }
    match ltLL ⟨a, [(Wire.priv s.priv.length, 1)]⟩ ⟨b, [(Wire.priv s1.priv.length, 1)]⟩ s2 with
    | .ok (_, s') => (s', false)
    | .error _ => (s2, true)
  | .opAssertZero a, _, s =>
    let s1 : St := { s with priv := s.priv ++ [a] }
    match assertZero ⟨a, [(Wire.priv s.priv.length, 1)]⟩ s1 with
    | .ok (_, s') => (s', false)
    | .error _ => (s1, true)

def execList : List Ev → List Val → St → St × Bool
  | [], _, s => (s, false)
  | e :: es, stk, s =>
    let (s1, exc) := execEv e stk s
    if exc then (s1, true) else execList es stk s1
end

-- histories in which every region is entered through the `guarded()` wrapper
mutual
def Ev.wrapped : Ev → Bool
  | .guarded _ _ body => wrappedList body
  | .raw _ _ _ => false
  | .reenter body => wrappedList body
  | .tryCatch body => wrappedList body
  | _ => true
def wrappedList : List Ev → Bool
  | [] => true
  | e :: es => e.wrapped && wrappedList es
end

end Pysnark
