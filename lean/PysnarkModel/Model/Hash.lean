import PysnarkModel.Model.Gadgets
import PysnarkModel.Model.Select
import PysnarkModel.Gen.Poseidon
/-!
# Model of the hash gadgets (`pysnark/poseidon_hash.py`, `pysnark/ggh_hash.py`)

Compositions of the tracer model's own operations on `LinComb`:

* `x + y` with `y` a python int (round constant)        → `LinComb.addI`
* `x ** a` with `a` a python int                         → `powLN`
* `x[i][k] * y[k][j]` with `x[i][k]` a python int        → `LinComb.mulI` (`__rmul__ = __mul__`)
* `result[i][j] += …` (no `__iadd__`: `result + …`)      → `LinComb.add`, starting from `LinComb.ZERO`
* `x.value %= modulus` (in place, on fresh objects only) → `reduceValue`
* `LinComb.ONE` / `LinComb.ZERO` in the padding          → `s.one` / `LinComb.zero`

The parameter set is an argument (`Gen.PoseidonParams`); `lookupParams`/`paramsInUse` model which
one the module picks at import time (the table entry of the backend name `pysnark.runtime`
reports, see `Model/Select.lean`).
-/
namespace Pysnark.Hash
open Pysnark Pysnark.Gen

/-! ## parameter selection (`poseidon_hash.py` l.14-19) -/

/-- `backend = runtime.backend_name`; `constants = poseidon_constants[backend]` if the table has
that key, else `NotImplementedError` (`none`).  The key is the name the selection code of
`pysnark/runtime.py` reports (`Select.select`), NOT the `PYSNARK_BACKEND` environment variable;
there is no fallback key. -/
def lookupParams (backendName : String) : Option PoseidonParams :=
  poseidonTable.lookup backendName

/-- what `import pysnark.poseidon_hash` ends with in a fresh interpreter -/
inductive ParamsOutcome
  /-- the module-level `constants` is this table entry -/
  | params (P : PoseidonParams)
  /-- `raise NotImplementedError("Poseidon is currently not implemented for this backend")` -/
  | notImplemented
  /-- `from pysnark import runtime` itself raised (import error of the named backend, or no
  backend at all): `poseidon_hash.py` never reaches its lookup -/
  | runtimeFails

/-- the lookup of `poseidon_hash.py` on a reported backend name -/
def paramsOfName (backendName : String) : ParamsOutcome :=
  match lookupParams backendName with
  | some P => .params P
  | none => .notImplemented

/-- the parameter set in use after `import pysnark.poseidon_hash` under selection configuration `c`:
`poseidon_hash.py` l.2 imports `pysnark.runtime` (running the selection code if it has not run),
l.14 reads the name it reported -/
def paramsInUse (c : Select.Config) : ParamsOutcome :=
  match Select.select c with
  | .ok name _ _ _ => paramsOfName name
  | .importError _ => .runtimeFails
  | .noBackend _ => .runtimeFails

/-! ## `permute` -/

/-- `[x + y for (x,y) in zip(sponge, round_constants[r])]` -/
def addRC (sponge : List LinComb) (rc : List Nat) : List LinComb :=
  (sponge.zip rc).map fun xc => xc.1.addI (xc.2 : Int)

/-- one entry of `matmul`: `result = LinComb.ZERO; for k in range(len(y)): result += x[i][k] * y[k][0]` -/
def dotRow (row : List Nat) (y : List LinComb) : LinComb :=
  (y.zip row).foldl (fun acc yc => acc.add (yc.1.mulI (yc.2 : Int))) LinComb.zero

/-- `transpose(matmul(matrix, transpose([sponge])))[0]` with the python failure modes:
`x[0]` on an empty matrix and `y[0]` on an empty column raise `IndexError`, the
`assert(len(x[0]) == len(y))` raises `AssertionError`, `x[i][k]` on a short row raises `IndexError`
(longer rows: the surplus entries are never read). -/
def mix (matrix : List (List Nat)) (sponge : List LinComb) : M (List LinComb) :=
  match matrix with
  | [] => raise .index
  | row0 :: _ =>
    if row0.length != sponge.length then raise .assertion
    else if sponge.isEmpty then raise .index
    else mapM' (fun row => if row.length < sponge.length then raise .index
                           else pure (dotRow row sponge)) matrix

/-- the S-box layer: `[x ** a for x in sponge]` (full) or `sponge[0] = sponge[0] ** a` (partial) -/
def sbox (a : Nat) (full : Bool) (sponge : List LinComb) : M (List LinComb) :=
  if full then mapM' (fun x => powLN x a) sponge
  else match sponge with
    | [] => raise .index
    | x :: xs => do
      let y ← powLN x a
      pure (y :: xs)

/-- the body of each of the three `for r in range(…)` loops, with `r` the index into
`round_constants` -/
def round (P : PoseidonParams) (full : Bool) (r : Nat) (sponge : List LinComb) : M (List LinComb) := do
  let rc ← match P.roundConstants[r]? with
    | some rc => pure rc
    | none => raise .index
  let sponge := addRC sponge rc
  let sponge ← sbox P.a full sponge
  let sponge ← mix P.matrix sponge
  let s ← getSt
  pure (sponge.map fun x => reduceValue x s.p)

/-- a `for` loop over round-constant indices -/
def rounds (P : PoseidonParams) (full : Bool) : List Nat → List LinComb → M (List LinComb)
  | [], sponge => pure sponge
  | r :: rs, sponge => do
    let sponge ← round P full r sponge
    rounds P full rs sponge

/-- `permute(sponge)` -/
def permute (P : PoseidonParams) (sponge : List LinComb) : M (List LinComb) := do
  let h := P.rF / 2
  let sponge ← rounds P true (List.range h) sponge
  let sponge ← rounds P false ((List.range P.rP).map (h + ·)) sponge
  rounds P true ((List.range h).map (h + P.rP + ·)) sponge

/-! ## `poseidon_hash` -/

/-- `sponge[1:] = [a + b for (a,b) in zip(sponge[1:], round_inputs)]` -/
def absorb (sponge block : List LinComb) : List LinComb :=
  sponge.take 1 ++ ((sponge.drop 1).zip block).map fun ab => ab.1.add ab.2

/-- the `for i in range(hash_rounds)` loop -/
def hashRounds (P : PoseidonParams) (ipr : Nat) (inputs : List LinComb) :
    List Nat → List LinComb → M (List LinComb)
  | [], sponge => pure sponge
  | i :: is, sponge => do
    let roundInputs := (inputs.drop (i * ipr)).take ((i + 1) * ipr - i * ipr)
    let sponge ← permute P (absorb sponge roundInputs)
    hashRounds P ipr inputs is sponge

/-- `poseidon_hash(inputs)` on a list of `LinComb`s (the `.lc` unwrapping of `LinCombFxp` /
`LinCombBool` is done by the caller) -/
def poseidonHash (P : PoseidonParams) (inputs : List LinComb) : M (List LinComb) := do
  let ipr := P.t - 1
  if ipr = 0 then raise .zerodiv      -- `len(inputs) % inputs_per_round`
  else do
    let numPad := ipr - inputs.length % ipr
    let numZeros := numPad - 1
    let s ← getSt
    let inputs := inputs ++ [s.one] ++ List.replicate numZeros LinComb.zero
    if inputs.length % ipr != 0 then raise .assertion
    else do
      let sponge := List.replicate P.t LinComb.zero
      let sponge ← hashRounds P ipr inputs (List.range (inputs.length / ipr)) sponge
      pure (sponge.drop 1)

/-! ## subset-sum hash (`ggh_hash.py`); the SHA-512-derived coefficients are an input list -/

/-- a bit of the input: a python int or a `LinComb` -/
inductive Bit
  | int (v : Int)
  | lc (x : LinComb)
deriving Repr

def Bit.isLC : Bit → Bool
  | .lc _ => true
  | .int _ => false

/-- the value a bit stands for -/
def Bit.value : Bit → Int
  | .int v => v
  | .lc x => x.value

/-- `ggh_hash_plain`: `total = (total + b * SHA512_prng(i)) % PRIME` -/
def gghPlain (p : Int) : List Int → List Int → Int → Int
  | c :: cs, b :: bs, total => gghPlain p cs bs ((total + b * c) % p)
  | _, _, total => total

/-- running total of `ggh_hash_nonplain`: the python int `0` until the first `LinComb` bit -/
inductive Total
  | int (v : Int)
  | lc (x : LinComb)
deriving Repr

def Total.value : Total → Int
  | .int v => v
  | .lc x => x.value

/-- one iteration of `ggh_hash_nonplain`: `total = total + b * coef; total.value = total.value % PRIME`.
`int + int` stays an int (and `total.value = …` then raises `AttributeError`);
`int + LinComb` is `LinComb.__radd__` = `lc + ConstVal(int)`; `LinComb + int` likewise. -/
def gghStep (p : Int) (total : Total) (b : Bit) (c : Int) : Except Err Total :=
  match total, b with
  | .int _, .int _ => .error .attribute
  | .int t, .lc x => .ok (.lc (reduceValue ((x.mulI c).addI t) p))
  | .lc t, .int v => .ok (.lc (reduceValue (t.addI (v * c)) p))
  | .lc t, .lc x => .ok (.lc (reduceValue (t.add (x.mulI c)) p))

def gghNonplain (p : Int) : List Int → List Bit → Total → Except Err Total
  | c :: cs, b :: bs, total =>
    match gghStep p total b c with
    | .ok t => gghNonplain p cs bs t
    | .error e => .error e
  | _, _, total => .ok total

/-- `ggh_hash(bits)` with `coefs[i] = SHA512_prng(i)` (at least `len(bits)` of them) -/
def gghHash (coefs : List Int) (bits : List Bit) : M Total := fun s =>
  if bits.any Bit.isLC then
    match gghNonplain s.p coefs bits (.int 0) with
    | .ok t => .ok (t, s)
    | .error e => .error e
  else .ok (.int (gghPlain s.p coefs (bits.map Bit.value) 0), s)

end Pysnark.Hash
