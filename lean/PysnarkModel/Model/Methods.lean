import PysnarkModel.Model.Val
/-!
# Constructors, methods and arrays on `Val`
-/
namespace Pysnark

inductive Kind | priv | pub | const | privb | pubb | privx | pubx
deriving DecidableEq, Repr

/-- `PrivVal(v)`, `PubVal(v)`, `ConstVal(v)`, `PrivValBool(v)`, … on a plain literal -/
def mkVal (k : Kind) (v : Val) : M Val := do
  match k, v with
  | .priv, .int c => do let x ← privVal c; pure (.lc x)
  | .pub, .int c => do let x ← pubVal c; pure (.lc x)
  | .const, .int c => pure (.lc (LinComb.const c))
  | .priv, _ | .pub, _ | .const, _ => raise .runtime
  | .privb, .int c => do let x ← privValBool c; pure (.lcb x)
  | .pubb, .int c => do let x ← pubValBool c; pure (.lcb x)
  | .privb, _ | .pubb, _ => raise .runtime
  | .privx, .int c => do let r ← getRes; let x ← privVal (c * 2 ^ r); pure (.fxp x)
  | .privx, .flt m e => do let r ← getRes; let x ← privVal (scaleFlt m e r); pure (.fxp x)
  | .pubx, .int c => do let r ← getRes; let x ← pubVal (c * 2 ^ r); pure (.fxp x)
  | .pubx, .flt m e => do let r ← getRes; let x ← pubVal (scaleFlt m e r); pure (.fxp x)
  | .privx, _ | .pubx, _ => raise .runtime

/-- `LinCombBool(x)` (constrain=True) -/
def wrapBool (v : Val) : M Val :=
  match v with
  | .lc x => do let r ← mkBool x true; pure (.lcb r)
  | _ => raise .runtime

/-- `LinCombFxp(x)` (scale=True) -/
def wrapFxp (v : Val) : M Val :=
  match v with
  | .lc x => do let r ← getRes; pure (.fxp (x.mulI (2 ^ r)))
  | _ => raise .runtime

inductive Meth
  | val | toBits | checkPositive | assertPositive | checkZero | checkNonzero
  | assertZero | assertNonzero
  | assertLt | assertLe | assertEq | assertNe | assertGt | assertGe | assertRange
  | ifElse | fromBits
deriving DecidableEq, Repr

def argNat? : List Val → M (Option Nat)
  | [] => pure Option.none
  | [.int n] => if n < 0 || n > 4096 then raise .unmodelled else pure (some n.toNat)
  | [.none] => pure Option.none
  | _ => raise .unmodelled

def assertCmp (m : Meth) (a b : LinComb) : M Unit :=
  match m with
  | .assertLt => assertLt a b | .assertLe => assertLe a b | .assertEq => assertEq a b
  | .assertNe => assertNe a b | .assertGt => assertGt a b | .assertGe => assertGe a b
  | _ => raise .unmodelled

def unwrapBits : List Val → M (List LinComb)
  | [] => pure []
  | .lcb x :: t => do let r ← unwrapBits t; pure (x :: r)
  | .lc x :: t => do let r ← unwrapBits t; pure (x :: r)
  | _ => raise .unmodelled

/-- method call `self.m(args…)` -/
def callMeth (m : Meth) (self : Val) (args : List Val) : M Val := do
  match self with
  | .lc x =>
    match m with
    | .val => do let v ← valL x; pure (.int v)
    | .toBits => do let n ← argNat? args; let bs ← toBits x n; pure (.list (bs.map .lcb))
    | .checkPositive => do let n ← argNat? args; let r ← checkPositive x n; pure (.lcb r)
    | .assertPositive => do let n ← argNat? args; assertPositive x n; pure .none
    | .checkZero => do let r ← checkZero x; pure (.lcb r)
    | .checkNonzero => do let r ← checkNonzero x; pure (.lcb r)
    | .assertZero => do assertZero x; pure .none
    | .assertNonzero => do assertNonzero x; pure .none
    | .assertLt | .assertLe | .assertEq | .assertNe | .assertGt | .assertGe =>
      match args with
      | [o] => do let y ← ensurelc o; assertCmp m x y; pure .none
      | _ => tyErr
    | .assertRange =>
      match args with
      | [lo, hi] => do let l ← ensurelc lo; let h ← ensurelc hi; assertRange x l h; pure .none
      | _ => tyErr
    | .ifElse =>
      match args with
      | [t, f] => do let d ← subV t f; let pr ← mulLV x d; addV f pr
      | _ => tyErr
    | .fromBits => raise .unmodelled
  | .lcb x =>
    match m with
    | .val => do let v ← valL x; pure (.int v)
    | .checkPositive => if args.isEmpty then do let r ← checkPositive x; pure (.lcb r) else tyErr
    | .assertPositive => if args.isEmpty then do assertPositive x; pure .none else tyErr
    | .checkZero => do let r ← checkZero x; pure (.lcb r)
    | .assertZero => do assertZero x; pure .none
    | .assertNonzero => do assertNonzero x; pure .none
    | .assertLt | .assertLe | .assertEq | .assertNe | .assertGt | .assertGe =>
      match args with
      | [o] => do let y ← ensurebool o; assertCmp m x y; pure .none
      | _ => tyErr
    | .ifElse =>
      match args with
      | [t, f] => do let d ← subV t f; let pr ← mulLV x d; addV f pr
      | _ => tyErr
    | .toBits | .checkNonzero | .assertRange | .fromBits => raise .attribute
  | .fxp x =>
    match m with
    | .val => do
        let v ← valL x
        let r ← getRes
        -- `float(v) / (1 << r)`: exact only below 2^53 (IEEE rounding is not modelled)
        if v.natAbs ≥ 2 ^ 53 then raise .unmodelled else
        pure (.flt v r)
    | .checkPositive => if args.isEmpty then do let r ← checkPositive x; pure (.lcb r) else tyErr
    | .assertPositive => if args.isEmpty then do assertPositive x; pure .none else tyErr
    | .checkZero => do let r ← checkZero x; pure (.lcb r)
    | .checkNonzero => do let r ← checkNonzero x; pure (.lcb r)
    | .assertZero => do assertZero x; pure .none
    | .assertNonzero => do assertNonzero x; pure .none
    | .assertLt | .assertLe | .assertEq | .assertNe | .assertGt | .assertGe =>
      match args with
      | [o] => do let y ← ensurefxp o; assertCmp m x y; pure .none
      | _ => tyErr
    | .assertRange =>
      match args with
      | [lo, hi] => do let l ← ensurefxp lo; let h ← ensurefxp hi; assertRange x l h; pure .none
      | _ => tyErr
    | .toBits | .ifElse | .fromBits => raise .attribute
  | .list xs =>
    match m with
    | .fromBits => do let bs ← unwrapBits xs; pure (ofFB (fromBits bs))
    | _ => raise .attribute
  | _ => raise .attribute

/-! ### `pysnark.array.Array` (one-dimensional) -/

/-- `sum(ixs)` where `ixs` are `LinCombBool`s: `0 + ixs[0]` is `B.__radd__` = `lc + 0` -/
def sumBools : List LinComb → Option LinComb
  | [] => Option.none
  | b :: bs => some (bs.foldl (fun acc x => x.add acc) (b.addI 0))   -- acc + B → B.__radd__: B.lc + acc

/-- `[item == ix for ix in range(n)]` -/
def oneHot (item : LinComb) : Nat → Nat → M (List LinComb)
  | _, 0 => pure []
  | i, n+1 => do
    let c ← eqLI item i
    let rest ← oneHot item (i+1) n
    pure (c :: rest)

/-- `lin_comb(ixs, arr)`: `sum([c*v ...])` -/
def linComb (ixs : List LinComb) (arr : List Val) : M Val := do
  let prods ← mapM' (fun (cv : LinComb × Val) => mulLV cv.1 cv.2) (ixs.zip arr)
  match prods with
  | [] => pure (.int 0)
  | p :: ps => do
    let first ← addV (.int 0) p
    ps.foldlM (fun acc x => addV acc x) first

def arrayCheck (item : LinComb) (n : Nat) : M Unit := fun s =>
  if !s.ignoreErrors && (item.value < 0 || item.value ≥ n) then .error .index else .ok ((), s)

/-- the common prefix of `Array.__getitem__`/`__setitem__` for a secret index -/
def arrayIxs (item : LinComb) (n : Nat) : M (List LinComb) := do
  arrayCheck item n
  let ixs ← oneHot item 0 n
  match sumBools ixs with
  | Option.none => raise .attribute      -- `sum([])` is the int 0: no `assert_eq`
  | some sm => do
    let one ← ensurelcI 1
    assertEq sm one
    pure ixs

def pyIndex (n : Nat) (i : Int) : Option Nat :=
  if 0 ≤ i && i < n then some i.toNat
  else if i < 0 && -i ≤ n then some (n - (-i).toNat)
  else Option.none

def arrayGet (arr : List Val) (item : Val) : M Val := do
  match item with
  | .int i =>
    match pyIndex arr.length i with
    | some k => match arr[k]? with | some v => pure v | Option.none => raise .index
    | Option.none => raise .index
  | .lc it => do
    let ixs ← arrayIxs it arr.length
    linComb ixs arr
  | _ => tyErr

def arraySet (arr : List Val) (item : Val) (v : Val) : M (List Val) := do
  match item with
  | .int i =>
    match pyIndex arr.length i with
    | some k => pure (arr.set k v)
    | Option.none => raise .index
  | .lc it => do
    let ixs ← arrayIxs it arr.length
    mapM' (fun (cv : LinComb × Val) => ifThenElse (.lcb cv.1) false v cv.2) (ixs.zip arr)
  | _ => tyErr

end Pysnark
