import PysnarkModel.Model.Methods
/-!
# `pysnark/pack.py`: packing structured values into bits and back

Modelled exactly as written, quirks included:
* `PackBool.pack` / `PackIntMod.pack` / `PackIntMod.unpack` test `isinstance(·, LinComb)`;
  `LinCombBool` and `LinCombFxp` are NOT subclasses of `LinComb`.  So `PackBool.pack(LinCombBool)`
  evaluates `bool(LinCombBool)` → `NotImplementedError`, and `PackIntMod.unpack` of the `LinCombBool`
  bits that `PackIntMod.pack(LinComb)` produced takes the *plain* branch: `sum((1<<ix)*v)`, which
  yields a `LinComb` WITHOUT the `assert_lt(mod)` range check of the `LinComb` branch.
* `PackList.pack` / `PackRepeat.pack` use `functools.reduce` without initial value: `TypeError` on
  an empty sequence; `PackRepeat.pack` packs every element of `val`, not just `times` of them;
  `PackList.pack` zips (silently truncating).
* Python slicing is silently shorter at the end of the list; `bits[pos]` raises `IndexError`.
-/
namespace Pysnark

inductive Schema
  | bool
  | intMod (m : Nat)
  | list (ss : List Schema)
  | rep (s : Schema) (times : Nat)
deriving Repr

mutual
/-- structural equality of values, evaluable by the kernel (the derived `BEq Val` is not) -/
def Val.same : Val → Val → Bool
  | .none, .none => true
  | .int a, .int b => a == b
  | .flt m e, .flt m' e' => m == m' && e == e'
  | .lc x, .lc y => x == y
  | .lcb x, .lcb y => x == y
  | .fxp x, .fxp y => x == y
  | .list xs, .list ys => Val.sameL xs ys
  | .tuple xs, .tuple ys => Val.sameL xs ys
  | _, _ => false
def Val.sameL : List Val → List Val → Bool
  | [], [] => true
  | x :: xs, y :: ys => Val.same x y && Val.sameL xs ys
  | _, _ => false
end

/-- `(mod-1).bit_length()` -/
def modBits (m : Nat) : Nat := Py.bitLength ((m : Int) - 1)

mutual
/-- `bitlen()` -/
def Schema.bitlen : Schema → Nat
  | .bool => 1
  | .intMod m => modBits m
  | .list ss => Schema.bitlenL ss
  | .rep s t => s.bitlen * t
/-- `sum([i.bitlen() for i in lst])` -/
def Schema.bitlenL : List Schema → Nat
  | [] => 0
  | s :: ss => s.bitlen + Schema.bitlenL ss
end

/-- `PackBool.pack(val)` -/
def packBool (v : Val) : M (List Val) :=
  match v with
  | .lc x => pure [.lc x]
  | .lcb x => pure [.lcb x]                     -- `isinstance(val,(LinComb,LinCombBool))`: the secret itself
  | _ => do let c ← truthy v; pure [.int c]     -- `[int(bool(val))]`; `bool(LinCombFxp)` raises

/-- `PackIntMod(mod).pack(val)` -/
def packIntMod (m : Nat) (v : Val) : M (List Val) :=
  match v with
  | .lc x => do let bs ← toBits x (some (modBits m)); pure (bs.map .lcb)
  | .int c =>
    if c < 0 || c ≥ m then raise .value
    else pure ((Py.bitsOf c (modBits m)).map .int)
  | .none | .list _ | .tuple _ => tyErr       -- `val<0` is not defined
  | _ => raise .unmodelled                    -- float / LinCombBool / LinCombFxp in the plain branch

/-- run `f i, f (i+1), …` (`n` calls), collecting the results: `[f(i) for i in range(…)]` -/
def forRange {α : Type} (f : Nat → M α) : Nat → Nat → M (List α)
  | _, 0 => pure []
  | i, n+1 => do
    let y ← f i
    let ys ← forRange f (i+1) n
    pure (y :: ys)

mutual
/-- `pack(val)` as a Lean list of bits -/
def packB : Schema → Val → M (List Val)
  | .bool, v => packBool v
  | .intMod m, v => packIntMod m v
  | .list ss, v =>
    -- functools.reduce(lambda x,y: x+y, [i.pack(j) for (i,j) in zip(self.lst, val)])
    match v with
    | .list vs | .tuple vs =>
      if ss.isEmpty || vs.isEmpty then tyErr      -- reduce() of empty sequence
      else packZip ss vs
    | _ => tyErr                                   -- zip of a non-iterable
  | .rep s _, v =>
    -- functools.reduce(lambda x,y: x+y, map(self.packer.pack, val))
    match v with
    | .list vs | .tuple vs =>
      if vs.isEmpty then tyErr
      else do let bss ← mapM' (packB s) vs; pure bss.flatten
    | _ => tyErr
def packZip : List Schema → List Val → M (List Val)
  | s :: ss, v :: vs => do
    let a ← packB s v
    let b ← packZip ss vs
    pure (a ++ b)
  | _, _ => pure []
end

/-- `packer.pack(val)`: the Python list of bits -/
def packV (sch : Schema) (v : Val) : M Val := do
  let bs ← packB sch v
  pure (.list bs)

/-- `sum([(1<<ix)*v for (ix,v) in enumerate(slice)])` : the products … -/
def unpackTerms : List Val → Nat → M (List Val)
  | [], _ => pure []
  | v :: vs, i => do
    let t ← mulV (.int (2 ^ i)) v
    let ts ← unpackTerms vs (i+1)
    pure (t :: ts)

/-- … and Python's `sum` (start value the int 0) -/
def pySum : List Val → Val → M Val
  | [], acc => pure acc
  | t :: ts, acc => do
    let a ← addV acc t
    pySum ts a

/-- `PackIntMod(mod).unpack(bits, pos)` -/
def unpackIntMod (m : Nat) (bits : List Val) (pos : Nat) : M Val :=
  match bits[pos]? with
  | Option.none => raise .index
  | some b =>
    let slice := (bits.drop pos).take (modBits m)
    match b with
    | .lc _ => do
      -- LinComb.from_bits(slice); ret.assert_lt(self.mod); return ret
      let bs ← unwrapBits slice
      match fromBits bs with
      | Option.none => raise .attribute          -- `from_bits([])` is the int 0
      | some ret => do
        let y ← ensurelcI m
        assertLt ret y
        pure (.lc ret)
    | _ => do
      let ts ← unpackTerms slice 0
      pySum ts (.int 0)

mutual
/-- `unpack(bits, pos)` -/
def unpackV : Schema → List Val → Nat → M Val
  | .bool, bits, pos =>
    match bits[pos]? with
    | some b => pure b
    | Option.none => raise .index
  | .intMod m, bits, pos => unpackIntMod m bits pos
  | .list ss, bits, pos => do
    let vs ← unpackSeq ss bits pos
    pure (.list vs)
  | .rep s t, bits, pos => do
    let vs ← forRange (fun i => unpackV s bits (pos + i * s.bitlen)) 0 t
    pure (.list vs)
def unpackSeq : List Schema → List Val → Nat → M (List Val)
  | [], _, _ => pure []
  | s :: ss, bits, pos => do
    let v ← unpackV s bits pos
    let vs ← unpackSeq ss bits (pos + s.bitlen)
    pure (v :: vs)
end

end Pysnark
