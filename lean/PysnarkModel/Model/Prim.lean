import PysnarkModel.Model.Basic
import PysnarkModel.Model.PyInt
/-!
# Tracer primitives (`runtime.py` l.60-175, 711-738)
-/
namespace Pysnark

namespace LinComb
/-- `LinComb.__add__` for a `LinComb` operand -/
def add (a b : LinComb) : LinComb := ⟨a.value + b.value, a.lc.add b.lc⟩
/-- `LinComb.__mul__` for an `int` operand -/
def mulI (a : LinComb) (c : Int) : LinComb := ⟨a.value * c, a.lc.scale c⟩
/-- `LinComb.__neg__` -/
def neg (a : LinComb) : LinComb := ⟨-a.value, a.lc.neg⟩
/-- `LinComb.__sub__` for a `LinComb` operand: `self + (-other)` -/
def sub (a b : LinComb) : LinComb := a.add b.neg
/-- `ConstVal(c)`: `LinComb(val, backend.one() * val)` -/
def const (c : Int) : LinComb := ⟨c, LC.one.scale c⟩
/-- `self + other` for an `int` operand: `self + ConstVal(other)` -/
def addI (a : LinComb) (c : Int) : LinComb := a.add (const c)
/-- `self - other` for an `int` operand: `self + (-other)` with `-other` an int -/
def subI (a : LinComb) (c : Int) : LinComb := a.addI (-c)
/-- `other - self` for an `int` left operand: `__rsub__` = `other + (-self)` = `(-self) + ConstVal(other)` -/
def rsubI (a : LinComb) (c : Int) : LinComb := a.neg.addI c
end LinComb

/-- `PrivVal(v)` -/
def privVal (v : Int) : M LinComb := fun s =>
  .ok (⟨v, [(Wire.priv s.priv.length, 1)]⟩, { s with priv := s.priv ++ [v] })

/-- `PubVal(v)` -/
def pubVal (v : Int) : M LinComb := fun s =>
  .ok (⟨v, [(Wire.pub s.pub.length, 1)]⟩, { s with pub := s.pub ++ [v] })

/-- `add_constraint_unsafe(v, w, y)` -/
def addConstraintUnsafe (v w y : LinComb) : M Unit := fun s =>
  .ok ((), { s with cons := s.cons ++ [(v.lc, w.lc, y.lc)] })

/-- `is_guard()` -/
def St.isGuard (s : St) : Bool :=
  match s.guard with
  | none => true
  | some g => g.value == 1

/-- `add_constraint(v, w, y, check)` -/
def addConstraint (v w y : LinComb) (check : Bool := true) : M Unit := fun s =>
  match s.guard with
  | some g =>
    (do let dummy ← privVal (v.value * w.value - y.value)
        addConstraintUnsafe v w (y.add dummy)
        addConstraintUnsafe g dummy LinComb.zero) s
  | none =>
    if v.value * w.value != y.value && check && !s.ignoreErrors then .error .assertion
    else addConstraintUnsafe v w y s

/-- `LinComb._ensurelc(int)`: `LinComb.ONE * val` (ONE is the guard inside guarded regions) -/
def ensurelcI (c : Int) : M LinComb := fun s => .ok (s.one.mulI c, s)

/-- `backend.fieldinverse(x)` -/
def fieldInverse (x : Int) : M Int := fun s =>
  match Py.invert x s.p with
  | some y => .ok (y, s)
  | none => .error .zerodiv

/-- what `add_guard` returns and `restore_guard` takes -/
structure GuardBak where
  guard : Option LinComb
  ignoreErrors : Bool
  one : LinComb
deriving Repr

/-- `restore_guard(bak)` -/
def restoreGuard (bak : GuardBak) : M Unit := fun s =>
  .ok ((), { s with guard := bak.guard, ignoreErrors := bak.ignoreErrors, one := bak.one })

end Pysnark
