import PysnarkModel.Model.Methods
/-!
# Programs over the public API

A flat SSA instruction list: instruction `k` writes register `k`.  Both the Lean model (`run`)
and the Python harness (`harness/impl/interp.py`) interpret the same text.
-/
namespace Pysnark

inductive BinOp
  | add | sub | mul | truediv | floordiv | mod | divmod | pow | lshift | rshift
  | band | bxor | bor | lt | le | eq | ne | gt | ge
deriving DecidableEq, Repr

inductive Instr
  /-- a plain Python literal -/
  | lit (v : Val)
  /-- `PrivVal(r)`, `PubValFxp(r)`, … applied to the plain value in register `a` -/
  | mk (k : Kind) (a : Nat)
  | wrapb (a : Nat)
  | wrapx (a : Nat)
  | bin (op : BinOp) (a b : Nat)
  | un (op : Un) (a : Nat)
  | call (m : Meth) (self : Nat) (args : List Nat)
  | ite (c t f : Nat)
  | list (xs : List Nat)
  | idx (a : Nat) (i : Int)
  /-- enter `guarded(c)` region / leave it -/
  | genter (c : Nat)
  | gleave
  | setBl (n : Nat)
  | setRes (n : Nat)
  | setIgn (b : Bool)
  | arr (xs : List Nat)
  | aget (a i : Nat)
  | aset (a i v : Nat)
deriving Repr

def binopV (op : BinOp) (a b : Val) : M Val :=
  match op with
  | .add => addV a b | .sub => subV a b | .mul => mulV a b | .truediv => truedivV a b
  | .floordiv => divmodV .quo a b | .mod => divmodV .rem a b | .divmod => divmodV .both a b
  | .pow => powV a b | .lshift => lshiftV a b | .rshift => rshiftV a b
  | .band => bwV .and a b | .bxor => bwV .xor a b | .bor => bwV .or a b
  | .lt => cmpV .lt a b | .le => cmpV .le a b | .eq => cmpV .eq a b
  | .ne => cmpV .ne a b | .gt => cmpV .gt a b | .ge => cmpV .ge a b

/-- `if isinstance(cond, LinCombBool): cond = cond.lc` (first statement of `add_guard`) -/
def unwrapBoolCond : Val → Val
  | .lcb c => .lc c
  | v => v

/-- `add_guard(cond)` after the unwrapping of a boolean condition -/
def addGuardCore (cond : Val) : M GuardBak := fun s =>
  let bak : GuardBak := ⟨s.guard, s.ignoreErrors, s.one⟩
  match cond with
  | .lc c =>
    if !s.ignoreErrors && (c.value != 0 && c.value != 1) then .error .runtime
    else
      -- guard = cond if guard is None else guard & cond   (bitwise-AND gadget on LinCombs)
      match s.guard with
      | Option.none =>
        .ok (bak, { s with guard := some c, ignoreErrors := s.ignoreErrors || c.value == 0, one := c })
      | some g =>
        match bwLV .and g (.lc c) s with
        | .error e => .error e
        | .ok (.lc g', s') =>
          .ok (bak, { s' with guard := some g', ignoreErrors := s'.ignoreErrors || c.value == 0, one := g' })
        | .ok (_, _) => .error .attribute     -- `guard & cond` was the int 0 (bitlength 0)
  | .int c =>
    if c == 0 then .error .runtime
    else if c != 1 then .error .runtime
    else .ok (bak, s)
  | _ => .error .type

/-- `add_guard(cond)` -/
def addGuard (cond : Val) : M GuardBak := addGuardCore (unwrapBoolCond cond)

structure RunSt where
  st : St
  regs : List Val := []
  /-- stack of `guarded` frames -/
  frames : List GuardBak := []

def getReg (rs : List Val) (i : Nat) : M Val :=
  match rs[i]? with
  | some v => pure v
  | Option.none => raise .unmodelled

def getRegs (rs : List Val) : List Nat → M (List Val)
  | [] => pure []
  | i :: is => do let v ← getReg rs i; let vs ← getRegs rs is; pure (v :: vs)

/-- one instruction: returns the new register value, the updated register file and frames -/
def step (regs : List Val) (frames : List GuardBak) (i : Instr) :
    M (Val × List Val × List GuardBak) := do
  match i with
  | .lit v => pure (v, regs, frames)
  | .mk k a => do let v ← getReg regs a; let r ← mkVal k v; pure (r, regs, frames)
  | .wrapb a => do let v ← getReg regs a; let r ← wrapBool v; pure (r, regs, frames)
  | .wrapx a => do let v ← getReg regs a; let r ← wrapFxp v; pure (r, regs, frames)
  | .bin op a b => do
      let x ← getReg regs a; let y ← getReg regs b
      let r ← binopV op x y; pure (r, regs, frames)
  | .un op a => do let x ← getReg regs a; let r ← unV op x; pure (r, regs, frames)
  | .call m self args => do
      let x ← getReg regs self; let as ← getRegs regs args
      let r ← callMeth m x as; pure (r, regs, frames)
  | .ite c t f => do
      let cv ← getReg regs c; let tv ← getReg regs t; let fv ← getReg regs f
      let r ← ifThenElse cv (t == f) tv fv; pure (r, regs, frames)
  | .list xs => do let vs ← getRegs regs xs; pure (.list vs, regs, frames)
  | .idx a i => do
      let v ← getReg regs a
      match v with
      | .list xs | .tuple xs =>
        match pyIndex xs.length i with
        | some k => match xs[k]? with | some x => pure (x, regs, frames) | Option.none => raise .index
        | Option.none => raise .index
      | _ => tyErr
  | .genter c => do
      let cv ← getReg regs c
      let bak ← addGuard cv
      pure (.none, regs, bak :: frames)
  | .gleave =>
      match frames with
      | bak :: rest => do restoreGuard bak; pure (.none, regs, rest)
      | [] => raise .unmodelled
  | .setBl n => do modifySt (fun s => { s with bitlength := n }); pure (.none, regs, frames)
  | .setRes n => do modifySt (fun s => { s with resolution := n }); pure (.none, regs, frames)
  | .setIgn b => do modifySt (fun s => { s with ignoreErrors := b }); pure (.none, regs, frames)
  | .arr xs => do let vs ← getRegs regs xs; pure (.list vs, regs, frames)
  | .aget a i => do
      let av ← getReg regs a; let iv ← getReg regs i
      match av with
      | .list xs => do let r ← arrayGet xs iv; pure (r, regs, frames)
      | _ => tyErr
  | .aset a i v => do
      let av ← getReg regs a; let iv ← getReg regs i; let vv ← getReg regs v
      match av with
      | .list xs => do let xs' ← arraySet xs iv vv; pure (.none, regs.set a (.list xs'), frames)
      | _ => tyErr

/-- result of a run: the registers computed so far, the final tracer state, and the error (with
the index of the failing instruction) if the run raised.  On an error the `guarded` frames are
unwound (`restore_guard` in the `except` clause), outermost last. -/
structure Out where
  regs : List Val
  st : St
  err : Option (Err × Nat)

def unwind (s : St) : List GuardBak → St
  | [] => s
  | bak :: rest => unwind { s with guard := bak.guard, ignoreErrors := bak.ignoreErrors, one := bak.one } rest

def runAux : List Instr → Nat → List Val → List GuardBak → St → Out
  | [], _, regs, _, s => ⟨regs, s, Option.none⟩
  | i :: is, k, regs, frames, s =>
    match step regs frames i s with
    | .ok ((v, regs', frames'), s') => runAux is (k+1) (regs' ++ [v]) frames' s'
    | .error e => ⟨regs, unwind s frames, some (e, k)⟩

/-- NB on error the state reported is the state *before* the failing instruction with the
guard frames unwound; wires/constraints added by the failing instruction itself are not
reported (the harness compares error cases at the V level and on the guard triple only). -/
def run (s0 : St) (prog : List Instr) : Out := runAux prog 0 [] [] s0

end Pysnark
