/-!
# Python integer helpers (hints)

Pure functions on `Int`/`Nat` that reproduce the Python integer operations the tracer uses to
compute witness hints: `int.bit_length`, single-bit extraction, two's-complement `& | ^`,
floor division/modulo, `pow(x, m-2, m)` of `pysnark/gmpy.py`.
Structural recursion / explicit fuel only, so `decide +kernel` can evaluate them.
-/
namespace Pysnark.Py

/-- `int.bit_length()` (of the absolute value, as in Python). -/
def bitLength (v : Int) : Nat := if v.natAbs = 0 then 0 else v.natAbs.log2 + 1

/-- `(v & (1 << i)) >> i` for any Python int `v` (two's complement): bit `i` of `v`. -/
def bit (v : Int) (i : Nat) : Int := (v >>> i) % 2

/-- little-endian list of the `n` low bits. -/
def bitsOf (v : Int) (n : Nat) : List Int := (List.range n).map (bit v)

/-- Two's-complement bitwise operation with `fuel` bits of recursion and sign extension. -/
def bitwise (f : Bool → Bool → Bool) : Nat → Int → Int → Int
  | 0, a, b => if f (decide (a < 0)) (decide (b < 0)) then -1 else 0
  | n+1, a, b =>
    (if f (decide (a % 2 = 1)) (decide (b % 2 = 1)) then 1 else 0) + 2 * bitwise f n (a / 2) (b / 2)

def fuelFor (a b : Int) : Nat := max (bitLength a) (bitLength b) + 1
def land (a b : Int) : Int := bitwise (· && ·) (fuelFor a b) a b
def lor (a b : Int) : Int := bitwise (· || ·) (fuelFor a b) a b
def lxor (a b : Int) : Int := bitwise (fun x y => x != y) (fuelFor a b) a b

/-- Python `//` -/
def floordiv (a b : Int) : Int := Int.fdiv a b
/-- Python `%` -/
def mod (a b : Int) : Int := Int.fmod a b

/-- Square-and-multiply, structural on fuel. -/
def powModAux (m : Nat) : Nat → Nat → Nat → Nat → Nat
  | 0, _, _, acc => acc
  | fuel+1, b, e, acc =>
    if e = 0 then acc
    else powModAux m fuel (b * b % m) (e / 2) (if e % 2 = 1 then acc * b % m else acc)

/-- `pow(b, e, m)` for naturals -/
def powMod (b e m : Nat) : Nat := powModAux m (e.log2 + 1) (b % m) e (1 % m)

/-- `gmpy.invert(x, m)` in its pure-Python fallback (`pow(x, m-2, m)`, `ZeroDivisionError`
when the result is 0; `m == 2` special-cased as in the source). `none` = ZeroDivisionError. -/
def invert (x : Int) (m : Int) : Option Int :=
  let y : Int :=
    if m = 2 then x % 2
    else (powMod (x % m).toNat (m - 2).toNat m.toNat : Nat)
  if y = 0 then none else some y

end Pysnark.Py
