import PysnarkModel.Spec.QapEq
/-!
# Model of the qaptools file writer (`pysnark/qaptools/backend.py`, `qapsplit.py`)

The backend has no in-memory trace: every call writes text lines into `pysnark_eqs` (equations and
directives), `pysnark_wires` (wire values) and `pysnark_values` (I/O values).  `prove()` reads
`pysnark_eqs` back (`qapsplit.qapsplit()`), writes `pysnark_schedule` and one `pysnark_eqs_<fn>`
per function name.  The model keeps the three files as lists of lines (a line = list of tokens,
`Spec/QapEq.lean`) and, for the equation file, a FLUSH POINTER: the number of lines that are on
disk.  Only an explicit `qape.flush()` moves it (`pubval`, `vc_declare_block`, `vc_glue`);
`add_constraint` and `enterfn` do not flush.

One Lean function per Python function, same statement order.  The values of the random wires
(`delta*`, `rnd*`) are inputs.  The digest is a parameter `H` (MD5 is not modelled).

`Cfg` carries two switches that say which code is modelled; `Cfg.pinned` is the tree as it is:
* `flushAtProve`: `prove()` flushes the equation file before reading it back (pinned: yes; it did not
  before the fix recorded as C12-unflushed-tail);
* `unitCoeff`: `vc_declare_block.ensure_single` accepts a one-term linear combination only when its
  coefficient is 1 (pinned: yes; any coefficient before the fix recorded as C12-glue-coefficient).
-/
namespace Pysnark.Qaptools
open Pysnark.QapEq

/-- `Sig.sig`: term list `(coefficient, wire name)` -/
abbrev Sig := Terms

structure Cfg where
  /-- `vc_p` -/
  p : Int
  flushAtProve : Bool
  unitCoeff : Bool
deriving Repr, DecidableEq

/-- the tree as it is: `prove()` flushes the equation file before reading it back, `ensure_single`
accepts a one-term linear combination only with coefficient one -/
def Cfg.pinned (p : Int) : Cfg := ⟨p, true, true⟩

/-- `Sig.__str__`: `" ".join(str(c)+" "+v …)`; the empty list prints as the empty token -/
def Sig.toks (s : Sig) : List Tok :=
  if s.isEmpty then [.sym ""] else s.flatMap fun cw => [.num cw.1, .wire cw.2.1 cw.2.2]

/-- `Sig.__add__` -/
def Sig.add (a b : Sig) : Sig := a ++ b
/-- `Sig.__mul__`: `[(c * other % vc_p, v) …]` -/
def Sig.scale (p : Int) (k : Int) (s : Sig) : Sig := s.map fun cw => (cw.1 * k % p, cw.2)
/-- `Sig.__neg__`: `[(-c % vc_p, v) …]` -/
def Sig.neg (p : Int) (s : Sig) : Sig := s.map fun cw => (-cw.1 % p, cw.2)
/-- `Sig.__sub__`: `self + (-other)` -/
def Sig.sub (p : Int) (a b : Sig) : Sig := Sig.add a (Sig.neg p b)

/-- a `runtime.LinComb` as the backend sees it: `.value` and `.lc.sig` -/
structure LC where
  value : Int
  sig : Sig
deriving Repr, DecidableEq

/-- run-time class of an argument or result of a `@subqap` function -/
inductive Kind where
  | lincomb | bool | fxp
deriving Repr, DecidableEq

structure Arg where
  kind : Kind
  lc : LC
deriving Repr, DecidableEq

/-- locals of one active `subqap__` call -/
structure Frame where
  old : String
  new : String
  argret : List (LC × LC)
deriving Repr, DecidableEq

structure St where
  /-- `vc_ctx` -/
  ctx : String
  /-- `vc_ctr` (dict, insertion order) -/
  ctr : List (String × Nat)
  /-- `vc_ioctr` -/
  ioctr : List (String × Nat)
  /-- lines written to `qape`, in order (the header comment line is not kept) -/
  eqs : List Line
  /-- number of lines of `eqs` that are on disk -/
  flushed : Nat
  /-- lines written to `qapv`: `name: value` -/
  wires : List (WireName × Int)
  /-- lines written to `qapvo` -/
  ios : List (WireName × Int)
  stack : List Frame
  /-- `runtime.guard` as the backend meets it (`None`, or a `LinComb` holding 0 or 1): set by
  `add_guard` / `restore_guard`, read by `add_constraint` -/
  guard : Option LC := none
deriving Repr, DecidableEq

/-! ## dict helpers -/

def dget (d : List (String × Nat)) (k : String) : Nat :=
  match d with
  | [] => 0
  | (k', v) :: r => if k' = k then v else dget r k

def dset (d : List (String × Nat)) (k : String) (v : Nat) : List (String × Nat) :=
  match d with
  | [] => [(k, v)]
  | (k', v') :: r => if k' = k then (k, v) :: r else (k', v') :: dset r k v

/-! ## line emitters -/

/-- `printwire(sh, nm)`: write and flush the wire file -/
def printwire (v : Int) (nm : WireName) (s : St) : St := { s with wires := s.wires ++ [(nm, v)] }
/-- `printwireout(sh, nm)` -/
def printwireout (v : Int) (nm : WireName) (s : St) : St := { s with ios := s.ios ++ [(nm, v)] }
/-- `print(…, file=qape)` -/
def emit (l : Line) (s : St) : St := { s with eqs := s.eqs ++ [l] }
/-- `qape.flush()` -/
def flush (s : St) : St := { s with flushed := s.eqs.length }
/-- `vc_ctr[c] += 1` -/
def bump (c : String) (s : St) : St := { s with ctr := dset s.ctr c (dget s.ctr c + 1) }

/-- `privval(val)` -/
def privval (v : Int) (s : St) : Sig × St :=
  let s1 := bump s.ctx s
  let sid : WireName := (s1.ctx, toString (dget s1.ctr s1.ctx))
  ([(1, sid)], printwire v sid s1)

def pubLine (sid sido : WireName) : Line :=
  [.sym "*", .sym "=", .num 1, .wire sid.1 sid.2, .num (-1), .wire sido.1 sido.2]

/-- `pubval(val)` -/
def pubval (v : Int) (s : St) : Sig × St :=
  let s1 := bump s.ctx s
  let sid : WireName := (s1.ctx, toString (dget s1.ctr s1.ctx))
  let s2 := printwire v sid s1
  let s3 := { s2 with ioctr := dset s2.ioctr s2.ctx (dget s2.ioctr s2.ctx + 1) }
  let sido : WireName := (s3.ctx, "o_" ++ toString (dget s3.ioctr s3.ctx))
  let s4 := printwireout v sido s3
  ([(1, sid)], flush (emit (pubLine sid sido) s4))

/-- `one()` -/
def one (s : St) : Sig := [(1, (s.ctx, "onex"))]

def conLine (a b c : Sig) : Line :=
  a.toks ++ [.sym "*"] ++ b.toks ++ [.sym "="] ++ c.toks ++ [.sym "."]

/-- `add_constraint(v, w, y)`: no flush -/
def addConstraint (a b c : Sig) (s : St) : St := emit (conLine a b c) s

def functionLine (fname call : String) : Line := [.sym "[function]", .sym fname, .sym call]
def oneLine (call : String) : Line :=
  [.sym "*", .sym "=", .num 1, .wire call "one", .num (-1), .wire call "onex"]

/-- `enterfn(fname, call)`; `d` are the three random `delta` values -/
def enterfn (fname : String) (call : Option String) (d1 d2 d3 : Int) (s : St) : St :=
  let call := match call with
    | some c => c
    | none => s.ctx ++ "_" ++ toString (dget s.ctr s.ctx) ++ "_" ++ fname
  let s1 := emit (functionLine fname call) s
  let s2 := { s1 with ctx := call, ctr := dset s1.ctr call 0, ioctr := dset s1.ioctr call 0 }
  let s3 := printwire d1 (call, "deltav") s2
  let s4 := printwire d2 (call, "deltaw") s3
  let s5 := printwire d3 (call, "deltay") s4
  let s6 := printwire 1 (call, "onex") s5
  emit (oneLine call) s6

/-- the state after `import pysnark.runtime` with this backend: `LinComb.ONE = LinComb(1, backend.one())`
runs `init()` and `enterfn("main", "main")` -/
def St.init (d1 d2 d3 : Int) : St :=
  enterfn "main" (some "main") d1 d2 d3
    { ctx := "", ctr := [], ioctr := [], eqs := [], flushed := 0, wires := [], ios := [], stack := [] }

/-- `LinComb.ONE.lc` / `LinComb.ONE_SAFE.lc`: created once, at import time, in context `main` -/
def globalOne : Sig := [(1, ("main", "onex"))]

/-- `continuefn(call)` -/
def continuefn (call : String) (s : St) : St := bump call { s with ctx := call }

/-- the test at the head of `ensure_single` -/
def isSingle (cfg : Cfg) (x : LC) : Bool :=
  match x.sig with
  | [(c, _)] => !cfg.unitCoeff || c == 1
  | _ => false

/-- `vc_declare_block.ensure_single(x)`: `ret = PrivVal(x.value); ret.assert_eq(x)`, the latter being
`runtime.add_constraint(ZERO, ZERO, ret - x)`: with no guard active one call
`backend.add_constraint(ZERO.lc, ZERO.lc, (ret - x).lc)`; with a guard `g` active
`dummy = PrivVal(0*0 - (ret - x).value)` (the value is 0: `ret` holds `x.value`), then
`backend.add_constraint(ZERO.lc, ZERO.lc, (ret - x + dummy).lc)` and
`backend.add_constraint(g.lc, dummy.lc, ZERO.lc)` -/
def ensureSingle (cfg : Cfg) (x : LC) (s : St) : LC × St :=
  if isSingle cfg x then (x, s)
  else
    let (sg, s1) := privval x.value s
    match s.guard with
    | none => (⟨x.value, sg⟩, addConstraint [] [] (Sig.sub cfg.p sg x.sig) s1)
    | some g =>
      let (dm, s2) := privval 0 s1
      (⟨x.value, sg⟩,
       addConstraint g.sig dm [] (addConstraint [] [] (Sig.add (Sig.sub cfg.p sg x.sig) dm) s2))

/-- `[ensure_single(x) for x in vcs]` -/
def ensureAll (cfg : Cfg) : List LC → St → List LC × St
  | [], s => ([], s)
  | x :: r, s =>
    let (x', s1) := ensureSingle cfg x s
    let (r', s2) := ensureAll cfg r s1
    (x' :: r', s2)

/-- `x.lc.sig[0][1]` -/
def headWire (x : LC) : Tok :=
  match x.sig with
  | (_, w) :: _ => .wire w.1 w.2
  | [] => .sym "?"

def blockLine (ctx bn : String) (vcs : List LC) : Line :=
  [.sym "[ioblock]", .sym ctx, .sym bn] ++ (if vcs.isEmpty then [.sym ""] else vcs.map headWire)

/-- `vc_declare_block(bn, vcs, rnd1)`; `rnd2` is the second random value -/
def declareBlock (cfg : Cfg) (bn : String) (vcs : List LC) (rnd1 rnd2 : Int) (s : St) : List LC × St :=
  let (vcs', s1) := ensureAll cfg vcs s
  let s2 := printwire rnd1 (s1.ctx, "rnd1_" ++ bn) s1
  let s3 := printwire rnd2 (s2.ctx, "rnd2_" ++ bn) s2
  (vcs', flush (emit (blockLine s3.ctx bn vcs') s3))

def glueLine (ctx1 bn1 ctx2 bn2 : String) : Line :=
  [.sym "[glue]", .sym ctx1, .sym bn1, .sym ctx2, .sym bn2]

/-- `vc_glue(ctx1, ctx2, vals)` -/
def vcGlue (cfg : Cfg) (ctx1 ctx2 : String) (vals : List (LC × LC)) (rndv r2a r2b : Int) (s : St) : St :=
  let bak := s.ctx
  let s1 := { s with ctx := ctx1 }
  let bn1 := toString (dget s1.ctr ctx1)
  let s2 := bump ctx1 s1
  let s3 := (declareBlock cfg bn1 (vals.map Prod.fst) rndv r2a s2).2
  let s4 := { s3 with ctx := ctx2 }
  let bn2 := toString (dget s4.ctr ctx2)
  let s5 := bump ctx2 s4
  let s6 := (declareBlock cfg bn2 (vals.map Prod.snd) rndv r2b s5).2
  let s7 := { s6 with ctx := bak }
  flush (emit (glueLine ctx1 bn1 ctx2 bn2) s7)

/-- `for_each_in(runtime.LinComb, copyandadd, args)`: only instances of `LinComb` are copied -/
def copyArgs : List Arg → St → List (LC × LC) × St
  | [], s => ([], s)
  | a :: r, s =>
    match a.kind with
    | .lincomb =>
      let (sg, s1) := privval a.lc.value s
      let (r', s2) := copyArgs r s1
      ((a.lc, ⟨a.lc.value, sg⟩) :: r', s2)
    | _ => copyArgs r s

/-- `for_each_in(runtime.LinComb, copyandaddrev, ret)` -/
def copyRets : List Arg → St → List (LC × LC) × St
  | [], s => ([], s)
  | a :: r, s =>
    match a.kind with
    | .lincomb =>
      let (sg, s1) := privval a.lc.value s
      let (r', s2) := copyRets r s1
      ((⟨a.lc.value, sg⟩, a.lc) :: r', s2)
    | _ => copyRets r s

/-- one event of a traced run, at the level of the backend interface -/
inductive Op where
  /-- `backend.privval(v)` (from `runtime.PrivVal`) -/
  | priv (v : Int)
  /-- `backend.pubval(v)` -/
  | pub (v : Int)
  /-- `backend.add_constraint(a, b, c)` -/
  | con (a b c : Sig)
  /-- a `@subqap(fn)` function is called with the (flattened) arguments `args`: `subqap__` up to the
  call of the body -/
  | enter (fn : String) (args : List Arg) (d1 d2 d3 : Int)
  /-- the body returned `rets`: rest of `subqap__` -/
  | leave (rets : List Arg) (rndv r2a r2b : Int)
  /-- `runtime.guard` changed (`add_guard`, `restore_guard`): the guard now in effect -/
  | guard (g : Option LC)
  /-- the body of the call on top of the stack raised: `subqap__` is unwound by the exception, nothing
  is written and `vc_ctx` is NOT restored -/
  | abort
deriving Repr, DecidableEq

def step (cfg : Cfg) (s : St) : Op → St
  | .priv v => (privval v s).2
  | .pub v => (pubval v s).2
  | .con a b c => addConstraint a b c s
  | .enter fn args d1 d2 d3 =>
    let old := s.ctx
    let s1 := enterfn fn none d1 d2 d3 s
    let new := s1.ctx
    let (ar, s2) := copyArgs args s1
    { s2 with stack := ⟨old, new, ar⟩ :: s2.stack }
  | .leave rets rndv r2a r2b =>
    match s.stack with
    | [] => s
    | f :: rest =>
      let s1 := continuefn f.old { s with stack := rest }
      let (rr, s2) := copyRets rets s1
      vcGlue cfg f.old f.new (f.argret ++ rr) rndv r2a r2b s2
  | .guard g => { s with guard := g }
  | .abort =>
    match s.stack with
    | [] => s
    | _ :: rest => { s with stack := rest }

def runFrom (cfg : Cfg) (s : St) : List Op → St
  | [] => s
  | o :: r => runFrom cfg (step cfg s o) r

/-- a whole traced run; `d` are the `delta` values of `main` -/
def run (cfg : Cfg) (d1 d2 d3 : Int) (ops : List Op) : St := runFrom cfg (St.init d1 d2 d3) ops

/-- the content of `pysnark_eqs` that `qapsplit` reads at proving time -/
def onDisk (cfg : Cfg) (s : St) : List Line :=
  if cfg.flushAtProve then s.eqs else s.eqs.take s.flushed

/-! ## `qapsplit.py` -/

inductive SplitErr where
  /-- `ValueError("Inconsistent contexts: …")` -/
  | inconsistentContexts
  /-- `TypeError` from `"Inconsistent contexts: " + None` on an `[ioblock]` without wires -/
  | emptyBlock
  /-- `ValueError("*** Inconsistent functions: …")` -/
  | inconsistentFunctions (fname : String)
  /-- `IndexError` on a directive with too few tokens -/
  | malformed
  /-- `ValueError` from `max([… for nm in blocks])` in the `return` of `qapsplit()` when the file
  read back holds no `[function]` and no `[ioblock]` line (nothing has been written yet) -/
  | emptyMax
deriving Repr, DecidableEq

/-- `contextualize(lst)`: accumulator = (`context`, tokens so far) -/
def contextualizeAux : List Tok → Option String → List Tok → Except SplitErr (Option String × List Tok)
  | [], c, acc => .ok (c, acc)
  | .wire x l :: r, c, acc =>
    if c ≠ none ∧ c ≠ some x then .error .inconsistentContexts
    else contextualizeAux r (some x) (acc ++ [.loc l])
  | t :: r, c, acc => contextualizeAux r c (acc ++ [t])

def contextualize (l : List Tok) : Except SplitErr (Option String × List Tok) :=
  contextualizeAux l none []

/-- `ln.strip()` on the token level: empty tokens at either end disappear -/
def stripL : List Tok → List Tok
  | .sym s :: r => if s = "" then stripL r else .sym s :: r
  | l => l

def strip (l : Line) : Line := (stripL (stripL l).reverse).reverse

abbrev EqDict := List (Option String × List Line)
abbrev BlockDict := List (String × List (String × List Tok))

def eqsGet (d : EqDict) (k : Option String) : List Line :=
  match d with
  | [] => []
  | (k', v) :: r => if k' = k then v else eqsGet r k

def eqsAdd (d : EqDict) (k : Option String) (l : Line) : EqDict :=
  match d with
  | [] => [(k, [l])]
  | (k', v) :: r => if k' = k then (k', v ++ [l]) :: r else (k', v) :: eqsAdd r k l

def blocksGet (d : BlockDict) (k : String) : List (String × List Tok) :=
  match d with
  | [] => []
  | (k', v) :: r => if k' = k then v else blocksGet r k

def blocksAdd (d : BlockDict) (k : String) (b : String × List Tok) : BlockDict :=
  match d with
  | [] => [(k, [b])]
  | (k', v) :: r => if k' = k then (k', v ++ [b]) :: r else (k', v) :: blocksAdd r k b

def sset (d : List (String × String)) (k v : String) : List (String × String) :=
  match d with
  | [] => [(k, v)]
  | (k', v') :: r => if k' = k then (k, v) :: r else (k', v') :: sset r k v

/-- state of the line loop of `qapsplit()` -/
structure Acc where
  /-- `fns`: call ↦ function name -/
  fns : List (String × String)
  eqs : EqDict
  blocks : BlockDict
  schedule : List Line
deriving Repr, DecidableEq

def Acc.empty : Acc := ⟨[], [], [], []⟩

def scheduleFunction (call fname : String) : Line :=
  [.sym "[function]", .sym call, .sym ("pysnark_eqs_" ++ fname), .sym ("pysnark_ek_" ++ fname),
   .sym ("pysnark_vk_" ++ fname)]

/-- body of `for ln in open(get_eqs_file())` -/
def splitLine (a : Acc) (ln : Line) : Except SplitErr Acc :=
  match strip ln with
  | [] => .ok a
  | .sym s :: r =>
    if s = "[function]" then
      match r with
      | f :: c :: _ =>
        .ok { a with fns := sset a.fns c.render f.render,
                     schedule := a.schedule ++ [scheduleFunction c.render f.render] }
      | _ => .error .malformed
    else if s = "[ioblock]" then
      match r with
      | c :: bn :: ws =>
        match contextualize ws with
        | .error e => .error e
        | .ok (chk, lst) =>
          if chk = some c.render then .ok { a with blocks := blocksAdd a.blocks c.render (bn.render, lst) }
          else if chk = none then .error .emptyBlock
          else .error .inconsistentContexts
      | _ => .error .malformed
    else if s = "[external]" then .ok a
    else if s = "[glue]" then .ok { a with schedule := a.schedule ++ [.sym s :: r] }
    else
      match contextualize (.sym s :: r) with
      | .error e => .error e
      | .ok (q, tokn) => .ok { a with eqs := eqsAdd a.eqs q tokn }
  | toks =>
    match contextualize toks with
    | .error e => .error e
    | .ok (q, tokn) => .ok { a with eqs := eqsAdd a.eqs q tokn }

def splitLines : Acc → List Line → Except SplitErr Acc
  | a, [] => .ok a
  | a, l :: r =>
    match splitLine a l with
    | .error e => .error e
    | .ok a' => splitLines a' r

/-- insertion into a list sorted by the rendered text (Python `sorted` on `str`) -/
def insertSorted (x : Line) : List Line → List Line
  | [] => [x]
  | y :: r => if x.render ≤ y.render then x :: y :: r else y :: insertSorted x r

def sortLines : List Line → List Line
  | [] => []
  | x :: r => insertSorted x (sortLines r)

def blockStr (b : String × List Tok) : Line := [.sym "[ioblock]", .sym b.1] ++ b.2

/-- `getqap(nm)` -/
def getqap (a : Acc) (nm : String) : List Line :=
  sortLines ((blocksGet a.blocks nm).map blockStr ++ eqsGet a.eqs (some nm))

structure SplitOut (D : Type) where
  acc : Acc
  /-- `pysnark_eqs_<fname>` ↦ lines, in order of creation -/
  files : List (String × List Line)
  /-- `hexs`: function name ↦ digest -/
  sigs : List (String × D)

def sigGet {D : Type} (d : List (String × D)) (k : String) : Option D :=
  match d with
  | [] => none
  | (k', v) :: r => if k' = k then some v else sigGet r k

/-- `for x in fns:` -/
def finish {D : Type} [DecidableEq D] (H : List Line → D) (a : Acc) :
    List (String × String) → List (String × List Line) → List (String × D) →
    Except SplitErr (List (String × List Line) × List (String × D))
  | [], files, sigs => .ok (files, sigs)
  | (x, f) :: r, files, sigs =>
    let q := getqap a x
    let hs := H q
    match sigGet sigs f with
    | some h => if h ≠ hs then .error (.inconsistentFunctions f) else finish H a r files sigs
    | none => finish H a r (files ++ [(f, q)]) (sigs ++ [(f, hs)])

/-- `qapsplit()` up to and including the writing of the per-function files; of the size computations
in its `return` only the failure on an empty `blocks` dict is modelled -/
def qapsplit {D : Type} [DecidableEq D] (H : List Line → D) (lines : List Line) :
    Except SplitErr (SplitOut D) :=
  match splitLines Acc.empty lines with
  | .error e => .error e
  | .ok a =>
    match finish H a a.fns [] [] with
    | .error e => .error e
    | .ok (files, sigs) =>
      if a.fns.isEmpty && a.blocks.isEmpty then .error .emptyMax else .ok ⟨a, files, sigs⟩

/-- `prove()` as far as the files are concerned -/
def prove {D : Type} [DecidableEq D] (H : List Line → D) (cfg : Cfg) (s : St) :
    Except SplitErr (SplitOut D) :=
  qapsplit H (onDisk cfg s)

/-! ## `prove()` on the TEXT of the equation file

`qapsplit` reads text.  `readBack` is what it sees: every line rendered (`QapText.render`: tokens joined by
single blanks) and read again by the reader written from the file grammar (`QapText.parseLine`: split at
blanks, names cut at their first `/`).  For lines whose names contain neither a blank nor, in a context, a
`/` this is the identity (`Lemmas/QaptoolsText.lean`); a function name with `/` reads back with another
context. -/

def readBack : List Line → Option (List Line)
  | [] => some []
  | l :: r =>
    match QapText.parseLine (QapText.render l), readBack r with
    | some l', some r' => some (l' :: r')
    | _, _ => none

/-- `prove()` as far as the files are concerned, on the text of the equation file -/
def proveText {D : Type} [DecidableEq D] (H : List Line → D) (cfg : Cfg) (s : St) :
    Except SplitErr (SplitOut D) :=
  match readBack (onDisk cfg s) with
  | some lines => qapsplit H lines
  | none => .error .malformed

/-- what MD5 is applied to: `m.update(bytes(line, 'utf-8'))` for every line of the normalised set, in its
(sorted) order, nothing between the lines -/
def digestInput (q : List Line) : String := String.join (q.map QapText.render)

end Pysnark.Qaptools
