/-!
# Backend selection model (C19): `pysnark/runtime.py` l.21-48, statement by statement

```python
for mod in backends:                                   # stage 1
    if mod[1] in sys.modules:
        backend_name = mod[0]; backend = sys.modules[mod[1]]; break
if backend is None and "PYSNARK_BACKEND" in os.environ:   # stage 2
    for mod in backends:                               # NO break: every entry of that name is imported
        if os.environ["PYSNARK_BACKEND"]==mod[0]:
            backend_name = mod[0]; backend = importlib.import_module(mod[1])   # failure propagates
    if backend is None: print("*** PySNARK: unknown backend in environment variables: " + …)
if backend is None:                                    # stage 3
    try:
        get_ipython(); import pysnark.nobackend
        backend_name = "nobackend"; backend = pysnark.nobackend
    except:                                            # bare: NameError *or* a failing import
        for mod in backends:
            try:
                backend_name = mod[0]                  # assigned BEFORE the import attempt
                backend = importlib.import_module(mod[1]); break
            except Exception as e: print("*** Error loading backend " + str(mod[1]) + ":", e)
```
If nothing loads `backend` stays `None` (`Sel.noBackend`; `backend_name` is then the LAST registry
name) and the module fails later at `backend.zero()`.
-/
namespace Pysnark.Select

structure Config where
  /-- (name, module) in source order; `Gen.backends` for the real code -/
  registry : List (String × String)
  /-- module names in `sys.modules` before `pysnark.runtime` is imported -/
  preimported : List String
  /-- `PYSNARK_BACKEND` -/
  env : Option String
  /-- does importing this module succeed -/
  loadable : String → Bool
  /-- is `get_ipython` defined -/
  ipython : Bool

inductive Sel
  | ok (name : String) (module : String) (unknownMsg : Bool) (loadErrors : List String)
  | importError (module : String)
  | noBackend (loadErrors : List String)
  deriving DecidableEq, Repr

/-- which stage of the selection code produced the result -/
inductive Stage | preimport | env | ipython | auto
  deriving DecidableEq, Repr

/-- the module name hard-coded in the IPython branch -/
def ipythonName : String := "nobackend"
def ipythonModule : String := "pysnark.nobackend"

/-- stage 1: first registry entry whose module is already imported -/
def stage1 (reg : List (String × String)) (pre : List String) : Option (String × String) :=
  reg.find? fun e => pre.contains e.2

/-- stage 2 loop: every entry named `v` is imported, the last one stays; the first failing import
propagates (`Except.error module`) -/
def envLoop (loadable : String → Bool) (v : String) :
    List (String × String) → Option (String × String) → Except String (Option (String × String))
  | [], acc => .ok acc
  | e :: r, acc =>
    if v == e.1 then
      if loadable e.2 then envLoop loadable v r (some e) else .error e.2
    else envLoop loadable v r acc

/-- stage 3 loop: first loadable entry, and the modules whose load error was printed before it -/
def autoLoop (loadable : String → Bool) :
    List (String × String) → Option (String × String) × List String
  | [] => (none, [])
  | e :: r =>
    if loadable e.2 then (some e, [])
    else let (res, errs) := autoLoop loadable r; (res, e.2 :: errs)

/-- stage 3 -/
def stage3 (c : Config) (unknownMsg : Bool) : Stage × Sel :=
  if c.ipython && c.loadable ipythonModule then
    (.ipython, .ok ipythonName ipythonModule unknownMsg [])
  else
    match autoLoop c.loadable c.registry with
    | (some e, errs) => (.auto, .ok e.1 e.2 unknownMsg errs)
    | (none, errs) => (.auto, .noBackend errs)

def selectStaged (c : Config) : Stage × Sel :=
  match stage1 c.registry c.preimported with
  | some e => (.preimport, .ok e.1 e.2 false [])
  | none =>
    match c.env with
    | some v =>
      match envLoop c.loadable v c.registry none with
      | .error m => (.env, .importError m)
      | .ok (some e) => (.env, .ok e.1 e.2 false [])
      | .ok none => stage3 c true
    | none => stage3 c false

def select (c : Config) : Sel := (selectStaged c).2

/-- was auto-detection (the `for` loop of stage 3) the source of the result -/
def usedAuto (c : Config) : Bool := (selectStaged c).1 == .auto

end Pysnark.Select
