/-!
# qaptools linear combinations (`pysnark/qaptools/backend.py`, class `Sig`)

A list of `(coefficient, wire name)` terms; `+` is concatenation, `*` and unary `-` reduce the
coefficients modulo `vc_p`.
-/
namespace Pysnark

abbrev SigLC := List (Int × String)

namespace SigLC
/-- `Sig.__add__` -/
def add (a b : SigLC) : SigLC := a ++ b
/-- `Sig.__mul__`: `(c * other % vc_p, v)` -/
def scale (p : Int) (a : SigLC) (c : Int) : SigLC := a.map (fun cv => (cv.1 * c % p, cv.2))
/-- `Sig.__neg__`: `(-c % vc_p, v)` -/
def neg (p : Int) (a : SigLC) : SigLC := a.map (fun cv => (-cv.1 % p, cv.2))
/-- `Sig.__sub__` -/
def sub (p : Int) (a b : SigLC) : SigLC := add a (neg p b)
def zero : SigLC := []
def eval (w : String → Int) : SigLC → Int
  | [] => 0
  | (c, v) :: t => c * w v + eval w t
/-- `Sig.__str__` -/
def toStr (a : SigLC) : String := " ".intercalate (a.map fun cv => toString cv.1 ++ " " ++ cv.2)
end SigLC

end Pysnark
