import PysnarkModel.Model.Methods
/-!
# The `@snark` decorator (`runtime.py` l.740-779): `for_each_in` and `snark__`

Argument / return structures are built from `.list`, `.tuple` and leaves (dicts and Python `bool`s are
not modelled).  `snark__(*args)`:

```
argscopy = for_each_in(lambda x: PubVal(x)     if isinstance(x,int)   else x, args)
argscopy = for_each_in(lambda x: PubValFxp(x)  if isinstance(x,float) else x, argscopy)
argscopy = for_each_in(lambda x: PubValBool(x) if isinstance(x,bool)  else x, argscopy)   # unreachable
ret = fn(*argscopy)
retcopy = for_each_in(lambda x: x.val() if isinstance(x,LinComb)     else x, ret)
retcopy = for_each_in(lambda x: x.val() if isinstance(x,LinCombFxp)  else x, retcopy)
retcopy = for_each_in(lambda x: x.val() if isinstance(x,LinCombBool) else x, retcopy)
```
Each `for_each_in` is one full traversal in structure order, so public inputs are created GROUPED BY
TYPE (all ints, then all floats), not in argument order.
-/
namespace Pysnark

mutual
/-- `for_each_in(converter, struct)` -/
def forEachIn (conv : Val → M Val) : Val → M Val
  | .list xs => do let ys ← forEachInL conv xs; pure (.list ys)
  | .tuple xs => do let ys ← forEachInL conv xs; pure (.tuple ys)
  | .none => conv .none
  | .int c => conv (.int c)
  | .flt m e => conv (.flt m e)
  | .lc x => conv (.lc x)
  | .lcb x => conv (.lcb x)
  | .fxp x => conv (.fxp x)
/-- `map(lambda x: for_each_in(converter, x), struct)` consumed in order -/
def forEachInL (conv : Val → M Val) : List Val → M (List Val)
  | [] => pure []
  | x :: xs => do
    let y ← forEachIn conv x
    let ys ← forEachInL conv xs
    pure (y :: ys)
end

/-- `lambda x: PubVal(x) if isinstance(x,int) else x` -/
def inInt : Val → M Val
  | .int c => mkVal .pub (.int c)
  | v => pure v
/-- `lambda x: PubValFxp(x) if isinstance(x,float) else x` -/
def inFlt : Val → M Val
  | .flt m e => mkVal .pubx (.flt m e)
  | v => pure v
/-- `lambda x: PubValBool(x) if isinstance(x,bool) else x`: no modelled value is a Python `bool` -/
def inBool : Val → M Val := fun v => pure v

/-- `argscopy`: three passes over the argument structure -/
def snarkIn (args : Val) : M Val := do
  let a1 ← forEachIn inInt args
  let a2 ← forEachIn inFlt a1
  forEachIn inBool a2

/-- `lambda x: x.val() if isinstance(x,LinComb) else x` -/
def outLc : Val → M Val
  | .lc x => do let v ← valL x; pure (.int v)
  | v => pure v
/-- `lambda x: x.val() if isinstance(x,LinCombFxp) else x` -/
def outFxp : Val → M Val
  | .fxp x => callMeth .val (.fxp x) []
  | v => pure v
/-- `lambda x: x.val() if isinstance(x,LinCombBool) else x` -/
def outLcb : Val → M Val
  | .lcb x => callMeth .val (.lcb x) []
  | v => pure v

/-- `retcopy`: three passes over the returned structure -/
def snarkOut (ret : Val) : M Val := do
  let r1 ← forEachIn outLc ret
  let r2 ← forEachIn outFxp r1
  forEachIn outLcb r2

/-- `snark(fn)(*args)` for a modelled body `fn` -/
def snarkCall (fn : Val → M Val) (args : Val) : M Val := do
  let a ← snarkIn args
  let r ← fn a
  snarkOut r

/-! ## vocabulary for the statements: leaves in traversal order, skeleton -/

def Val.isLeaf : Val → Bool
  | .list _ | .tuple _ => false
  | _ => true

mutual
/-- the leaves in `for_each_in` traversal order -/
def Val.leaves : Val → List Val
  | .list xs => Val.leavesL xs
  | .tuple xs => Val.leavesL xs
  | .none => [.none]
  | .int c => [.int c]
  | .flt m e => [.flt m e]
  | .lc x => [.lc x]
  | .lcb x => [.lcb x]
  | .fxp x => [.fxp x]
def Val.leavesL : List Val → List Val
  | [] => []
  | x :: xs => x.leaves ++ Val.leavesL xs
end

mutual
/-- the list/tuple skeleton: every leaf replaced by `None` -/
def Val.skel : Val → Val
  | .list xs => .list (Val.skelL xs)
  | .tuple xs => .tuple (Val.skelL xs)
  | _ => .none
def Val.skelL : List Val → List Val
  | [] => []
  | x :: xs => x.skel :: Val.skelL xs
end

def Val.intOf? : Val → Option Int
  | .int c => some c
  | _ => Option.none
def Val.fltOf? : Val → Option (Int × Nat)
  | .flt m e => some (m, e)
  | _ => Option.none
def Val.lcOf? : Val → Option LinComb
  | .lc x => some x
  | _ => Option.none
def Val.fxpOf? : Val → Option LinComb
  | .fxp x => some x
  | _ => Option.none
def Val.lcbOf? : Val → Option LinComb
  | .lcb x => some x
  | _ => Option.none

def Val.isSecret : Val → Bool
  | .lc _ | .lcb _ | .fxp _ => true
  | _ => false

/-- what `retcopy` puts in place of a leaf: `x.val()` for the three secret kinds -/
def reveal (res : Nat) : Val → Val
  | .lc x => .int x.value
  | .fxp x => .flt x.value res
  | .lcb x => .int x.value
  | v => v

end Pysnark
