/-!
# Model of the snarkjs file writer (`pysnark/snarkjsbackend.py`, function `prove()`)

`prove()` writes `witness.wtns` and `circuit.r1cs` from the module lists `pubvals`, `privvals`
and `constraints`.  The two encoders below follow `prove()` statement by statement; every list
in the `++` chain is one `wwriteval` / `cwriteval` / `write` call (or one `for` loop).

Deliberate deviation from the pinned code: the public and private witness values are written
reduced modulo the prime (`wwriteval(val % snarkjsp, 32)`); the pinned code writes them unreduced.
The leading constant `wwriteval(1, 32)` is kept as in the code (not reduced).
-/
namespace Pysnark.Snarkjs

/-- a linear combination: the `(key, coefficient)` items of the Python dict `.lc` in dict order;
key `0` = constant one, `k > 0` = `k`-th public value, `k < 0` = `(-k)`-th private value -/
abbrev KLC := List (Int × Int)

structure Trace where
  /-- `snarkjsp` -/
  p : Int
  /-- `pubvals` -/
  pubs : List Int
  /-- `privvals` -/
  privs : List Int
  /-- `constraints` -/
  cons : List (KLC × KLC × KLC)
deriving Repr, DecidableEq

/-- `bytes([(val>>(i*8)) & 255 for i in range(len)])`; `>>>` on `Int` is the floor shift and `%`
is Euclidean, so `(v >>> (8*i)) % 256` is Python's `(val>>(i*8)) & 255` for negative `v` too -/
def leBytes (n : Nat) (v : Int) : List Nat :=
  (List.range n).map fun i => ((v >>> (8 * i)) % 256).toNat

/-- `k if k >= 0 else len(pubvals) - k` -/
def wireIndex (npub : Nat) (k : Int) : Int := if k ≥ 0 then k else npub - k

/-- `bytes("wtns", encoding="Latin-1")` -/
def magicWtns : List Nat := [119, 116, 110, 115]
/-- `bytes("r1cs", encoding="Latin-1")` -/
def magicR1cs : List Nat := [114, 49, 99, 115]

def encodeWtns (t : Trace) : List Nat :=
  let n : Int := ((t.pubs.length + t.privs.length + 1 : Nat) : Int)
  magicWtns ++                  -- "wtns"
  leBytes 4 2 ++                -- version
  leBytes 4 2 ++                -- number of sections
  leBytes 4 1 ++                -- section #1
  leBytes 8 40 ++               -- length of section #1
  leBytes 4 32 ++               -- length of the modulus
  leBytes 32 t.p ++             -- modulus
  leBytes 4 n ++                -- number of witness values
  leBytes 4 2 ++                -- section #2
  leBytes 8 (n * 32) ++         -- length of section #2
  leBytes 32 1 ++               -- first witness value: the constant one
  t.pubs.flatMap (fun val => leBytes 32 (val % t.p)) ++   -- deviation: reduced
  t.privs.flatMap (fun val => leBytes 32 (val % t.p))     -- deviation: reduced

/-- `writefac(k, v)` -/
def encodeFac (t : Trace) (kv : Int × Int) : List Nat :=
  leBytes 4 (wireIndex t.pubs.length kv.1) ++ leBytes 32 (kv.2 % t.p)

/-- `cwriteval(len(c[i].lc), 4); for (k,v) in c[i].lc.items(): writefac(k, v)` -/
def encodeLC (t : Trace) (l : KLC) : List Nat :=
  leBytes 4 (l.length : Nat) ++ l.flatMap (encodeFac t)

/-- body of `for c in constraints` -/
def encodeCon (t : Trace) (c : KLC × KLC × KLC) : List Nat :=
  encodeLC t c.1 ++ encodeLC t c.2.1 ++ encodeLC t c.2.2

/-- `nlcs = sum([len(c[0].lc)+len(c[1].lc)+len(c[2].lc) for c in constraints])` -/
def nlcs (cons : List (KLC × KLC × KLC)) : Nat :=
  (cons.map fun c => c.1.length + c.2.1.length + c.2.2.length).sum

def encodeR1cs (t : Trace) : List Nat :=
  let n : Nat := t.privs.length + t.pubs.length + 1
  magicR1cs ++                                    -- "r1cs"
  leBytes 4 1 ++                                  -- version
  leBytes 4 3 ++                                  -- number of sections
  leBytes 4 1 ++                                  -- section 1
  leBytes 8 64 ++                                 -- length 64
  leBytes 4 32 ++                                 -- length of the modulus
  leBytes 32 t.p ++                               -- modulus
  leBytes 4 (n : Nat) ++                          -- nvars
  leBytes 4 (t.pubs.length : Nat) ++              -- noutputs
  leBytes 4 0 ++                                  -- npubinputs
  leBytes 4 0 ++                                  -- nprivinputs
  leBytes 8 0 ++                                  -- nlabels
  leBytes 4 (t.cons.length : Nat) ++              -- nconstraints
  leBytes 4 2 ++                                  -- section 2
  leBytes 8 ((12 * t.cons.length + 36 * nlcs t.cons : Nat) : Int) ++
  t.cons.flatMap (encodeCon t) ++
  leBytes 4 3 ++                                  -- section 3
  leBytes 8 ((8 * n : Nat) : Int) ++
  (List.range n).flatMap (fun _ => leBytes 8 0)

/-! ## Meaning of a recorded trace -/

/-- the recorded assignment: key `0` is the constant one, key `k > 0` the `k`-th public value,
key `k < 0` the `(-k)`-th private value (values as recorded, not reduced) -/
def assign (t : Trace) (k : Int) : Int :=
  if k = 0 then 1
  else if 0 < k then t.pubs.getD (k.toNat - 1) 0
  else t.privs.getD ((-k).toNat - 1) 0

/-- value of a recorded linear combination: `Σ coeff * assign key` -/
def evalKLC (t : Trace) (l : KLC) : Int := (l.map fun kc => kc.2 * assign t kc.1).sum

/-- the recorded assignment satisfies the recorded constraint `A * B = C` modulo `p` -/
def satRecorded (t : Trace) (c : KLC × KLC × KLC) : Prop :=
  (evalKLC t c.1 * evalKLC t c.2.1) % t.p = evalKLC t c.2.2 % t.p

instance (t : Trace) (c : KLC × KLC × KLC) : Decidable (satRecorded t c) := by
  unfold satRecorded; infer_instance

end Pysnark.Snarkjs
