import PysnarkModel.Model.Gadgets
/-!
# Dynamically typed values and operator dispatch

`Val` is the universe of Python values the public API handles.  `binop`/`unop`/`method`
implement Python's data-model protocol (`a.__op__(b)`, on `NotImplemented` the reflected method of
`b`, else `TypeError`) *flattened by hand* into one case per operand-kind pair: each case is what
the interpreter ends up executing for that pair in `runtime.py`, `boolean.py`, `fixedpoint.py`.
The correspondence check validates the table per (operator, kind, kind).
-/
namespace Pysnark

inductive Val
  | none
  | int (v : Int)
  /-- a Python float that is exactly the dyadic rational `m / 2^e` -/
  | flt (m : Int) (e : Nat)
  | lc (x : LinComb)
  /-- `LinCombBool` wrapping `x` -/
  | lcb (x : LinComb)
  /-- `LinCombFxp` wrapping `x` -/
  | fxp (x : LinComb)
  | list (xs : List Val)
  | tuple (xs : List Val)
deriving Repr, BEq

def ofFB : Option LinComb → Val
  | Option.none => .int 0
  | some x => .lc x

def tyErr : M α := raise .type

/-- `LinCombFxp.add_scaling` of a float literal: `int(val * (1 << resolution))` -/
def scaleFlt (m : Int) (e : Nat) (r : Nat) : Int := Int.tdiv (m * 2 ^ r) (2 ^ e)

def getRes : M Nat := fun s => .ok (s.resolution, s)
def getOne : M LinComb := fun s => .ok (s.one, s)
def getP : M Int := fun s => .ok (s.p, s)

/-- `LinCombFxp._ensurefxp(val)` → the wrapped LinComb -/
def ensurefxp (v : Val) : M LinComb := do
  let r ← getRes
  match v with
  | .fxp x => pure x
  | .lc x => pure (x.mulI (2 ^ r))
  | .lcb x => pure (x.mulI (2 ^ r))
  | .int c => pure (LinComb.const (c * 2 ^ r))
  | .flt m e => pure (LinComb.const (scaleFlt m e r))
  | _ => raise .runtime

/-- `LinCombBool._ensurebool(val)` → the wrapped LinComb -/
def ensurebool (v : Val) : M LinComb :=
  match v with
  | .lcb x => pure x
  | .lc x => fun s => if !isBooleanValue x.value then .error .value else mkBool x true s
  | .int c => ensureboolI c
  | _ => raise .runtime

/-- `LinComb._ensurelc(val)` -/
def ensurelc (v : Val) : M LinComb :=
  match v with
  | .lc x => pure x
  | .int c => ensurelcI c
  | _ => raise .runtime

/-! ### unary minus -/
def negV : Val → M Val
  | .int c => pure (.int (-c))
  | .flt m e => pure (.flt (-m) e)
  | .lc x => pure (.lc x.neg)
  | .lcb x => pure (.lc x.neg)
  | .fxp x => pure (.fxp x.neg)
  | _ => tyErr

/-! ### addition -/
/-- `LinComb.__add__(x, other)` including the fall-back to `other.__radd__` -/
def addLV (x : LinComb) (other : Val) : M Val := do
  match other with
  | .int c => pure (.lc (x.addI c))
  | .lc y => pure (.lc (x.add y))
  | .lcb y => pure (.lc (y.add x))                       -- B.__radd__: other.lc + x
  | .fxp y => do let r ← getRes; pure (.fxp (y.add (x.mulI (2 ^ r))))  -- X.__radd__
  | _ => tyErr

/-- `LinCombFxp.__add__(x, other)` including the fall-back -/
def addXV (x : LinComb) (other : Val) : M Val := do
  let r ← getRes
  match other with
  | .int c => pure (.fxp (x.addI (c * 2 ^ r)))
  | .flt m e => pure (.fxp (x.addI (scaleFlt m e r)))
  | .lc y => pure (.fxp (x.add (y.mulI (2 ^ r))))
  | .fxp y => pure (.fxp (x.add y))
  | .lcb y => pure (.fxp (x.add (y.mulI (2 ^ r))))      -- B.__radd__ → y.lc + X → X.__radd__
  | _ => tyErr

def addV (a b : Val) : M Val :=
  match a with
  | .lc x => addLV x b
  | .lcb x => addLV x b
  | .fxp x => addXV x b
  | .int c =>
    match b with
    | .lc y => addLV y (.int c)
    | .lcb y => addLV y (.int c)
    | .fxp y => addXV y (.int c)
    | .int d => pure (.int (c + d))
    | _ => raise .unmodelled
  | .flt m e =>
    match b with
    | .lc _ => tyErr
    | .lcb _ => tyErr
    | .fxp y => addXV y (.flt m e)
    | _ => raise .unmodelled
  | _ => match b with
    | .lc _ | .lcb _ | .fxp _ => tyErr
    | _ => raise .unmodelled

/-- `a - b`: every `__sub__`/`__rsub__` in the three classes is `x + (-y)` -/
def subV (a b : Val) : M Val := do
  match a, b with
  | .int c, .int d => pure (.int (c - d))
  | _, _ =>
    let nb ← negV b
    addV a nb

/-! ### multiplication -/
def floordivLI (x : LinComb) (c : Int) : M LinComb := do
  let qr ← divmodLL x (LinComb.const c)
  pure qr.1

def mulLV (x : LinComb) (other : Val) : M Val := do
  match other with
  | .int c => pure (.lc (x.mulI c))
  | .lc y => do let r ← mulLL x y; pure (.lc r)
  | .lcb y => do let r ← mulLL y x; pure (.lc r)        -- B.__rmul__: other.lc * x
  | .fxp y => do let r ← mulLL y x; pure (.fxp r)       -- X.__rmul__: X(other.lc * x)
  | _ => tyErr

def mulXV (x : LinComb) (other : Val) : M Val := do
  let r ← getRes
  match other with
  | .int c => pure (.fxp (x.mulI c))
  | .flt m e => do let q ← floordivLI (x.mulI (scaleFlt m e r)) (2 ^ r); pure (.fxp q)
  | .lc y => do let z ← mulLL x y; pure (.fxp z)
  | .fxp y => do let z ← mulLL x y; let q ← floordivLI z (2 ^ r); pure (.fxp q)
  | .lcb y => do let z ← mulLL x y; pure (.fxp z)       -- B.__rmul__ → y.lc * X → X.__rmul__ → X(x * y.lc)
  | _ => tyErr

def mulV (a b : Val) : M Val :=
  match a with
  | .lc x => mulLV x b
  | .lcb x => mulLV x b
  | .fxp x => mulXV x b
  | .int c =>
    match b with
    | .lc y => mulLV y (.int c)
    | .lcb y => mulLV y (.int c)
    | .fxp y => mulXV y (.int c)
    | .int d => pure (.int (c * d))
    | _ => raise .unmodelled
  | .flt m e =>
    match b with
    | .lc _ => tyErr
    | .lcb _ => tyErr
    | .fxp y => mulXV y (.flt m e)
    | _ => raise .unmodelled
  | _ => match b with
    | .lc _ | .lcb _ | .fxp _ => tyErr
    | _ => raise .unmodelled

/-! ### floor division, modulo, divmod -/
/-- `LinComb.__divmod__(x, other)`; `none` = `NotImplemented` -/
def divmodLV (x : LinComb) (other : Val) : M (Option (LinComb × LinComb)) := do
  match other with
  | .int c => do let qr ← divmodLL x (LinComb.const c); pure (some qr)
  | .lc y => do let qr ← divmodLL x y; pure (some qr)
  | _ => pure Option.none

/-- `LinCombFxp.__divmod__(x, other)`; results are the wrapped (quo, rem); `none` = `NotImplemented` -/
def divmodXV (x : LinComb) (other : Val) : M (Option (LinComb × LinComb)) := do
  let r ← getRes
  let wrap (qr : LinComb × LinComb) : M (Option (LinComb × LinComb)) :=
    pure (some (qr.1.mulI (2 ^ r), qr.2))        -- quo = LinCombFxp(quo) (scaled); rem unscaled
  match other with
  | .int c => do let qr ← divmodLL x (LinComb.const (c * 2 ^ r)); wrap qr
  | .flt m e => do let qr ← divmodLL x (LinComb.const (scaleFlt m e r)); wrap qr
  | .lc y => do let qr ← divmodLL x (y.mulI (2 ^ r)); wrap qr
  | .fxp y => do let qr ← divmodLL x y; wrap qr
  | _ => pure Option.none

inductive DM | quo | rem | both deriving DecidableEq, Repr

def pickL (w : DM) (qr : LinComb × LinComb) : Val :=
  match w with
  | .quo => .lc qr.1 | .rem => .lc qr.2 | .both => .tuple [.lc qr.1, .lc qr.2]
def pickX (w : DM) (qr : LinComb × LinComb) : Val :=
  match w with
  | .quo => .fxp qr.1 | .rem => .fxp qr.2 | .both => .tuple [.fxp qr.1, .fxp qr.2]

/-- `a // b`, `a % b`, `divmod(a, b)` -/
def divmodV (w : DM) (a b : Val) : M Val := do
  match a with
  | .lc x =>
    match ← divmodLV x b with
    | some qr => pure (pickL w qr)
    | Option.none =>
      -- reflected: only LinCombFxp defines __rfloordiv__/__rmod__ (no __rdivmod__)
      match b with
      | .fxp y => if w == .both then tyErr else do
          let xs ← ensurefxp (.lc x)
          match ← divmodXV xs (.fxp y) with
          | some qr => pure (pickX w qr)
          | Option.none => tyErr
      | _ => tyErr
  | .lcb x =>
    -- B.__floordiv__ etc. return NotImplemented
    match b with
    | .fxp y => if w == .both then tyErr else do
        let xs ← ensurefxp (.lcb x)
        match ← divmodXV xs (.fxp y) with
        | some qr => pure (pickX w qr)
        | Option.none => tyErr
    | .lc _ => raise .runtime      -- L.__rfloordiv__ → ConstVal(LinCombBool) → RuntimeError
    | _ => tyErr
  | .fxp x =>
    match ← divmodXV x b with
    | some qr => pure (pickX w qr)
    | Option.none => tyErr         -- other is LinCombBool / junk: no reflected method
  | .int c =>
    match b with
    | .lc y => do let qr ← divmodLL (LinComb.const c) y; pure (pickL w qr)
    | .fxp y => if w == .both then tyErr else do
        let xs ← ensurefxp (.int c)
        match ← divmodXV xs (.fxp y) with
        | some qr => pure (pickX w qr)
        | Option.none => tyErr
    | .lcb _ => tyErr
    | _ => raise .unmodelled
  | .flt m e =>
    match b with
    | .lc _ => raise .runtime      -- ConstVal(float)
    | .fxp y => if w == .both then tyErr else do
        let xs ← ensurefxp (.flt m e)
        match ← divmodXV xs (.fxp y) with
        | some qr => pure (pickX w qr)
        | Option.none => tyErr
    | .lcb _ => tyErr
    | _ => raise .unmodelled
  | _ => match b with
    | .lc _ => raise .runtime
    | .fxp _ => if w == .both then tyErr else raise .runtime
    | .lcb _ => tyErr
    | _ => raise .unmodelled

/-! ### true division -/
def floordivLL (x y : LinComb) : M LinComb := do
  let qr ← divmodLL x y
  pure qr.1

/-- `LinCombFxp.__truediv__(x, other)`; `none` = NotImplemented -/
def truedivXV (x : LinComb) (other : Val) : M (Option LinComb) := do
  let r ← getRes
  match other with
  | .int c => do let q ← floordivLI x c; pure (some q)
  | .flt m e => do let q ← floordivLI (x.mulI (2 ^ r)) (scaleFlt m e r); pure (some q)
  | .lc y => do let q ← floordivLL (x.mulI (2 ^ r)) (y.mulI (2 ^ r)); pure (some q)
  | .fxp y => do let q ← floordivLL (x.mulI (2 ^ r)) y; pure (some q)
  | _ => pure Option.none

def truedivV (a b : Val) : M Val := do
  match a with
  | .lc x =>
    match b with
    | .int c => do let r ← truedivLI x c; pure (.lc r)
    | .lc y => do let r ← truedivLL x y; pure (.lc r)
    | .fxp y => do
        let xs ← ensurefxp (.lc x)
        match ← truedivXV xs (.fxp y) with
        | some q => pure (.fxp q)
        | Option.none => tyErr
    | _ => tyErr
  | .lcb x =>
    match b with
    | .lc _ => raise .runtime      -- L.__rtruediv__ → ConstVal(LinCombBool)
    | .fxp y => do
        let xs ← ensurefxp (.lcb x)
        match ← truedivXV xs (.fxp y) with
        | some q => pure (.fxp q)
        | Option.none => tyErr
    | _ => tyErr
  | .fxp x =>
    match ← truedivXV x b with
    | some q => pure (.fxp q)
    | Option.none => tyErr
  | .int c =>
    match b with
    | .lc y => do let r ← truedivLL (LinComb.const c) y; pure (.lc r)
    | .fxp y => do
        let xs ← ensurefxp (.int c)
        match ← truedivXV xs (.fxp y) with
        | some q => pure (.fxp q)
        | Option.none => tyErr
    | .lcb _ => tyErr
    | _ => raise .unmodelled
  | .flt m e =>
    match b with
    | .lc _ => raise .runtime
    | .fxp y => do
        let xs ← ensurefxp (.flt m e)
        match ← truedivXV xs (.fxp y) with
        | some q => pure (.fxp q)
        | Option.none => tyErr
    | .lcb _ => tyErr
    | _ => raise .unmodelled
  | _ => match b with
    | .lc _ | .fxp _ => raise .runtime
    | .lcb _ => tyErr
    | _ => raise .unmodelled

/-! ### power -/
/-- `LinCombFxp.__pow__` with an int exponent ≥ 0 -/
def powXN (x : LinComb) : Nat → M LinComb
  | 0 => do let one ← getOne; let r ← getRes; pure (one.mulI (2 ^ r))
  | 1 => pure x
  | n+1 => do
    let rest ← powXN x n
    let r ← getRes
    let z ← mulLL x rest
    let q ← floordivLI z (2 ^ r)
    let p ← getP
    pure (reduceValue q p)

def powV (a b : Val) : M Val := do
  match a with
  | .lc x =>
    match b with
    | .int n => if n < 0 then raise .value else if n > 300 then raise .unmodelled else do let r ← powLN x n.toNat; pure (.lc r)
    | .lc e => do let r ← powLL x e; pure (.lc r)
    | _ => tyErr
  | .lcb x => do let r ← neLI x 0; pure (.lcb r)     -- `self.lc != 0` whatever the exponent
  | .fxp x =>
    match b with
    | .int n => if n < 0 then raise .value else if n > 300 then raise .unmodelled else do let r ← powXN x n.toNat; pure (.fxp r)
    | .lc _ => raise .runtime        -- L.__rpow__ → ConstVal(LinCombFxp)
    | _ => tyErr
  | .int c =>
    match b with
    | .lc e => do let r ← powLL (LinComb.const c) e; pure (.lc r)
    | .lcb _ | .fxp _ => tyErr
    | _ => raise .unmodelled
  | _ => match b with
    | .lc _ => raise .runtime
    | .lcb _ | .fxp _ => tyErr
    | _ => raise .unmodelled

/-! ### shifts -/
def lshiftLV (x : LinComb) (b : Val) : M Val := do
  match b with
  | .int n => if n > 4096 then raise .unmodelled else do let r ← lshiftLI x n; pure (.lc r)
  | .lc e => do let pw ← powLL (LinComb.const 2) e; let r ← mulLL x pw; pure (.lc r)
  | _ => tyErr

def rshiftLV (x : LinComb) (b : Val) : M Val := do
  match b with
  | .int n => do let r ← rshiftLI x n; pure (ofFB r)
  | .lc e => do let pw ← powLL (LinComb.const 2) e; let q ← floordivLL x pw; pure (.lc q)
  | _ => tyErr

def mkFxpNoScale (v : Val) : M Val :=
  match v with
  | .lc x => pure (.fxp x)
  | _ => raise .runtime

def lshiftV (a b : Val) : M Val := do
  match a with
  | .lc x => lshiftLV x b
  | .fxp x => do let r ← lshiftLV x b; mkFxpNoScale r
  | .lcb _ =>
    match b with
    | .lc _ => raise .runtime
    | _ => tyErr
  | .int c =>
    match b with
    | .lc e => lshiftLV (LinComb.const c) (.lc e)
    | .lcb _ | .fxp _ => tyErr
    | _ => raise .unmodelled
  | _ => match b with
    | .lc _ => raise .runtime
    | .lcb _ | .fxp _ => tyErr
    | _ => raise .unmodelled

def rshiftV (a b : Val) : M Val := do
  match a with
  | .lc x => rshiftLV x b
  | .fxp x => do let r ← rshiftLV x b; mkFxpNoScale r
  | .lcb _ =>
    match b with
    | .lc _ => raise .runtime
    | _ => tyErr
  | .int c =>
    match b with
    | .lc e => rshiftLV (LinComb.const c) (.lc e)
    | .lcb _ | .fxp _ => tyErr
    | _ => raise .unmodelled
  | _ => match b with
    | .lc _ => raise .runtime
    | .lcb _ | .fxp _ => tyErr
    | _ => raise .unmodelled

/-! ### bitwise / logical -/
inductive BW | and | xor | or deriving DecidableEq, Repr

/-- truthiness `1 if other else 0` for the constant arm of `LinCombBool.__and__` etc. -/
def truthy : Val → M Int
  | .none => pure 0
  | .int c => pure (if c == 0 then 0 else 1)
  | .flt m _ => pure (if m == 0 then 0 else 1)
  | .list xs => pure (if xs.isEmpty then 0 else 1)
  | .tuple xs => pure (if xs.isEmpty then 0 else 1)
  | .fxp _ => raise .notimpl          -- bool(LinCombFxp) → bool(LinComb) raises
  | .lc _ | .lcb _ => raise .notimpl

/-- `LinCombBool.__and__/__xor__/__or__(x, other)` -/
def bwBV (op : BW) (x : LinComb) (other : Val) : M Val := do
  match other with
  | .lc _ | .lcb _ => do
    let y ← ensurebool other
    match op with
    | .and => do let p ← mulLL x y; let r ← mkBool p false; pure (.lcb r)
    | .xor => do let p ← mulLL (x.mulI 2) y; let r ← mkBool ((x.add y).sub p) false; pure (.lcb r)
    | .or => do let p ← mulLL x y; let r ← mkBool ((x.add y).sub p) false; pure (.lcb r)
  | _ => do
    let c ← truthy other
    match op with
    | .and => do let r ← mkBool (x.mulI c) false; pure (.lcb r)
    | .xor => do let r ← mkBool ((x.addI c).sub ((x.mulI 2).mulI c)) false; pure (.lcb r)
    | .or => do let r ← mkBool ((x.addI c).sub (x.mulI c)) false; pure (.lcb r)

def bwLV (op : BW) (x : LinComb) (other : Val) : M Val := do
  match other with
  | .int c =>
    match op with
    | .and => do let r ← andLI x c; pure (.lc r)
    | .xor => do let r ← xorLI x c; pure (.lc r)
    | .or => do let r ← orLI x c; pure (.lc r)
  | .lc y =>
    match op with
    | .and => do let r ← andLL x y; pure (ofFB r)
    | .xor => do let r ← xorLL x y; pure (ofFB r)
    | .or => do let r ← orLL x y; pure (ofFB r)
  | .lcb y =>
    -- only `__rand__` exists on LinCombBool
    match op with
    | .and => bwBV .and y (.lc x)
    | _ => tyErr
  | _ => tyErr

def bwV (op : BW) (a b : Val) : M Val := do
  match a with
  | .lc x => bwLV op x b
  | .lcb x => bwBV op x b
  | .fxp _ =>
    match b with
    | .lc _ => tyErr          -- L.__rand__(L, X) = __and__ → NotImplemented
    | .lcb y => if op == .and then bwBV .and y a else tyErr
    | _ => tyErr
  | .int c =>
    match b with
    | .lc y => bwLV op y (.int c)
    | .lcb y => if op == .and then bwBV .and y (.int c) else tyErr
    | .fxp _ => tyErr
    | _ => raise .unmodelled
  | _ => match b with
    | .lc _ => tyErr
    | .lcb y => if op == .and then bwBV .and y a else tyErr
    | .fxp _ => tyErr
    | _ => raise .unmodelled

/-! ### comparisons -/
inductive Cmp | lt | le | eq | ne | gt | ge deriving DecidableEq, Repr

def Cmp.mirror : Cmp → Cmp
  | .lt => .gt | .le => .ge | .eq => .eq | .ne => .ne | .gt => .lt | .ge => .le

def checkPositiveV : Val → M Val
  | .lc d => do let r ← checkPositive d; pure (.lcb r)
  | .fxp d => do let r ← checkPositive d; pure (.lcb r)
  | .lcb d => do let r ← checkPositive d; pure (.lcb r)
  | _ => raise .attribute
def checkZeroV : Val → M Val
  | .lc d => do let r ← checkZero d; pure (.lcb r)
  | .fxp d => do let r ← checkZero d; pure (.lcb r)
  | .lcb d => do let r ← checkZero d; pure (.lcb r)
  | _ => raise .attribute
def checkNonzeroV : Val → M Val
  | .lc d => do let r ← checkNonzero d; pure (.lcb r)
  | .fxp d => do let r ← checkNonzero d; pure (.lcb r)
  | _ => raise .attribute       -- LinCombBool has no check_nonzero

/-- the strict comparisons: `LinComb.__lt__` / `__gt__` return `NotImplemented` for a `LinCombFxp`
operand (their `± 1` would be the fixed-point 1.0, not one unit in the last place) -/
def Cmp.strict : Cmp → Bool
  | .lt | .gt => true
  | _ => false

/-- `LinComb.__lt__(x, other)` etc. with an arbitrary right operand: the method body past the
`NotImplemented` test (`cmpV` never calls it with a strict comparison and a `LinCombFxp`) -/
def cmpLV (op : Cmp) (x : LinComb) (other : Val) : M Val := do
  match op with
  | .lt => do let d ← subV other (.lc x); let d ← subV d (.int 1); checkPositiveV d
  | .le => do let d ← subV other (.lc x); checkPositiveV d
  | .eq => do let d ← subV (.lc x) other; checkZeroV d
  | .ne => do let d ← subV (.lc x) other; checkNonzeroV d
  | .gt => do let d ← subV (.lc x) other; let d ← subV d (.int 1); checkPositiveV d
  | .ge => do let d ← subV (.lc x) other; checkPositiveV d

def cmpLL (op : Cmp) (x y : LinComb) : M LinComb :=
  match op with
  | .lt => ltLL x y | .le => leLL x y | .eq => eqLL x y
  | .ne => neLL x y | .gt => gtLL x y | .ge => geLL x y

def cmpV (op : Cmp) (a b : Val) : M Val := do
  match a with
  | .lc x =>
    match b with
    | .fxp y =>
      -- `x < y`, `x > y`: `LinComb.__lt__/__gt__` → NotImplemented → reflected
      -- `LinCombFxp.__gt__/__lt__(y, x)` = `y.lc > _ensurefxp(x).lc`
      if op.strict then do let z ← ensurefxp a; let r ← cmpLL op.mirror y z; pure (.lcb r)
      else cmpLV op x b
    | _ => cmpLV op x b
  | .lcb x => do let y ← ensurebool b; let r ← cmpLL op x y; pure (.lcb r)
  | .fxp x => do let y ← ensurefxp b; let r ← cmpLL op x y; pure (.lcb r)
  | .int _ | .flt _ _ | .none | .list _ | .tuple _ =>
    match b with
    | .lc y => cmpLV op.mirror y a
    | .lcb y => do let z ← ensurebool a; let r ← cmpLL op.mirror y z; pure (.lcb r)
    | .fxp y => do let z ← ensurefxp a; let r ← cmpLL op.mirror y z; pure (.lcb r)
    | _ => raise .unmodelled

/-! ### `if_then_else` on already evaluated branches -/
def zipWithM' (f : Val → Val → M Val) : List Val → List Val → M (List Val)
  | t :: ts, g :: gs => do
    let r ← f t g
    let rs ← zipWithM' f ts gs
    pure (r :: rs)
  | _, _ => pure []

/-- `truev is falsev` for two separately created plain values: CPython caches the ints −5…256 -/
def smallIntSame : Val → Val → Bool
  | .int a, .int b => a == b && -5 ≤ a && a ≤ 256
  | .none, .none => true
  | _, _ => false

/-- the end of `if_then_else`: `if isinstance(truev, LinCombBool) and isinstance(falsev, LinCombBool):
return LinCombBool(ret, False)`, else `return ret` — a selection between two booleans is a boolean
(`ret = falsev + cond * (truev - falsev)` is a `LinComb` for two `LinCombBool`s) -/
def iteTag (t f ret : Val) : M Val :=
  match t, f, ret with
  | .lcb _, .lcb _, .lc z => do let b ← mkBool z false; pure (.lcb b)
  | .lcb _, .lcb _, _ => raise .runtime      -- `LinCombBool(x)` on something else than a `LinComb` (does not happen: `B + L` is an `L`)
  | _, _, _ => pure ret

def iteAux (cond : LinComb) : Nat → Val → Val → M Val
  | 0, _, _ => raise .unmodelled
  | fuel+1, t, f => do
    if smallIntSame t f then pure t else
    match t with
    | .list ts =>
      match f with
      -- `if len(truev) != len(falsev): raise ValueError(…)` before anything is merged (repaired finding
      -- C09-list-length-truncated: `zip` used to drop the extra elements silently)
      | .list fs => if ts.length = fs.length then do let rs ← zipWithM' (iteAux cond fuel) ts fs; pure (.list rs) else raise .value
      | .tuple fs => if ts.length = fs.length then do let rs ← zipWithM' (iteAux cond fuel) ts fs; pure (.list rs) else raise .value
      | _ => tyErr                                   -- `len(falsev)` on a scalar
    | _ =>
      let f' ← (match t with
        | .fxp _ => do let y ← ensurefxp f; pure (Val.fxp y)
        | _ => pure f)
      let d ← subV t f'
      let prod ← mulLV cond d          -- B.__mul__: self.lc * other
      let ret ← addV f' prod
      iteTag t f' ret

/-- depth of list nesting, used as fuel -/
def Val.depth : Val → Nat
  | .list xs | .tuple xs => 1 + (xs.attach.map fun ⟨x, _⟩ => x.depth).foldl max 0
  | _ => 1

/-- `if_then_else(cond, truev, falsev)` with `same` = (`truev is falsev`) -/
def ifThenElse (cond : Val) (same : Bool) (t f : Val) : M Val := do
  if same || smallIntSame t f then pure t else
  match cond with
  | .int c => if c != 0 && c != 1 then raise .value else pure (if c != 0 then t else f)
  | .lcb c => iteAux c (t.depth + 1) t f
  | _ => raise .runtime

/-! ### unary -/
inductive Un | neg | pos | abs | invert deriving DecidableEq, Repr

def unV (op : Un) (a : Val) : M Val := do
  match op, a with
  | .neg, _ => negV a
  | .pos, .lc _ | .pos, .lcb _ | .pos, .fxp _ => pure a
  | .abs, .lc x => do let r ← absL x; pure (.lc r)
  | .abs, .lcb x => do let r ← absL x; pure (.lc r)
  | .abs, .fxp x => do
      let z ← ensurefxp (.int 0)
      let c ← geLL x z
      -- falsev + cond * (truev - falsev) on LinCombFxp: X(d.lc * cond.lc)
      let d := x.sub x.neg
      let prod ← mulLL d c
      pure (.fxp (x.neg.add prod))
  | .invert, .lc x => do let r ← invertL x; pure (ofFB r)
  | .invert, .lcb x => do let r ← boolNot x; pure (.lcb r)
  | .invert, .fxp _ => tyErr
  | _, _ => raise .unmodelled

end Pysnark
