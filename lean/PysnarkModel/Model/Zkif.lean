import PysnarkModel.Model.Snarkjs
import PysnarkModel.Model.PyInt
/-!
# Model of the zkinterface file writer (`pysnark/zkinterface/backend.py`, function `prove()`)

`prove()` writes `computation.zkif` (header, witness, constraint system) and `circuit.zkif`
(header, constraint system).  Each `write_*` call builds ONE FlatBuffers `Root` table with
`FinishSizePrefixed` and appends it to the file.  The FlatBuffers byte layout (vtables, offsets,
alignment padding, the size prefix) is the `flatbuffers` library's and is NOT modelled; the model is
the MESSAGE TREE that is handed to the builder: which message, which tables, which vectors, in
which order, with which numbers.

A field element is written as `BL` bytes `(val >> (j*8)) & 255`, `j = 0..BL-1` (little endian), of
the reduced value `val = x % modulus`; the model keeps the reduced number and the byte count `BL`
(`Vars.elemBytes`); that the number fits `BL` bytes is `C11_elements_fit`.

The trace type is shared with the snarkjs writer (`Pysnark.Snarkjs.Trace`): the two backends have
the same `pubvals` / `privvals` / `constraints` lists and the same key convention.
-/
namespace Pysnark.Zkif
open Pysnark.Snarkjs

/-- a `Variables` table: `variable_ids` (uint64 vector), `values` (a byte vector holding one
`elemBytes`-byte little-endian element per id; kept as the numbers the elements encode) -/
structure Vars where
  ids : List Nat
  values : List Nat
  elemBytes : Nat
deriving Repr, DecidableEq

/-- a `Root` message -/
inductive Msg
  /-- `CircuitHeader`: `instance_variables`, `free_variable_id`, `field_maximum` (a `BL`-byte
  little-endian number, kept as the number) -/
  | header (inst : Vars) (freeVariableId : Nat) (fieldMaximum : Nat)
  /-- `Witness`: `assigned_variables` -/
  | witness (assigned : Vars)
  /-- `ConstraintSystem`: the vector of `BilinearConstraint`s `(A, B, C)` -/
  | constraints (cs : List (Vars × Vars × Vars))
deriving Repr, DecidableEq

/-- `BL = math.ceil(modulus.bit_length()/8)` -/
def BL (p : Int) : Nat := (Py.bitLength p + 7) / 8

/-- `write_varlist(builder, vals, offset)`: ids `i+offset`, values `vals[i] % modulus` -/
def writeVarlist (p : Int) (vals : List Int) (offset : Nat) : Vars :=
  { ids := (List.range vals.length).map (· + offset)
    values := vals.map fun v => (v % p).toNat
    elemBytes := BL p }

/-- `varls[i] if varls[i]>=0 else len(pubvals)-varls[i]`, written with `PrependUint64` -/
def varIx (npub : Nat) (k : Int) : Nat := (wireIndex npub k).toNat

/-- `write_lc(lc)`: ids and coefficients in dict order -/
def writeLC (t : Trace) (l : KLC) : Vars :=
  { ids := l.map fun kc => varIx t.pubs.length kc.1
    values := l.map fun kc => (kc.2 % t.p).toNat
    elemBytes := BL t.p }

/-- `write_constraint(c)` -/
def writeConstraint (t : Trace) (c : KLC × KLC × KLC) : Vars × Vars × Vars :=
  (writeLC t c.1, writeLC t c.2.1, writeLC t c.2.2)

/-- `write_circuit(f)` -/
def writeCircuit (t : Trace) : Msg :=
  .header (writeVarlist t.p t.pubs 1) (t.pubs.length + t.privs.length + 1) (t.p - 1).toNat

/-- `write_witness(f)` -/
def writeWitness (t : Trace) : Msg :=
  .witness (writeVarlist t.p t.privs (t.pubs.length + 1))

/-- `write_constraints(f)` -/
def writeConstraints (t : Trace) : Msg :=
  .constraints (t.cons.map (writeConstraint t))

/-- `computation.zkif`, in the order of the calls in `prove()` -/
def computationFile (t : Trace) : List Msg := [writeCircuit t, writeWitness t, writeConstraints t]

/-- `circuit.zkif` -/
def circuitFile (t : Trace) : List Msg := [writeCircuit t, writeConstraints t]

/-! ## Reading the files back (what a zkinterface consumer does with the message tree) -/

def Msg.isWitness : Msg → Bool
  | .witness _ => true
  | _ => false

/-- look an id up in a `Variables` table -/
def Vars.lookup (v : Vars) (id : Nat) : Option Nat := (v.ids.zip v.values).lookup id

/-- the assignment a consumer reads from a file: id `0` is the constant one, the other ids are
looked up in the instance variables of the header(s) and the assigned variables of the witness
message(s); unassigned ids read as `0` -/
def fileAssign (msgs : List Msg) (id : Nat) : Nat :=
  if id = 0 then 1
  else
    (msgs.findSome? fun m =>
      match m with
      | .header inst _ _ => inst.lookup id
      | .witness a => a.lookup id
      | .constraints _ => none).getD 0

/-- value of a decoded linear combination on an assignment: `Σ coeff * a id` -/
def evalVars (a : Nat → Nat) (v : Vars) : Int :=
  ((v.ids.zip v.values).map fun ic => (ic.2 : Int) * (a ic.1 : Int)).sum

/-- the assignment satisfies the decoded constraint `A * B = C` modulo `p` -/
def satVars (p : Int) (a : Nat → Nat) (c : Vars × Vars × Vars) : Prop :=
  (evalVars a c.1 * evalVars a c.2.1) % p = evalVars a c.2.2 % p

instance (p : Int) (a : Nat → Nat) (c : Vars × Vars × Vars) : Decidable (satVars p a c) := by
  unfold satVars; infer_instance

end Pysnark.Zkif
