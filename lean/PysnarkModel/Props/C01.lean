import PysnarkModel.Lemmas.InvRun
import PysnarkModel.Spec.Curves
import PysnarkModel.Gen.Constants
/-!
# C01 — completeness: the recorded witness satisfies every emitted constraint

Quantifier: all programs of the instruction language (integer, boolean, fixed-point operators in
every operand-kind combination, assertions, conversions, selection on values and lists, array
access, guarded regions with either guard value, configuration changes of bitlength/resolution),
all input literals, all bitlengths/resolutions, every prime modulus — for runs that complete.
`out.st.p` is the modulus of the final state (the model has no instruction that changes it).
-/
namespace Pysnark

/-- the property at full strength: no restriction on the program beyond "the user has not switched
error checking off" (`set ign` absent) and plain literals -/
def C01_full : Prop :=
  ∀ (p : Nat), p.Prime → ∀ (bl res : Nat) (prog : List Instr),
    (∀ i ∈ prog, i.isSetIgn = false) → (∀ w, Instr.lit w ∈ prog → w.noSecret = true) →
    ∀ out, run (St.init p bl res) prog = out → out.err = none →
      ∀ c ∈ out.st.cons, Sat out.st.p out.st.assign c

/-- proved for `Fragment` (see `Spec/R1CS.lean`): guarded regions not nested, and no `/` in a
program that also has a guarded region.  Neither exclusion is a known counterexample on the
repaired tree: nested regions need the value analysis of the AND gadget that computes the
effective guard (composition missing); the `/` exclusion predates the repair of finding
C04-div-const and is kept until the repaired arm is re-proved. -/
theorem C01_partial (p : Nat) (hp : p.Prime) (bl res : Nat) (prog : List Instr) (hfrag : Fragment prog)
    (hlit : ∀ w, Instr.lit w ∈ prog → w.noSecret = true)
    (out : Out) (hout : run (St.init p bl res) prog = out) (herr : out.err = none) :
    ∀ c ∈ out.st.cons, Sat out.st.p out.st.assign c :=
  (run_inv_plain p hp bl res prog hfrag hlit out hout herr).1.sat

/-- instances for the three real fields (their primality: C13) -/
theorem C01_real_fields :
    (∀ bl res prog, Fragment prog → (∀ w, Instr.lit w ∈ prog → w.noSecret = true) →
      ∀ out, run (St.init Spec.bn254_r bl res) prog = out → out.err = none →
        ∀ c ∈ out.st.cons, Sat out.st.p out.st.assign c) ∧
    (∀ bl res prog, Fragment prog → (∀ w, Instr.lit w ∈ prog → w.noSecret = true) →
      ∀ out, run (St.init Spec.bls12_381_r bl res) prog = out → out.err = none →
        ∀ c ∈ out.st.cons, Sat out.st.p out.st.assign c) ∧
    (∀ bl res prog, Fragment prog → (∀ w, Instr.lit w ∈ prog → w.noSecret = true) →
      ∀ out, run (St.init Spec.curve25519_l bl res) prog = out → out.err = none →
        ∀ c ∈ out.st.cons, Sat out.st.p out.st.assign c) :=
  ⟨fun bl res prog hf hl out ho he => C01_partial _ Spec.bn254_r_prime bl res prog hf hl out ho he,
   fun bl res prog hf hl out ho he => C01_partial _ Spec.bls12_381_r_prime bl res prog hf hl out ho he,
   fun bl res prog hf hl out ho he => C01_partial _ Spec.curve25519_l_prime bl res prog hf hl out ho he⟩

/-- the hypothesis on literals cannot be dropped (a literal could smuggle in an incoherent object) -/
theorem C01_needs_plain_literals :
    ¬ (∀ (p : Nat) (_ : p.Prime) (bl res : Nat) (prog : List Instr) (_ : Fragment prog)
      (out : Out) (_ : run (St.init p bl res) prog = out) (_ : out.err = none),
      Inv out.st ∧ ∀ v ∈ out.regs, GoodV out.st v) := run_inv_needs_hlit

/-! non-vacuity: a 14-instruction program with a comparison, a division with remainder, a selection,
a guarded region with a false guard around an assertion that fails on the values, and a product,
is in the fragment and completes over p = 97 -/
def exProg01 : List Instr :=
  [.lit (.int 5), .mk .priv 0, .lit (.int 3), .mk .pub 2, .bin .lt 1 3, .bin .floordiv 1 3, .ite 4 1 3,
   .lit (.int 0), .mk .priv 7, .genter 8, .call .assertLt 1 [3], .gleave, .bin .mul 6 5, .call .val 12 []]

example : Fragment exProg01 ∧ (∀ w, Instr.lit w ∈ exProg01 → w.noSecret = true) ∧
    (run (St.init 97 8 8) exProg01).err = none ∧ (run (St.init 97 8 8) exProg01).st.cons.length = 51 := by
  refine ⟨⟨by decide, by decide, fun _ => by decide⟩, ?_, by decide +kernel, by decide +kernel⟩
  intro w hw
  simp only [exProg01, List.mem_cons, Instr.lit.injEq, List.mem_nil_iff, or_false, reduceCtorEq, false_or, or_false] at hw
  rcases hw with rfl | rfl | rfl <;> simp [Val.noSecret]

end Pysnark
