import PysnarkModel.Lemmas.InvRun
import PysnarkModel.Spec.Curves
import PysnarkModel.Gen.Constants
/-!
# C01 — completeness: the recorded witness satisfies every emitted constraint

Quantifier: all programs of the instruction language (integer, boolean, fixed-point operators in
every operand-kind combination, assertions, conversions, selection on values and lists, array
access, guarded regions with either guard value NESTED TO ANY DEPTH, `/` in every position,
configuration changes of bitlength/resolution), all input literals, all bitlengths/resolutions,
every prime modulus.  `out.st.p` is the modulus of the final state (the model has no instruction
that changes it).
-/
namespace Pysnark

/-- the property at full strength: no restriction on the program beyond "the user has not switched
error checking off" (`set ign` absent) and plain literals -/
def C01_full : Prop :=
  ∀ (p : Nat), p.Prime → ∀ (bl res : Nat) (prog : List Instr),
    (∀ i ∈ prog, i.isSetIgn = false) → (∀ w, Instr.lit w ∈ prog → w.noSecret = true) →
    ∀ out, run (St.init p bl res) prog = out → out.err = none →
      ∀ c ∈ out.st.cons, Sat out.st.p out.st.assign c

/-- **C01 at full strength.**  Nothing is excluded: the effective guard of a nested region
(`outer & inner`, computed by the bitwise-AND gadget under the outer guard) is analysed in
`addGuardCore_inv`, both arms of `LinComb / int` in `truedivLI_inv`. -/
theorem C01 : C01_full := fun p hp bl res prog hset hlit out hout herr =>
  (run_inv_plain_full p hp bl res prog hset hlit out hout herr).1.sat

/-- Stronger than the property asks: also when the run RAISES, every constraint recorded up to the
failing instruction is satisfied (the state reported for a failing run is the state before the
failing instruction with the `guarded` frames unwound). -/
theorem C01_any (p : Nat) (hp : p.Prime) (bl res : Nat) (prog : List Instr)
    (hset : ∀ i ∈ prog, i.isSetIgn = false) (hlit : ∀ w, Instr.lit w ∈ prog → w.noSecret = true) :
    ∀ c ∈ (run (St.init p bl res) prog).st.cons,
      Sat (run (St.init p bl res) prog).st.p (run (St.init p bl res) prog).st.assign c :=
  (run_inv_plain_any p hp bl res prog hset hlit).1.sat

/-- the first form of the theorem (for `Fragment`, see `Spec/R1CS.lean`), now a corollary -/
theorem C01_partial (p : Nat) (hp : p.Prime) (bl res : Nat) (prog : List Instr) (hfrag : Fragment prog)
    (hlit : ∀ w, Instr.lit w ∈ prog → w.noSecret = true)
    (out : Out) (hout : run (St.init p bl res) prog = out) (herr : out.err = none) :
    ∀ c ∈ out.st.cons, Sat out.st.p out.st.assign c :=
  C01 p hp bl res prog hfrag.1 hlit out hout herr

/-- instances for the three real fields (their primality: C13) -/
theorem C01_real_fields :
    (∀ bl res prog, NoSetIgn prog → (∀ w, Instr.lit w ∈ prog → w.noSecret = true) →
      ∀ out, run (St.init Spec.bn254_r bl res) prog = out → out.err = none →
        ∀ c ∈ out.st.cons, Sat out.st.p out.st.assign c) ∧
    (∀ bl res prog, NoSetIgn prog → (∀ w, Instr.lit w ∈ prog → w.noSecret = true) →
      ∀ out, run (St.init Spec.bls12_381_r bl res) prog = out → out.err = none →
        ∀ c ∈ out.st.cons, Sat out.st.p out.st.assign c) ∧
    (∀ bl res prog, NoSetIgn prog → (∀ w, Instr.lit w ∈ prog → w.noSecret = true) →
      ∀ out, run (St.init Spec.curve25519_l bl res) prog = out → out.err = none →
        ∀ c ∈ out.st.cons, Sat out.st.p out.st.assign c) :=
  ⟨fun bl res prog hf hl out ho he => C01 _ Spec.bn254_r_prime bl res prog hf hl out ho he,
   fun bl res prog hf hl out ho he => C01 _ Spec.bls12_381_r_prime bl res prog hf hl out ho he,
   fun bl res prog hf hl out ho he => C01 _ Spec.curve25519_l_prime bl res prog hf hl out ho he⟩

/-- the hypothesis on literals cannot be dropped (a literal could smuggle in an incoherent object) -/
theorem C01_needs_plain_literals :
    ¬ (∀ (p : Nat) (_ : p.Prime) (bl res : Nat) (prog : List Instr) (_ : Fragment prog)
      (out : Out) (_ : run (St.init p bl res) prog = out) (_ : out.err = none),
      Inv out.st ∧ ∀ v ∈ out.regs, GoodV out.st v) := run_inv_needs_hlit

/-- the hypothesis "no `set ign`" cannot be dropped: with error checking switched off by the user
an assertion that fails on the values records an unsatisfied constraint (that is the documented
meaning of the mode, not a defect) -/
theorem C01_needs_no_set_ign :
    ∃ c ∈ (run (St.init 97 8 8) [.setIgn true, .lit (.int 5), .mk .priv 1, .call .assertZero 2 []]).st.cons,
      ¬ Sat 97 (run (St.init 97 8 8) [.setIgn true, .lit (.int 5), .mk .priv 1, .call .assertZero 2 []]).st.assign c := by
  refine ⟨([], [], [(Wire.priv 0, 1)]), by kdec, ?_⟩
  unfold Sat
  kdec

/-! non-vacuity: a 14-instruction program with a comparison, a division with remainder, a selection,
a guarded region with a false guard around an assertion that fails on the values, and a product,
is in the fragment and completes over p = 97 -/
def exProg01 : List Instr :=
  [.lit (.int 5), .mk .priv 0, .lit (.int 3), .mk .pub 2, .bin .lt 1 3, .bin .floordiv 1 3, .ite 4 1 3,
   .lit (.int 0), .mk .priv 7, .genter 8, .call .assertLt 1 [3], .gleave, .bin .mul 6 5, .call .val 12 []]

example : Fragment exProg01 ∧ (∀ w, Instr.lit w ∈ exProg01 → w.noSecret = true) ∧
    (run (St.init 97 8 8) exProg01).err = none ∧ (run (St.init 97 8 8) exProg01).st.cons.length = 51 := by
  refine ⟨⟨by decide, by decide, fun _ => by decide⟩, ?_, by decide +kernel, by decide +kernel⟩
  intro w hw
  simp only [exProg01, List.mem_cons, Instr.lit.injEq, List.mem_nil_iff, or_false, reduceCtorEq, false_or, or_false] at hw
  rcases hw with rfl | rfl | rfl <;> simp [Val.noSecret]

/-! non-vacuity for nesting: a region nested two deep — outer guard 1, inner guard 0 (so the
effective inner guard is `1 & 0 = 0`, computed by the AND gadget under the outer guard) — whose
inner body divides 7 by 2 (not a multiple: the error-suppressed arm of `LinComb / int`) and by a
`LinComb`, asserts something false, and whose outer body divides exactly and then fails nowhere.
Outside `Fragment` (nested, `/` next to a region), inside C01's hypotheses; completes over p = 97
with 71 constraints; register 9 (`7 / 2` under the false inner guard) holds value 52 = 7·2⁻¹ mod 97
with wire expression 49·x (49 = 2⁻¹ mod 97): coherent, as C04 says. -/
def exProg01n : List Instr :=
  [.lit (.int 7), .mk .priv 0, .lit (.int 1), .mk .privb 2, .lit (.int 0), .mk .privb 4,
   .genter 3, .genter 5, .lit (.int 2), .bin .truediv 1 8, .mk .priv 8, .bin .truediv 1 10,
   .call .assertLt 1 [10], .gleave, .bin .truediv 1 1, .call .assertEq 14 [2], .gleave,
   .bin .add 9 11, .call .val 14 []]

example : ¬ Fragment exProg01n ∧ NoSetIgn exProg01n ∧ (∀ w, Instr.lit w ∈ exProg01n → w.noSecret = true) ∧
    (run (St.init 97 8 8) exProg01n).err = none ∧ (run (St.init 97 8 8) exProg01n).st.cons.length = 71 ∧
    (match (run (St.init 97 8 8) exProg01n).regs[9]? with
      | some (Val.lc x) => x == ⟨52, [(Wire.priv 0, 49)]⟩
      | _ => false) = true := by
  refine ⟨fun h => by have := h.2.1; revert this; decide, by unfold NoSetIgn; decide, ?_,
    by kdec, by kdec, by kdec⟩
  intro w hw
  simp only [exProg01n, List.mem_cons, Instr.lit.injEq, List.mem_nil_iff, or_false, reduceCtorEq, false_or, or_false] at hw
  rcases hw with rfl | rfl | rfl | rfl <;> simp [Val.noSecret]

end Pysnark
