import PysnarkModel.Lemmas.Sound
import PysnarkModel.Lemmas.SoundRun
/-!
# C02 — soundness: the emitted constraints determine every result uniquely from its operands

Quantifier of every theorem below: ALL assignments `w` to ALL wires (the adversarial prover is not
restricted to the auxiliary wires), all operand values, all widths/bitlengths, every prime `p`
(with the size side condition `2^(n+1) ≤ p` only where uniqueness of a range representative is
needed).  `ev p w l` is the wire expression `l` evaluated under `w` in `ZMod p`; `NewSat s s' w`
says that the constraints the operation appended hold under `w`.
Unguarded states (`s.guard = none`); soundness *under a guard of value 1* reduces to these by
eliminating the dummy wire (`1·dummy = 0`) and is not proved here (C07).

Findings (closed counterexamples below): `//`, `%`, `divmod` never range-check the quotient
(C02-divmod-quotient); `&`, `|`, `^` with a public int return an unconstrained fresh witness
(C02-bitwise-const).
-/
namespace Pysnark
variable {p : ℕ} [Fact p.Prime] {s s' : St} {w w' : Wire → Int}

/-- `x * y`: the result wire is forced to the product -/
theorem C02_mul {x y r : LinComb} (hp : s.p = p) (h : mulLL x y s = .ok (r, s')) (hw : NewSat s s' w) :
    ev p w r.lc = ev p w x.lc * ev p w y.lc := mulLL_sound hp h hw

/-- results typed boolean are forced to 0 or 1 (construction with the booleanity constraint) -/
theorem C02_boolean {v : Int} {r : LinComb} (hp : s.p = p) (hg : s.guard = none)
    (h : privValBool v s = .ok (r, s')) (h1 : w .one = 1) (hw : NewSat s s' w) :
    ev p w r.lc = 0 ∨ ev p w r.lc = 1 := privValBool_sound hp hg h h1 hw

/-- `==` / zero test: the result is the indicator of `x = 0` in the field -/
theorem C02_checkZero {x r : LinComb} (hp : s.p = p) (h : checkZero x s = .ok (r, s'))
    (h1 : w .one = 1) (hw : NewSat s s' w) : ev p w r.lc = if ev p w x.lc = 0 then 1 else 0 :=
  checkZero_sound hp h h1 hw

theorem C02_eq {a b r : LinComb} (hp : s.p = p) (ha : a.lc.WF) (hb : b.lc.WF)
    (h : eqLL a b s = .ok (r, s')) (h1 : w .one = 1) (hw : NewSat s s' w) :
    ev p w r.lc = if ev p w a.lc = ev p w b.lc then 1 else 0 := eqLL_sound hp ha hb h h1 hw

theorem C02_ne {a b r : LinComb} (hp : s.p = p) (ha : a.lc.WF) (hb : b.lc.WF)
    (h : neLL a b s = .ok (r, s')) (h1 : w .one = 1) (hw : NewSat s s' w) :
    ev p w r.lc = if ev p w a.lc = ev p w b.lc then 0 else 1 := neLL_sound hp ha hb h h1 hw

/-- sign/range gadget (width `n`): the result is 0/1; 1 forces `x ∈ [0,2^n)`, 0 forces
`x ∈ [-2^n,-1]`; with `2^(n+1) ≤ p` these are exclusive, so the outcome is a function of `x` -/
theorem C02_checkPositive {x r : LinComb} {bits : Option Nat} (hp : s.p = p)
    (hn : 2 ^ (bits.getD s.bitlength + 1) ≤ p) (hg : s.guard = none) (hx : x.lc.WF)
    (h : checkPositive x bits s = .ok (r, s')) (h1 : w .one = 1) (hw : NewSat s s' w) :
    (ev p w r.lc = 1 ↔ InRange p (bits.getD s.bitlength) (ev p w x.lc)) ∧
    (ev p w r.lc = 0 ↔ InNegRange p (bits.getD s.bitlength) (ev p w x.lc)) :=
  checkPositive_iff hp hn hg hx h h1 hw

/-- a prover cannot obtain a different comparison outcome: two satisfying assignments that agree
on the operand agree on the result -/
theorem C02_checkPositive_determined {x r : LinComb} {bits : Option Nat} (hp : s.p = p)
    (hn : 2 ^ (bits.getD s.bitlength + 1) ≤ p) (hg : s.guard = none) (hx : x.lc.WF)
    (h : checkPositive x bits s = .ok (r, s')) (h1 : w .one = 1) (h1' : w' .one = 1)
    (hw : NewSat s s' w) (hw' : NewSat s s' w') (hxx : ev p w x.lc = ev p w' x.lc) :
    ev p w r.lc = ev p w' r.lc := checkPositive_determined hp hn hg hx h h1 h1' hw hw' hxx

/-- `a < b` (and likewise `<=`, `>`, `>=` below): outcome 1 forces `b-a-1 ∈ [0,2^n)`, outcome 0
forces `b-a-1 ∈ [-2^n,-1]`, `n` the bitlength -/
theorem C02_lt {a b r : LinComb} (hp : s.p = p) (hg : s.guard = none) (ha : a.lc.WF) (hb : b.lc.WF)
    (h : ltLL a b s = .ok (r, s')) (h1 : w .one = 1) (hw : NewSat s s' w) :
    CPSpec p s.bitlength (ev p w r.lc) (ev p w b.lc - ev p w a.lc - 1) := ltLL_sound hp hg ha hb h h1 hw
theorem C02_le {a b r : LinComb} (hp : s.p = p) (hg : s.guard = none) (ha : a.lc.WF) (hb : b.lc.WF)
    (h : leLL a b s = .ok (r, s')) (h1 : w .one = 1) (hw : NewSat s s' w) :
    CPSpec p s.bitlength (ev p w r.lc) (ev p w b.lc - ev p w a.lc) := leLL_sound hp hg ha hb h h1 hw
theorem C02_gt {a b r : LinComb} (hp : s.p = p) (hg : s.guard = none) (ha : a.lc.WF) (hb : b.lc.WF)
    (h : gtLL a b s = .ok (r, s')) (h1 : w .one = 1) (hw : NewSat s s' w) :
    CPSpec p s.bitlength (ev p w r.lc) (ev p w a.lc - ev p w b.lc - 1) := gtLL_sound hp hg ha hb h h1 hw
theorem C02_ge {a b r : LinComb} (hp : s.p = p) (hg : s.guard = none) (ha : a.lc.WF) (hb : b.lc.WF)
    (h : geLL a b s = .ok (r, s')) (h1 : w .one = 1) (hw : NewSat s s' w) :
    CPSpec p s.bitlength (ev p w r.lc) (ev p w a.lc - ev p w b.lc) := geLL_sound hp hg ha hb h h1 hw

/-- bit decomposition: every bit is 0/1, the operand is the natural they spell, and with
`2^n ≤ p` each bit is a function of the operand -/
theorem C02_bits_determined {x : LinComb} {bits : Option Nat} {bs : List LinComb} (hp : s.p = p)
    (hn : 2 ^ (bits.getD s.bitlength) ≤ p) (hg : s.guard = none) (hx : x.lc.WF)
    (h : toBits x bits s = .ok (bs, s')) (h1 : w .one = 1) (h1' : w' .one = 1)
    (hw : NewSat s s' w) (hw' : NewSat s s' w') (hxx : ev p w x.lc = ev p w' x.lc) :
    ∀ (i : Nat) (hi : i < bs.length), ev p w bs[i].lc = ev p w' bs[i].lc :=
  toBits_determined hp hn hg hx h h1 h1' hw hw' hxx

/-- selection: `if_then_else(c, t, f) = f + c (t - f)` -/
theorem C02_select {c t f r : LinComb} (hp : s.p = p) (ht : t.lc.WF) (hf : f.lc.WF)
    (h : iteLLL c t f s = .ok (r, s')) (hw : NewSat s s' w) :
    ev p w r.lc = ev p w f.lc + ev p w c.lc * (ev p w t.lc - ev p w f.lc) := iteLLL_sound hp ht hf h hw

/-- exact division `a / b`: the quotient is determined whenever the divisor is non-zero -/
theorem C02_truediv {a b r : LinComb} (hp : s.p = p) (hg : s.guard = none)
    (h : truedivLL a b s = .ok (r, s')) (hw : NewSat s s' w) (hb : ev p w b.lc ≠ 0) :
    ev p w r.lc = ev p w a.lc / ev p w b.lc := truedivLL_determined hp hg h hw hb

/-- bitwise `&` of two secrets (likewise `|`, `^`): both operands forced into `[0,2^n)`, result the
bitwise operation of their representatives -/
theorem C02_and {a b : LinComb} {r : Option LinComb} (hp : s.p = p) (hg : s.guard = none)
    (ha : a.lc.WF) (hb : b.lc.WF) (h : andLL a b s = .ok (r, s')) (h1 : w .one = 1) (hw : NewSat s s' w) :
    ∃ Sa Sb : ℕ, Sa < 2 ^ s.bitlength ∧ Sb < 2 ^ s.bitlength ∧ ev p w a.lc = (Sa : ZMod p) ∧
      ev p w b.lc = (Sb : ZMod p) ∧ evFB p w r = ((Sa &&& Sb : ℕ) : ZMod p) := andLL_sound hp hg ha hb h h1 hw
theorem C02_or {a b : LinComb} {r : Option LinComb} (hp : s.p = p) (hg : s.guard = none)
    (ha : a.lc.WF) (hb : b.lc.WF) (h : orLL a b s = .ok (r, s')) (h1 : w .one = 1) (hw : NewSat s s' w) :
    ∃ Sa Sb : ℕ, Sa < 2 ^ s.bitlength ∧ Sb < 2 ^ s.bitlength ∧ ev p w a.lc = (Sa : ZMod p) ∧
      ev p w b.lc = (Sb : ZMod p) ∧ evFB p w r = ((Sa ||| Sb : ℕ) : ZMod p) := orLL_sound hp hg ha hb h h1 hw
theorem C02_xor {a b : LinComb} {r : Option LinComb} (hp : s.p = p) (hg : s.guard = none)
    (ha : a.lc.WF) (hb : b.lc.WF) (h : xorLL a b s = .ok (r, s')) (h1 : w .one = 1) (hw : NewSat s s' w) :
    ∃ Sa Sb : ℕ, Sa < 2 ^ s.bitlength ∧ Sb < 2 ^ s.bitlength ∧ ev p w a.lc = (Sa : ZMod p) ∧
      ev p w b.lc = (Sb : ZMod p) ∧ evFB p w r = ((Sa ^^^ Sb : ℕ) : ZMod p) := xorLL_sound hp hg ha hb h h1 hw

/-- `abs`: the operand is forced into the signed range and the result is its absolute value -/
theorem C02_abs {a r : LinComb} (hp : s.p = p) (hg : s.guard = none) (ha : a.lc.WF)
    (h : absL a s = .ok (r, s')) (h1 : w .one = 1) (hw : NewSat s s' w) :
    (InRange p s.bitlength (ev p w a.lc) ∧ ev p w r.lc = ev p w a.lc) ∨
    (InNegRange p s.bitlength (ev p w a.lc) ∧ ev p w r.lc = - ev p w a.lc) := absL_sound hp hg ha h h1 hw

/-! ## what is NOT determined on the pinned tree (the full statement is false) -/

/-- what `divmod` does enforce: `quo·d = a − rem`, `0 ≤ rem`, `rem < d` — nothing bounds `quo` -/
theorem C02_divmod_partial {a d quo rem : LinComb} (hp : s.p = p) (hg : s.guard = none)
    (ha : a.lc.WF) (hd : d.lc.WF) (h : divmodLL a d s = .ok ((quo, rem), s'))
    (h1 : w .one = 1) (hw : NewSat s s' w) :
    ev p w quo.lc * ev p w d.lc = ev p w a.lc - ev p w rem.lc ∧
    InRange p s.bitlength (ev p w d.lc - ev p w rem.lc - 1) ∧ InRange p s.bitlength (ev p w rem.lc) :=
  divmodLL_partial hp hg ha hd h h1 hw

/-- finding C02-divmod-quotient, closed counterexample checked by the kernel: for `7 // 2` over
p = 97 the emitted constraints are satisfied by the honest witness (quotient 3, remainder 1) and
by another one with the same operand (quotient 52 = 7·2⁻¹, remainder 0) -/
theorem C02_cex_divmod_quotient :
    ∃ (a quo rem : LinComb) (s0 s1 : St),
      privVal 7 (St.init 97 4 8) = .ok (a, s0) ∧
      divmodLL a (LinComb.const 2) s0 = .ok ((quo, rem), s1) ∧
      ∃ w w' : Wire → Int, w = s1.assign ∧ w .one = 1 ∧ w' .one = 1 ∧
        NewSat s0 s1 w ∧ NewSat s0 s1 w' ∧ LC.eval w a.lc = LC.eval w' a.lc ∧
        ¬ EqMod 97 (LC.eval w quo.lc) (LC.eval w' quo.lc) ∧
        ¬ EqMod 97 (LC.eval w rem.lc) (LC.eval w' rem.lc) := divmod_not_determined

/-- finding C02-bitwise-const: `x & c` for a public int `c` emits no constraint at all; its result
is a fresh wire that any assignment may set to ANY value while the operand keeps its value -/
theorem C02_cex_bitwise_const {a r : LinComb} {c : Int} {s s' : St}
    (h : andLI a c s = .ok (r, s')) (hs : Scoped s a.lc) :
    newCons s s' = [] ∧ r.lc = [(Wire.priv s.priv.length, 1)] ∧
    ∀ (w : Wire → Int) (v : Int), ∃ w' : Wire → Int,
      (∀ k, k ≠ Wire.priv s.priv.length → w' k = w k) ∧ NewSat s s' w' ∧
      LC.eval w' a.lc = LC.eval w a.lc ∧ LC.eval w' r.lc = v := andLI_unconstrained h hs

/-! non-vacuity: the hypotheses are met by concrete runs (a comparison at bitlength 4 over the
bn128-sized condition `2^5 ≤ 97`; the recorded witness satisfies the new constraints) -/
example : (match ltLL ⟨3, [(.priv 0, 1)]⟩ ⟨5, [(.priv 1, 1)]⟩ ({ St.init 97 4 8 with priv := [3, 5] }) with
    | .ok (r, s') => r.value == 1 && s'.cons.length == 6
    | .error _ => false) = true ∧ (2 : ℕ) ^ (4 + 1) ≤ 97 := by
  refine ⟨by decide +kernel, by decide⟩

/-! ## program level: the constraints of a whole run determine every register

`SoundFragment s0 prog` (`Spec/SoundProg.lean`, decidable): no executed instruction of the run is
excluded by the table `Instr.excl`.  Excluded, with the reason (`Excl`):
* `guardRegion` — `guarded` regions (soundness under a guard: not yet composed, C07);
* `ignoreErrors` — `set ign` (the property is about runs with error checking on);
* `secretLiteral` — a literal containing a `LinComb` (not an API value);
* `divmodQuotient` — `//`, `%`, `divmod` (UNSOUND, finding C02-divmod-quotient);
* `fxpRescale` — fixed-point `*` by a float/fixed-point, every fixed-point `/`, fixed-point `**n`
  for `n ≥ 2` (they rescale through `//`: same finding);
* `secretShift` — `x >> secret` (is `x // 2**secret`: same finding);
* `bitwiseConst` — `&`, `|`, `^` between a `LinComb` and a public int (UNSOUND, finding
  C02-bitwise-const);
* `zeroDivisorModP` — `a / b` for a secret `b` whose integer value is a NONZERO MULTIPLE of `p`
  (UNSOUND, finding C02-truediv-zero-mod-p, counterexample below);
* `widthTooLarge` — an explicit width `n` (`to_bits(n)`, `check_positive(n)`, `set bitlength n`)
  with `2^(n+1) > p`.
Everything else is inside: `+ - * /` (exact division by a public int or by a secret), `**` by a
public int or a secret, `<<`, `>>` by a public int, `& | ^` on secrets and booleans, all six
comparisons in every operand-kind combination, `abs`, `~`, unary minus, selection (also on lists),
`check_*`, `to_bits`, `from_bits`, `val`, every assertion method, the constructors, boolean /
fixed-point wrapping, lists, indexing, arrays with plain and secret indices, `set bitlength/resolution`.

`inputWires s0 prog`: the wires allocated directly by the constructor instructions (`PrivVal(v)`,
`PubVal(v)`, `PrivValBool(v)`, …).  EVERY other wire (all auxiliary wires of all gadgets, also those
that are NOT determined, e.g. the inverse witness of a zero test on 0) belongs to the prover. -/

/-- **C02, program level.**  For every prime `p`, bit length with `2^(bl+1) ≤ p`, every program
whose run from the initial state completes and stays in the fragment, and EVERY assignment `w'`
(to all wires) that has the constant wire at 1, agrees modulo `p` with the recorded assignment on
the input wires, and satisfies every emitted constraint modulo `p`: every secret in every register
(also inside lists) evaluates under `w'` to the same field element as under the recorded assignment
(`DetV`), namely to its Python-level value (`ValV`); secrets typed boolean evaluate to 0 or 1.
The witness-dependent auxiliary wires cannot change any result. -/
theorem C02_determined (p : ℕ) [Fact p.Prime] (bl res : ℕ) (hbl : 2 ^ (bl + 1) ≤ p)
    (prog : List Instr) (hfrag : SoundFragment (St.init p bl res) prog)
    (out : Out) (hout : run (St.init p bl res) prog = out) (herr : out.err = none)
    (w' : Wire → Int) (h1 : w' .one = 1)
    (hin : ∀ k ∈ inputWires (St.init p bl res) prog, EqMod (p : Int) (w' k) (out.st.assign k))
    (hsat : ∀ c ∈ out.st.cons, Sat (p : Int) w' c) :
    ∀ v ∈ out.regs, DetV (p : Int) w' out.st.assign v ∧ ValV (p : Int) w' v := by
  obtain ⟨-, hpF, hregs⟩ := run_determined p bl res hbl prog hfrag out hout herr w' h1 hin hsat
  intro v hv
  exact ⟨DetV_of_DV (W := ⟨p, w', out.st⟩) v (hregs v hv),
    ValV_of_DV (W := ⟨p, w', out.st⟩) hpF v (hregs v hv)⟩

/-! ### finding C02-truediv-zero-mod-p (new): why `zeroDivisorModP` is excluded

`a / b` for a secret `b` checks `b.value != 0` on the Python integer and emits `b·r = a`.  When
the integer `b.value` is a nonzero multiple of `p` (e.g. `PrivVal(p-1) + 1`) the check passes, `b`
is 0 in the field, and for `a ≡ 0` the quotient wire `r` is free.  Instance over `p = 97`:
`PrivVal(0) / (PrivVal(96) + 1)`; honest quotient 0, and the single emitted constraint is also
satisfied with quotient 5 (inputs unchanged). -/
def c02DivProg : List Instr :=
  [.lit (.int 0), .lit (.int 96), .mk .priv 0, .mk .priv 1, .lit (.int 1), .bin .add 3 4, .bin .truediv 2 5]

/-- closed counterexample, by kernel evaluation of the model: the run completes; the fragment test
rejects exactly instruction 6 with reason `zeroDivisorModP`; the input wires are the two `PrivVal`s;
the recorded private assignment is `[0, 96, 0]`; both it and `[0, 96, 5]` satisfy every emitted
constraint modulo 97 and agree on the input wires; the result register evaluates to 0 resp. 5 -/
theorem C02_cex_truediv_zero_mod_p :
    (let out := run (St.init 97 4 8) c02DivProg
     out.err.isNone && (firstExcl c02DivProg 0 [] [] (St.init 97 4 8) == some (6, Excl.zeroDivisorModP)) &&
     (inputWires (St.init 97 4 8) c02DivProg == [Wire.priv 0, Wire.priv 1]) &&
     (out.st.pub == []) && (out.st.priv == [0, 96, 0]) && (out.st.cons.length == 1) &&
     out.st.cons.all (satB 97 (ofList [0, 96, 0])) && out.st.cons.all (satB 97 (ofList [0, 96, 5])) &&
     (match (out.regs[6]? : Option Val) with
      | some (Val.lc x) => (LC.eval (ofList [0, 96, 0]) x.lc % 97 == 0) && (LC.eval (ofList [0, 96, 5]) x.lc % 97 == 5)
      | _ => false)) = true := by
  first | decide +kernel | fail "C02_cex_truediv_zero_mod_p: kernel evaluation failed"

/-! ### non-vacuity of `C02_determined`: a 14-instruction program of the fragment (two inputs, a
product, two comparisons, a selection, an exact division by a secret, an equality test, a boolean
AND, two assertions), run over `p = 97` at bit length 4 -/
def c02Prog : List Instr :=
  [.lit (.int 6), .lit (.int 3), .mk .priv 0, .mk .priv 1,   -- a = PrivVal(6), b = PrivVal(3)
   .bin .mul 2 3,                                            -- a * b
   .bin .lt 3 2, .bin .ge 2 3,                               -- b < a, a >= b
   .ite 5 2 3,                                               -- if_then_else(b < a, a, b)
   .bin .truediv 2 3,                                        -- a / b
   .call .assertLt 3 [2],                                    -- b.assert_lt(a)
   .lit (.int 2), .bin .eq 8 10,                             -- a / b == 2
   .bin .band 5 6,                                           -- (b < a) & (a >= b)
   .call .assertEq 8 [10]]                                   -- (a / b).assert_eq(2)

/-- the hypotheses of `C02_determined` are met: the size condition holds, the run completes inside
the fragment, it has two input wires, 24 constraints, and the recorded assignment is one
assignment `w'` satisfying them (so the theorem applies to every other one) -/
example :
    (2 : ℕ) ^ (4 + 1) ≤ 97 ∧ SoundFragment (St.init 97 4 8) c02Prog ∧
    (let out := run (St.init 97 4 8) c02Prog
     out.err.isNone && (out.regs.length == 14) &&
     (inputWires (St.init 97 4 8) c02Prog == [Wire.priv 0, Wire.priv 1]) &&
     (out.st.cons.length == 24) && out.st.cons.all (satB 97 out.st.assign)) = true := by
  refine ⟨by decide, ?_, ?_⟩
  · first | decide +kernel | fail "c02Prog is not in the fragment"
  · first | decide +kernel | fail "c02Prog: run check failed"

/-- the quantifier is not vacuous beyond the recorded witness: the assignment that differs from the
recorded one on private wire 20 (the inverse witness of the zero test in `a / b == 2`, free because
the tested difference is 0) has the constant wire at 1, agrees on the two input wires and satisfies
all 24 constraints — `C02_determined` applies to it (and says the registers are unaffected) -/
example :
    (let out := run (St.init 97 4 8) c02Prog
     let w' := ofList [6, 3, 18, 1, 0, 1, 0, 0, 1, 1, 1, 0, 0, 3, 2, 0, 1, 0, 0, 1, 77, 1]
     (out.st.priv == [6, 3, 18, 1, 0, 1, 0, 0, 1, 1, 1, 0, 0, 3, 2, 0, 1, 0, 0, 1, 1, 1]) &&
     (w' Wire.one == 1) && (w' (Wire.priv 0) == out.st.assign (Wire.priv 0)) &&
     (w' (Wire.priv 1) == out.st.assign (Wire.priv 1)) &&
     ((w' (Wire.priv 20) - out.st.assign (Wire.priv 20)) % 97 != 0) &&
     out.st.cons.all (satB 97 w')) = true := by
  first | decide +kernel | fail "c02Prog: alternative assignment check failed"

end Pysnark
