import PysnarkModel.Lemmas.Sound
import PysnarkModel.Lemmas.InvGadgets
import PysnarkModel.Lemmas.SoundClaims
/-!
# C03 — assertions and declared types are enforced inside the circuit

For each assertion / declaration:
* `…_unsat`: ANY assignment satisfying the emitted constraints has operand evaluations for which
  the asserted relation holds (as a range statement in the field) — so the constraints are
  unsatisfiable whenever it is false, for every auxiliary witness choice;
* `C03_sat`: when the call is accepted (returns) with error checking on, the recorded witness
  satisfies what was emitted (instance of the invariant, C01);
* `…_runtime`: the relation the run-time check applies.

Two findings of the pinned tree were repaired by `fix:` commits and the model follows the repaired
code: `assert_positive(bits=n)` enforced the GLOBAL bitlength in-circuit while the run-time check
used `n` (C03-assert-positive-width); `assert_range(lo, hi)` rejected `value = hi` at run time but
accepted it in-circuit (C03-assert-range-upper).  Their former counterexamples are kept below as
regression witnesses with the opposite outcome.
-/
namespace Pysnark
variable {p : ℕ} [Fact p.Prime] {s s' : St} {w : Wire → Int} {u : Unit}

theorem C03_assertZero_unsat {x : LinComb} (hp : s.p = p) (hg : s.guard = none)
    (h : assertZero x s = .ok (u, s')) (hw : NewSat s s' w) : ev p w x.lc = 0 := assertZero_sound hp hg h hw

theorem C03_assertNonzero_unsat {x : LinComb} (hp : s.p = p) (hg : s.guard = none) (hone : s.one = oneSafe)
    (h : assertNonzero x s = .ok (u, s')) (h1 : w .one = 1) (hw : NewSat s s' w) : ev p w x.lc ≠ 0 :=
  assertNonzero_sound hp hg hone h h1 hw

theorem C03_assertEq_unsat {a b : LinComb} (hp : s.p = p) (hg : s.guard = none) (ha : a.lc.WF) (hb : b.lc.WF)
    (h : assertEq a b s = .ok (u, s')) (hw : NewSat s s' w) : ev p w a.lc = ev p w b.lc :=
  assertEq_sound hp hg ha hb h hw

theorem C03_assertNe_unsat {a b : LinComb} (hp : s.p = p) (hg : s.guard = none) (hone : s.one = oneSafe)
    (ha : a.lc.WF) (hb : b.lc.WF) (h : assertNe a b s = .ok (u, s')) (h1 : w .one = 1) (hw : NewSat s s' w) :
    ev p w a.lc ≠ ev p w b.lc := assertNe_sound hp hg hone ha hb h h1 hw

/-- `assert_lt`: satisfiable only if `b − a − 1 ∈ [0, 2^bitlength)`; likewise `le`, `gt`, `ge` -/
theorem C03_assertLt_unsat {a b : LinComb} (hp : s.p = p) (hg : s.guard = none) (ha : a.lc.WF) (hb : b.lc.WF)
    (h : assertLt a b s = .ok (u, s')) (h1 : w .one = 1) (hw : NewSat s s' w) :
    InRange p s.bitlength (ev p w b.lc - ev p w a.lc - 1) := assertLt_sound hp hg ha hb h h1 hw
theorem C03_assertLe_unsat {a b : LinComb} (hp : s.p = p) (hg : s.guard = none) (ha : a.lc.WF) (hb : b.lc.WF)
    (h : assertLe a b s = .ok (u, s')) (h1 : w .one = 1) (hw : NewSat s s' w) :
    InRange p s.bitlength (ev p w b.lc - ev p w a.lc) := assertLe_sound hp hg ha hb h h1 hw
theorem C03_assertGt_unsat {a b : LinComb} (hp : s.p = p) (hg : s.guard = none) (ha : a.lc.WF) (hb : b.lc.WF)
    (h : assertGt a b s = .ok (u, s')) (h1 : w .one = 1) (hw : NewSat s s' w) :
    InRange p s.bitlength (ev p w a.lc - ev p w b.lc - 1) := assertGt_sound hp hg ha hb h h1 hw
theorem C03_assertGe_unsat {a b : LinComb} (hp : s.p = p) (hg : s.guard = none) (ha : a.lc.WF) (hb : b.lc.WF)
    (h : assertGe a b s = .ok (u, s')) (h1 : w .one = 1) (hw : NewSat s s' w) :
    InRange p s.bitlength (ev p w a.lc - ev p w b.lc) := assertGe_sound hp hg ha hb h h1 hw

/-- declaration as boolean: the wire is forced to 0/1 -/
theorem C03_boolean_unsat {x r : LinComb} (hp : s.p = p) (hg : s.guard = none) (hx : x.lc.WF)
    (h : mkBool x true s = .ok (r, s')) (h1 : w .one = 1) (hw : NewSat s s' w) :
    ev p w x.lc = 0 ∨ ev p w x.lc = 1 := (mkBool_sound hp hg hx h h1 hw).2.2

/-- declaration as n-bit (`to_bits(n)`): the WIDTH ENFORCED IS THE REQUESTED ONE -/
theorem C03_toBits_width {x : LinComb} {bits : Option Nat} {bs : List LinComb} (hp : s.p = p)
    (hg : s.guard = none) (hx : x.lc.WF) (h : toBits x bits s = .ok (bs, s')) (h1 : w .one = 1)
    (hw : NewSat s s' w) :
    bs.length = bits.getD s.bitlength ∧ InRange p (bits.getD s.bitlength) (ev p w x.lc) := by
  obtain ⟨hl, S, hS, hSe, -⟩ := toBits_sound hp hg hx h h1 hw
  exact ⟨hl, S, hS, hSe⟩

/-- `assert_positive(bits)`: the width enforced in-circuit is the requested one — the same the
run-time check uses (finding C03-assert-positive-width, repaired: before, the circuit used the
global bitlength) -/
theorem C03_assertPositive_width {x : LinComb} {bits : Option Nat} (hp : s.p = p) (hg : s.guard = none)
    (hx : x.lc.WF) (h : assertPositive x bits s = .ok (u, s')) (h1 : w .one = 1) (hw : NewSat s s' w) :
    InRange p (bits.getD s.bitlength) (ev p w x.lc) := assertPositive_sound hp hg hx h h1 hw

/-- regression witness of the repaired finding: with bitlength 8, `PrivVal(5).assert_positive(bits=2)`
is rejected at run time, and with error checks off the emitted circuit (now 2 bits wide: 3
constraints) is NOT satisfied by the recorded witness -/
theorem C03_assert_positive_width_regression :
    let s0 : St := St.init 97 8 8
    (match (do let x ← privVal 5; assertPositive x (some 2)) s0 with | .error .assertion => true | _ => false) = true ∧
    (match (do let x ← privVal 5; assertPositive x (some 2)) { s0 with ignoreErrors := true } with
      | .ok (_, s1) => s1.cons.length == 3 && !(s1.cons.all (fun c =>
          (LC.eval s1.assign c.1 * LC.eval s1.assign c.2.1 - LC.eval s1.assign c.2.2) % 97 == 0))
      | _ => false) = true := by
  decide +kernel

/-- `assert_range(lo, hi)` in-circuit: `x − lo ≥ 0` and `hi − x − 1 ≥ 0`, i.e. the half-open range
the run-time check applies (finding C03-assert-range-upper, repaired: before, `x = hi` was accepted) -/
theorem C03_assertRange_unsat {x lo hi : LinComb} (hp : s.p = p) (hg : s.guard = none)
    (hx : x.lc.WF) (hlo : lo.lc.WF) (hhi : hi.lc.WF)
    (h : assertRange x lo hi s = .ok (u, s')) (h1 : w .one = 1) (hw : NewSat s s' w) :
    InRange p s.bitlength (ev p w x.lc - ev p w lo.lc) ∧ InRange p s.bitlength (ev p w hi.lc - ev p w x.lc - 1) :=
  assertRange_sound hp hg hx hlo hhi h h1 hw

theorem C03_assert_range_upper_regression :
    let s0 : St := St.init 97 4 8
    (match (do let x ← privVal 2; assertRange x (LinComb.const 1) (LinComb.const 2)) s0 with
      | .error .assertion => true | _ => false) = true ∧
    (match (do let x ← privVal 2; assertRange x (LinComb.const 1) (LinComb.const 2)) { s0 with ignoreErrors := true } with
      | .ok (_, s1) => !(s1.cons.all (fun c =>
          (LC.eval s1.assign c.1 * LC.eval s1.assign c.2.1 - LC.eval s1.assign c.2.2) % 97 == 0))
      | _ => false) = true := by
  decide +kernel

/-- the run-time checks: exactly the integer relations, at the global bitlength for the range part -/
theorem C03_runtime_relations (a b : LinComb) (s : St) (hi : s.ignoreErrors = false) :
    (a.value ≥ b.value → assertLt a b s = .error .assertion) ∧
    (a.value > b.value → assertLe a b s = .error .assertion) ∧
    (a.value ≠ b.value → assertEq a b s = .error .assertion) ∧
    (a.value = b.value → assertNe a b s = .error .assertion) ∧
    (a.value ≤ b.value → assertGt a b s = .error .assertion) ∧
    (a.value < b.value → assertGe a b s = .error .assertion) ∧
    (a.value ≠ 0 → assertZero a s = .error .assertion) := by
  refine ⟨?_, ?_, ?_, ?_, ?_, ?_, ?_⟩ <;> intro h
  · unfold assertLt; simp [hi, h]
  · unfold assertLe; simp [hi, h]
  · unfold assertEq; simp [hi, h]
  · unfold assertNe; simp [hi, h]
  · unfold assertGt; simp [hi, h]
  · unfold assertGe; simp [hi, h]
  · unfold assertZero; simp [hi, h]

/-- satisfiable whenever true and accepted: an accepted assertion keeps the invariant, i.e. the
recorded witness satisfies everything emitted (any guard state) -/
theorem C03_sat {s s' : St} {a b : LinComb} {u : Unit} (hinv : Inv s) (ha : Good s a) (hb : Good s b)
    (h : assertLt a b s = .ok (u, s')) : Inv s' := (assertLt_spec hinv ha hb h).2.2

/-! non-vacuity -/
example : (match (do let x ← privVal 3; let y ← privVal 5; assertLt x y) (St.init 97 4 8) with
    | .ok (_, s1) => s1.cons.length == 5 | _ => false) = true := by decide +kernel

/-! ## program level: no satisfying assignment can violate an executed assertion

`claimsOf s0 prog` (`Spec/SoundProg.lean`) replays the run and lists, for every executed
`assert_zero/nonzero/eq/ne/lt/le/gt/ge/positive/range`, `to_bits(n)` and boolean declaration
(`LinCombBool(x)`, `PrivValBool`, `PubValBool`), the relation it claims over the wire expressions of
its operands (`Claim`): `lt n a b` is `b − a − 1 ∈ [0, 2^n)` in the field, `nonneg n x` is
`x ∈ [0, 2^n)`, `n` the width in force (the requested one for `assert_positive(n)`/`to_bits(n)`).
The fragment is the one of `C02_determined` (`SoundFragment`; it contains every assertion method). -/

/-- **C03, program level.**  For a completing run in the fragment and EVERY assignment `w'` (to
all wires, with the constant wire at 1) that satisfies every emitted constraint modulo `p`, the
relation of every executed assertion and declaration holds OF THE VALUES UNDER `w'`.  No agreement
with the recorded witness is needed: the assertions bind every prover. -/
theorem C03_program (p : ℕ) [Fact p.Prime] (bl res : ℕ) (hbl : 2 ^ (bl + 1) ≤ p)
    (prog : List Instr) (hfrag : SoundFragment (St.init p bl res) prog)
    (out : Out) (hout : run (St.init p bl res) prog = out) (herr : out.err = none)
    (w' : Wire → Int) (h1 : w' .one = 1)
    (hsat : ∀ c ∈ out.st.cons, Sat (p : Int) w' c) :
    ∀ c ∈ claimsOf (St.init p bl res) prog, c.holds (p : Int) w' :=
  run_claims p bl res hbl prog hfrag out hout herr w' h1 hsat

/-- a multiple of `p` strictly between `-p` and `p` is 0 -/
theorem eq_zero_of_emod_of_lt {p : ℕ} {x : Int} (h : x % (p : Int) = 0) (hlo : -(p : Int) < x)
    (hhi : x < (p : Int)) : x = 0 :=
  Int.eq_zero_of_abs_lt_dvd (Int.dvd_of_emod_eq_zero h) (abs_lt.mpr ⟨hlo, hhi⟩)

/-- integer reading of an order claim: when the integer `b − a − 1` computed from the values under
`w'` is range-bounded (no wrap-around: it lies strictly between `−(p − 2^n)` and `p`), the field
statement is the integer inequality `a < b` -/
theorem C03_lt_integer {p n : ℕ} {w : Wire → Int} {a b : LC} (hn : 2 ^ n ≤ p)
    (h : (Claim.lt n a b).holds (p : Int) w)
    (hlo : -((p : Int) - 2 ^ n) < LC.eval w b - LC.eval w a - 1)
    (hhi : LC.eval w b - LC.eval w a - 1 < (p : Int)) : LC.eval w a < LC.eval w b := by
  obtain ⟨S, hS, hE⟩ := h
  unfold EqMod at hE
  have hS' : (S : Int) < 2 ^ n := by exact_mod_cast hS
  have hn' : ((2 : Int) ^ n) ≤ (p : Int) := by exact_mod_cast hn
  have hS0 : (0 : Int) ≤ S := Int.natCast_nonneg S
  have hd := eq_zero_of_emod_of_lt hE (by omega) (by omega)
  omega

/-- likewise for `≤` -/
theorem C03_le_integer {p n : ℕ} {w : Wire → Int} {a b : LC} (hn : 2 ^ n ≤ p)
    (h : (Claim.le n a b).holds (p : Int) w)
    (hlo : -((p : Int) - 2 ^ n) < LC.eval w b - LC.eval w a)
    (hhi : LC.eval w b - LC.eval w a < (p : Int)) : LC.eval w a ≤ LC.eval w b := by
  obtain ⟨S, hS, hE⟩ := h
  unfold EqMod at hE
  have hS' : (S : Int) < 2 ^ n := by exact_mod_cast hS
  have hn' : ((2 : Int) ^ n) ≤ (p : Int) := by exact_mod_cast hn
  have hS0 : (0 : Int) ≤ S := Int.natCast_nonneg S
  have hd := eq_zero_of_emod_of_lt hE (by omega) (by omega)
  omega

/-! non-vacuity of `C03_program`: the 14-instruction program `c03Prog` (two inputs, a product, two
comparisons, a selection, an exact division, `b.assert_lt(a)`, `(a/b).assert_eq(2)`) completes
inside the fragment over `p = 97`, bit length 4; its claims are `b < a` at width 4 and
`a/b = 2`; the recorded assignment satisfies the 24 constraints -/
def c03Prog : List Instr :=
  [.lit (.int 6), .lit (.int 3), .mk .priv 0, .mk .priv 1, .bin .mul 2 3, .bin .lt 3 2, .bin .ge 2 3,
   .ite 5 2 3, .bin .truediv 2 3, .call .assertLt 3 [2], .lit (.int 2), .bin .eq 8 10, .bin .band 5 6,
   .call .assertEq 8 [10]]

example :
    (2 : ℕ) ^ (4 + 1) ≤ 97 ∧ SoundFragment (St.init 97 4 8) c03Prog ∧
    claimsOf (St.init 97 4 8) c03Prog =
      [.lt 4 [(Wire.priv 1, 1)] [(Wire.priv 0, 1)], .eq [(Wire.priv 14, 1)] [(Wire.one, 2)]] ∧
    (let out := run (St.init 97 4 8) c03Prog
     out.err.isNone && (out.st.cons.length == 24) && out.st.cons.all (satB 97 out.st.assign)) = true := by
  refine ⟨by decide, ?_, ?_, ?_⟩
  · first | decide +kernel | fail "c03Prog is not in the fragment"
  · first | decide +kernel | fail "c03Prog: unexpected claims"
  · first | decide +kernel | fail "c03Prog: run check failed"

end Pysnark
